import Blue.Model.Gc
namespace Blue.Gc
variable {K : Type} [DecidableEq K]

def AllKey (k : K) (g : List (Ent K)) : Prop := ∀ e ∈ g, e.key = k

/-- the determiner's state, seen from key `k`: it is counting `k` and has counted `c`, or it is
    still on another key (and will start from scratch) -/
def Sim (vs : VState K) (k : K) (c : Nat) : Prop :=
  (vs.key = some k ∧ vs.count = c) ∨ (vs.key ≠ some k ∧ c = 0)

theorem vRetain_sim (n : Nat) (hn : 1 ≤ n) (vs : VState K) (k : K) (c : Nat) (tombs : List Nat)
    (h : Sim vs k c) :
    (vRetain n vs k tombs).1 = decide ((if tombs.isEmpty then c + 1 else c + 2) ≤ n)
      ∧ Sim (vRetain n vs k tombs).2 k (if tombs.isEmpty then c + 1 else c + 2)
      ∧ (vRetain n vs k tombs).2.key = some k := by
  rcases h with ⟨h1, h2⟩ | ⟨h1, h2⟩
  · have e : vRetain n vs k tombs
        = (decide ((if tombs.isEmpty then vs.count + 1 else vs.count + 2) ≤ n),
           ⟨vs.key, if tombs.isEmpty then vs.count + 1 else vs.count + 2⟩) := by
      unfold vRetain
      rw [if_neg (by simp [h1])]
    rw [e, h2]
    exact ⟨rfl, Or.inl ⟨h1, rfl⟩, h1⟩
  · subst h2
    cases ht : tombs.isEmpty with
    | true =>
      have e : vRetain n vs k tombs = (true, ⟨some k, 1⟩) := by
        unfold vRetain; rw [if_pos h1, ht]; rfl
      rw [e]
      refine ⟨?_, Or.inl ⟨rfl, rfl⟩, rfl⟩
      simp only [if_true]
      exact (decide_eq_true (by omega)).symm
    | false =>
      have e : vRetain n vs k tombs = (decide (2 ≤ n), ⟨some k, 2⟩) := by
        unfold vRetain; rw [if_pos h1, ht]; rfl
      rw [e]
      exact ⟨rfl, Or.inl ⟨rfl, rfl⟩, rfl⟩

/-- inside one key's run the collector's loop is `gcGroup` -/
theorem gcLoop_group (n : Nat) (hn : 1 ≤ n) (k : K) (rest : List (Ent K)) :
    ∀ (g : List (Ent K)), AllKey k g → ∀ (tombs : List Nat) (vs : VState K) (c : Nat), Sim vs k c →
      ∃ tombs' vs', gcLoop n (g ++ rest) k tombs vs = gcGroup n k g tombs c ++ gcLoop n rest k tombs' vs'
        ∧ (vs' = vs ∨ vs'.key = some k) := by
  intro g
  induction g with
  | nil => intro _ tombs vs c _; exact ⟨tombs, vs, by simp [gcGroup], Or.inl rfl⟩
  | cons e g ih =>
    intro hall tombs vs c hsim
    have hek : e.key = k := hall e (List.mem_cons_self ..)
    have hall' : AllKey k g := fun x hx => hall x (List.mem_cons_of_mem _ hx)
    simp only [List.cons_append, gcLoop, gcGroup, hek, if_true]
    cases ht : e.tomb with
    | true =>
      simp only [if_true]
      exact ih hall' (tombs ++ [e.ts]) vs c hsim
    | false =>
      simp only [Bool.false_eq_true, if_false]
      obtain ⟨h1, h2, h3⟩ := vRetain_sim n hn vs k c tombs hsim
      obtain ⟨tombs', vs', heq, hvs⟩ := ih hall' [] (vRetain n vs k tombs).2 _ h2
      rw [h1]
      by_cases hc : (if tombs.isEmpty then c + 1 else c + 2) ≤ n
      · simp only [hc, decide_true, if_true]
        refine ⟨tombs', vs', by rw [heq, List.append_assoc], ?_⟩
        rcases hvs with hvs | hvs
        · right; rw [hvs]; exact h3
        · right; exact hvs
      · simp only [hc, decide_false, Bool.false_eq_true, if_false]
        refine ⟨tombs', vs', heq, ?_⟩
        rcases hvs with hvs | hvs
        · right; rw [hvs]; exact h3
        · right; exact hvs

/-- `key_backing` only matters for resetting the tombstone list -/
theorem gcLoop_switch (n : Nat) (e : Ent K) (rest : List (Ent K)) (kb : K) (tombs : List Nat) (vs : VState K)
    (h : kb ≠ e.key) : gcLoop n (e :: rest) kb tombs vs = gcLoop n (e :: rest) e.key [] vs := by
  simp only [gcLoop, h, if_false, if_true]

/-- the input as runs of one key each, with pairwise distinct keys (what sortedness gives) -/
def flat (gs : List (K × List (Ent K))) : List (Ent K) := gs.flatMap (·.2)

structure Runs (gs : List (K × List (Ent K))) : Prop where
  allKey : ∀ p ∈ gs, AllKey p.1 p.2
  nonempty : ∀ p ∈ gs, p.2 ≠ []
  distinct : (gs.map (·.1)).Nodup

theorem gcLoop_runs (n : Nat) (hn : 1 ≤ n) :
    ∀ (gs : List (K × List (Ent K))), Runs gs → ∀ (kb : K) (tombs : List Nat) (vs : VState K),
      (∀ k, vs.key = some k → k ∉ gs.map (·.1)) →
      (∀ p ∈ gs.head?, kb ≠ p.1 ∨ tombs = []) →
      gcLoop n (flat gs) kb tombs vs = gs.flatMap (fun p => gcGroup n p.1 p.2 [] 0) := by
  intro gs
  induction gs with
  | nil => intro _ kb tombs vs _ _; simp [flat, gcLoop]
  | cons p gs ih =>
    intro hr kb tombs vs hvs hkb
    obtain ⟨k, g⟩ := p
    have hall : AllKey k g := hr.allKey (k, g) (List.mem_cons_self ..)
    have hne : g ≠ [] := hr.nonempty (k, g) (List.mem_cons_self ..)
    have hr' : Runs gs := ⟨fun q hq => hr.allKey q (List.mem_cons_of_mem _ hq),
      fun q hq => hr.nonempty q (List.mem_cons_of_mem _ hq), (List.nodup_cons.mp hr.distinct).2⟩
    have hknot : k ∉ gs.map (·.1) := (List.nodup_cons.mp hr.distinct).1
    obtain ⟨e, g', rfl⟩ := List.exists_cons_of_ne_nil hne
    have hek : e.key = k := hall e (List.mem_cons_self ..)
    -- enter the run with an empty tombstone list and `key_backing = k`
    have hstart : gcLoop n (flat ((k, e :: g') :: gs)) kb tombs vs
        = gcLoop n ((e :: g') ++ flat gs) k [] vs := by
      simp only [flat, List.flatMap_cons]
      by_cases hkk : kb = e.key
      · have := hkb (k, e :: g') (by simp)
        rcases this with h | h
        · exact absurd (hkk.trans hek) h
        · subst h; rw [hkk, hek]
      · rw [List.cons_append, gcLoop_switch n e _ kb tombs vs hkk, hek]
    have hsim : Sim vs k 0 := by
      right
      refine ⟨?_, rfl⟩
      intro h
      exact hvs k h (by simp)
    obtain ⟨tombs', vs', heq, hvs'⟩ := gcLoop_group n hn k (flat gs) (e :: g') hall [] vs 0 hsim
    rw [hstart, heq]
    simp only [List.flatMap_cons]
    congr 1
    apply ih hr' k tombs' vs'
    · intro k' hk' hmem
      rcases hvs' with h | h
      · rw [h] at hk'; exact hvs k' hk' (List.mem_cons_of_mem _ hmem)
      · rw [h] at hk'; cases hk'; exact hknot hmem
    · intro q hq
      left
      intro h
      apply hknot
      have : q ∈ gs := by
        cases gs with
        | nil => simp at hq
        | cons a t => simp at hq; subst hq; exact List.mem_cons_self ..
      rw [h]
      exact List.mem_map.mpr ⟨q, this, rfl⟩

/-- **C05** the collector's output, run by run -/
theorem gc_runs (n : Nat) (hn : 1 ≤ n) (gs : List (K × List (Ent K))) (hr : Runs gs) :
    gc n (flat gs) = gs.flatMap (fun p => gcGroup n p.1 p.2 [] 0) := by
  unfold gc
  cases hfl : flat gs with
  | nil =>
    cases gs with
    | nil => rfl
    | cons p t =>
      exfalso
      have := hr.nonempty p (List.mem_cons_self ..)
      simp only [flat, List.flatMap_cons, List.append_eq_nil_iff] at hfl
      exact this hfl.1
  | cons e m =>
    simp only
    rw [← hfl]
    apply gcLoop_runs n hn gs hr e.key [] ⟨none, 0⟩
    · intro k hk; cases hk
    · intro _ _; right; rfl

/-- once the count has reached `n`, nothing more of this key is kept -/
theorem gcGroup_exhausted (n : Nat) (k : K) :
    ∀ (g : List (Ent K)) (tombs : List Nat) (c : Nat), n ≤ c → gcGroup n k g tombs c = [] := by
  intro g
  induction g with
  | nil => intros; rfl
  | cons e g ih =>
    intro tombs c hc
    simp only [gcGroup]
    cases e.tomb with
    | true => simp only [if_true]; exact ih _ c hc
    | false =>
      simp only [Bool.false_eq_true, if_false]
      have : ¬ ((if tombs.isEmpty then c + 1 else c + 2) ≤ n) := by split <;> omega
      rw [if_neg this]
      apply ih
      split <;> omega

/-- **C05** the entry that decides the current value of a key is never collected: if the newest
    version of the key is a value, it is the first thing kept for the key -/
theorem newest_value_kept (n : Nat) (hn : 1 ≤ n) (k : K) (e : Ent K) (g : List (Ent K)) (he : e.tomb = false) :
    ∃ out, gcGroup n k (e :: g) [] 0 = (k, e.ts) :: out := by
  simp only [gcGroup, he, Bool.false_eq_true, if_false, List.isEmpty_nil, if_true]
  have : 0 + 1 ≤ n := by omega
  rw [if_pos this]
  exact ⟨_, rfl⟩

/-- **C05** a key whose newest version is a tombstone stays deleted: whatever is kept for it
    starts with one of its leading tombstones (or nothing is kept) -/
theorem tombstone_stays (n : Nat) (k : K) :
    ∀ (g : List (Ent K)) (tombs : List Nat), tombs ≠ [] →
      gcGroup n k g tombs 0 = [] ∨
      ∃ t out, gcGroup n k g tombs 0 = (k, t) :: out ∧ (t ∈ tombs ∨ ∃ e ∈ g, e.tomb = true ∧ e.ts = t) := by
  intro g
  induction g with
  | nil => intro tombs _; left; rfl
  | cons e g ih =>
    intro tombs hne
    simp only [gcGroup]
    cases he : e.tomb with
    | true =>
      simp only [if_true]
      rcases ih (tombs ++ [e.ts]) (by simp) with h | ⟨t, out, h1, h2⟩
      · left; exact h
      · right
        refine ⟨t, out, h1, ?_⟩
        rcases h2 with h2 | ⟨e', he', h3⟩
        · rw [List.mem_append] at h2
          rcases h2 with h2 | h2
          · left; exact h2
          · right; simp at h2; exact ⟨e, List.mem_cons_self .., he, h2.symm⟩
        · right; exact ⟨e', List.mem_cons_of_mem _ he', h3⟩
    | false =>
      simp only [Bool.false_eq_true, if_false]
      have hemp : tombs.isEmpty = false := by
        cases tombs with
        | nil => exact absurd rfl hne
        | cons a t => rfl
      rw [hemp]
      simp only [Bool.false_eq_true, if_false]
      by_cases hc : 0 + 2 ≤ n
      · rw [if_pos hc]
        right
        have hlast : tombs.getLast? = some (tombs.getLast hne) := List.getLast?_eq_some_getLast hne
        unfold emit
        rw [hlast]
        exact ⟨tombs.getLast hne, _, rfl, Or.inl (List.getLast_mem hne)⟩
      · rw [if_neg hc]
        left
        exact gcGroup_exhausted n k g [] (0 + 2) (by omega)

end Blue.Gc

#print axioms Blue.Gc.gc_runs
#print axioms Blue.Gc.newest_value_kept
#print axioms Blue.Gc.tombstone_stays
