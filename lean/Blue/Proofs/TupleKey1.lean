import Blue.Model.TupleKey1
import Blue.Proofs.Digits
namespace Blue.TupleKey1
open Blue.TupleKey2 (blt Strong blt_cons_lt blt_cons_same digits digits_strong digits_strong_anti digits_congr blt_append_left slt)

/-- continuation byte of a 7-bit digit -/
def cont (d : Nat) : Nat := 2 * d + 1

theorem cont_mono : ∀ a b, a < b → b < 128 → cont a < cont b := by
  intro a b h _; unfold cont; omega

/-- descending: inverted digit, continuation bit kept -/
def rcont (d : Nat) : Nat := 2 * (127 - d) + 1

theorem encU32_digits (x : Nat) (hx : x < 4294967296) :
    encU32 x = (digits 128 (x / 16) 4).map cont ++ [x % 16 * 16] := by
  simp only [encU32, digits, List.map_cons, List.map_nil, List.cons_append, List.nil_append, or1, cont,
    Nat.reducePow, Nat.div_one]
  refine List.cons_eq_cons.mpr ⟨by omega, ?_⟩
  refine List.cons_eq_cons.mpr ⟨by omega, ?_⟩
  refine List.cons_eq_cons.mpr ⟨by omega, ?_⟩
  refine List.cons_eq_cons.mpr ⟨by omega, ?_⟩
  rfl

/-- **C16** `u32` elements, ascending -/
theorem encU32_strong : Strong encU32 (fun a b => a < b ∧ b < 4294967296) := by
  intro a b ⟨hab, hb⟩ x y
  rw [encU32_digits a (by omega), encU32_digits b hb]
  simp only [List.append_assoc]
  have ha16 : a / 16 < 128 ^ 4 := by simp only [Nat.reducePow]; omega
  have hb16 : b / 16 < 128 ^ 4 := by simp only [Nat.reducePow]; omega
  rcases Nat.lt_or_ge (a / 16) (b / 16) with h | h
  · apply digits_strong 128 (by omega) cont cont_mono
    rw [Nat.mod_eq_of_lt ha16, Nat.mod_eq_of_lt hb16]; exact h
  · have heq : a / 16 = b / 16 := by omega
    rw [heq, blt_append_left]
    simp only [List.cons_append, List.nil_append]
    exact blt_cons_lt (by omega) _ _

theorem rcont_anti : ∀ a b, a < b → b < 128 → rcont b < rcont a := by
  intro a b h hb; unfold rcont; omega

theorem digits_lt (B : Nat) (hB : 0 < B) (v : Nat) : ∀ L, ∀ d ∈ digits B v L, d < B
  | 0 => by intro d hd; cases hd
  | L+1 => by
    intro d hd
    simp only [digits, List.mem_cons] at hd
    rcases hd with rfl | hd
    · exact Nat.mod_lt _ hB
    · exact digits_lt B hB v L d hd

theorem reverse_cont (ds : List Nat) (h : ∀ d ∈ ds, d < 128) : reverse (ds.map cont) = ds.map rcont := by
  unfold reverse
  rw [List.map_map]
  apply List.map_congr_left
  intro d hd
  have := h d hd
  simp only [Function.comp, revByte, cont, rcont]
  omega

/-- **C16** `u32` elements, descending -/
theorem encU32_rev_strong : Strong (fun v => reverse (encU32 v)) (fun a b => b < a ∧ a < 4294967296) := by
  intro a b ⟨hab, ha⟩ x y
  simp only
  rw [encU32_digits a ha, encU32_digits b (by omega)]
  unfold reverse
  rw [List.map_append, List.map_append]
  have r1 := reverse_cont (digits 128 (a / 16) 4) (digits_lt 128 (by omega) _ 4)
  have r2 := reverse_cont (digits 128 (b / 16) 4) (digits_lt 128 (by omega) _ 4)
  unfold reverse at r1 r2
  rw [r1, r2]
  simp only [List.append_assoc]
  have ha16 : a / 16 < 128 ^ 4 := by simp only [Nat.reducePow]; omega
  have hb16 : b / 16 < 128 ^ 4 := by simp only [Nat.reducePow]; omega
  rcases Nat.lt_or_ge (b / 16) (a / 16) with h | h
  · apply digits_strong_anti 128 (by omega) rcont rcont_anti
    rw [Nat.mod_eq_of_lt ha16, Nat.mod_eq_of_lt hb16]; exact h
  · have heq : a / 16 = b / 16 := by omega
    rw [heq, blt_append_left]
    simp only [List.map_cons, List.map_nil, List.cons_append, List.nil_append, revByte]
    exact blt_cons_lt (by omega) _ _

theorem encU64_digits (x : Nat) (hx : x < 18446744073709551616) :
    encU64 x = (digits 128 (x / 2) 9).map cont ++ [x % 2 * 128] := by
  simp only [encU64, digits, List.map_cons, List.map_nil, List.cons_append, List.nil_append, or1, cont,
    Nat.reducePow, Nat.div_one]
  refine List.cons_eq_cons.mpr ⟨by omega, ?_⟩
  refine List.cons_eq_cons.mpr ⟨by omega, ?_⟩
  refine List.cons_eq_cons.mpr ⟨by omega, ?_⟩
  refine List.cons_eq_cons.mpr ⟨by omega, ?_⟩
  refine List.cons_eq_cons.mpr ⟨by omega, ?_⟩
  refine List.cons_eq_cons.mpr ⟨by omega, ?_⟩
  refine List.cons_eq_cons.mpr ⟨by omega, ?_⟩
  refine List.cons_eq_cons.mpr ⟨by omega, ?_⟩
  refine List.cons_eq_cons.mpr ⟨by omega, ?_⟩
  rfl

/-- **C16** `u64` elements, ascending -/
theorem encU64_strong : Strong encU64 (fun a b => a < b ∧ b < 18446744073709551616) := by
  intro a b ⟨hab, hb⟩ x y
  rw [encU64_digits a (by omega), encU64_digits b hb]
  simp only [List.append_assoc]
  have ha2 : a / 2 < 128 ^ 9 := by simp only [Nat.reducePow]; omega
  have hb2 : b / 2 < 128 ^ 9 := by simp only [Nat.reducePow]; omega
  rcases Nat.lt_or_ge (a / 2) (b / 2) with h | h
  · apply digits_strong 128 (by omega) cont cont_mono
    rw [Nat.mod_eq_of_lt ha2, Nat.mod_eq_of_lt hb2]; exact h
  · have heq : a / 2 = b / 2 := by omega
    rw [heq, blt_append_left]
    simp only [List.cons_append, List.nil_append]
    exact blt_cons_lt (by omega) _ _

/-- **C16** signed elements: the offset map is strictly increasing on the type's range -/
theorem encI32_strong :
    Strong encI32 (fun a b => a < b ∧ -2147483648 ≤ a ∧ b < 2147483648) := by
  intro a b ⟨hab, ha, hb⟩ x y
  unfold encI32
  apply encU32_strong
  unfold offsetI32
  omega

theorem encI64_strong :
    Strong encI64 (fun a b => a < b ∧ -9223372036854775808 ≤ a ∧ b < 9223372036854775808) := by
  intro a b ⟨hab, ha, hb⟩ x y
  unfold encI64
  apply encU64_strong
  unfold offsetI64
  omega

/-- **C16 / D-20** descending strings do *not* sort in reverse: `""` and `"\0"` (the extension by
    zero bits) keep their ascending order after `reverse_encoding`, because the continuation bit
    is not inverted. -/
theorem string_desc_counterexample :
    ¬ Strong (fun s => reverse (encString s)) (fun a b => slt b a) := by
  intro h
  have := h [0] [] (by simp [slt]) [] []
  revert this
  decide

end Blue.TupleKey1

#print axioms Blue.TupleKey1.encU32_strong
#print axioms Blue.TupleKey1.encU32_rev_strong
#print axioms Blue.TupleKey1.encU64_strong
#print axioms Blue.TupleKey1.encI64_strong
#print axioms Blue.TupleKey1.string_desc_counterexample
