import Blue.Proofs.SpecOrder
/-! **C01** point reads: early-exit lookup through components ordered "newer above" returns the
    visible version of the whole store. -/
namespace Blue.Spec
variable {K : Type} [DecidableEq K]

/-- `e` is the version of `k` a read at `t` must see in the set `E`: newest with `ts ≤ t` -/
def IsVisible (E : List (Ver K)) (k : K) (t : Nat) (e : Ver K) : Prop :=
  e ∈ E ∧ e.1 = k ∧ e.2 ≤ t ∧ ∀ e' ∈ E, e'.1 = k → e'.2 ≤ t → e'.2 ≤ e.2

/-- nothing of `k` is visible at `t` -/
def NoneVisible (E : List (Ver K)) (k : K) (t : Nat) : Prop := ∀ e ∈ E, e.1 = k → ¬ e.2 ≤ t

/-- the per-component lookup (memtable `load`, `Sst::load`): the newest version of `k` not newer than
    `t` in this component, computed by a scan -/
def lookupComp (c : List (Ver K)) (k : K) (t : Nat) : Option (Ver K) :=
  c.foldl (fun best e =>
    if e.1 = k ∧ e.2 ≤ t then
      match best with
      | none => some e
      | some b => if b.2 < e.2 then some e else some b
    else best) none

/-- `Version::load` / `KeyValueStore::load`: components in order, first hit wins -/
def load : List (List (Ver K)) → K → Nat → Option (Ver K)
  | [], _, _ => none
  | c :: cs, k, t => match lookupComp c k t with
    | some e => some e
    | none => load cs k t

theorem lookupComp_spec_aux (k : K) (t : Nat) :
    ∀ (c : List (Ver K)) (best : Option (Ver K)) (seen : List (Ver K)),
      (match best with
       | none => NoneVisible seen k t
       | some b => IsVisible seen k t b) →
      (match c.foldl (fun best e =>
          if e.1 = k ∧ e.2 ≤ t then
            match best with
            | none => some e
            | some b => if b.2 < e.2 then some e else some b
          else best) best with
       | none => NoneVisible (seen ++ c) k t
       | some b => IsVisible (seen ++ c) k t b) := by
  intro c
  induction c with
  | nil => intro best seen h; simpa using h
  | cons e c ih =>
    intro best seen h
    simp only [List.foldl_cons]
    have happ : seen ++ e :: c = (seen ++ [e]) ++ c := by simp
    rw [happ]
    apply ih
    by_cases hc : e.1 = k ∧ e.2 ≤ t
    · rw [if_pos hc]
      cases best with
      | none =>
        simp only at h ⊢
        refine ⟨by simp, hc.1, hc.2, ?_⟩
        intro e' he' hk ht
        rw [List.mem_append] at he'
        rcases he' with he' | he'
        · exact absurd ht (h e' he' hk)
        · simp at he'; subst he'; exact Nat.le_refl _
      | some b =>
        simp only at h ⊢
        obtain ⟨hb1, hb2, hb3, hb4⟩ := h
        by_cases hlt : b.2 < e.2
        · rw [if_pos hlt]
          refine ⟨by simp, hc.1, hc.2, ?_⟩
          intro e' he' hk ht
          rw [List.mem_append] at he'
          rcases he' with he' | he'
          · have := hb4 e' he' hk ht; omega
          · simp at he'; subst he'; exact Nat.le_refl _
        · rw [if_neg hlt]
          refine ⟨by simp [hb1], hb2, hb3, ?_⟩
          intro e' he' hk ht
          rw [List.mem_append] at he'
          rcases he' with he' | he'
          · exact hb4 e' he' hk ht
          · simp at he'; subst he'; omega
    · rw [if_neg hc]
      cases best with
      | none =>
        simp only at h ⊢
        intro e' he' hk
        rw [List.mem_append] at he'
        rcases he' with he' | he'
        · exact h e' he' hk
        · simp at he'; subst he'; intro ht; exact hc ⟨hk, ht⟩
      | some b =>
        simp only at h ⊢
        obtain ⟨hb1, hb2, hb3, hb4⟩ := h
        refine ⟨by simp [hb1], hb2, hb3, ?_⟩
        intro e' he' hk ht
        rw [List.mem_append] at he'
        rcases he' with he' | he'
        · exact hb4 e' he' hk ht
        · simp at he'; subst he'; exact absurd ⟨hk, ht⟩ hc

theorem lookupComp_spec (c : List (Ver K)) (k : K) (t : Nat) :
    match lookupComp c k t with
    | none => NoneVisible c k t
    | some b => IsVisible c k t b := by
  have := lookupComp_spec_aux k t c none [] (by intro e he; cases he)
  simpa [lookupComp] using this

/-- I2, "newer above": every version of a key in an earlier component is newer than every version
    of that key in a later one -/
def NewerAbove : List (List (Ver K)) → Prop
  | [] => True
  | c :: cs => (∀ a ∈ c, ∀ d ∈ cs, ∀ b ∈ d, a.1 = b.1 → b.2 < a.2) ∧ NewerAbove cs

/-- **C01** `load_visible`: under "newer above", the early-exit lookup returns exactly the visible
    version of the union of all components (and `none` exactly when nothing is visible) -/
theorem load_visible : ∀ (cs : List (List (Ver K))) (k : K) (t : Nat), NewerAbove cs →
    match load cs k t with
    | none => NoneVisible cs.flatten k t
    | some b => IsVisible cs.flatten k t b := by
  intro cs
  induction cs with
  | nil => intro k t _; simp [load, NoneVisible]
  | cons c cs ih =>
    intro k t h
    obtain ⟨hab, hrest⟩ := h
    have hc := lookupComp_spec c k t
    have hr := ih k t hrest
    simp only [load, List.flatten_cons]
    cases hl : lookupComp c k t with
    | some b =>
      rw [hl] at hc
      simp only at hc ⊢
      obtain ⟨hb1, hb2, hb3, hb4⟩ := hc
      refine ⟨List.mem_append_left _ hb1, hb2, hb3, ?_⟩
      intro e' he' hk ht
      rw [List.mem_append] at he'
      rcases he' with he' | he'
      · exact hb4 e' he' hk ht
      · -- deeper versions of the key are older than the hit
        obtain ⟨d, hd, hed⟩ := List.mem_flatten.mp he'
        have := hab b hb1 d hd e' hed (by rw [hb2, hk])
        omega
    | none =>
      rw [hl] at hc
      simp only at hc ⊢
      cases hld : load cs k t with
      | none =>
        rw [hld] at hr
        simp only at hr ⊢
        intro e he hk
        rw [List.mem_append] at he
        rcases he with he | he
        · exact hc e he hk
        · exact hr e he hk
      | some b =>
        rw [hld] at hr
        simp only at hr ⊢
        obtain ⟨hb1, hb2, hb3, hb4⟩ := hr
        refine ⟨List.mem_append_right _ hb1, hb2, hb3, ?_⟩
        intro e' he' hk ht
        rw [List.mem_append] at he'
        rcases he' with he' | he'
        · exact absurd ht (hc e' he' hk)
        · exact hb4 e' he' hk ht

/-- non-vacuity: a two-component store where the shallower component shadows the deeper one -/
example : load [[((1 : Nat), 5)], [(1, 3), (2, 4)]] 1 9 = some (1, 5) := by decide
instance decNewerAbove : (cs : List (List (Ver K))) → Decidable (NewerAbove cs)
  | [] => isTrue trivial
  | c :: cs => by
    unfold NewerAbove
    have := decNewerAbove cs
    exact inferInstance

example : NewerAbove [[((1 : Nat), 5)], [(1, 3), (2, 4)]] := by decide

end Blue.Spec

#print axioms Blue.Spec.load_visible
