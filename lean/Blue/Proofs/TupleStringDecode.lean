import Blue.Proofs.TupleString
/-! **C16** the string element's decoder (`Combine7BitChunks` + `parse_from`): the seven data bits
    of every byte are concatenated and cut into bytes; the (fewer than eight) padding bits at the
    end are dropped.  Decoding an encoding gives the string back. -/
namespace Blue.TupleKey1
open Blue.TupleKey2

theorem bits7_val7 (l : List Nat) (hb : Bits l) (hl : l.length ≤ 7) :
    bits7 (val7 l 7) = l ++ List.replicate (7 - l.length) 0 := by
  have bit : ∀ b ∈ l, b < 2 := hb
  match l, hl with
  | [], _ => rfl
  | [a], _ =>
    have := bit a (by simp)
    simp only [val7, bits7, List.length_cons, List.length_nil, List.replicate, List.cons_append, List.nil_append]
    simp only [List.cons.injEq, and_true]
    refine ⟨?_, ?_, ?_, ?_, ?_, ?_, ?_⟩ <;> omega
  | [a, b], _ =>
    have := bit a (by simp); have := bit b (by simp)
    simp only [val7, bits7, List.length_cons, List.length_nil, List.replicate, List.cons_append, List.nil_append]
    simp only [List.cons.injEq, and_true]
    refine ⟨?_, ?_, ?_, ?_, ?_, ?_, ?_⟩ <;> omega
  | [a, b, c], _ =>
    have := bit a (by simp); have := bit b (by simp); have := bit c (by simp)
    simp only [val7, bits7, List.length_cons, List.length_nil, List.replicate, List.cons_append, List.nil_append]
    simp only [List.cons.injEq, and_true]
    refine ⟨?_, ?_, ?_, ?_, ?_, ?_, ?_⟩ <;> omega
  | [a, b, c, d], _ =>
    have := bit a (by simp); have := bit b (by simp); have := bit c (by simp); have := bit d (by simp)
    simp only [val7, bits7, List.length_cons, List.length_nil, List.replicate, List.cons_append, List.nil_append]
    simp only [List.cons.injEq, and_true]
    refine ⟨?_, ?_, ?_, ?_, ?_, ?_, ?_⟩ <;> omega
  | [a, b, c, d, e], _ =>
    have := bit a (by simp); have := bit b (by simp); have := bit c (by simp); have := bit d (by simp)
    have := bit e (by simp)
    simp only [val7, bits7, List.length_cons, List.length_nil, List.replicate, List.cons_append, List.nil_append]
    simp only [List.cons.injEq, and_true]
    refine ⟨?_, ?_, ?_, ?_, ?_, ?_, ?_⟩ <;> omega
  | [a, b, c, d, e, f], _ =>
    have := bit a (by simp); have := bit b (by simp); have := bit c (by simp); have := bit d (by simp)
    have := bit e (by simp); have := bit f (by simp)
    simp only [val7, bits7, List.length_cons, List.length_nil, List.replicate, List.cons_append, List.nil_append]
    simp only [List.cons.injEq, and_true]
    refine ⟨?_, ?_, ?_, ?_, ?_, ?_, ?_⟩ <;> omega
  | [a, b, c, d, e, f, g], _ =>
    have := bit a (by simp); have := bit b (by simp); have := bit c (by simp); have := bit d (by simp)
    have := bit e (by simp); have := bit f (by simp); have := bit g (by simp)
    show bits7 (val7 [a, b, c, d, e, f, g] 7) = [a, b, c, d, e, f, g] ++ []
    simp only [val7, bits7, List.append_nil]
    simp only [List.cons.injEq, and_true]
    refine ⟨?_, ?_, ?_, ?_, ?_, ?_, ?_⟩ <;> omega
  | _ :: _ :: _ :: _ :: _ :: _ :: _ :: _ :: _, h =>
    simp at h

theorem decBits_cons (b : Nat) (cs : List Nat) : decBits (b :: cs) = bits7 (b / 2) ++ decBits cs := by
  simp [decBits]

theorem bits7_length (d : Nat) : (bits7 d).length = 7 := rfl

/-- the data bits of the chunk sequence are the bit string followed by its zero padding -/
theorem decBits_chunks : ∀ (n : Nat) (bl : List Nat), bl.length ≤ n → Bits bl → ∀ f, bl.length < f →
    decBits (chunks f bl) = bl ++ List.replicate ((7 - bl.length % 7) % 7) 0 := by
  intro n
  induction n with
  | zero =>
    intro bl hl _ f hf
    have : bl = [] := List.length_eq_zero_iff.mp (by omega)
    subst this
    obtain ⟨f', rfl⟩ : ∃ k, f = k + 1 := ⟨f - 1, by omega⟩
    simp [chunks_succ, decBits]
  | succ n ih =>
    intro bl hl hb f hf
    obtain ⟨f', rfl⟩ : ∃ k, f = k + 1 := ⟨f - 1, by omega⟩
    rw [chunks_succ]
    by_cases h7 : bl.length > 7
    · rw [if_pos h7, decBits_cons]
      have hv : (2 * val7 (bl.take 7) 7 + 1) / 2 = val7 (bl.take 7) 7 := by omega
      rw [hv, bits7_val7 (bl.take 7) (fun b hb' => hb b (List.mem_of_mem_take hb'))
        (by rw [List.length_take]; omega)]
      rw [ih (bl.drop 7) (by rw [List.length_drop]; omega) (fun b hb' => hb b (List.mem_of_mem_drop hb')) f'
        (by rw [List.length_drop]; omega)]
      have hlt : (bl.take 7).length = 7 := by rw [List.length_take]; omega
      rw [hlt, List.length_drop]
      have hpad : (7 - (bl.length - 7) % 7) % 7 = (7 - bl.length % 7) % 7 := by omega
      rw [hpad]
      simp only [Nat.sub_self, List.replicate_zero, List.append_nil]
      rw [← List.append_assoc, List.take_append_drop]
    · rw [if_neg h7]
      by_cases h0 : bl.length > 0
      · rw [if_pos h0]
        simp only [decBits, List.flatMap_cons, List.flatMap_nil, List.append_nil]
        have hv : 2 * val7 bl 7 / 2 = val7 bl 7 := by omega
        rw [hv, bits7_val7 bl hb (by omega)]
        have hpad : (7 - bl.length % 7) % 7 = 7 - bl.length := by omega
        rw [hpad]
      · rw [if_neg h0]
        have : bl = [] := List.length_eq_zero_iff.mp (by omega)
        subst this
        simp [decBits]

theorem byteOf_byteBits (b : Nat) (hb : b < 256) : byteOf (byteBits b) = b := by
  simp only [byteOf, byteBits, List.foldl_cons, List.foldl_nil]
  omega

theorem byteBits_length (b : Nat) : (byteBits b).length = 8 := rfl

theorem group8_bits : ∀ (s : List Nat), Bytes s → ∀ (pad : List Nat), pad.length < 8 → ∀ f, s.length < f →
    group8 f (bits s ++ pad) = s
  | [], _, pad, hp, f, hf => by
    obtain ⟨f', rfl⟩ : ∃ k, f = k + 1 := ⟨f - 1, by omega⟩
    simp only [bits, List.flatMap_nil, List.nil_append, group8]
    rw [if_neg (by omega)]
  | b :: s, hs, pad, hp, f, hf => by
    obtain ⟨f', rfl⟩ : ∃ k, f = k + 1 := ⟨f - 1, by omega⟩
    rw [bits_cons, List.append_assoc]
    simp only [group8]
    rw [if_pos (by rw [List.length_append, byteBits_length]; omega)]
    rw [List.take_left' (byteBits_length b), List.drop_left' (byteBits_length b),
      byteOf_byteBits b (hs b List.mem_cons_self)]
    rw [group8_bits s (fun x hx => hs x (List.mem_cons_of_mem _ hx)) pad hp f' (by simp at hf; omega)]

theorem chunks_two (f : Nat) (bl : List Nat) (h : 7 < bl.length) : 2 ≤ (chunks (f + 2) bl).length := by
  rw [chunks_succ, if_pos h]
  have := chunks_ne_nil f (bl.drop 7) (by rw [List.length_drop]; omega)
  have : 0 < (chunks (f + 1) (bl.drop 7)).length := List.length_pos_iff.mpr this
  simp only [List.length_cons]; omega

/-- **C16** decoding a string's encoding gives the string back -/
theorem decString_encString (s : List Nat) (hs : Bytes s) : decString (encString s) = s := by
  by_cases hne : s = []
  · subst hne; decide
  · rw [encString_nonempty s hne]
    have hpos := List.length_pos_iff.mpr hne
    have hlen : 7 < (bits s).length := by rw [bits_length]; omega
    have h2 : 2 ≤ (chunks (s.length * 8 + 1) (bits s)).length := by
      have : s.length * 8 + 1 = (s.length * 8 - 1) + 2 := by omega
      rw [this]; exact chunks_two _ _ hlen
    unfold decString
    rw [if_neg (by omega)]
    have hd := decBits_chunks (bits s).length (bits s) (Nat.le_refl _) (bits_Bits s) (s.length * 8 + 1)
      (by rw [bits_length]; omega)
    rw [hd]
    apply group8_bits s hs
    · rw [List.length_replicate]; omega
    · rw [List.length_append, bits_length]; omega

end Blue.TupleKey1

#print axioms Blue.TupleKey1.decString_encString
