import Blue.Proofs.ListFree
import Blue.Proofs.SkipProgress
/-! Progress of `listfree::List::prepend` (model `Blue.ListFree`, sequentially consistent
    interleavings): a prepend that runs alone finishes in at most 4 steps (allocation, load, store,
    CAS); the head changes only by a successful CAS, so a failed CAS means another prepend
    succeeded since the load; lock-freedom over runs (lists of thread ids). -/
namespace Blue.ListFree
open Blue.SkipProgress (busyAlong othersProgress along generic_bound generic_bound0 generic_alone othersProgress_pos)
variable {D : Type}

def pending : PC D → Bool
  | .idle => false
  | _ => true

/-- own steps a prepend can still take if no other CAS on the head succeeds -/
def measure (s : St D) : PC D → Nat
  | .idle => 0
  | .alloc _ => 4
  | .load _ => 3
  | .setNext _ h => if s.head = h then 2 else 5
  | .cas _ h => if s.head = h then 1 else 4

def prependBound (s : St D) (t : Nat) : Nat := measure s (s.pcs t)
def prependBusy (t : Nat) (s : St D) : Bool := pending (s.pcs t)

/-- the next step of `j` is a CAS on the head that succeeds: a prepend takes effect -/
def headCas (s : St D) (j : Nat) : Bool :=
  match s.pcs j with
  | .cas _ h => decide (s.head = h)
  | _ => false

def run (s : St D) (r : List Nat) : St D := r.foldl step s

/-- the head changes only by a successful CAS -/
theorem head_step (s : St D) (i : Nat) : (step s i).head = s.head ∨ headCas s i = true := by
  unfold step headCas
  cases s.pcs i with
  | idle => left; rfl
  | alloc d => left; rfl
  | load n => left; rfl
  | setNext n h => left; simp only; split <;> rfl
  | cas n h =>
    simp only
    by_cases e : s.head = h
    · right; simpa using e
    · left; simp only [e, if_false]

theorem step_pcs_other (s : St D) (i t : Nat) (hne : t ≠ i) : (step s i).pcs t = s.pcs t := by
  unfold step
  cases s.pcs i <;> simp only
  all_goals repeat' split
  all_goals first | rfl | exact setPc_other _ _ _ _ hne

theorem own_dec {s : St D} (h : Inv s) (t : Nat) (hb : prependBusy t s = true) :
    prependBusy t (step s t) = false ∨ prependBound (step s t) t < prependBound s t := by
  unfold prependBusy prependBound at *
  cases hpc : s.pcs t with
  | idle => rw [hpc] at hb; cases hb
  | alloc d =>
    right; unfold step; simp only [hpc, setPc_same, measure]; omega
  | load n =>
    right; unfold step; simp only [hpc, setPc_same, measure, if_true]; omega
  | setNext n hd =>
    have hn : n < s.heap.length := h.inHeap t n (by rw [hpc]; rfl)
    obtain ⟨nd, hnd⟩ : ∃ nd, s.heap[n]? = some nd := ⟨s.heap[n], List.getElem?_eq_getElem hn⟩
    right; unfold step; simp only [hpc, hnd, setPc_same, measure]
    split <;> omega
  | cas n hd =>
    have hn : n < s.heap.length := h.inHeap t n (by rw [hpc]; rfl)
    obtain ⟨nd, hnd⟩ : ∃ nd, s.heap[n]? = some nd := ⟨s.heap[n], List.getElem?_eq_getElem hn⟩
    unfold step; simp only [hpc, hnd]
    by_cases e : s.head = hd
    · left; simp only [e, if_true, setPc_same, pending]
    · right; simp only [e, if_false, setPc_same, measure]; omega

theorem other_keeps (s : St D) (t j : Nat) (hne : j ≠ t) (hev : headCas s j = false) :
    prependBound (step s j) t ≤ prependBound s t := by
  unfold prependBound
  rw [step_pcs_other s j t (fun e => hne e.symm)]
  rcases head_step s j with e | e
  · cases s.pcs t <;> simp only [measure, e] <;> exact Nat.le_refl _
  · rw [hev] at e; cases e

theorem busy_pos (s : St D) (t : Nat) (hb : prependBusy t s = true) : 0 < prependBound s t := by
  unfold prependBusy at hb; unfold prependBound
  cases hpc : s.pcs t <;> rw [hpc] at hb <;> simp only [pending] at hb <;> simp only [measure]
  all_goals first | omega | (split <;> omega) | cases hb

theorem prependBound_le (s : St D) (t : Nat) : prependBound s t ≤ 5 := by
  unfold prependBound
  cases s.pcs t <;> simp only [measure] <;> first | omega | (split <;> omega)

def pendingAlong (t : Nat) (s : St D) (r : List Nat) : Bool := busyAlong step (prependBusy t) s r
def prependsByOthers (t : Nat) (s : St D) (r : List Nat) : Nat := othersProgress step t headCas s r

/-- **a prepend that runs alone finishes** within `prependBound s t ≤ 5` own steps (4 from its
    beginning: allocation, load, store, CAS) -/
theorem prepend_terminates_without_interference {s : St D} (h : Inv s) (t : Nat) :
    ∃ m, m ≤ prependBound s t ∧ pending ((run s (List.replicate m t)).pcs t) = false :=
  generic_alone step t Inv (fun s => prependBound s t) (prependBusy t) (fun _ j hs => inv_step hs j)
    (fun _ hs hb => own_dec hs t hb) (fun s _ hb => busy_pos s t hb) (prependBound s t) s h (Nat.le_refl _)

/-- **lock-freedom of `prepend`**: a prepend pending in every state of a run that has taken more
    than `prependBound s t` own steps was overtaken by another thread's successful CAS on the head -/
theorem prepend_lock_freedom {s : St D} (h : Inv s) (t : Nat) (r : List Nat)
    (hbusy : pendingAlong t s r = true) (hsteps : prependBound s t < r.count t) :
    ∃ r1 j r2, r = r1 ++ j :: r2 ∧ j ≠ t ∧ headCas (run s r1) j = true := by
  have hp : 0 < prependsByOthers t s r := by
    apply Nat.pos_of_ne_zero
    intro h0
    have := generic_bound0 step t Inv (fun s => prependBound s t) (prependBusy t) headCas (fun _ j hs => inv_step hs j)
      (fun _ hs hb => own_dec hs t hb) (fun s j _ hne hev => other_keeps s t j hne hev) r s h hbusy h0
    omega
  exact othersProgress_pos step t headCas r s hp

theorem bound_along (t : Nat) : ∀ (r : List Nat) (s : St D), along step (fun s' => prependBound s' t ≤ 5) s r := by
  intro r
  induction r with
  | nil => intro s; exact prependBound_le s t
  | cons j r ih => intro s; exact ⟨prependBound_le s t, ih (step s j)⟩

/-- **every prepend finishes**: a prepend still pending at the end of a run has taken at most 5 own
    steps per prepend of another thread that succeeded during the run, plus 5 -/
theorem all_prepends_finish {s : St D} (h : Inv s) (t : Nat) (r : List Nat) (hbusy : pendingAlong t s r = true) :
    r.count t ≤ 5 * (prependsByOthers t s r + 1) := by
  have := generic_bound step t Inv (fun s => prependBound s t) (prependBusy t) headCas (fun _ j hs => inv_step hs j)
    (fun _ hs hb => own_dec hs t hb) (fun s j _ hne hev => other_keeps s t j hne hev) 5 r s h hbusy (bound_along t r s)
  have := prependBound_le s t
  unfold prependsByOthers
  omega

/-- thread `t` is between its load of the head (which gave `hd`) and its CAS -/
def casWait (t n : Nat) (hd : Option Nat) (s : St D) : Prop :=
  s.pcs t = .setNext n hd ∨ s.pcs t = .cas n hd

/-- **a failed CAS on the head means another prepend succeeded**: `t` loaded `head = hd` and is on
    its way to `compare_exchange(hd, node)` during the whole run; if at the end the head is no longer
    `hd` (its CAS fails), a step of the run by another thread was a successful CAS on the head -/
theorem prepend_cas_failure_means_progress (t n : Nat) (hd : Option Nat) :
    ∀ (r : List Nat) (s : St D), along step (casWait t n hd) s r → s.head = hd → (run s r).head ≠ hd →
      ∃ r1 i r2, r = r1 ++ i :: r2 ∧ i ≠ t ∧ headCas (run s r1) i = true := by
  intro r
  induction r with
  | nil => intro s _ hf hnf; exact absurd hf hnf
  | cons i r ih =>
    intro s hal hf hnf
    obtain ⟨hw, hal1⟩ := hal
    have hw1 : casWait t n hd (step s i) := by
      cases r with
      | nil => exact hal1
      | cons _ _ => exact hal1.1
    by_cases hhead : (step s i).head = s.head
    · obtain ⟨r1, i', r2, e, h1, h2⟩ := ih (step s i) hal1 (by rw [hhead]; exact hf) hnf
      exact ⟨i :: r1, i', r2, by rw [e]; rfl, h1, h2⟩
    · have hc : headCas s i = true := (head_step s i).resolve_left hhead
      refine ⟨[], i, r, rfl, ?_, hc⟩
      intro e
      subst e
      rcases hw with hw | hw
      · simp [headCas, hw] at hc
      · -- its own CAS succeeds: it leaves the interval
        cases hnd : s.heap[n]? with
        | none =>
          apply hhead
          unfold step; simp only [hw, hf, if_true, hnd]
        | some nd =>
          have : (step s i).pcs i = .idle := by
            unfold step; simp only [hw, hf, if_true, hnd, setPc_same]
          rcases hw1 with e | e <;> rw [this] at e <;> cases e

end Blue.ListFree
