import Blue.Model.SkipList
/-! Sorted chains in the heap and what insertion after a node does to them. -/
namespace Blue.SkipList

/-- the chain from `p`: node ids in order, keys strictly increasing and above `lo` -/
inductive SChain (heap : List Node) : Option Nat → Option Nat → List Nat → Prop where
  | nil {lo} : SChain heap lo none []
  | cons {lo : Option Nat} {p : Nat} {nd : Node} {ids : List Nat} :
      heap[p]? = some nd → (∀ l, lo = some l → l < nd.key) →
      SChain heap (some nd.key) nd.next ids → SChain heap lo (some p) (p :: ids)

theorem keyOf_of_get {heap : List Node} {p : Nat} {nd : Node} (h : heap[p]? = some nd) : keyOf heap p = nd.key := by
  simp [keyOf, h]

theorem nextOf_of_get {heap : List Node} {p : Nat} {nd : Node} (h : heap[p]? = some nd) : nextOf heap p = nd.next := by
  simp [nextOf, h]

theorem schain_lt {heap : List Node} {lo p ids} (h : SChain heap lo p ids) : ∀ n ∈ ids, n < heap.length := by
  induction h with
  | nil => intro n hn; cases hn
  | cons hp _ _ ih =>
    intro n hn
    simp only [List.mem_cons] at hn
    rcases hn with rfl | hn
    · exact (List.getElem?_eq_some_iff.mp hp).1
    · exact ih n hn

/-- every key on the chain is above the bound -/
theorem schain_keys_gt {heap : List Node} {l : Nat} {p ids} (h : SChain heap (some l) p ids) :
    ∀ n ∈ ids, l < keyOf heap n := by
  generalize hlo : some l = lo at h
  induction h generalizing l with
  | nil => intro n hn; cases hn
  | cons hp hb _ ih =>
    intro n hn
    subst hlo
    simp only [List.mem_cons] at hn
    rcases hn with rfl | hn
    · rw [keyOf_of_get hp]; exact hb l rfl
    · have := ih rfl n hn
      have := hb l rfl
      omega

/-- the bound only constrains the first node -/
theorem schain_rebound {heap : List Node} {lo lo' p ids} (h : SChain heap lo p ids)
    (hb : ∀ l' n, lo' = some l' → p = some n → l' < keyOf heap n) : SChain heap lo' p ids := by
  cases h with
  | nil => exact SChain.nil
  | cons hp _ hrest =>
    refine SChain.cons hp ?_ hrest
    intro l hl
    have := hb l _ hl rfl
    rwa [keyOf_of_get hp] at this

/-- a chain only depends on the nodes it visits -/
theorem schain_frame {heap heap' : List Node} {lo p ids} (h : SChain heap lo p ids)
    (hsame : ∀ x ∈ ids, heap'[x]? = heap[x]?) : SChain heap' lo p ids := by
  induction h with
  | nil => exact SChain.nil
  | cons hp hb _ ih =>
    refine SChain.cons ?_ hb (ih (fun x hx => hsame x (List.mem_cons_of_mem _ hx)))
    rw [hsame _ (List.mem_cons_self ..)]; exact hp

theorem schain_head_mem {heap : List Node} {lo : Option Nat} {n : Nat} {ids} (h : SChain heap lo (some n) ids) : n ∈ ids := by
  cases h with
  | cons _ _ _ => exact List.mem_cons_self ..

/-- the successor of a chain node is a chain node -/
theorem schain_next_mem {heap : List Node} {lo p ids} (h : SChain heap lo p ids) :
    ∀ x ∈ ids, ∀ n, nextOf heap x = some n → n ∈ ids := by
  induction h with
  | nil => intro x hx; cases hx
  | cons hp _ hrest ih =>
    intro x hx n hn
    simp only [List.mem_cons] at hx
    rcases hx with rfl | hx
    · rw [nextOf_of_get hp] at hn
      rw [hn] at hrest
      exact List.mem_cons_of_mem _ (schain_head_mem hrest)
    · exact List.mem_cons_of_mem _ (ih x hx n hn)

def insertAfter (prev nd : Nat) : List Nat → List Nat
  | [] => []
  | x :: t => if x = prev then x :: nd :: t else x :: insertAfter prev nd t

theorem mem_insertAfter {prev nd : Nat} {ids : List Nat} {x : Nat} (h : x ∈ ids) : x ∈ insertAfter prev nd ids := by
  induction ids with
  | nil => cases h
  | cons a t ih =>
    simp only [insertAfter]
    simp only [List.mem_cons] at h
    split
    · rcases h with rfl | h
      · exact List.mem_cons_self ..
      · exact List.mem_cons_of_mem _ (List.mem_cons_of_mem _ h)
    · rcases h with rfl | h
      · exact List.mem_cons_self ..
      · exact List.mem_cons_of_mem _ (ih h)

theorem mem_of_insertAfter {prev nd : Nat} {ids : List Nat} {x : Nat} (h : x ∈ insertAfter prev nd ids) :
    x = nd ∨ x ∈ ids := by
  induction ids with
  | nil => cases h
  | cons a t ih =>
    simp only [insertAfter] at h
    split at h
    · simp only [List.mem_cons] at h ⊢
      rcases h with h | h | h
      · exact Or.inr (Or.inl h)
      · exact Or.inl h
      · exact Or.inr (Or.inr h)
    · simp only [List.mem_cons] at h ⊢
      rcases h with h | h
      · exact Or.inr (Or.inl h)
      · rcases ih h with h | h
        · exact Or.inl h
        · exact Or.inr (Or.inr h)

theorem nd_mem_insertAfter {prev nd : Nat} {ids : List Nat} (h : prev ∈ ids) : nd ∈ insertAfter prev nd ids := by
  induction ids with
  | nil => cases h
  | cons a t ih =>
    simp only [insertAfter]
    simp only [List.mem_cons] at h
    split
    · exact List.mem_cons_of_mem _ (List.mem_cons_self ..)
    · rename_i hne
      rcases h with rfl | h
      · exact absurd rfl hne
      · exact List.mem_cons_of_mem _ (ih h)

theorem get_setNextAt_ne (heap : List Node) (p x : Nat) (nx : Option Nat) (h : x ≠ p) :
    (setNextAt heap p nx)[x]? = heap[x]? := by
  unfold setNextAt
  cases heap[p]? with
  | none => rfl
  | some nd => simp only; rw [List.getElem?_set_ne (fun e => h e.symm)]

theorem get_setNextAt_self (heap : List Node) (p : Nat) (nd : Node) (nx : Option Nat) (h : heap[p]? = some nd) :
    (setNextAt heap p nx)[p]? = some { nd with next := nx } := by
  unfold setNextAt
  rw [h]
  simp only
  rw [List.getElem?_set_self (List.getElem?_eq_some_iff.mp h).1]

theorem length_setNextAt (heap : List Node) (p : Nat) (nx : Option Nat) : (setNextAt heap p nx).length = heap.length := by
  unfold setNextAt; split <;> simp

theorem keyOf_setNextAt (heap : List Node) (p x : Nat) (nx : Option Nat) : keyOf (setNextAt heap p nx) x = keyOf heap x := by
  by_cases h : x = p
  · subst h
    cases hg : heap[x]? with
    | none => unfold setNextAt; rw [hg]
    | some nd => simp [keyOf, get_setNextAt_self heap x nd nx hg, hg]
  · simp [keyOf, get_setNextAt_ne heap p x nx h]

/-- **the CAS**: linking `nd` after the chain node `prev` keeps the chain sorted -/
theorem schain_insert {heap : List Node} {lo p ids} (h : SChain heap lo p ids) (prev nd k : Nat)
    (hprev : prev ∈ ids) (hk : keyOf heap prev < k) (hnd : nd ∉ ids)
    (hndget : heap[nd]? = some ⟨k, nextOf heap prev⟩)
    (hobs : ∀ o, nextOf heap prev = some o → k < keyOf heap o) :
    SChain (setNextAt heap prev (some nd)) lo p (insertAfter prev nd ids) := by
  induction h with
  | nil => cases hprev
  | @cons lo x ndx rest hx hb hrest ih =>
    have hne : nd ≠ x := fun e => hnd (e ▸ List.mem_cons_self ..)
    simp only [insertAfter]
    by_cases hxp : x = prev
    · subst hxp
      rw [if_pos rfl]
      have hkx : keyOf heap x = ndx.key := keyOf_of_get hx
      have hnx : nextOf heap x = ndx.next := nextOf_of_get hx
      -- `x` does not occur again: keys after it are larger
      have hxrest : x ∉ rest := by
        intro hm
        have := schain_keys_gt hrest x hm
        omega
      have hndrest : nd ∉ rest := fun hm => hnd (List.mem_cons_of_mem _ hm)
      have hframe : ∀ y ∈ rest, (setNextAt heap x (some nd))[y]? = heap[y]? := by
        intro y hy
        exact get_setNextAt_ne heap x y _ (fun e => hxrest (e ▸ hy))
      refine SChain.cons (get_setNextAt_self heap x ndx (some nd) hx) hb ?_
      simp only
      have hndget' : (setNextAt heap x (some nd))[nd]? = some ⟨k, ndx.next⟩ := by
        rw [get_setNextAt_ne heap x nd _ hne, hndget, hnx]
      refine SChain.cons hndget' (fun l hl => by cases hl; show ndx.key < k; omega) ?_
      simp only
      apply schain_frame _ hframe
      apply schain_rebound hrest
      intro l' n hl' hn
      cases hl'
      exact hobs n (by rw [hnx]; exact hn)
    · rw [if_neg hxp]
      have hprev' : prev ∈ rest := by
        simp only [List.mem_cons] at hprev
        rcases hprev with h | h
        · exact absurd h.symm hxp
        · exact h
      have hx' : (setNextAt heap prev (some nd))[x]? = some ndx := by
        rw [get_setNextAt_ne heap prev x _ hxp]; exact hx
      exact SChain.cons hx' hb (ih hprev' (fun hm => hnd (List.mem_cons_of_mem _ hm)))

end Blue.SkipList
