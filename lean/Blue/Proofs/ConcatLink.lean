import Blue.Proofs.ConcatMain
import Blue.Proofs.ConcatNat
/-! The generic concatenating cursor over reference children is the cursor `concat_refines` is
    about; substitution of children. -/
namespace Blue.Cursor
variable {E : Type}

namespace ConcatLink

def ofSpec (m : Concat E) : ConcatC (RefCur E) := ⟨m.cs, m.position⟩

theorem modifyAt_ref (cs : List (Ref E)) (i : Nat) (g : Ref E → Ref E) :
    ConcatC.modifyAt (RefCur E) cs i g = Concat.modifyAt cs i g := by
  unfold ConcatC.modifyAt Concat.modifyAt
  cases cs[i]? <;> rfl

theorem reposition_ref (m : Concat E) (idx : Nat) :
    ConcatC.reposition (RefCur E) (ofSpec m) idx = ofSpec (m.reposition idx) := by
  unfold ConcatC.reposition Concat.reposition ofSpec
  simp only [modifyAt_ref]
  split <;> rfl

theorem kv_ref (m : Concat E) : ConcatC.kv (RefCur E) (ofSpec m) = m.kv := by
  unfold ConcatC.kv Concat.kv Concat.active ofSpec
  simp only
  cases m.cs[m.position]? <;> rfl

theorem ofSpec_mk (cs : List (Ref E)) (p : Nat) : (⟨cs, p⟩ : ConcatC (RefCur E)) = ofSpec ⟨cs, p⟩ := rfl

theorem nextLoop_ref : ∀ (n : Nat) (m : Concat E),
    ConcatC.nextLoop (RefCur E) n (ofSpec m) = ofSpec (Concat.nextLoop n m) := by
  intro n
  induction n with
  | zero => intros; rfl
  | succ n ih =>
    intro m
    have hl : ∀ x : Concat E, (ofSpec x).cs.length = x.cs.length := fun _ => rfl
    have hp : ∀ x : Concat E, (ofSpec x).position = x.position := fun _ => rfl
    have hcs : ∀ x : Concat E, (ofSpec x).cs = x.cs := fun _ => rfl
    simp only [ConcatC.nextLoop, Concat.nextLoop, hcs, hp, modifyAt_ref, RefCur_next, RefCur_first]
    rw [ofSpec_mk (Concat.modifyAt m.cs m.position Ref.next) m.position, kv_ref]
    split
    · simp only [reposition_ref, hcs, hp]
      rw [ofSpec_mk]
      exact ih _
    · rfl

theorem prevLoop_ref : ∀ (n : Nat) (m : Concat E),
    ConcatC.prevLoop (RefCur E) n (ofSpec m) = ofSpec (Concat.prevLoop n m) := by
  intro n
  induction n with
  | zero => intros; rfl
  | succ n ih =>
    intro m
    have hp : ∀ x : Concat E, (ofSpec x).position = x.position := fun _ => rfl
    have hcs : ∀ x : Concat E, (ofSpec x).cs = x.cs := fun _ => rfl
    simp only [ConcatC.prevLoop, Concat.prevLoop, hcs, hp, modifyAt_ref, RefCur_prev, RefCur_last]
    rw [ofSpec_mk (Concat.modifyAt m.cs m.position Ref.prev) m.position, kv_ref]
    split
    · simp only [reposition_ref, hcs, hp]
      rw [ofSpec_mk]
      exact ih _
    · rfl

/-- probing a reference child through the cursor interface sees its last entry -/
theorem peekLast_ref (c : Ref E) : ConcatC.peekLast (RefCur E) c = c.xs.getLast? := by
  unfold ConcatC.peekLast
  show (Ref.prev (Ref.last c)).kv = _
  unfold Ref.last Ref.prev Ref.kv
  simp only [Nat.zero_lt_succ, if_true, Nat.add_sub_cancel]
  by_cases h : c.xs.length = 0
  · have : c.xs = [] := List.length_eq_zero_iff.mp h
    simp [this]
  · rw [if_neg h, List.getLast?_eq_getElem?]

theorem probeDown_ref (cs : List (Ref E)) (left : Nat) :
    ∀ probe, ConcatC.probeDown (RefCur E) cs left probe = Concat.probeDown cs left probe := by
  intro probe
  induction probe using Nat.strongRecOn with
  | _ probe ih =>
    rw [ConcatC.probeDown_eq, Concat.probeDown]
    cases cs[probe]? with
    | none => rfl
    | some c =>
      simp only [peekLast_ref]
      cases c.xs.getLast? with
      | some e => rfl
      | none =>
        simp only
        split
        · exact ih (probe - 1) (by omega)
        · rfl

theorem searchLoop_ref (cs : List (Ref E)) (pred : E → Bool) :
    ∀ (n l r : Nat), ConcatC.searchLoop (RefCur E) cs pred n l r = Concat.searchLoop cs pred n l r := by
  intro n
  induction n with
  | zero => intros; rfl
  | succ n ih =>
    intro l r
    simp only [ConcatC.searchLoop, Concat.searchLoop, probeDown_ref]
    split
    · cases Concat.probeDown cs l ((l + r) / 2) with
      | none => exact ih _ _
      | some je =>
        obtain ⟨j, e⟩ := je
        simp only
        split
        · exact ih _ _
        · exact ih _ _
    · rfl

theorem step_ref (m : Concat E) (op : Op E) :
    (ConcatC.cur (RefCur E)).step (ofSpec m) op = ofSpec (m.step op) := by
  have hp : ∀ x : Concat E, (ofSpec x).position = x.position := fun _ => rfl
  have hcs : ∀ x : Concat E, (ofSpec x).cs = x.cs := fun _ => rfl
  cases op with
  | first =>
    show ConcatC.seekToFirst (RefCur E) (ofSpec m) = ofSpec m.seekToFirst
    simp only [ConcatC.seekToFirst, Concat.seekToFirst, reposition_ref, hcs, hp, modifyAt_ref]
    rfl
  | last =>
    show ConcatC.seekToLast (RefCur E) (ofSpec m) = ofSpec m.seekToLast
    simp only [ConcatC.seekToLast, Concat.seekToLast, hcs, reposition_ref, hp, modifyAt_ref]
    rfl
  | next => exact nextLoop_ref _ m
  | prev => exact prevLoop_ref _ m
  | seek pred =>
    show ConcatC.seek (RefCur E) pred (ofSpec m) = ofSpec (m.seek pred)
    simp only [ConcatC.seek, Concat.seek, hcs, searchLoop_ref, reposition_ref, hp, modifyAt_ref]
    rfl

end ConcatLink

open ConcatLink in
/-- **C11, concatenating cursor, behavioural form** -/
theorem concatC_ref_behEq {L : List (List E)} (hne : 0 < L.length)
    (A : (E → Bool) → Prop) (hA : ∀ pred, A pred → PredMono L pred) :
    ∀ (m : Concat E) (pos : Nat), CRel L m pos →
      BehEq A (ConcatC.cur (RefCur E)) (ofSpec m) (RefCur E) ⟨L.flatten, pos⟩ := by
  intro m pos h ops
  induction ops generalizing m pos with
  | nil =>
    intro _
    simp only [Cur.beh, Cur.runTo, List.foldl_nil]
    refine Prod.ext ((kv_ref m).trans (crel_kv h)) ?_
    show m.cs.all (RefCur E).ok = true
    simp
  | cons op ops ih =>
    intro ha
    obtain ⟨ha1, ha2⟩ := adm_cons.mp ha
    have hstep : CRel L (m.step op) ((Ref.mk L.flatten pos).step op).pos
        ∧ ((Ref.mk L.flatten pos).step op).xs = L.flatten := by
      cases op with
      | first => exact ⟨crel_first hne h, rfl⟩
      | last => exact ⟨by simpa [Ref.step, Ref.last, Concat.step] using crel_last hne h, rfl⟩
      | next => exact ⟨crel_next h, by simp only [Ref.step, Ref.next]; split <;> rfl⟩
      | prev => exact ⟨crel_prev h, by simp only [Ref.step, Ref.prev]; split <;> rfl⟩
      | seek pred => exact ⟨crel_seek hne pred (hA pred ha1) h, rfl⟩
    obtain ⟨h1, h2⟩ := hstep
    have hc : (Ref.mk L.flatten pos).step op = ⟨L.flatten, ((Ref.mk L.flatten pos).step op).pos⟩ := by
      cases hs : (Ref.mk L.flatten pos).step op with
      | mk a c => rw [hs] at h2; simp at h2; simp [h2]
    show (ConcatC.cur (RefCur E)).beh ((ConcatC.cur (RefCur E)).step (ofSpec m) op) ops
      = (RefCur E).beh ((RefCur E).step ⟨L.flatten, pos⟩ op) ops
    rw [step_ref]
    have hr : (RefCur E).step ⟨L.flatten, pos⟩ op = ⟨L.flatten, ((Ref.mk L.flatten pos).step op).pos⟩ := by
      rw [← hc]; cases op <;> rfl
    rw [hr]
    exact ih _ _ h1 ha2

/-- children with pointwise the same behaviour give concatenating cursors with the same behaviour -/
theorem concat_subst {A : (E → Bool) → Prop} {C D : Cur E} (cs : List C.σ) (ds : List D.σ)
    (h : cs.map (behA A C) = ds.map (behA A D)) (position : Nat) :
    BehEq A (ConcatC.cur C) ⟨cs, position⟩ (ConcatC.cur D) ⟨ds, position⟩ :=
  behEq_lift (A := A) (ι := fun C => List C.σ) (fun C => ConcatC.cur C)
    (fun C cs => (⟨cs, position⟩ : ConcatC C)) (fun h cs => cs.map h.f) (fun h => ConcatC.hom h)
    (fun h x => rfl) cs ds h

/-- **Concatenation over any table-like children**: a level of key-disjoint files behaves as one
    table, whatever implements the files' cursors -/
theorem concat_over {A : (E → Bool) → Prop} {C : Cur E} (cs : List C.σ) (rs : List (Ref E))
    (hne : 0 < rs.length) (hA : ∀ pred, A pred → PredMono (rs.map (·.xs)) pred)
    (hbeh : cs.map (behA A C) = rs.map (behA A (RefCur E))) :
    BehEq A (ConcatC.cur C) (ConcatC.new C cs) (RefCur E) ⟨(rs.map (·.xs)).flatten, 0⟩ := by
  -- `new` = `first` applied to child 0 of the initial state: a step of the combined cursor is
  -- not needed, `new cs` is built with `modifyAt`, which commutes with the homomorphisms
  have hsub := concat_subst (A := A) (C := C) (D := RefCur E)
    (ConcatC.modifyAt C cs 0 C.first) (ConcatC.modifyAt (RefCur E) rs 0 Ref.first) ?_ 0
  · have hrel := crel_new (L := rs.map (·.xs)) (by simpa using hne) rs rfl
    have hspec := concatC_ref_behEq (by simpa using hne) A hA (Concat.new rs) 0 hrel
    have e : (⟨ConcatC.modifyAt (RefCur E) rs 0 Ref.first, 0⟩ : ConcatC (RefCur E))
        = ConcatLink.ofSpec (Concat.new rs) := by
      simp only [ConcatLink.ofSpec, Concat.new, ConcatLink.modifyAt_ref]
    rw [e] at hsub
    exact hsub.trans hspec
  · -- the modified child lists still agree in behaviour
    have hget : ∀ (i : Nat), (cs[i]?).map (behA A C) = (rs[i]?).map (behA A (RefCur E)) := by
      intro i
      have := congrArg (fun (l : List (List (Op E) → Option E × Bool)) => l[i]?) hbeh
      simpa [List.getElem?_map] using this
    unfold ConcatC.modifyAt
    have h0 := hget 0
    cases hc : cs[0]? with
    | none =>
      rw [hc] at h0
      cases hr : rs[0]? with
      | none => simp only; exact hbeh
      | some r => rw [hr] at h0; simp at h0
    | some c =>
      rw [hc] at h0
      cases hr : rs[0]? with
      | none => rw [hr] at h0; simp at h0
      | some r =>
        rw [hr] at h0
        simp only [Option.map_some, Option.some.injEq] at h0
        simp only [List.map_set]
        rw [hbeh]
        congr 1
        -- behaviour after `first` is determined by behaviour before
        have e1 := behA_step (A := A) C c .first trivial
        have e2 := behA_step (A := A) (RefCur E) r .first trivial
        show behA A C (C.step c .first) = behA A (RefCur E) ((RefCur E).step r .first)
        rw [e1, e2, h0]

end Blue.Cursor

#print axioms Blue.Cursor.concat_over
