import Blue.Model.RrrWord
import Blue.Model.BitVec
/-! The word-level facts the block layouts of `rrr` and `cf_rrr` rely on, as one proposition
    (`WordSpec`), so that the layout proofs and the word-level proofs can be developed apart.
    `Blue.Proofs.RrrWord` proves `wordSpec : WordSpec`. -/
namespace Blue.Rrr
open Blue.BitArr

structure WordSpec : Prop where
  ofBits_lt : ∀ ch : List Bool, ch.length ≤ 63 → ofBits ch < 2 ^ 63
  popcount_ofBits : ∀ ch : List Bool, ch.length ≤ 63 → popcount (ofBits ch) = ch.count true
  bitAt_ofBits : ∀ (ch : List Bool) (i : Nat), ch.length ≤ 63 → bitAt (ofBits ch) i = ch.getD i false
  lowPop_ofBits : ∀ (ch : List Bool) (i : Nat), ch.length ≤ 63 → i ≤ 63 →
      lowPop (ofBits ch) i = (ch.take i).count true
  /-- `select1` of a word is the reference `select` of its bits -/
  select1_ofBits : ∀ (ch : List Bool) (x : Nat), ch.length ≤ 63 →
      select1 (ofBits ch) x = Blue.BitVec.select ch x
  /-- `select0` sees the zero padding of a short last word as clear bits -/
  select0_ofBits : ∀ (ch : List Bool) (x : Nat), ch.length ≤ 63 →
      select0 (ofBits ch) x = Blue.BitVec.select0 (ch ++ List.replicate (63 - ch.length) false) x
  encode_class : ∀ w, w < 2 ^ 63 → (encode w).2 = popcount w
  popcount_le : ∀ w, w < 2 ^ 63 → popcount w ≤ 63
  /-- the offset fits the `L[c]` bits it is stored in -/
  encode_fits : ∀ w, w < 2 ^ 63 → (encode w).1 < 2 ^ (lTab.getD (popcount w) 0)
  decode_encode : ∀ w, w < 2 ^ 63 → decode (encode w).1 (encode w).2 = some w
  wordsOf_length : ∀ bits : List Bool, (wordsOf bits).length = (bits.length + 62) / 63
  wordsOf_get : ∀ (bits : List Bool) (k : Nat), k < (wordsOf bits).length →
      (wordsOf bits)[k]? = some (ofBits ((bits.drop (63 * k)).take 63))

end Blue.Rrr
