import Blue.Model.Heap
/-! The heap operations commute with mapping the elements through a comparator-preserving function. -/
namespace Blue.Heap
variable {α β : Type} (f : α → β) (lt : α → α → Bool) (lt' : β → β → Bool)

theorem swap_map (l : List α) (i j : Nat) : swap (l.map f) i j = (swap l i j).map f := by
  unfold swap
  simp only [List.getElem?_map]
  cases l[i]? with
  | none => rfl
  | some x =>
    cases l[j]? with
    | none => rfl
    | some y => simp [List.map_set]

theorem pickChild_map (h : ∀ a b, lt' (f a) (f b) = lt a b) (l : List α) (i : Nat) :
    pickChild lt' (l.map f) i = pickChild lt l i := by
  unfold pickChild
  simp only [List.getElem?_map]
  cases l[2*i+1]? with
  | none => rfl
  | some x =>
    cases l[2*i+2]? with
    | none => rfl
    | some y => simp [h]

theorem percolateDown_map (h : ∀ a b, lt' (f a) (f b) = lt a b) :
    ∀ (n : Nat) (l : List α) (i : Nat),
      percolateDown lt' (l.map f) i n = (percolateDown lt l i n).map f := by
  intro n
  induction n with
  | zero => intros; rfl
  | succ n ih =>
    intro l i
    simp only [percolateDown, pickChild_map f lt lt' h]
    cases pickChild lt l i with
    | none => rfl
    | some c =>
      simp only [List.getElem?_map]
      cases l[i]? with
      | none => rfl
      | some xi =>
        cases l[c]? with
        | none => rfl
        | some xc =>
          simp only [Option.map_some, h]
          split
          · rfl
          · rw [swap_map, ih]

theorem heapifyFrom_map (h : ∀ a b, lt' (f a) (f b) = lt a b) :
    ∀ (k : Nat) (l : List α), heapifyFrom lt' (l.map f) k = (heapifyFrom lt l k).map f := by
  intro k
  induction k with
  | zero => intros; rfl
  | succ k ih =>
    intro l
    simp only [heapifyFrom, List.length_map, percolateDown_map f lt lt' h, ih]

theorem heapify_map (h : ∀ a b, lt' (f a) (f b) = lt a b) (l : List α) :
    heapify lt' (l.map f) = (heapify lt l).map f := by
  unfold heapify
  rw [List.length_map, heapifyFrom_map f lt lt' h]

end Blue.Heap
