import Blue.Generated.Consts
import Blue.Model.ProtoMsg
import Blue.Model.Varint
/-! The tie between the prototk / buffertk constants regenerated from the Rust source
    (`Blue.Generated`, written by `translate/extract.py` on every run) and the constants the
    hand-written wire and message models use (property C15).  Kept apart from `ConstsTie.lean` so
    that a tree without the C15 repairs does not break the ties of other properties. -/
namespace Blue.ConstsTie

section C15
open Blue.Wire Blue.ProtoMsg
theorem proto_wire_types :
    [WT.varint, WT.sixtyFour, WT.lengthDelimited, WT.thirtyTwo].map WT.bits = Blue.Generated.protoWireTypeBits
    ∧ Blue.Generated.protoWireTypeBitsNew = Blue.Generated.protoWireTypeBits
    ∧ (List.range 8).map (fun b => (WT.ofBits b).map WT.bits)
        = (List.range 8).map (fun b => if b ∈ Blue.Generated.protoWireTypeBitsNew then some b else none) := by decide

/-- `FieldNumber::new` of the library and `validate_field_number` of the derive macro use the limits of
    the model's `validFieldNumber` -/
theorem proto_field_number_limits :
    Blue.Generated.protoFirstFieldNumber = 1 ∧ Blue.Generated.protoLastFieldNumber = 536870911
    ∧ Blue.Generated.protoLastFieldNumber = 2 ^ 29 - 1
    ∧ Blue.Generated.protoFirstReservedFieldNumber = 19000 ∧ Blue.Generated.protoLastReservedFieldNumber = 19999
    ∧ Blue.Generated.protoDeriveFirstFieldNumber = Blue.Generated.protoFirstFieldNumber
    ∧ Blue.Generated.protoDeriveLastFieldNumber = Blue.Generated.protoLastFieldNumber
    ∧ Blue.Generated.protoDeriveFirstReservedFieldNumber = Blue.Generated.protoFirstReservedFieldNumber
    ∧ Blue.Generated.protoDeriveLastReservedFieldNumber = Blue.Generated.protoLastReservedFieldNumber := by decide

theorem proto_valid_field_number (f : Nat) :
    Blue.Wire.validFieldNumber f = (decide (Blue.Generated.protoFirstFieldNumber ≤ f) && decide (f ≤ Blue.Generated.protoLastFieldNumber)
      && !(decide (Blue.Generated.protoFirstReservedFieldNumber ≤ f) && decide (f ≤ Blue.Generated.protoLastReservedFieldNumber))) := rfl

/-- the wire type every `field_types::*` declares (`float` is 5 only after the repair of D-C15-float) -/
theorem proto_field_wire_types :
    ([Scalar.int32, .int64, .uint32, .uint64, .sint32, .sint64, .bool, .fixed32, .fixed64, .sfixed32, .sfixed64,
      .float, .double, .bytes, .bytesN 16, .bytesN 32, .bytesN 64, .string].map (·.wt.bits)) ++ [(Ty.msg (.struct [])).wt.bits]
      = Blue.Generated.protoFieldWireTypes := by decide

theorem proto_fixed_bytes_sizes : Blue.Generated.protoFixedBytesSizes = [16, 32, 64] := by decide

/-- `message<M>::unpack` returns an error for a nested message that leaves bytes in its frame
    (the model's `wrongLength`); the unrepaired code asserts (D-21) -/
theorem proto_message_unpack_does_not_assert : Blue.Generated.protoMessageUnpackAsserts = 0 := by decide

/-- unknown fields in the body of a named enum variant: skipped (repaired, D-C15-named) or rejected -/
theorem proto_named_variant_strict :
    Blue.ProtoMsg.namedVariantStrict = decide (Blue.Generated.protoNamedVariantRejectsUnknown = 1) := by decide

theorem varint_max_bytes (bs : List Nat) :
    Blue.Wire.decVarint bs = Blue.Wire.decVarintAux Blue.Generated.varintMaxBytes 0 0 bs := rfl

theorem result_tags : Blue.Generated.resultTags = [10, 18] := by decide

/-- the shape of `<v64 as Unpackable>::unpack` as the source has it: the length below which
    `unpack_slow` is taken, the two literals of its byte cap, the (index, size) arms of the
    unrolled dispatch -/
def varintSourceShape : Blue.Varint.Shape :=
  ⟨Blue.Generated.varintFastMinLen,
   (Blue.Generated.varintSlowCap.getD 0 0, Blue.Generated.varintSlowCap.getD 1 0),
   Blue.Generated.varintFastArmIndices.zip Blue.Generated.varintFastArmSizes⟩

/-- the model's `Blue.Varint.shape` is the source's -/
theorem varint_shape : varintSourceShape = Blue.Varint.shape
    ∧ Blue.Generated.varintSlowCap.length = 2
    ∧ Blue.Generated.varintFastArmIndices.length = Blue.Generated.varintFastArmSizes.length
    ∧ Blue.Generated.varintFastArmThresholds = Blue.Generated.varintFastArmIndices.map (fun _ => Blue.Varint.CONT) :=
  ⟨rfl, by decide, by decide, by decide⟩

/-- the hypothesis of `Blue.Varint.unpackWith_eq_decVarint`: the dispatch indexes `buf[9]`, so the
    slow decoder must take every buffer shorter than ten bytes (fails for `buf.len() < 9`) -/
theorem varint_fast_min_len : 10 ≤ Blue.Generated.varintFastMinLen := by decide

/-- the literals of `unpack_slow` (`& 128`, `& 127`, `shl += 7`, `& 128`, `& 127`) and of
    `unpack_size` (`7 * (SZ - 1)`, `offset = 0`, `- 0x80`, `offset += 7`) in source order -/
theorem varint_code_literals :
    Blue.Generated.varintCodeLiterals
      = [Blue.Varint.CONT, Blue.Varint.LOW, Blue.Varint.STEP, Blue.Varint.CONT, Blue.Varint.LOW,
         Blue.Varint.STEP, 0, Blue.Varint.CONT, Blue.Varint.STEP] := by decide
/-- the literals of `v64::pack_sz` (`count = 1`, `>>= 7`, `>>= 7`, `+= 1`; the model's
    `varintSz` divides by `2 ^ 7` and counts from 1) and of `v64::pack` (`& 0x7f`, `>>= 7`,
    `idx = 1`, `|= 128`, `& 0x7f`, `idx += 1`, `>>= 7`) in source order -/
theorem varint_pack_literals :
    Blue.Generated.varintPackLiterals
      = [1, Blue.Varint.STEP, Blue.Varint.STEP, 1, Blue.Varint.LOW, Blue.Varint.STEP, 1, Blue.Varint.CONT,
         Blue.Varint.LOW, 1, Blue.Varint.STEP]
    ∧ 2 ^ Blue.Varint.STEP = 128 := by decide
end C15

end Blue.ConstsTie
