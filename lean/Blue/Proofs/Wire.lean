import Blue.Model.Wire
namespace Blue.Wire

theorem encVarint_lt {x : Nat} (h : x < 128) : encVarint x = [x] := by
  rw [encVarint]; simp [h]

theorem encVarint_ge {x : Nat} (h : ¬ x < 128) : encVarint x = (x % 128 + 128) :: encVarint (x / 128) := by
  rw [encVarint]; simp [h]

theorem encVarint_ne_nil (x : Nat) : encVarint x ≠ [] := by
  by_cases h : x < 128
  · rw [encVarint_lt h]; simp
  · rw [encVarint_ge h]; simp

theorem encVarint_length_pos (x : Nat) : 0 < (encVarint x).length :=
  List.length_pos_iff.mpr (encVarint_ne_nil x)

/-- every byte the encoder emits is a byte -/
theorem encVarint_bytes (x : Nat) : ∀ b ∈ encVarint x, b < 256 := by
  induction x using Nat.strongRecOn with
  | _ x ih =>
    by_cases h : x < 128
    · rw [encVarint_lt h]; intro b hb; simp at hb; omega
    · rw [encVarint_ge h]
      intro b hb
      simp only [List.mem_cons] at hb
      rcases hb with rfl | hb
      · omega
      · exact ih (x / 128) (by omega) b hb

theorem decVarintAux_enc (rest : List Nat) :
    ∀ (fuel shl acc x : Nat), x < 128 ^ (fuel + 1) →
      decVarintAux (fuel + 1) shl acc (encVarint x ++ rest) = some ((acc + x * 2 ^ shl) % U64, rest) := by
  intro fuel
  induction fuel with
  | zero =>
    intro shl acc x hx
    have hx' : x < 128 := by simpa using hx
    rw [encVarint_lt hx']
    simp [decVarintAux, hx']
  | succ f ih =>
    intro shl acc x hx
    by_cases h : x < 128
    · rw [encVarint_lt h]
      simp [decVarintAux, h]
    · rw [encVarint_ge h]
      have hb : ¬ (x % 128 + 128 < 128) := by omega
      simp only [List.cons_append, decVarintAux, hb, if_false]
      have hdiv : x / 128 < 128 ^ (f + 1) := by
        rw [Nat.div_lt_iff_lt_mul (by omega)]
        calc x < 128 ^ (f + 1 + 1) := hx
          _ = 128 ^ (f + 1) * 128 := by rw [Nat.pow_succ]
      rw [ih (shl + 7) _ (x / 128) hdiv]
      congr 2
      have e1 : x % 128 + 128 - 128 = x % 128 := by omega
      have h128 : (2 : Nat) ^ 7 = 128 := by decide
      rw [e1, Nat.pow_add, h128]
      have e2 : x / 128 * (2 ^ shl * 128) = (128 * (x / 128)) * 2 ^ shl := by
        calc x / 128 * (2 ^ shl * 128) = x / 128 * (128 * 2 ^ shl) := by rw [Nat.mul_comm (2 ^ shl) 128]
          _ = (x / 128 * 128) * 2 ^ shl := by rw [Nat.mul_assoc]
          _ = (128 * (x / 128)) * 2 ^ shl := by rw [Nat.mul_comm (x / 128) 128]
      rw [e2, Nat.add_assoc, ← Nat.add_mul, Nat.mod_add_div]

/-- **C15** varints round-trip, with any bytes following -/
theorem decVarint_enc (x : Nat) (hx : x < U64) (rest : List Nat) :
    decVarint (encVarint x ++ rest) = some (x, rest) := by
  unfold decVarint
  rw [decVarintAux_enc rest 9 0 0 x (by unfold U64 at hx; omega)]
  simp only [Nat.pow_zero, Nat.mul_one, Nat.zero_add]
  rw [Nat.mod_eq_of_lt hx]

theorem ofBits_bits (wt : WT) : WT.ofBits wt.bits = some wt := by cases wt <;> rfl

theorem bits_lt (wt : WT) : wt.bits < 8 := by cases wt <;> decide

/-- **C15** tags round-trip -/
theorem decTag_enc (t : Tag) (ht : validFieldNumber t.num = true) (rest : List Nat) :
    decTag (encTag t ++ rest) = some (t, rest) := by
  have hb := bits_lt t.wt
  unfold validFieldNumber at ht
  simp only [Bool.and_eq_true, decide_eq_true_eq, Bool.not_eq_true'] at ht
  obtain ⟨⟨h1, h2⟩, h3⟩ := ht
  unfold decTag encTag
  rw [decVarint_enc _ (by unfold U64; omega)]
  simp only
  have hv : ¬ (t.num * 8 + t.wt.bits > U32MAX) := by unfold U32MAX; omega
  have hdiv : (t.num * 8 + t.wt.bits) / 8 = t.num := by omega
  have hmod : (t.num * 8 + t.wt.bits) % 8 = t.wt.bits := by omega
  rw [if_neg hv, hdiv, hmod]
  have hvalid : validFieldNumber t.num = true := by
    unfold validFieldNumber
    simp only [Bool.and_eq_true, decide_eq_true_eq, Bool.not_eq_true']
    exact ⟨⟨h1, h2⟩, h3⟩
  simp only [hvalid, Bool.not_true, Bool.false_eq_true, if_false, ofBits_bits]

theorem fieldStep_varint (n v : Nat) (hn : validFieldNumber n = true) (hv : v < U64) (rest : List Nat) :
    fieldStep (encTag ⟨n, .varint⟩ ++ encVarint v ++ rest) = some ((⟨n, .varint⟩, encVarint v), rest) := by
  unfold fieldStep
  rw [List.append_assoc, decTag_enc ⟨n, .varint⟩ hn]
  simp only
  rw [decVarint_enc v hv]
  simp

theorem decBytes_enc (b : List Nat) (hb : b.length < U64) (rest : List Nat) :
    decBytes (encBytes b ++ rest) = some (b, rest) := by
  unfold decBytes encBytes
  rw [List.append_assoc, decVarint_enc _ hb]
  simp

theorem fieldStep_bytes (n : Nat) (b : List Nat) (hn : validFieldNumber n = true) (hb : b.length < U64)
    (rest : List Nat) :
    fieldStep (encTag ⟨n, .lengthDelimited⟩ ++ encBytes b ++ rest)
      = some ((⟨n, .lengthDelimited⟩, encBytes b), rest) := by
  unfold fieldStep
  rw [List.append_assoc, decTag_enc ⟨n, .lengthDelimited⟩ hn]
  simp only
  unfold encBytes
  rw [List.append_assoc, decVarint_enc _ hb]
  simp only [List.length_append]
  have : ¬ (b.length + rest.length < b.length) := by omega
  rw [if_neg this, ← List.append_assoc,
    List.take_left' (l₁ := encVarint b.length ++ b) (by simp), List.drop_left]

theorem fields_cons (f : Nat) (bs : List Nat) (fld : Tag × List Nat) (rest : List Nat)
    (hne : bs ≠ []) (h : fieldStep bs = some (fld, rest)) :
    fields (f + 1) bs = (fld :: (fields f rest).1, (fields f rest).2) := by
  cases bs with
  | nil => exact absurd rfl hne
  | cons b t => simp only [fields, h]

theorem encTag_ne_nil (t : Tag) : encTag t ≠ [] := encVarint_ne_nil _

end Blue.Wire
