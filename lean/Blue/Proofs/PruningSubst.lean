import Blue.Proofs.PruningLink
/-! Substituting the child of a pruning cursor; the pruning cursor over *any* child that behaves
    like a table. -/
namespace Blue.Cursor
variable {E K : Type} [DecidableEq K] (cfg : PruneCfg E K) (n : Nat) {A : (E → Bool) → Prop}

/-- children with the same behaviour give pruning cursors with the same behaviour -/
theorem pruning_subst {C D : Cur E} {c : C.σ} {d : D.σ} (h : BehEq A C c D d) (skip : Option K) (err : Bool) :
    BehEq A (PruningC.cur C cfg n) ⟨c, skip, err⟩ (PruningC.cur D cfg n) ⟨d, skip, err⟩ := by
  have := behEq_lift (A := A) (ι := fun C => C.σ) (fun C => PruningC.cur C cfg n)
    (fun C c => (⟨c, skip, err⟩ : PruningC C K)) (fun h => h.f) (fun h => PruningC.hom h cfg n)
    (fun h x => rfl) c d (behA_eq_of_behEq h)
  exact this

open Blue.Cursor.Filtered in
/-- **Pruning over any table-like child.**  If the child behaves as the reference cursor over `xs`
    at the position the relation `PRel` speaks of, the pruning cursor over it behaves as the
    reference cursor over the pruned list. -/
theorem pruning_over (xs : List E) (g : Grouped cfg xs) (hn : xs.length + 2 ≤ n)
    (hA : ∀ pred, A pred → SeekPred cfg xs pred)
    {C : Cur E} {c : C.σ} {q : Nat} (hc : BehEq A C c (RefCur E) ⟨xs, q⟩)
    (skip : Option K) (pos : Nat) (hrel : PRel cfg xs ⟨⟨xs, q⟩, skip⟩ pos) :
    BehEq A (PruningC.cur C cfg n) ⟨c, skip, false⟩ (RefCur E) ⟨pruned cfg xs, pos⟩ :=
  (pruning_subst cfg n hc skip false).trans (pruningC_ref_behEq cfg n xs g hn A hA ⟨⟨xs, q⟩, skip⟩ pos hrel)

end Blue.Cursor

#print axioms Blue.Cursor.pruning_over
