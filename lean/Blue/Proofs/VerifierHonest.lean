import Blue.Proofs.VerifierProgress
import Blue.Proofs.VerifyJoin
/-! **C08 ∘ C04** the `Processable` hypothesis of verifier progress, discharged for the directory an
    honest store history leaves.

    C04 has no "directory of a history": `verifier_accepts_honest*` speak of the fragments
    (`fragmentsOf`) and of an environment (`Env.fs`: what `get_cursor` opens), `verifier_pass_sound`
    of `Reach`.  The bridge is the structure `HonestDir env nm I D k files segs d`: `d` is a verifier
    directory whose numbered fragments are those of the store history `segs` (C04's `fragmentsOf`)
    from the version `files`, numbered upwards from `k`, with `verify/` clean and the accumulator at
    the sum over `files`; a removed file is in `trash/`; a named file is live or removed later.
    `HonestDir` is its own invariant along a pass (`honest_step`), so `Processable` follows for every
    number of fragments (`honest_directory_processable`) and with it `pass_progress`,
    `pass_fixed_point`, `crashed_pass_restart_reaches_fixed_point` (`honest_pass_progress`). -/
namespace Blue.VerifyOne
open Blue.Books Blue.Verifier
open Blue.Mani (Edit)
open Blue.Compact (Entry)

variable {G : Type} [DecidableEq G] (g : Grp G)

/-- `MANIFEST.<k>`, `MANIFEST.<k+1>`, …: the store numbers its fragments upwards -/
def number : Nat → List (List Edit) → List (Nat × List Edit)
  | _, [] => []
  | k, es :: t => (k, es) :: number (k + 1) t

theorem number_ge : ∀ (l : List (List Edit)) (k : Nat) (f : Nat × List Edit), f ∈ number k l → k ≤ f.1
  | [], _, f, h => by cases h
  | es :: t, k, f, h => by
    rcases List.mem_cons.mp h with rfl | h
    · exact Nat.le_refl _
    · have := number_ge t (k + 1) f h; omega

theorem number_sorted : ∀ (l : List (List Edit)) (k : Nat), (number k l).Pairwise (fun a b => a.1 < b.1)
  | [], _ => List.Pairwise.nil
  | es :: t, k => List.pairwise_cons.mpr
      ⟨fun f hf => by have := number_ge t (k + 1) f hf; show k < f.1; omega, number_sorted t (k + 1)⟩

theorem number_length : ∀ (l : List (List Edit)) (k : Nat), (number k l).length = l.length
  | [], _ => rfl
  | _ :: t, k => by simp only [number, List.length_cons, number_length t (k + 1)]

theorem fragmentsOf_length (o : Ops G) (h : Entry → G) (policy : Blue.Gc.Policy) (nm : G → Name) (I D : G) :
    ∀ (segs : List (List StoreOp)) (files : List File), (fragmentsOf o h policy nm I D files segs).length = segs.length
  | [], _ => rfl
  | seg :: segs, files => by
    simp only [fragmentsOf, List.length_cons, fragmentsOf_length o h policy nm I D segs]

/-- **the bridge**: `d` is the verifier's directory after the store history `segs` (one segment of
    transactions per manifest fragment; the roll-overs are between the segments) from the version
    `files`.  Field by field:
    * `frags` — the fragments are C04's `fragmentsOf` (each starts with the state at its roll-over),
      numbered upwards from `k` (`Manifest::rollover` numbers upwards: C09);
    * `nodup`, `valid` — the hypotheses of C04 `verifier_accepts_honest_rollovers` (what the tree
      guarantees of a transaction, and `Env.fs` opens every file a transaction names);
    * `acc` — `verify/MANIFEST` info `O` is the sum over the files at the first roll-over (what the
      pass over the fragments before `k` returned: `fragment_accepted`);
    * `vstrs`, `vM` — nothing pending in `verify/`, `M` below every fragment;
    * `trashF`, `trashL` — ASSUMED (bridge to another model): a file an edit of a numbered fragment /
      of `MANIFEST` removes (and does not add again itself) is in `trash/`.  The store renames it there
      once the edit is durable (C08 `sst_trashed_after_append_then_sync`, `FileRefs`) and only the
      verifier unlinks in `trash/` (`verifier_unlinks_only_logged_trash`); simplifications: no
      reader snapshot delays the rename, the store is not running;
    * `named` — ASSUMED (a fact of C04's file-list model `stepFiles`/`finalFiles`, not proved here): a
      file an edit names is in `sst/` (live at the end) or is removed, for good, by an edit of the
      same fragment, of a later fragment or of `MANIFEST`. -/
structure HonestDir (env : Env G) (nm : G → Name) (I D : G) (k : Nat) (files : List File)
    (segs : List (List StoreOp)) (d : Dir G) : Prop where
  frags : d.frags = number k (fragmentsOf env.ops env.h env.policy nm I D files segs)
  nodup : files.Nodup
  valid : ValidSegs env files segs
  acc : d.vO = treeSum env.ops env.h files
  vstrs : d.vstrs = []
  vM : ∀ m, d.vM = some m → m < k
  trashF : ∀ f, f ∈ d.frags → ∀ e, e ∈ f.2 → ∀ r, r ∈ removedBy e → trashSst r ∈ d.trash
  trashL : ∀ e, e ∈ d.live → ∀ r, r ∈ removedBy e → trashSst r ∈ d.trash
  named : ∀ f, f ∈ d.frags → ∀ e, e ∈ f.2.drop 1 → ∀ r, r ∈ e.add ++ e.rm →
    r ∈ d.sst ∨ r ∈ f.2.flatMap removedBy ∨ r ∈ laterRm d f.1

/-! ### the `L` fields: the store model writes none -/

theorem editLogs_noL : ∀ es : List Edit, (∀ e, e ∈ es → getInfo e 76 = none) → editLogs es = some []
  | [], _ => rfl
  | e :: t, h => by
    unfold editLogs
    rw [h e List.mem_cons_self]
    exact editLogs_noL t (fun e' h' => h e' (List.mem_cons_of_mem _ h'))

theorem editsOf_noL (o : Ops G) (h : Entry → G) (policy : Blue.Gc.Policy) (nm : G → Name) :
    ∀ (ops : List StoreOp) (files : List File) (e : Edit), e ∈ editsOf o h policy nm files ops → getInfo e 76 = none
  | [], _, e, he => by cases he
  | op :: ops, files, e, he => by
    unfold editsOf at he
    split at he
    · exact editsOf_noL o h policy nm ops files e he
    · rcases List.mem_cons.mp he with rfl | he
      · rfl
      · exact editsOf_noL o h policy nm ops _ e he

/-! ### the plan -/

theorem mem_fragSstsLast (later : List Name) : ∀ (es : List Edit) (x : Name), x ∈ fragSstsLast later es →
    ∃ e, e ∈ es ∧ ∃ r, r ∈ removedBy e ∧ x = trashSst r ∧ r ∉ later
  | [], x, h => by cases h
  | e :: t, x, h => by
    unfold fragSstsLast at h
    rcases List.mem_append.mp h with h | h
    · obtain ⟨r, hr, rfl⟩ := List.mem_map.mp h
      have hr' := List.mem_filter.mp hr
      refine ⟨e, List.mem_cons_self, r, hr'.1, rfl, ?_⟩
      intro hl
      have h2 := hr'.2
      rw [Bool.and_eq_true] at h2
      have h3 := h2.2
      rw [List.contains_iff_mem.mpr hl] at h3
      cases h3
    · obtain ⟨e', he', rest⟩ := mem_fragSstsLast later t x h
      exact ⟨e', List.mem_cons_of_mem _ he', rest⟩

theorem trashSst_inj {a b : Name} (h : trashSst a = trashSst b) : a = b :=
  List.append_cancel_right h

theorem mem_laterRm_frag (d : Dir G) (n : Nat) (f : Nat × List Edit) (hf : f ∈ d.frags) (hn : n < f.1)
    (e : Edit) (he : e ∈ f.2) (r : Name) (hr : r ∈ removedBy e) : r ∈ laterRm d n := by
  unfold laterRm
  exact List.mem_append_left _ (List.mem_flatMap.mpr
    ⟨f, List.mem_filter.mpr ⟨hf, decide_eq_true hn⟩, List.mem_flatMap.mpr ⟨e, he, hr⟩⟩)

theorem mem_laterRm_live (d : Dir G) (n : Nat) (e : Edit) (he : e ∈ d.live) (r : Name) (hr : r ∈ removedBy e) :
    r ∈ laterRm d n := by
  unfold laterRm
  exact List.mem_append_right _ (List.mem_flatMap.mpr ⟨e, he, hr⟩)

theorem laterRm_in_trash (d : Dir G)
    (hF : ∀ f, f ∈ d.frags → ∀ e, e ∈ f.2 → ∀ r, r ∈ removedBy e → trashSst r ∈ d.trash)
    (hL : ∀ e, e ∈ d.live → ∀ r, r ∈ removedBy e → trashSst r ∈ d.trash)
    (n : Nat) (r : Name) (h : r ∈ laterRm d n) : trashSst r ∈ d.trash := by
  unfold laterRm at h
  rcases List.mem_append.mp h with h | h
  · obtain ⟨f, hf, h2⟩ := List.mem_flatMap.mp h
    obtain ⟨e, he, hr⟩ := List.mem_flatMap.mp h2
    exact hF f (List.mem_filter.mp hf).1 e he r hr
  · obtain ⟨e, he, hr⟩ := List.mem_flatMap.mp h
    exact hL e he r hr

/-- what is left in `trash/` once an intent with these names is logged and executed from a
    directory with nothing logged -/
theorem mem_trash_after (d : Dir G) (hv : d.vstrs = []) (n : Nat) (es : List Edit) (names : List Name) (o : G) (x : Name) :
    x ∈ (finish (d.apply (Act.intent n es names o))).trash ↔ x ∈ d.trash ∧ x ∉ names := by
  rw [finish_trash, List.mem_filter]
  show x ∈ d.trash ∧ (!(names.foldl (fun acc x => Blue.Mani.insertStr x acc) d.vstrs).contains x) = true ↔ _
  rw [hv]
  constructor
  · rintro ⟨h1, h2⟩
    refine ⟨h1, fun hx => ?_⟩
    have : x ∈ names.foldl (fun acc x => Blue.Mani.insertStr x acc) [] :=
      (mem_foldl_insertStr_iff names []).mpr (Or.inl hx)
    rw [List.contains_iff_mem.mpr this] at h2
    cases h2
  · rintro ⟨h1, h2⟩
    refine ⟨h1, ?_⟩
    cases hcn : (names.foldl (fun acc x => Blue.Mani.insertStr x acc) []).contains x with
    | false => rfl
    | true =>
      rcases (mem_foldl_insertStr_iff names []).mp (List.contains_iff_mem.mp hcn) with h | h
      · exact absurd h h2
      · cases h

/-! ### one entry -/

/-- **one entry of an honest directory is processable, and what it leaves is an honest directory**
    (for the rest of the history, numbered from `k + 1`, accumulator at the sum over the files at
    the next roll-over) -/
theorem honest_step (env : Env G) (nm : G → Name) (hh : Honest g env nm) (I D : G) (k : Nat) (files : List File)
    (seg : List StoreOp) (segs : List (List StoreOp)) (d : Dir G)
    (h : HonestDir env nm I D k files (seg :: segs) d) :
    ∃ d', absStep (contentChecker env) d k
        (rollup env.ops env.h nm I D files :: editsOf env.ops env.h env.policy nm files seg) = some d'
      ∧ HonestDir env nm I D (k + 1) (finalFiles env.policy files seg) segs d' := by
  have hfr : d.frags = (k, rollup env.ops env.h nm I D files :: editsOf env.ops env.h env.policy nm files seg)
      :: number (k + 1) (fragmentsOf env.ops env.h env.policy nm I D (finalFiles env.policy files seg) segs) := by
    rw [h.frags]; rfl
  generalize hes : rollup env.ops env.h nm I D files :: editsOf env.ops env.h env.policy nm files seg = es at hfr
  have hmem : (k, es) ∈ d.frags := by rw [hfr]; exact List.mem_cons_self
  have hv := h.valid
  -- not below `M`
  have hoo : outOfOrder d k = false := by
    unfold outOfOrder
    split
    · rename_i m hm
      exact decide_eq_false (by have := h.vM m hm; omega)
    · rfl
  -- the files the edits read are there
  have hread : readable d es = true := by
    unfold readable
    rw [List.all_eq_true]
    intro e he
    rw [List.all_eq_true]
    intro r hr
    rw [Bool.or_eq_true]
    rcases h.named (k, es) hmem e he r hr with h1 | h1 | h1
    · exact Or.inr (List.contains_iff_mem.mpr h1)
    · obtain ⟨e', he', hr'⟩ := List.mem_flatMap.mp h1
      exact Or.inl (List.contains_iff_mem.mpr (h.trashF (k, es) hmem e' he' r hr'))
    · exact Or.inl (List.contains_iff_mem.mpr (laterRm_in_trash d h.trashF h.trashL k r h1))
  -- the checker passes (C04)
  have hchk : checkAll (contentChecker env) d es = some (treeSum env.ops env.h (finalFiles env.policy files seg)) := by
    unfold checkAll
    rw [if_pos hread]
    show (verifyFragment env d.vO es).toOption = _
    rw [h.acc, ← hes, fragment_accepted g env nm hh I D files seg h.nodup hv.1 hv.2.1]
    rfl
  -- the `L` fields parse: there is none
  have hplan : plan (contentChecker env).asWas (laterRm d k) es = some (fragSstsLast (laterRm d k) es) := by
    have hl : editLogs (es.drop 1) = some [] := by
      rw [← hes]
      exact editLogs_noL _ (editsOf_noL env.ops env.h env.policy nm seg files)
    show (editLogs (es.drop 1)).map ((if false = true then fragSsts es else fragSstsLast (laterRm d k) es) ++ ·) = _
    rw [hl]
    simp
  -- the names of the plan are in `trash/`
  have htr : ∀ x, x ∈ fragSstsLast (laterRm d k) es → x ∈ d.trash := by
    intro x hx
    obtain ⟨e, he, r, hr, rfl, _⟩ := mem_fragSstsLast _ es x hx
    exact h.trashF (k, es) hmem e he r hr
  refine ⟨_, absStep_processed (contentChecker env) d k es _ _ hoo hchk hplan htr, ?_⟩
  -- what is left is honest
  have hgt : ∀ f, f ∈ number (k + 1) (fragmentsOf env.ops env.h env.policy nm I D (finalFiles env.policy files seg) segs)
      → k < f.1 := fun f hf => by have := number_ge _ _ f hf; omega
  have hfrags' : (finish (d.apply (Act.intent k es (fragSstsLast (laterRm d k) es)
        (treeSum env.ops env.h (finalFiles env.policy files seg))))).frags
      = number (k + 1) (fragmentsOf env.ops env.h env.policy nm I D (finalFiles env.policy files seg) segs) := by
    show d.frags.filter (fun f => f.1 != k) = _
    rw [hfr]
    exact filter_ne_head k es _ hgt
  have hsub : ∀ f, f ∈ number (k + 1) (fragmentsOf env.ops env.h env.policy nm I D (finalFiles env.policy files seg) segs)
      → f ∈ d.frags := fun f hf => by rw [hfr]; exact List.mem_cons_of_mem _ hf
  have hlater : ∀ n', k < n' →
      laterRm (finish (d.apply (Act.intent k es (fragSstsLast (laterRm d k) es)
        (treeSum env.ops env.h (finalFiles env.policy files seg))))) n' = laterRm d n' := by
    intro n' hn'
    have e1 : ∀ (a b : Dir G), a.frags.filter (fun f => decide (n' < f.1)) = b.frags.filter (fun f => decide (n' < f.1)) →
        a.live = b.live → laterRm a n' = laterRm b n' := by
      intro a b h1 h2; unfold laterRm; rw [h1, h2]
    apply e1
    · rw [hfrags', hfr, List.filter_cons]
      have : decide (n' < k) = false := decide_eq_false (by omega)
      simp only [this, Bool.false_eq_true, if_false]
    · rfl
  have hkeep : ∀ r, r ∈ laterRm d k → trashSst r ∈ d.trash →
      trashSst r ∈ (finish (d.apply (Act.intent k es (fragSstsLast (laterRm d k) es)
        (treeSum env.ops env.h (finalFiles env.policy files seg))))).trash := by
    intro r hl ht
    rw [mem_trash_after d h.vstrs]
    refine ⟨ht, fun hx => ?_⟩
    obtain ⟨_, _, r', _, heq, hnl⟩ := mem_fragSstsLast _ es _ hx
    rw [trashSst_inj heq] at hl
    exact hnl hl
  exact
    { frags := hfrags'
      nodup := finalFiles_nodup env seg files h.nodup hv.1
      valid := hv.2.2
      acc := rfl
      vstrs := rfl
      vM := fun m hm => by
        have : some k = some m := hm
        cases this; omega
      trashF := fun f hf e he r hr => by
        rw [hfrags'] at hf
        exact hkeep r (mem_laterRm_frag d k f (hsub f hf) (hgt f hf) e he r hr) (h.trashF f (hsub f hf) e he r hr)
      trashL := fun e he r hr => hkeep r (mem_laterRm_live d k e he r hr) (h.trashL e he r hr)
      named := fun f hf e he r hr => by
        rw [hfrags'] at hf
        rw [hlater f.1 (hgt f hf)]
        exact h.named f (hsub f hf) e he r hr }

/-! ### every entry -/

/-- **`honest_directory_processable`**: in the verifier directory of an honest store history — any
    number of fragments, any transactions — every entry is processable, each in the directory the
    entries before it leave: not numbered below `M`, its files readable, accepted by the verifier's
    real checks (C04) against the accumulator of that moment, no `L` field that does not parse,
    every name of its plan in `trash/` -/
theorem honest_directory_processable (env : Env G) (nm : G → Name) (hh : Honest g env nm) (I D : G) :
    ∀ (segs : List (List StoreOp)) (k : Nat) (files : List File) (d : Dir G),
      HonestDir env nm I D k files segs d → Processable (contentChecker env) d (entries d)
  | [], k, files, d, h => by
    have : entries d = [] := by unfold entries; rw [h.frags]; rfl
    rw [this]; exact trivial
  | [seg], k, files, d, h => by
    have : entries d = [] := by unfold entries; rw [h.frags]; rfl
    rw [this]; exact trivial
  | seg :: seg2 :: segs, k, files, d, h => by
    obtain ⟨d', hstep, h'⟩ := honest_step g env nm hh I D k files seg (seg2 :: segs) d h
    have ih := honest_directory_processable env nm hh I D (seg2 :: segs) (k + 1) _ d' h'
    have he : entries d = (k, rollup env.ops env.h nm I D files :: editsOf env.ops env.h env.policy nm files seg)
        :: entries d' := by
      unfold entries; rw [h.frags, h'.frags]; rfl
    rw [he]
    exact ⟨d', hstep, ih⟩

theorem honestDir_sorted {env : Env G} {nm : G → Name} {I D : G} {k : Nat} {files : List File}
    {segs : List (List StoreOp)} {d : Dir G} (h : HonestDir env nm I D k files segs d) : Sorted d := by
  unfold Sorted; rw [h.frags]; exact number_sorted _ _

theorem honestDir_clean {env : Env G} {nm : G → Name} {I D : G} {k : Nat} {files : List File}
    {segs : List (List StoreOp)} {d : Dir G} (h : HonestDir env nm I D k files segs d) : Clean d :=
  ⟨h.vstrs, fun m hm f hf => by
    rw [h.frags] at hf
    have := number_ge _ _ f hf
    have := h.vM m hm
    omega⟩

theorem honestDir_entries_length {env : Env G} {nm : G → Name} {I D : G} {k : Nat} {files : List File}
    {segs : List (List StoreOp)} {d : Dir G} (h : HonestDir env nm I D k files segs d) :
    (entries d).length = segs.length - 1 := by
  unfold entries
  rw [List.length_dropLast, h.frags, number_length, fragmentsOf_length]

/-- **`honest_pass_progress`**: over the directory of an honest history with at least one fragment,
    with the store not running during the pass (the directory changes by the pass's actions only),
    `LsmVerifier::verify` returns `Ok`, processes every fragment but the newest (one entry per
    roll-over but the last: `segs.length - 1`), at least 3 durable actions each, unlinks each of
    them, leaves only the newest fragment, nothing pending, `trash/` without exactly the names of the
    plans, `sst/` and `MANIFEST` as they were; the next pass is empty; and a pass cut after any number
    of its actions and restarted ends in the same directory.  No hypothesis on the checker or on
    `Processable` is left: `HonestDir` is about the store side only. -/
theorem honest_pass_progress (env : Env G) (nm : G → Name) (hh : Honest g env nm) (I D : G) (k : Nat)
    (files : List File) (segs : List (List StoreOp)) (d : Dir G) (h : HonestDir env nm I D k files segs d)
    (hne : segs ≠ []) :
    ∃ hnil : d.frags ≠ [],
      Processable (contentChecker env) d (entries d)
      ∧ (entries d).length = segs.length - 1
      ∧ ((pass (contentChecker env) d).2 = .ok
        ∧ 3 * (entries d).length ≤ (pass (contentChecker env) d).1.length
        ∧ (∀ f, f ∈ entries d → Act.unlinkFrag f.1 ∈ (pass (contentChecker env) d).1)
        ∧ (final (contentChecker env) d).frags = [d.frags.getLast hnil]
        ∧ Clean (final (contentChecker env) d)
        ∧ (final (contentChecker env) d).vM = (match (entries d).getLast? with | some f => some f.1 | none => d.vM)
        ∧ (∀ x, x ∈ (final (contentChecker env) d).trash ↔ x ∈ d.trash ∧ x ∉ plans (contentChecker env) d (entries d))
        ∧ (final (contentChecker env) d).sst = d.sst ∧ (final (contentChecker env) d).live = d.live)
      ∧ (entries (final (contentChecker env) d) = [] ∧ pass (contentChecker env) (final (contentChecker env) d) = ([], .ok)
        ∧ final (contentChecker env) (final (contentChecker env) d) = final (contentChecker env) d)
      ∧ ∀ j, finish (final (contentChecker env) (run d ((pass (contentChecker env) d).1.take j)))
          = final (contentChecker env) d := by
  have hnil : d.frags ≠ [] := by
    cases segs with
    | nil => exact absurd rfl hne
    | cons seg segs =>
      rw [h.frags]
      exact List.cons_ne_nil _ _
  have hp := honest_directory_processable g env nm hh I D segs k files d h
  have hs := honestDir_sorted h
  have hcl := honestDir_clean h
  exact ⟨hnil, hp, honestDir_entries_length h, pass_progress _ d hs hcl hnil hp, pass_fixed_point _ d hs hcl hnil hp,
    crashed_pass_restart_reaches_fixed_point _ d hs hcl hnil hp⟩

/-! ### a concrete honest directory: three fragments (two entries), integers for setsums -/

def hF1 : File := [a5, b3]
def hF2 : File := [a2, c1]
def hF3 : File := [b1]
/-- what the compaction of `hF1` and `hF2` writes -/
def hM : File := [a5, a2, b3, c1]
def hEnv : Env Int := exEnv [hF1, hF2, hM, hF3] false
/-- fragment 1: two ingests; roll-over; fragment 2: the compaction of both; roll-over; fragment 3: an ingest -/
def hSegs : List (List StoreOp) := [[.ingest hF1, .ingest hF2], [.compact [hF1, hF2] []], [.ingest hF3]]
def hS (f : File) : Name := exName (setsumOf (opsOf intGrp) exH f)
/-- `sst/`: the live files; `trash/`: the two inputs of the compaction; `verify/`: never run -/
def hDir : Dir Int :=
  { sst := [hS hM, hS hF3], trash := [trashSst (hS hF1), trashSst (hS hF2)],
    frags := number 1 (fragmentsOf hEnv.ops hEnv.h hEnv.policy exName 0 0 [] hSegs),
    live := [rollup hEnv.ops hEnv.h exName 0 0 [hM, hF3]], vstrs := [], vM := none, vO := 0, done := [] }

theorem hEnv_honest : Honest intGrp hEnv exName := by
  refine ⟨rfl, ?_⟩
  intro s
  show exParse (exName s) = some s
  unfold exName exParse
  by_cases hs : s < 0
  · simp only [hs, if_true]; congr 1; omega
  · simp only [hs, if_false]; congr 1; omega

theorem hDir_honest : HonestDir hEnv exName 0 0 1 [] hSegs hDir :=
  { frags := rfl
    nodup := List.nodup_nil
    valid := by
      simp only [hSegs, ValidSegs, ValidOps, ValidOp, Present, isMove]
      decide
    acc := by decide
    vstrs := rfl
    vM := fun m hm => by cases hm
    trashF := by decide
    trashL := by decide
    named := by decide }

theorem hDir_facts : (entries hDir).length = 2 ∧ finalFiles hEnv.policy [] hSegs.flatten = [hM, hF3]
    ∧ (pass (contentChecker hEnv) hDir).2 = .ok ∧ (pass (contentChecker hEnv) hDir).1.length = 9
    ∧ (final (contentChecker hEnv) hDir).trash = [] ∧ (final (contentChecker hEnv) hDir).frags.map (·.1) = [3]
    ∧ (final (contentChecker hEnv) hDir).vM = some 2 := by decide

end Blue.VerifyOne

#print axioms Blue.VerifyOne.honest_step
#print axioms Blue.VerifyOne.honest_directory_processable
#print axioms Blue.VerifyOne.honest_pass_progress
