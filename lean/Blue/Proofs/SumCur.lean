import Blue.Model.SumCur
import Blue.Proofs.Cur
namespace Blue.Cursor
variable {E : Type} {A : (E → Bool) → Prop}

def inlHom (C D : Cur E) : Hom A C (Cur.sum C D) where
  f := Sum.inl
  first := fun _ => rfl
  last := fun _ => rfl
  next := fun _ => rfl
  prev := fun _ => rfl
  seek := fun _ _ _ => rfl
  kv := fun _ => rfl
  ok := fun _ => rfl

def inrHom (C D : Cur E) : Hom A D (Cur.sum C D) where
  f := Sum.inr
  first := fun _ => rfl
  last := fun _ => rfl
  next := fun _ => rfl
  prev := fun _ => rfl
  seek := fun _ _ _ => rfl
  kv := fun _ => rfl
  ok := fun _ => rfl

/-- a child behaves the same inside the union -/
theorem behEq_inl (C D : Cur E) (c : C.σ) : BehEq A (Cur.sum C D) (.inl c) C c :=
  fun ops ha => (inlHom (A := A) C D).beh c ops ha

theorem behEq_inr (C D : Cur E) (d : D.σ) : BehEq A (Cur.sum C D) (.inr d) D d :=
  fun ops ha => (inrHom (A := A) C D).beh d ops ha

theorem behA_inl (C D : Cur E) (c : C.σ) : behA A (Cur.sum C D) (.inl c) = behA A C c :=
  behA_eq_of_behEq (behEq_inl C D c)

theorem behA_inr (C D : Cur E) (d : D.σ) : behA A (Cur.sum C D) (.inr d) = behA A D d :=
  behA_eq_of_behEq (behEq_inr C D d)

end Blue.Cursor
