import Blue.Proofs.BvSparseList
/-! The sparse bit vector's nodes: what a slice holds, the leaf scan, `Internal::position` /
    `Internal::pointer`, the shape of a built subtree (`Tree`) and the two descents
    (`accessRankFrom`, `selectFrom`) on such a subtree. -/
namespace Blue.BvSparse

/-! ### slices -/

theorem pushSlice_cons (branch v0 : Nat) (rest : List Nat) :
    pushSlice branch (v0 :: rest)
      = ⟨v0, rest.map (fun v => v - v0) ++ List.replicate (branch - 1 - rest.length) 0⟩ := rfl

theorem pushSlice_nil (branch : Nat) : pushSlice branch [] = ⟨u64Max, List.replicate (branch - 1) 0⟩ := rfl

/-- the delta words of a slice: the real deltas, then zeros, then nothing -/
theorem deltas_getElem? (v0 : Nat) (rest : List Nat) (k i : Nat) :
    (rest.map (fun v => v - v0) ++ List.replicate k 0)[i]?
      = if i < rest.length then (rest[i]?).map (fun v => v - v0)
        else if i < rest.length + k then some 0 else none := by
  by_cases h : i < rest.length
  · rw [if_pos h, List.getElem?_append_left (by simpa using h), List.getElem?_map]
  · rw [if_neg h, List.getElem?_append_right (by simpa using h), List.length_map, List.getElem?_replicate]
    by_cases h2 : i < rest.length + k
    · rw [if_pos h2, if_pos (by omega)]
    · rw [if_neg h2, if_neg (by omega)]

/-! ### leaves -/

theorem leafScan_nil (branch base x idx : Nat) : leafScan branch base x [] idx = (false, branch) := rfl

theorem leafScan_cons (branch base x load : Nat) (rest : List Nat) (idx : Nat) :
    leafScan branch base x (load :: rest) idx
      = if base + load ≥ x ∨ load = 0 then (base + load == x, idx + 1)
        else leafScan branch base x rest (idx + 1) := rfl

theorem leafScan_zeros (branch base x : Nat) (hx : base < x) : ∀ (k idx : Nat), idx + k + 1 = branch →
    leafScan branch base x (List.replicate k 0) idx = (false, idx + 1)
  | 0, idx, h => by
    rw [List.replicate_zero, leafScan_nil]
    have : branch = idx + 1 := by omega
    rw [this]
  | k + 1, idx, _ => by
    rw [List.replicate_succ, leafScan_cons, if_pos (Or.inr rfl)]
    have : (base + 0 == x) = false := by
      simp only [Nat.add_zero, beq_eq_false_iff_ne, ne_eq]
      omega
    rw [this]

theorem leafScan_spec (branch c0 x : Nat) (hx : c0 < x) : ∀ (R : List Nat) (k idx : Nat),
    Sorted R → (∀ r ∈ R, c0 < r) → idx + R.length + k + 1 = branch →
    leafScan branch c0 x (R.map (fun v => v - c0) ++ List.replicate k 0) idx
      = (decide (x ∈ R), idx + 1 + R.countP (fun c => decide (c < x)))
  | [], k, idx, _, _, hlen => by
    rw [List.map_nil, List.nil_append, leafScan_zeros branch c0 x hx k idx (by simpa using hlen)]
    simp
  | r :: R, k, idx, hs, hgt, hlen => by
    have hs' := List.pairwise_cons.mp hs
    have hr : c0 < r := hgt r List.mem_cons_self
    rw [List.map_cons, List.cons_append, leafScan_cons]
    have hw : c0 + (r - c0) = r := by omega
    rw [hw]
    by_cases h : r ≥ x
    · rw [if_pos (Or.inl h)]
      have hcount : (r :: R).countP (fun c => decide (c < x)) = 0 := by
        apply countP_lt_of_all_ge
        intro c hc
        rcases List.mem_cons.mp hc with rfl | hc
        · exact h
        · have := hs'.1 c hc
          omega
      rw [hcount]
      have hmem : decide (x ∈ r :: R) = (r == x) := by
        by_cases hrx : r = x
        · subst hrx; simp
        · have : x ∉ r :: R := by
            intro hc
            rcases List.mem_cons.mp hc with rfl | hc
            · exact hrx rfl
            · have := hs'.1 x hc
              omega
          simp [this, hrx]
      rw [hmem]
    · have hne : ¬ (r ≥ x ∨ r - c0 = 0) := by omega
      rw [if_neg hne]
      rw [leafScan_spec branch c0 x hx R k (idx + 1) hs'.2 (fun r' hr' => hgt r' (List.mem_cons_of_mem _ hr'))
        (by simp at hlen; omega)]
      rw [List.countP_cons_of_pos (by simp; omega)]
      have hmem : decide (x ∈ r :: R) = decide (x ∈ R) := by
        have : x ≠ r := by omega
        simp [this]
      rw [hmem]
      congr 1
      omega

/-- **the leaf scan**: `Leaf::access_rank` on the slice written for a strictly increasing,
    non-empty `C` of at most `branch` values tells whether `x` is in `C` and how many are below it -/
theorem leafAccessRank_spec (branch : Nat) (C : List Nat) (x : Nat) (hne : C ≠ []) (hlen : C.length ≤ branch)
    (hs : Sorted C) :
    leafAccessRank branch (pushSlice branch C) x = (decide (x ∈ C), C.countP (fun c => decide (c < x))) := by
  cases C with
  | nil => exact absurd rfl hne
  | cons c0 R =>
    have hs' := List.pairwise_cons.mp hs
    rw [pushSlice_cons]
    unfold leafAccessRank
    simp only
    by_cases h : c0 ≥ x
    · rw [if_pos h]
      have hcount : (c0 :: R).countP (fun c => decide (c < x)) = 0 := by
        apply countP_lt_of_all_ge
        intro c hc
        rcases List.mem_cons.mp hc with rfl | hc
        · exact h
        · have := hs'.1 c hc
          omega
      rw [hcount]
      have hmem : decide (x ∈ c0 :: R) = (c0 == x) := by
        by_cases hrx : c0 = x
        · subst hrx; simp
        · have : x ∉ c0 :: R := by
            intro hc
            rcases List.mem_cons.mp hc with rfl | hc
            · exact hrx rfl
            · have := hs'.1 x hc
              omega
          simp [this, hrx]
      rw [hmem]
    · rw [if_neg h]
      rw [leafScan_spec branch c0 x (by omega) R _ 0 hs'.2 hs'.1 (by simp at hlen; omega)]
      rw [List.countP_cons_of_pos (by simp; omega)]
      have hmem : decide (x ∈ c0 :: R) = decide (x ∈ R) := by
        have : x ≠ c0 := by omega
        simp [this]
      rw [hmem]
      congr 1
      omega

/-- **`Leaf::select`** returns one past the `i`-th value, for every `i` -/
theorem leafSelect_spec (branch : Nat) (C : List Nat) (i : Nat) (hne : C ≠ []) (hs : Sorted C) :
    leafSelect (pushSlice branch C) i = (C[i]?).map (· + 1) := by
  cases C with
  | nil => exact absurd rfl hne
  | cons c0 R =>
    have hs' := List.pairwise_cons.mp hs
    rw [pushSlice_cons]
    unfold leafSelect
    simp only
    cases i with
    | zero => simp
    | succ i =>
      rw [if_neg (by omega), Nat.add_sub_cancel, deltas_getElem?, List.getElem?_cons_succ]
      by_cases h : i < R.length
      · rw [if_pos h, List.getElem?_eq_getElem h]
        simp only [Option.map_some]
        have : c0 < R[i] := hs'.1 _ (List.getElem_mem h)
        rw [if_pos (by omega)]
        congr 1
        omega
      · rw [if_neg h]
        have hnone : R[i]? = none := List.getElem?_eq_none (by omega)
        rw [hnone]
        by_cases h2 : i < R.length + (branch - 1 - R.length)
        · rw [if_pos h2]; simp
        · rw [if_neg h2]; simp

/-! ### internal nodes -/

/-- the comparison closure of `position` on a non-empty divider slice: it compares the divider at
    `mid + 1` with `x`, and answers `Greater` on padding -/
theorem positionCmp_spec (branch d0 : Nat) (D : List Nat) (x mid : Nat) (hgt : ∀ d ∈ D, d0 < d) :
    positionCmp (pushSlice branch (d0 :: D)) x mid
      = match D[mid]? with
        | some d => compare d x
        | none => .gt := by
  rw [pushSlice_cons]
  unfold positionCmp
  simp only
  rw [List.getD_eq_getElem?_getD, deltas_getElem?]
  by_cases h : mid < D.length
  · rw [if_pos h, List.getElem?_eq_getElem h]
    have : d0 < D[mid] := hgt _ (List.getElem_mem h)
    simp only [Option.map_some, Option.getD_some]
    rw [if_neg (by omega)]
    have : d0 + (D[mid] - d0) = D[mid] := by omega
    rw [this]
  · rw [if_neg h]
    have hnone : D[mid]? = none := List.getElem?_eq_none (by omega)
    rw [hnone]
    by_cases h2 : mid < D.length + (branch - 1 - D.length)
    · rw [if_pos h2]; simp
    · rw [if_neg h2]; simp

/-- the pointer slice written for the children `p0 :: ps` -/
def ptrSlice (branch : Nat) (ps : List Node) : List (Option Node) :=
  ps.map some ++ List.replicate (branch - 1 - ps.length) none

theorem mkInternal_eq (branch : Nat) (D : List Nat) (p0 : Node) (ps : List Node) :
    mkInternal branch D p0 ps = .node (pushSlice (branch - 1) D) p0 (ptrSlice branch ps) := rfl

theorem ptrSlice_getElem? (branch : Nat) (ps : List Node) (i : Nat) :
    (ptrSlice branch ps)[i]?
      = if i < ps.length then (ps[i]?).map some
        else if i < ps.length + (branch - 1 - ps.length) then some none else none := by
  unfold ptrSlice
  by_cases h : i < ps.length
  · rw [if_pos h, List.getElem?_append_left (by simpa using h), List.getElem?_map]
  · rw [if_neg h, List.getElem?_append_right (by simpa using h), List.length_map, List.getElem?_replicate]
    by_cases h2 : i < ps.length + (branch - 1 - ps.length)
    · rw [if_pos h2, if_pos (by omega)]
    · rw [if_neg h2, if_neg (by omega)]

/-- **`Internal::pointer`** finds exactly the children that exist -/
theorem pointer_spec (branch : Nat) (p0 : Node) (ps : List Node) (index : Nat) :
    pointer p0 (ptrSlice branch ps) index = (p0 :: ps)[index]? := by
  unfold pointer
  cases index with
  | zero => simp
  | succ i =>
    rw [if_neg (by omega), Nat.add_sub_cancel, ptrSlice_getElem?, List.getElem?_cons_succ]
    by_cases h : i < ps.length
    · rw [if_pos h, List.getElem?_eq_getElem h]
      rfl
    · rw [if_neg h]
      have hnone : ps[i]? = none := List.getElem?_eq_none (by omega)
      rw [hnone]
      by_cases h2 : i < ps.length + (branch - 1 - ps.length)
      · rw [if_pos h2]
      · rw [if_neg h2]

/-- **`Internal::position`**: on the slices written for strictly increasing dividers `D` (one fewer
    than the children `p0 :: ps`, at most `branch - 1` of them) it returns the number `j` of
    dividers below `x` together with child `j`; in particular the pointer delta it loads without
    checking is never a padding zero. -/
theorem position_spec (branch : Nat) (hb : 4 ≤ branch) (D : List Nat) (p0 : Node) (ps : List Node) (x : Nat)
    (hs : Sorted D) (hlen : D.length = ps.length) (hps : ps.length + 1 ≤ branch) (hx : x ≤ u64Max) :
    ∃ j nd, IsPos D x j ∧ (p0 :: ps)[j]? = some nd
      ∧ position branch (pushSlice (branch - 1) D) p0 (ptrSlice branch ps) x = some (j, nd) := by
  unfold position
  cases D with
  | nil =>
    rw [pushSlice_nil]
    simp only
    rw [if_pos hx]
    refine ⟨0, p0, ⟨Nat.le_refl _, ?_, ?_⟩, rfl, rfl⟩
    · intro i d hi; omega
    · intro d hd; simp at hd
  | cons d0 D' =>
    have hs' := List.pairwise_cons.mp hs
    by_cases h0 : d0 ≥ x
    · have : (pushSlice (branch - 1) (d0 :: D')).base ≥ x := h0
      rw [if_pos this]
      refine ⟨0, p0, ⟨Nat.zero_le _, ?_, ?_⟩, rfl, rfl⟩
      · intro i d hi; omega
      · intro d hd
        simp at hd
        omega
    · have : ¬ (pushSlice (branch - 1) (d0 :: D')).base ≥ x := h0
      rw [if_neg this]
      simp only
      -- the binary search
      have hcmp := fun mid => positionCmp_spec (branch - 1) d0 D' x mid hs'.1
      have hlt_iff : ∀ mid, positionCmp (pushSlice (branch - 1) (d0 :: D')) x mid = .lt
          ↔ ∃ d, D'[mid]? = some d ∧ d < x := by
        intro mid
        rw [hcmp mid]
        cases hd : D'[mid]? with
        | none => simp
        | some d =>
          simp only [Option.some.injEq, exists_eq_left']
          exact Nat.compare_eq_lt
      have heq_iff : ∀ mid, positionCmp (pushSlice (branch - 1) (d0 :: D')) x mid = .eq
          → ∃ d, D'[mid]? = some d ∧ d = x := by
        intro mid
        rw [hcmp mid]
        cases hd : D'[mid]? with
        | none => simp
        | some d =>
          simp only [Option.some.injEq, exists_eq_left']
          exact Nat.compare_eq_eq.mp
      have hsorted_idx : ∀ (i j a c : Nat), i < j → D'[i]? = some a → D'[j]? = some c → a < c := by
        intro i j a c hij ha hc
        have hi : i < D'.length := (List.getElem?_eq_some_iff.mp ha).1
        have hj : j < D'.length := (List.getElem?_eq_some_iff.mp hc).1
        have := List.pairwise_iff_getElem.mp hs'.2 i j hi hj hij
        rw [(List.getElem?_eq_some_iff.mp ha).2, (List.getElem?_eq_some_iff.mp hc).2] at this
        exact this
      have hmono : ∀ i j, 0 ≤ i → i ≤ j → j < branch - 2 →
          positionCmp (pushSlice (branch - 1) (d0 :: D')) x j = .lt →
          positionCmp (pushSlice (branch - 1) (d0 :: D')) x i = .lt := by
        intro i j _ hij _ hj
        obtain ⟨c, hc, hcx⟩ := (hlt_iff j).mp hj
        have hjl : j < D'.length := (List.getElem?_eq_some_iff.mp hc).1
        have hil : i < D'.length := by omega
        refine (hlt_iff i).mpr ⟨D'[i], List.getElem?_eq_getElem hil, ?_⟩
        by_cases hije : i = j
        · subst hije
          rw [List.getElem?_eq_getElem hil] at hc
          cases hc
          exact hcx
        · have := hsorted_idx i j _ c (by omega) (List.getElem?_eq_getElem hil) hc
          omega
      have heq : ∀ i j, 0 ≤ i → i < j → j < branch - 2 →
          positionCmp (pushSlice (branch - 1) (d0 :: D')) x j = .eq →
          positionCmp (pushSlice (branch - 1) (d0 :: D')) x i = .lt := by
        intro i j _ hij _ hj
        obtain ⟨c, hc, hcx⟩ := heq_iff j hj
        have hjl : j < D'.length := (List.getElem?_eq_some_iff.mp hc).1
        have hil : i < D'.length := by omega
        refine (hlt_iff i).mpr ⟨D'[i], List.getElem?_eq_getElem hil, ?_⟩
        have := hsorted_idx i j _ c hij (List.getElem?_eq_getElem hil) hc
        omega
      obtain ⟨_, h2, h3, h4⟩ := binarySearchBy_spec _ branch 0 (branch - 2) (Nat.zero_le _) (by omega) hmono heq
      generalize binarySearchBy (positionCmp (pushSlice (branch - 1) (d0 :: D')) x) branch 0 (branch - 2) = idx at *
      simp only [List.length_cons] at hlen
      -- `idx` does not pass the real dividers
      have hidx : idx ≤ D'.length := by
        apply Nat.le_of_not_lt
        intro hgt
        obtain ⟨d, hd, _⟩ := (hlt_iff D'.length).mp (h3 D'.length (Nat.zero_le _) hgt)
        have := (List.getElem?_eq_some_iff.mp hd).1
        omega
      have hpos : IsPos (d0 :: D') x (idx + 1) := by
        refine ⟨by simp; omega, ?_, ?_⟩
        · intro i d hi hd
          cases i with
          | zero => simp at hd; omega
          | succ i =>
            simp only [List.getElem?_cons_succ] at hd
            obtain ⟨d', hd', hlt'⟩ := (hlt_iff i).mp (h3 i (Nat.zero_le _) (by omega))
            rw [hd] at hd'
            cases hd'
            exact hlt'
        · intro d hd
          simp only [List.getElem?_cons_succ] at hd
          have hil : idx < D'.length := (List.getElem?_eq_some_iff.mp hd).1
          have hne := h4 idx (Nat.le_refl _) (by omega)
          apply Nat.le_of_not_lt
          intro hlt'
          exact hne ((hlt_iff idx).mpr ⟨d, hd, hlt'⟩)
      have hil : idx < ps.length := by omega
      rw [ptrSlice_getElem?, if_pos hil, List.getElem?_eq_getElem hil]
      simp only [Option.map_some]
      exact ⟨idx + 1, ps[idx], hpos, by simp [List.getElem?_eq_getElem hil], rfl⟩

/-! ### built subtrees -/

/-- the children of a group against the pieces they hold: child by child, every child but the last
    holding exactly `s` values -/
def KidsRel (P : Node → List Nat → Prop) (s : Nat) : List Node → List (List Nat) → Prop
  | [], [] => True
  | nd :: nds, C :: Cs => P nd C ∧ (nds ≠ [] → C.length = s) ∧ KidsRel P s nds Cs
  | _, _ => False

theorem kidsRel_cons {P : Node → List Nat → Prop} {s : Nat} {nd : Node} {nds : List Node} {C : List Nat}
    {Cs : List (List Nat)} :
    KidsRel P s (nd :: nds) (C :: Cs) ↔ (P nd C ∧ (nds ≠ [] → C.length = s) ∧ KidsRel P s nds Cs) := Iff.rfl

theorem kidsRel_length {P : Node → List Nat → Prop} {s : Nat} : ∀ {nds : List Node} {Cs : List (List Nat)},
    KidsRel P s nds Cs → nds.length = Cs.length
  | [], [], _ => rfl
  | [], _ :: _, h => by cases h
  | _ :: _, [], h => by cases h
  | _ :: nds, _ :: Cs, h => by
    have := kidsRel_length (kidsRel_cons.mp h).2.2
    simp [this]

theorem kidsRel_getElem? {P : Node → List Nat → Prop} {s : Nat} : ∀ {nds : List Node} {Cs : List (List Nat)}
    {i : Nat} {nd : Node} {C : List Nat}, KidsRel P s nds Cs → nds[i]? = some nd → Cs[i]? = some C → P nd C
  | [], [], _, _, _, _, h, _ => by simp at h
  | [], _ :: _, _, _, _, h, _, _ => by cases h
  | _ :: _, [], _, _, _, h, _, _ => by cases h
  | _ :: nds, _ :: Cs, 0, _, _, h, h1, h2 => by
    simp at h1 h2
    subst h1 h2
    exact (kidsRel_cons.mp h).1
  | _ :: nds, _ :: Cs, i + 1, _, _, h, h1, h2 => by
    simp only [List.getElem?_cons_succ] at h1 h2
    exact kidsRel_getElem? (kidsRel_cons.mp h).2.2 h1 h2

theorem kidsRel_fullButLast {P : Node → List Nat → Prop} {s : Nat} (hP : ∀ nd C, P nd C → C ≠ []) :
    ∀ {nds : List Node} {Cs : List (List Nat)}, KidsRel P s nds Cs → FullButLast s Cs
  | [], [], _ => trivial
  | [], _ :: _, h => by cases h
  | _ :: _, [], h => by cases h
  | nd :: nds, C :: Cs, h => by
    obtain ⟨h1, h2, h3⟩ := kidsRel_cons.mp h
    refine fullButLast_cons.mpr ⟨hP nd C h1, ?_, kidsRel_fullButLast hP h3⟩
    intro hne
    apply h2
    intro hnil
    subst hnil
    cases Cs with
    | nil => exact hne rfl
    | cons _ _ => cases h3

theorem kidsRel_mem {P : Node → List Nat → Prop} {s : Nat} : ∀ {nds : List Node} {Cs : List (List Nat)},
    KidsRel P s nds Cs → ∀ C ∈ Cs, ∃ nd, P nd C
  | [], [], _, _, hC => by cases hC
  | [], _ :: _, h, _, _ => by cases h
  | _ :: _, [], h, _, _ => by cases h
  | nd :: nds, C0 :: Cs, h, C, hC => by
    obtain ⟨h1, _, h3⟩ := kidsRel_cons.mp h
    rcases List.mem_cons.mp hC with rfl | hC
    · exact ⟨nd, h1⟩
    · exact kidsRel_mem h3 C hC

/-- `Tree branch h nd C`: `nd` is the subtree of height `h` (0 = leaf) that `from_indices` writes
    for the strictly increasing values `C`: a leaf slice of `C`, or the node over the subtrees of the
    pieces `Cs` of `C` (each but the last holding `branch^h` values), with their last values but the
    last as dividers -/
def Tree (branch : Nat) : Nat → Node → List Nat → Prop
  | 0, nd, C => C ≠ [] ∧ C.length ≤ branch ∧ nd = .leaf (pushSlice branch C)
  | h + 1, nd, C => ∃ (p0 : Node) (ps : List Node) (Cs : List (List Nat)),
      ps.length + 1 ≤ branch ∧ KidsRel (Tree branch h) (branch ^ (h + 1)) (p0 :: ps) Cs
      ∧ C = Cs.flatten ∧ nd = mkInternal branch (dividersOf Cs) p0 ps

theorem tree_zero {branch : Nat} {nd : Node} {C : List Nat} :
    Tree branch 0 nd C ↔ (C ≠ [] ∧ C.length ≤ branch ∧ nd = .leaf (pushSlice branch C)) := Iff.rfl

theorem tree_succ {branch h : Nat} {nd : Node} {C : List Nat} :
    Tree branch (h + 1) nd C ↔ ∃ (p0 : Node) (ps : List Node) (Cs : List (List Nat)),
      ps.length + 1 ≤ branch ∧ KidsRel (Tree branch h) (branch ^ (h + 1)) (p0 :: ps) Cs
      ∧ C = Cs.flatten ∧ nd = mkInternal branch (dividersOf Cs) p0 ps := Iff.rfl

/-- a subtree of height `h` holds between 1 and `branch^(h+1)` values -/
theorem tree_size (branch : Nat) : ∀ (h : Nat) (nd : Node) (C : List Nat), Tree branch h nd C →
    C ≠ [] ∧ C.length ≤ branch ^ (h + 1)
  | 0, nd, C, ht => by
    obtain ⟨h1, h2, _⟩ := tree_zero.mp ht
    exact ⟨h1, by simpa using h2⟩
  | h + 1, nd, C, ht => by
    obtain ⟨p0, ps, Cs, hps, hk, hC, _⟩ := tree_succ.mp ht
    have hlen := kidsRel_length hk
    have hall : ∀ C' ∈ Cs, C' ≠ [] ∧ C'.length ≤ branch ^ (h + 1) := by
      intro C' hC'
      obtain ⟨nd', hnd'⟩ := kidsRel_mem hk C' hC'
      exact tree_size branch h nd' C' hnd'
    subst hC
    constructor
    · cases Cs with
      | nil => simp at hlen
      | cons C0 Cs' =>
        have := (hall C0 List.mem_cons_self).1
        rw [List.flatten_cons]
        intro hnil
        exact this (List.append_eq_nil_iff.mp hnil).1
    · have h1 := flatten_length_le (branch ^ (h + 1)) Cs (fun C' hC' => (hall C' hC').2)
      have h2 : Cs.length ≤ branch := by simp at hlen; omega
      have h3 : Cs.length * branch ^ (h + 1) ≤ branch * branch ^ (h + 1) := Nat.mul_le_mul_right _ h2
      have h4 : branch ^ (h + 1 + 1) = branch * branch ^ (h + 1) := by rw [Nat.pow_succ, Nat.mul_comm]
      omega

theorem tree_ne_nil {branch h : Nat} (nd : Node) (C : List Nat) (ht : Tree branch h nd C) : C ≠ [] :=
  (tree_size branch h nd C ht).1

/-! ### the skip factors -/

/-- `skip_factors` of a tree whose root has height `h`: `[branch^h, …, branch]` -/
def skips (branch : Nat) : Nat → List Nat
  | 0 => []
  | h + 1 => branch ^ (h + 1) :: skips branch h

theorem skips_succ (branch h : Nat) : skips branch (h + 1) = branch ^ (h + 1) :: skips branch h := rfl

/-! ### `access_rank` on a subtree -/

theorem accessRankFrom_nil_leaf (branch : Nat) (words : Slice) (x cum : Nat) :
    accessRankFrom branch [] (.leaf words) x cum
      = some ((leafAccessRank branch words x).1, cum + (leafAccessRank branch words x).2) := rfl

theorem accessRankFrom_cons_node (branch skip : Nat) (sk : List Nat) (d : Slice) (p0 : Node)
    (ps : List (Option Node)) (x cum : Nat) :
    accessRankFrom branch (skip :: sk) (.node d p0 ps) x cum
      = match position branch d p0 ps x with
        | none => none
        | some (offset, ptr) => accessRankFrom branch sk ptr x (cum + offset * skip) := rfl

/-- **the descent of `access_rank`** on a built subtree of strictly increasing values `C`: whether
    `x` is one of them, and `cum` plus the number of them below `x` -/
theorem accessRankFrom_spec (branch : Nat) (hb : 4 ≤ branch) (x : Nat) (hx : x ≤ u64Max) :
    ∀ (h : Nat) (nd : Node) (C : List Nat) (cum : Nat), Tree branch h nd C → Sorted C →
      accessRankFrom branch (skips branch h) nd x cum
        = some (decide (x ∈ C), cum + C.countP (fun c => decide (c < x)))
  | 0, nd, C, cum, ht, hs => by
    obtain ⟨h1, h2, h3⟩ := tree_zero.mp ht
    subst h3
    show accessRankFrom branch [] _ x cum = _
    rw [accessRankFrom_nil_leaf, leafAccessRank_spec branch C x h1 h2 hs]
  | h + 1, nd, C, cum, ht, hs => by
    obtain ⟨p0, ps, Cs, hps, hk, hC, hnd⟩ := tree_succ.mp ht
    subst hC hnd
    have hklen := kidsRel_length hk
    have hfull : FullButLast (branch ^ (h + 1)) Cs := kidsRel_fullButLast (fun nd C => tree_ne_nil nd C) hk
    have hCsne : Cs ≠ [] := by
      intro hnil; subst hnil; simp at hklen
    -- the dividers are strictly increasing
    have hDs : Sorted (dividersOf Cs) := dividersOf_sorted Cs hs hfull
    have hDlen : (dividersOf Cs).length = ps.length := by
      rw [dividersOf_length]; simp at hklen; omega
    obtain ⟨j, kid, hpos, hkid, hposition⟩ := position_spec branch hb (dividersOf Cs) p0 ps x hDs hDlen hps hx
    obtain ⟨Cj, hCj, hcount, hmem⟩ := count_flatten (branch ^ (h + 1)) x Cs j hCsne hs hfull hpos
    rw [skips_succ, mkInternal_eq, accessRankFrom_cons_node, hposition]
    simp only
    have htk : Tree branch h kid Cj := kidsRel_getElem? hk hkid hCj
    have hsj : Sorted Cj := sorted_of_getElem?_flatten Cs j Cj hs hCj
    rw [accessRankFrom_spec branch hb x hx h kid Cj _ htk hsj, hcount]
    have : decide (x ∈ Cs.flatten) = decide (x ∈ Cj) := by
      rw [decide_eq_decide]; exact hmem
    rw [this, Nat.add_assoc]

/-! ### `select` on a subtree -/

theorem selectFrom_nil_leaf (words : Slice) (x : Nat) :
    selectFrom [] (.leaf words) x = leafSelect words x := rfl

theorem selectFrom_cons_node (skip : Nat) (sk : List Nat) (d : Slice) (p0 : Node)
    (ps : List (Option Node)) (x : Nat) :
    selectFrom (skip :: sk) (.node d p0 ps) x
      = match pointer p0 ps (subLoop skip x 0 x).1 with
        | none => none
        | some ptr => selectFrom sk ptr (subLoop skip x 0 x).2 := rfl

/-- **the descent of `select`** on a built subtree of strictly increasing values `C`: one past the
    `g`-th value, `None` when there is none -/
theorem selectFrom_spec (branch : Nat) (hb : 4 ≤ branch) :
    ∀ (h : Nat) (nd : Node) (C : List Nat) (g : Nat), Tree branch h nd C → Sorted C →
      selectFrom (skips branch h) nd g = (C[g]?).map (· + 1)
  | 0, nd, C, g, ht, hs => by
    obtain ⟨h1, _, h3⟩ := tree_zero.mp ht
    subst h3
    show selectFrom [] _ g = _
    rw [selectFrom_nil_leaf, leafSelect_spec branch C g h1 hs]
  | h + 1, nd, C, g, ht, hs => by
    obtain ⟨p0, ps, Cs, hps, hk, hC, hnd⟩ := tree_succ.mp ht
    subst hC hnd
    have hfull : FullButLast (branch ^ (h + 1)) Cs := kidsRel_fullButLast (fun nd C => tree_ne_nil nd C) hk
    have hle : ∀ C' ∈ Cs, C'.length ≤ branch ^ (h + 1) := by
      intro C' hC'
      obtain ⟨nd', hnd'⟩ := kidsRel_mem hk C' hC'
      exact (tree_size branch h nd' C' hnd').2
    have hpow : 0 < branch ^ (h + 1) := Nat.pow_pos (by omega)
    obtain ⟨hr, hsum⟩ := subLoop_spec (branch ^ (h + 1)) hpow g 0 g (Nat.le_refl _)
    rw [skips_succ, mkInternal_eq, selectFrom_cons_node, pointer_spec]
    generalize (subLoop (branch ^ (h + 1)) g 0 g).1 = idx at *
    generalize (subLoop (branch ^ (h + 1)) g 0 g).2 = r at *
    have hg : g = idx * branch ^ (h + 1) + r := by omega
    rw [hg, flatten_getElem? (branch ^ (h + 1)) Cs idx r hfull hle hr]
    have hklen := kidsRel_length hk
    cases hkid : (p0 :: ps)[idx]? with
    | none =>
      have : Cs[idx]? = none := by
        rw [List.getElem?_eq_none_iff] at hkid ⊢
        omega
      rw [this]
      rfl
    | some kid =>
      have hil : idx < Cs.length := by
        have := (List.getElem?_eq_some_iff.mp hkid).1
        omega
      rw [List.getElem?_eq_getElem hil]
      simp only [Option.bind_some]
      have htk : Tree branch h kid Cs[idx] := kidsRel_getElem? hk hkid (List.getElem?_eq_getElem hil)
      have hsj : Sorted Cs[idx] := sorted_of_getElem?_flatten Cs idx _ hs (List.getElem?_eq_getElem hil)
      exact selectFrom_spec branch hb h kid Cs[idx] r htk hsj

end Blue.BvSparse
