import Blue.Model.SstFileB
import Blue.Proofs.SstBytes
/-! `BlockCursor` composed into the table cursor.

    `sst_file_roundtrip` is about `Blue.SstOpen.Opened.{run, load, metadata, forward, backward}`,
    whose cursor steps the *reference* cursor inside a data block.  The code steps a `BlockCursor`
    there (restart points, binary search, the reverse step through a restart interval), which
    `Blue.Proofs.BlockCursor` proves equal to the reference cursor *per block*.  This file composes
    the two: `Blue.SstOpen.Opened.{runB, loadB, metadataB, forwardB, backwardB}` (Model/SstFileB.lean)
    step `BlockCursor` over the decoded block — entries **and** restart indices — that
    `Sst::load_block` returns, and

    * `runB_eq_run` … `walksB_eq`: over ANY opened table (damaged or not) whose data blocks, wherever
      they load, have well-formed restart points and sorted entries (`GoodD`), the `BlockCursor`
      machine and the reference machine make the same observations call by call, errors included;
    * `sealed_blocks_good`: every data block of a file the builder model sealed is `GoodD`, **for
      restart intervals ≥ 1** (`ho`; for interval 0 the builder records offset 0 twice,
      `interval_zero_not_wf`, and the real `BlockCursor::next` does not terminate);
    * `sst_file_roundtrip_bcur`: hence the file round trip with `BlockCursor` inside: no call
      fails and programs / `load` / `metadata` / whole walks are the reference over the accepted
      entries.

    Added after the independent audit of the C10 theorem statements (docs/AUDIT_REPORT.md, C10). -/
namespace Blue.SstOpen
open Blue.Wire Blue.Block Blue.Sst Blue.Cursor Blue.BlockCursor

/-! ### the abstraction: a block cursor's position as a position of the reference cursor -/
def absPos (d : DBlock KV) : Pos → Nat
  | .first => 0
  | .last => d.entries.length + 1
  | .at _ i => i + 1

def absB (c : BCur KV) : Ref KV := ⟨c.blk.entries, absPos c.blk c.pos⟩
def absL (c : BLCur) : LCur := ⟨c.metaIdx, c.bc.map absB⟩

/-- a decoded data block a `BlockCursor` is proved right on: restart points well formed, entries sorted -/
structure GoodD (d : DBlock KV) : Prop where
  wf : WfBlock d
  sorted : Sorted d.entries

def GoodB (c : BCur KV) : Prop := GoodD c.blk ∧ BRel c.blk c.pos (absPos c.blk c.pos)
def GoodL (c : BLCur) : Prop := ∀ b, c.bc = some b → GoodB b

theorem brel_abs {b : DBlock KV} {pos : Pos} {p : Nat} (h : BRel b pos p) : p = absPos b pos := by
  cases h <;> rfl

theorem goodB_first {d : DBlock KV} (h : GoodD d) : GoodB ⟨d, .first⟩ := ⟨h, BRel.first⟩
theorem goodB_last {d : DBlock KV} (h : GoodD d) : GoodB ⟨d, .last⟩ := ⟨h, BRel.last⟩
theorem goodL_none (m : Nat) : GoodL ⟨m, none⟩ := by intro b h; cases h
theorem goodL_some {m : Nat} {b : BCur KV} (h : GoodB b) : GoodL ⟨m, some b⟩ := by
  intro b' hb; cases hb; exact h

theorem kv_abs {c : BCur KV} (h : GoodB c) : BlockCursor.kv c = (absB c).kv := by
  cases c with
  | mk b pos => exact brel_kv h.2

theorem ref_eta_next (xs : List KV) (p : Nat) : Ref.next ⟨xs, p⟩ = ⟨xs, (Ref.next ⟨xs, p⟩).pos⟩ := by
  unfold Ref.next; split <;> rfl
theorem ref_eta_prev (xs : List KV) (p : Nat) : Ref.prev ⟨xs, p⟩ = ⟨xs, (Ref.prev ⟨xs, p⟩).pos⟩ := by
  unfold Ref.prev; split <;> rfl

theorem next_abs {c : BCur KV} (h : GoodB c) :
    GoodB (BlockCursor.next c) ∧ absB (BlockCursor.next c) = (absB c).next := by
  cases c with
  | mk b pos =>
    obtain ⟨hb, hrel⟩ := next_rel h.1.wf h.2
    have hp := brel_abs hrel
    simp only at hb
    refine ⟨⟨by rw [hb]; exact h.1, ?_⟩, ?_⟩
    · rw [hb, ← hp]; exact hrel
    · unfold absB
      rw [hb, ← hp]
      exact (ref_eta_next _ _).symm

theorem prev_abs {c : BCur KV} (h : GoodB c) :
    GoodB (BlockCursor.prev c) ∧ absB (BlockCursor.prev c) = (absB c).prev := by
  cases c with
  | mk b pos =>
    obtain ⟨hb, hrel⟩ := prev_rel h.1.wf h.2
    have hp := brel_abs hrel
    simp only at hb
    refine ⟨⟨by rw [hb]; exact h.1, ?_⟩, ?_⟩
    · rw [hb, ← hp]; exact hrel
    · unfold absB
      rw [hb, ← hp]
      exact (ref_eta_prev _ _).symm

theorem seek_abs {c : BCur KV} (h : GoodB c) (k : List Nat) :
    GoodB (BlockCursor.seek (atOrAfter k) c) ∧ absB (BlockCursor.seek (atOrAfter k) c) = (absB c).seek (atOrAfter k) := by
  cases c with
  | mk b pos =>
    obtain ⟨hb, hrel⟩ := seek_rel h.1.wf (atOrAfter k) (sorted_monoAlong h.1.sorted k) pos
    have hp := brel_abs hrel
    simp only at hb
    refine ⟨⟨by rw [hb]; exact h.1, ?_⟩, ?_⟩
    · rw [hb, ← hp]; exact hrel
    · unfold absB
      rw [hb, ← hp]
      rfl

theorem absB_first (d : DBlock KV) : absB ⟨d, .first⟩ = ⟨d.entries, 0⟩ := rfl
theorem absB_last (d : DBlock KV) : absB ⟨d, .last⟩ = (Ref.mk d.entries 0).last := rfl

theorem kvL_abs {c : BLCur} (h : GoodL c) : c.kv = (absL c).kv := by
  cases c with
  | mk m bc =>
    cases bc with
    | none => rfl
    | some b => exact kv_abs (h b rfl)

/-! ### results of the two machines -/
/-- same outcome: the same error, or states related by the abstraction (and the invariant kept) -/
def RelR : Except Err BLCur → Except Err LCur → Prop
  | .ok c, .ok g => g = absL c ∧ GoodL c
  | .error e, .error e' => e = e'
  | _, _ => False

theorem relR_ok {c : BLCur} (h : GoodL c) : RelR (.ok c) (.ok (absL c)) := ⟨rfl, h⟩

/-! ### one step of the recursions -/
section eqns
variable (n : Nat) (ld : Nat → Except Err (DBlock KV))

theorem nextB_succ (f : Nat) (c : BLCur) :
    nextB n ld (f + 1) c =
      match c.bc with
      | none =>
        if c.metaIdx ≥ n then .ok ⟨n, none⟩
        else
          match ld c.metaIdx with
          | .error e => .error e
          | .ok d =>
            let b := BlockCursor.next ⟨d, .first⟩
            if (BlockCursor.kv b).isSome then .ok ⟨c.metaIdx, some b⟩ else nextB n ld f ⟨c.metaIdx + 1, none⟩
      | some b =>
        let b' := BlockCursor.next b
        if (BlockCursor.kv b').isSome then .ok ⟨c.metaIdx, some b'⟩ else nextB n ld f ⟨c.metaIdx + 1, none⟩ := rfl

theorem prevB_succ (f : Nat) (c : BLCur) :
    prevB ld (f + 1) c =
      match c.bc with
      | none =>
        if c.metaIdx = 0 then .ok ⟨0, none⟩
        else
          match ld (c.metaIdx - 1) with
          | .error e => .error e
          | .ok d =>
            let b := BlockCursor.prev ⟨d, .last⟩
            if (BlockCursor.kv b).isSome then .ok ⟨c.metaIdx - 1, some b⟩ else prevB ld f ⟨c.metaIdx - 1, none⟩
      | some b =>
        let b' := BlockCursor.prev b
        if (BlockCursor.kv b').isSome then .ok ⟨c.metaIdx, some b'⟩ else prevB ld f ⟨c.metaIdx, none⟩ := rfl

theorem scanB_succ (k : List Nat) (ts : Nat) (f : Nat) (c : BLCur) :
    scanB n ld k ts (f + 1) c =
      match c.kv with
      | some e =>
        if keyRefLt e.key e.ts k ts then
          match nextB n ld (n + 2) c with
          | .error x => .error x
          | .ok c' => scanB n ld k ts f c'
        else .ok c
      | none => .ok c := rfl

theorem walkFwdB_succ (f : Nat) (c : BLCur) (acc : List KV) :
    walkFwdB n ld (f + 1) c acc =
      match nextB n ld (n + 2) c with
      | .error e => (acc.reverse, some e)
      | .ok c' =>
        match c'.kv with
        | none => (acc.reverse, none)
        | some e => walkFwdB n ld f c' (e :: acc) := rfl

theorem walkBwdB_succ (f : Nat) (c : BLCur) (acc : List KV) :
    walkBwdB n ld (f + 1) c acc =
      match prevB ld (n + 2) c with
      | .error e => (acc.reverse, some e)
      | .ok c' =>
        match c'.kv with
        | none => (acc.reverse, none)
        | some e => walkBwdB n ld f c' (e :: acc) := rfl

end eqns

/-! ### the simulation, for any loader -/
section eqns2
variable (n : Nat) (ldB : Nat → Except Err (DBlock KV)) (ld : Nat → Except Err (List KV))

theorem nextB_none (f m : Nat) :
    nextB n ldB (f + 1) ⟨m, none⟩ =
      if m ≥ n then .ok ⟨n, none⟩
      else
        match ldB m with
        | .error e => .error e
        | .ok d =>
          if (BlockCursor.kv (BlockCursor.next ⟨d, .first⟩)).isSome then .ok ⟨m, some (BlockCursor.next ⟨d, .first⟩)⟩
          else nextB n ldB f ⟨m + 1, none⟩ := rfl

theorem nextB_some (f m : Nat) (b : BCur KV) :
    nextB n ldB (f + 1) ⟨m, some b⟩ =
      if (BlockCursor.kv (BlockCursor.next b)).isSome then .ok ⟨m, some (BlockCursor.next b)⟩
      else nextB n ldB f ⟨m + 1, none⟩ := rfl

theorem nextG_none (f m : Nat) :
    nextG n ld (f + 1) ⟨m, none⟩ =
      if m ≥ n then .ok ⟨n, none⟩
      else
        match ld m with
        | .error e => .error e
        | .ok es =>
          if (Ref.next ⟨es, 0⟩).kv.isSome then .ok ⟨m, some (Ref.next ⟨es, 0⟩)⟩
          else nextG n ld f ⟨m + 1, none⟩ := rfl

theorem nextG_some (f m : Nat) (b : Ref KV) :
    nextG n ld (f + 1) ⟨m, some b⟩ =
      if b.next.kv.isSome then .ok ⟨m, some b.next⟩ else nextG n ld f ⟨m + 1, none⟩ := rfl

theorem prevB_none (f m : Nat) :
    prevB ldB (f + 1) ⟨m, none⟩ =
      if m = 0 then .ok ⟨0, none⟩
      else
        match ldB (m - 1) with
        | .error e => .error e
        | .ok d =>
          if (BlockCursor.kv (BlockCursor.prev ⟨d, .last⟩)).isSome then .ok ⟨m - 1, some (BlockCursor.prev ⟨d, .last⟩)⟩
          else prevB ldB f ⟨m - 1, none⟩ := rfl

theorem prevB_some (f m : Nat) (b : BCur KV) :
    prevB ldB (f + 1) ⟨m, some b⟩ =
      if (BlockCursor.kv (BlockCursor.prev b)).isSome then .ok ⟨m, some (BlockCursor.prev b)⟩
      else prevB ldB f ⟨m, none⟩ := rfl

theorem prevG_none (f m : Nat) :
    prevG ld (f + 1) ⟨m, none⟩ =
      if m = 0 then .ok ⟨0, none⟩
      else
        match ld (m - 1) with
        | .error e => .error e
        | .ok es =>
          if (Ref.mk es 0).last.prev.kv.isSome then .ok ⟨m - 1, some (Ref.mk es 0).last.prev⟩
          else prevG ld f ⟨m - 1, none⟩ := rfl

theorem prevG_some (f m : Nat) (b : Ref KV) :
    prevG ld (f + 1) ⟨m, some b⟩ =
      if b.prev.kv.isSome then .ok ⟨m, some b.prev⟩ else prevG ld f ⟨m, none⟩ := rfl

end eqns2

theorem absL_none (m : Nat) : absL ⟨m, none⟩ = ⟨m, none⟩ := rfl
theorem absL_some (m : Nat) (b : BCur KV) : absL ⟨m, some b⟩ = ⟨m, some (absB b)⟩ := rfl

theorem relR_err (e : Err) : RelR (.error e) (.error e) := rfl

theorem relR_cases {x : Except Err BLCur} {y : Except Err LCur} (h : RelR x y) :
    (∃ e, x = .error e ∧ y = .error e) ∨ (∃ c, x = .ok c ∧ y = .ok (absL c) ∧ GoodL c) := by
  cases x with
  | error e =>
    cases y with
    | error e' => left; exact ⟨e, rfl, by rw [show e = e' from h]⟩
    | ok g => exact h.elim
  | ok c =>
    cases y with
    | error e' => exact h.elim
    | ok g => right; exact ⟨c, rfl, by rw [h.1], h.2⟩

section sim
variable (n : Nat) (ldB : Nat → Except Err (DBlock KV)) (ld : Nat → Except Err (List KV))
  (hld : ∀ i, ld i = (match ldB i with | .ok d => .ok d.entries | .error e => .error e))
  (hgood : ∀ i d, ldB i = .ok d → GoodD d)
include hld hgood

theorem nextB_sim : ∀ (f m : Nat) (bc : Option (BCur KV)), GoodL ⟨m, bc⟩ →
    RelR (nextB n ldB f ⟨m, bc⟩) (nextG n ld f (absL ⟨m, bc⟩))
  | 0, m, bc, hg => relR_ok hg
  | f + 1, m, bc, hg => by
    cases bc with
    | none =>
      rw [absL_none, nextB_none, nextG_none]
      by_cases hge : m ≥ n
      · rw [if_pos hge, if_pos hge]
        exact relR_ok (goodL_none n)
      · rw [if_neg hge, if_neg hge, hld m]
        cases hd : ldB m with
        | error e => exact relR_err e
        | ok d =>
          have hgd := hgood m d hd
          obtain ⟨hg', ha⟩ := next_abs (goodB_first hgd)
          rw [absB_first] at ha
          simp only
          rw [kv_abs hg', ha]
          by_cases hk : (Ref.next ⟨d.entries, 0⟩).kv.isSome = true
          · rw [if_pos hk, if_pos hk]
            refine ⟨?_, goodL_some hg'⟩
            rw [absL_some, ha]
          · rw [if_neg hk, if_neg hk]
            exact nextB_sim f (m + 1) none (goodL_none _)
    | some b =>
      rw [absL_some, nextB_some, nextG_some]
      obtain ⟨hg', ha⟩ := next_abs (hg b rfl)
      rw [kv_abs hg', ha]
      by_cases hk : (absB b).next.kv.isSome = true
      · rw [if_pos hk, if_pos hk]
        refine ⟨?_, goodL_some hg'⟩
        rw [absL_some, ha]
      · rw [if_neg hk, if_neg hk]
        exact nextB_sim f (m + 1) none (goodL_none _)

theorem prevB_sim : ∀ (f m : Nat) (bc : Option (BCur KV)), GoodL ⟨m, bc⟩ →
    RelR (prevB ldB f ⟨m, bc⟩) (prevG ld f (absL ⟨m, bc⟩))
  | 0, m, bc, hg => relR_ok hg
  | f + 1, m, bc, hg => by
    cases bc with
    | none =>
      rw [absL_none, prevB_none, prevG_none]
      by_cases hz : m = 0
      · rw [if_pos hz, if_pos hz]
        exact relR_ok (goodL_none 0)
      · rw [if_neg hz, if_neg hz, hld (m - 1)]
        cases hd : ldB (m - 1) with
        | error e => exact relR_err e
        | ok d =>
          have hgd := hgood (m - 1) d hd
          obtain ⟨hg', ha⟩ := prev_abs (goodB_last hgd)
          rw [absB_last] at ha
          simp only
          rw [kv_abs hg', ha]
          by_cases hk : (Ref.mk d.entries 0).last.prev.kv.isSome = true
          · rw [if_pos hk, if_pos hk]
            refine ⟨?_, goodL_some hg'⟩
            rw [absL_some, ha]
          · rw [if_neg hk, if_neg hk]
            exact prevB_sim f (m - 1) none (goodL_none _)
    | some b =>
      rw [absL_some, prevB_some, prevG_some]
      obtain ⟨hg', ha⟩ := prev_abs (hg b rfl)
      rw [kv_abs hg', ha]
      by_cases hk : (absB b).prev.kv.isSome = true
      · rw [if_pos hk, if_pos hk]
        refine ⟨?_, goodL_some hg'⟩
        rw [absL_some, ha]
      · rw [if_neg hk, if_neg hk]
        exact prevB_sim f m none (goodL_none _)

theorem seekB_sim (idx : Nat) (k : List Nat) : RelR (seekB n ldB idx k) (seekG n ld idx k) := by
  unfold seekB seekG
  by_cases hge : idx ≥ n
  · rw [if_pos hge, if_pos hge]
    exact relR_ok (goodL_none n)
  · rw [if_neg hge, if_neg hge, hld idx]
    cases hd : ldB idx with
    | error e => exact relR_err e
    | ok d =>
      obtain ⟨hg', ha⟩ := seek_abs (goodB_first (hgood idx d hd)) k
      rw [absB_first] at ha
      simp only
      rw [kv_abs hg', ha]
      by_cases hk : (Ref.seek (atOrAfter k) ⟨d.entries, 0⟩).kv.isSome = true
      · rw [if_pos hk, if_pos hk]
        refine ⟨?_, goodL_some hg'⟩
        rw [absL_some, ha]
      · rw [if_neg hk, if_neg hk]
        by_cases hge' : idx + 1 ≥ n
        · rw [if_pos hge', if_pos hge']
          exact relR_ok (goodL_none n)
        · rw [if_neg hge', if_neg hge', hld (idx + 1)]
          cases hd' : ldB (idx + 1) with
          | error e => exact relR_err e
          | ok d' =>
            obtain ⟨hg2, ha2⟩ := seek_abs (goodB_first (hgood (idx + 1) d' hd')) k
            rw [absB_first] at ha2
            refine ⟨?_, goodL_some hg2⟩
            rw [absL_some, ha2]

/-- the scan of `load` -/
theorem scanB_sim (k : List Nat) (ts : Nat) : ∀ (f : Nat) (c : BLCur), GoodL c →
    RelR (scanB n ldB k ts f c) (scanG n ld k ts f (absL c))
  | 0, c, hg => relR_ok hg
  | f + 1, c, hg => by
    rw [scanB_succ, scanG_succ, ← kvL_abs hg]
    cases hkv : c.kv with
    | none => exact relR_ok hg
    | some e =>
      simp only
      by_cases hlt : keyRefLt e.key e.ts k ts = true
      · simp only [if_pos hlt]
        have h := nextB_sim n ldB ld hld hgood (n + 2) c.metaIdx c.bc hg
        cases h1 : nextB n ldB (n + 2) c with
        | error x =>
          have hc : c = ⟨c.metaIdx, c.bc⟩ := rfl
          rw [← hc, h1] at h
          cases h2 : nextG n ld (n + 2) (absL c) with
          | error y => rw [h2] at h; exact h
          | ok g => rw [h2] at h; exact h.elim
        | ok c' =>
          have hc : c = ⟨c.metaIdx, c.bc⟩ := rfl
          rw [← hc, h1] at h
          cases h2 : nextG n ld (n + 2) (absL c) with
          | error y => rw [h2] at h; exact h.elim
          | ok g =>
            rw [h2] at h
            obtain ⟨rfl, hg'⟩ := h
            exact scanB_sim k ts f c' hg'
      · simp only [if_neg hlt]
        exact relR_ok hg

theorem nextB_sim' (f : Nat) (c : BLCur) (hg : GoodL c) :
    RelR (nextB n ldB f c) (nextG n ld f (absL c)) := nextB_sim n ldB ld hld hgood f c.metaIdx c.bc hg

theorem prevB_sim' (f : Nat) (c : BLCur) (hg : GoodL c) :
    RelR (prevB ldB f c) (prevG ld f (absL c)) := prevB_sim ldB ld hld hgood f c.metaIdx c.bc hg

theorem walkFwdB_sim : ∀ (F : Nat) (c : BLCur) (acc : List KV), GoodL c →
    walkFwdB n ldB F c acc = walkFwdG n ld F (absL c) acc
  | 0, _, _, _ => rfl
  | F + 1, c, acc, hg => by
    rw [walkFwdB_succ, walkFwdG_succ]
    rcases relR_cases (nextB_sim' n ldB ld hld hgood (n + 2) c hg) with ⟨e, h1, h2⟩ | ⟨c', h1, h2, hg'⟩
    · rw [h1, h2]
    · rw [h1, h2]
      simp only
      rw [← kvL_abs hg']
      cases c'.kv with
      | none => rfl
      | some e => exact walkFwdB_sim F c' (e :: acc) hg'

theorem walkBwdB_sim : ∀ (F : Nat) (c : BLCur) (acc : List KV), GoodL c →
    walkBwdB n ldB F c acc = walkBwdG n ld F (absL c) acc
  | 0, _, _, _ => rfl
  | F + 1, c, acc, hg => by
    rw [walkBwdB_succ, walkBwdG_succ]
    rcases relR_cases (prevB_sim' ldB ld hld hgood (n + 2) c hg) with ⟨e, h1, h2⟩ | ⟨c', h1, h2, hg'⟩
    · rw [h1, h2]
    · rw [h1, h2]
      simp only
      rw [← kvL_abs hg']
      cases c'.kv with
      | none => rfl
      | some e => exact walkBwdB_sim F c' (e :: acc) hg'

theorem loadB_sim (fuel idx : Nat) (k : List Nat) (ts : Nat) :
    loadB n ldB fuel idx k ts = loadG n ld fuel idx k ts := by
  unfold loadB loadG
  rcases relR_cases (seekB_sim n ldB ld hld hgood idx k) with ⟨e, h1, h2⟩ | ⟨c, h1, h2, hg⟩
  · rw [h1, h2]
  · rw [h1, h2]
    simp only
    rcases relR_cases (scanB_sim n ldB ld hld hgood k ts fuel c hg) with ⟨e, h3, h4⟩ | ⟨c', h3, h4, hg'⟩
    · rw [h3, h4]
    · rw [h3, h4]
      simp only
      rw [kvL_abs hg']

theorem endsB_sim : endsB n ldB = endsG n ld := by
  unfold endsB endsG
  rcases relR_cases (nextB_sim' n ldB ld hld hgood (n + 2) ⟨0, none⟩ (goodL_none 0)) with ⟨e, h1, h2⟩ | ⟨c, h1, h2, hg⟩
  · rw [absL_none] at h2; rw [h1, h2]
  · rw [absL_none] at h2; rw [h1, h2]
    simp only
    rcases relR_cases (prevB_sim' ldB ld hld hgood (n + 2) ⟨n, none⟩ (goodL_none n)) with ⟨e, h3, h4⟩ | ⟨c', h3, h4, hg'⟩
    · rw [absL_none] at h4; rw [h3, h4]
    · rw [absL_none] at h4; rw [h3, h4]
      simp only
      rw [kvL_abs hg, kvL_abs hg']

end sim

/-! ### an opened table -/
section table
variable (crc : List Nat → Nat)

theorem decodePlain_eq (body : List Nat) :
    decodePlain body = (match decodePlainD body with | .ok d => .ok d.entries | .error e => .error e) := by
  unfold decodePlain decodePlainD
  cases Blk.new body with
  | tooSmall => rfl
  | underflow => rfl
  | ok b =>
    simp only
    cases b.toDBlock <;> rfl

theorem loadBlock_eq (file : List Nat) (m : BlockMeta) :
    loadBlock crc file m = (match loadBlockD crc file m with | .ok d => .ok d.entries | .error e => .error e) := by
  unfold loadBlock loadBlockD
  cases readFrame crc file m with
  | error e => rfl
  | ok r =>
    obtain ⟨i, body⟩ := r
    simp only
    by_cases h0 : i = 0
    · rw [if_pos h0, if_pos h0]; exact decodePlain_eq body
    · rw [if_neg h0, if_neg h0]
      by_cases h1 : i = 1
      · rw [if_pos h1, if_pos h1]
      · rw [if_neg h1, if_neg h1]

/-- `loadIdx` is `loadIdxD` with the restart points forgotten -/
theorem loadIdx_eq (t : Opened) (i : Nat) :
    t.loadIdx crc i = (match t.loadIdxD crc i with | .ok d => .ok d.entries | .error e => .error e) := by
  unfold Opened.loadIdx Opened.loadIdxD
  cases t.entries[i]? with
  | none => rfl
  | some km => exact loadBlock_eq crc t.file km.2

variable (t : Opened) (hgood : ∀ i d, t.loadIdxD crc i = .ok d → GoodD d)
include hgood

theorem stepB_sim (c : BLCur) (hg : GoodL c) (op : KOp) : RelR (t.stepB crc c op) (t.step crc (absL c) op) := by
  cases op with
  | first => exact relR_ok (goodL_none 0)
  | last => exact relR_ok (goodL_none _)
  | next => exact nextB_sim' _ _ _ (loadIdx_eq crc t) hgood _ c hg
  | prev => exact prevB_sim' _ _ (loadIdx_eq crc t) hgood _ c hg
  | seek k => exact seekB_sim _ _ _ (loadIdx_eq crc t) hgood _ k

/-- **programs**: with `BlockCursor` inside the data blocks, every observation — entries shown and
    the first error, if any — is the one of the machine that steps the reference cursor there -/
theorem runB_eq_run : ∀ (ops : List KOp) (c : BLCur), GoodL c → t.runB crc c ops = t.run crc (absL c) ops
  | [], _, _ => rfl
  | op :: ops, c, hg => by
    simp only [Opened.runB, Opened.run]
    rcases relR_cases (stepB_sim crc t hgood c hg op) with ⟨e, h1, h2⟩ | ⟨c', h1, h2, hg'⟩
    · rw [h1, h2]
    · rw [h1, h2]
      simp only
      rw [kvL_abs hg', runB_eq_run ops c' hg']

theorem loadB_eq_load (k : List Nat) (ts : Nat) : t.loadB crc k ts = t.load crc k ts :=
  loadB_sim _ _ _ (loadIdx_eq crc t) hgood _ _ k ts

theorem metadataB_eq_metadata : t.metadataB crc = t.metadata crc := by
  unfold Opened.metadataB Opened.metadata
  rw [endsB_sim _ _ _ (loadIdx_eq crc t) hgood]
  cases endsG t.entries.length (t.loadIdx crc) <;> rfl

theorem walksB_eq : t.forwardB crc = t.forward crc ∧ t.backwardB crc = t.backward crc :=
  ⟨walkFwdB_sim _ _ _ (loadIdx_eq crc t) hgood _ _ [] (goodL_none 0),
   walkBwdB_sim _ _ _ (loadIdx_eq crc t) hgood _ _ [] (goodL_none _)⟩

end table

/-! ### the data blocks of a sealed image -/
section image
variable (crc : List Nat → Nat) (blocks : List (List Nat)) (index filter : List Nat) (fin : Final) (D : List KV)
  (hfi : fin.index = ⟨(blocks.flatMap (frame SE_PLAIN)).length,
      (blocks.flatMap (frame SE_PLAIN)).length + (frame SE_PLAIN index).length, crc32c index⟩)
  (hff : fin.filter = ⟨fin.index.limit, fin.index.limit + (frame SE_FILTER filter).length, crc32c filter⟩)
  (hfo : fin.offset = fin.filter.limit)
  (hsetsum : fin.setsum.length = 32) (hsm : fin.smallest < U64) (hbg : fin.biggest < U64)
  (hsize : (imageOf blocks index filter fin).length < U64)
  (hcrc : ∀ b, b ∈ index :: filter :: blocks → crc b = crc32c b ∧ crc32c b < 4294967296)
include hfi hff hfo hsetsum hsm hbg hsize hcrc

/-- `Sst::load_block` through an index entry of the opened image, keeping the restart points: the
    block it returns is the decode of the payload the builder wrote at that place -/
theorem loadIdxD_image (i : Nat) (d : DBlock KV)
    (h : Opened.loadIdxD crc ⟨imageOf blocks index filter fin, ⟨fin.index, fin.filter, fin.setsum, fin.smallest, fin.biggest⟩,
        List.zipWith (fun d m => (d.key, m)) D (metasOf 0 blocks), (imageOf blocks index filter fin).length⟩ i = .ok d) :
    ∃ b, blocks[i]? = some b ∧ decodePlainD b = .ok d := by
  obtain ⟨_, _, hsb⟩ := image_payloads_short crc blocks index filter fin hfi hff hfo hsetsum hsm hbg hsize hcrc
  unfold Opened.loadIdxD at h
  simp only at h
  cases hz : (List.zipWith (fun (d : KV) (m : BlockMeta) => (d.key, m)) D (metasOf 0 blocks))[i]? with
  | none => rw [hz] at h; cases h
  | some km =>
    rw [hz] at h
    simp only at h
    rw [List.getElem?_zipWith] at hz
    cases hd : D[i]? with
    | none => rw [hd] at hz; cases hz
    | some dv =>
      cases hm : (metasOf 0 blocks)[i]? with
      | none => rw [hd, hm] at hz; cases hz
      | some mv =>
        rw [hd, hm] at hz
        simp only [Option.some.injEq] at hz
        subst hz
        have hi : i < blocks.length := by
          have := (List.getElem?_eq_some_iff.mp hm).1
          rw [metasOf_length] at this; exact this
        have hb : blocks[i]? = some blocks[i] := List.getElem?_eq_getElem hi
        have hfr := frameAt_metasOf blocks [] (frame SE_PLAIN index ++ frame SE_FILTER filter ++ encFinal fin) i _ _
          hm hb (hsb _ (List.mem_of_getElem? hb))
        have e : [] ++ blocks.flatMap (frame SE_PLAIN) ++ (frame SE_PLAIN index ++ frame SE_FILTER filter ++ encFinal fin)
            = imageOf blocks index filter fin := by simp only [imageOf, List.nil_append, List.append_assoc]
        rw [e] at hfr
        have hc : crc blocks[i] = mv.crc := by
          rw [hfr.2]
          exact (hcrc _ (List.mem_cons_of_mem _ (List.mem_cons_of_mem _ (List.mem_of_getElem? hb)))).1
        refine ⟨blocks[i], hb, ?_⟩
        unfold loadBlockD readFrame at h
        rw [hfr.1] at h
        simp only [hc, ne_eq, not_true_eq_false, if_false, if_true] at h
        exact h

end image

/-- a sealed block read back with its restart points -/
theorem decodePlainD_seal (o : Opts) (es : List KV) (hwf : ∀ e ∈ es, e.Wf) (hfit : Fits (build o es)) :
    decodePlainD (build o es).seal = .ok ⟨es, (buildG o es).ridx⟩ := by
  obtain ⟨blk, h1, h2⟩ := toDBlock_seal o es hwf hfit
  unfold decodePlainD
  rw [h1]
  simp only [h2]

theorem sorted_of_mem_flatten {L : List (List KV)} (hs : Sorted L.flatten) {es : List KV} (h : es ∈ L) : Sorted es :=
  List.Pairwise.sublist (List.sublist_flatten_of_mem h) hs

/-- **every data block of a sealed file is one `BlockCursor` is proved right on** — for restart
    intervals ≥ 1 (`ho`).  Hypotheses as in `sst_file_roundtrip`. -/
theorem sealed_blocks_good (crc : List Nat → Nat) (o : SstOpts)
    (ho : 1 ≤ o.blk.bytesRestartInterval ∧ 1 ≤ o.blk.pairsRestartInterval)
    (atts : List KV) (filter setsum : List Nat)
    (f : SstFile) (s1 : SB)
    (hs1 : sealedState o (SB.putAll o SB.init atts).2 = .ok s1)
    (hseal : (SB.putAll o SB.init atts).2.seal o filter setsum = .ok f)
    (hts : ∀ e ∈ atts, e.ts ≤ U64MAX)
    (hwfE : ∀ e ∈ (SB.putAll o SB.init atts).2.accepted, e.Wf) (hwfD : ∀ d ∈ s1.divE, d.Wf)
    (hfitE : ∀ es ∈ s1.cutE, Fits (build o.blk es)) (hfitD : Fits (build o.blk s1.divE))
    (hsetsum : setsum.length = 32)
    (hfilter : filter.length = filterLen (SB.putAll o SB.init atts).2.count o.bloomBits)
    (hsize : f.bytes.length < U64)
    (hcrc : ∀ b, b ∈ f.index :: f.filter :: f.blocks → crc b = crc32c b ∧ crc32c b < 4294967296) :
    ∃ t, openSst crc f.bytes = .ok t ∧ ∀ i d, t.loadIdxD crc i = .ok d → GoodD d := by
  have hi := sinv_putAll o atts SB.init (sinv_init o)
  have hfi := finv_putAll o atts SB.init finv_init
  have hmi := minv_putAll o atts SB.init hts minv_init
  generalize (SB.putAll o SB.init atts).2 = s at *
  obtain ⟨c1, c2, c3, c4, c5⟩ := sealed_cut hi hs1
  have hf1 := sealed_finv hfi hs1
  obtain ⟨hm1, hacc1⟩ := sealed_minv hmi hs1
  obtain ⟨s1', hs1', fb, fi, ff, ffin⟩ := seal_eq hseal
  rw [hs1] at hs1'
  cases hs1'
  have hsorted : Sorted s1.cutE.flatten := by rw [c1]; exact hi.sorted
  have hsep : Separates s1.cutE s1.divE := separates_congr (dividersOf_separates s1.cutE c2 hsorted) c3
  have hbytes : f.bytes = imageOf f.blocks f.index f.filter f.fin := rfl
  have hA : s1.bytesWritten = (f.blocks.flatMap (frame SE_PLAIN)).length := by rw [fb]; exact hf1.written
  have hfin_i : f.fin.index = ⟨(f.blocks.flatMap (frame SE_PLAIN)).length,
      (f.blocks.flatMap (frame SE_PLAIN)).length + (frame SE_PLAIN f.index).length, crc32c f.index⟩ := by
    rw [ffin, fi, ← hA]; rfl
  have hfin_f : f.fin.filter = ⟨f.fin.index.limit, f.fin.index.limit + (frame SE_FILTER f.filter).length, crc32c f.filter⟩ := by
    rw [ffin, ff]; rfl
  have hfin_o : f.fin.offset = f.fin.filter.limit := by rw [ffin]; rfl
  have hss : f.fin.setsum.length = 32 := by rw [ffin]; exact hsetsum
  have hsmbg : f.fin.smallest < U64 ∧ f.fin.biggest < U64 := by
    rw [ffin]
    simp only [finOf]
    by_cases hc : s1.smallest > s1.biggest
    · simp only [if_pos hc]; unfold U64; omega
    · simp only [if_neg hc]
      by_cases hne : s1.accepted = []
      · obtain ⟨h1, h2⟩ := hm1.none_ hne
        rw [h1, h2] at hc; unfold U64MAX at hc; omega
      · obtain ⟨⟨a, ha1, ha2⟩, ⟨b, hb1, hb2⟩⟩ := hm1.attained hne
        rw [hacc1] at ha1 hb1
        have := (hwfE a ha1).1
        have := (hwfE b hb1).1
        omega
  have hwfcut : ∀ es ∈ s1.cutE, ∀ e ∈ es, e.Wf := by
    intro es hes e he
    apply hwfE e
    rw [← c1]
    exact List.mem_flatten.mpr ⟨es, hes, he⟩
  have hidx : decodePlain f.index = .ok s1.divE := by
    rw [fi, c5]; exact decodePlain_seal o.blk s1.divE hwfD hfitD
  have hD : s1.divE.map (·.val) = (metasOf 0 f.blocks).map (fun m => some (encBlockMeta m)) := by
    rw [fb]; exact hf1.vals
  have hfl : f.filter.length ≠ 0 ∧ f.filter.length % 32 = 0 := by
    rw [ff, hfilter]
    unfold filterLen
    simp only
    constructor
    · exact Nat.ne_of_gt (Nat.mul_pos (Nat.succ_pos _) (by omega))
    · exact Nat.mul_mod_left _ _
  have hsize' : (imageOf f.blocks f.index f.filter f.fin).length < U64 := hsize
  have hopen := open_image crc f.blocks f.index f.filter f.fin s1.divE hfin_i hfin_f hfin_o hss hsmbg.1 hsmbg.2
    hsize' hcrc hidx hD hfl
  rw [hbytes]
  refine ⟨_, hopen, ?_⟩
  intro i d hd
  obtain ⟨b, hb, hdec⟩ := loadIdxD_image crc f.blocks f.index f.filter f.fin s1.divE hfin_i hfin_f hfin_o hss
    hsmbg.1 hsmbg.2 hsize' hcrc i d hd
  rw [fb, c4, List.getElem?_map] at hb
  cases hes : s1.cutE[i]? with
  | none => rw [hes] at hb; cases hb
  | some es =>
    rw [hes] at hb
    simp only [Option.map_some, Option.some.injEq] at hb
    subst hb
    have hmem := List.mem_of_getElem? hes
    rw [decodePlainD_seal o.blk es (hwfcut es hmem) (hfitE es hmem)] at hdec
    cases hdec
    exact ⟨build_wf o.blk ho es (c2 es hmem), sorted_of_mem_flatten hsorted hmem⟩

/-- **the file round trip with `BlockCursor` inside the data blocks** (restart intervals ≥ 1).

    The sealed file's bytes, opened by the model of `Sst::new`, with every data block fetched through
    `Sst::load_block` *as a decoded block with its restart points* and walked by the model of
    `BlockCursor` (restart binary search, linear scan, reverse step through a restart interval):
    no call fails, and cursor programs, `load`, `metadata` and the whole walks are the reference over
    the accepted entries.  The bridge conjunct says the machine of `sst_file_roundtrip` (reference
    cursor inside a block — the one the driver runs) shows the same, call by call. -/
theorem sst_file_roundtrip_bcur (crc : List Nat → Nat) (o : SstOpts)
    (ho : 1 ≤ o.blk.bytesRestartInterval ∧ 1 ≤ o.blk.pairsRestartInterval)
    (atts : List KV) (filter setsum : List Nat)
    (f : SstFile) (s1 : SB)
    (hs1 : sealedState o (SB.putAll o SB.init atts).2 = .ok s1)
    (hseal : (SB.putAll o SB.init atts).2.seal o filter setsum = .ok f)
    (hts : ∀ e ∈ atts, e.ts ≤ U64MAX)
    (hwfE : ∀ e ∈ (SB.putAll o SB.init atts).2.accepted, e.Wf) (hwfD : ∀ d ∈ s1.divE, d.Wf)
    (hfitE : ∀ es ∈ s1.cutE, Fits (build o.blk es)) (hfitD : Fits (build o.blk s1.divE))
    (hsetsum : setsum.length = 32)
    (hfilter : filter.length = filterLen (SB.putAll o SB.init atts).2.count o.bloomBits)
    (hsize : f.bytes.length < U64)
    (hcrc : ∀ b, b ∈ f.index :: f.filter :: f.blocks → crc b = crc32c b ∧ crc32c b < 4294967296) :
    ∃ t, openSst crc f.bytes = .ok t
      ∧ (∀ ops : List KOp, t.runB crc t.toFirstB ops
          = (Ref.run ⟨(SB.putAll o SB.init atts).2.accepted, 0⟩ (ops.map KOp.toOp)).map .ok)
      ∧ (∀ (k : List Nat) (ts : Nat), t.loadB crc k ts = .ok (loadSpec (SB.putAll o SB.init atts).2.accepted k ts))
      ∧ t.metadataB crc = .ok
          ⟨setsum,
           (match (SB.putAll o SB.init atts).2.accepted.head? with | some e => e.key | none => []),
           (match (SB.putAll o SB.init atts).2.accepted.getLast? with | some e => e.key | none => MAX_KEY),
           f.fin.smallest, f.fin.biggest, f.bytes.length⟩
      ∧ t.forwardB crc = ((SB.putAll o SB.init atts).2.accepted, none)
      ∧ t.backwardB crc = ((SB.putAll o SB.init atts).2.accepted.reverse, none)
      ∧ (∀ ops : List KOp, t.runB crc t.toFirstB ops = t.run crc t.toFirst ops) := by
  obtain ⟨t, hopen, hgood⟩ := sealed_blocks_good crc o ho atts filter setsum f s1 hs1 hseal hts hwfE hwfD hfitE hfitD
    hsetsum hfilter hsize hcrc
  obtain ⟨t', hopen', h1, h2, h3, h4, h5⟩ := sst_file_roundtrip crc o atts filter setsum f s1 hs1 hseal hts hwfE hwfD
    hfitE hfitD hsetsum hfilter hsize hcrc
  rw [hopen] at hopen'
  cases hopen'
  have hrun : ∀ ops : List KOp, t.runB crc t.toFirstB ops = t.run crc t.toFirst ops :=
    fun ops => runB_eq_run crc t hgood ops ⟨0, none⟩ (goodL_none 0)
  refine ⟨t, hopen, ?_, ?_, ?_, ?_, ?_, hrun⟩
  · intro ops; rw [hrun ops]; exact h1 ops
  · intro k ts; rw [loadB_eq_load crc t hgood]; exact h2 k ts
  · rw [metadataB_eq_metadata crc t hgood]; exact h3
  · rw [(walksB_eq crc t hgood).1]; exact h4
  · rw [(walksB_eq crc t hgood).2]; exact h5

/-- the same with the model's own CRC32C on both sides (keys, values and filter are byte strings) -/
theorem sst_file_roundtrip_bcur_crc32c (o : SstOpts)
    (ho : 1 ≤ o.blk.bytesRestartInterval ∧ 1 ≤ o.blk.pairsRestartInterval)
    (atts : List KV) (filter setsum : List Nat)
    (f : SstFile) (s1 : SB)
    (hs1 : sealedState o (SB.putAll o SB.init atts).2 = .ok s1)
    (hseal : (SB.putAll o SB.init atts).2.seal o filter setsum = .ok f)
    (hts : ∀ e ∈ atts, e.ts ≤ U64MAX)
    (hwfE : ∀ e ∈ (SB.putAll o SB.init atts).2.accepted, e.Wf) (hwfD : ∀ d ∈ s1.divE, d.Wf)
    (hfitE : ∀ es ∈ s1.cutE, Fits (build o.blk es)) (hfitD : Fits (build o.blk s1.divE))
    (hsetsum : setsum.length = 32)
    (hfilter : filter.length = filterLen (SB.putAll o SB.init atts).2.count o.bloomBits)
    (hsize : f.bytes.length < U64)
    (hbE : ∀ e ∈ atts, KVBytes e) (hbF : Bytes filter) :
    ∃ t, openSst crc32c f.bytes = .ok t
      ∧ (∀ ops : List KOp, t.runB crc32c t.toFirstB ops
          = (Ref.run ⟨(SB.putAll o SB.init atts).2.accepted, 0⟩ (ops.map KOp.toOp)).map .ok)
      ∧ (∀ (k : List Nat) (ts : Nat), t.loadB crc32c k ts = .ok (loadSpec (SB.putAll o SB.init atts).2.accepted k ts))
      ∧ t.metadataB crc32c = .ok
          ⟨setsum,
           (match (SB.putAll o SB.init atts).2.accepted.head? with | some e => e.key | none => []),
           (match (SB.putAll o SB.init atts).2.accepted.getLast? with | some e => e.key | none => MAX_KEY),
           f.fin.smallest, f.fin.biggest, f.bytes.length⟩
      ∧ t.forwardB crc32c = ((SB.putAll o SB.init atts).2.accepted, none)
      ∧ t.backwardB crc32c = ((SB.putAll o SB.init atts).2.accepted.reverse, none)
      ∧ (∀ ops : List KOp, t.runB crc32c t.toFirstB ops = t.run crc32c t.toFirst ops) := by
  have hpb := sealed_payload_bytes o atts filter setsum f s1 hs1 hseal hbE hbF
  exact sst_file_roundtrip_bcur crc32c o ho atts filter setsum f s1 hs1 hseal hts hwfE hwfD hfitE hfitD hsetsum hfilter
    hsize (fun b hb => ⟨rfl, crc32c_lt b (hpb b hb)⟩)

end Blue.SstOpen

#print axioms Blue.SstOpen.runB_eq_run
#print axioms Blue.SstOpen.sealed_blocks_good
#print axioms Blue.SstOpen.sst_file_roundtrip_bcur
#print axioms Blue.SstOpen.sst_file_roundtrip_bcur_crc32c
