import Blue.Model.Damage
import Blue.Proofs.ManiTorn
import Blue.Proofs.ManiApi
import Blue.Proofs.Damage
/-! **C09** the MANIFEST under damage, read by the faithful model of `ManifestIterator`
    (`Blue.Damage.iterate`: `BufRead::lines` strips a carriage return only together with a newline
    and fails on a line that is not UTF-8; every error poisons the iterator — the non-ASCII check
    too, as repaired by /repo commit ef4f524; `Edit::add/rm/info` refuse a payload that ends in a carriage return; strings go into sorted sets).

    * **A** `iterate_lines`, `items_roundtrip`: what the writer wrote is read back, edit for edit.
    * **B** `manifest_damage_detected_or_prefix` (+ `manifest_damage_detected_last_line`): one line
      replaced by arbitrary bytes; the checksum enters as one explicit hypothesis about that line,
      `LineCrcDetects`.
    * **C** `separator_damage_detected`, `sep_is_exact`: the separator needs no checksum.
    * **D** `manifest_lines_damage_detected`, `newline_damage_detected`,
      `final_newline_damage_detected`: several lines replaced by one; a newline overwritten.
    * **E** `torn_manifest_lines`: the file cut at any byte.
    * **F** `non_ascii_line_not_poisoned` (the reader as found: the one error after which the
      iterator went on), `non_ascii_line_poisons` (repaired), `editsBeforeError_asFound` (the two
      readers agree up to and including the first error). -/
namespace Blue.Damage
open Blue.Mani
variable (crc : List Nat → Nat)

/-! ### the iterator, one line at a time -/

/-- what `ManifestIterator::next` does with one line `raw` (as `read_line` found it, newline
    removed; `term` = it ended in a newline); `next` is the iterator on the rest of the file -/
def onLine (raw : List Nat) (term : Bool) (cur : Edit) (next : Edit → List Item) : List Item :=
  if !Blue.Utf8.valid raw then [.ioError]
  else if (lineOf raw term).any (fun b => b ≥ 128) then [.notAscii]
  else
    match parseLine crc (lineOf raw term) with
    | .corrupt => [.corrupt]
    | .sep => .edit cur :: next Edit.empty
    | .rm s => if s.getLast? = some 13 then [.disallowed] else next { cur with rm := insertStr s cur.rm }
    | .add s => if s.getLast? = some 13 then [.disallowed] else next { cur with add := insertStr s cur.add }
    | .info k s => if s.getLast? = some 13 then [.disallowed] else next { cur with info := setInfo k s cur.info }

theorem iterate_nil (f : Nat) (cur : Edit) : iterate crc f [] cur = [] := by
  cases f <;> rfl

theorem iterate_unfold (f : Nat) (bs : List Nat) (cur : Edit) (hne : bs ≠ []) :
    iterate crc (f + 1) bs cur =
      onLine crc (splitLine bs).1 (splitLine bs).2.isSome cur (iterate crc f ((splitLine bs).2.getD [])) := by
  cases bs with
  | nil => exact absurd rfl hne
  | cons b t =>
    simp only [iterate, onLine]
    cases splitLine (b :: t) with
    | mk line rest => rfl

/-- a line that ends in a newline -/
theorem iterate_term (f : Nat) (raw rest : List Nat) (cur : Edit) (hnl : ∀ b ∈ raw, b ≠ 10) :
    iterate crc (f + 1) (raw ++ 10 :: rest) cur = onLine crc raw true cur (iterate crc f rest) := by
  rw [iterate_unfold crc f _ cur (by simp), splitLine_line raw rest hnl]
  rfl

/-- a last line that does not end in a newline -/
theorem iterate_unterm (f : Nat) (raw : List Nat) (cur : Edit) (hne : raw ≠ []) (hnl : ∀ b ∈ raw, b ≠ 10) :
    iterate crc (f + 1) raw cur = onLine crc raw false cur (fun _ => []) := by
  rw [iterate_unfold crc f _ cur hne, splitLine_noNl raw hnl]
  simp only [Option.isSome_none, Option.getD_none]
  congr 1
  funext c
  exact iterate_nil crc f c

/-! ### ASCII lines are UTF-8 -/

theorem validAux_ascii : ∀ (s : List Nat) (f : Nat), s.length < f → (∀ b ∈ s, b < 128) →
    Blue.Utf8.validAux f s = true
  | [], f + 1, _, _ => rfl
  | [], 0, h, _ => by simp at h
  | b :: t, 0, h, _ => by simp at h
  | b :: t, f + 1, h, hb => by
    have hb0 : b < 0x80 := hb b List.mem_cons_self
    have ih := validAux_ascii t f (by simp at h; omega) (fun x hx => hb x (List.mem_cons_of_mem _ hx))
    simp only [Blue.Utf8.validAux, if_pos hb0, ih]

theorem valid_ascii (s : List Nat) (h : ∀ b ∈ s, b < 128) : Blue.Utf8.valid s = true :=
  validAux_ascii s _ (Nat.lt_succ_self _) h

theorem any_ge_false (s : List Nat) (h : ∀ b ∈ s, b < 128) : s.any (fun b => decide (b ≥ 128)) = false := by
  rw [List.any_eq_false]
  intro b hb
  have := h b hb
  simp only [decide_eq_true_eq]; omega

/-! ### written lines -/

theorem text_ascii (l : Ln) (h : l.Ok) : ∀ b ∈ l.text crc, b < 128 := by
  cases l with
  | sep => intro b hb; simp [Ln.text, SEP] at hb; omega
  | it i =>
    intro b hb
    simp only [Ln.text, List.mem_append] at hb
    rcases hb with hb | hb
    · exact (hex8_ascii _ b hb).1
    · exact ((item_body_ok i h).2.1 b hb).1

theorem text_stripCr (l : Ln) (h : l.Ok) : stripCr (l.text crc) = l.text crc := by
  cases l with
  | sep => exact (by decide : stripCr SEP = SEP)
  | it i =>
    apply stripCr_id
    obtain ⟨h2, _, hl⟩ := item_body_ok i h
    simp only [Ln.text]
    have hne : i.body ≠ [] := by intro e; rw [e] at h2; simp at h2
    rw [List.getLast?_append, List.getLast?_eq_some_getLast hne] at *
    simpa using hl

theorem text_lineOf (l : Ln) (h : l.Ok) (term : Bool) : lineOf (l.text crc) term = l.text crc := by
  unfold lineOf
  cases term
  · rfl
  · simp only [if_true]; exact text_stripCr crc l h

theorem parseLine_sep : parseLine crc SEP = .sep := by
  unfold parseLine
  have : SEP.any (fun b => decide (b ≥ 128)) = false := by decide
  rw [this]; simp

/-- `Edit::add/rm/info` on the iterator's current edit: sorted insertion -/
def applySet (cur : Edit) : Mani.Item → Edit
  | .rm s => { cur with rm := insertStr s cur.rm }
  | .add s => { cur with add := insertStr s cur.add }
  | .info k s => { cur with info := setInfo k s cur.info }

theorem onLine_item (hcrc : CrcOk crc) (i : Mani.Item) (hok : i.Ok) (term : Bool) (cur : Edit)
    (next : Edit → List Item) :
    onLine crc (Ln.text crc (.it i)) term cur next = next (applySet cur i) := by
  have hasc := text_ascii crc (.it i) hok
  unfold onLine
  rw [text_lineOf crc (.it i) hok, valid_ascii _ hasc, any_ge_false _ hasc]
  simp only [Bool.not_true, Bool.false_eq_true, if_false]
  cases i with
  | rm s =>
    have hp := parseLine_body crc hcrc 45 s (by omega) hok
    simp only [Ln.text, Mani.Item.body, hp]
    simp only [show (45 : Nat) ≠ 43 by omega, if_false, if_true, if_neg hok.2.2, applySet]
  | add s =>
    have hp := parseLine_body crc hcrc 43 s (by omega) hok
    simp only [Ln.text, Mani.Item.body, hp]
    simp only [if_true, if_neg hok.2.2, applySet]
  | info k s =>
    obtain ⟨hs, hk, hk10, hk43, hk45⟩ := hok
    have hp := parseLine_body crc hcrc k s hk hs
    simp only [Ln.text, Mani.Item.body, hp]
    simp only [if_neg hk43, if_neg hk45, if_neg hk10, if_neg hs.2.2, applySet]

theorem onLine_sep (term : Bool) (cur : Edit) (next : Edit → List Item) :
    onLine crc (Ln.text crc .sep) term cur next = .edit cur :: next Edit.empty := by
  unfold onLine
  rw [text_lineOf crc .sep trivial]
  have h1 : Blue.Utf8.valid SEP = true := by decide
  have h2 : SEP.any (fun b => decide (b ≥ 128)) = false := by decide
  simp only [Ln.text, h1, h2, parseLine_sep, Bool.not_true, Bool.false_eq_true, if_false]

/-- the reader's state machine on whole written lines, with the set semantics of `iterate` -/
def runLinesSet : List Ln → Edit → List Edit × Edit
  | [], cur => ([], cur)
  | .it i :: ls, cur => runLinesSet ls (applySet cur i)
  | .sep :: ls, cur => (cur :: (runLinesSet ls Edit.empty).1, (runLinesSet ls Edit.empty).2)

/-- **A** whole written lines, whatever follows them -/
theorem iterate_lines (hcrc : CrcOk crc) : ∀ (ls : List Ln) (f : Nat) (rest : List Nat) (cur : Edit),
    (∀ l ∈ ls, l.Ok) →
    iterate crc (f + ls.length) (ls.flatMap (Ln.bytes crc) ++ rest) cur
      = (runLinesSet ls cur).1.map .edit ++ iterate crc f rest (runLinesSet ls cur).2
  | [], f, rest, cur, _ => by simp [runLinesSet]
  | .it i :: ls, f, rest, cur, hok => by
    have hi := hok _ List.mem_cons_self
    simp only [List.flatMap_cons, List.length_cons, List.append_assoc, runLinesSet, Ln.bytes]
    rw [show f + (ls.length + 1) = (f + ls.length) + 1 by omega]
    rw [show [10] ++ (ls.flatMap (Ln.bytes crc) ++ rest) = 10 :: (ls.flatMap (Ln.bytes crc) ++ rest) from rfl]
    rw [iterate_term crc _ _ _ _ (text_noNl crc _ hi), onLine_item crc hcrc i hi]
    exact iterate_lines hcrc ls f rest _ (fun l hl => hok l (List.mem_cons_of_mem _ hl))
  | .sep :: ls, f, rest, cur, hok => by
    simp only [List.flatMap_cons, List.length_cons, List.append_assoc, runLinesSet, Ln.bytes]
    rw [show f + (ls.length + 1) = (f + ls.length) + 1 by omega]
    rw [show [10] ++ (ls.flatMap (Ln.bytes crc) ++ rest) = 10 :: (ls.flatMap (Ln.bytes crc) ++ rest) from rfl]
    rw [iterate_term crc _ _ _ _ (text_noNl crc .sep trivial), onLine_sep]
    rw [iterate_lines hcrc ls f rest _ (fun l hl => hok l (List.mem_cons_of_mem _ hl))]
    simp

/-! ### canonical edits: what the writer emits from its `BTreeSet`s / `BTreeMap` -/

/-- reading the lists back through the reader's sorted insertion gives the same lists (they are
    sorted and free of duplicates, as the iteration order of a `BTreeSet` / `BTreeMap` is) -/
def _root_.Blue.Mani.Edit.Canon (e : Edit) : Prop :=
  e.rm.foldl (fun acc s => insertStr s acc) [] = e.rm
  ∧ e.add.foldl (fun acc s => insertStr s acc) [] = e.add
  ∧ e.info.foldl (fun acc kv => setInfo kv.1 kv.2 acc) [] = e.info

instance (e : Edit) : Decidable e.Canon := by unfold Edit.Canon; exact inferInstance

example : Edit.Canon ⟨[[97]], [[98], [98, 99], [99]], [(100, [101]), (102, [103])]⟩ := by decide
example : ¬ Edit.Canon ⟨[], [[99], [98]], []⟩ := by decide

/-- sorted lists are canonical -/
theorem canon_of_sorted (e : Edit) (h1 : SortedS e.rm) (h2 : SortedS e.add) (h3 : SortedI e.info) : e.Canon :=
  ⟨by simpa using foldl_insert_fresh e.rm [] (by simpa using h1),
   by simpa using foldl_insert_fresh e.add [] (by simpa using h2),
   by simpa using foldl_info_fresh e.info [] (by simpa using h3)⟩

/-- every edit a client can build through `Edit::add/rm/info` is canonical -/
theorem _root_.Blue.Mani.Built.canon {e : Edit} (h : Built e) : e.Canon := by
  have hs : SortedS e.rm ∧ SortedS e.add ∧ SortedI e.info := by
    induction h with
    | empty => exact ⟨List.Pairwise.nil, List.Pairwise.nil, List.Pairwise.nil⟩
    | @add e e' s _ hs ih =>
      unfold Edit.addStr at hs
      split at hs
      · injection hs with hs; subst hs
        exact ⟨ih.1, insertStr_sorted _ _ ih.2.1, ih.2.2⟩
      · cases hs
    | @rm e e' s _ hs ih =>
      unfold Edit.rmStr at hs
      split at hs
      · injection hs with hs; subst hs
        exact ⟨insertStr_sorted _ _ ih.1, ih.2.1, ih.2.2⟩
      · cases hs
    | @info e e' k v _ hs ih =>
      unfold Edit.setInfo at hs
      split at hs
      · injection hs with hs; subst hs
        exact ⟨ih.1, ih.2.1, setInfo_sorted _ _ _ ih.2.2⟩
      · cases hs
  exact canon_of_sorted e hs.1 hs.2.1 hs.2.2

theorem foldl_applySet (e : Edit) (h : e.Canon) : (Mani.items e).foldl applySet Edit.empty = e := by
  have hrm : ∀ (l : List (List Nat)) (cur : Edit),
      (l.map Mani.Item.rm).foldl applySet cur = { cur with rm := l.foldl (fun acc s => insertStr s acc) cur.rm } := by
    intro l; induction l with
    | nil => intro cur; rfl
    | cons a t ih => intro cur; simp only [List.map_cons, List.foldl_cons, ih, applySet]
  have hadd : ∀ (l : List (List Nat)) (cur : Edit),
      (l.map Mani.Item.add).foldl applySet cur = { cur with add := l.foldl (fun acc s => insertStr s acc) cur.add } := by
    intro l; induction l with
    | nil => intro cur; rfl
    | cons a t ih => intro cur; simp only [List.map_cons, List.foldl_cons, ih, applySet]
  have hinfo : ∀ (l : List (Nat × List Nat)) (cur : Edit),
      (l.map (fun kv => Mani.Item.info kv.1 kv.2)).foldl applySet cur
        = { cur with info := l.foldl (fun acc kv => setInfo kv.1 kv.2 acc) cur.info } := by
    intro l; induction l with
    | nil => intro cur; rfl
    | cons a t ih => intro cur; simp only [List.map_cons, List.foldl_cons, ih, applySet]
  unfold Mani.items
  rw [List.foldl_append, List.foldl_append, hrm, hadd, hinfo]
  simp only [Edit.empty, h.1, h.2.1, h.2.2]

theorem runLinesSet_items : ∀ (its : List Mani.Item) (ls : List Ln) (cur : Edit),
    runLinesSet (its.map .it ++ ls) cur = runLinesSet ls (its.foldl applySet cur)
  | [], _, _ => rfl
  | i :: its, ls, cur => by
    simp only [List.map_cons, List.cons_append, runLinesSet, List.foldl_cons]
    exact runLinesSet_items its ls _

theorem runLinesSet_items_only : ∀ (its : List Mani.Item) (cur : Edit),
    (runLinesSet (its.map .it) cur).1 = []
  | [], _ => rfl
  | i :: its, cur => by simp only [List.map_cons, runLinesSet]; exact runLinesSet_items_only its _

theorem runLinesSet_append : ∀ (a b : List Ln) (cur : Edit),
    runLinesSet (a ++ b) cur
      = ((runLinesSet a cur).1 ++ (runLinesSet b (runLinesSet a cur).2).1, (runLinesSet b (runLinesSet a cur).2).2)
  | [], _, _ => rfl
  | .it i :: a, b, cur => by simp only [List.cons_append, runLinesSet]; exact runLinesSet_append a b _
  | .sep :: a, b, cur => by
    simp only [List.cons_append, runLinesSet]
    rw [runLinesSet_append a b]

theorem linesOf_cons (e : Edit) (es : List Edit) :
    linesOf (e :: es) = (Mani.items e).map .it ++ (.sep :: linesOf es) := by
  simp [linesOf]

/-- the lines of canonical edits replay to those edits -/
theorem runLinesSet_linesOf : ∀ (es : List Edit), (∀ e ∈ es, e.Canon) →
    runLinesSet (linesOf es) Edit.empty = (es, Edit.empty)
  | [], _ => rfl
  | e :: es, h => by
    rw [linesOf_cons, runLinesSet_items, foldl_applySet e (h e List.mem_cons_self)]
    simp only [runLinesSet]
    rw [runLinesSet_linesOf es (fun x hx => h x (List.mem_cons_of_mem _ hx))]

/-- whole lines of the stream replay to a prefix of the edits: the edits that lie wholly within the
    first `k` lines -/
theorem runLinesSet_prefix : ∀ (es : List Edit) (k : Nat), (∀ e ∈ es, e.Canon) →
    ∃ c, c ≤ es.length ∧ (linesOf (es.take c)).length ≤ k
      ∧ (c < es.length → k < (linesOf (es.take (c + 1))).length)
      ∧ (runLinesSet ((linesOf es).take k) Edit.empty).1 = es.take c
  | [], k, _ => ⟨0, Nat.le_refl _, by simp [linesOf], by simp, by simp [linesOf, runLinesSet]⟩
  | e :: es, k, h => by
    rw [linesOf_cons]
    rcases Nat.lt_or_ge k ((Mani.items e).length + 1) with hk | hk
    · refine ⟨0, Nat.zero_le _, by simp [linesOf], ?_, ?_⟩
      · intro _
        simp only [List.take_succ_cons, List.take_zero, linesOf_cons, List.length_append, List.length_map,
          List.length_cons]
        omega
      · rw [List.take_append]
        have h0 : k - ((Mani.items e).map Ln.it).length = 0 := by simp; omega
        rw [h0, List.take_zero, List.append_nil, ← List.map_take, runLinesSet_items_only]
        rfl
    · obtain ⟨c, hc1, hc2, hc3, hc4⟩ := runLinesSet_prefix es (k - ((Mani.items e).length + 1))
        (fun x hx => h x (List.mem_cons_of_mem _ hx))
      refine ⟨c + 1, by simp; omega, ?_, ?_, ?_⟩
      · simp only [List.take_succ_cons, linesOf_cons, List.length_append, List.length_map, List.length_cons]
        omega
      · intro hlt
        have := hc3 (by simp at hlt; omega)
        simp only [List.take_succ_cons, linesOf_cons, List.length_append, List.length_map, List.length_cons]
        omega
      · rw [List.take_append, List.take_of_length_le (by simp; omega)]
        have hk' : k - ((Mani.items e).map Ln.it).length = (k - ((Mani.items e).length + 1)) + 1 := by simp; omega
        rw [hk', List.take_succ_cons, runLinesSet_items, foldl_applySet e (h e List.mem_cons_self)]
        simp only [runLinesSet, List.take_succ_cons]
        rw [hc4]

/-! ### what a consumer sees -/

theorem editsBeforeError_edits : ∀ (es : List Edit) (t : List Item),
    editsBeforeError (es.map .edit ++ t) = (es ++ (editsBeforeError t).1, (editsBeforeError t).2)
  | [], t => rfl
  | e :: es, t => by
    simp only [List.map_cons, List.cons_append, editsBeforeError]
    rw [editsBeforeError_edits es t]

theorem editsBeforeError_err (i : Item) (t : List Item) (h : i.isErr = true) :
    editsBeforeError (i :: t) = ([], some i) := by
  cases i with
  | edit e => cases h
  | _ => rfl

theorem lines_length_le (ls : List Ln) : ls.length ≤ (ls.flatMap (Ln.bytes crc)).length := by
  induction ls with
  | nil => simp
  | cons l ls ih =>
    simp only [List.flatMap_cons, List.length_cons, List.length_append, Ln.bytes, List.length_nil] at ih ⊢
    omega

/-- whole written lines and nothing after them -/
theorem items_lines (hcrc : CrcOk crc) (ls : List Ln) (hok : ∀ l ∈ ls, l.Ok) :
    items crc (ls.flatMap (Ln.bytes crc)) = (runLinesSet ls Edit.empty).1.map .edit := by
  unfold items
  have hle := lines_length_le crc ls
  obtain ⟨f, hf⟩ : ∃ f, (ls.flatMap (Ln.bytes crc)).length + 2 = f + ls.length := ⟨_, (Nat.sub_add_cancel (by omega)).symm⟩
  have := iterate_lines crc hcrc ls f [] Edit.empty hok
  rw [List.append_nil] at this
  rw [hf, this, iterate_nil, List.append_nil]

/-- **A** (`items_roundtrip`) the faithful reader hands back exactly the edits that were written, and
    `Manifest::open` arrives at their replay -/
theorem items_roundtrip (hcrc : CrcOk crc) (es : List Edit) (hok : ∀ e ∈ es, e.Ok ∧ e.Canon) :
    items crc (es.flatMap (encodeEdit crc)) = es.map .edit
    ∧ openState crc (es.flatMap (encodeEdit crc)) = .ok (es.foldl applyEdit ⟨[], []⟩) := by
  have h1 : items crc (es.flatMap (encodeEdit crc)) = es.map .edit := by
    rw [stream_eq, items_lines crc hcrc _ (lines_ok es (fun e he => (hok e he).1)),
      runLinesSet_linesOf es (fun e he => (hok e he).2)]
  refine ⟨h1, ?_⟩
  unfold openState
  have := editsBeforeError_edits es []
  rw [List.append_nil] at this
  rw [h1, this]
  simp [editsBeforeError]

/-! ### one damaged line -/

/-- the checksum hypothesis on a damaged line `L` (the line as `BufRead::lines` returns it): if its
    first eight bytes still read as a hexadecimal number, that number is not the checksum of the
    rest of the line.  Decidable; for a given line and the real CRC it is a computation. -/
def LineCrcDetects (L : List Nat) : Prop :=
  ∀ x, parseHex8 (L.take 8) = some x → crc (L.drop 8) ≠ x

instance (L : List Nat) : Decidable (LineCrcDetects crc L) :=
  match h : parseHex8 (L.take 8) with
  | none => isTrue (by intro x hx; rw [h] at hx; cases hx)
  | some y =>
    if hc : crc (L.drop 8) = y then isFalse (fun hd => hd y h hc)
    else isTrue (by intro x hx; rw [h] at hx; cases hx; exact hc)

/-- a line that is not the separator and whose checksum does not match is `corruption` -/
theorem parseLine_corrupt_of_detects (L : List Nat) (hnc : LineCrcDetects crc L) (hsep : L ≠ SEP) :
    parseLine crc L = .corrupt := by
  unfold parseLine
  by_cases h1 : (L.any fun b => decide (b ≥ 128)) = true
  · rw [if_pos h1]
  · rw [if_neg h1, if_neg hsep]
    by_cases h3 : L.length > 9
    · rw [if_pos h3]
      cases hp : parseHex8 (L.take 8) with
      | none => rfl
      | some expected =>
        simp only
        rw [if_pos (hnc expected hp)]
    · rw [if_neg h3]

/-- a line of at most nine bytes that is not the separator is `corruption`, whatever the checksum -/
theorem parseLine_short (L : List Nat) (hlen : L.length ≤ 9) (hsep : L ≠ SEP) : parseLine crc L = .corrupt := by
  unfold parseLine
  by_cases h1 : (L.any fun b => decide (b ≥ 128)) = true
  · rw [if_pos h1]
  · rw [if_neg h1, if_neg hsep, if_neg (by omega)]

/-- the separator followed by anything is `corruption`: it is not the separator, and its first eight
    bytes are not hexadecimal digits -/
theorem sep_prefix_corrupt (x : List Nat) (hx : x ≠ []) : parseLine crc (SEP ++ x) = .corrupt := by
  apply parseLine_corrupt_of_detects
  · intro y hy
    have hn : parseHex8 SEP = none := by decide
    rw [List.take_left' (by rfl : SEP.length = 8), hn] at hy
    cases hy
  · intro h
    have := congrArg List.length h
    rw [List.length_append] at this
    have : x.length = 0 := by omega
    exact hx (List.length_eq_zero_iff.mp this)

/-- **C** (`sep_is_exact`) the separator test is an equality, not a prefix test -/
theorem sep_is_exact (x : List Nat) (hx : x ≠ []) : parseLine crc (SEP ++ x) ≠ .sep := by
  have hne : SEP ++ x ≠ SEP := by
    intro h
    have := congrArg List.length h
    rw [List.length_append] at this
    have : x.length = 0 := by omega
    exact hx (List.length_eq_zero_iff.mp this)
  intro hs
  unfold parseLine at hs
  by_cases h1 : ((SEP ++ x).any fun b => decide (b ≥ 128)) = true
  · rw [if_pos h1] at hs; cases hs
  · rw [if_neg h1, if_neg hne] at hs
    by_cases h3 : (SEP ++ x).length > 9
    · rw [if_pos h3] at hs
      cases hp : parseHex8 ((SEP ++ x).take 8) with
      | none => rw [hp] at hs; cases hs
      | some expected =>
        rw [hp] at hs
        simp only at hs
        repeat' split at hs
        all_goals cases hs
    · rw [if_neg h3] at hs; cases hs

/-- a line that does not parse: which error; the iterator ends with it -/
theorem onLine_damaged (raw : List Nat) (term : Bool) (cur : Edit) (next : Edit → List Item)
    (hcor : parseLine crc (lineOf raw term) = .corrupt) :
    onLine crc raw term cur next =
      if !Blue.Utf8.valid raw then [.ioError]
      else if (lineOf raw term).any (fun b => b ≥ 128) then [.notAscii]
      else [.corrupt] := by
  unfold onLine
  rw [hcor]

theorem onLine_damaged_err (raw : List Nat) (term : Bool) (cur : Edit) (next : Edit → List Item)
    (hcor : parseLine crc (lineOf raw term) = .corrupt) :
    ∃ err, err.isErr = true ∧ onLine crc raw term cur next = [err] := by
  rw [onLine_damaged crc raw term cur next hcor]
  by_cases hv : Blue.Utf8.valid raw = true
  · by_cases ha : (lineOf raw term).any (fun b => b ≥ 128) = true
    · exact ⟨.notAscii, rfl, by simp [hv, ha]⟩
    · exact ⟨.corrupt, rfl, by simp [hv, ha]⟩
  · exact ⟨.ioError, rfl, by simp [hv]⟩

/-- what the first error means to the consumers that stop there -/
theorem seen_of_items (d : List Nat) (del : List Edit) (err : Item) (tail : List Item) (he : err.isErr = true)
    (h : items crc d = del.map .edit ++ err :: tail) :
    editsBeforeError (items crc d) = (del, some err) ∧ openState crc d = .error err := by
  have h1 : editsBeforeError (items crc d) = (del, some err) := by
    rw [h, editsBeforeError_edits, editsBeforeError_err err tail he]; simp
  refine ⟨h1, ?_⟩
  unfold openState
  rw [h1]

/-- whole written lines, then a line that does not parse, then anything -/
theorem items_damaged_line (hcrc : CrcOk crc) (pre : List Ln) (hok : ∀ l ∈ pre, l.Ok) (raw rest : List Nat)
    (hnl : ∀ b ∈ raw, b ≠ 10) (hcor : parseLine crc (stripCr raw) = .corrupt) :
    ∃ err, err.isErr = true
      ∧ items crc (pre.flatMap (Ln.bytes crc) ++ raw ++ [10] ++ rest)
          = (runLinesSet pre Edit.empty).1.map .edit ++ [err] := by
  unfold items
  have hle := lines_length_le crc pre
  obtain ⟨f, hf⟩ : ∃ f, (pre.flatMap (Ln.bytes crc) ++ raw ++ [10] ++ rest).length + 2 = (f + 1) + pre.length :=
    ⟨(pre.flatMap (Ln.bytes crc) ++ raw ++ [10] ++ rest).length + 2 - (pre.length + 1), by
      simp only [List.length_append, List.length_cons, List.length_nil]; omega⟩
  rw [hf, show pre.flatMap (Ln.bytes crc) ++ raw ++ [10] ++ rest = pre.flatMap (Ln.bytes crc) ++ (raw ++ 10 :: rest) by simp,
    iterate_lines crc hcrc pre (f + 1) _ Edit.empty hok, iterate_term crc f raw rest _ hnl]
  obtain ⟨err, he, ho⟩ := onLine_damaged_err crc raw true (runLinesSet pre Edit.empty).2
    (iterate crc f rest) hcor
  exact ⟨err, he, by rw [ho]⟩

/-- whole written lines, then a last line without a newline that does not parse: the file ends, so
    likewise.  (No carriage return is stripped from this line.) -/
theorem items_damaged_last_line (hcrc : CrcOk crc) (pre : List Ln) (hok : ∀ l ∈ pre, l.Ok) (raw : List Nat)
    (hne : raw ≠ []) (hnl : ∀ b ∈ raw, b ≠ 10) (hcor : parseLine crc raw = .corrupt) :
    ∃ err, err.isErr = true
      ∧ items crc (pre.flatMap (Ln.bytes crc) ++ raw) = (runLinesSet pre Edit.empty).1.map .edit ++ [err] := by
  unfold items
  have hle := lines_length_le crc pre
  obtain ⟨f, hf⟩ : ∃ f, (pre.flatMap (Ln.bytes crc) ++ raw).length + 2 = (f + 1) + pre.length :=
    ⟨(pre.flatMap (Ln.bytes crc) ++ raw).length + 2 - (pre.length + 1), by
      simp only [List.length_append]; omega⟩
  rw [hf, iterate_lines crc hcrc pre (f + 1) _ Edit.empty hok, iterate_unterm crc f raw _ hne hnl]
  obtain ⟨err, he, ho⟩ := onLine_damaged_err crc raw false (runLinesSet pre Edit.empty).2
    (fun _ => []) hcor
  exact ⟨err, he, by rw [ho]⟩

/-! ### one damaged line of a written manifest -/

/-- the lines `_apply` writes for one edit: its item lines, then the separator -/
def editLines (e : Edit) : List Ln := (Mani.items e).map Ln.it ++ [Ln.sep]

theorem linesOf_eq (es : List Edit) : linesOf es = es.flatMap editLines := rfl

theorem linesOf_append (a b : List Edit) : linesOf (a ++ b) = linesOf a ++ linesOf b := by
  simp [linesOf]

/-- the pristine image, split at line `j` of edit `e` -/
theorem pristine_split (es1 : List Edit) (e : Edit) (es2 : List Edit) (j : Nat) (hj : j < (editLines e).length) :
    (es1 ++ e :: es2).flatMap (encodeEdit crc)
      = (linesOf es1 ++ (editLines e).take j).flatMap (Ln.bytes crc) ++ ((editLines e)[j]).text crc ++ [10]
          ++ ((editLines e).drop (j + 1) ++ linesOf es2).flatMap (Ln.bytes crc) := by
  rw [stream_eq, linesOf_append]
  have h1 : linesOf (e :: es2) = editLines e ++ linesOf es2 := by simp [linesOf, editLines]
  have h2 : editLines e = (editLines e).take j ++ (editLines e)[j] :: (editLines e).drop (j + 1) := by
    rw [List.getElem_cons_drop, List.take_append_drop]
  rw [h1]
  conv => lhs; rw [h2]
  simp only [List.flatMap_append, List.flatMap_cons, Ln.bytes, List.append_assoc]

/-- the whole lines before line `j` of `e` replay to the edits before `e` -/
theorem run_before (es1 : List Edit) (e : Edit) (hc : ∀ x ∈ es1, x.Canon) (j : Nat) (hj : j < (editLines e).length) :
    (runLinesSet (linesOf es1 ++ (editLines e).take j) Edit.empty).1 = es1 := by
  have ht : (editLines e).take j = ((Mani.items e).take j).map Ln.it := by
    unfold editLines at hj ⊢
    simp only [List.length_append, List.length_map, List.length_cons, List.length_nil] at hj
    rw [List.take_append_of_le_length (by simp; omega), List.map_take]
  rw [runLinesSet_append, runLinesSet_linesOf es1 hc, ht, runLinesSet_items_only]
  simp

theorem ok_before (es1 : List Edit) (e : Edit) (hok1 : ∀ x ∈ es1, x.Ok) (hoke : e.Ok) (j : Nat) :
    ∀ l ∈ linesOf es1 ++ (editLines e).take j, l.Ok := by
  intro l hl
  rcases List.mem_append.mp hl with hl | hl
  · exact lines_ok es1 hok1 l hl
  · have := List.mem_of_mem_take hl
    unfold editLines at this
    rcases List.mem_append.mp this with h | h
    · obtain ⟨i, hi, rfl⟩ := List.mem_map.mp h
      exact items_ok e hoke i hi
    · simp only [List.mem_singleton] at h; subst h; trivial

/-- line `j` of edit `e` replaced by a line that does not parse -/
theorem damaged_edit_line (hcrc : CrcOk crc) (es1 : List Edit) (e : Edit) (hok1 : ∀ x ∈ es1, x.Ok ∧ x.Canon)
    (hoke : e.Ok) (j : Nat) (hj : j < (editLines e).length) (raw rest : List Nat) (hnl : ∀ b ∈ raw, b ≠ 10)
    (hcor : parseLine crc (stripCr raw) = .corrupt) (d : List Nat)
    (hd : d = (linesOf es1 ++ (editLines e).take j).flatMap (Ln.bytes crc) ++ raw ++ [10] ++ rest) :
    ∃ err, err.isErr = true ∧ items crc d = es1.map .edit ++ [err]
      ∧ editsBeforeError (items crc d) = (es1, some err) ∧ openState crc d = .error err := by
  obtain ⟨err, he, hi⟩ := items_damaged_line crc hcrc _
    (ok_before es1 e (fun x hx => (hok1 x hx).1) hoke j) raw rest hnl hcor
  rw [run_before es1 e (fun x hx => (hok1 x hx).2) j hj, ← hd] at hi
  obtain ⟨h1, h2⟩ := seen_of_items crc d es1 err [] he hi
  exact ⟨err, he, hi, h1, h2⟩

/-- the last line of the file replaced by a line without newline that does not parse -/
theorem damaged_edit_last_line (hcrc : CrcOk crc) (es1 : List Edit) (e : Edit) (hok1 : ∀ x ∈ es1, x.Ok ∧ x.Canon)
    (hoke : e.Ok) (j : Nat) (hj : j < (editLines e).length) (raw : List Nat) (hne : raw ≠ []) (hnl : ∀ b ∈ raw, b ≠ 10)
    (hcor : parseLine crc raw = .corrupt) (d : List Nat)
    (hd : d = (linesOf es1 ++ (editLines e).take j).flatMap (Ln.bytes crc) ++ raw) :
    ∃ err, err.isErr = true ∧ items crc d = es1.map .edit ++ [err]
      ∧ editsBeforeError (items crc d) = (es1, some err) ∧ openState crc d = .error err := by
  obtain ⟨err, he, hi⟩ := items_damaged_last_line crc hcrc _
    (ok_before es1 e (fun x hx => (hok1 x hx).1) hoke j) raw hne hnl hcor
  rw [run_before es1 e (fun x hx => (hok1 x hx).2) j hj, ← hd] at hi
  obtain ⟨h1, h2⟩ := seen_of_items crc d es1 err [] he hi
  exact ⟨err, he, hi, h1, h2⟩

/-- **B** (`manifest_damage_detected_or_prefix`) one line of a written MANIFEST — line `j` of the
    transaction `e`, item line or separator — is replaced by arbitrary bytes `T'` (any length; no
    newline among them, so it is still one line).  The one hypothesis about the checksum is on that
    line as the reader sees it, `stripCr T'`: its digits, if they are digits, are not the checksum of
    the rest of it.  Then:

    1. the iterator returns exactly the edits written before `e`, then an error, and nothing after
       it: `e` is not delivered, in whole or in part, it is not fused with a neighbour, and no later
       edit is ever returned (every error poisons; as found the non-ASCII one did not, see
       `non_ascii_line_not_poisoned`);
    2. so does every consumer that stops at the first error (`Manifest::open`, the verifier);
    3. `Manifest::open` fails.

    `pristine_split` is the undamaged image in the same shape, with `((editLines e)[j]).text crc`
    where `T'` is here.  The edits after `e` need not even be well-formed. -/
theorem manifest_damage_detected_or_prefix (hcrc : CrcOk crc) (es1 : List Edit) (e : Edit) (es2 : List Edit)
    (hok1 : ∀ x ∈ es1, x.Ok ∧ x.Canon) (hoke : e.Ok) (j : Nat) (hj : j < (editLines e).length)
    (T' : List Nat) (hnl : ∀ b ∈ T', b ≠ 10)
    (hnc : LineCrcDetects crc (stripCr T')) (hsep : stripCr T' ≠ SEP) (d : List Nat)
    (hd : d = (linesOf es1 ++ (editLines e).take j).flatMap (Ln.bytes crc) ++ T' ++ [10]
            ++ ((editLines e).drop (j + 1) ++ linesOf es2).flatMap (Ln.bytes crc)) :
    ∃ err, err.isErr = true ∧ items crc d = es1.map .edit ++ [err]
      ∧ editsBeforeError (items crc d) = (es1, some err) ∧ openState crc d = .error err :=
  damaged_edit_line crc hcrc es1 e hok1 hoke j hj T' _ hnl
    (parseLine_corrupt_of_detects crc _ hnc hsep) d hd

/-- **B**, the last line of the file damaged so that it has no newline any more (`S = []`): the
    same.  The reader takes this line as
    it is — `BufRead::lines` strips a carriage return only together with a newline — so the
    hypotheses are about `T'` itself.  This is where `iterate` and the older `Blue.Mani.readEdits`
    differ: `readEdits` strips a carriage return from an unterminated last line too, and so would
    accept a written line followed by a carriage return, which the code answers with
    `disallowed` (an item line) or `corruption` (the separator). -/
theorem manifest_damage_detected_last_line (hcrc : CrcOk crc) (es1 : List Edit) (e : Edit)
    (hok1 : ∀ x ∈ es1, x.Ok ∧ x.Canon) (hoke : e.Ok) (j : Nat) (hj : j < (editLines e).length)
    (T' : List Nat) (hne : T' ≠ []) (hnl : ∀ b ∈ T', b ≠ 10)
    (hnc : LineCrcDetects crc T') (hsep : T' ≠ SEP) (d : List Nat)
    (hd : d = (linesOf es1 ++ (editLines e).take j).flatMap (Ln.bytes crc) ++ T') :
    ∃ err, err.isErr = true ∧ items crc d = es1.map .edit ++ [err]
      ∧ editsBeforeError (items crc d) = (es1, some err) ∧ openState crc d = .error err :=
  damaged_edit_last_line crc hcrc es1 e hok1 hoke j hj T' hne hnl
    (parseLine_corrupt_of_detects crc _ hnc hsep) d hd

/-! ### the separator -/

theorem stripCr_short (T : List Nat) (hlen : T.length = 8) (hne : T ≠ SEP) :
    (stripCr T).length ≤ 9 ∧ stripCr T ≠ SEP := by
  unfold stripCr
  split
  · refine ⟨by rw [List.length_dropLast]; omega, ?_⟩
    intro h
    have := congrArg List.length h
    rw [List.length_dropLast, hlen] at this
    simp [SEP] at this
  · exact ⟨by omega, hne⟩

/-- **C** (`separator_damage_detected`) the separator line of `e` overwritten with eight other bytes
    (same length, no newline among them): detected with *no* hypothesis about the checksum — a line
    of at most nine bytes that is not the separator is `corruption` (`"-------\r"` becomes a line of
    seven bytes: still corruption).  So two transactions never fuse through same-length damage of
    the separator between them. -/
theorem separator_damage_detected (hcrc : CrcOk crc) (es1 : List Edit) (e : Edit) (es2 : List Edit)
    (hok1 : ∀ x ∈ es1, x.Ok ∧ x.Canon) (hoke : e.Ok)
    (T' : List Nat) (hlen : T'.length = 8) (hne : T' ≠ SEP) (hnl : ∀ b ∈ T', b ≠ 10) (d : List Nat)
    (hd : d = (linesOf es1 ++ (Mani.items e).map Ln.it).flatMap (Ln.bytes crc) ++ T' ++ [10]
            ++ (linesOf es2).flatMap (Ln.bytes crc)) :
    ∃ err, err.isErr = true ∧ items crc d = es1.map .edit ++ [err]
      ∧ editsBeforeError (items crc d) = (es1, some err) ∧ openState crc d = .error err := by
  have hj : (Mani.items e).length < (editLines e).length := by simp [editLines]
  have ht : (editLines e).take (Mani.items e).length = (Mani.items e).map Ln.it := by
    unfold editLines
    rw [List.take_append_of_le_length (by simp), List.take_of_length_le (by simp)]
  obtain ⟨h1, h2⟩ := stripCr_short T' hlen hne
  refine damaged_edit_line crc hcrc es1 e hok1 hoke _ hj T' ((linesOf es2).flatMap (Ln.bytes crc)) hnl
    (parseLine_short crc _ h1 h2) d ?_
  rw [ht]; exact hd

/-- the undamaged image in the shape of `separator_damage_detected` -/
theorem pristine_split_sep (es1 : List Edit) (e : Edit) (es2 : List Edit) :
    (es1 ++ e :: es2).flatMap (encodeEdit crc)
      = (linesOf es1 ++ (Mani.items e).map Ln.it).flatMap (Ln.bytes crc) ++ SEP ++ [10]
          ++ (linesOf es2).flatMap (Ln.bytes crc) := by
  have hj : (Mani.items e).length < (editLines e).length := by simp [editLines]
  rw [pristine_split crc es1 e es2 _ hj]
  have ht : (editLines e).take (Mani.items e).length = (Mani.items e).map Ln.it := by
    unfold editLines
    rw [List.take_append_of_le_length (by simp), List.take_of_length_le (by simp)]
  have hg : (editLines e)[(Mani.items e).length] = Ln.sep := by
    simp [editLines]
  have hdr : (editLines e).drop ((Mani.items e).length + 1) = [] := by
    apply List.drop_of_length_le; simp [editLines]
  rw [ht, hg, hdr]
  rfl

/-! ### several lines replaced by one; a newline overwritten -/

/-- the image of whole lines, split into the first `k` lines, the next `n`, and the rest -/
theorem lines_split (ls : List Ln) (k n : Nat) :
    ls.flatMap (Ln.bytes crc)
      = (ls.take k).flatMap (Ln.bytes crc) ++ ((ls.drop k).take n).flatMap (Ln.bytes crc)
          ++ (ls.drop (k + n)).flatMap (Ln.bytes crc) := by
  rw [← List.flatMap_append, ← List.flatMap_append, ← List.drop_drop, List.append_assoc,
    List.take_append_drop, List.take_append_drop]

/-- the first `k` lines of a written manifest, then a line that does not parse, then anything:
    what is delivered is the edits that lie wholly within the first `k` lines -/
theorem damaged_lines_core (hcrc : CrcOk crc) (es : List Edit) (hok : ∀ e ∈ es, e.Ok ∧ e.Canon) (k : Nat)
    (raw rest : List Nat) (hnl : ∀ b ∈ raw, b ≠ 10) (hcor : parseLine crc (stripCr raw) = .corrupt) (d : List Nat)
    (hd : d = ((linesOf es).take k).flatMap (Ln.bytes crc) ++ raw ++ [10] ++ rest) :
    ∃ c, c ≤ es.length ∧ (linesOf (es.take c)).length ≤ k ∧ (c < es.length → k < (linesOf (es.take (c + 1))).length)
      ∧ (∃ err, err.isErr = true ∧ items crc d = (es.take c).map .edit ++ [err]
            ∧ editsBeforeError (items crc d) = (es.take c, some err) ∧ openState crc d = .error err) := by
  obtain ⟨c, hc1, hc2, hc3, hc4⟩ := runLinesSet_prefix es k (fun e he => (hok e he).2)
  obtain ⟨err, he, hi⟩ := items_damaged_line crc hcrc ((linesOf es).take k)
    (fun l hl => lines_ok es (fun e he => (hok e he).1) l (List.mem_of_mem_take hl)) raw rest hnl hcor
  rw [hc4, ← hd] at hi
  obtain ⟨h1, h2⟩ := seen_of_items crc d (es.take c) err [] he hi
  exact ⟨c, hc1, hc2, hc3, err, he, hi, h1, h2⟩

/-- **D**, general form of **B**: the `n` consecutive whole lines that start at line `k` of a
    written MANIFEST (`n = 1`: one line, as in `manifest_damage_detected_or_prefix`; `n = 2`: two
    lines fused, as in `newline_damage_detected`; `n = 0`: a line inserted) are replaced by the
    single line `T'`.  Under the checksum hypothesis on that line, the consumers see exactly the
    edits that lie wholly before line `k` — `es.take c`, where `c` is the number of the edit that
    line `k` belongs to — then an error, then nothing.  (`lines_split` is the undamaged image in this shape.) -/
theorem manifest_lines_damage_detected (hcrc : CrcOk crc) (es : List Edit) (hok : ∀ e ∈ es, e.Ok ∧ e.Canon)
    (k n : Nat) (T' : List Nat) (hnl : ∀ b ∈ T', b ≠ 10)
    (hnc : LineCrcDetects crc (stripCr T')) (hsep : stripCr T' ≠ SEP) (d : List Nat)
    (hd : d = ((linesOf es).take k).flatMap (Ln.bytes crc) ++ T' ++ [10]
            ++ ((linesOf es).drop (k + n)).flatMap (Ln.bytes crc)) :
    ∃ c, c ≤ es.length ∧ (linesOf (es.take c)).length ≤ k ∧ (c < es.length → k < (linesOf (es.take (c + 1))).length)
      ∧ (∃ err, err.isErr = true ∧ items crc d = (es.take c).map .edit ++ [err]
            ∧ editsBeforeError (items crc d) = (es.take c, some err) ∧ openState crc d = .error err) :=
  damaged_lines_core crc hcrc es hok k T' _ hnl (parseLine_corrupt_of_detects crc _ hnc hsep) d hd

theorem set_at_append (a : List Nat) (b : Nat) (c : List Nat) (x : Nat) :
    (a ++ b :: c).set a.length x = a ++ x :: c := by
  induction a with
  | nil => rfl
  | cons y a ih => simp only [List.cons_append, List.length_cons, List.set_cons_succ, ih]

theorem over_newline (P T R : List Nat) (x : Nat) :
    apply (P ++ T ++ 10 :: R) (.over (P.length + T.length) x) = P ++ T ++ x :: R := by
  rw [apply_over, if_pos (by simp), ← List.length_append, set_at_append]

theorem over_last (Q : List Nat) (x : Nat) :
    apply (Q ++ [10]) (.over ((Q ++ [10]).length - 1) x) = Q ++ [x] := by
  have h : (Q ++ [10]).length - 1 = Q.length := by simp
  rw [apply_over, if_pos (by simp), h, set_at_append]

theorem text_length_ge (l : Ln) : 8 ≤ (l.text crc).length := by
  cases l with
  | sep => simp [Ln.text, SEP]
  | it i => simp only [Ln.text, List.length_append, hex8_length]; omega

theorem stripCr_length_ge (T : List Nat) : T.length - 1 ≤ (stripCr T).length := by
  unfold stripCr
  split
  · rw [List.length_dropLast]; omega
  · omega

/-- **D** (`newline_damage_detected`) the newline that ends line `k` of a written MANIFEST is
    overwritten with another byte `x`, which fuses line `k` with line `k + 1` (of the same
    transaction or, if line `k` is a separator, the first line of the next one).  This is
    `manifest_lines_damage_detected` with two lines replaced by `l1 ++ [x] ++ l2`; the fused line is
    too long to be the separator, so the checksum hypothesis on it is the only one.  Delivered: the
    edits wholly before line `k`, then an error. -/
theorem newline_damage_detected (hcrc : CrcOk crc) (es : List Edit) (hok : ∀ e ∈ es, e.Ok ∧ e.Canon)
    (k : Nat) (l1 l2 : Ln) (h1 : (linesOf es)[k]? = some l1) (h2 : (linesOf es)[k + 1]? = some l2)
    (x : Nat) (hx : x ≠ 10)
    (hnc : LineCrcDetects crc (stripCr (l1.text crc ++ [x] ++ l2.text crc))) (d : List Nat)
    (hd : d = apply (es.flatMap (encodeEdit crc))
            (.over ((((linesOf es).take k).flatMap (Ln.bytes crc)).length + (l1.text crc).length) x)) :
    ∃ c, c < es.length ∧ (linesOf (es.take c)).length ≤ k ∧ k < (linesOf (es.take (c + 1))).length
      ∧ (∃ err, err.isErr = true ∧ items crc d = (es.take c).map .edit ++ [err]
            ∧ editsBeforeError (items crc d) = (es.take c, some err) ∧ openState crc d = .error err) := by
  have hlok := lines_ok es (fun e he => (hok e he).1)
  obtain ⟨hk1, hl1⟩ := List.getElem?_eq_some_iff.mp h1
  obtain ⟨hk2, hl2⟩ := List.getElem?_eq_some_iff.mp h2
  have htwo : ((linesOf es).drop k).take 2 = [l1, l2] := by
    rw [← List.getElem_cons_drop (h := hk1), ← List.getElem_cons_drop (h := hk2), hl1, hl2]
    rfl
  -- the damaged image
  have himg : d = ((linesOf es).take k).flatMap (Ln.bytes crc) ++ (l1.text crc ++ [x] ++ l2.text crc) ++ [10]
      ++ ((linesOf es).drop (k + 2)).flatMap (Ln.bytes crc) := by
    have hp : es.flatMap (encodeEdit crc) = ((linesOf es).take k).flatMap (Ln.bytes crc) ++ l1.text crc
        ++ 10 :: (l2.text crc ++ 10 :: ((linesOf es).drop (k + 2)).flatMap (Ln.bytes crc)) := by
      rw [stream_eq, lines_split crc (linesOf es) k 2, htwo]
      simp [Ln.bytes]
    rw [hd, hp, over_newline]
    simp
  have hnl : ∀ b ∈ l1.text crc ++ [x] ++ l2.text crc, b ≠ 10 := by
    intro b hb
    simp only [List.mem_append, List.mem_singleton] at hb
    rcases hb with (hb | rfl) | hb
    · exact text_noNl crc l1 (hlok l1 (List.mem_of_getElem? h1)) b hb
    · exact hx
    · exact text_noNl crc l2 (hlok l2 (List.mem_of_getElem? h2)) b hb
  have hsep : stripCr (l1.text crc ++ [x] ++ l2.text crc) ≠ SEP := by
    intro h
    have hl := stripCr_length_ge (l1.text crc ++ [x] ++ l2.text crc)
    rw [h] at hl
    have := text_length_ge crc l1
    have := text_length_ge crc l2
    simp only [List.length_append, List.length_cons, List.length_nil, SEP] at hl
    omega
  obtain ⟨c, hc1, hc2, hc3, hc4⟩ := manifest_lines_damage_detected crc hcrc es hok k 2 _ hnl hnc hsep d himg
  have hclt : c < es.length := by
    rcases Nat.lt_or_ge c es.length with h | h
    · exact h
    · rw [List.take_of_length_le h] at hc2; omega
  exact ⟨c, hclt, hc2, hc3 hclt, hc4⟩

/-- **D**, the last newline of the file (the one after the last separator) overwritten: the file
    ends in the unterminated line `--------x`, nine bytes that are not the separator: `corruption`
    (or `io-error`), with no hypothesis about the checksum.  The last transaction is not delivered. -/
theorem final_newline_damage_detected (hcrc : CrcOk crc) (es1 : List Edit) (e : Edit)
    (hok1 : ∀ x ∈ es1, x.Ok ∧ x.Canon) (hoke : e.Ok) (x : Nat) (hx : x ≠ 10) (d : List Nat)
    (hd : d = apply ((es1 ++ [e]).flatMap (encodeEdit crc))
            (.over (((es1 ++ [e]).flatMap (encodeEdit crc)).length - 1) x)) :
    ∃ err, err.isErr = true ∧ items crc d = es1.map .edit ++ [err]
      ∧ editsBeforeError (items crc d) = (es1, some err) ∧ openState crc d = .error err := by
  have hj : (Mani.items e).length < (editLines e).length := by simp [editLines]
  have ht : (editLines e).take (Mani.items e).length = (Mani.items e).map Ln.it := by
    unfold editLines
    rw [List.take_append_of_le_length (by simp), List.take_of_length_le (by simp)]
  have himg : d = (linesOf es1 ++ (editLines e).take (Mani.items e).length).flatMap (Ln.bytes crc) ++ (SEP ++ [x]) := by
    have hnil : (linesOf ([] : List Edit)).flatMap (Ln.bytes crc) = [] := rfl
    rw [hd, pristine_split_sep crc es1 e [], ht, hnil, List.append_nil, over_last, List.append_assoc]
  have hsepx : SEP ++ [x] ≠ SEP := by
    intro h; have := congrArg List.length h; simp [SEP] at this
  refine damaged_edit_last_line crc hcrc es1 e hok1 hoke _ hj (SEP ++ [x]) (by simp) ?_
    (parseLine_short crc _ (by simp [SEP]) hsepx) d himg
  intro b hb
  simp only [List.mem_append, List.mem_singleton] at hb
  rcases hb with hb | rfl
  · simp [SEP] at hb; omega
  · exact hx

/-! ### a manifest cut at any byte -/

/-- whole written lines, then a last line without a newline -/
theorem items_lines_unterm (hcrc : CrcOk crc) (pre : List Ln) (hok : ∀ l ∈ pre, l.Ok) (raw : List Nat)
    (hne : raw ≠ []) (hnl : ∀ b ∈ raw, b ≠ 10) :
    items crc (pre.flatMap (Ln.bytes crc) ++ raw)
      = (runLinesSet pre Edit.empty).1.map .edit ++ onLine crc raw false (runLinesSet pre Edit.empty).2 (fun _ => []) := by
  unfold items
  have hle := lines_length_le crc pre
  obtain ⟨f, hf⟩ : ∃ f, (pre.flatMap (Ln.bytes crc) ++ raw).length + 2 = (f + 1) + pre.length :=
    ⟨(pre.flatMap (Ln.bytes crc) ++ raw).length + 2 - (pre.length + 1), by
      simp only [List.length_append]; omega⟩
  rw [hf, iterate_lines crc hcrc pre (f + 1) _ Edit.empty hok, iterate_unterm crc f raw _ hne hnl]

theorem seen_ok (d : List Nat) (del : List Edit) (h : items crc d = del.map .edit) :
    editsBeforeError (items crc d) = (del, none) ∧ openState crc d = .ok (del.foldl applyEdit ⟨[], []⟩) := by
  have h1 : editsBeforeError (items crc d) = (del, none) := by
    have := editsBeforeError_edits del []
    rw [List.append_nil] at this
    rw [h, this]; simp [editsBeforeError]
  refine ⟨h1, ?_⟩
  unfold openState
  rw [h1]

/-- **E** (`torn_manifest_lines`) a written MANIFEST cut at any byte, read by the faithful reader:
    the items are `es.take c` for some `c` — whole edits only, in order, none invented — followed,
    if the cut tore a line, by one `corruption` error, which is the last item.  The torn line has no
    newline, so no carriage return is stripped from it and `partial_corrupt` applies as it stands.
    As in `torn_manifest`, the hypothesis is that no proper prefix of a written line's body has the
    body's checksum. -/
theorem torn_manifest_lines (hcrc : CrcOk crc) (es : List Edit) (hok : ∀ e ∈ es, e.Ok ∧ e.Canon)
    (hnc : ∀ l ∈ linesOf es, l.NoCollision crc) (m : Nat) :
    ∃ c, c ≤ es.length
      ∧ (editsBeforeError (items crc ((es.flatMap (encodeEdit crc)).take m))).1 = es.take c
      ∧ ((items crc ((es.flatMap (encodeEdit crc)).take m) = (es.take c).map .edit
            ∧ openState crc ((es.flatMap (encodeEdit crc)).take m) = .ok ((es.take c).foldl applyEdit ⟨[], []⟩))
          ∨ (items crc ((es.flatMap (encodeEdit crc)).take m) = (es.take c).map .edit ++ [.corrupt]
            ∧ openState crc ((es.flatMap (encodeEdit crc)).take m) = .error .corrupt)) := by
  have hlok := lines_ok es (fun e he => (hok e he).1)
  have hcan : ∀ e ∈ es, e.Canon := fun e he => (hok e he).2
  -- the two ways it can end
  have good : ∀ (t : List Nat) (c : Nat), c ≤ es.length → items crc t = (es.take c).map .edit →
      ∃ c, c ≤ es.length ∧ (editsBeforeError (items crc t)).1 = es.take c
        ∧ ((items crc t = (es.take c).map .edit ∧ openState crc t = .ok ((es.take c).foldl applyEdit ⟨[], []⟩))
          ∨ (items crc t = (es.take c).map .edit ++ [.corrupt] ∧ openState crc t = .error .corrupt)) := by
    intro t c hc h
    obtain ⟨h1, h2⟩ := seen_ok crc t _ h
    exact ⟨c, hc, by rw [h1], Or.inl ⟨h, h2⟩⟩
  have bad : ∀ (t : List Nat) (c : Nat), c ≤ es.length → items crc t = (es.take c).map .edit ++ [.corrupt] →
      ∃ c, c ≤ es.length ∧ (editsBeforeError (items crc t)).1 = es.take c
        ∧ ((items crc t = (es.take c).map .edit ∧ openState crc t = .ok ((es.take c).foldl applyEdit ⟨[], []⟩))
          ∨ (items crc t = (es.take c).map .edit ++ [.corrupt] ∧ openState crc t = .error .corrupt)) := by
    intro t c hc h
    obtain ⟨h1, h2⟩ := seen_of_items crc t _ .corrupt [] rfl h
    exact ⟨c, hc, by rw [h1], Or.inr ⟨h, h2⟩⟩
  rw [stream_eq]
  rcases take_lines crc (linesOf es) m with hw | ⟨k, l, j, hk, hj, he⟩
  · -- nothing cut off
    rw [hw]
    refine good _ es.length (Nat.le_refl _) ?_
    rw [items_lines crc hcrc _ hlok, runLinesSet_linesOf es hcan, List.take_length]
  · rw [he]
    have hpre : ∀ x ∈ (linesOf es).take k, x.Ok := fun x hx => hlok x (List.mem_of_mem_take hx)
    have hl : l ∈ linesOf es := List.mem_of_getElem? hk
    obtain ⟨c, hc1, _, _, hc4⟩ := runLinesSet_prefix es k hcan
    rcases Nat.eq_zero_or_pos j with hj0 | hjpos
    · -- cut exactly at a line boundary
      subst hj0
      rw [List.take_zero, List.append_nil]
      refine good _ c hc1 ?_
      rw [items_lines crc hcrc _ hpre, hc4]
    · have hjt : j ≤ (l.text crc).length := by
        unfold Ln.bytes at hj; simp at hj; omega
      have htk : (l.bytes crc).take j = (l.text crc).take j := by
        unfold Ln.bytes; rw [List.take_append_of_le_length hjt]
      have hnl : ∀ b ∈ (l.text crc).take j, b ≠ 10 :=
        fun b hb => text_noNl crc l (hlok l hl) b (List.mem_of_mem_take hb)
      have hne : (l.text crc).take j ≠ [] := by
        intro h
        have := congrArg List.length h
        rw [List.length_take, Nat.min_eq_left hjt] at this
        simp at this; omega
      rw [htk]
      have hit := items_lines_unterm crc hcrc _ hpre _ hne hnl
      rw [hc4] at hit
      by_cases hfull : j = (l.text crc).length
      · -- the whole line but for its newline
        rw [hfull, List.take_length] at hit ⊢
        cases l with
        | it i =>
          rw [onLine_item crc hcrc i (hlok _ hl), List.append_nil] at hit
          exact good _ c hc1 hit
        | sep =>
          obtain ⟨c', hc1', _, _, hc4'⟩ := runLinesSet_prefix es (k + 1) hcan
          have htk1 : (linesOf es).take (k + 1) = (linesOf es).take k ++ [.sep] := by
            rw [List.take_add_one, hk]; rfl
          rw [htk1, runLinesSet_append] at hc4'
          simp only [runLinesSet] at hc4'
          rw [hc4] at hc4'
          rw [onLine_sep] at hit
          refine good _ c' hc1' ?_
          rw [hit, ← hc4']
          simp
      · -- a torn line
        have hcor := partial_corrupt crc hcrc l (hlok l hl) (hnc l hl) j (by omega)
        have hasc : ∀ b ∈ (l.text crc).take j, b < 128 :=
          fun b hb => text_ascii crc l (hlok l hl) b (List.mem_of_mem_take hb)
        have hon : onLine crc ((l.text crc).take j) false (runLinesSet ((linesOf es).take k) Edit.empty).2
            (fun _ => []) = [.corrupt] := by
          rw [onLine_damaged crc _ false _ _ hcor, valid_ascii _ hasc]
          simp only [lineOf, Bool.false_eq_true, if_false, any_ge_false _ hasc, Bool.not_true]
        rw [hon] at hit
        exact bad _ c hc1 hit

/-! ### the hypotheses can be met; where the two readers differ -/

/-- the toy checksum of the examples: always zero, so the digits are `00000000` -/
def crc0 : List Nat → Nat := fun _ => 0

/-- `LineCrcDetects` is a computation: the written line `<crc>+a` with its payload changed to `b`,
    under the real CRC-32C -/
example : LineCrcDetects Blue.Crc32c.crc32c (hex8 (Blue.Crc32c.crc32c [43, 97]) ++ [43, 98]) := by
  decide +kernel

/-- and it is a real hypothesis: under the toy checksum every body has the checksum `00000000` -/
example : ¬ LineCrcDetects crc0 ([48, 48, 48, 48, 48, 48, 48, 48] ++ [43, 98]) := by decide

/-- the hypotheses of `manifest_damage_detected_or_prefix` can be met together: two transactions
    `+a` and `+b`, the first line of the second one replaced by `00000001+b` -/
example : ∃ err, editsBeforeError (items crc0
      ([48, 48, 48, 48, 48, 48, 48, 48, 43, 97, 10, 45, 45, 45, 45, 45, 45, 45, 45, 10,
        48, 48, 48, 48, 48, 48, 48, 49, 43, 98, 10, 45, 45, 45, 45, 45, 45, 45, 45, 10]))
    = ([⟨[], [[97]], []⟩], some err) := by
  have hok : ∀ (e : Edit), e = ⟨[], [[97]], []⟩ ∨ e = ⟨[], [[98]], []⟩ → e.Ok := by
    intro e he
    rcases he with rfl | rfl <;>
      exact ⟨(fun _ h => nomatch h), (fun s h => by simp at h; subst h; exact ⟨by simp, by simp, by simp⟩),
        (fun _ h => nomatch h)⟩
  obtain ⟨err, _, _, h, _⟩ := manifest_damage_detected_or_prefix crc0 (fun _ => by unfold crc0; omega)
    [⟨[], [[97]], []⟩] ⟨[], [[98]], []⟩ []
    (fun x hx => by simp at hx; subst hx; exact ⟨hok _ (Or.inl rfl), by decide⟩) (hok _ (Or.inr rfl))
    0 (by decide) [48, 48, 48, 48, 48, 48, 48, 49, 43, 98] (by decide) (by decide) (by decide) _ rfl
  exact ⟨err, h⟩

/-- **where `iterate` and `readEdits` differ**: a file that ends in `--------\r` without a newline.
    `BufRead::lines` leaves that carriage return in place, so the code sees a line of nine bytes:
    `corruption`.  The older `readEdits` strips it and delivers the transaction. -/
theorem unterminated_cr_differs :
    readEdits crc0 10 [48, 48, 48, 48, 48, 48, 48, 48, 43, 97, 10, 45, 45, 45, 45, 45, 45, 45, 45, 13] Edit.empty
      = ([⟨[], [[97]], []⟩], false)
    ∧ items crc0 [48, 48, 48, 48, 48, 48, 48, 48, 43, 97, 10, 45, 45, 45, 45, 45, 45, 45, 45, 13] = [.corrupt] := by
  constructor <;> decide

/-! ### an instance under the real checksum -/

/-- three transactions: two additions and an info; a removal and an addition; an addition and an info -/
def es3 : List Edit :=
  [⟨[], [[97, 98, 99], [100, 101]], [(105, [120, 121])]⟩,
   ⟨[[97, 98, 99]], [[102, 103, 104, 105]], []⟩,
   ⟨[], [[122]], [(106, [49])]⟩]

instance (s : List Nat) : Decidable (StrOk s) := by unfold StrOk; exact inferInstance
instance (e : Edit) : Decidable e.Ok := by unfold Edit.Ok; exact inferInstance

theorem es3_ok : ∀ e ∈ es3, e.Ok ∧ e.Canon := by decide

/-- `Ln.NoCollision` as a computation -/
def noCollisionB (l : Ln) : Bool :=
  match l with
  | .it i => (List.range i.body.length).all (fun q => decide (q < 2) || decide (crc (i.body.take q) ≠ crc i.body))
  | .sep => true

theorem noCollision_of_check (l : Ln) (h : noCollisionB crc l = true) : l.NoCollision crc := by
  cases l with
  | sep => trivial
  | it i =>
    intro q hq2 hql
    simp only [noCollisionB, List.all_eq_true, List.mem_range, Bool.or_eq_true, decide_eq_true_eq] at h
    rcases h q hql with h | h
    · omega
    · exact h

/-- no proper prefix of a body in `es3` has the body's CRC-32C -/
theorem es3_noCollision : ∀ l ∈ linesOf es3, l.NoCollision Blue.Crc32c.crc32c := by
  have h : ∀ l ∈ linesOf es3, noCollisionB Blue.Crc32c.crc32c l = true := by decide +kernel
  exact fun l hl => noCollision_of_check _ l (h l hl)

/-- **E**, instantiated: the MANIFEST of `es3` under CRC-32C, cut at any byte `m`, reads as a prefix
    of the three transactions, followed by one `corruption` error if a line was torn — with no
    hypothesis left -/
theorem torn_three_edits (m : Nat) :
    ∃ c, c ≤ 3
      ∧ (editsBeforeError (items Blue.Crc32c.crc32c ((es3.flatMap (encodeEdit Blue.Crc32c.crc32c)).take m))).1
          = es3.take c
      ∧ ((items Blue.Crc32c.crc32c ((es3.flatMap (encodeEdit Blue.Crc32c.crc32c)).take m) = (es3.take c).map .edit
            ∧ openState Blue.Crc32c.crc32c ((es3.flatMap (encodeEdit Blue.Crc32c.crc32c)).take m)
                = .ok ((es3.take c).foldl applyEdit ⟨[], []⟩))
          ∨ (items Blue.Crc32c.crc32c ((es3.flatMap (encodeEdit Blue.Crc32c.crc32c)).take m)
                = (es3.take c).map .edit ++ [.corrupt]
            ∧ openState Blue.Crc32c.crc32c ((es3.flatMap (encodeEdit Blue.Crc32c.crc32c)).take m)
                = .error .corrupt)) :=
  torn_manifest_lines Blue.Crc32c.crc32c crcOk_crc32c es3 es3_ok es3_noCollision m

/-! ### the reader as found: the non-ASCII check did not poison -/

/-- `onLine` for the reader as found: after the non-ASCII error it goes on with an empty edit -/
def onLineAsFound (raw : List Nat) (term : Bool) (cur : Edit) (next : Edit → List Item) : List Item :=
  if !Blue.Utf8.valid raw then [.ioError]
  else if (lineOf raw term).any (fun b => b ≥ 128) then .notAscii :: next Edit.empty
  else
    match parseLine crc (lineOf raw term) with
    | .corrupt => [.corrupt]
    | .sep => .edit cur :: next Edit.empty
    | .rm s => if s.getLast? = some 13 then [.disallowed] else next { cur with rm := insertStr s cur.rm }
    | .add s => if s.getLast? = some 13 then [.disallowed] else next { cur with add := insertStr s cur.add }
    | .info k s => if s.getLast? = some 13 then [.disallowed] else next { cur with info := setInfo k s cur.info }

theorem iterateAsFound_unfold (f : Nat) (bs : List Nat) (cur : Edit) (hne : bs ≠ []) :
    iterateAsFound crc (f + 1) bs cur =
      onLineAsFound crc (splitLine bs).1 (splitLine bs).2.isSome cur
        (iterateAsFound crc f ((splitLine bs).2.getD [])) := by
  cases bs with
  | nil => exact absurd rfl hne
  | cons b t =>
    simp only [iterateAsFound, onLineAsFound]
    cases splitLine (b :: t) with
    | mk line rest => rfl

/-- on a line without a non-ASCII byte the two readers take the same step -/
theorem onLineAsFound_ascii (raw : List Nat) (term : Bool) (cur : Edit) (next : Edit → List Item)
    (h : (lineOf raw term).any (fun b => b ≥ 128) = false) :
    onLineAsFound crc raw term cur next = onLine crc raw term cur next := by
  unfold onLineAsFound onLine
  rw [h]
  rfl

/-- the two readers agree up to and including the first error -/
theorem editsBeforeError_iterate_asFound : ∀ (f : Nat) (bs : List Nat) (cur : Edit),
    editsBeforeError (iterate crc f bs cur) = editsBeforeError (iterateAsFound crc f bs cur)
  | 0, _, _ => rfl
  | _ + 1, [], _ => rfl
  | f + 1, b :: t, cur => by
    rw [iterate_unfold crc f _ cur (by simp), iterateAsFound_unfold crc f _ cur (by simp)]
    have ih := editsBeforeError_iterate_asFound f ((splitLine (b :: t)).2.getD [])
    unfold onLine onLineAsFound
    by_cases hv : (!Blue.Utf8.valid (splitLine (b :: t)).1) = true
    · rw [if_pos hv, if_pos hv]
    · rw [if_neg hv, if_neg hv]
      by_cases ha : ((lineOf (splitLine (b :: t)).1 (splitLine (b :: t)).2.isSome).any fun b => decide (b ≥ 128)) = true
      · rw [if_pos ha, if_pos ha]; rfl
      · rw [if_neg ha, if_neg ha]
        cases parseLine crc (lineOf (splitLine (b :: t)).1 (splitLine (b :: t)).2.isSome) with
        | corrupt => rfl
        | sep => simp only [editsBeforeError, ih]
        | rm s =>
          simp only
          split
          · rfl
          · exact ih _
        | add s =>
          simp only
          split
          · rfl
          · exact ih _
        | info k s =>
          simp only
          split
          · rfl
          · exact ih _

/-- **the finding was invisible to every caller that stops at the first error** (`Manifest::open`,
    the verifier): up to and including the first error the reader as found and the repaired reader
    return the same items, on every input -/
theorem editsBeforeError_asFound (bs : List Nat) :
    editsBeforeError (items crc bs) = editsBeforeError (itemsAsFound crc bs) :=
  editsBeforeError_iterate_asFound crc _ bs Edit.empty

theorem splitLine_mem : ∀ (bs : List Nat),
    (∀ b ∈ (splitLine bs).1, b ∈ bs) ∧ (∀ b ∈ (splitLine bs).2.getD [], b ∈ bs)
  | [] => ⟨fun _ h => h, fun _ h => h⟩
  | x :: t => by
    obtain ⟨ih1, ih2⟩ := splitLine_mem t
    by_cases hx : x = 10
    · subst hx
      exact ⟨fun _ h => (nomatch h), fun b hb => List.mem_cons_of_mem _ hb⟩
    · have : splitLine (x :: t) = (x :: (splitLine t).1, (splitLine t).2) :=
        splitLine.eq_3 x t (fun h => hx h)
      rw [this]
      refine ⟨fun b hb => ?_, fun b hb => List.mem_cons_of_mem _ (ih2 b hb)⟩
      rcases List.mem_cons.mp hb with rfl | hb
      · exact List.mem_cons_self
      · exact List.mem_cons_of_mem _ (ih1 b hb)

theorem lineOf_mem (raw : List Nat) (term : Bool) : ∀ b ∈ lineOf raw term, b ∈ raw := by
  intro b hb
  unfold lineOf stripCr at hb
  split at hb
  · split at hb
    · rw [List.dropLast_eq_take] at hb; exact List.mem_of_mem_take hb
    · exact hb
  · exact hb

theorem iterate_eq_asFound_of_ascii : ∀ (f : Nat) (bs : List Nat) (cur : Edit), (∀ b ∈ bs, b < 128) →
    iterate crc f bs cur = iterateAsFound crc f bs cur
  | 0, _, _, _ => rfl
  | _ + 1, [], _, _ => rfl
  | f + 1, x :: t, cur, h => by
    obtain ⟨m1, m2⟩ := splitLine_mem (x :: t)
    rw [iterate_unfold crc f _ cur (by simp), iterateAsFound_unfold crc f _ cur (by simp)]
    rw [onLineAsFound_ascii crc _ _ _ _
      (any_ge_false _ (fun b hb => h b (m1 b (lineOf_mem _ _ b hb))))]
    congr 1
    funext c
    exact iterate_eq_asFound_of_ascii f _ c (fun b hb => h b (m2 b hb))

/-- on a file without a non-ASCII byte the reader as found and the repaired reader are the same -/
theorem items_eq_asFound_of_ascii (bs : List Nat) (h : ∀ b ∈ bs, b < 128) :
    items crc bs = itemsAsFound crc bs :=
  iterate_eq_asFound_of_ascii crc _ bs Edit.empty h

/-- `00000000+a`, a line `é` (well-formed UTF-8, not ASCII), `00000000+b`, `--------` -/
def nonAsciiManifest : List Nat :=
  [48, 48, 48, 48, 48, 48, 48, 48, 43, 97, 10,
   0xC3, 0xA9, 10,
   48, 48, 48, 48, 48, 48, 48, 48, 43, 98, 10,
   45, 45, 45, 45, 45, 45, 45, 45, 10]

/-- **F** (`non_ascii_line_not_poisoned`) the reader as found: after the error for a non-ASCII line
    the iterator went on, with an empty edit, so a caller that did not stop at the first error was
    handed a transaction that lacks `a`.  `openState` and every caller in the code stopped at the
    error (`editsBeforeError_asFound`), which is why nothing came of it. -/
theorem non_ascii_line_not_poisoned :
    itemsAsFound crc0 nonAsciiManifest = [.notAscii, .edit ⟨[], [[98]], []⟩] := by
  decide

/-- **F**, repaired (/repo commit ef4f524): the non-ASCII error is the last item -/
theorem non_ascii_line_poisons :
    items crc0 nonAsciiManifest = [.notAscii] ∧ openState crc0 nonAsciiManifest = .error .notAscii := by
  constructor
  · decide
  · rfl

end Blue.Damage

#print axioms Blue.Damage.iterate_lines
#print axioms Blue.Damage.items_roundtrip
#print axioms Blue.Mani.Built.canon
#print axioms Blue.Damage.parseLine_corrupt_of_detects
#print axioms Blue.Damage.manifest_damage_detected_or_prefix
#print axioms Blue.Damage.manifest_damage_detected_last_line
#print axioms Blue.Damage.separator_damage_detected
#print axioms Blue.Damage.sep_is_exact
#print axioms Blue.Damage.manifest_lines_damage_detected
#print axioms Blue.Damage.newline_damage_detected
#print axioms Blue.Damage.final_newline_damage_detected
#print axioms Blue.Damage.torn_manifest_lines
#print axioms Blue.Damage.torn_three_edits
#print axioms Blue.Damage.non_ascii_line_not_poisoned
#print axioms Blue.Damage.non_ascii_line_poisons
#print axioms Blue.Damage.editsBeforeError_asFound
#print axioms Blue.Damage.items_eq_asFound_of_ascii
#print axioms Blue.Damage.unterminated_cr_differs
