import Blue.Proofs.SigmaDoc
/-! `retrieve` on code points: `Sigma::sa_index_to_t` along the ψ walk reads the original text. -/
namespace Blue.Sigma
open Blue.BitVec Blue.Sampled Blue.Csa Blue.CsaDoc

theorem countP_lt_between (offs : List Nat) (hpw : offs.Pairwise (· < ·)) (j : Nat) (hj : j + 1 < offs.length)
    (x : Nat) (h1 : offs[j] < x) (h2 : x ≤ offs[j + 1]) : offs.countP (fun o => decide (o < x)) = j + 1 := by
  have up := countP_lt_mono offs x offs[j + 1] h2
  rw [countP_lt_getElem offs hpw (j + 1) hj] at up
  have lo := countP_lt_mono offs (offs[j] + 1) x (by omega)
  rw [countP_lt_succ, countP_lt_getElem offs hpw j (by omega)] at lo
  have hc : 0 < offs.count offs[j] := List.count_pos_iff.mpr (List.getElem_mem (by omega))
  omega

section
variable (text : List Nat) {l : List (List Nat)} (hperm : l.Perm (suffixes (translated text)))
  (hsorted : l.Pairwise (fun a b => lexLt a b = true))
include hperm hsorted

/-- **C19** `sa_index_to_t(idx)` is the original code point of the first symbol of the suffix at
    rank `idx` (for every rank but the end marker's) -/
theorem saIndexToT_head (idx j : Nat) (hidx : idx < l.length) (hj : j < (countsOf text).length)
    (hh : (str l idx).head? = some (j + 1)) :
    saIndexToT (sigOf text) idx = some (countsOf text)[j].1 := by
  have hrk := sigmaRange_ok _ (translated_marked text) hperm hsorted (j + 1) (by omega)
  have hkey := sigmaRange_key text hperm j hj
  rw [saRangeForSigma_sigOf text j hj] at hkey
  have hrange := Option.some.inj hkey
  have hb := (hrk.block idx hidx).mpr hh
  rw [hrange] at hb
  simp only at hb
  have hlen : l.length = text.length + 1 := by rw [length_eq _ hperm, translated_length]
  unfold saIndexToT
  rw [sigOf_columns, presentBits_length]
  rw [if_pos ⟨by omega, by omega⟩]
  rw [rank_some _ _ (by rw [presentBits_length]; omega)]
  rw [presentBits_rank _ _ (bucketsOf_pairwise text) idx (by omega)]
  rw [countP_lt_between (bucketsOf text) (bucketsOf_pairwise text) j (by rw [bucketsOf_length]; omega) idx
    (by omega) hb.2]
  simp only [Option.bind_some]
  unfold sigmaToChar
  rw [if_neg (by omega), Nat.add_sub_cancel]
  unfold sigOf
  simp only
  rw [List.getElem?_map, List.getElem?_eq_getElem hj]
  rfl

/-- the ψ walk with `sa_index_to_t` reads the original text -/
theorem walkT_spec : ∀ (k p idx : Nat), p + k ≤ text.length → idx < l.length →
    str l idx = (translated text).drop p → walkT (sigOf text) l k idx = some ((text.drop p).take k)
  | 0, _, _, _, _, _ => by simp [walkT]
  | k + 1, p, idx, hpk, hidx, hstr => by
    have hs := sorted_of_suffixes _ l hperm hsorted
    have hTl := translated_length text
    have hp : p < text.length := by omega
    have hdrop := drop_translated text p (by omega)
    have hlong : 2 ≤ (str l idx).length := by rw [hstr, List.length_drop]; omega
    have hmem := hs.tails (str l idx) (str_mem hidx) hlong
    have hnext : str l (psi l idx) = (translated text).drop (p + 1) := by
      unfold psi
      rw [str_idxOf hmem, hstr, List.tail_drop]
    have hnlt : psi l idx < l.length := by
      unfold psi
      exact List.idxOf_lt_length_iff.mpr hmem
    have ih := walkT_spec k (p + 1) (psi l idx) (by omega) hnlt hnext
    -- the first symbol
    have hmemt : text[p] ∈ text := List.getElem_mem hp
    obtain ⟨j, hj, hjt, hcs⟩ := charToSigma_of_mem text text[p] hmemt
    have hsym : needleSym (sigOf text) text[p] = j + 1 := by unfold needleSym; rw [hcs]; rfl
    have hh : (str l idx).head? = some (j + 1) := by
      rw [hstr, hdrop, List.drop_eq_getElem_cons hp, List.map_cons, List.cons_append, List.head?_cons, hsym]
    unfold walkT
    rw [saIndexToT_head text hperm hsorted idx j hidx hj hh, ih]
    simp only [Option.map_some]
    rw [List.drop_eq_getElem_cons hp, List.take_succ_cons, hjt]

end

/-- the facts about the boundary bit vector `retrieve` uses -/
theorem record_bounds (n : Nat) (rb : List Nat) (hadm : admissible n rb = true) (r : Nat) (hr : r < rb.length) :
    select (boundaryBits n rb) r = some rb[r]
      ∧ (select (boundaryBits n rb) (r + 1)).getD (boundaryBits n rb).length = rb[r + 1]?.getD n
      ∧ rb[r] ≤ rb[r + 1]?.getD n ∧ rb[r + 1]?.getD n ≤ n := by
  have hadm' := hadm
  simp only [admissible, Bool.and_eq_true, beq_iff_eq, decide_eq_true_eq] at hadm'
  obtain ⟨⟨⟨_, hinc⟩, h0⟩, hlast⟩ := hadm'
  have hlen : (boundaryBits n rb).length = n := by simp [boundaryBits]
  have hstart := offsetOf_spec n rb hadm r hr
  unfold offsetOf at hstart
  have hb : ∀ i (hi : i < rb.length), rb[i] < n := by
    intro i hi
    have := le_last_of_increasing rb hinc rb[i] (List.getElem_mem hi)
    omega
  have hpw := pairwise_of_increasing rb hinc
  refine ⟨hstart, ?_, ?_, ?_⟩
  · by_cases h1 : r + 1 < rb.length
    · have := offsetOf_spec n rb hadm (r + 1) h1
      unfold offsetOf at this
      rw [this, List.getElem?_eq_getElem h1]
      rfl
    · have hnone : select (boundaryBits n rb) (r + 1) = none := by
        have := select_defined_iff (boundaryBits n rb) (r + 1)
        rw [count_boundaryBits _ rb hadm] at this
        cases hsel : select (boundaryBits n rb) (r + 1) with
        | none => rfl
        | some p =>
          rw [hsel] at this
          have := this.mp rfl
          omega
      rw [hnone, List.getElem?_eq_none (by omega), hlen]
  · by_cases h1 : r + 1 < rb.length
    · rw [List.getElem?_eq_getElem h1]
      simp only [Option.getD_some]
      have := List.pairwise_iff_getElem.mp hpw r (r + 1) hr h1 (by omega)
      omega
    · rw [List.getElem?_eq_none (by omega)]
      simp only [Option.getD_none]
      have := hb r hr
      omega
  · by_cases h1 : r + 1 < rb.length
    · rw [List.getElem?_eq_getElem h1]; simp only [Option.getD_some]; have := hb (r + 1) h1; omega
    · rw [List.getElem?_eq_none (by omega)]; simp only [Option.getD_none]; omega

/-- **C19** `retrieve(r)` on code points — two `select`s on the boundary vector, the sampled inverse
    suffix array at the record start, then `sa_index_to_t` and ψ once per symbol — returns record
    `r` of the original text, code point for code point -/
theorem retrieve_codepoints (text : List Nat) {l : List (List Nat)} (hperm : l.Perm (suffixes (translated text)))
    (hsorted : l.Pairwise (fun a b => lexLt a b = true)) (rb : List Nat)
    (hadm : admissible text.length rb = true) (r : Nat) (hr : r < rb.length) :
    ∃ si, sisaConstruct l rb = some si
      ∧ retrieveT (sigOf text) l si (boundaryBits text.length rb) r
          = some ((text.drop rb[r]).take (rb[r + 1]?.getD text.length - rb[r])) := by
  have hlen : l.length = text.length + 1 := by rw [length_eq _ hperm, translated_length]
  have hadm' := hadm
  simp only [admissible, Bool.and_eq_true, beq_iff_eq, decide_eq_true_eq] at hadm'
  obtain ⟨⟨⟨hne, hinc⟩, _⟩, hlast⟩ := hadm'
  have hrbne : rb ≠ [] := by intro h; rw [h] at hne; simp at hne
  have hb : ∀ b ∈ rb, b < l.length := by
    intro b hb
    have := le_last_of_increasing rb hinc b hb
    omega
  obtain ⟨si, hic, hil⟩ := sisaLookup_exact l rb hrbne (pairwise_of_increasing rb hinc) hb
  refine ⟨si, hic, ?_⟩
  obtain ⟨hstart, hlim, hmono, hle⟩ := record_bounds text.length rb hadm r hr
  unfold retrieveT
  rw [hstart]
  simp only
  rw [hlim, if_neg (by omega), hil rb[r], if_pos (List.getElem_mem hr)]
  simp only
  have hrbr : rb[r] < (translated text).length := by
    rw [translated_length]; have := hb rb[r] (List.getElem_mem hr); omega
  obtain ⟨h1, h2⟩ := str_isa (translated text) hperm rb[r] hrbr
  exact walkT_spec text hperm hsorted _ rb[r] (isa l rb[r]) (by omega) h1 h2

end Blue.Sigma

#print axioms Blue.Sigma.construct_eq
#print axioms Blue.Sigma.sigmaToChar_sorted
#print axioms Blue.Sigma.charToSigma_iff
#print axioms Blue.Sigma.charToSigma_mono
#print axioms Blue.Sigma.rangeForT_eq
#print axioms Blue.Sigma.count_codepoints
#print axioms Blue.Sigma.search_codepoints
#print axioms Blue.Sigma.retrieve_codepoints
