import Blue.Model.Sigma
import Blue.Proofs.Sampled
import Blue.Proofs.BitVec
import Blue.Proofs.BitVecLaws
/-! `Sigma` as the code has it: `construct` never hits the out-of-bounds panic; `sigma_to_char` is
    the strictly increasing list of the code points that occur; `char_to_sigma` is its inverse
    (dense ranks `1..=k`, order preserving, `None` off the alphabet); the bucket bit vector answers
    `sa_range_for_sigma` with the cumulative counts. -/
namespace Blue.Sigma
open Blue.BitVec Blue.Sampled

/-! ### counting -/

theorem le_nextPow2 (m : Nat) : m ≤ nextPow2 m := by
  unfold nextPow2
  by_cases h : m ≤ 1
  · rw [if_pos h]; exact h
  · rw [if_neg h]
    have := @Nat.lt_log2_self (m - 1)
    omega

/-- the counting loop never indexes past the dense table -/
theorem countStep_some (st : Counts) (t : Nat) :
    ∃ len, countStep (some st) t = some ⟨len, bump t st.counts⟩ := by
  unfold countStep
  simp only
  by_cases ht : t ≤ denseLimit
  · rw [if_pos ht]
    by_cases hl : t ≥ st.denseLen
    · simp only [hl, if_true]
      have := le_nextPow2 (t + 1)
      rw [if_pos (by omega)]
      exact ⟨_, rfl⟩
    · simp only [hl, if_false]
      rw [if_pos (by omega)]
      exact ⟨_, rfl⟩
  · rw [if_neg ht]; exact ⟨_, rfl⟩

def countsFrom (cs : List (Nat × Nat)) (text : List Nat) : List (Nat × Nat) :=
  text.foldl (fun cs t => bump t cs) cs

theorem fold_countStep : ∀ (text : List Nat) (st : Counts),
    ∃ len, text.foldl countStep (some st) = some ⟨len, countsFrom st.counts text⟩
  | [], st => ⟨st.denseLen, rfl⟩
  | t :: r, st => by
    obtain ⟨len, h⟩ := countStep_some st t
    rw [List.foldl_cons, h]
    obtain ⟨len', h'⟩ := fold_countStep r ⟨len, bump t st.counts⟩
    exact ⟨len', by rw [h']; rfl⟩

/-- the weighted count of the entries whose code point satisfies `p` -/
def wsum (p : Nat → Bool) (cs : List (Nat × Nat)) : Nat := (cs.map (fun ac => if p ac.1 then ac.2 else 0)).sum

theorem wsum_cons (p : Nat → Bool) (a c : Nat) (r : List (Nat × Nat)) :
    wsum p ((a, c) :: r) = (if p a then c else 0) + wsum p r := by
  simp [wsum]

theorem wsum_bump (p : Nat → Bool) (t : Nat) : ∀ (cs : List (Nat × Nat)),
    wsum p (bump t cs) = wsum p cs + (if p t then 1 else 0)
  | [] => by simp [bump, wsum]
  | (a, c) :: r => by
    unfold bump
    by_cases h1 : t < a
    · rw [if_pos h1, wsum_cons, wsum_cons]; omega
    · rw [if_neg h1]
      by_cases h2 : t = a
      · subst h2
        rw [if_pos rfl, wsum_cons, wsum_cons]
        cases p t <;> simp <;> omega
      · rw [if_neg h2, wsum_cons, wsum_cons, wsum_bump p t r]; omega

theorem wsum_countsFrom (p : Nat → Bool) : ∀ (text : List Nat) (cs : List (Nat × Nat)),
    wsum p (countsFrom cs text) = wsum p cs + text.countP p
  | [], cs => by simp [countsFrom]
  | t :: r, cs => by
    unfold countsFrom
    rw [List.foldl_cons]
    have := wsum_countsFrom p r (bump t cs)
    unfold countsFrom at this
    rw [this, wsum_bump, List.countP_cons]
    cases p t <;> simp <;> omega

/-- a count table: code points strictly increasing, every count positive -/
structure Table (cs : List (Nat × Nat)) : Prop where
  keys : (cs.map (·.1)).Pairwise (· < ·)
  pos : ∀ ac ∈ cs, 0 < ac.2

theorem mem_keys_bump (t k : Nat) : ∀ (cs : List (Nat × Nat)),
    k ∈ (bump t cs).map (·.1) ↔ (k = t ∨ k ∈ cs.map (·.1))
  | [] => by simp [bump]
  | (a, c) :: r => by
    unfold bump
    by_cases h1 : t < a
    · rw [if_pos h1]; simp
    · rw [if_neg h1]
      by_cases h2 : t = a
      · subst h2; rw [if_pos rfl]; simp
      · rw [if_neg h2, List.map_cons, List.mem_cons, mem_keys_bump t k r]
        simp only [List.map_cons, List.mem_cons]
        constructor
        · rintro (h | h | h)
          · exact Or.inr (Or.inl h)
          · exact Or.inl h
          · exact Or.inr (Or.inr h)
        · rintro (h | h | h)
          · exact Or.inr (Or.inl h)
          · exact Or.inl h
          · exact Or.inr (Or.inr h)

theorem table_bump (t : Nat) : ∀ (cs : List (Nat × Nat)), Table cs → Table (bump t cs)
  | [], _ => ⟨by simp [bump], by simp [bump]⟩
  | (a, c) :: r, h => by
    have hk := h.keys
    rw [List.map_cons, List.pairwise_cons] at hk
    have hr : Table r := ⟨hk.2, fun ac hac => h.pos ac (List.mem_cons_of_mem _ hac)⟩
    unfold bump
    by_cases h1 : t < a
    · rw [if_pos h1]
      refine ⟨?_, ?_⟩
      · rw [List.map_cons, List.pairwise_cons]
        refine ⟨?_, h.keys⟩
        intro k hk'
        rw [List.map_cons, List.mem_cons] at hk'
        rcases hk' with rfl | hk'
        · exact h1
        · have := hk.1 k hk'; simp at this ⊢; omega
      · intro ac hac
        rcases List.mem_cons.mp hac with rfl | hac
        · exact Nat.one_pos
        · exact h.pos ac hac
    · rw [if_neg h1]
      by_cases h2 : t = a
      · subst h2
        rw [if_pos rfl]
        refine ⟨h.keys, ?_⟩
        intro ac hac
        rcases List.mem_cons.mp hac with rfl | hac
        · exact Nat.succ_pos _
        · exact h.pos ac (List.mem_cons_of_mem _ hac)
      · rw [if_neg h2]
        have ih := table_bump t r hr
        refine ⟨?_, ?_⟩
        · rw [List.map_cons, List.pairwise_cons]
          refine ⟨?_, ih.keys⟩
          intro k hk'
          rcases (mem_keys_bump t k r).mp hk' with rfl | hk'
          · simp; omega
          · exact hk.1 k hk'
        · intro ac hac
          rcases List.mem_cons.mp hac with rfl | hac
          · exact h.pos _ List.mem_cons_self
          · exact ih.pos ac hac

theorem table_countsFrom : ∀ (text : List Nat) (cs : List (Nat × Nat)), Table cs → Table (countsFrom cs text)
  | [], _, h => h
  | t :: r, cs, h => by
    unfold countsFrom
    rw [List.foldl_cons]
    exact table_countsFrom r (bump t cs) (table_bump t cs h)

theorem mem_keys_countsFrom (k : Nat) : ∀ (text : List Nat) (cs : List (Nat × Nat)),
    k ∈ (countsFrom cs text).map (·.1) ↔ (k ∈ text ∨ k ∈ cs.map (·.1))
  | [], cs => by simp [countsFrom]
  | t :: r, cs => by
    unfold countsFrom
    rw [List.foldl_cons]
    have := mem_keys_countsFrom k r (bump t cs)
    unfold countsFrom at this
    rw [this, mem_keys_bump, List.mem_cons]
    constructor
    · rintro (h | h | h)
      · exact Or.inl (Or.inr h)
      · exact Or.inl (Or.inl h)
      · exact Or.inr h
    · rintro ((h | h) | h)
      · exact Or.inr (Or.inl h)
      · exact Or.inl h
      · exact Or.inr (Or.inr h)

/-! ### what `construct` returns -/

/-- the count table of a text -/
def countsOf (text : List Nat) : List (Nat × Nat) := countsFrom [] text

theorem table_countsOf (text : List Nat) : Table (countsOf text) :=
  table_countsFrom text [] ⟨by simp, by simp⟩

/-- **C19** `Sigma::construct` does not panic, and returns the sorted code points with the bucket
    bit vector of their cumulative counts -/
theorem construct_eq (text : List Nat) :
    construct text = some ⟨(countsOf text).map (·.1),
      presentBits ((bucketsFrom 0 ((countsOf text).map (·.2))).getLastD 0 + 1)
        (bucketsFrom 0 ((countsOf text).map (·.2)))⟩ := by
  unfold construct
  obtain ⟨len, h⟩ := fold_countStep text ⟨denseInit, []⟩
  rw [h]
  rfl

/-- **C19** `sigma_to_char` is strictly increasing and lists exactly the code points of the text -/
theorem sigmaToChar_sorted (text : List Nat) (s : Sig) (h : construct text = some s) :
    s.sigmaToChar.Pairwise (· < ·) ∧ ∀ t, t ∈ s.sigmaToChar ↔ t ∈ text := by
  rw [construct_eq] at h
  have := Option.some.inj h
  subst this
  refine ⟨(table_countsOf text).keys, ?_⟩
  intro t
  have := mem_keys_countsFrom t text []
  simpa [countsOf] using this

/-! ### `char_to_sigma` / `sigma_to_char` -/

theorem idxOf_getElem_of_pairwise : ∀ (ks : List Nat), ks.Pairwise (· < ·) → ∀ (i : Nat) (hi : i < ks.length),
    ks.idxOf ks[i] = i
  | [], _, i, hi => by simp at hi
  | a :: r, _, 0, _ => by simp
  | a :: r, h, i + 1, hi => by
    rw [List.pairwise_cons] at h
    have hi' : i < r.length := by simpa using hi
    simp only [List.getElem_cons_succ]
    have hlt : a < r[i] := h.1 _ (List.getElem_mem hi')
    rw [List.idxOf_cons]
    have : (a == r[i]) = false := by simp; omega
    rw [this]
    simp only [cond_false]
    rw [idxOf_getElem_of_pairwise r h.2 i hi']

/-- **C19** round trip: `char_to_sigma(t) = Some(σ)` exactly when `σ` is the 1-based position of `t`
    in `sigma_to_char` — so `sigma_to_char(char_to_sigma(t)) = t` on the alphabet,
    `char_to_sigma(sigma_to_char(σ)) = σ` for `1 ≤ σ ≤ k`, and `None` off the alphabet -/
theorem charToSigma_iff (s : Sig) (hs : s.sigmaToChar.Pairwise (· < ·)) (t σ : Nat) :
    charToSigma s t = some σ ↔ (1 ≤ σ ∧ sigmaToChar s σ = some t) := by
  unfold charToSigma sigmaToChar
  simp only
  constructor
  · intro h
    by_cases hlt : s.sigmaToChar.idxOf t < s.sigmaToChar.length
    · rw [if_pos hlt] at h
      have := Option.some.inj h
      subst this
      refine ⟨by omega, ?_⟩
      rw [if_neg (by omega), Nat.add_sub_cancel, List.getElem?_eq_getElem hlt, List.getElem_idxOf hlt]
    · rw [if_neg hlt] at h; cases h
  · rintro ⟨h1, h2⟩
    rw [if_neg (by omega)] at h2
    have hlt : σ - 1 < s.sigmaToChar.length := by
      rcases Nat.lt_or_ge (σ - 1) s.sigmaToChar.length with h | h
      · exact h
      · rw [List.getElem?_eq_none h] at h2; cases h2
    rw [List.getElem?_eq_getElem hlt] at h2
    have ht : s.sigmaToChar[σ - 1] = t := Option.some.inj h2
    have hidx := idxOf_getElem_of_pairwise s.sigmaToChar hs (σ - 1) hlt
    rw [ht] at hidx
    rw [hidx, if_pos hlt]
    congr 1
    omega

theorem charToSigma_none_iff (s : Sig) (t : Nat) : charToSigma s t = none ↔ t ∉ s.sigmaToChar := by
  unfold charToSigma
  simp only
  rw [← List.idxOf_lt_length_iff]
  by_cases h : s.sigmaToChar.idxOf t < s.sigmaToChar.length
  · rw [if_pos h]; simp [h]
  · rw [if_neg h]; simp [h]

theorem charToSigma_range (s : Sig) (t σ : Nat) (h : charToSigma s t = some σ) : 1 ≤ σ ∧ σ < K s := by
  unfold charToSigma at h
  simp only at h
  by_cases hlt : s.sigmaToChar.idxOf t < s.sigmaToChar.length
  · rw [if_pos hlt] at h
    have := Option.some.inj h
    unfold K
    omega
  · rw [if_neg hlt] at h; cases h

/-- **C19** the dense symbols keep the order of the code points -/
theorem charToSigma_mono (s : Sig) (hs : s.sigmaToChar.Pairwise (· < ·)) (t₁ t₂ σ₁ σ₂ : Nat)
    (h₁ : charToSigma s t₁ = some σ₁) (h₂ : charToSigma s t₂ = some σ₂) : t₁ < t₂ ↔ σ₁ < σ₂ := by
  obtain ⟨a1, b1⟩ := (charToSigma_iff s hs t₁ σ₁).mp h₁
  obtain ⟨a2, b2⟩ := (charToSigma_iff s hs t₂ σ₂).mp h₂
  unfold sigmaToChar at b1 b2
  rw [if_neg (by omega)] at b1 b2
  have l1 : σ₁ - 1 < s.sigmaToChar.length := by
    rcases Nat.lt_or_ge (σ₁ - 1) s.sigmaToChar.length with h | h
    · exact h
    · rw [List.getElem?_eq_none h] at b1; cases b1
  have l2 : σ₂ - 1 < s.sigmaToChar.length := by
    rcases Nat.lt_or_ge (σ₂ - 1) s.sigmaToChar.length with h | h
    · exact h
    · rw [List.getElem?_eq_none h] at b2; cases b2
  rw [List.getElem?_eq_getElem l1] at b1
  rw [List.getElem?_eq_getElem l2] at b2
  have e1 : s.sigmaToChar[σ₁ - 1] = t₁ := Option.some.inj b1
  have e2 : s.sigmaToChar[σ₂ - 1] = t₂ := Option.some.inj b2
  have hpw := List.pairwise_iff_getElem.mp hs
  constructor
  · intro hlt
    rcases Nat.lt_trichotomy (σ₁ - 1) (σ₂ - 1) with h | h | h
    · omega
    · exfalso
      have : s.sigmaToChar[σ₁ - 1] = s.sigmaToChar[σ₂ - 1] := by congr 1
      omega
    · exfalso
      have := hpw _ _ l2 l1 h
      omega
  · intro hlt
    have := hpw (σ₁ - 1) (σ₂ - 1) l1 l2 (by omega)
    omega

end Blue.Sigma
