import Blue.Proofs.SkipMLSteps
/-! The steps of an insert after its search: allocation, store, CAS, re-advance. -/
namespace Blue.SkipML
open Blue.SkipList (Node keyOf nextOf setNextAt SChain)

theorem mem_insObls {nd k idx h : Nat} {prev : List Nat} {obs : List (Option Nat)} {o : Obl}
    (ho : o ∈ insObls nd k idx h prev obs) :
    o = .node nd k h ∨ o = .below nd idx ∨ o = .above nd idx ∨ o = .prevs k idx h prev ∨ o = .obss k idx h obs ∨
      (idx = 0 ∧ o = .fresh k) := by
  simp only [insObls, List.mem_append, List.mem_cons, List.mem_nil_iff, or_false] at ho
  rcases ho with (h1 | h1 | h1 | h1 | h1) | h1
  · exact Or.inl h1
  · exact Or.inr (Or.inl h1)
  · exact Or.inr (Or.inr (Or.inl h1))
  · exact Or.inr (Or.inr (Or.inr (Or.inl h1)))
  · exact Or.inr (Or.inr (Or.inr (Or.inr (Or.inl h1))))
  · split at h1
    · rename_i h0
      simp only [List.mem_cons, List.mem_nil_iff, or_false] at h1
      exact Or.inr (Or.inr (Or.inr (Or.inr (Or.inr ⟨h0, h1⟩))))
    · cases h1

/-- the obligations an inserting thread carries from `set_next` on, unpacked -/
structure InsFacts (s : St) (ids : Nat → List Nat) (nd k idx h : Nat) (prev : List Nat) (obs : List (Option Nat)) : Prop where
  node : 0 < nd ∧ nd < s.heap.length ∧ height s.heap nd = h ∧ mkey s.heap nd = k
  below : ∀ j, j < idx → nd ∈ ids j
  above : ∀ j, idx ≤ j → nd ∉ ids j
  prevs : ∀ j, idx ≤ j → j < h → StandOk s.heap ids k j (prev.getD j 0)
  obss : ∀ j, idx ≤ j → j < h → ∀ n, obs.getD j none = some n → n < s.heap.length ∧ k < mkey s.heap n
  fresh : idx = 0 → k ∉ s.inserted

theorem insFacts_of {s : St} {ids} {nd k idx h : Nat} {prev : List Nat} {obs : List (Option Nat)}
    (hall : ∀ o ∈ insObls nd k idx h prev obs, Holds s.heap s.inserted ids o) :
    InsFacts s ids nd k idx h prev obs := by
  refine ⟨hall (.node nd k h) (by simp [insObls]), hall (.below nd idx) (by simp [insObls]),
    hall (.above nd idx) (by simp [insObls]), hall (.prevs k idx h prev) (by simp [insObls]),
    hall (.obss k idx h obs) (by simp [insObls]), ?_⟩
  intro h0
  exact hall (.fresh k) (by simp [insObls, h0])

theorem holds_insObls {s : St} {ids} {nd k idx h : Nat} {prev : List Nat} {obs : List (Option Nat)}
    (f : InsFacts s ids nd k idx h prev obs) : ∀ o ∈ insObls nd k idx h prev obs, Holds s.heap s.inserted ids o := by
  intro o ho
  rcases mem_insObls ho with rfl | rfl | rfl | rfl | rfl | ⟨h0, rfl⟩
  · exact f.node
  · exact f.below
  · exact f.above
  · exact f.prevs
  · exact f.obss
  · exact f.fresh h0

/-! ### the `'advancing` loop -/

theorem inv_step_adv {s : St} {ids} (h : MInv s ids) (i nd k idx hh : Nat) (prev : List Nat) (obs : List (Option Nat))
    (hpc : (th s i).pc = .adv nd k idx hh prev obs) : MInv (step s i) ids := by
  have hi : i < s.ths.length := th_lt_of_pc (by rw [hpc]; simp)
  have hP := h.pure i
  rw [hpc] at hP
  obtain ⟨hidx, hhH, hpl, hol⟩ := hP
  have f : InsFacts s ids nd k idx hh prev obs := insFacts_of (fun o ho => own_obl h i hpc o (by simpa [obls] using ho))
  have hidxH : idx < s.H := by omega
  have hstand := f.prevs idx (Nat.le_refl _) hidx
  have hp : prev.getD idx 0 = 0 ∨ prev.getD idx 0 ∈ ids idx := by
    rcases hstand with h1 | h1
    · exact Or.inl h1
    · exact Or.inr h1.1
  have hnext : ∀ n, mnext s.heap idx (prev.getD idx 0) = some n → n ∈ ids idx :=
    fun n hn => minv_next h idx _ n hidxH hp hn
  have hkeyk : ∀ k', pcKey (th s i).pc = some k' ↔ k' = k := by
    intro k'; rw [hpc]; simp [pcKey, eq_comm]
  have hnodek : ∀ n', pcNode (th s i).pc = some n' ↔ n' = nd := by
    intro n'; rw [hpc]; simp [pcNode, eq_comm]
  -- a loaded node that is not before the key is after it: its key differs from ours
  have hobsn : ∀ n, mnext s.heap idx (prev.getD idx 0) = some n → ¬ mkey s.heap n < k → n < s.heap.length ∧ k < mkey s.heap n := by
    intro n hn hnlt
    have hnids := hnext n hn
    have hne : mkey s.heap n ≠ k := by
      intro e
      by_cases h0 : idx = 0
      · exact f.fresh h0 (e ▸ minv_key_linked h idx n hnids)
      · have hnd0 : nd ∈ ids 0 := f.below 0 (by omega)
        have hn0 : n ∈ ids 0 := minv_sub0 h idx n hnids
        have := minv_key_inj h n nd hn0 hnd0 (by rw [e, f.node.2.2.2])
        exact f.above idx (Nat.le_refl _) (this ▸ hnids)
    exact ⟨minv_ids_lt h idx n hnids, by omega⟩
  have hstop : ∀ next, mnext s.heap idx (prev.getD idx 0) = next → (∀ n, next = some n → ¬ mkey s.heap n < k) →
      MInv (setPc s i (.setNext nd k idx hh prev (obs.set idx next))) ids := by
    intro next hnx hst
    apply minv_setPc h i _ hi
    · exact ⟨hidx, hhH, hpl, by simp [hol]⟩
    · apply holds_insObls
      refine ⟨f.node, f.below, f.above, f.prevs, ?_, f.fresh⟩
      intro j h1 h2 n hn
      by_cases hj : j = idx
      · subst hj
        rw [getD_set_same obs j next none (by omega)] at hn
        exact hobsn n (by rw [hnx, hn]) (hst n hn)
      · rw [getD_set_ne obs idx j next none hj] at hn
        exact f.obss j h1 h2 n hn
    · intro k' hk'; simp only [pcKey, Option.some.injEq] at hk'; exact Or.inl ((hkeyk k').mpr hk'.symm)
    · intro n' hn'; simp only [pcNode, Option.some.injEq] at hn'; exact (hnodek n').mpr hn'.symm
  unfold step
  simp only [hpc]
  cases hnx : mnext s.heap idx (prev.getD idx 0) with
  | none => exact hstop none hnx (fun n hn => by cases hn)
  | some n =>
    by_cases hlt : mkey s.heap n < k
    · simp only [after, hlt, decide_true]
      apply minv_setPc h i _ hi
      · exact ⟨hidx, hhH, by simp [hpl], hol⟩
      · apply holds_insObls
        refine ⟨f.node, f.below, f.above, ?_, f.obss, f.fresh⟩
        intro j h1 h2
        by_cases hj : j = idx
        · subst hj
          rw [getD_set_same prev j n 0 (by omega)]
          exact Or.inr ⟨hnext n hnx, hlt⟩
        · rw [getD_set_ne prev idx j n 0 hj]
          exact f.prevs j h1 h2
      · intro k' hk'; simp only [pcKey, Option.some.injEq] at hk'; exact Or.inl ((hkeyk k').mpr hk'.symm)
      · intro n' hn'; simp only [pcNode, Option.some.injEq] at hn'; exact (hnodek n').mpr hn'.symm
    · simp only [after, hlt, decide_false]
      exact hstop (some n) hnx (fun n' hn' => by cases hn'; exact hlt)

/-! ### allocation -/

theorem inv_step_alloc {s : St} {ids} (h : MInv s ids) (i k hh : Nat) (prev : List Nat) (obs : List (Option Nat))
    (hpc : (th s i).pc = .alloc k hh prev obs) : MInv (step s i) ids := by
  have hi : i < s.ths.length := th_lt_of_pc (by rw [hpc]; simp)
  have hP := h.pure i
  rw [hpc] at hP
  obtain ⟨hh0, hhH, hpl, hol⟩ := hP
  have hprevs := own_obl h i hpc (.prevs k 0 s.H prev) (by simp [obls])
  have hobss := own_obl h i hpc (.obss k 0 s.H obs) (by simp [obls])
  have hfresh := own_obl h i hpc (.fresh k) (by simp [obls])
  have hlt := minv_ids_lt h
  have hpos := minv_heap_pos h
  let x : MNode := ⟨k, List.replicate hh none⟩
  have hstep : step s i = setPc { s with heap := s.heap ++ [x] } i (.setNext s.heap.length k 0 hh prev obs) := by
    unfold step; simp only [hpc]; rfl
  rw [hstep]
  apply minv_assemble (s' := setPc { s with heap := s.heap ++ [x] } i (.setNext s.heap.length k 0 hh prev obs)) h i
    { th s i with pc := .setNext s.heap.length k 0 hh prev obs } hi rfl rfl
  · obtain ⟨h0, hh0', hl⟩ := h.head
    exact ⟨h0, by show (s.heap ++ [x])[0]? = some h0; rw [List.getElem?_append_left hpos]; exact hh0', hl⟩
  · intro l hl
    show SChain (proj l (s.heap ++ [x])) none (mnext (s.heap ++ [x]) l 0) (ids l)
    rw [proj_append, mnext_append s.heap x l 0 hpos]
    apply Blue.SkipList.schain_frame (h.chains l hl)
    intro y hy
    exact List.getElem?_append_left (by rw [proj_length]; exact hlt l y hy)
  · exact h.empty
  · exact h.noHead
  · exact h.sub
  · intro l n hn
    show l < height (s.heap ++ [x]) n
    rw [height_append s.heap x n (hlt l n hn)]
    exact h.tall l n hn
  · intro k'
    show k' ∈ s.inserted ↔ ∃ n ∈ ids 0, mkey (s.heap ++ [x]) n = k'
    rw [h.keys k']
    constructor
    · intro ⟨n, hn, hk⟩; exact ⟨n, hn, by rw [mkey_append s.heap x n (hlt 0 n hn)]; exact hk⟩
    · intro ⟨n, hn, hk⟩; exact ⟨n, hn, by rw [mkey_append s.heap x n (hlt 0 n hn)] at hk; exact hk⟩
  · exact ⟨hh0, hhH, hpl, hol⟩
  · intro o ho
    show Holds (s.heap ++ [x]) s.inserted ids o
    simp only [thObls, obls, List.mem_append] at ho
    rcases ho with ho | ho
    · revert o
      apply holds_insObls (s := { s with heap := s.heap ++ [x] })
      refine ⟨⟨hpos, by simp, ?_, ?_⟩, fun j hj => by omega, ?_, ?_, ?_, fun _ => hfresh⟩
      · simp [height, x]
      · simp [mkey, x]
      · intro j _ hm
        have := hlt j _ hm
        omega
      · intro j h1 h2
        exact holds_append (ins := s.inserted) hlt x (.stand k j (prev.getD j 0)) (hprevs j h1 (by omega))
      · intro j h1 h2
        exact holds_append (ins := s.inserted) hlt x (.obss k 0 s.H obs) hobss j h1 (by omega)
    · exact holds_append hlt x o (h.threads i o (List.mem_append_right _ ho))
  · intro j _ o ho
    exact holds_append hlt x o (h.threads j o ho)
  · intro k' hk'
    simp only [pcKey, Option.some.injEq] at hk'
    exact Or.inl (by rw [hpc]; simp [pcKey, hk'])
  · intro n hn
    simp only [pcNode, Option.some.injEq] at hn
    right
    intro j _ hj
    have := (minv_pcNode h j n hj).2
    omega

/-! ### the store of the new node's successor -/

theorem inv_step_setNext {s : St} {ids} (h : MInv s ids) (i nd k idx hh : Nat) (prev : List Nat) (obs : List (Option Nat))
    (hpc : (th s i).pc = .setNext nd k idx hh prev obs) : MInv (step s i) ids := by
  have hi : i < s.ths.length := th_lt_of_pc (by rw [hpc]; simp)
  have hP := h.pure i
  rw [hpc] at hP
  obtain ⟨hidx, hhH, hpl, hol⟩ := hP
  have f : InsFacts s ids nd k idx hh prev obs := insFacts_of (fun o ho => own_obl h i hpc o (by simpa [obls] using ho))
  obtain ⟨hnd0, hndlt, hndh, hndk⟩ := f.node
  have hndidx : nd ∉ ids idx := f.above idx (Nat.le_refl _)
  let v := obs.getD idx none
  have hstep : step s i = setPc { s with heap := msetNext s.heap idx nd v } i (.cas nd k idx hh prev obs) := by
    unfold step; simp only [hpc]; rfl
  rw [hstep]
  have hstore : ∀ j o, o ∈ thObls s.H (th s j) → (j = i ∨ pcNode (th s j).pc ≠ some nd) →
      (∀ l nd' v', o = .nextIs l nd' v' → j ≠ i) →
      Holds (msetNext s.heap idx nd v) s.inserted ids o := by
    intro j o ho hj hnx
    apply holds_store idx nd v o _ (h.threads j o ho)
    intro l nd' v' ho' ⟨_, h2⟩
    subst ho'
    have := (minv_nextIs h j l nd' v' ho).1
    rcases hj with hj | hj
    · exact hnx l nd' v' rfl hj
    · exact hj (h2 ▸ this)
  apply minv_assemble (s' := setPc { s with heap := msetNext s.heap idx nd v } i (.cas nd k idx hh prev obs)) h i
    { th s i with pc := .cas nd k idx hh prev obs } hi rfl rfl
  · obtain ⟨h0, hh0', hl⟩ := h.head
    exact ⟨h0, by show (msetNext s.heap idx nd v)[0]? = some h0; rw [get_msetNext_ne s.heap idx nd 0 v (by omega)]; exact hh0', hl⟩
  · intro l hl
    show SChain (proj l (msetNext s.heap idx nd v)) none (mnext (msetNext s.heap idx nd v) l 0) (ids l)
    rw [mnext_msetNext_ne s.heap idx nd v l 0 (fun e => by omega)]
    by_cases hli : l = idx
    · subst hli
      rw [proj_msetNext_same s.heap l nd v (by omega)]
      apply Blue.SkipList.schain_frame (h.chains l hl)
      intro y hy
      exact Blue.SkipList.get_setNextAt_ne (proj l s.heap) nd y v (fun e => hndidx (e ▸ hy))
    · rw [proj_msetNext_other s.heap idx nd l v hli]
      exact h.chains l hl
  · exact h.empty
  · exact h.noHead
  · exact h.sub
  · intro l n hn
    show l < height (msetNext s.heap idx nd v) n
    rw [height_msetNext]
    exact h.tall l n hn
  · intro k'
    show k' ∈ s.inserted ↔ ∃ n ∈ ids 0, mkey (msetNext s.heap idx nd v) n = k'
    simp only [mkey_msetNext]
    exact h.keys k'
  · exact ⟨hidx, hhH, hpl, hol⟩
  · intro o ho
    show Holds (msetNext s.heap idx nd v) s.inserted ids o
    simp only [thObls, obls, List.mem_append, List.mem_cons] at ho
    rcases ho with (ho | ho) | ho
    · subst ho
      exact ⟨by rw [length_msetNext]; exact hndlt, mnext_msetNext_self s.heap idx nd v (by omega)⟩
    · have hmem : o ∈ thObls s.H (th s i) := mem_thObls_pc (by rw [hpc]; simpa [obls] using ho)
      apply hstore i o hmem (Or.inl rfl)
      intro l nd' v' ho'
      subst ho'
      rcases mem_insObls ho with h1 | h1 | h1 | h1 | h1 | ⟨_, h1⟩ <;> cases h1
    · have hmem : o ∈ thObls s.H (th s i) := List.mem_append_right _ ho
      apply hstore i o hmem (Or.inl rfl)
      intro l nd' v' ho'
      subst ho'
      exact absurd ho not_nextIs_posObls
  · intro j hj o ho
    apply hstore j o ho (Or.inr _) (fun _ _ _ _ => hj)
    exact h.distinctNodes i j (fun e => hj e.symm) nd (by rw [hpc]; rfl)
  · intro k' hk'
    simp only [pcKey, Option.some.injEq] at hk'
    exact Or.inl (by rw [hpc]; simp [pcKey, hk'])
  · intro n hn
    simp only [pcNode, Option.some.injEq] at hn
    exact Or.inl (by rw [hpc]; simp [pcNode, hn])

end Blue.SkipML
