import Blue.Model.Heap
namespace Blue.Heap

variable {α : Type}

@[simp] theorem swap_length (l : List α) (i j : Nat) : (swap l i j).length = l.length := by
  unfold swap; split <;> simp

theorem getElem?_swap (l : List α) (i j k : Nat) (hi : i < l.length) (hj : j < l.length) :
    (swap l i j)[k]? = if k = j then l[i]? else if k = i then l[j]? else l[k]? := by
  unfold swap
  have h1 : l[i]? = some l[i] := by simp [hi]
  have h2 : l[j]? = some l[j] := by simp [hj]
  rw [h1, h2]
  simp only [List.getElem?_set]
  by_cases hkj : k = j
  · subst hkj; simp [hj]
  · by_cases hki : k = i
    · subst hki
      have : ¬ j = k := fun h => hkj h.symm
      simp [this, hkj, hi]
    · have a : ¬ j = k := fun h => hkj h.symm
      have b : ¬ i = k := fun h => hki h.symm
      simp [a, b, hkj, hki]

structure StrictWeak (lt : α → α → Bool) : Prop where
  irrefl : ∀ a, lt a a = false
  asymm : ∀ a b, lt a b = true → lt b a = false
  ntrans : ∀ a b c, lt a b = false → lt b c = false → lt a c = false

theorem pickChild_none {lt : α → α → Bool} {l : List α} {i : Nat} (h : pickChild lt l i = none) :
    l.length ≤ 2*i+1 := by
  unfold pickChild at h
  split at h
  · rename_i hn; simpa [List.getElem?_eq_none_iff] using hn
  · cases h
  · split at h <;> cases h

theorem pickChild_some {lt : α → α → Bool} (sw : StrictWeak lt) {l : List α} {i c : Nat}
    (h : pickChild lt l i = some c) :
    (c = 2*i+1 ∨ c = 2*i+2) ∧ c < l.length ∧
    ∀ s xs xc, (s = 2*i+1 ∨ s = 2*i+2) → l[s]? = some xs → l[c]? = some xc → lt xs xc = false := by
  unfold pickChild at h
  split at h
  · cases h
  · rename_i xl hl hr
    cases h
    have hlen : 2*i+1 < l.length := by
      rcases List.getElem?_eq_some_iff.mp hl with ⟨h, _⟩; exact h
    refine ⟨Or.inl rfl, hlen, ?_⟩
    intro s xs xc hs hxs hxc
    rcases hs with rfl | rfl
    · rw [hxs] at hxc; cases hxc; exact sw.irrefl _
    · rw [hr] at hxs; cases hxs
  · rename_i xl xr hl hr
    have hlenl : 2*i+1 < l.length := by
      rcases List.getElem?_eq_some_iff.mp hl with ⟨h, _⟩; exact h
    have hlenr : 2*i+2 < l.length := by
      rcases List.getElem?_eq_some_iff.mp hr with ⟨h, _⟩; exact h
    split at h
    · rename_i hlt
      cases h
      refine ⟨Or.inl rfl, hlenl, ?_⟩
      intro s xs xc hs hxs hxc
      rw [hl] at hxc; cases hxc
      rcases hs with rfl | rfl
      · rw [hl] at hxs; cases hxs; exact sw.irrefl _
      · rw [hr] at hxs; cases hxs; exact sw.asymm _ _ hlt
    · rename_i hlt
      cases h
      refine ⟨Or.inr rfl, hlenr, ?_⟩
      intro s xs xc hs hxs hxc
      rw [hr] at hxc; cases hxc
      rcases hs with rfl | rfl
      · rw [hl] at hxs; cases hxs; simpa using hlt
      · rw [hr] at hxs; cases hxs; exact sw.irrefl _

/-- heap property at parent `j`: no child is strictly less than the parent -/
def okAt (lt : α → α → Bool) (l : List α) (j : Nat) : Prop :=
  ∀ c xj xc, (c = 2 * j + 1 ∨ c = 2 * j + 2) → l[j]? = some xj → l[c]? = some xc → lt xc xj = false

theorem okAt_of_leaf (lt : α → α → Bool) (l : List α) (j : Nat) (h : l.length ≤ 2*j+1) : okAt lt l j := by
  intro c xj xc hc _ hxc
  have : l.length ≤ c := by omega
  simp [List.getElem?_eq_none this] at hxc

theorem percolateDown_spec (lt : α → α → Bool) (sw : StrictWeak lt) :
    ∀ (fuel : Nat) (l : List α) (i : Nat),
      l.length ≤ i + fuel →
      (∀ j, i < j → okAt lt l j) →
      (∀ j, i ≤ j → okAt lt (percolateDown lt l i fuel) j)
      ∧ (∀ k, k ≠ i → k < 2 * i + 1 → (percolateDown lt l i fuel)[k]? = l[k]?)
      ∧ ((percolateDown lt l i fuel)[i]? = l[i]? ∨ (percolateDown lt l i fuel)[i]? = l[2*i+1]?
          ∨ (percolateDown lt l i fuel)[i]? = l[2*i+2]?)
      ∧ (percolateDown lt l i fuel).length = l.length := by
  intro fuel
  induction fuel with
  | zero =>
    intro l i hlen h
    have e : percolateDown lt l i 0 = l := rfl
    rw [e]
    refine ⟨?_, fun _ _ _ => rfl, Or.inl rfl, rfl⟩
    intro j hj
    exact okAt_of_leaf lt l j (by omega)
  | succ n ih =>
    intro l i hlen h
    unfold percolateDown
    split
    · -- leaf
      rename_i hnone
      have hl := pickChild_none hnone
      refine ⟨?_, fun _ _ _ => rfl, Or.inl rfl, rfl⟩
      intro j hj
      by_cases hji : j = i
      · subst hji; exact okAt_of_leaf lt l j hl
      · exact h j (by omega)
    · rename_i c hsome
      obtain ⟨hc, hclen, hless⟩ := pickChild_some sw hsome
      have hilen : i < l.length := by omega
      split
      · rename_i xi xc hxi hxc
        split
        · -- already in place
          rename_i hlt
          refine ⟨?_, fun _ _ _ => rfl, Or.inl rfl, rfl⟩
          intro j hj
          by_cases hji : j = i
          · subst hji
            intro s xj xs hs hxj hxs
            rw [hxi] at hxj; cases hxj
            -- xs ≥ xc > xi
            have h1 : lt xs xc = false := hless s xs xc hs hxs hxc
            have h2 := sw.asymm _ _ hlt
            exact sw.ntrans _ _ _ h1 h2
          · exact h j (by omega)
        · -- swap and recurse
          rename_i hnlt
          have hnlt' : lt xi xc = false := by simpa using hnlt
          have hci : i < c := by omega
          -- facts about the swapped list
          have hsw : ∀ k, (swap l i c)[k]? = if k = c then l[i]? else if k = i then l[c]? else l[k]? :=
            fun k => getElem?_swap l i c k hilen hclen
          have hrec := ih (swap l i c) c (by simp; omega) (by
            intro j hj s xj xs hs hxj hxs
            have hjc : j ≠ c := by omega
            have hji : j ≠ i := by omega
            have hsc : s ≠ c := by omega
            have hsi : s ≠ i := by omega
            rw [hsw j] at hxj; simp [hjc, hji] at hxj
            rw [hsw s] at hxs; simp [hsc, hsi] at hxs
            exact h j (by omega) s xj xs hs hxj hxs)
          obtain ⟨hok, hframe, htop, hlen'⟩ := hrec
          refine ⟨?_, ?_, ?_, by simpa using hlen'⟩
          · intro j hj
            by_cases hjc : c ≤ j
            · exact hok j hjc
            · by_cases hji : j = i
              · subst hji
                intro s xj xs hs hxj hxs
                -- parent value is xc
                have hpi : (percolateDown lt (swap l j c) c n)[j]? = some xc := by
                  rw [hframe j (by omega) (by omega), hsw j]; simp [show j ≠ c by omega, hxc]
                rw [hpi] at hxj; cases hxj
                by_cases hsc : s = c
                · subst hsc
                  -- value at c after recursion is xi or a former grandchild
                  rcases htop with ht | ht | ht
                  · rw [ht, hsw s] at hxs; simp [hxi] at hxs; subst hxs; exact hnlt'
                  · rw [ht, hsw (2*s+1)] at hxs
                    simp [show 2*s+1 ≠ s by omega, show 2*s+1 ≠ j by omega] at hxs
                    exact h s hci (2*s+1) _ xs (Or.inl rfl) hxc hxs
                  · rw [ht, hsw (2*s+2)] at hxs
                    simp [show 2*s+2 ≠ s by omega, show 2*s+2 ≠ j by omega] at hxs
                    exact h s hci (2*s+2) _ xs (Or.inr rfl) hxc hxs
                · -- sibling: unchanged
                  have hs' : (percolateDown lt (swap l j c) c n)[s]? = l[s]? := by
                    rw [hframe s hsc (by omega), hsw s]; simp [hsc, show s ≠ j by omega]
                  rw [hs'] at hxs
                  exact hless s xs _ hs hxs hxc
              · -- i < j < c : untouched
                have hij : i < j := by omega
                intro s xj xs hs hxj hxs
                have e1 : (percolateDown lt (swap l i c) c n)[j]? = l[j]? := by
                  rw [hframe j (by omega) (by omega), hsw j]; simp [show j ≠ c by omega, hji]
                have e2 : (percolateDown lt (swap l i c) c n)[s]? = l[s]? := by
                  rw [hframe s (by omega) (by omega), hsw s]; simp [show s ≠ c by omega, show s ≠ i by omega]
                rw [e1] at hxj; rw [e2] at hxs
                exact h j hij s xj xs hs hxj hxs
          · intro k hki hk
            rw [hframe k (by omega) (by omega), hsw k]
            simp [show k ≠ c by omega, hki]
          · have : (percolateDown lt (swap l i c) c n)[i]? = l[c]? := by
              rw [hframe i (by omega) (by omega), hsw i]; simp [show i ≠ c by omega]
            rcases hc with rfl | rfl
            · exact Or.inr (Or.inl this)
            · exact Or.inr (Or.inr this)
      · -- impossible: both i and c are in range
        rename_i hne
        exfalso
        have h1 : l[i]? = some l[i] := by simp [hilen]
        have h2 : l[c]? = some l[c] := by simp [hclen]
        exact hne _ _ h1 h2

end Blue.Heap

namespace Blue.Heap
variable {α : Type}

theorem heapifyFrom_spec (lt : α → α → Bool) (sw : StrictWeak lt) :
    ∀ (k : Nat) (l : List α), (∀ j, k ≤ j → okAt lt l j) →
      (∀ j, okAt lt (heapifyFrom lt l k) j) ∧ (heapifyFrom lt l k).length = l.length := by
  intro k
  induction k with
  | zero => intro l h; exact ⟨fun j => h j (Nat.zero_le _), rfl⟩
  | succ n ih =>
    intro l h
    unfold heapifyFrom
    have hp := percolateDown_spec lt sw l.length l n (by omega) (fun j hj => h j (by omega))
    obtain ⟨hok, _, _, hlen⟩ := hp
    have := ih (percolateDown lt l n l.length) hok
    exact ⟨this.1, by rw [this.2, hlen]⟩

theorem heapify_spec (lt : α → α → Bool) (sw : StrictWeak lt) (l : List α) :
    (∀ j, okAt lt (heapify lt l) j) ∧ (heapify lt l).length = l.length := by
  unfold heapify
  exact heapifyFrom_spec lt sw l.length l (fun j hj => okAt_of_leaf lt l j (by omega))

/-- In a heap, nothing is strictly less than the root. -/
theorem root_min (lt : α → α → Bool) (sw : StrictWeak lt) (l : List α) (h : ∀ j, okAt lt l j) :
    ∀ (k : Nat) (x r : α), l[0]? = some r → l[k]? = some x → lt x r = false := by
  intro k
  induction k using Nat.strongRecOn with
  | _ k ih =>
    intro x r hr hx
    by_cases hk : k = 0
    · subst hk; rw [hr] at hx; cases hx; exact sw.irrefl _
    · have hklen : k < l.length := by
        rcases List.getElem?_eq_some_iff.mp hx with ⟨h, _⟩; exact h
      have hp : (k - 1) / 2 < l.length := by omega
      have hpx : l[(k-1)/2]? = some l[(k-1)/2] := by simp [hp]
      have hc : k = 2 * ((k-1)/2) + 1 ∨ k = 2 * ((k-1)/2) + 2 := by omega
      have h1 := h ((k-1)/2) k _ x hc hpx hx
      have h2 := ih ((k-1)/2) (by omega) _ r hr hpx
      exact sw.ntrans _ _ _ h1 h2

end Blue.Heap

namespace Blue.Heap
variable {α : Type}

theorem swap_perm (l : List α) (i j : Nat) : (swap l i j).Perm l := by
  unfold swap
  split
  · rename_i x y hx hy
    obtain ⟨hi, rfl⟩ := List.getElem?_eq_some_iff.mp hx
    obtain ⟨hj, rfl⟩ := List.getElem?_eq_some_iff.mp hy
    exact List.set_set_perm hi hj
  · exact List.Perm.refl _

theorem percolateDown_perm (lt : α → α → Bool) :
    ∀ (fuel : Nat) (l : List α) (i : Nat), (percolateDown lt l i fuel).Perm l := by
  intro fuel
  induction fuel with
  | zero => intro l i; exact List.Perm.refl _
  | succ n ih =>
    intro l i
    unfold percolateDown
    split
    · exact List.Perm.refl _
    · split
      · split
        · exact List.Perm.refl _
        · exact (ih _ _).trans (swap_perm l i _)
      · exact List.Perm.refl _

theorem heapifyFrom_perm (lt : α → α → Bool) :
    ∀ (k : Nat) (l : List α), (heapifyFrom lt l k).Perm l := by
  intro k
  induction k with
  | zero => intro l; exact List.Perm.refl _
  | succ n ih =>
    intro l
    unfold heapifyFrom
    exact (ih _).trans (percolateDown_perm lt _ _ _)

theorem heapify_perm (lt : α → α → Bool) (l : List α) : (heapify lt l).Perm l :=
  heapifyFrom_perm lt _ _

/-- What the merging cursor needs after `heapify`: the head is a minimum. -/
theorem heapify_head_min (lt : α → α → Bool) (sw : StrictWeak lt) (l : List α) :
    ∀ r, (heapify lt l)[0]? = some r → ∀ x, x ∈ l → lt x r = false := by
  intro r hr x hx
  have hx' : x ∈ heapify lt l := (heapify_perm lt l).mem_iff.mpr hx
  obtain ⟨k, hk, rfl⟩ := List.getElem_of_mem hx'
  have := heapify_spec lt sw l
  exact root_min lt sw _ this.1 k _ r hr (by simp [hk])

/-- What the merging cursor needs after replacing the head and `percolate_down(0)`. -/
theorem percolate_head_min (lt : α → α → Bool) (sw : StrictWeak lt) (l : List α)
    (h : ∀ j, 0 < j → okAt lt l j) :
    ∀ r, (percolateDown lt l 0 l.length)[0]? = some r → ∀ x, x ∈ l → lt x r = false := by
  intro r hr x hx
  have hx' : x ∈ percolateDown lt l 0 l.length := (percolateDown_perm lt _ l 0).mem_iff.mpr hx
  obtain ⟨k, hk, rfl⟩ := List.getElem_of_mem hx'
  have hs := percolateDown_spec lt sw l.length l 0 (by omega) h
  exact root_min lt sw _ (fun j => hs.1 j (Nat.zero_le _)) k _ r hr (by simp [hk])

end Blue.Heap
