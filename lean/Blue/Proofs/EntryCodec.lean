import Blue.Model.EntryCodec
import Blue.Proofs.Wire
namespace Blue.EntryCodec
open Blue.Wire

/-- what the Rust types guarantee of an entry: `u64` fields, lengths that fit -/
def Put.Wf (p : Put) : Prop :=
  p.shared < U64 ∧ p.timestamp < U64 ∧ p.keyFrag.length < U64 ∧ p.value.length < U64
def Del.Wf (d : Del) : Prop :=
  d.shared < U64 ∧ d.timestamp < U64 ∧ d.keyFrag.length < U64

theorem fields_put (p : Put) (h : p.Wf) (k : Nat) :
    fields (k + 5) (encPut p) =
      ([(⟨1, .varint⟩, encVarint p.shared), (⟨2, .lengthDelimited⟩, encBytes p.keyFrag),
        (⟨3, .varint⟩, encVarint p.timestamp), (⟨4, .lengthDelimited⟩, encBytes p.value)], false) := by
  obtain ⟨h1, h2, h3, h4⟩ := h
  unfold encPut
  have s1 := fieldStep_varint 1 p.shared (by decide) h1
    (encTag ⟨2, .lengthDelimited⟩ ++ encBytes p.keyFrag ++ encTag ⟨3, .varint⟩ ++ encVarint p.timestamp ++
      encTag ⟨4, .lengthDelimited⟩ ++ encBytes p.value)
  have s2 := fieldStep_bytes 2 p.keyFrag (by decide) h3
    (encTag ⟨3, .varint⟩ ++ encVarint p.timestamp ++ encTag ⟨4, .lengthDelimited⟩ ++ encBytes p.value)
  have s3 := fieldStep_varint 3 p.timestamp (by decide) h2
    (encTag ⟨4, .lengthDelimited⟩ ++ encBytes p.value)
  have s4 := fieldStep_bytes 4 p.value (by decide) h4 []
  simp only [List.append_assoc, List.append_nil] at s1 s2 s3 s4 ⊢
  have ne : ∀ (t : Tag) (l : List Nat), encTag t ++ l ≠ [] := by
    intro t l hh
    exact encTag_ne_nil t (List.append_eq_nil_iff.mp hh).1
  rw [fields_cons (k + 4) _ _ _ (ne _ _) s1, fields_cons (k + 3) _ _ _ (ne _ _) s2,
    fields_cons (k + 2) _ _ _ (ne _ _) s3, fields_cons (k + 1) _ _ _ (ne _ _) s4]
  rfl

theorem encPut_length (p : Put) : 4 ≤ (encPut p).length := by
  unfold encPut encTag encBytes
  simp only [List.length_append]
  have := encVarint_length_pos
  have a := this (1 * 8 + WT.varint.bits)
  have b := this (2 * 8 + WT.lengthDelimited.bits)
  have c := this (3 * 8 + WT.varint.bits)
  have d := this (4 * 8 + WT.lengthDelimited.bits)
  omega

theorem decPut_enc (p : Put) (h : p.Wf) : decPut (encPut p) = some p := by
  unfold decPut
  have hl := encPut_length p
  obtain ⟨k, hk⟩ : ∃ k, (encPut p).length + 1 = k + 5 := ⟨(encPut p).length - 4, by omega⟩
  rw [hk, fields_put p h k]
  obtain ⟨h1, h2, h3, h4⟩ := h
  have d1 := decVarint_enc p.shared h1 []
  have d2 := decBytes_enc p.keyFrag h3 []
  have d3 := decVarint_enc p.timestamp h2 []
  have d4 := decBytes_enc p.value h4 []
  simp only [List.append_nil] at d1 d2 d3 d4
  simp [mergePut, d1, d2, d3, d4]

theorem fields_del (p : Del) (h : p.Wf) (k : Nat) :
    fields (k + 4) (encDel p) =
      ([(⟨5, .varint⟩, encVarint p.shared), (⟨6, .lengthDelimited⟩, encBytes p.keyFrag),
        (⟨7, .varint⟩, encVarint p.timestamp)], false) := by
  obtain ⟨h1, h2, h3⟩ := h
  unfold encDel
  have s1 := fieldStep_varint 5 p.shared (by decide) h1
    (encTag ⟨6, .lengthDelimited⟩ ++ encBytes p.keyFrag ++ encTag ⟨7, .varint⟩ ++ encVarint p.timestamp)
  have s2 := fieldStep_bytes 6 p.keyFrag (by decide) h3
    (encTag ⟨7, .varint⟩ ++ encVarint p.timestamp)
  have s3 := fieldStep_varint 7 p.timestamp (by decide) h2 []
  simp only [List.append_assoc, List.append_nil] at s1 s2 s3 ⊢
  have ne : ∀ (t : Tag) (l : List Nat), encTag t ++ l ≠ [] := by
    intro t l hh
    exact encTag_ne_nil t (List.append_eq_nil_iff.mp hh).1
  rw [fields_cons (k + 3) _ _ _ (ne _ _) s1, fields_cons (k + 2) _ _ _ (ne _ _) s2,
    fields_cons (k + 1) _ _ _ (ne _ _) s3]
  rfl

theorem encDel_length (p : Del) : 3 ≤ (encDel p).length := by
  unfold encDel encTag encBytes
  simp only [List.length_append]
  have := encVarint_length_pos
  have a := this (5 * 8 + WT.varint.bits)
  have b := this (6 * 8 + WT.lengthDelimited.bits)
  have c := this (7 * 8 + WT.varint.bits)
  omega

theorem decDel_enc (p : Del) (h : p.Wf) : decDel (encDel p) = some p := by
  unfold decDel
  have hl := encDel_length p
  obtain ⟨k, hk⟩ : ∃ k, (encDel p).length + 1 = k + 4 := ⟨(encDel p).length - 3, by omega⟩
  rw [hk, fields_del p h k]
  obtain ⟨h1, h2, h3⟩ := h
  have d1 := decVarint_enc p.shared h1 []
  have d2 := decBytes_enc p.keyFrag h3 []
  have d3 := decVarint_enc p.timestamp h2 []
  simp only [List.append_nil] at d1 d2 d3
  simp [mergeDel, d1, d2, d3]

def Entry.Wf : Entry → Prop
  | .put p => p.Wf ∧ (encPut p).length < U64
  | .del d => d.Wf ∧ (encDel d).length < U64

/-- **C10/C15** a block entry round-trips, and the unpacker hands back exactly the bytes that
    follow it -/
theorem decEntry_enc (e : Entry) (h : e.Wf) (rest : List Nat) :
    decEntry (encEntry e ++ rest) = some (e, rest) := by
  cases e with
  | put p =>
    obtain ⟨hw, hl⟩ := h
    unfold decEntry encEntry
    rw [List.append_assoc, decTag_enc ⟨8, .lengthDelimited⟩ (by decide)]
    simp only
    rw [decBytes_enc _ hl]
    simp [decPut_enc p hw]
  | del d =>
    obtain ⟨hw, hl⟩ := h
    unfold decEntry encEntry
    rw [List.append_assoc, decTag_enc ⟨9, .lengthDelimited⟩ (by decide)]
    simp only
    rw [decBytes_enc _ hl]
    simp [decDel_enc d hw]

end Blue.EntryCodec

#print axioms Blue.EntryCodec.decEntry_enc
