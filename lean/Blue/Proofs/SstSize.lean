import Blue.Proofs.SstHeadline
import Blue.Proofs.SstMeta
/-! The file-size bound (C10, item (c)): the length of a builder-written file is bounded by a
    constant below 2^63, derived from the builders' own checks (`check_table_size` at
    `TABLE_FULL_SIZE` inside every `BlockBuilder::put`, `check_key_len`, `check_value_len`), for
    every option value.  The bound is deliberately coarse (number of index entries < 2^32, each
    data block < 2^30 + 34 bytes): enough to discharge `hsize`, not the ~1 GiB that the real
    builder's `approximate_size` check enforces for the table as a whole. -/
namespace Blue.Sst
open Blue.Wire Blue.EntryCodec Blue.Block Blue.Cursor Blue.SstOpen

/-- a block whose buffer and restart array together stay below 1 GiB -/
def Small (b : Builder) : Prop := b.buffer.length + 4 * b.restarts.length < 1073741824

theorem add_small (o : Opts) (b : Builder) (e : KV) (hap : b.approxSize < TABLE_FULL_SIZE) (hts : e.ts < U64)
    (hk : e.key.length ≤ MAX_KEY_LEN) (hv : ∀ v, e.val = some v → v.length ≤ MAX_VALUE_LEN) :
    Small (b.add o e) := by
  have hA : b.buffer.length + 16 + 4 * b.restarts.length < 1006632960 := hap
  unfold Small Builder.add
  simp only
  by_cases hr : (decide (o.bytesRestartInterval ≤ b.bytesSinceRestart)
      || decide (o.pairsRestartInterval ≤ b.pairsSinceRestart)) = true
  · simp only [hr, if_true]
    have := encEntry_length_le 0 e (Nat.zero_le _) hts hk hv
    simp only [List.length_append, List.length_cons, List.length_nil]
    omega
  · simp only [hr]
    have := encEntry_length_le (sharedLen b.lastKey e.key) e (sharedLen_le_right _ _) hts hk hv
    simp only [List.length_append, Bool.false_eq_true, if_false]
    omega

theorem cput_small {o : Opts} {c c' : CBuilder} {e : KV} (h : c.put o e = .ok c') (hts : e.ts < U64) :
    Small c'.b := by
  obtain ⟨rfl, hc⟩ := cput_ok h
  obtain ⟨h1, h2, h3, _⟩ := (putCheck_none_iff _ _ _ _).mp hc
  exact add_small o c.b e h3 hts h1 h2

theorem small_init (o : Opts) : Small (build o []) := by
  unfold Small build
  simp only [List.foldl_nil, Builder.init]
  decide

structure SmallInv (o : SstOpts) (s : SB) : Prop where
  cut : ∀ es ∈ s.cutE, Small (build o.blk es)
  cur : Small (build o.blk s.curE)
  cnt : s.cutE.length = s.divE.length

theorem smallinv_init (o : SstOpts) : SmallInv o SB.init :=
  ⟨by intro es h; simp [SB.init] at h, small_init o.blk, rfl⟩

theorem smallinv_flushed {o : SstOpts} {s : SB} {c idx : CBuilder} {k : List Nat} {t : Nat}
    (hi : SmallInv o s) : SmallInv o (flushed s c idx k t) := by
  refine ⟨?_, small_init o.blk, ?_⟩
  · intro es hes
    simp only [flushed, List.mem_append, List.mem_singleton] at hes
    rcases hes with hes | rfl
    · exact hi.cut es hes
    · exact hi.cur
  · simp only [flushed, List.length_append, List.length_cons, List.length_nil]; rw [hi.cnt]

theorem smallinv_put {o : SstOpts} {s s' : SB} {e : KV} (hs : SInv o s) (hi : SmallInv o s) (hts : e.ts ≤ U64MAX)
    (h : s.put o e = .ok s') : SmallInv o s' := by
  have hs' := sinv_put hs h
  have hts' : e.ts < U64 := by unfold U64MAX at hts; unfold U64; omega
  obtain ⟨_, hcase⟩ := put_ok h
  rcases hcase with ⟨hcur, c', hp, rfl⟩ | ⟨c, hcur, _, c', hp, rfl⟩ | ⟨c, hcur, _, sf, hf, c', hp, rfl⟩
  · have hfit := cput_small hp hts'
    have hb := (hs'.opn c' rfl).2
    exact ⟨hi.cut, by rw [← hb]; exact hfit, hi.cnt⟩
  · have hfit := cput_small hp hts'
    have hb := (hs'.opn c' rfl).2
    exact ⟨hi.cut, by rw [← hb]; exact hfit, hi.cnt⟩
  · obtain ⟨c2, idx, hc2, hput, rfl⟩ := flush_ok hf
    have hfl := smallinv_flushed (c := c2) (idx := idx) (k := e.key) (t := e.ts) hi
    have hfit := cput_small hp hts'
    have hb := (hs'.opn c' rfl).2
    exact ⟨hfl.cut, by rw [← hb]; exact hfit, hfl.cnt⟩

theorem smallinv_putAll (o : SstOpts) : ∀ (atts : List KV) (s : SB), (∀ e ∈ atts, e.ts ≤ U64MAX) → SInv o s →
    SmallInv o s → SmallInv o (SB.putAll o s atts).2
  | [], _, _, _, h => h
  | e :: es, s, hts, hs, h => by
    simp only [SB.putAll]
    cases hp : s.put o e with
    | error err => exact smallinv_putAll o es s (fun x hx => hts x (List.mem_cons_of_mem _ hx)) hs h
    | ok s' =>
      exact smallinv_putAll o es s' (fun x hx => hts x (List.mem_cons_of_mem _ hx)) (sinv_put hs hp)
        (smallinv_put hs h (hts e (List.mem_cons_self ..)) hp)

theorem sealed_smallinv {o : SstOpts} {s s1 : SB} (hi : SmallInv o s) (h : sealedState o s = .ok s1) :
    SmallInv o s1 := by
  unfold sealedState at h
  cases hcur : s.cur with
  | some c =>
    rw [hcur] at h
    obtain ⟨c2, idx, _, hput, rfl⟩ := flush_ok h
    exact smallinv_flushed hi
  | none => rw [hcur] at h; cases h; exact hi

/-! ### lengths -/
theorem v10 (x : Nat) (hx : x < 18446744073709551616) : (encVarint x).length ≤ 10 :=
  Blue.ProtoMsg.encVarint_length_le_ten x hx

theorem encTag_le (n : Nat) (w : WT) (hn : n < 1000) : (encTag ⟨n, w⟩).length ≤ 10 := by
  unfold encTag
  apply v10
  have : w.bits < 8 := by cases w <;> decide
  simp only
  omega

theorem frame_length_le (n : Nat) (bs : List Nat) (hn : n < 1000) (hb : bs.length < 18446744073709551616) :
    (frame n bs).length ≤ bs.length + 20 := by
  have h1 := encTag_le n .lengthDelimited hn
  have h2 := v10 bs.length hb
  simp only [frame, encBytes, List.length_append]
  omega

theorem seal_length_le (b : Builder) (h : b.restarts.length < 4294967296) :
    b.seal.length ≤ b.buffer.length + 4 * b.restarts.length + 34 := by
  have h1 := v10 (FOOTER_RESTARTS * 8 + 2) (by decide)
  have h2 := v10 (4 * b.restarts.length) (by omega)
  have h3 := v10 (FOOTER_COUNT * 8 + 5) (by decide)
  have h4 := flatMap_le32_length b.restarts
  simp only [Builder.seal, footer, List.length_append, le32, List.length_cons, List.length_nil]
  omega

theorem foldl_add_buffer (o : Opts) : ∀ (es : List KV) (b : Builder),
    b.buffer.length + es.length ≤ (es.foldl (Builder.add o) b).buffer.length
  | [], b => by simp
  | e :: es, b => by
    have ih := foldl_add_buffer o es (b.add o e)
    have hpos : b.buffer.length + 1 ≤ (b.add o e).buffer.length := by
      simp only [Builder.add, List.length_append]
      have : 0 < (encEntry (wireEntry (if (decide (o.bytesRestartInterval ≤ b.bytesSinceRestart)
          || decide (o.pairsRestartInterval ≤ b.pairsSinceRestart)) = true then 0 else sharedLen b.lastKey e.key) e)).length := by
        generalize wireEntry _ e = w
        cases w <;> simp only [encEntry, List.length_append] <;>
          have := encVarint_length_pos ((8 : Nat) * 8 + WT.lengthDelimited.bits) <;>
          have := encVarint_length_pos ((9 : Nat) * 8 + WT.lengthDelimited.bits) <;>
          simp only [encTag] <;> omega
      omega
    simp only [List.foldl_cons, List.length_cons]
    omega

theorem build_buffer_ge (o : Opts) (es : List KV) : es.length ≤ (build o es).buffer.length := by
  have := foldl_add_buffer o es Builder.init
  unfold build
  omega

theorem flatMap_length_le {α : Type} (g : α → List Nat) (K : Nat) : ∀ (L : List α),
    (∀ x ∈ L, (g x).length ≤ K) → (L.flatMap g).length ≤ L.length * K
  | [], _ => by simp
  | x :: xs, h => by
    have ih := flatMap_length_le g K xs (fun y hy => h y (List.mem_cons_of_mem _ hy))
    have hx := h x (List.mem_cons_self ..)
    simp only [List.flatMap_cons, List.length_append, List.length_cons, Nat.succ_mul]
    omega

theorem filterLen_le (count bits : Nat) : filterLen count bits ≤ 536870912 := by
  unfold filterLen
  simp only
  omega

/-- the bound: fewer than 2^32 data blocks (one index entry each, and the index block is a block
    below `TABLE_FULL_SIZE`) of at most 2^30 + 54 framed bytes each, the index block's frame, the
    filter block's frame (`Filter::new` takes a `u32` bit count), the final block -/
def FILE_SIZE_BOUND : Nat := 4294967296 * 1073741878 + (21474836480 + 54) + (536870912 + 20) + 268

theorem file_size_bound_lt : FILE_SIZE_BOUND < 9223372036854775808 ∧ FILE_SIZE_BOUND < U64 := by
  unfold FILE_SIZE_BOUND U64; omega

theorem encBlockMeta_length_le (m : BlockMeta) (h1 : m.start < 18446744073709551616)
    (h2 : m.limit < 18446744073709551616) : (encBlockMeta m).length ≤ 54 := by
  have a := encTag_le BM_START .varint (by decide)
  have b := encTag_le BM_LIMIT .varint (by decide)
  have c := encTag_le BM_CRC .thirtyTwo (by decide)
  have d := v10 m.start h1
  have e := v10 m.limit h2
  simp only [encBlockMeta, List.length_append, le32, List.length_cons, List.length_nil]
  omega

theorem encFinal_length_le (fin : Final) (hs : fin.setsum.length = 32)
    (h1 : fin.index.start < 18446744073709551616) (h2 : fin.index.limit < 18446744073709551616)
    (h3 : fin.filter.start < 18446744073709551616) (h4 : fin.filter.limit < 18446744073709551616)
    (h5 : fin.smallest < 18446744073709551616) (h6 : fin.biggest < 18446744073709551616) :
    (encFinal fin).length ≤ 268 := by
  have a := encTag_le FB_INDEX .lengthDelimited (by decide)
  have b := encTag_le FB_FILTER .lengthDelimited (by decide)
  have c := encTag_le FB_SETSUM .lengthDelimited (by decide)
  have d := encTag_le FB_SMALLEST .varint (by decide)
  have e := encTag_le FB_BIGGEST .varint (by decide)
  have g := encTag_le FB_OFFSET .sixtyFour (by decide)
  have m1 := encBlockMeta_length_le fin.index h1 h2
  have m2 := encBlockMeta_length_le fin.filter h3 h4
  have l1 := v10 (encBlockMeta fin.index).length (by omega)
  have l2 := v10 (encBlockMeta fin.filter).length (by omega)
  have l3 := v10 fin.setsum.length (by omega)
  have l4 := v10 fin.smallest h5
  have l5 := v10 fin.biggest h6
  simp only [encFinal, encBytes, List.length_append, le64, le32, List.length_cons, List.length_nil]
  omega

/-- **C10 (c)** the length of a builder-written file is at most `FILE_SIZE_BOUND` (< 2^63), for
    every attempt sequence with `u64` timestamps and every option value: derived from the refusal
    at `TABLE_FULL_SIZE` inside `BlockBuilder::put` (data blocks and index block) and the key /
    value limits; the filter parameter has the length `Filter::new` gives and the setsum 32 bytes -/
theorem file_size_bound (o : SstOpts) (atts : List KV) (filter setsum : List Nat) (f : SstFile)
    (hseal : (SB.putAll o SB.init atts).2.seal o filter setsum = .ok f)
    (hts : ∀ e ∈ atts, e.ts ≤ U64MAX)
    (hsetsum : setsum.length = 32)
    (hfilter : filter.length = filterLen (SB.putAll o SB.init atts).2.count o.bloomBits) :
    f.bytes.length ≤ FILE_SIZE_BOUND := by
  obtain ⟨s1, hs1, hfb, hfi, hff, hfin⟩ := seal_eq hseal
  have hs := sinv_putAll o atts SB.init (sinv_init o)
  have hfit := sealed_fitinv hs (fitinv_putAll o atts SB.init hts (sinv_init o) (fitinv_init o)) hs1
  have hsm := sealed_smallinv (smallinv_putAll o atts SB.init hts (sinv_init o) (smallinv_init o)) hs1
  obtain ⟨_, _, _, hblocks, hindex⟩ := sealed_cut hs hs1
  have hmi := minv_putAll o atts SB.init hts minv_init
  obtain ⟨hm1, hacc1⟩ := sealed_minv hmi hs1
  -- the number of data blocks
  have hidxF : Fits s1.index.b := by rw [hindex]; exact hfit.idx
  have hn : s1.blocks.length < 4294967296 := by
    have := build_buffer_ge o.blk s1.divE
    rw [hblocks, List.length_map, hsm.cnt]
    rw [hindex] at hidxF
    have := hidxF.1
    omega
  -- every data block's frame
  have hblk : ∀ x ∈ s1.blocks, (frame SE_PLAIN x).length ≤ 1073741878 := by
    intro x hx
    rw [hblocks] at hx
    obtain ⟨es, hes, rfl⟩ := List.mem_map.mp hx
    have hS : (build o.blk es).buffer.length + 4 * (build o.blk es).restarts.length < 1073741824 := hsm.cut es hes
    have := seal_length_le (build o.blk es) (by omega)
    have := frame_length_le SE_PLAIN (build o.blk es).seal (by decide) (by omega)
    omega
  have hdata := flatMap_length_le (frame SE_PLAIN) 1073741878 s1.blocks hblk
  -- index and filter frames
  have hi1 : s1.index.b.buffer.length < 4294967296 := hidxF.1
  have hi2 : s1.index.b.restarts.length < 4294967296 := hidxF.2
  have hil := seal_length_le s1.index.b hidxF.2
  have hI := frame_length_le SE_PLAIN s1.index.b.seal (by decide) (by omega)
  have hfl := filterLen_le (SB.putAll o SB.init atts).2.count o.bloomBits
  have hF := frame_length_le SE_FILTER filter (by decide) (by omega)
  have hw := hm1.written
  -- timestamps of the final block
  have hbig : s1.smallest ≤ s1.biggest → s1.biggest ≤ U64MAX ∧ s1.smallest ≤ U64MAX := by
    intro hle
    by_cases hA : s1.accepted = []
    · obtain ⟨a, b⟩ := hm1.none_ hA; unfold U64MAX at *; omega
    · obtain ⟨_, ⟨e, he, hE⟩⟩ := hm1.attained hA
      have : e ∈ atts := by
        rw [hacc1, (sst_builder_rejects o atts).2.1] at he
        exact acceptedOfB_mem _ _ _ he
      have := hts e this
      omega
  have hU : U64MAX = 18446744073709551615 := rfl
  have hfinl : (encFinal f.fin).length ≤ 268 := by
    apply encFinal_length_le
    · rw [hfin]; exact hsetsum
    all_goals (rw [hfin]; simp only [finOf]; try split) <;> omega
  have hbytes : f.bytes.length = (s1.blocks.flatMap (frame SE_PLAIN)).length + (frame SE_PLAIN s1.index.b.seal).length
      + (frame SE_FILTER filter).length + (encFinal f.fin).length := by
    simp only [SstFile.bytes, SstFile.final, List.length_append, hfb, hfi, hff]
  unfold FILE_SIZE_BOUND
  omega

end Blue.Sst
