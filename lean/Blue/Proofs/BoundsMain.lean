import Blue.Proofs.Bounds
namespace Blue.Cursor
variable {E : Type} (cfg : BoundsCfg E) (xs : List E)

theorem brel_kv {lo hi : Nat} (ok : BoundsOk cfg xs lo hi) {b : Bounds E} {pos : Nat}
    (h : BRel xs lo hi b pos) : b.kv = (Ref.mk (window xs lo hi) pos).kv := by
  have hlen := window_length xs lo hi ok.lo_le ok.hi_le
  cases h with
  | before q _ _ => simp [Bounds.kv, Bounds.key, Ref.kv]
  | «at» q h1 h2 =>
    obtain ⟨i, rfl⟩ : ∃ i, q = i + 1 := ⟨q - 1, by omega⟩
    simp only [Bounds.kv, Bounds.key, if_true, rkv_at]
    have hne : i + 1 - lo ≠ 0 := by omega
    simp only [Ref.kv, hne, if_false]
    rw [window_get xs lo hi _ (by omega)]
    congr 1; omega
  | posStart => simp [Bounds.kv, Bounds.key, Ref.kv]
  | posEnd =>
    simp only [Bounds.kv, Bounds.key, if_true, rkv_at]
    simp [Ref.kv, hlen]
  | after q _ _ =>
    simp only [Bounds.kv, Bounds.key]
    simp [Ref.kv, hlen]

theorem brel_nextResult {lo hi : Nat} (ok : BoundsOk cfg xs lo hi) (q : Nat) (hq : q ≤ xs.length + 1)
    (pos : Nat)
    (hpos : pos = (if xs.length ≤ max q lo then hi - lo + 1
                   else if hi ≤ max q lo then hi - lo + 1 else max q lo + 1 - lo)) :
    BRel xs lo hi (nextResult xs lo hi q) pos := by
  unfold nextResult
  simp only
  by_cases h1 : xs.length ≤ max q lo
  · rw [if_pos h1] at hpos ⊢; rw [hpos]; exact BRel.posEnd
  · rw [if_neg h1] at hpos ⊢
    by_cases h2 : hi ≤ max q lo
    · rw [if_pos h2] at hpos ⊢; rw [hpos]
      exact BRel.after _ (by omega) (by omega)
    · rw [if_neg h2] at hpos ⊢; rw [hpos]
      exact BRel.at _ (by omega) (by omega)

theorem brel_next {lo hi : Nat} (ok : BoundsOk cfg xs lo hi) (n : Nat) (hn : xs.length + 2 ≤ n) {b : Bounds E} {pos : Nat}
    (h : BRel xs lo hi b pos) :
    BRel xs lo hi (b.next cfg n) (Ref.next ⟨window xs lo hi, pos⟩).pos := by
  have hlen := window_length xs lo hi ok.lo_le ok.hi_le
  have hrefpos : (Ref.next ⟨window xs lo hi, pos⟩).pos = if pos ≤ hi - lo then pos + 1 else pos := by
    unfold Ref.next; simp only [hlen]; split <;> rfl
  rw [hrefpos]
  have hlo := ok.lo_le
  have hhi := ok.hi_le
  cases h with
  | before q hq hqn =>
    unfold Bounds.next
    rw [bounds_nextLoop_spec cfg xs ok _ q .beforeStart (by decide) hqn
      (by omega)]
    apply brel_nextResult cfg xs ok q hqn
    simp only [Nat.zero_le, if_true]
    by_cases h1 : xs.length ≤ max q lo
    · rw [if_pos h1]; omega
    · rw [if_neg h1]
      by_cases h2 : hi ≤ max q lo
      · rw [if_pos h2]; omega
      · rw [if_neg h2]; omega
  | «at» q h1 h2 =>
    unfold Bounds.next
    rw [bounds_nextLoop_spec cfg xs ok _ q .positioned (by decide) (by omega)
      (by omega)]
    apply brel_nextResult cfg xs ok q (by omega)
    have hmax : max q lo = q := by omega
    rw [hmax, if_pos (by omega)]
    by_cases h3 : xs.length ≤ q
    · rw [if_pos h3]; omega
    · rw [if_neg h3]
      by_cases h4 : hi ≤ q
      · rw [if_pos h4]; omega
      · rw [if_neg h4]; omega
  | posStart =>
    unfold Bounds.next
    rw [bounds_nextLoop_spec cfg xs ok _ 0 .positioned (by decide) (by omega)
      (by omega)]
    apply brel_nextResult cfg xs ok 0 (by omega)
    simp only [Nat.zero_le, if_true]
    by_cases h1 : xs.length ≤ max 0 lo
    · rw [if_pos h1]; omega
    · rw [if_neg h1]
      by_cases h2 : hi ≤ max 0 lo
      · rw [if_pos h2]; omega
      · rw [if_neg h2]; omega
  | posEnd =>
    unfold Bounds.next
    rw [bounds_nextLoop_spec cfg xs ok _ (xs.length+1) .positioned (by decide) (by omega)
      (by omega)]
    apply brel_nextResult cfg xs ok (xs.length+1) (by omega)
    have : xs.length ≤ max (xs.length+1) lo := by omega
    rw [if_pos this, if_neg (by omega)]
  | after q h1 h2 =>
    have : Bounds.next cfg n ⟨⟨xs, q⟩, .afterEnd⟩ = ⟨⟨xs, q⟩, .afterEnd⟩ := by
      unfold Bounds.next; cases n <;> simp [Bounds.nextLoop]
    rw [this, if_neg (by omega)]
    exact BRel.after q h1 h2

end Blue.Cursor

namespace Blue.Cursor
variable {E : Type} (cfg : BoundsCfg E) (xs : List E)

theorem brel_prevResult {lo hi : Nat} (ok : BoundsOk cfg xs lo hi) (q : Nat) (hq : q ≤ xs.length + 1)
    (pos : Nat)
    (hpos : pos = (if min (q-1) hi = 0 then 0 else if min (q-1) hi ≤ lo then 0 else min (q-1) hi - lo)) :
    BRel xs lo hi (prevResult xs lo hi q) pos := by
  have hlo := ok.lo_le
  have hhi := ok.hi_le
  unfold prevResult
  simp only
  by_cases h1 : min (q-1) hi = 0
  · rw [if_pos h1] at hpos ⊢; rw [hpos]; exact BRel.posStart
  · rw [if_neg h1] at hpos ⊢
    by_cases h2 : min (q-1) hi ≤ lo
    · rw [if_pos h2] at hpos ⊢; rw [hpos]
      exact BRel.before _ (by omega) (by omega)
    · rw [if_neg h2] at hpos ⊢; rw [hpos]
      exact BRel.at _ (by omega) (by omega)

theorem brel_prev {lo hi : Nat} (ok : BoundsOk cfg xs lo hi) (n : Nat) (hn : xs.length + 2 ≤ n) {b : Bounds E} {pos : Nat}
    (h : BRel xs lo hi b pos) :
    BRel xs lo hi (b.prev cfg n) (Ref.prev ⟨window xs lo hi, pos⟩).pos := by
  have hrefpos : (Ref.prev ⟨window xs lo hi, pos⟩).pos = if 0 < pos then pos - 1 else pos := by
    unfold Ref.prev; split <;> rfl
  rw [hrefpos]
  have hlo := ok.lo_le
  have hhi := ok.hi_le
  cases h with
  | before q hq hqn =>
    have : Bounds.prev cfg n ⟨⟨xs, q⟩, .beforeStart⟩ = ⟨⟨xs, q⟩, .beforeStart⟩ := by
      unfold Bounds.prev; cases n <;> simp [Bounds.prevLoop]
    rw [this, if_neg (by omega)]
    exact BRel.before q hq hqn
  | «at» q h1 h2 =>
    unfold Bounds.prev
    rw [bounds_prevLoop_spec cfg xs ok _ q .positioned (by decide) (by omega)
      (by omega)]
    apply brel_prevResult cfg xs ok q (by omega)
    have hmin : min (q-1) hi = q - 1 := by omega
    rw [hmin, if_pos (by omega)]
    by_cases h3 : q - 1 = 0
    · rw [if_pos h3]; omega
    · rw [if_neg h3]
      by_cases h4 : q - 1 ≤ lo
      · rw [if_pos h4]; omega
      · rw [if_neg h4]; omega
  | posStart =>
    unfold Bounds.prev
    rw [bounds_prevLoop_spec cfg xs ok _ 0 .positioned (by decide) (by omega)
      (by omega)]
    apply brel_prevResult cfg xs ok 0 (by omega)
    simp
  | posEnd =>
    unfold Bounds.prev
    rw [bounds_prevLoop_spec cfg xs ok _ (xs.length+1) .positioned (by decide) (by omega)
      (by omega)]
    apply brel_prevResult cfg xs ok (xs.length+1) (by omega)
    have hmin : min (xs.length + 1 - 1) hi = hi := by omega
    rw [hmin, if_pos (by omega)]
    by_cases h3 : hi = 0
    · rw [if_pos h3]; omega
    · rw [if_neg h3]
      by_cases h4 : hi ≤ lo
      · rw [if_pos h4]; omega
      · rw [if_neg h4]; omega
  | after q h1 h2 =>
    unfold Bounds.prev
    rw [bounds_prevLoop_spec cfg xs ok _ q .afterEnd (by decide) h2
      (by omega)]
    apply brel_prevResult cfg xs ok q h2
    have hmin : min (q - 1) hi = hi := by omega
    rw [hmin, if_pos (by omega)]
    by_cases h3 : hi = 0
    · rw [if_pos h3]; omega
    · rw [if_neg h3]
      by_cases h4 : hi ≤ lo
      · rw [if_pos h4]; omega
      · rw [if_neg h4]; omega

/-- every reachable child cursor has the child list and a position in range -/
theorem brel_child {lo hi : Nat} {b : Bounds E} {pos : Nat} (h : BRel xs lo hi b pos) :
    b.c.xs = xs := by
  cases h <;> rfl

theorem brel_first {lo hi : Nat} (ok : BoundsOk cfg xs lo hi) {b : Bounds E} {pos : Nat}
    (h : BRel xs lo hi b pos) : BRel xs lo hi (b.seekToFirst cfg) 0 := by
  have hx := brel_child xs h
  have hlo := ok.lo_le
  unfold Bounds.seekToFirst
  -- the end check is a no-op in state BeforeStart
  have hce : ∀ c : Ref E, Bounds.checkEnd cfg ⟨c, .beforeStart⟩ = ⟨c, .beforeStart⟩ := by
    intro c; simp [Bounds.checkEnd, Bounds.key]
  rw [hce]
  cases hsu : cfg.startUnbounded with
  | true =>
    simp only [if_true]
    have : Bounds.stepBackIfSome b.c.first = ⟨xs, 0⟩ := by
      unfold Bounds.stepBackIfSome Ref.first; simp [Ref.kv, hx]
    rw [this]
    exact BRel.before 0 (by omega) (by omega)
  | false =>
    simp only [Bool.false_eq_true, if_false]
    have hseek : b.c.seek cfg.geStart = ⟨xs, xs.findIdx cfg.geStart + 1⟩ := by
      unfold Ref.seek; rw [hx]
    rw [hseek]
    have hf := ok.start_seek hsu
    have hfle : xs.findIdx cfg.geStart ≤ xs.length := List.findIdx_le_length
    unfold Bounds.stepBackIfSome
    rw [rkv_at]
    by_cases hlt : xs.findIdx cfg.geStart < xs.length
    · have : xs[xs.findIdx cfg.geStart]?.isSome = true := by simp [hlt]
      rw [if_pos this, rprev_succ]
      exact BRel.before _ (by omega) (by omega)
    · have : xs[xs.findIdx cfg.geStart]? = none := by
        rw [List.getElem?_eq_none_iff]; omega
      rw [this]
      simp only [Option.isSome_none, Bool.false_eq_true, if_false]
      exact BRel.before _ (by omega) (by omega)

/-- the `Included` end loop lands on the first entry past the end key -/
theorem skipEq_spec {lo hi : Nat} (ok : BoundsOk cfg xs lo hi) (hu : cfg.endUnbounded = false)
    (hi' : cfg.endIncluded = true) :
    ∀ (d fuel i : Nat), xs.findIdx cfg.geEnd ≤ i → i + d = hi → d < fuel →
      Bounds.skipEq cfg fuel ⟨xs, i+1⟩ = ⟨xs, hi+1⟩ := by
  intro d
  induction d with
  | zero =>
    intro fuel i h1 h2 h3
    have : i = hi := by omega
    subst this
    cases fuel with
    | zero => omega
    | succ f =>
      unfold Bounds.skipEq
      rw [rkv_at]
      cases he : xs[i]? with
      | none => rfl
      | some e =>
        have := (ok.end_incl_eq hu hi' i e h1 he)
        have hne : cfg.eqEnd e = false := by
          cases h : cfg.eqEnd e with
          | false => rfl
          | true => have := this.mp h; omega
        simp [hne]
  | succ d ih =>
    intro fuel i h1 h2 h3
    cases fuel with
    | zero => omega
    | succ f =>
      unfold Bounds.skipEq
      rw [rkv_at]
      have hilt : i < xs.length := by have := ok.hi_le; omega
      have he : xs[i]? = some xs[i] := by simp [hilt]
      rw [he]
      have heq : cfg.eqEnd xs[i] = true := (ok.end_incl_eq hu hi' i xs[i] h1 he).mpr (by omega)
      simp only [heq, if_true]
      rw [rnext_lt xs (i+1) (by omega)]
      exact ih f (i+1) (by omega) (by omega) (by omega)

theorem brel_last {lo hi : Nat} (ok : BoundsOk cfg xs lo hi) (n : Nat) (hn : xs.length + 2 ≤ n) {b : Bounds E} {pos : Nat}
    (h : BRel xs lo hi b pos) :
    BRel xs lo hi (b.seekToLast cfg n) ((window xs lo hi).length + 1) := by
  have hx := brel_child xs h
  have hlen := window_length xs lo hi ok.lo_le ok.hi_le
  rw [hlen]
  unfold Bounds.seekToLast
  have hcs : ∀ c : Ref E, Bounds.checkStart cfg ⟨c, .afterEnd⟩ = ⟨c, .afterEnd⟩ := by
    intro c; simp [Bounds.checkStart, Bounds.key]
  rw [hcs]
  have hhi := ok.hi_le
  cases hu : cfg.endUnbounded with
  | true =>
    simp only [if_true]
    have : b.c.last = ⟨xs, xs.length + 1⟩ := by unfold Ref.last; rw [hx]
    rw [this]
    have := ok.end_unb hu
    exact BRel.after _ (by omega) (by omega)
  | false =>
    simp only [Bool.false_eq_true, if_false]
    have hseek : b.c.seek cfg.geEnd = ⟨xs, xs.findIdx cfg.geEnd + 1⟩ := by
      unfold Ref.seek; rw [hx]
    rw [hseek]
    cases hinc : cfg.endIncluded with
    | false =>
      simp only [Bool.false_eq_true, if_false]
      rw [ok.end_excl hu hinc]
      exact BRel.after _ (by omega) (by omega)
    | true =>
      simp only [if_true]
      have hle := ok.end_incl_le hu hinc
      have := skipEq_spec cfg xs ok hu hinc (hi - xs.findIdx cfg.geEnd) n
        (xs.findIdx cfg.geEnd) (Nat.le_refl _) (by omega)
        (by omega)
      rw [this]
      exact BRel.after _ (by omega) (by omega)

end Blue.Cursor

namespace Blue.Cursor
variable {E : Type} (cfg : BoundsCfg E) (xs : List E)

/-- a predicate that is false on the first `k` entries and true afterwards is found at `k` -/
theorem findIdx_of_switch (l : List E) (pred : E → Bool) (k : Nat) (hk : k ≤ l.length)
    (hlo : ∀ (r : Nat) (e : E), r < k → l[r]? = some e → pred e = false)
    (hhi : ∀ (r : Nat) (e : E), k ≤ r → l[r]? = some e → pred e = true) : l.findIdx pred = k := by
  by_cases hkl : k < l.length
  · rw [List.findIdx_eq hkl]
    constructor
    · exact hhi k l[k] (Nat.le_refl _) (by simp [hkl])
    · intro j hj
      have := hlo j l[j] hj (by simp [show j < l.length by omega])
      simp [this]
  · have : k = l.length := by omega
    subst this
    apply List.findIdx_eq_length_of_false
    intro x hx
    obtain ⟨r, hr, rfl⟩ := List.getElem_of_mem hx
    exact hlo r _ hr (by simp [hr])

/-- upward-closed predicate along the child list -/
def MonoAlong (pred : E → Bool) : Prop :=
  ∀ (i j : Nat) (ei ej : E), i ≤ j → xs[i]? = some ei → xs[j]? = some ej → pred ei = true → pred ej = true

theorem findIdx_window {lo hi : Nat} (hlo : lo ≤ xs.length) (hhi : hi ≤ xs.length) (pred : E → Bool)
    (hm : MonoAlong xs pred) :
    (window xs lo hi).findIdx pred = min (xs.findIdx pred - lo) (hi - lo) := by
  have hlen := window_length xs lo hi hlo hhi
  have hsplit_lo : ∀ (i : Nat) (e : E), i < xs.findIdx pred → xs[i]? = some e → pred e = false := by
    intro i e hi' he
    have := List.not_of_lt_findIdx hi'
    obtain ⟨hl, rfl⟩ := List.getElem?_eq_some_iff.mp he
    simpa using this
  have hsplit_hi : ∀ (i : Nat) (e : E), xs.findIdx pred ≤ i → xs[i]? = some e → pred e = true := by
    intro i e hi' he
    have hilt := (List.getElem?_eq_some_iff.mp he).1
    have hf : xs.findIdx pred < xs.length := by omega
    have htrue : pred xs[xs.findIdx pred] = true := List.findIdx_getElem (w := hf)
    exact hm (xs.findIdx pred) i _ e hi' (by simp [hf]) he htrue
  apply findIdx_of_switch
  · rw [hlen]; omega
  · intro r e hr he
    have hr' : r < hi - lo := by omega
    rw [window_get xs lo hi r hr'] at he
    exact hsplit_lo (lo + r) e (by omega) he
  · intro r e hr he
    have hrlen : r < (window xs lo hi).length := (List.getElem?_eq_some_iff.mp he).1
    rw [hlen] at hrlen
    rw [window_get xs lo hi r hrlen] at he
    exact hsplit_hi (lo + r) e (by omega) he

theorem brel_seek {lo hi : Nat} (ok : BoundsOk cfg xs lo hi) (n : Nat) (hn : xs.length + 2 ≤ n) {b : Bounds E} {pos : Nat}
    (h : BRel xs lo hi b pos) (pred : E → Bool) (hm : MonoAlong xs pred) :
    BRel xs lo hi (b.seek cfg n pred) (Ref.seek pred ⟨window xs lo hi, pos⟩).pos := by
  have hx := brel_child xs h
  have hlo := ok.lo_le
  have hhi := ok.hi_le
  have hrefpos : (Ref.seek pred ⟨window xs lo hi, pos⟩).pos = min (xs.findIdx pred - lo) (hi - lo) + 1 := by
    unfold Ref.seek; simp only; rw [findIdx_window xs hlo hhi pred hm]
  rw [hrefpos]
  have hfle : xs.findIdx pred ≤ xs.length := List.findIdx_le_length
  unfold Bounds.seek
  have hseek : b.c.seek pred = ⟨xs, xs.findIdx pred + 1⟩ := by unfold Ref.seek; rw [hx]
  rw [hseek]
  by_cases hflt : xs.findIdx pred < xs.length
  · rw [checks_bwd cfg xs ok _ hflt]
    by_cases h2 : hi ≤ xs.findIdx pred
    · simp only [h2, if_true]
      have : (⟨⟨xs, xs.findIdx pred + 1⟩, BState.afterEnd⟩ : Bounds E).st = BState.beforeStart ↔ False := by simp
      simp only [this, if_false]
      have hmin : min (xs.findIdx pred - lo) (hi - lo) = hi - lo := by omega
      rw [hmin]
      exact BRel.after _ (by omega) (by omega)
    · simp only [h2, if_false]
      by_cases h1 : xs.findIdx pred < lo
      · simp only [h1, if_true]
        -- re-seek to the first entry of the window
        have hfirst := brel_first cfg xs ok
          (BRel.before (lo := lo) (hi := hi) (xs := xs) (xs.findIdx pred + 1) (by omega) (by omega))
        have hnext := brel_next cfg xs ok n hn hfirst
        have hlen := window_length xs lo hi hlo hhi
        have : (Ref.next ⟨window xs lo hi, 0⟩).pos = 1 := by unfold Ref.next; simp
        rw [this] at hnext
        have hmin : min (xs.findIdx pred - lo) (hi - lo) = 0 := by omega
        rw [hmin]
        exact hnext
      · simp only [h1, if_false]
        have : (⟨⟨xs, xs.findIdx pred + 1⟩, BState.positioned⟩ : Bounds E).st = BState.beforeStart ↔ False := by simp
        simp only [this, if_false]
        have hmin : min (xs.findIdx pred - lo) (hi - lo) = xs.findIdx pred - lo := by omega
        rw [hmin]
        have := BRel.at (lo := lo) (hi := hi) (xs := xs) (xs.findIdx pred + 1) (by omega) (by omega)
        have e : xs.findIdx pred + 1 - lo = xs.findIdx pred - lo + 1 := by omega
        rw [e] at this; exact this
  · have hf : xs.findIdx pred = xs.length := by omega
    rw [hf]
    have hkv : (Ref.mk xs (xs.length+1)).kv = none := by simp [Ref.kv]
    rw [checks_none_bwd cfg xs _ hkv]
    have : (⟨⟨xs, xs.length + 1⟩, BState.positioned⟩ : Bounds E).st = BState.beforeStart ↔ False := by simp
    simp only [this, if_false]
    have hmin : min (xs.length - lo) (hi - lo) = hi - lo := by omega
    rw [hmin]
    exact BRel.posEnd

def Bounds.step (n : Nat) (b : Bounds E) : Op E → Bounds E
  | .first => b.seekToFirst cfg | .last => b.seekToLast cfg n | .next => b.next cfg n | .prev => b.prev cfg n
  | .seek pred => b.seek cfg n pred

def Bounds.run (n : Nat) (b : Bounds E) : List (Op E) → List (Option E)
  | [] => []
  | op :: ops => (Bounds.step cfg n b op).kv :: Bounds.run n (Bounds.step cfg n b op) ops

/-- **C11, bounds cursor (with the repaired `prev`).**  Over any child list on which the bound
    tests behave as a window `[lo, hi)`, for every finite program the bounds cursor shows what a
    reference cursor over that window shows. -/
theorem bounds_refines {lo hi : Nat} (ok : BoundsOk cfg xs lo hi) (n : Nat) (hn : xs.length + 2 ≤ n) :
    ∀ (ops : List (Op E)) (b : Bounds E) (pos : Nat), BRel xs lo hi b pos →
      (∀ pred, Op.seek pred ∈ ops → MonoAlong xs pred) →
      Bounds.run cfg n b ops = Ref.run ⟨window xs lo hi, pos⟩ ops := by
  intro ops
  induction ops with
  | nil => intros; rfl
  | cons op ops ih =>
    intro b pos h hops
    have hstep : BRel xs lo hi (Bounds.step cfg n b op) ((Ref.mk (window xs lo hi) pos).step op).pos
        ∧ ((Ref.mk (window xs lo hi) pos).step op).xs = window xs lo hi := by
      cases op with
      | first => exact ⟨brel_first cfg xs ok h, rfl⟩
      | last => exact ⟨by simpa [Ref.step, Ref.last, Bounds.step] using brel_last cfg xs ok n hn h, rfl⟩
      | next => exact ⟨brel_next cfg xs ok n hn h, by simp only [Ref.step, Ref.next]; split <;> rfl⟩
      | prev => exact ⟨brel_prev cfg xs ok n hn h, by simp only [Ref.step, Ref.prev]; split <;> rfl⟩
      | seek pred => exact ⟨brel_seek cfg xs ok n hn h pred (hops pred (by simp)), rfl⟩
    obtain ⟨h1, h2⟩ := hstep
    have hc : (Ref.mk (window xs lo hi) pos).step op
        = ⟨window xs lo hi, ((Ref.mk (window xs lo hi) pos).step op).pos⟩ := by
      cases hs : (Ref.mk (window xs lo hi) pos).step op with
      | mk a c => rw [hs] at h2; simp at h2; simp [h2]
    simp only [Bounds.run, Ref.run]
    rw [brel_kv cfg xs ok h1, ← hc]
    congr 1
    rw [hc]
    exact ih _ _ h1 (fun pred hp => hops pred (List.mem_cons_of_mem _ hp))

end Blue.Cursor

#print axioms Blue.Cursor.bounds_refines
