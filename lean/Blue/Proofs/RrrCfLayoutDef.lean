import Blue.Proofs.RrrCfWords
/-! What the queries of cf_rrr need to know about a vector `v` that encodes the pattern `bits`
    (`Layout bits v`): which loads succeed and what they return.  `RrrCfLayout` proves
    `Layout bits (construct bits)`; `RrrCfQuery` derives the answers of the queries from it. -/
namespace Blue.RrrCf
open Blue.BitArr Blue.Rrr

/-- number of 63-bit words -/
def nwOf (bits : List Bool) : Nat := (bits.length + 62) / 63
/-- number of 23-word blocks -/
def nbOf (bits : List Bool) : Nat := (nwOf bits + 22) / 23

/-- block `k` of the pattern is laid out at bit `off` of `v.b`: cumulative rank, the 23 classes (read
    6 bits at a time), the offsets at the running sum of their widths; the class region lies inside -/
structure BlockAt (bits : List Bool) (v : Vec) (k off : Nat) : Prop where
  rank : load v.b off v.rWidth = some (ones bits (63 * (23 * k)))
  inside : off + v.rWidth + 138 ≤ v.b.length
  cl : ∀ t, t < 23 → load v.b (off + v.rWidth + 6 * t) 6 = some (cls bits (23 * k + t))
  of : ∀ t, t < 23 →
    load v.b (off + v.rWidth + 138 + oSum bits (23 * k) t) (lOf (cls bits (23 * k + t))) = some (offs bits (23 * k + t))

/-- the sample array `s`: entry `j` names a block `b` at whose start fewer than `1449 j` bits have been
    counted (or block 0); beyond the last entry the load fails and the pattern has fewer than `x`
    such bits for every `x` that would look there -/
def Samples (bits : List Bool) (s : List Bool) (rw : Nat) (zero : Bool) : Prop :=
  ∃ S : List Nat,
    (∀ j b, S[j]? = some b →
      load s (j * rw) rw = some b ∧ b < nbOf bits ∧ (b = 0 ∨ cntE zero bits (63 * (23 * b)) < 1449 * j)) ∧
    (∀ j, S.length ≤ j →
      load s (j * rw) rw = none ∧ ∀ x, 0 < x → x / 1449 = j → cntE zero bits bits.length < x)

structure Layout (bits : List Bool) (v : Vec) : Prop where
  hbits : v.bits = bits.length
  hwpb : v.wordsPerBlock = 23
  hsamp : v.selectSample = 1449
  hb8 : v.b.length % 8 = 0
  hpfuel : nbOf bits ≤ v.p.length
  pLoad : ∀ k, k < nbOf bits → ∃ off, load v.p (k * v.pWidth) v.pWidth = some off ∧ BlockAt bits v k off
  pNone : ∀ k, nbOf bits ≤ k → 0 < k → load v.p (k * v.pWidth) v.pWidth = none
  samp : ∀ zero : Bool, Samples bits (if zero then v.s0 else v.s1) v.rWidth zero

end Blue.RrrCf
