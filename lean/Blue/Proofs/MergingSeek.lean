import Blue.Proofs.MergingSteps
namespace Blue.Cursor
open Blue.Heap

variable {E : Type} {lt : E → E → Bool} {M : List (E × Nat)} {k : Nat}

/-- `pred` is "at or after the target": upward closed along the order. -/
def Mono (lt : E → E → Bool) (pred : E → Bool) : Prop :=
  ∀ a b, lt a b = true → pred a = true → pred b = true

theorem findIdx_all_true_head (pred : E → Bool) (l : List E) (h : ∀ x ∈ l, pred x = true) :
    l.findIdx pred = 0 := by
  cases l with
  | nil => rfl
  | cons a t => simp [List.findIdx_cons, h a (by simp)]

theorem seek_child (fam : Family lt M k) (pred : E → Bool) (hmono : Mono lt pred) (j : Nat) :
    (childList M j).findIdx pred = before M j ((M.map (·.1)).findIdx pred) := by
  let q := (M.map (·.1)).findIdx pred
  show (childList M j).findIdx pred = before M j q
  have hA : ∀ x ∈ M.take q, pred x.1 = false := by
    intro x hx
    rw [List.mem_take_iff_getElem] at hx
    obtain ⟨i, hi, rfl⟩ := hx
    have hiq : i < (M.map (·.1)).findIdx pred := by
      have : i < min q M.length := hi
      omega
    have := List.not_of_lt_findIdx hiq
    simpa using this
  have hB : ∀ x ∈ M.drop q, pred x.1 = true := by
    intro x hx
    by_cases hq : q < M.length
    · have hq' : (M.map (·.1)).findIdx pred < (M.map (·.1)).length := by
        rw [List.length_map]; exact hq
      have htrue : pred (M.map (·.1))[q] = true := List.findIdx_getElem (w := hq')
      rw [List.drop_eq_getElem_cons hq] at hx
      rcases List.mem_cons.mp hx with h | h
      · subst h; simpa using htrue
      · have hs := fam.sorted
        rw [← List.take_append_drop (q+1) M, List.map_append] at hs
        have hs2 := (List.pairwise_append.mp hs).2.2
        have he : (M[q]).1 ∈ (M.take (q+1)).map (·.1) := by
          rw [List.mem_map]; refine ⟨M[q], ?_, rfl⟩
          rw [List.mem_take_iff_getElem]; exact ⟨q, by omega, rfl⟩
        have he' : x.1 ∈ (M.drop (q+1)).map (·.1) := by
          rw [List.mem_map]; exact ⟨x, h, rfl⟩
        have hlt := hs2 _ he _ he'
        exact hmono _ _ hlt (by simpa using htrue)
    · rw [List.drop_eq_nil_of_le (by omega)] at hx; cases hx
  unfold childList before
  conv => lhs; arg 2; rw [← List.take_append_drop q M, List.filter_append, List.map_append]
  rw [List.findIdx_append]
  have h1 : (((M.take q).filter (fun x => x.2 == j)).map (·.1)).findIdx pred
      = (((M.take q).filter (fun x => x.2 == j)).map (·.1)).length := by
    apply List.findIdx_eq_length_of_false
    intro x hx
    rw [List.mem_map] at hx
    obtain ⟨y, hy, rfl⟩ := hx
    exact hA y (List.mem_filter.mp hy).1
  have h2 : (((M.drop q).filter (fun x => x.2 == j)).map (·.1)).findIdx pred = 0 := by
    apply findIdx_all_true_head
    intro x hx
    rw [List.mem_map] at hx
    obtain ⟨y, hy, rfl⟩ := hx
    exact hB y (List.mem_filter.mp hy).1
  rw [h1, h2]
  simp

theorem seek_fAt (fam : Family lt M k) (pred : E → Bool) (hmono : Mono lt pred) (j : Nat) (c : Ref E)
    (hc : c.xs = childList M j) :
    c.seek pred = fAt M j ((M.map (·.1)).findIdx pred) := by
  unfold Ref.seek fAt
  rw [hc, seek_child fam pred hmono j]

end Blue.Cursor
