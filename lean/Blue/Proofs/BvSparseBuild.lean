import Blue.Proofs.BvSparseNode
/-! `from_indices` builds a `Tree`: the leaf loop, one round of grouping, the loop over levels, and
    `new`'s skip factors. -/
namespace Blue.BvSparse

/-! ### the leaf loop -/

theorem leafChunks_nil (branch : Nat) (acc : List Nat) :
    leafChunks branch [] acc = if acc.isEmpty then [] else [acc] := rfl

theorem leafChunks_cons (branch i : Nat) (rest acc : List Nat) :
    leafChunks branch (i :: rest) acc
      = if (acc ++ [i]).length ≥ branch then (acc ++ [i]) :: leafChunks branch rest []
        else leafChunks branch rest (acc ++ [i]) := rfl

/-- the leaves hold the indices in order, `branch` per leaf except possibly the last -/
theorem leafChunks_spec (branch : Nat) (hb : 0 < branch) : ∀ (l acc : List Nat), acc.length < branch →
    (leafChunks branch l acc).flatten = acc ++ l
    ∧ FullButLast branch (leafChunks branch l acc)
    ∧ (∀ C ∈ leafChunks branch l acc, C.length ≤ branch)
    ∧ (acc ++ l ≠ [] → leafChunks branch l acc ≠ [])
  | [], acc, hacc => by
    rw [leafChunks_nil]
    cases acc with
    | nil => simp [FullButLast]
    | cons a t =>
      simp only [List.isEmpty_cons, Bool.false_eq_true, if_false]
      refine ⟨by simp, ?_, ?_, by simp⟩
      · exact fullButLast_cons.mpr ⟨by simp, fun h => absurd rfl h, trivial⟩
      · intro C hC
        simp at hC
        subst hC
        omega
  | i :: rest, acc, hacc => by
    rw [leafChunks_cons]
    have hl : (acc ++ [i]).length = acc.length + 1 := by simp
    by_cases h : (acc ++ [i]).length ≥ branch
    · rw [if_pos h]
      obtain ⟨h1, h2, h3, _⟩ := leafChunks_spec branch hb rest [] (by simpa using hb)
      refine ⟨?_, ?_, ?_, by simp⟩
      · rw [List.flatten_cons, h1]; simp
      · exact fullButLast_cons.mpr ⟨by simp, fun _ => by omega, h2⟩
      · intro C hC
        rcases List.mem_cons.mp hC with rfl | hC
        · omega
        · exact h3 C hC
    · rw [if_neg h]
      obtain ⟨h1, h2, h3, h4⟩ := leafChunks_spec branch hb rest (acc ++ [i]) (by omega)
      refine ⟨?_, h2, h3, ?_⟩
      · rw [h1]; simp
      · intro _
        apply h4
        simp

/-- the level-1 `pointers` against the leaf contents -/
theorem kidsRel_leaves (branch : Nat) : ∀ (Cs : List (List Nat)), FullButLast branch Cs →
    (∀ C ∈ Cs, C.length ≤ branch) →
    KidsRel (Tree branch 0) (branch ^ (0 + 1)) (Cs.map (fun c => Node.leaf (pushSlice branch c))) Cs
  | [], _, _ => trivial
  | C :: Cs, hfull, hle => by
    obtain ⟨hne, hlen, hfullR⟩ := fullButLast_cons.mp hfull
    rw [List.map_cons]
    refine kidsRel_cons.mpr ⟨tree_zero.mpr ⟨hne, hle C List.mem_cons_self, rfl⟩, ?_,
      kidsRel_leaves branch Cs hfullR (fun C' hC' => hle C' (List.mem_cons_of_mem _ hC'))⟩
    intro hnds
    rw [Nat.zero_add, Nat.pow_one]
    apply hlen
    intro hnil
    subst hnil
    exact hnds rfl

/-- the level-1 `dividers` are the dividers of the leaves plus the last leaf's last index -/
theorem map_getLastD_eq : ∀ (Cs : List (List Nat)),
    ∃ extra, Cs.map (fun c => c.getLastD 0) = dividersOf Cs ++ extra
  | [] => ⟨[], rfl⟩
  | [C] => ⟨[C.getLastD 0], rfl⟩
  | C :: C' :: Cs => by
    obtain ⟨extra, h⟩ := map_getLastD_eq (C' :: Cs)
    refine ⟨extra, ?_⟩
    rw [List.map_cons, h, dividersOf_cons2, List.cons_append]

/-! ### one round of grouping -/

/-- cutting the first children off a level: they are all full -/
theorem kidsRel_split {P : Node → List Nat → Prop} {s : Nat} : ∀ (G R : List Node) (Cs : List (List Nat)),
    R ≠ [] → KidsRel P s (G ++ R) Cs →
    ∃ CsG CsR, Cs = CsG ++ CsR ∧ KidsRel P s G CsG ∧ (∀ C ∈ CsG, C.length = s) ∧ KidsRel P s R CsR
  | [], R, Cs, _, h => ⟨[], Cs, rfl, trivial, by simp, h⟩
  | g :: G, R, [], _, h => by cases h
  | g :: G, R, C :: Cs, hR, h => by
    rw [List.cons_append] at h
    obtain ⟨h1, h2, h3⟩ := kidsRel_cons.mp h
    obtain ⟨CsG, CsR, hCs, hG, hfull, hRr⟩ := kidsRel_split G R Cs hR h3
    have hC : C.length = s := h2 (by simp [hR])
    refine ⟨C :: CsG, CsR, by rw [hCs]; rfl, kidsRel_cons.mpr ⟨h1, fun _ => hC, hG⟩, ?_, hRr⟩
    intro C' hC'
    rcases List.mem_cons.mp hC' with rfl | hC'
    · exact hC
    · exact hfull C' hC'

/-- the dividers of a level split at a group boundary: the group's own dividers, the divider
    pushed upwards (the last value of the group), the rest -/
theorem dividersOf_append : ∀ (CsG CsR : List (List Nat)), CsG ≠ [] → CsR ≠ [] → (∀ C ∈ CsG, C ≠ []) →
    dividersOf (CsG ++ CsR) = dividersOf CsG ++ CsG.flatten.getLastD 0 :: dividersOf CsR
  | [], _, h, _, _ => absurd rfl h
  | [C], CsR, _, hR, _ => by
    cases CsR with
    | nil => exact absurd rfl hR
    | cons C' CsR' =>
      show dividersOf (C :: C' :: CsR') = _
      rw [dividersOf_cons2]
      simp [dividersOf]
  | C :: C2 :: G, CsR, _, hR, hne => by
    have ih := dividersOf_append (C2 :: G) CsR (by simp) hR (fun C' hC' => hne C' (List.mem_cons_of_mem _ hC'))
    show dividersOf (C :: C2 :: (G ++ CsR)) = _
    rw [dividersOf_cons2]
    have : C2 :: (G ++ CsR) = (C2 :: G) ++ CsR := rfl
    rw [this, ih, dividersOf_cons2, List.cons_append]
    have hne2 : (C2 :: G).flatten ≠ [] := by
      rw [List.flatten_cons]
      intro hnil
      exact hne C2 (by simp) (List.append_eq_nil_iff.mp hnil).1
    rw [List.flatten_cons (l := C), getLastD_append_of_ne_nil _ _ _ hne2]

theorem groupLoop_succ_cons (branch f : Nat) (divs : List Nat) (p0 : Node) (ps : List Node) :
    groupLoop branch (f + 1) divs (p0 :: ps)
      = if branch < ps.length + 1 then
          ((divs.getD (branch - 1) 0 :: (groupLoop branch f (divs.drop branch) (ps.drop (branch - 1))).1),
           (mkInternal branch (divs.take (branch - 1)) p0 (ps.take (branch - 1))
              :: (groupLoop branch f (divs.drop branch) (ps.drop (branch - 1))).2))
        else ([], [mkInternal branch (divs.take ps.length) p0 ps]) := rfl

/-- a group of children of height `h` makes a subtree of height `h + 1` -/
theorem tree_of_group (branch h : Nat) (p0 : Node) (ps : List Node) (Cs : List (List Nat))
    (hps : ps.length + 1 ≤ branch) (hk : KidsRel (Tree branch h) (branch ^ (h + 1)) (p0 :: ps) Cs) :
    Tree branch (h + 1) (mkInternal branch (dividersOf Cs) p0 ps) Cs.flatten :=
  tree_succ.mpr ⟨p0, ps, Cs, hps, hk, rfl, rfl⟩

/-- **one round of the level loop**: from the nodes of height `h` holding the pieces `Cs` (with
    `dividers` = their dividers, possibly followed by the last piece's last value) to the nodes of
    height `h + 1`, holding the same values, with exactly their dividers; fewer nodes than before. -/
theorem groupLoop_spec (branch : Nat) (hb : 4 ≤ branch) (h : Nat) :
    ∀ (fuel : Nat) (ptrs : List Node) (divs : List Nat) (Cs : List (List Nat)) (extra : List Nat),
      ptrs.length ≤ fuel → ptrs ≠ [] → KidsRel (Tree branch h) (branch ^ (h + 1)) ptrs Cs →
      divs = dividersOf Cs ++ extra →
      ∃ Cs', KidsRel (Tree branch (h + 1)) (branch ^ (h + 1 + 1)) (groupLoop branch fuel divs ptrs).2 Cs'
        ∧ Cs'.flatten = Cs.flatten
        ∧ (groupLoop branch fuel divs ptrs).1 = dividersOf Cs'
        ∧ 1 ≤ (groupLoop branch fuel divs ptrs).2.length
        ∧ (groupLoop branch fuel divs ptrs).2.length ≤ ptrs.length
        ∧ (2 ≤ ptrs.length → (groupLoop branch fuel divs ptrs).2.length < ptrs.length) := by
  intro fuel
  induction fuel with
  | zero =>
    intro ptrs divs Cs extra hf hne
    cases ptrs with
    | nil => exact absurd rfl hne
    | cons _ _ => simp at hf
  | succ f ih =>
    intro ptrs divs Cs extra hf hne hk hdivs
    cases ptrs with
    | nil => exact absurd rfl hne
    | cons p0 ps =>
      rw [groupLoop_succ_cons]
      have hklen := kidsRel_length hk
      by_cases hcut : branch < ps.length + 1
      · rw [if_pos hcut]
        simp only
        -- the group and the rest
        have hsplit : p0 :: ps = (p0 :: ps.take (branch - 1)) ++ ps.drop (branch - 1) := by
          rw [List.cons_append, List.take_append_drop]
        have hRne : ps.drop (branch - 1) ≠ [] := by
          intro hnil
          have := congrArg List.length hnil
          simp at this
          omega
        rw [hsplit] at hk
        obtain ⟨CsG, CsR, hCs, hG, hGfull, hR⟩ := kidsRel_split _ _ Cs hRne hk
        have hGlen := kidsRel_length hG
        have hRlen := kidsRel_length hR
        have htake : (ps.take (branch - 1)).length = branch - 1 := by
          rw [List.length_take]; omega
        have hGlen' : CsG.length = branch := by
          simp only [List.length_cons] at hGlen
          omega
        have hGne : CsG ≠ [] := by
          intro hnil; subst hnil; simp at hGlen'; omega
        have hRne' : CsR ≠ [] := by
          intro hnil; subst hnil
          cases hd : ps.drop (branch - 1) with
          | nil => exact hRne hd
          | cons _ _ => rw [hd] at hR; cases hR
        have hGpieces : ∀ C ∈ CsG, C ≠ [] := by
          intro C hC
          obtain ⟨nd, hnd⟩ := kidsRel_mem hG C hC
          exact tree_ne_nil nd C hnd
        -- the dividers
        have hdl : (dividersOf CsG).length = branch - 1 := by rw [dividersOf_length]; omega
        have hdivs' : divs = dividersOf CsG ++ (CsG.flatten.getLastD 0 :: (dividersOf CsR ++ extra)) := by
          rw [hdivs, hCs, dividersOf_append CsG CsR hGne hRne' hGpieces]
          simp
        have h1 : divs.take (branch - 1) = dividersOf CsG := by
          rw [hdivs']; exact List.take_left' hdl
        have h2 : divs.getD (branch - 1) 0 = CsG.flatten.getLastD 0 := by
          rw [hdivs', List.getD_eq_getElem?_getD, List.getElem?_append_right (by omega), hdl]
          simp
        have h3 : divs.drop branch = dividersOf CsR ++ extra := by
          have : divs = (dividersOf CsG ++ [CsG.flatten.getLastD 0]) ++ (dividersOf CsR ++ extra) := by
            rw [hdivs']; simp
          rw [this]
          exact List.drop_left' (by simp; omega)
        rw [h1, h2, h3]
        have hfR : (ps.drop (branch - 1)).length ≤ f := by
          simp only [List.length_cons] at hf
          rw [List.length_drop]; omega
        obtain ⟨CsR', hkR', hflatR', hdivR', hlen1, hlen2, _⟩ :=
          ih (ps.drop (branch - 1)) (dividersOf CsR ++ extra) CsR extra hfR hRne hR rfl
        generalize groupLoop branch f (dividersOf CsR ++ extra) (ps.drop (branch - 1)) = res at *
        have hR'len := kidsRel_length hkR'
        have hGtree : Tree branch (h + 1) (mkInternal branch (dividersOf CsG) p0 (ps.take (branch - 1))) CsG.flatten :=
          tree_of_group branch h p0 _ CsG (by omega) hG
        have hGsize : CsG.flatten.length = branch ^ (h + 1 + 1) := by
          rw [flatten_length_full _ CsG hGfull, hGlen', Nat.mul_comm]; rfl
        refine ⟨CsG.flatten :: CsR', kidsRel_cons.mpr ⟨hGtree, fun _ => hGsize, hkR'⟩, ?_, ?_, ?_, ?_, ?_⟩
        · rw [List.flatten_cons, hflatR', hCs, List.flatten_append]
        · cases CsR' with
          | nil => rw [List.length_nil] at hR'len; omega
          | cons C' CsR'' => rw [dividersOf_cons2, hdivR']
        · simp
        · simp only [List.length_cons]
          rw [List.length_drop] at hlen2
          omega
        · intro _
          simp only [List.length_cons]
          rw [List.length_drop] at hlen2
          omega
      · rw [if_neg hcut]
        simp only
        have hdl : (dividersOf Cs).length = ps.length := by
          rw [dividersOf_length]; simp at hklen; omega
        have h1 : divs.take ps.length = dividersOf Cs := by
          rw [hdivs]; exact List.take_left' hdl
        rw [h1]
        refine ⟨[Cs.flatten], ?_, by simp, rfl, by simp, by simp, by simp; omega⟩
        exact kidsRel_cons.mpr ⟨tree_of_group branch h p0 ps Cs (by omega) hk, fun hh => absurd rfl hh, trivial⟩

/-! ### the loop over levels -/

theorem levelLoop_zero (branch : Nat) (divs : List Nat) (ptrs : List Node) (levels : Nat) :
    levelLoop branch 0 divs ptrs levels = (ptrs, levels) := rfl

theorem levelLoop_succ (branch f : Nat) (divs : List Nat) (ptrs : List Node) (levels : Nat) :
    levelLoop branch (f + 1) divs ptrs levels
      = if ptrs.length > 1 then
          levelLoop branch f (groupLoop branch ptrs.length divs ptrs).1 (groupLoop branch ptrs.length divs ptrs).2
            (levels + 1)
        else (ptrs, levels) := rfl

theorem kidsRel_single {P : Node → List Nat → Prop} {s : Nat} (ptrs : List Node) (Cs : List (List Nat))
    (hne : ptrs ≠ []) (hlen : ptrs.length ≤ 1) (hk : KidsRel P s ptrs Cs) :
    ∃ root, ptrs = [root] ∧ P root Cs.flatten := by
  cases ptrs with
  | nil => exact absurd rfl hne
  | cons root rest =>
    cases rest with
    | cons _ _ => simp at hlen
    | nil =>
      cases Cs with
      | nil => cases hk
      | cons C Cs' =>
        obtain ⟨h1, _, h3⟩ := kidsRel_cons.mp hk
        cases Cs' with
        | cons _ _ => cases h3
        | nil => exact ⟨root, rfl, by simpa using h1⟩

/-- **the level loop** ends with a single node: the root of a `Tree` over all the values, and
    `levels` is its height plus one -/
theorem levelLoop_spec (branch : Nat) (hb : 4 ≤ branch) (I : List Nat) :
    ∀ (fuel h : Nat) (ptrs : List Node) (divs : List Nat) (Cs : List (List Nat)) (extra : List Nat),
      ptrs.length ≤ fuel + 1 → ptrs ≠ [] → KidsRel (Tree branch h) (branch ^ (h + 1)) ptrs Cs →
      Cs.flatten = I → divs = dividersOf Cs ++ extra →
      ∃ h' root, levelLoop branch fuel divs ptrs (h + 1) = ([root], h' + 1) ∧ Tree branch h' root I := by
  intro fuel
  induction fuel with
  | zero =>
    intro h ptrs divs Cs extra hf hne hk hflat _
    obtain ⟨root, hroot, ht⟩ := kidsRel_single ptrs Cs hne (by omega) hk
    rw [levelLoop_zero, hroot]
    exact ⟨h, root, rfl, hflat ▸ ht⟩
  | succ f ih =>
    intro h ptrs divs Cs extra hf hne hk hflat hdivs
    rw [levelLoop_succ]
    by_cases hlen : ptrs.length > 1
    · rw [if_pos hlen]
      obtain ⟨Cs', hk', hflat', hdivs', hl1, _, hl3⟩ :=
        groupLoop_spec branch hb h ptrs.length ptrs divs Cs extra (Nat.le_refl _) hne hk hdivs
      have hne' : (groupLoop branch ptrs.length divs ptrs).2 ≠ [] := by
        intro hnil
        rw [hnil] at hl1
        simp at hl1
      exact ih (h + 1) _ _ Cs' [] (by have := hl3 (by omega); omega) hne' hk' (by rw [hflat', hflat])
        (by rw [hdivs']; simp)
    · rw [if_neg hlen]
      obtain ⟨root, hroot, ht⟩ := kidsRel_single ptrs Cs hne (by omega) hk
      rw [hroot]
      exact ⟨h, root, rfl, hflat ▸ ht⟩

/-! ### `from_indices` -/

/-- **`from_indices` succeeds** on every admissible input with at least one index and writes a
    `Tree` over the indices whose height is `levels - 1` -/
theorem fromIndices_spec (branch len : Nat) (I : List Nat) (hb1 : 4 ≤ branch) (hb2 : branch < 256)
    (hne : I ≠ []) (hs : Sorted I) (hlen : I.getLastD 0 ≤ len) :
    ∃ h root, fromIndices branch len I = some (some root, h + 1) ∧ Tree branch h root I := by
  obtain ⟨hflat, hfull, hle, hcne⟩ := leafChunks_spec branch (by omega) I [] (by simpa using (show 0 < branch by omega))
  rw [List.nil_append] at hflat hcne
  obtain ⟨extra, hextra⟩ := map_getLastD_eq (leafChunks branch I [])
  have hk := kidsRel_leaves branch (leafChunks branch I []) hfull hle
  have hpne : (leafChunks branch I []).map (fun c => Node.leaf (pushSlice branch c)) ≠ [] := by
    intro hnil
    exact hcne hne (List.map_eq_nil_iff.mp hnil)
  obtain ⟨h', root, hloop, ht⟩ := levelLoop_spec branch hb1 I (leafChunks branch I []).length 0 _ _ _ extra
    (by simp) hpne hk hflat hextra
  refine ⟨h', root, ?_, ht⟩
  unfold fromIndices
  rw [if_neg (fun hn => hn ⟨hb1, hb2⟩)]
  have hemp : I.isEmpty = false := by
    cases I with
    | nil => exact absurd rfl hne
    | cons _ _ => rfl
  rw [hemp]
  simp only [Bool.false_eq_true, if_false]
  rw [if_neg (by omega)]
  have hsi : strictlyIncreasing I = true := (strictlyIncreasing_iff I).mpr hs
  rw [hsi]
  simp only [Bool.not_true, Bool.false_eq_true, if_false]
  rw [hloop]

theorem fromIndices_nil (branch len : Nat) (hb1 : 4 ≤ branch) (hb2 : branch < 256) :
    fromIndices branch len [] = some (none, 0) := by
  unfold fromIndices
  rw [if_neg (fun hn => hn ⟨hb1, hb2⟩)]
  rfl

/-- where `from_indices` returns `None` -/
theorem fromIndices_isSome_iff (branch len : Nat) (I : List Nat) :
    (fromIndices branch len I).isSome = true
      ↔ (4 ≤ branch ∧ branch < 256) ∧ (I = [] ∨ (I.getLastD 0 ≤ len ∧ Sorted I)) := by
  constructor
  · intro h
    unfold fromIndices at h
    by_cases hb : 4 ≤ branch ∧ branch < 256
    · refine ⟨hb, ?_⟩
      rw [if_neg (fun hn => hn hb)] at h
      cases I with
      | nil => exact Or.inl rfl
      | cons a t =>
        right
        simp only [List.isEmpty_cons, Bool.false_eq_true, if_false] at h
        by_cases hl : len < (a :: t).getLastD 0
        · rw [if_pos hl] at h; cases h
        · rw [if_neg hl] at h
          cases hsi : strictlyIncreasing (a :: t) with
          | false => rw [hsi] at h; cases h
          | true => exact ⟨by omega, (strictlyIncreasing_iff _).mp hsi⟩
    · rw [if_pos hb] at h; cases h
  · intro ⟨⟨hb1, hb2⟩, h⟩
    by_cases hne : I = []
    · subst hne
      rw [fromIndices_nil branch len hb1 hb2]; rfl
    · rcases h with h | ⟨h1, h2⟩
      · exact absurd h hne
      · obtain ⟨h', root, heq, _⟩ := fromIndices_spec branch len I hb1 hb2 hne h2 h1
        rw [heq]; rfl

/-! ### `new`: the skip factors -/

theorem skipLoop_zero (branch cur : Nat) : skipLoop branch 0 cur = [cur] := rfl

theorem skipLoop_succ (branch f cur : Nat) :
    skipLoop branch (f + 1) cur = if cur > 1 then cur :: skipLoop branch f (cur / branch) else [cur] := rfl

theorem skipLoop_pow (branch : Nat) (hb : 2 ≤ branch) : ∀ (h fuel : Nat), h < fuel →
    skipLoop branch fuel (branch ^ h) = skips branch h ++ [1]
  | 0, fuel, hf => by
    cases fuel with
    | zero => omega
    | succ f =>
      rw [skipLoop_succ, Nat.pow_zero, if_neg (by omega)]
      rfl
  | h + 1, fuel, hf => by
    cases fuel with
    | zero => omega
    | succ f =>
      have hgt : branch ^ (h + 1) > 1 := Nat.one_lt_pow (by omega) (by omega)
      rw [skipLoop_succ, if_pos hgt]
      have hdiv : branch ^ (h + 1) / branch = branch ^ h := by
        rw [Nat.pow_succ]; exact Nat.mul_div_cancel _ (by omega)
      rw [hdiv, skipLoop_pow branch hb h f (by omega), skips_succ, List.cons_append]

/-- `new` computes `[branch^(levels-1), …, branch]` -/
theorem skipFactors_succ (branch : Nat) (hb : 2 ≤ branch) (h : Nat) :
    skipFactors branch (h + 1) = skips branch h := by
  unfold skipFactors
  rw [if_pos (by omega), Nat.add_sub_cancel, skipLoop_pow branch hb h (h + 1) (by omega), List.dropLast_concat]

theorem skipFactors_zero (branch : Nat) : skipFactors branch 0 = [] := rfl

end Blue.BvSparse
