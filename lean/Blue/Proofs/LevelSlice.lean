import Blue.Proofs.LoadVisible
/-! **C01** `Version::load` on a level below level 0: the files between `lower_bound(key)` and
    `upper_bound(key)` (two `partition_point`s) are searched in order.  Under I1 (files sorted,
    ranges may touch at one key) that finds what searching the whole level would find — also for a
    key whose versions straddle two files. -/
namespace Blue.Spec

structure TFile where
  first : Nat
  last : Nat
  vers : List (Ver Nat)

def TFile.Wf (f : TFile) : Prop := f.first ≤ f.last ∧ ∀ v ∈ f.vers, f.first ≤ v.1 ∧ v.1 ≤ f.last

/-- I1 for one level: sorted, ranges at most touching -/
def LevelSorted (l : List TFile) : Prop := l.Pairwise (fun a b => a.last ≤ b.first)

/-- `partition_point(|x| key > x.last_key)` -/
def lowerBound (l : List TFile) (k : Nat) : Nat := (l.takeWhile (fun f => decide (f.last < k))).length
/-- `partition_point(|x| key >= x.first_key)` -/
def upperBound (l : List TFile) (k : Nat) : Nat := (l.takeWhile (fun f => decide (f.first ≤ k))).length

/-- `level.ssts[lower_bound..upper_bound]` -/
def slice (l : List TFile) (k : Nat) : List TFile :=
  (l.drop (lowerBound l k)).take (upperBound l k - lowerBound l k)

theorem lookupComp_nokey (c : List (Ver Nat)) (k t : Nat) (h : ∀ v ∈ c, v.1 ≠ k) :
    lookupComp c k t = none := by
  unfold lookupComp
  generalize (none : Option (Ver Nat)) = best
  induction c generalizing best with
  | nil => rfl
  | cons e c ih =>
    simp only [List.foldl_cons]
    rw [if_neg (fun hc => h e List.mem_cons_self hc.1)]
    exact ih (fun v hv => h v (List.mem_cons_of_mem _ hv)) best

theorem load_skip_prefix (pre rest : List (List (Ver Nat))) (k t : Nat)
    (h : ∀ c ∈ pre, ∀ v ∈ c, v.1 ≠ k) : load (pre ++ rest) k t = load rest k t := by
  induction pre with
  | nil => rfl
  | cons c pre ih =>
    simp only [List.cons_append, load]
    rw [lookupComp_nokey c k t (h c List.mem_cons_self)]
    exact ih (fun c' hc' => h c' (List.mem_cons_of_mem _ hc'))

theorem load_skip_suffix (mid post : List (List (Ver Nat))) (k t : Nat)
    (h : ∀ c ∈ post, ∀ v ∈ c, v.1 ≠ k) : load (mid ++ post) k t = load mid k t := by
  induction mid with
  | nil =>
    have := load_skip_prefix post [] k t h
    simpa using this
  | cons c mid ih =>
    simp only [List.cons_append, load]
    rw [ih]

theorem take_len_takeWhile (p : TFile → Bool) : ∀ (l : List TFile),
    l.take (l.takeWhile p).length = l.takeWhile p
  | [] => rfl
  | x :: xs => by
    simp only [List.takeWhile_cons]
    split
    · simp only [List.length_cons, List.take_succ_cons]; rw [take_len_takeWhile p xs]
    · rfl

theorem drop_len_takeWhile (p : TFile → Bool) : ∀ (l : List TFile),
    l.drop (l.takeWhile p).length = l.dropWhile p
  | [] => rfl
  | x :: xs => by
    simp only [List.takeWhile_cons, List.dropWhile_cons]
    split
    · simp only [List.length_cons, List.drop_succ_cons]; exact drop_len_takeWhile p xs
    · rfl

theorem mem_takeWhile_sat (p : TFile → Bool) : ∀ (l : List TFile) (x : TFile), x ∈ l.takeWhile p → p x = true
  | [], _, h => by cases h
  | y :: ys, x, h => by
    simp only [List.takeWhile_cons] at h
    split at h
    · rcases List.mem_cons.mp h with rfl | h'
      · assumption
      · exact mem_takeWhile_sat p ys x h'
    · cases h

/-- everything from the upper bound on starts after the key -/
theorem after_upper (k : Nat) : ∀ (l : List TFile), LevelSorted l → (∀ f ∈ l, f.Wf) →
    ∀ f ∈ l.dropWhile (fun f => decide (f.first ≤ k)), k < f.first
  | [], _, _, f, h => by cases h
  | x :: xs, hs, hw, f, h => by
    unfold LevelSorted at hs
    rw [List.pairwise_cons] at hs
    simp only [List.dropWhile_cons] at h
    split at h
    · exact after_upper k xs hs.2 (fun g hg => hw g (List.mem_cons_of_mem _ hg)) f h
    · rename_i hx
      have hxk : k < x.first := by simpa using hx
      rcases List.mem_cons.mp h with rfl | h'
      · exact hxk
      · have := hs.1 f h'
        have := (hw x List.mem_cons_self).1
        omega

/-- **C01** the slice finds what the level holds -/
theorem slice_load (l : List TFile) (hs : LevelSorted l) (hw : ∀ f ∈ l, f.Wf) (k t : Nat) :
    load ((slice l k).map (·.vers)) k t = load (l.map (·.vers)) k t := by
  unfold slice
  have hsplit : l = l.take (lowerBound l k) ++
      ((l.drop (lowerBound l k)).take (upperBound l k - lowerBound l k)
        ++ (l.drop (lowerBound l k)).drop (upperBound l k - lowerBound l k)) := by
    rw [List.take_append_drop, List.take_append_drop]
  conv => rhs; rw [hsplit]
  rw [List.map_append, List.map_append]
  rw [load_skip_prefix, load_skip_suffix]
  · -- the tail: from the upper bound on
    intro c hc v hv
    obtain ⟨f, hf, rfl⟩ := List.mem_map.mp hc
    rw [List.drop_drop] at hf
    have hge : upperBound l k ≤ lowerBound l k + (upperBound l k - lowerBound l k) := by omega
    have hmem : f ∈ l.drop (upperBound l k) := by
      have : l.drop (lowerBound l k + (upperBound l k - lowerBound l k))
          = (l.drop (upperBound l k)).drop (lowerBound l k + (upperBound l k - lowerBound l k) - upperBound l k) := by
        rw [List.drop_drop]; congr 1; omega
      rw [this] at hf
      exact List.mem_of_mem_drop hf
    unfold upperBound at hmem
    rw [drop_len_takeWhile] at hmem
    have h1 := after_upper k l hs hw f hmem
    have h2 := (hw f ((List.dropWhile_sublist _).subset hmem)).2 v hv
    omega
  · -- the head: before the lower bound
    intro c hc v hv
    obtain ⟨f, hf, rfl⟩ := List.mem_map.mp hc
    unfold lowerBound at hf
    rw [take_len_takeWhile] at hf
    have h1 := mem_takeWhile_sat _ l f hf
    have h1' : f.last < k := by simpa using h1
    have h2 := (hw f ((List.takeWhile_prefix _).subset hf)).2 v hv
    omega

theorem load_append (a b : List (List (Ver Nat))) (k t : Nat) :
    load (a ++ b) k t = match load a k t with
      | some e => some e
      | none => load b k t := by
  induction a with
  | nil => rfl
  | cons c a ih =>
    simp only [List.cons_append, load]
    cases lookupComp c k t with
    | some e => rfl
    | none => exact ih

/-- `Version::load`: level 0 (given in search order), then each deeper level's slice -/
def treeLoad (l0 : List (List (Ver Nat))) (levels : List (List TFile)) (k t : Nat) : Option (Ver Nat) :=
  load (l0 ++ levels.flatMap (fun l => (slice l k).map (·.vers))) k t

/-- **C01** the tree lookup is the early-exit lookup over *all* files in search order; together
    with `load_visible` it returns the visible version whenever the tree is "newer above" -/
theorem treeLoad_eq (l0 : List (List (Ver Nat))) (levels : List (List TFile))
    (hs : ∀ l ∈ levels, LevelSorted l) (hw : ∀ l ∈ levels, ∀ f ∈ l, f.Wf) (k t : Nat) :
    treeLoad l0 levels k t = load (l0 ++ levels.flatMap (fun l => l.map (·.vers))) k t := by
  unfold treeLoad
  rw [load_append, load_append l0]
  cases load l0 k t with
  | some e => rfl
  | none =>
    simp only
    induction levels with
    | nil => rfl
    | cons l ls ih =>
      simp only [List.flatMap_cons]
      rw [load_append, load_append (l.map (·.vers))]
      rw [slice_load l (hs l List.mem_cons_self) (hw l List.mem_cons_self)]
      cases load (l.map (·.vers)) k t with
      | some e => rfl
      | none =>
        exact ih (fun l' hl' => hs l' (List.mem_cons_of_mem _ hl'))
          (fun l' hl' => hw l' (List.mem_cons_of_mem _ hl'))

/-- non-vacuity: key 5 has versions in two adjacent files (the newer ones in the earlier file);
    the slice holds both files and the read at timestamp 6 finds the version in the second -/
example :
    let l : List TFile := [⟨1, 5, [(1, 9), (5, 8), (5, 7)]⟩, ⟨5, 9, [(5, 6), (5, 2), (9, 1)]⟩, ⟨12, 20, [(12, 3)]⟩]
    (slice l 5).length = 2 ∧ load ((slice l 5).map (·.vers)) 5 6 = some (5, 6) := by decide

/-- Appendix-B mutant: `key > last_key` → `key >= last_key` in `lower_bound` skips the file whose
    last key is the key looked up -/
def lowerBoundBad (l : List TFile) (k : Nat) : Nat := (l.takeWhile (fun f => decide (f.last ≤ k))).length

theorem lower_bound_mutant_misses :
    let l : List TFile := [⟨1, 5, [(1, 9), (5, 8)]⟩, ⟨7, 9, [(9, 1)]⟩]
    load (l.map (·.vers)) 5 10 = some (5, 8)
    ∧ load (((l.drop (lowerBoundBad l 5)).take (upperBound l 5 - lowerBoundBad l 5)).map (·.vers)) 5 10 = none := by
  decide

end Blue.Spec

#print axioms Blue.Spec.slice_load
#print axioms Blue.Spec.treeLoad_eq
