import Blue.Model.StoreHist
import Blue.Proofs.Kvs
import Blue.Proofs.NextCompactionMain
/-! **C01** at history level: the invariant of `Blue.StoreHist` is preserved by every operation and
    the point read of the reached state is the last write of the history. -/
namespace Blue.StoreHist
open Blue.Spec Blue.Kvs

/-! ## level 0: a file newer than every file of level 0 is searched first -/

theorem l0Order_cons_top (f : KFile) (l0 : List KFile) (h : ∀ g ∈ l0, g.bts < f.bts) :
    l0Order (f :: l0) = f :: l0Order l0 := by
  unfold l0Order
  have trans : ∀ a b c : KFile, decide (a.bts ≤ b.bts) = true → decide (b.bts ≤ c.bts) = true →
      decide (a.bts ≤ c.bts) = true := by
    intro a b c h1 h2; simp only [decide_eq_true_eq] at *; omega
  have total : ∀ a b : KFile, (decide (a.bts ≤ b.bts) || decide (b.bts ≤ a.bts)) = true := by
    intro a b; simp only [Bool.or_eq_true, decide_eq_true_eq]; omega
  obtain ⟨l₁, l₂, h1, h2, _⟩ :=
    List.mergeSort_cons (le := fun a b : KFile => decide (a.bts ≤ b.bts)) trans total f l0
  have hp := List.pairwise_mergeSort (le := fun a b : KFile => decide (a.bts ≤ b.bts)) trans total (f :: l0)
  rw [h1] at hp
  have hl2 : l₂ = [] := by
    cases l₂ with
    | nil => rfl
    | cons b t =>
      exfalso
      have hb : b ∈ l0 := by
        have : b ∈ List.mergeSort l0 (fun a b => decide (a.bts ≤ b.bts)) := by rw [h2]; simp
        exact List.mem_mergeSort.mp this
      rw [List.pairwise_append] at hp
      have h3 := (List.pairwise_cons.mp hp.2.1).1 b (by simp)
      simp only [decide_eq_true_eq] at h3
      have := h b hb
      omega
  subst hl2
  rw [h1, h2]; simp

theorem le_maxTs : ∀ (c : List (Ver Nat)), ∀ v ∈ c, v.2 ≤ maxTs c
  | [], _, h => by cases h
  | a :: c, v, h => by
    have e : maxTs (a :: c) = max a.2 (maxTs c) := rfl
    rw [e]
    rcases List.mem_cons.mp h with rfl | h
    · exact Nat.le_max_left _ _
    · exact Nat.le_trans (le_maxTs c v h) (Nat.le_max_right _ _)

theorem maxTs_mem : ∀ (c : List (Ver Nat)), c ≠ [] → ∃ v ∈ c, maxTs c = v.2
  | [], h => absurd rfl h
  | [a], _ => ⟨a, by simp, by simp [maxTs]⟩
  | a :: b :: c, _ => by
    obtain ⟨v, hv, e⟩ := maxTs_mem (b :: c) (by simp)
    have e' : maxTs (a :: b :: c) = max a.2 (maxTs (b :: c)) := rfl
    by_cases hlt : a.2 ≤ maxTs (b :: c)
    · exact ⟨v, List.mem_cons_of_mem _ hv, by rw [e', Nat.max_eq_right hlt, e]⟩
    · exact ⟨a, by simp, by rw [e', Nat.max_eq_left (by omega)]⟩

/-! ## components -/

theorem allComps_eq (s : KState) : allComps s = memComps s ++ treeComps s := rfl

theorem kept_append (p q : Tagged Nat) : kept (p ++ q) = kept p ++ kept q := by
  simp [kept]

theorem inputs_append (p q : Tagged Nat) : inputs (p ++ q) = inputs p ++ inputs q := by
  simp [inputs]

theorem kept_mems (mems : List (List (Ver Nat))) : kept (mems.map (fun m => (false, m))) = mems := by
  induction mems with
  | nil => rfl
  | cons m t ih => simp [kept] at ih ⊢; exact ih

theorem inputs_mems (mems : List (List (Ver Nat))) : inputs (mems.map (fun m => (false, m))) = [] := by
  induction mems with
  | nil => rfl
  | cons m t ih => simp [inputs] at ih ⊢

theorem map_mems (mems : List (List (Ver Nat))) :
    (mems.map (fun m => ((false, m) : Bool × List (Ver Nat)))).map (·.2) = mems := by
  induction mems with
  | nil => rfl
  | cons m t ih => simp only [List.map_cons, ih]


/-! ## the compaction step on component lists -/

/-- memtables on top, a closed compaction below them, the outputs placed to the left of the kept
    components `x` they share no key with: "newer above" is kept -/
theorem compaction_newer (mems : List (List (Ver Nat))) (pre : Tagged Nat)
    (post outs a x : List (List (Ver Nat)))
    (h : NewerAbove (mems ++ (pre.map (·.2) ++ post))) (hclosed : Closed pre)
    (hsame : ∀ e, e ∈ outs.flatten ↔ e ∈ (inputs pre).flatten) (houts : NewerAbove outs)
    (hkept : kept pre = a ++ x) (hdis : ∀ c ∈ x, ∀ d ∈ outs, Disjoint c d) :
    NewerAbove (mems ++ (a ++ outs ++ x ++ post)) := by
  have h1 := compaction_preserves (mems.map (fun m => (false, m)) ++ pre) post outs
    (by rw [List.map_append, map_mems, List.append_assoc]; exact h)
    (Blue.NextCompaction.closed_under_memtables mems pre hclosed)
    (by intro e he; rw [inputs_append, inputs_mems, List.nil_append]; exact (hsame e).mp he) houts
  rw [kept_append, kept_mems, hkept] at h1
  have h2 := swap_disjoint_blocks (mems ++ a) x outs post (by simpa [List.append_assoc] using h1) hdis
  simpa [List.append_assoc] using h2

/-- … and the store holds the same versions -/
theorem compaction_mem (mems : List (List (Ver Nat))) (pre : Tagged Nat)
    (post outs a x : List (List (Ver Nat)))
    (hsame : ∀ e, e ∈ outs.flatten ↔ e ∈ (inputs pre).flatten)
    (hkept : kept pre = a ++ x) (e : Ver Nat) :
    e ∈ (mems ++ (a ++ outs ++ x ++ post)).flatten ↔ e ∈ (mems ++ (pre.map (·.2) ++ post)).flatten := by
  have h := compaction_content pre post outs hsame e
  rw [hkept] at h
  simp only [List.flatten_append, List.mem_append] at h ⊢
  rw [← h]
  simp only [or_assoc, or_comm]


/-! ## the invariant -/

/-- everything below the memtable, in search order -/
def lowComps (s : KState) : List (List (Ver Nat)) :=
  (match s.imm with | some i => [i] | none => []) ++ treeComps s

theorem allComps_cons (s : KState) : allComps s = s.mem :: lowComps s := rfl

theorem mem_flat_low {s : KState} {v : Ver Nat} (h : v ∈ (lowComps s).flatten) :
    v ∈ (allComps s).flatten := by
  rw [allComps_cons, List.flatten_cons]; exact List.mem_append_right _ h

/-- the invariant of the history model: I1, I2 ("newer above" over memtable :: immutable memtable
    :: tree components in search order), the counters, every timestamp published, the memtable
    newer than the immutable memtable (all keys), and the newest-timestamp metadata of level 0
    below both memtables (which is what makes a flushed file the first of level 0) -/
structure Inv (h : HState) : Prop where
  i1 : I1 h.st
  i2 : NewerAbove (allComps h.st)
  vis_le : h.vis ≤ h.seq
  ts_le : ∀ v ∈ (allComps h.st).flatten, v.2 ≤ h.vis
  mem_imm : ∀ i, h.st.imm = some i → ∀ a ∈ h.st.mem, ∀ b ∈ i, b.2 < a.2
  bts_le : ∀ g ∈ h.st.l0, g.bts ≤ h.vis
  bts_lt : ∀ g ∈ h.st.l0, ∀ c ∈ memComps h.st, ∀ a ∈ c, g.bts < a.2

theorem inv_init : Inv init := by
  refine ⟨?_, ?_, Nat.le_refl _, ?_, ?_, ?_, ?_⟩
  · intro l hl; cases hl
  · simp [init, allComps, memComps, l0Comps, l0Order, tLevels, NewerAbove]
  · intro v hv; simp [init, allComps, memComps, l0Comps, l0Order, tLevels] at hv
  · intro i hi; cases hi
  · intro g hg; cases hg
  · intro g hg; cases hg

/-- the versions a batch puts into the memtable -/
def newVers (h : HState) (b : List (Nat × Payload)) : List (Ver Nat) := b.map (fun e => (e.1, h.seq + 1))

def writeSt (h : HState) (b : List (Nat × Payload)) : HState :=
  { st := { h.st with mem := newVers h b ++ h.st.mem }
    seq := h.seq + 1
    vis := h.seq + 1
    pay := fun k t => if t = h.seq + 1 then List.lookup k b else h.pay k t }

theorem apply_write_ok (h : HState) (b : List (Nat × Payload)) (hb : batchOk b = true) :
    apply h (.write b) = writeSt h b := by
  rw [apply.eq_1, if_pos hb]
  rfl

theorem apply_write_bad (h : HState) (b : List (Nat × Payload)) (hb : batchOk b = false) :
    apply h (.write b) = h := by
  rw [apply.eq_1, if_neg (by rw [hb]; exact Bool.false_ne_true)]

theorem newVers_ts {h : HState} {b : List (Nat × Payload)} : ∀ a ∈ newVers h b, a.2 = h.seq + 1 := by
  intro a ha; obtain ⟨x, _, rfl⟩ := List.mem_map.mp ha; rfl

theorem old_lt {h : HState} (inv : Inv h) : ∀ v ∈ (allComps h.st).flatten, v.2 < h.seq + 1 := fun v hv => by
  have := inv.ts_le v hv; have := inv.vis_le; omega

theorem inv_write (h : HState) (b : List (Nat × Payload)) (inv : Inv h) : Inv (apply h (.write b)) := by
  cases hb : batchOk b with
  | false => rw [apply_write_bad h b hb]; exact inv
  | true =>
  rw [apply_write_ok h b hb]
  have e : allComps h.st = h.st.mem :: lowComps h.st := rfl
  have e' : allComps (writeSt h b).st = (newVers h b ++ h.st.mem) :: lowComps h.st := rfl
  have hnew := @newVers_ts h b
  have hold := old_lt inv
  constructor
  · exact inv.i1
  · rw [e']
    have h2 := inv.i2
    rw [e] at h2
    obtain ⟨hab, hrest⟩ := h2
    refine ⟨?_, hrest⟩
    intro a ha d hd b' hb' _
    rcases List.mem_append.mp ha with ha | ha
    · rw [hnew a ha]; exact hold b' (mem_flat_low (List.mem_flatten.mpr ⟨d, hd, hb'⟩))
    · exact hab a ha d hd b' hb' ‹_›
  · exact Nat.le_refl _
  · intro v hv
    rw [e', List.flatten_cons] at hv
    show v.2 ≤ h.seq + 1
    rcases List.mem_append.mp hv with hv | hv
    · rcases List.mem_append.mp hv with hv | hv
      · rw [hnew v hv]; exact Nat.le_refl _
      · have := hold v (by rw [e, List.flatten_cons]; exact List.mem_append_left _ hv); omega
    · have := hold v (mem_flat_low hv); omega
  · intro i hi a ha b' hb'
    have hi' : h.st.imm = some i := hi
    rcases List.mem_append.mp ha with ha | ha
    · rw [hnew a ha]
      apply hold
      apply mem_flat_low
      unfold lowComps
      rw [hi']
      exact List.mem_flatten.mpr ⟨i, by simp, hb'⟩
    · exact inv.mem_imm i hi' a ha b' hb'
  · intro g hg
    have := inv.bts_le g hg
    have := inv.vis_le
    show g.bts ≤ h.seq + 1
    omega
  · intro g hg c hc a ha
    have hg' : g ∈ h.st.l0 := hg
    rcases List.mem_cons.mp hc with rfl | hc
    · rcases List.mem_append.mp ha with ha | ha
      · rw [hnew a ha]; have := inv.bts_le g hg'; have := inv.vis_le; omega
      · exact inv.bts_lt g hg' h.st.mem (List.mem_cons_self ..) a ha
    · exact inv.bts_lt g hg' c (List.mem_cons_of_mem _ hc) a ha


/-! ### rollover -/

def rollSt (h : HState) : HState :=
  { h with st := { h.st with mem := [], imm := some h.st.mem }, seq := h.seq + 1 }

theorem apply_rollover_none (h : HState) (hi : h.st.imm = none) : apply h .rollover = rollSt h := by
  rw [apply.eq_2]
  simp only [hi]
  rfl

theorem apply_rollover_some (h : HState) {i : List (Ver Nat)} (hi : h.st.imm = some i) :
    apply h .rollover = h := by
  rw [apply.eq_2]
  simp only [hi]

theorem allComps_imm_none (s : KState) (hi : s.imm = none) : allComps s = s.mem :: treeComps s := by
  rw [allComps_cons]; unfold lowComps; rw [hi]; rfl

theorem allComps_imm_some (s : KState) {i : List (Ver Nat)} (hi : s.imm = some i) :
    allComps s = s.mem :: i :: treeComps s := by
  rw [allComps_cons]; unfold lowComps; rw [hi]; rfl

theorem allComps_roll (h : HState) : allComps (rollSt h).st = [] :: h.st.mem :: treeComps h.st := rfl

theorem inv_rollover (h : HState) (inv : Inv h) : Inv (apply h .rollover) := by
  cases hi : h.st.imm with
  | some i => rw [apply_rollover_some h hi]; exact inv
  | none =>
  rw [apply_rollover_none h hi]
  have e := allComps_imm_none h.st hi
  have e' := allComps_roll h
  constructor
  · exact inv.i1
  · rw [e']
    refine ⟨?_, ?_⟩
    · intro a ha; cases ha
    · rw [← e]; exact inv.i2
  · have := inv.vis_le; show h.vis ≤ h.seq + 1; omega
  · intro v hv
    rw [e', List.flatten_cons, List.nil_append, ← e] at hv
    exact inv.ts_le v hv
  · intro i _ a ha; cases ha
  · exact inv.bts_le
  · intro g hg c hc a ha
    have hc' : c ∈ [[], h.st.mem] := hc
    simp only [List.mem_cons, List.not_mem_nil, or_false] at hc'
    rcases hc' with rfl | rfl
    · cases ha
    · exact inv.bts_lt g hg h.st.mem (List.mem_cons_self ..) a ha

/-! ### flush -/

def flushNilSt (h : HState) : HState := { h with st := { h.st with imm := none } }

def flushSt (h : HState) (i : List (Ver Nat)) : HState :=
  { h with st := { h.st with imm := none, l0 := flushFile i :: h.st.l0 } }

theorem apply_flush_none (h : HState) (hi : h.st.imm = none) : apply h .flush = h := by
  rw [apply.eq_3]
  simp only [hi]

theorem apply_flush_nil (h : HState) (hi : h.st.imm = some []) : apply h .flush = flushNilSt h := by
  rw [apply.eq_3]
  simp only [hi]
  rfl

theorem apply_flush_cons (h : HState) {v : Ver Nat} {i : List (Ver Nat)} (hi : h.st.imm = some (v :: i)) :
    apply h .flush = flushSt h (v :: i) := by
  rw [apply.eq_3]
  simp only [hi]
  rfl

theorem flush_bts {h : HState} (inv : Inv h) {v : Ver Nat} {i : List (Ver Nat)}
    (hi : h.st.imm = some (v :: i)) : ∀ g ∈ h.st.l0, g.bts < (flushFile (v :: i)).bts := by
  intro g hg
  have h1 := inv.bts_lt g hg (v :: i)
    (by unfold memComps; rw [hi]; exact List.mem_cons_of_mem _ (List.mem_cons_self ..)) v (List.mem_cons_self ..)
  have h2 := le_maxTs (v :: i) v (List.mem_cons_self ..)
  show g.bts < maxTs (v :: i)
  omega

/-- the flushed table is found exactly where the immutable memtable was: the search order does not
    change at all -/
theorem allComps_flush {h : HState} (inv : Inv h) {v : Ver Nat} {i : List (Ver Nat)}
    (hi : h.st.imm = some (v :: i)) : allComps (flushSt h (v :: i)).st = allComps h.st := by
  rw [allComps_imm_some h.st hi]
  have e1 : allComps (flushSt h (v :: i)).st = h.st.mem :: treeComps (flushSt h (v :: i)).st := rfl
  rw [e1]
  have e2 : treeComps (flushSt h (v :: i)).st
      = (l0Order (flushFile (v :: i) :: h.st.l0)).map (·.vers)
        ++ (tLevels h.st).flatMap (fun l => l.map (·.vers)) := rfl
  rw [e2, l0Order_cons_top _ _ (flush_bts inv hi)]
  rfl

theorem inv_flush (h : HState) (inv : Inv h) : Inv (apply h .flush) := by
  cases hi : h.st.imm with
  | none => rw [apply_flush_none h hi]; exact inv
  | some i0 =>
  cases i0 with
  | nil =>
    rw [apply_flush_nil h hi]
    have e := allComps_imm_some h.st hi
    have e' : allComps (flushNilSt h).st = h.st.mem :: treeComps h.st := rfl
    constructor
    · exact inv.i1
    · rw [e']
      have h2 := inv.i2
      rw [e] at h2
      obtain ⟨hab, _, hrest⟩ := h2
      exact ⟨fun a ha d hd => hab a ha d (List.mem_cons_of_mem _ hd), hrest⟩
    · exact inv.vis_le
    · intro v hv
      apply inv.ts_le v
      rw [e]
      rw [e'] at hv
      simpa using hv
    · intro i hi'; cases hi'
    · exact inv.bts_le
    · intro g hg c hc a ha
      have hc' : c ∈ [h.st.mem] := hc
      simp only [List.mem_cons, List.not_mem_nil, or_false] at hc'
      subst hc'
      exact inv.bts_lt g hg h.st.mem (List.mem_cons_self ..) a ha
  | cons v i =>
    rw [apply_flush_cons h hi]
    have e' := allComps_flush inv hi
    have hin : ∀ w ∈ v :: i, w ∈ (allComps h.st).flatten := by
      intro w hw
      rw [allComps_imm_some h.st hi]
      exact List.mem_flatten.mpr ⟨v :: i, by simp, hw⟩
    obtain ⟨w, hw, hmax⟩ := maxTs_mem (v :: i) (by simp)
    constructor
    · exact inv.i1
    · rw [e']; exact inv.i2
    · exact inv.vis_le
    · intro u hu; rw [e'] at hu; exact inv.ts_le u hu
    · intro i' hi'; cases hi'
    · intro g hg
      rcases List.mem_cons.mp hg with rfl | hg
      · show maxTs (v :: i) ≤ h.vis
        rw [hmax]; exact inv.ts_le w (hin w hw)
      · exact inv.bts_le g hg
    · intro g hg c hc a ha
      have hc' : c ∈ [h.st.mem] := hc
      simp only [List.mem_cons, List.not_mem_nil, or_false] at hc'
      subst hc'
      rcases List.mem_cons.mp hg with rfl | hg
      · show maxTs (v :: i) < a.2
        rw [hmax]; exact inv.mem_imm (v :: i) hi a ha w hw
      · exact inv.bts_lt g hg h.st.mem (List.mem_cons_self ..) a ha

/-! ### compaction -/

theorem inv_compact (h : HState) (l0' : List KFile) (levels' : List (List KFile))
    (ok : CompactionOk h.st { h.st with l0 := l0', levels := levels' }) (inv : Inv h) :
    Inv (apply h (.compact l0' levels')) := by
  obtain ⟨pre, post, outs, a, x, _, _, hsplit, hclosed, hsame, houts, hkept, hdis, hplace, hl0, hI1⟩ := ok
  have e : allComps h.st = memComps h.st ++ (pre.map (·.2) ++ post) := by rw [allComps_eq, hsplit]
  have e' : allComps (apply h (.compact l0' levels')).st = memComps h.st ++ (a ++ outs ++ x ++ post) := by
    rw [← hplace]; rfl
  constructor
  · exact hI1
  · rw [e']
    exact compaction_newer (memComps h.st) pre post outs a x (by rw [← e]; exact inv.i2) hclosed hsame houts hkept hdis
  · exact inv.vis_le
  · intro v hv
    rw [e', compaction_mem (memComps h.st) pre post outs a x hsame hkept, ← e] at hv
    exact inv.ts_le v hv
  · exact inv.mem_imm
  · intro g hg; exact inv.bts_le g (hl0 g hg)
  · intro g hg; exact inv.bts_lt g (hl0 g hg)

theorem inv_step (h : HState) (op : Op) (ok : OpOk h op) (inv : Inv h) : Inv (apply h op) := by
  cases op with
  | write b => exact inv_write h b inv
  | rollover => exact inv_rollover h inv
  | flush => exact inv_flush h inv
  | compact l0' levels' => exact inv_compact h l0' levels' ok inv


/-! ## refinement: the store holds, for every key, the version of its last write on top -/

/-- the relation between a store state and the specification map: a key never written has no
    version anywhere; a key last written at `ts` with payload `p` has the version `(key, ts)`, no
    version newer than that, and the payload map says `p` -/
structure Rel (h : HState) (m : SpecMap) : Prop where
  absent : ∀ k, m k = none → ∀ e ∈ (allComps h.st).flatten, e.1 ≠ k
  present : ∀ k ts p, m k = some (ts, p) →
    (k, ts) ∈ (allComps h.st).flatten ∧ (∀ e ∈ (allComps h.st).flatten, e.1 = k → e.2 ≤ ts)
      ∧ h.pay k ts = some p

theorem rel_init : Rel init (fun _ => none) := by
  refine ⟨?_, ?_⟩
  · intro k _ e he; simp [init, allComps, memComps, l0Comps, l0Order, tLevels] at he
  · intro k ts p hk; cases hk

theorem Rel.of_same {h h' : HState} {m : SpecMap}
    (hflat : ∀ e, e ∈ (allComps h'.st).flatten ↔ e ∈ (allComps h.st).flatten)
    (hpay : h'.pay = h.pay) (r : Rel h m) : Rel h' m := by
  refine ⟨?_, ?_⟩
  · intro k hk e he; exact r.absent k hk e ((hflat e).mp he)
  · intro k ts p hk
    obtain ⟨h1, h2, h3⟩ := r.present k ts p hk
    exact ⟨(hflat _).mpr h1, fun e he => h2 e ((hflat e).mp he), by rw [hpay]; exact h3⟩

theorem lookup_some_mem : ∀ (b : List (Nat × Payload)) (k : Nat) (p : Payload),
    List.lookup k b = some p → (k, p) ∈ b
  | [], k, p, h => by simp at h
  | (k', v) :: es, k, p, h => by
    rw [List.lookup_cons] at h
    by_cases e : k = k'
    · subst e
      simp only [beq_self_eq_true, Option.some.injEq] at h
      subst h
      exact List.mem_cons_self ..
    · have hne : (k == k') = false := by simpa using e
      rw [hne] at h
      exact List.mem_cons_of_mem _ (lookup_some_mem es k p h)

theorem lookup_none_newVers {h : HState} {b : List (Nat × Payload)} {k : Nat}
    (hk : List.lookup k b = none) : ∀ e ∈ newVers h b, e.1 ≠ k := by
  intro e he
  obtain ⟨x, hx, rfl⟩ := List.mem_map.mp he
  have := List.lookup_eq_none_iff.mp hk x hx
  intro hxk
  simp only [bne_iff_ne, ne_eq] at this
  exact this hxk.symm

theorem specStep_write_ok (m : SpecMap) (ts : Nat) (b : List (Nat × Payload)) (hb : batchOk b = true)
    (k : Nat) : specStep m ts (.write b) k
      = match List.lookup k b with
        | some p => some (ts, p)
        | none => m k := by
  rw [specStep.eq_1, if_pos hb]
  rfl

theorem specStep_write_bad (m : SpecMap) (ts : Nat) (b : List (Nat × Payload)) (hb : batchOk b = false) :
    specStep m ts (.write b) = m := by
  rw [specStep.eq_1, if_neg (by rw [hb]; exact Bool.false_ne_true)]

theorem flat_write (h : HState) (b : List (Nat × Payload)) (e : Ver Nat) :
    e ∈ (allComps (writeSt h b).st).flatten ↔ e ∈ newVers h b ∨ e ∈ (allComps h.st).flatten := by
  have e' : allComps (writeSt h b).st = (newVers h b ++ h.st.mem) :: lowComps h.st := rfl
  rw [e', allComps_cons, List.flatten_cons, List.flatten_cons, List.append_assoc, List.mem_append]

theorem rel_write (h : HState) (b : List (Nat × Payload)) (m : SpecMap) (inv : Inv h) (r : Rel h m) :
    Rel (apply h (.write b)) (specStep m (h.seq + 1) (.write b)) := by
  cases hb : batchOk b with
  | false => rw [apply_write_bad h b hb, specStep_write_bad m _ b hb]; exact r
  | true =>
  rw [apply_write_ok h b hb]
  have hs := specStep_write_ok m (h.seq + 1) b hb
  have hflat := flat_write h b
  constructor
  · intro k hk e he
    rw [hs k] at hk
    cases hl : List.lookup k b with
    | some p => rw [hl] at hk; cases hk
    | none =>
      rw [hl] at hk
      rcases (hflat e).mp he with he | he
      · exact lookup_none_newVers hl e he
      · exact r.absent k hk e he
  · intro k ts p hk
    rw [hs k] at hk
    cases hl : List.lookup k b with
    | some p' =>
      rw [hl] at hk
      simp only [Option.some.injEq, Prod.mk.injEq] at hk
      obtain ⟨rfl, rfl⟩ := hk
      refine ⟨(hflat _).mpr (Or.inl ?_), ?_, ?_⟩
      · exact List.mem_map.mpr ⟨(k, p'), lookup_some_mem b k p' hl, rfl⟩
      · intro e he _
        rcases (hflat e).mp he with he | he
        · rw [newVers_ts e he]; exact Nat.le_refl _
        · have := old_lt inv e he; omega
      · show (if h.seq + 1 = h.seq + 1 then List.lookup k b else h.pay k (h.seq + 1)) = some p'
        rw [if_pos rfl, hl]
    | none =>
      rw [hl] at hk
      obtain ⟨h1, h2, h3⟩ := r.present k ts p hk
      refine ⟨(hflat _).mpr (Or.inr h1), ?_, ?_⟩
      · intro e he hek
        rcases (hflat e).mp he with he | he
        · exact absurd hek (lookup_none_newVers hl e he)
        · exact h2 e he hek
      · have hlt : ts < h.seq + 1 := old_lt inv _ h1
        show (if ts = h.seq + 1 then List.lookup k b else h.pay k ts) = some p
        rw [if_neg (by omega)]
        exact h3

theorem rel_step (h : HState) (op : Op) (m : SpecMap) (ok : OpOk h op) (inv : Inv h) (r : Rel h m) :
    Rel (apply h op) (specStep m (h.seq + 1) op) := by
  cases op with
  | write b => exact rel_write h b m inv r
  | rollover =>
    show Rel (apply h .rollover) m
    cases hi : h.st.imm with
    | some i => rw [apply_rollover_some h hi]; exact r
    | none =>
      rw [apply_rollover_none h hi]
      refine Rel.of_same (h := h) ?_ rfl r
      intro e
      rw [allComps_roll, allComps_imm_none h.st hi, List.flatten_cons, List.nil_append]
  | flush =>
    show Rel (apply h .flush) m
    cases hi : h.st.imm with
    | none => rw [apply_flush_none h hi]; exact r
    | some i0 =>
      cases i0 with
      | nil =>
        rw [apply_flush_nil h hi]
        refine Rel.of_same (h := h) ?_ rfl r
        intro e
        have e' : allComps (flushNilSt h).st = h.st.mem :: treeComps h.st := rfl
        rw [e', allComps_imm_some h.st hi]
        simp
      | cons v i =>
        rw [apply_flush_cons h hi]
        refine Rel.of_same (h := h) ?_ rfl r
        intro e
        rw [allComps_flush inv hi]
  | compact l0' levels' =>
    show Rel (apply h (.compact l0' levels')) m
    obtain ⟨pre, post, outs, a, x, _, _, hsplit, _, hsame, _, hkept, _, hplace, _, _⟩ := ok
    refine Rel.of_same (h := h) ?_ rfl r
    intro e
    have e1 : allComps h.st = memComps h.st ++ (pre.map (·.2) ++ post) := by rw [allComps_eq, hsplit]
    have e2 : allComps (apply h (.compact l0' levels')).st = memComps h.st ++ (a ++ outs ++ x ++ post) := by
      rw [← hplace]; rfl
    rw [e1, e2]
    exact compaction_mem (memComps h.st) pre post outs a x hsame hkept e

/-! ## histories -/

theorem run_cons (h : HState) (op : Op) (ops : List Op) : run h (op :: ops) = run (apply h op) ops := rfl

theorem run_inv_rel : ∀ (ops : List Op) (h : HState) (m : SpecMap), Valid h ops → Inv h → Rel h m →
    Inv (run h ops) ∧ Rel (run h ops) (runSpec h m ops)
  | [], _, _, _, inv, r => ⟨inv, r⟩
  | op :: ops, h, m, hv, inv, r => by
    rw [run_cons, runSpec]
    exact run_inv_rel ops (apply h op) _ hv.2 (inv_step h op hv.1 inv) (rel_step h op m hv.1 inv r)

/-- under the invariant and the relation, the point-read model returns the specification's entry -/
theorem kvsLoad_of_rel {h : HState} {m : SpecMap} (inv : Inv h) (r : Rel h m) (k t : Nat) (ht : h.vis ≤ t) :
    kvsLoad h.st k t = (m k).map (fun e => (k, e.1)) := by
  rw [kvsLoad_eq h.st (fun l hl => (inv.i1 l hl).1) (fun l hl => (inv.i1 l hl).2)]
  have hv := load_visible (allComps h.st) k t inv.i2
  cases hm : m k with
  | none =>
    cases hl : load (allComps h.st) k t with
    | none => rfl
    | some b =>
      rw [hl] at hv
      exact absurd hv.2.1 (r.absent k hm b hv.1)
  | some e =>
    obtain ⟨ts, p⟩ := e
    obtain ⟨h1, h2, _⟩ := r.present k ts p hm
    have hts : ts ≤ t := Nat.le_trans (inv.ts_le _ h1) ht
    have hvis : IsVisible (allComps h.st).flatten k t (k, ts) :=
      ⟨h1, rfl, hts, fun e' he' hk _ => h2 e' he' hk⟩
    cases hl : load (allComps h.st) k t with
    | none =>
      rw [hl] at hv
      exact absurd hts (hv (k, ts) h1 rfl)
    | some b =>
      rw [hl] at hv
      rw [visible_unique hv hvis]
      rfl

theorem read_of_rel {h : HState} {m : SpecMap} (inv : Inv h) (r : Rel h m) (k : Nat) :
    read h k = (m k).map (·.2) := by
  unfold read
  rw [kvsLoad_of_rel inv r k h.vis (Nat.le_refl _)]
  cases hm : m k with
  | none => rfl
  | some e =>
    obtain ⟨ts, p⟩ := e
    exact (r.present k ts p hm).2.2

theorem valStep_of_specStep (m : SpecMap) (ts : Nat) (op : Op) :
    (fun k => (specStep m ts op k).map (·.2)) = valStep (fun k => (m k).map (·.2)) op := by
  cases op with
  | write b =>
    cases hb : batchOk b with
    | false => rw [specStep_write_bad m ts b hb, valStep.eq_1, if_neg (by rw [hb]; exact Bool.false_ne_true)]
    | true =>
      rw [valStep.eq_1, if_pos hb]
      funext k
      rw [specStep_write_ok m ts b hb k]
      cases List.lookup k b <;> rfl
  | rollover => rfl
  | flush => rfl
  | compact _ _ => rfl

theorem runSpec_payload : ∀ (ops : List Op) (h : HState) (m : SpecMap) (k : Nat),
    (runSpec h m ops k).map (·.2) = ops.foldl valStep (fun k => (m k).map (·.2)) k
  | [], _, _, _ => rfl
  | op :: ops, h, m, k => by
    rw [runSpec, List.foldl_cons, ← valStep_of_specStep m (h.seq + 1) op]
    exact runSpec_payload ops (apply h op) _ k


/-! ## the history theorems -/

/-- the invariant holds after every history whose compaction steps meet their obligations -/
theorem history_invariant (ops : List Op) (hv : Valid init ops) : Inv (run init ops) :=
  (run_inv_rel ops init _ hv inv_init rel_init).1

theorem history_rel (ops : List Op) (hv : Valid init ops) : Rel (run init ops) (spec ops) :=
  (run_inv_rel ops init _ hv inv_init rel_init).2

/-- **history_refines** -/
theorem history_refines (ops : List Op) (hv : Valid init ops) (k t : Nat) (ht : (run init ops).vis ≤ t) :
    kvsLoad (run init ops).st k t = (spec ops k).map (fun e => (k, e.1))
    ∧ ∀ ts p, spec ops k = some (ts, p) → (run init ops).pay k ts = some p :=
  ⟨kvsLoad_of_rel (history_invariant ops hv) (history_rel ops hv) k t ht,
   fun ts p hk => ((history_rel ops hv).present k ts p hk).2.2⟩

theorem spec_payload (ops : List Op) (k : Nat) : (spec ops k).map (·.2) = lastWrite ops k :=
  runSpec_payload ops init (fun _ => none) k

/-- the answer of `load`, as payload, is the payload of the last accepted write of the history -/
theorem history_reads_last_write (ops : List Op) (hv : Valid init ops) (k : Nat) :
    read (run init ops) k = lastWrite ops k := by
  rw [read_of_rel (history_invariant ops hv) (history_rel ops hv) k, spec_payload]

/-! ### corollaries -/

/-- the operation is an accepted write naming `k` -/
def touches (k : Nat) : Op → Bool
  | .write b => batchOk b && (List.lookup k b).isSome
  | _ => false

theorem valStep_untouched (k : Nat) (m : Nat → Option Payload) (op : Op) (h : touches k op = false) :
    valStep m op k = m k := by
  cases op with
  | write b =>
    cases hb : batchOk b with
    | false => rw [valStep.eq_1, if_neg (by rw [hb]; exact Bool.false_ne_true)]
    | true =>
      rw [valStep.eq_1, if_pos hb]
      have : (List.lookup k b).isSome = false := by
        rw [touches.eq_1, hb, Bool.true_and] at h; exact h
      cases hl : List.lookup k b with
      | none => rfl
      | some p => rw [hl] at this; cases this
  | rollover => rfl
  | flush => rfl
  | compact _ _ => rfl

theorem foldl_valStep_untouched (k : Nat) : ∀ (ops : List Op) (m : Nat → Option Payload),
    (∀ op ∈ ops, touches k op = false) → ops.foldl valStep m k = m k
  | [], _, _ => rfl
  | op :: ops, m, h => by
    rw [List.foldl_cons, foldl_valStep_untouched k ops _ (fun o ho => h o (List.mem_cons_of_mem _ ho))]
    exact valStep_untouched k m op (h op (List.mem_cons_self ..))

theorem lastWrite_write (ops₁ ops₂ : List Op) (b : List (Nat × Payload)) (k : Nat) (hb : batchOk b = true)
    (hun : ∀ op ∈ ops₂, touches k op = false) :
    lastWrite (ops₁ ++ .write b :: ops₂) k
      = match List.lookup k b with
        | some p => some p
        | none => lastWrite ops₁ k := by
  unfold lastWrite
  rw [List.foldl_append, List.foldl_cons, foldl_valStep_untouched k ops₂ _ hun, valStep.eq_1, if_pos hb]
  rfl

theorem lookup_of_mem_nodup : ∀ (b : List (Nat × Payload)) (k : Nat) (p : Payload),
    (b.map (·.1)).Nodup → (k, p) ∈ b → List.lookup k b = some p
  | [], _, _, _, h => by cases h
  | (k', v) :: es, k, p, hn, h => by
    rw [List.map_cons, List.nodup_cons] at hn
    rw [List.lookup_cons]
    rcases List.mem_cons.mp h with e | h
    · cases e
      simp
    · have hk : k ∈ es.map (·.1) := List.mem_map.mpr ⟨(k, p), h, rfl⟩
      have hne : (k == k') = false := by
        simp only [beq_eq_false_iff_ne, ne_eq]
        intro e; subst e; exact hn.1 hk
      rw [hne]
      exact lookup_of_mem_nodup es k p hn.2 h

theorem batchOk_nodup {b : List (Nat × Payload)} (hb : batchOk b = true) : (b.map (·.1)).Nodup := by
  unfold batchOk at hb
  exact of_decide_eq_true hb

/-- **read_after_write**: an accepted write of `(k, p)` followed by any operations that are not
    accepted writes naming `k` — any number of rollovers, flushes, compactions, writes to other
    keys, rejected batches — still reads back -/
theorem read_after_write (ops₁ ops₂ : List Op) (b : List (Nat × Payload)) (k : Nat) (p : Payload)
    (hv : Valid init (ops₁ ++ .write b :: ops₂)) (hb : batchOk b = true) (hk : (k, p) ∈ b)
    (hun : ∀ op ∈ ops₂, touches k op = false) :
    read (run init (ops₁ ++ .write b :: ops₂)) k = some p := by
  rw [history_reads_last_write _ hv, lastWrite_write ops₁ ops₂ b k hb hun,
    lookup_of_mem_nodup b k p (batchOk_nodup hb) hk]

/-- **batch_all_visible**: after an accepted batch every entry of it reads back, and every key the
    batch does not name reads as before -/
theorem batch_all_visible (ops : List Op) (b : List (Nat × Payload)) (hv : Valid init (ops ++ [.write b]))
    (hb : batchOk b = true) :
    (∀ k p, (k, p) ∈ b → read (run init (ops ++ [.write b])) k = some p)
    ∧ (∀ k, k ∉ b.map (·.1) → read (run init (ops ++ [.write b])) k = lastWrite ops k) := by
  refine ⟨fun k p hk => read_after_write ops [] b k p hv hb hk (fun _ h => by cases h), ?_⟩
  intro k hk
  rw [history_reads_last_write _ hv, lastWrite_write ops [] b k hb (fun _ h => by cases h)]
  have : List.lookup k b = none := by
    rw [List.lookup_eq_none_iff]
    intro q hq
    simp only [bne_iff_ne, ne_eq]
    intro e
    exact hk (List.mem_map.mpr ⟨q, hq, e.symm⟩)
  rw [this]

/-- a rejected batch (a key named twice) changes nothing -/
theorem rejected_batch_no_effect (h : HState) (b : List (Nat × Payload)) (hb : batchOk b = false) :
    apply h (.write b) = h := apply_write_bad h b hb

/-! ### the reached states pass the driver's decidable check `invB` -/

theorem newerB_complete {c d : List (Ver Nat)} (h : ∀ a ∈ c, ∀ b ∈ d, a.1 = b.1 → b.2 < a.2) :
    newerB c d = true := by
  unfold newerB
  rw [List.all_eq_true]
  intro a ha
  rw [List.all_eq_true]
  intro b hb
  by_cases e : a.1 = b.1
  · simp [h a ha b hb e]
  · simp [e]

theorem newerAboveB_complete : ∀ (cs : List (List (Ver Nat))), NewerAbove cs → newerAboveB cs = true
  | [], _ => rfl
  | c :: cs, h => by
    rw [newerAboveB, Bool.and_eq_true, List.all_eq_true]
    exact ⟨fun d hd => newerB_complete (fun a ha b hb => h.1 a ha d hd b hb), newerAboveB_complete cs h.2⟩

theorem wfB_complete {f : TFile} (h : f.Wf) : wfB f = true := by
  unfold wfB
  rw [Bool.and_eq_true, decide_eq_true_eq, List.all_eq_true]
  refine ⟨h.1, fun v hv => ?_⟩
  have := h.2 v hv
  simp [this.1, this.2]

theorem sortedB_complete : ∀ (l : List TFile), LevelSorted l → sortedB l = true
  | [], _ => rfl
  | a :: t, h => by
    have h' := List.pairwise_cons.mp h
    rw [sortedB, Bool.and_eq_true, List.all_eq_true]
    exact ⟨fun b hb => by simpa using h'.1 b hb, sortedB_complete t h'.2⟩

theorem invB_of_inv {h : HState} (inv : Inv h) : invB h.st = true := by
  unfold invB
  rw [Bool.and_eq_true, List.all_eq_true]
  refine ⟨newerAboveB_complete _ inv.i2, fun l hl => ?_⟩
  rw [Bool.and_eq_true, List.all_eq_true]
  exact ⟨sortedB_complete l (inv.i1 l hl).1, fun f hf => wfB_complete ((inv.i1 l hl).2 f hf)⟩

theorem history_invB (ops : List Op) (hv : Valid init ops) : invB (run init ops).st = true :=
  invB_of_inv (history_invariant ops hv)

/-! ### discharging the obligations of a compaction step -/

open Blue.NextCompaction in
/-- the closedness obligation is what `nextCompaction_closed` proves of every compaction the
    selector function returns on a tree satisfying its invariant -/
theorem compactionOk_of_nextCompaction (n : Num) (o : Opts) (t : Tree) (og : List Core) (hinv : Blue.NextCompaction.Inv t)
    {c : Core} (hc : nextCompaction n o t og = some c) (s s' : KState)
    (post outs a x : List (List (Ver Nat)))
    (hmem : s'.mem = s.mem) (himm : s'.imm = s.imm)
    (hsplit : treeComps s = (tagTree t c).map (·.2) ++ post)
    (hsame : ∀ e, e ∈ outs.flatten ↔ e ∈ (inputs (tagTree t c)).flatten)
    (houts : NewerAbove outs)
    (hkept : kept (tagTree t c) = a ++ x)
    (hdis : ∀ c ∈ x, ∀ d ∈ outs, Disjoint c d)
    (hplace : treeComps s' = a ++ outs ++ x ++ post)
    (hl0 : ∀ g ∈ s'.l0, g ∈ s.l0) (hI1 : I1 s') : CompactionOk s s' :=
  .mk (tagTree t c) post outs a x hmem himm hsplit (nextCompaction_closed n o t og hinv hc) hsame houts
    hkept hdis hplace hl0 hI1

/-- a trivial move is the compaction with one input whose output is that input -/
theorem compactionOk_trivial_move (s s' : KState) (pre : Tagged Nat) (c : List (Ver Nat))
    (post a x : List (List (Ver Nat)))
    (hmem : s'.mem = s.mem) (himm : s'.imm = s.imm)
    (hsplit : treeComps s = pre.map (·.2) ++ post) (hclosed : Closed pre)
    (hone : inputs pre = [c])
    (hkept : kept pre = a ++ x)
    (hdis : ∀ d ∈ x, Disjoint d c)
    (hplace : treeComps s' = a ++ [c] ++ x ++ post)
    (hl0 : ∀ g ∈ s'.l0, g ∈ s.l0) (hI1 : I1 s') : CompactionOk s s' :=
  .mk pre post [c] a x hmem himm hsplit hclosed (fun e => by rw [hone]) ⟨fun _ _ d hd => (by cases hd), trivial⟩
    hkept (fun d hd d' hd' => by rw [List.mem_singleton.mp hd']; exact hdis d hd) hplace hl0 hI1

/-- I1 from the decidable check (the second conjunct of `invB`) -/
theorem i1_of_check (s : KState) (h : (tLevels s).all (fun l => sortedB l && l.all wfB) = true) : I1 s := by
  rw [List.all_eq_true] at h
  intro l hl
  have := h l hl
  rw [Bool.and_eq_true, List.all_eq_true] at this
  exact ⟨sortedB_sound l this.1, fun f hf => wfB_sound (this.2 f hf)⟩

theorem mem_iff_of_subsets {A B : List (Ver Nat)} (h1 : ∀ e ∈ A, e ∈ B) (h2 : ∀ e ∈ B, e ∈ A) :
    ∀ e, e ∈ A ↔ e ∈ B := fun e => ⟨h1 e, h2 e⟩

theorem l0Order_nil : l0Order [] = [] := by simp [l0Order]

end Blue.StoreHist

#print axioms Blue.StoreHist.history_invariant
#print axioms Blue.StoreHist.history_refines
#print axioms Blue.StoreHist.history_reads_last_write
#print axioms Blue.StoreHist.read_after_write
#print axioms Blue.StoreHist.batch_all_visible
#print axioms Blue.StoreHist.history_invB
