import Blue.Proofs.ProtoDeep
/-! Property C15: `unknown_fields_skipped` along a path of frames of EVERY kind the schema
    interpreter `Blue.ProtoMsg.unpackMsg` has.

    A message type reaches a nested message type in exactly five ways (`Step`):
    * `field`  — a struct field of type `message<M>` (plain, `Option` or `Vec`: the cardinality
                 only chooses `merge_field`, the slice is unpacked alike);
    * `tuple`  — a tuple enum variant whose payload is `message<M>` (`unpack_from` of the field
                 type on the whole remaining buffer);
    * `named`  — a field of type `message<M>` in the body of a named enum variant
                 (`take_length_prefixed`, then the same `FieldIterator` loop as a struct);
    * `ok` / `err` — the arm of a `Result<T, E>` (buffertk: bare varint 10 / 18, then a
                 length-prefixed frame handed to `T::unpack` / `E::unpack`).
    A unit variant and a tuple variant with a scalar payload hold no message.

    The innermost frame, where the unknown field is inserted, is the body of a struct or the body of
    a named variant (`Inner`).  Every kind of frame passes the equality of the inner decode results
    up unchanged (`step_congr`), so no frame kind rejects an unknown field below it; the one thing
    that is NOT skipped anywhere is an unknown *variant* of an enum (`unknownDiscriminant`:
    `unknown_variant_rejected`), which is the code (`enum_snippet`'s `_ =>` arm). -/
namespace Blue.ProtoMsg
open Blue.Wire Blue.Varint

/-- one level of nesting, as it lies in the buffer of the enclosing message -/
inductive Step where
  /-- in a struct: complete fields `opre`, field `n` (length-delimited) holding the next level,
      anything `osuf` -/
  | field (opre : List Nat) (n : Nat) (osuf : List Nat)
  /-- in an enum: tuple variant `n` whose payload is the next level; `rest` follows the enum -/
  | tuple (n : Nat) (rest : List Nat)
  /-- in an enum: named variant `n`; in its body complete fields `opre`, field `k` holding the next
      level, anything `osuf`; `rest` follows the enum -/
  | named (n : Nat) (rest : List Nat) (opre : List Nat) (k : Nat) (osuf : List Nat)
  /-- in a `Result`: the `Ok` arm; `rest` follows -/
  | ok (rest : List Nat)
  /-- in a `Result`: the `Err` arm -/
  | err (rest : List Nat)

def Step.wrap : Step → List Nat → List Nat
  | .field opre n osuf, x => opre ++ (encTag ⟨n, .lengthDelimited⟩ ++ encBytes x ++ osuf)
  | .tuple n rest, x => encTag ⟨n, .lengthDelimited⟩ ++ encBytes x ++ rest
  | .named n rest opre k osuf, x =>
    encTag ⟨n, .lengthDelimited⟩ ++ encBytes (opre ++ (encTag ⟨k, .lengthDelimited⟩ ++ encBytes x ++ osuf)) ++ rest
  | .ok rest, x => encVarint 10 ++ encBytes x ++ rest
  | .err rest, x => encVarint 18 ++ encBytes x ++ rest

/-- the buffer of the outermost message: `inner` wrapped in the steps, outermost first, every
    length prefix computed from what it encloses -/
def wrapP : List Step → List Nat → List Nat
  | [], inner => inner
  | s :: ss, inner => s.wrap (wrapP ss inner)

/-- the schema side: each step is one the message type has, and the message type it leads to carries
    the rest of the path; the innermost message type satisfies `P` -/
def PathP (P : Msg → Prop) : Msg → List Step → Prop
  | m, [] => P m
  | .struct fs, .field opre n _ :: ss =>
    validFieldNumber n = true ∧ Bytes opre ∧ (fieldsE (opre.length + 1) opre).2 = none
    ∧ ∀ g ∈ fs, g.num = n ∧ g.ty.wt = .lengthDelimited → ∃ m', g.ty = .msg m' ∧ PathP P m' ss
  | .enum vars _, .tuple n _ :: ss =>
    validFieldNumber n = true
    ∧ ∃ i n' m', findVariant vars ⟨n, .lengthDelimited⟩ 0 = some (i, .tuple n' (.msg m')) ∧ PathP P m' ss
  | .enum vars _, .named n _ opre k _ :: ss =>
    validFieldNumber n = true ∧ validFieldNumber k = true ∧ Bytes opre
    ∧ (fieldsE (opre.length + 1) opre).2 = none
    ∧ ∃ i n' fs, findVariant vars ⟨n, .lengthDelimited⟩ 0 = some (i, .named n' fs)
      ∧ ∀ g ∈ fs, g.num = k ∧ g.ty.wt = .lengthDelimited → ∃ m', g.ty = .msg m' ∧ PathP P m' ss
  | .result okm _ _, .ok _ :: ss => PathP P okm ss
  | .result _ errm _, .err _ :: ss => PathP P errm ss
  | _, _ :: _ => False

theorem Step.wrap_length_le (s : Step) (x : List Nat) : x.length ≤ (s.wrap x).length := by
  cases s <;> simp only [Step.wrap, encBytes, List.length_append] <;> omega

/-! ## one level of congruence for each kind of frame -/

/-- the struct wrapper of `unpackMsg` is injective, so an equation between two struct decodes is an
    equation between the two runs of the field loop -/
theorem unpackFields_of_struct_eq (f : Nat) (fs : List Field) (b1 b2 : List Nat)
    (h : unpackMsg (f + 1) (.struct fs) b1 = unpackMsg (f + 1) (.struct fs) b2) :
    unpackFields (unpackMsg f) false fs (fs.map (dfltSlotWith (dfltMsg f))) b1
      = unpackFields (unpackMsg f) false fs (fs.map (dfltSlotWith (dfltMsg f))) b2 := by
  simp only [unpackMsg] at h
  cases h1 : unpackFields (unpackMsg f) false fs (fs.map (dfltSlotWith (dfltMsg f))) b1 <;>
  cases h2 : unpackFields (unpackMsg f) false fs (fs.map (dfltSlotWith (dfltMsg f))) b2 <;>
  rw [h1, h2] at h <;> simp at h <;> simp [h]

/-- a tuple variant whose payload is a message: the enum sees the frame only through the payload
    type's `unpack` -/
theorem tuple_frame_congr (f : Nat) (vars : List Variant) (d : Val) (n i n' : Nat) (m' : Msg)
    (i1 i2 rest : List Nat) (hn : validFieldNumber n = true)
    (hfind : findVariant vars ⟨n, .lengthDelimited⟩ 0 = some (i, .tuple n' (.msg m')))
    (hl1 : i1.length < U64) (hl2 : i2.length < U64)
    (h : unpackMsg f m' i1 = unpackMsg f m' i2) :
    unpackMsg (f + 1) (.enum vars d) (encTag ⟨n, .lengthDelimited⟩ ++ encBytes i1 ++ rest)
      = unpackMsg (f + 1) (.enum vars d) (encTag ⟨n, .lengthDelimited⟩ ++ encBytes i2 ++ rest) := by
  simp only [unpackMsg, List.append_assoc]
  rw [decTagE_enc ⟨n, .lengthDelimited⟩ hn, decTagE_enc ⟨n, .lengthDelimited⟩ hn]
  simp only [hfind, decTyWith]
  rw [decFrame_enc i1 rest hl1, decFrame_enc i2 rest hl2]
  simp only [h]

/-- a `message<M>` field in the body of a named variant -/
theorem named_frame_congr (f : Nat) (vars : List Variant) (d : Val) (n i n' k : Nat) (fs : List Field)
    (opre osuf i1 i2 rest : List Nat)
    (hn : validFieldNumber n = true) (hk : validFieldNumber k = true) (hopre : Bytes opre)
    (hclean : (fieldsE (opre.length + 1) opre).2 = none)
    (hfind : findVariant vars ⟨n, .lengthDelimited⟩ 0 = some (i, .named n' fs))
    (hb1 : (opre ++ (encTag ⟨k, .lengthDelimited⟩ ++ encBytes i1 ++ osuf)).length < U64)
    (hb2 : (opre ++ (encTag ⟨k, .lengthDelimited⟩ ++ encBytes i2 ++ osuf)).length < U64)
    (hinner : ∀ g ∈ fs, g.num = k ∧ g.ty.wt = .lengthDelimited →
      decTyWith (unpackMsg (f + 1)) g.ty (encBytes i1) = decTyWith (unpackMsg (f + 1)) g.ty (encBytes i2)) :
    unpackMsg (f + 2) (.enum vars d)
        (encTag ⟨n, .lengthDelimited⟩ ++ encBytes (opre ++ (encTag ⟨k, .lengthDelimited⟩ ++ encBytes i1 ++ osuf)) ++ rest)
      = unpackMsg (f + 2) (.enum vars d)
        (encTag ⟨n, .lengthDelimited⟩ ++ encBytes (opre ++ (encTag ⟨k, .lengthDelimited⟩ ++ encBytes i2 ++ osuf)) ++ rest) := by
  have hl1 : i1.length < U64 := by
    simp only [List.length_append, encBytes] at hb1; omega
  have hl2 : i2.length < U64 := by
    simp only [List.length_append, encBytes] at hb2; omega
  have hbody := unpackFields_of_struct_eq (f + 1) fs _ _
    (nested_frame_congr f fs k opre i1 i2 osuf hk hopre hclean hl1 hl2 hinner)
  have hs : namedVariantStrict = false := rfl
  simp only [unpackMsg, List.append_assoc]
  rw [decTagE_enc ⟨n, .lengthDelimited⟩ hn, decTagE_enc ⟨n, .lengthDelimited⟩ hn]
  simp only [hfind]
  have e1 := decFrame_enc _ rest hb1
  have e2 := decFrame_enc _ rest hb2
  simp only [List.append_assoc] at e1 e2
  rw [e1, e2]
  simp only [hs]
  simp only [List.append_assoc] at hbody
  rw [hbody]

/-- an arm of a `Result` -/
theorem result_frame_congr (f : Nat) (okm errm : Msg) (d : Val) (i1 i2 rest : List Nat)
    (hl1 : i1.length < U64) (hl2 : i2.length < U64) :
    (unpackMsg f okm i1 = unpackMsg f okm i2 →
      unpackMsg (f + 1) (.result okm errm d) (encVarint 10 ++ encBytes i1 ++ rest)
        = unpackMsg (f + 1) (.result okm errm d) (encVarint 10 ++ encBytes i2 ++ rest))
    ∧ (unpackMsg f errm i1 = unpackMsg f errm i2 →
      unpackMsg (f + 1) (.result okm errm d) (encVarint 18 ++ encBytes i1 ++ rest)
        = unpackMsg (f + 1) (.result okm errm d) (encVarint 18 ++ encBytes i2 ++ rest)) := by
  have t10 : ¬ (10 > U32MAX) := by decide
  have t18 : ¬ (18 > U32MAX) := by decide
  have n18 : ¬ ((18 : Nat) = 10) := by decide
  refine ⟨fun h => ?_, fun h => ?_⟩
  · simp only [unpackMsg, List.append_assoc]
    rw [decVarint_enc 10 (by decide), decVarint_enc 10 (by decide)]
    simp only [t10, if_false, if_true]
    rw [decFrame_enc i1 rest hl1, decFrame_enc i2 rest hl2]
    simp only [h]
  · simp only [unpackMsg, List.append_assoc]
    rw [decVarint_enc 18 (by decide), decVarint_enc 18 (by decide)]
    simp only [t18, n18, if_false, if_true]
    rw [decFrame_enc i1 rest hl1, decFrame_enc i2 rest hl2]
    simp only [h]

/-! ## the path -/

/-- **C15** congruence along a path of frames of every kind: two buffers that differ only in the
    innermost bytes `x1` / `x2` unpack alike whenever the innermost message type unpacks `x1` and
    `x2` alike -/
theorem unpackMsg_congr_pathP (P : Msg → Prop) (x1 x2 : List Nat)
    (hP : ∀ m, P m → ∀ f, unpackMsg (f + 1) m x1 = unpackMsg (f + 1) m x2) :
    ∀ (Ls : List Step) (f : Nat) (m : Msg), PathP P m Ls →
    (wrapP Ls x1).length < U64 → (wrapP Ls x2).length < U64 →
    unpackMsg (f + 1 + Ls.length) m (wrapP Ls x1) = unpackMsg (f + 1 + Ls.length) m (wrapP Ls x2)
  | [], f, m, hpath, _, _ => hP m (by simpa [PathP] using hpath) f
  | s :: ss, f, m, hpath, h1, h2 => by
    have l1 : (wrapP ss x1).length < U64 := Nat.lt_of_le_of_lt (s.wrap_length_le _) h1
    have l2 : (wrapP ss x2).length < U64 := Nat.lt_of_le_of_lt (s.wrap_length_le _) h2
    have e : f + 1 + (s :: ss).length = (f + ss.length) + 2 := by simp only [List.length_cons]; omega
    have e' : f + 1 + ss.length = f + ss.length + 1 := by omega
    have ih := fun m' (hp : PathP P m' ss) => unpackMsg_congr_pathP P x1 x2 hP ss f m' hp l1 l2
    rw [e]
    simp only [e'] at ih
    cases s with
    | field opre n osuf =>
      cases m with
      | struct fs =>
        obtain ⟨hn, hb, hclean, harms⟩ := hpath
        apply nested_frame_congr (f + ss.length) fs n opre _ _ osuf hn hb hclean l1 l2
        intro g hg hc
        obtain ⟨m', hty, hrest⟩ := harms g hg hc
        rw [hty]
        exact decTy_msg_congr _ _ _ _ l1 l2 (ih m' hrest)
      | enum vars d => exact absurd hpath (by simp [PathP])
      | result okm errm d => exact absurd hpath (by simp [PathP])
    | tuple n rest =>
      cases m with
      | enum vars d =>
        obtain ⟨hn, i, n', m', hfind, hrest⟩ := hpath
        exact tuple_frame_congr (f + ss.length + 1) vars d n i n' m' _ _ rest hn hfind l1 l2 (ih m' hrest)
      | struct fs => exact absurd hpath (by simp [PathP])
      | result okm errm d => exact absurd hpath (by simp [PathP])
    | named n rest opre k osuf =>
      cases m with
      | enum vars d =>
        obtain ⟨hn, hk, hb, hclean, i, n', fs, hfind, harms⟩ := hpath
        have b1 : (opre ++ (encTag ⟨k, .lengthDelimited⟩ ++ encBytes (wrapP ss x1) ++ osuf)).length < U64 := by
          simp only [wrapP, Step.wrap, encBytes, List.length_append] at h1 ⊢; omega
        have b2 : (opre ++ (encTag ⟨k, .lengthDelimited⟩ ++ encBytes (wrapP ss x2) ++ osuf)).length < U64 := by
          simp only [wrapP, Step.wrap, encBytes, List.length_append] at h2 ⊢; omega
        apply named_frame_congr (f + ss.length) vars d n i n' k fs opre osuf _ _ rest hn hk hb hclean hfind b1 b2
        intro g hg hc
        obtain ⟨m', hty, hrest⟩ := harms g hg hc
        rw [hty]
        exact decTy_msg_congr _ _ _ _ l1 l2 (ih m' hrest)
      | struct fs => exact absurd hpath (by simp [PathP])
      | result okm errm d => exact absurd hpath (by simp [PathP])
    | ok rest =>
      cases m with
      | result okm errm d =>
        exact (result_frame_congr (f + ss.length + 1) okm errm d _ _ rest l1 l2).1 (ih okm hpath)
      | struct fs => exact absurd hpath (by simp [PathP])
      | enum vars d => exact absurd hpath (by simp [PathP])
    | err rest =>
      cases m with
      | result okm errm d =>
        exact (result_frame_congr (f + ss.length + 1) okm errm d _ _ rest l1 l2).2 (ih errm hpath)
      | struct fs => exact absurd hpath (by simp [PathP])
      | enum vars d => exact absurd hpath (by simp [PathP])

/-! ## the innermost frame: the body of a struct or of a named variant -/

inductive Inner where
  /-- the innermost message is a struct; its buffer is the body -/
  | struct
  /-- the innermost message is an enum taking named variant `n`; `rest` follows the enum -/
  | named (n : Nat) (rest : List Nat)

def Inner.wrap : Inner → List Nat → List Nat
  | .struct, x => x
  | .named n rest, x => encTag ⟨n, .lengthDelimited⟩ ++ encBytes x ++ rest

/-- the innermost body has no arm for tag `t` -/
def InnerUnknown (t : Tag) : Inner → Msg → Prop
  | .struct, .struct gs => Unknown gs t
  | .named n _, .enum vars _ =>
    validFieldNumber n = true
    ∧ ∃ i n' fs, findVariant vars ⟨n, .lengthDelimited⟩ 0 = some (i, .named n' fs) ∧ Unknown fs t
  | _, _ => False

theorem Inner.wrap_length_le (inn : Inner) (x : List Nat) : x.length ≤ (inn.wrap x).length := by
  cases inn <;> simp only [Inner.wrap, encBytes, List.length_append] <;> omega

theorem wrapP_length_le : ∀ (Ls : List Step) (x : List Nat), x.length ≤ (wrapP Ls x).length
  | [], _ => Nat.le_refl _
  | s :: ss, x => Nat.le_trans (wrapP_length_le ss x) (s.wrap_length_le _)

theorem inner_unknown (t : Tag) (sl pre ub suf : List Nat)
    (hpre : Bytes pre) (hub : Bytes ub) (hclean : (fieldsE (pre.length + 1) pre).2 = none)
    (hu : fieldStepE ub = .ok ((t, sl), [])) (inn : Inner)
    (hl : (inn.wrap (pre ++ ub ++ suf)).length < U64)
    (m : Msg) (hm : InnerUnknown t inn m) (f : Nat) :
    unpackMsg (f + 1) m (inn.wrap (pre ++ ub ++ suf)) = unpackMsg (f + 1) m (inn.wrap (pre ++ suf)) := by
  cases inn with
  | struct =>
    cases m with
    | struct gs => exact unpackMsg_unknown_anywhere f gs pre ub suf t sl hpre hub hclean hu hm
    | enum vars d => exact absurd hm (by simp [InnerUnknown])
    | result okm errm d => exact absurd hm (by simp [InnerUnknown])
  | named n rest =>
    cases m with
    | enum vars d =>
      obtain ⟨hn, i, n', fs, hfind, hunk⟩ := hm
      have hl0 : (pre ++ ub ++ suf).length < U64 :=
        Nat.lt_of_le_of_lt (Inner.wrap_length_le (.named n rest) _) hl
      exact unpackMsg_unknown_named f vars d n i n' fs pre ub suf rest t sl hn hfind hl0 hpre hub hclean hu hunk
    | struct gs => exact absurd hm (by simp [InnerUnknown])
    | result okm errm d => exact absurd hm (by simp [InnerUnknown])

/-- **C15** `unknown_fields_skipped_any_path`, at every fuel `f + 1 + length of the path` -/
theorem unpackMsg_unknown_pathP (t : Tag) (sl pre ub suf : List Nat)
    (hpre : Bytes pre) (hub : Bytes ub) (hclean : (fieldsE (pre.length + 1) pre).2 = none)
    (hu : fieldStepE ub = .ok ((t, sl), []))
    (Ls : List Step) (inn : Inner) (f : Nat) (m : Msg) (hpath : PathP (InnerUnknown t inn) m Ls)
    (hl : (wrapP Ls (inn.wrap (pre ++ ub ++ suf))).length < U64)
    (hl' : (wrapP Ls (inn.wrap (pre ++ suf))).length < U64) :
    unpackMsg (f + 1 + Ls.length) m (wrapP Ls (inn.wrap (pre ++ ub ++ suf)))
      = unpackMsg (f + 1 + Ls.length) m (wrapP Ls (inn.wrap (pre ++ suf))) :=
  unpackMsg_congr_pathP (InnerUnknown t inn) _ _
    (fun m' hm f => inner_unknown t sl pre ub suf hpre hub hclean hu inn
      (Nat.lt_of_le_of_lt (wrapP_length_le Ls _) hl) m' hm f)
    Ls f m hpath hl hl'

/-- the same on the fuel-free decoder -/
theorem decode_unknown_pathP (t : Tag) (sl pre ub suf : List Nat)
    (hpre : Bytes pre) (hub : Bytes ub) (hclean : (fieldsE (pre.length + 1) pre).2 = none)
    (hu : fieldStepE ub = .ok ((t, sl), []))
    (Ls : List Step) (inn : Inner) (m : Msg) (hpath : PathP (InnerUnknown t inn) m Ls)
    (hl : (wrapP Ls (inn.wrap (pre ++ ub ++ suf))).length < U64)
    (hl' : (wrapP Ls (inn.wrap (pre ++ suf))).length < U64) :
    decode m (wrapP Ls (inn.wrap (pre ++ ub ++ suf))) = decode m (wrapP Ls (inn.wrap (pre ++ suf))) := by
  have h := unpackMsg_unknown_pathP t sl pre ub suf hpre hub hclean hu Ls inn m.depth m hpath hl hl'
  rwa [unpackMsg_fuel _ _ (by omega), unpackMsg_fuel _ _ (by omega)] at h

/-! ## what is not skipped: an unknown VARIANT, and what is ignored wholesale: a unit variant's frame -/

/-- an enum has no `(_, _) => {}` arm for its own tag (`enum_snippet`: `_ => return
    Err(unknown_discriminant(num))`): a well-formed field whose (number, wire type) no variant
    takes is rejected, whatever follows -/
theorem unknown_variant_rejected (f : Nat) (vars : List Variant) (d : Val) (t : Tag) (rest : List Nat)
    (ht : validFieldNumber t.num = true) (hnone : findVariant vars t 0 = none) :
    unpackMsg (f + 1) (.enum vars d) (encTag t ++ rest) = .error .unknownDiscriminant := by
  simp only [unpackMsg]
  rw [decTagE_enc t ht]
  simp only [hnone]

/-- a unit variant takes a length-prefixed frame and drops it unread (`unit_variant_snippet`:
    `let _ = take_length_prefixed(&mut up)?`): ANY bytes in the frame — unknown fields, garbage —
    decode to the variant -/
theorem unit_variant_frame_ignored (f : Nat) (vars : List Variant) (d : Val) (n i n' : Nat)
    (x rest : List Nat) (hn : validFieldNumber n = true) (hx : x.length < U64)
    (hfind : findVariant vars ⟨n, .lengthDelimited⟩ 0 = some (i, .unit n')) :
    unpackMsg (f + 1) (.enum vars d) (encTag ⟨n, .lengthDelimited⟩ ++ encBytes x ++ rest)
      = .ok (.variant i (.struct []), rest) := by
  simp only [unpackMsg, List.append_assoc]
  rw [decTagE_enc ⟨n, .lengthDelimited⟩ hn]
  simp only [hfind]
  rw [decFrame_enc x rest hx]

/-! ## a field AFTER an enum's own field, inside the enum's frame

    An enum (and a `Result`) consumes exactly one field and returns what follows.  What the enclosing
    frame does with a non-empty rest depends on its kind: `message<M>::unpack` (a struct field, a
    tuple-variant payload, a field of a named variant) rejects it with `wrong-length`
    (field_types.rs:1412-1415, after the repair of D-21); an arm of `Result` drops it
    (`let (t, _) = T::unpack(buf)?`, buffertk/src/lib.rs).  So an enum-typed message cannot be extended
    by appending fields to it — these bytes are not "skipped unknown fields" in the first case. -/

/-- a field of a struct fails in every arm that takes it: the struct fails, with the error the
    fields before it already produced, else with that error -/
theorem unpackMsg_field_error (f : Nat) (fs : List Field) (pre fb : List Nat) (t : Tag) (sl rest' : List Nat)
    (e : Err) (hpre : Bytes pre) (hclean : (fieldsE (pre.length + 1) pre).2 = none)
    (hstep : fieldStepE fb = .ok ((t, sl), rest'))
    (harm : ∃ g ∈ fs, g.num = t.num ∧ g.ty.wt = t.wt)
    (hslice : ∀ g ∈ fs, g.num = t.num ∧ g.ty.wt = t.wt → decTyWith (unpackMsg f) g.ty sl = .error e) :
    unpackMsg (f + 1) (.struct fs) (pre ++ fb)
      = match unpackMsg (f + 1) (.struct fs) pre with
        | .error e' => .error e'
        | .ok _ => .error e := by
  have hne : fb ≠ [] := by
    obtain ⟨p, hp, hpne⟩ := fieldStepE_suffix fb _ _ hstep
    rw [hp]; simp [hpne]
  simp only [unpackMsg]
  unfold unpackFields
  rw [fieldsE_append (pre.length + 1) pre (by omega) hpre hclean _ _ (by omega),
    fieldsE_step _ _ hne, hstep]
  simp only [List.foldl_append, List.foldl_cons, hclean]
  cases hA : (fieldsE (pre.length + 1) pre).1.foldl (mergeStep (unpackMsg f) false fs)
      (.ok (fs.map (dfltSlotWith (dfltMsg f)))) with
  | error e' => simp only [mergeStep, foldl_mergeStep_error]
  | ok a =>
    have hlen : a.length = fs.length :=
      foldl_mergeStep_length (unpackMsg f) false fs fs.length _ (.ok (fs.map (dfltSlotWith (dfltMsg f))))
        (fun b hb => by simp only [Except.ok.injEq] at hb; subst hb; simp) a hA
    have := mergeInto_arm_error (unpackMsg f) (t, sl) e fs a hlen harm hslice
    simp only [mergeStep, this, foldl_mergeStep_error]

/-- `message<M>::unpack` on the frame of an enum / `Result` value followed by more bytes -/
theorem decTy_enum_trailing (f : Nat) (m : Msg) (v : Val) (h : WfMsg f m v) (hm : ∀ fs, m ≠ .struct fs)
    (extra rest : List Nat) (hne : extra ≠ []) (hl : (packMsg f m v ++ extra).length < U64) :
    decTyWith (unpackMsg f) (.msg m) (encBytes (packMsg f m v ++ extra) ++ rest) = .error .wrongLength := by
  simp only [decTyWith]
  rw [decFrame_enc _ rest hl]
  simp only
  rw [unpack_pack_rest f m v h extra hm]
  cases extra with
  | nil => exact absurd rfl hne
  | cons b t => rfl

/-- **C15** an enum-typed (or `Result`-typed) struct field whose frame holds the value's own field
    FOLLOWED by anything (`extra`, e.g. a well-formed field with an unknown number) is rejected with
    `wrong-length`: a struct field of enum type does not skip fields appended to the enum -/
theorem unpackMsg_enum_field_trailing_rejected (f : Nat) (fs : List Field) (n : Nat) (m : Msg) (v : Val)
    (pre extra suf : List Nat)
    (hn : validFieldNumber n = true) (hpre : Bytes pre) (hclean : (fieldsE (pre.length + 1) pre).2 = none)
    (h : WfMsg f m v) (hm : ∀ gs, m ≠ .struct gs) (hne : extra ≠ [])
    (hl : (packMsg f m v ++ extra).length < U64)
    (harm : ∃ g ∈ fs, g.num = n ∧ g.ty.wt = .lengthDelimited)
    (harms : ∀ g ∈ fs, g.num = n ∧ g.ty.wt = .lengthDelimited → g.ty = .msg m) :
    unpackMsg (f + 1) (.struct fs)
        (pre ++ (encTag ⟨n, .lengthDelimited⟩ ++ encBytes (packMsg f m v ++ extra) ++ suf))
      = match unpackMsg (f + 1) (.struct fs) pre with
        | .error e' => .error e'
        | .ok _ => .error .wrongLength := by
  apply unpackMsg_field_error f fs pre _ ⟨n, .lengthDelimited⟩ (encBytes (packMsg f m v ++ extra)) suf
    .wrongLength hpre hclean (fieldStepE_of_fieldStep (fieldStep_bytes n _ hn hl suf)) harm
  intro g hg hc
  rw [harms g hg hc]
  have := decTy_enum_trailing f m v h hm extra [] hne hl
  simpa using this

/-- **C15** the arm of a `Result` drops what follows the value's own field inside the frame -/
theorem unpackMsg_result_arm_trailing_ignored (f : Nat) (okm errm : Msg) (d : Val) (v : Val)
    (extra rest : List Nat) (h : WfMsg f okm v) (hm : ∀ gs, okm ≠ .struct gs)
    (hl : (packMsg f okm v ++ extra).length < U64) :
    unpackMsg (f + 1) (.result okm errm d) (encVarint 10 ++ encBytes (packMsg f okm v ++ extra) ++ rest)
      = .ok (.variant 0 v, rest) := by
  have t10 : ¬ (10 > U32MAX) := by decide
  simp only [unpackMsg, List.append_assoc]
  rw [decVarint_enc 10 (by decide)]
  simp only [t10, if_false, if_true]
  rw [decFrame_enc (packMsg f okm v ++ extra) rest hl]
  simp only [unpack_pack_rest f okm v h extra hm]

end Blue.ProtoMsg
