import Blue.Model.CursorWorld
import Blue.Proofs.SnapRefs
/-! **C07, files coupling of `Blue.CursorWorld`**: the `Arc` count of every version is EXACTLY the
    number of live cursors that captured it, plus one for the tree's own reference to the current
    version.  Hence a live cursor's files are in `sst/`, and a version that is not current and that
    no live cursor holds has been released. -/
set_option linter.unusedSectionVars false

namespace Blue.CursorWorld
open Blue.Spec Blue.Cursor

variable {F K : Type} [DecidableEq F] [DecidableEq K]

/-- live cursors of a list that captured version `i` -/
def cnt (l : List (Cur K)) (i : Nat) : Nat := (l.filter (fun c => c.live && c.ver == i)).length

/-- number of live cursors that captured version `i` -/
def outOf (s : St F K) (i : Nat) : Nat := (s.cursors.filter (fun c => c.live && c.ver == i)).length

theorem outOf_eq (s : St F K) (i : Nat) : outOf s i = cnt s.cursors i := rfl

theorem cnt_nil (j : Nat) : cnt ([] : List (Cur K)) j = 0 := rfl

theorem cnt_cons (a : Cur K) (t : List (Cur K)) (j : Nat) :
    cnt (a :: t) j = (if (a.live && a.ver == j) = true then 1 else 0) + cnt t j := by
  unfold cnt
  rw [List.filter_cons]
  split
  · simp only [List.length_cons]; omega
  · omega

theorem cnt_append_one (l : List (Cur K)) (c : Cur K) (j : Nat) :
    cnt (l ++ [c]) j = cnt l j + (if (c.live && c.ver == j) = true then 1 else 0) := by
  induction l with
  | nil => simp only [List.nil_append, cnt_cons, cnt_nil]; omega
  | cons a t ih => simp only [List.cons_append, cnt_cons, ih]; omega

theorem cnt_set (l : List (Cur K)) (i : Nat) (c c' : Cur K) (h : l[i]? = some c) (j : Nat) :
    cnt (l.set i c') j + (if (c.live && c.ver == j) = true then 1 else 0)
      = cnt l j + (if (c'.live && c'.ver == j) = true then 1 else 0) := by
  induction l generalizing i with
  | nil => simp at h
  | cons a t ih =>
    cases i with
    | zero => simp at h; subst h; simp only [List.set_cons_zero, cnt_cons]; omega
    | succ n =>
      simp at h
      have := ih n h
      simp only [List.set_cons_succ, cnt_cons]; omega

theorem cnt_map (l : List (Cur K)) (f : Cur K → Cur K) (hf : ∀ c, (f c).live = c.live ∧ (f c).ver = c.ver) (j : Nat) :
    cnt (l.map f) j = cnt l j := by
  induction l with
  | nil => rfl
  | cons a t ih => simp only [List.map_cons, cnt_cons, ih, (hf a).1, (hf a).2]

theorem cnt_set_dead (l : List (Cur K)) (i : Nat) (c : Cur K) (h : l[i]? = some c) (hl : c.live = true) (j : Nat) :
    cnt (l.set i { c with live := false }) j + (if c.ver = j then 1 else 0) = cnt l j := by
  have := cnt_set l i c { c with live := false } h j
  by_cases hj : c.ver = j
  · subst hj; rw [if_pos rfl]; simp [hl] at this; omega
  · rw [if_neg hj]; simp [hl, hj] at this; omega

/-- the coupling, with the cursors' counts abstract -/
structure Core (fs : FileRefs.St F) (out : Nat → Nat) : Prop where
  inv : FileRefs.Inv fs
  nonempty : 0 < fs.versions.length
  exact : ∀ i, i < fs.versions.length →
    FileRefs.holdersAt fs i = out i + (if i + 1 = fs.versions.length then 1 else 0)
  beyond : ∀ i, fs.versions.length ≤ i → out i = 0
  counted_held : ∀ v ∈ fs.versions, v.counted = true → v.holders ≥ 1

structure FilesInv (s : St F K) : Prop where
  inv : FileRefs.Inv s.files
  nonempty : 0 < s.files.versions.length
  exact : ∀ i, i < s.files.versions.length →
    FileRefs.holdersAt s.files i = outOf s i + (if i + 1 = s.files.versions.length then 1 else 0)
  beyond : ∀ i, s.files.versions.length ≤ i → outOf s i = 0
  /-- a counted version is held (converse of `Inv.held_counted`) -/
  counted_held : ∀ v ∈ s.files.versions, v.counted = true → v.holders ≥ 1

theorem filesInv_iff (s : St F K) : FilesInv s ↔ Core s.files (outOf s) :=
  ⟨fun h => ⟨h.inv, h.nonempty, h.exact, h.beyond, h.counted_held⟩,
   fun h => ⟨h.inv, h.nonempty, h.exact, h.beyond, h.counted_held⟩⟩

theorem core_congr {fs : FileRefs.St F} {out out' : Nat → Nat} (h : Core fs out) (e : ∀ j, out' j = out j) :
    Core fs out' := by
  have : out' = out := funext e
  rw [this]; exact h

theorem core_curOk {fs : FileRefs.St F} {out : Nat → Nat} (h : Core fs out) : FileRefs.CurOk fs := by
  intro v hv
  have hl : fs.versions.length - 1 < fs.versions.length := by have := h.nonempty; omega
  have hr := h.exact _ hl
  rw [FileRefs.holdersAt_of_get hv, if_pos (by omega)] at hr
  have hh : v.holders ≥ 1 := by omega
  exact ⟨h.inv.held_counted v (List.mem_of_getElem? hv) hh, hh⟩

/-- the versions after an install -/
theorem versions_install (s : FileRefs.St F) (files : List F) (old : FileRefs.Ver F)
    (hv : s.versions[s.versions.length - 1]? = some old) :
    ∃ w : FileRefs.Ver F, (FileRefs.step s (.install files)).versions
        = (s.versions ++ [(⟨files, 1, true⟩ : FileRefs.Ver F)]).set (s.versions.length - 1) w ∧
      w.holders = old.holders - 1 ∧ (old.holders ≥ 1 → w.counted = true → w.holders ≥ 1) := by
  simp only [FileRefs.step, hv]
  have hlt : s.versions.length - 1 < s.versions.length := (List.getElem?_eq_some_iff.mp hv).1
  have hv2 : (s.versions ++ [⟨files, 1, true⟩])[s.versions.length - 1]? = some old := by
    rw [List.getElem?_append_left hlt]; exact hv
  split
  · rename_i hone
    rw [FileRefs.setAt_eq _ _ _ old hv2]
    refine ⟨{ old with holders := 0, counted := false }, by rw [FileRefs.unrefFiles_versions], by simp only; omega, ?_⟩
    intro _ hc; simp at hc
  · rename_i hone
    rw [FileRefs.setAt_eq _ _ _ old hv2]
    refine ⟨{ old with holders := old.holders - 1 }, rfl, rfl, ?_⟩
    intro h1 _; simp only; omega

theorem versions_snapshot (s : FileRefs.St F) (old : FileRefs.Ver F)
    (hv : s.versions[s.versions.length - 1]? = some old) :
    (FileRefs.step s .snapshot).versions
      = s.versions.set (s.versions.length - 1) { old with holders := old.holders + 1 } := by
  simp only [FileRefs.step]
  rw [FileRefs.setAt_eq _ _ _ old hv]

/-- the versions after a release that a holder other than the tree makes: EXACTLY one less -/
theorem versions_release (s : FileRefs.St F) (h : FileRefs.Inv s) (i : Nat) (v : FileRefs.Ver F)
    (hv : s.versions[i]? = some v) (h1 : v.holders ≥ 1) (h2 : i + 1 = s.versions.length → v.holders ≥ 2) :
    ∃ w : FileRefs.Ver F, (FileRefs.step s (.release i)).versions = s.versions.set i w ∧
      w.holders = v.holders - 1 ∧ (w.counted = true → w.holders ≥ 1) := by
  have hcnt : v.counted = true := h.held_counted v (List.mem_of_getElem? hv) h1
  simp only [FileRefs.step, hv]
  split
  · rename_i hlast
    have := h2 hlast
    rw [if_pos (by omega), FileRefs.setAt_eq _ _ _ v hv]
    exact ⟨{ v with holders := v.holders - 1 }, rfl, rfl, fun _ => by simp only; omega⟩
  · split
    · rename_i hone
      rw [FileRefs.setAt_eq _ _ _ v hv]
      refine ⟨{ v with holders := 0, counted := false }, by rw [FileRefs.unrefFiles_versions], by simp only; omega, ?_⟩
      intro hc; simp at hc
    · rename_i hnot
      have : v.holders > 1 := by
        apply Nat.lt_of_not_le; intro hle
        exact hnot ⟨by omega, hcnt⟩
      rw [if_pos this, FileRefs.setAt_eq _ _ _ v hv]
      exact ⟨{ v with holders := v.holders - 1 }, rfl, rfl, fun _ => by simp only; omega⟩

/-- one version changes its count, and the cursors' count of that version changes with it -/
theorem core_set {fs fs' : FileRefs.St F} {out out' : Nat → Nat} (h : Core fs out) (hinv : FileRefs.Inv fs')
    (i : Nat) (v w : FileRefs.Ver F) (hv : fs.versions[i]? = some v) (hvs : fs'.versions = fs.versions.set i w)
    (hw : w.holders + out i = v.holders + out' i) (hout : ∀ j, j ≠ i → out' j = out j)
    (hc : w.counted = true → w.holders ≥ 1) : Core fs' out' := by
  have hi : i < fs.versions.length := (List.getElem?_eq_some_iff.mp hv).1
  have hlen : fs'.versions.length = fs.versions.length := by rw [hvs]; simp
  refine ⟨hinv, by rw [hlen]; exact h.nonempty, ?_, ?_, ?_⟩
  · intro j hj
    rw [hlen] at hj ⊢
    by_cases hji : j = i
    · subst hji
      have hg : fs'.versions[j]? = some w := by rw [hvs, List.getElem?_set_self hi]
      have := h.exact j hj
      rw [FileRefs.holdersAt_of_get hv] at this
      rw [FileRefs.holdersAt_of_get hg]
      omega
    · obtain ⟨x, hx⟩ : ∃ x, fs.versions[j]? = some x := ⟨_, List.getElem?_eq_getElem hj⟩
      have hg : fs'.versions[j]? = some x := by rw [hvs, List.getElem?_set_ne (Ne.symm hji)]; exact hx
      have := h.exact j hj
      rw [FileRefs.holdersAt_of_get hx] at this
      rw [FileRefs.holdersAt_of_get hg, hout j hji]
      exact this
  · intro j hj
    rw [hlen] at hj
    rw [hout j (by omega)]
    exact h.beyond j hj
  · intro x hx hxc
    rw [hvs] at hx
    rcases List.mem_or_eq_of_mem_set hx with hx | rfl
    · exact h.counted_held x hx hxc
    · exact hc hxc

theorem core_install {fs : FileRefs.St F} {out : Nat → Nat} (h : Core fs out) (files : List F) :
    Core (FileRefs.step fs (.install files)) out := by
  have hne := h.nonempty
  have hl : fs.versions.length - 1 < fs.versions.length := by omega
  obtain ⟨old, hold⟩ : ∃ v, fs.versions[fs.versions.length - 1]? = some v := ⟨_, List.getElem?_eq_getElem hl⟩
  have hoh := h.exact _ hl
  rw [FileRefs.holdersAt_of_get hold, if_pos (by omega)] at hoh
  obtain ⟨w, hvs, hwh, hwc⟩ := versions_install fs files old hold
  have hlen : (FileRefs.step fs (.install files)).versions.length = fs.versions.length + 1 := by
    rw [hvs]; simp
  refine ⟨FileRefs.inv_install h.inv files, by omega, ?_, ?_, ?_⟩
  · intro i hi
    rw [hlen] at hi ⊢
    by_cases h1 : i = fs.versions.length
    · subst h1
      have hg : (FileRefs.step fs (.install files)).versions[fs.versions.length]? = some ⟨files, 1, true⟩ := by
        rw [hvs, List.getElem?_set_ne (by omega), List.getElem?_append_right (Nat.le_refl _)]; simp
      rw [FileRefs.holdersAt_of_get hg, h.beyond _ (Nat.le_refl _)]; simp
    · have hi' : i < fs.versions.length := by omega
      by_cases h2 : i = fs.versions.length - 1
      · subst h2
        have hg : (FileRefs.step fs (.install files)).versions[fs.versions.length - 1]? = some w := by
          rw [hvs, List.getElem?_set_self (by simp; omega)]
        rw [FileRefs.holdersAt_of_get hg, if_neg (by omega)]; omega
      · obtain ⟨x, hx⟩ : ∃ x, fs.versions[i]? = some x := ⟨_, List.getElem?_eq_getElem hi'⟩
        have hg : (FileRefs.step fs (.install files)).versions[i]? = some x := by
          rw [hvs, List.getElem?_set_ne (Ne.symm h2), List.getElem?_append_left hi']; exact hx
        have := h.exact i hi'
        rw [FileRefs.holdersAt_of_get hx, if_neg (by omega)] at this
        rw [FileRefs.holdersAt_of_get hg, if_neg (by omega)]
        exact this
  · intro i hi
    rw [hlen] at hi
    exact h.beyond i (by omega)
  · intro x hx hxc
    rw [hvs] at hx
    rcases List.mem_or_eq_of_mem_set hx with hx | rfl
    · simp only [List.mem_append, List.mem_cons, List.not_mem_nil, or_false] at hx
      rcases hx with hx | rfl
      · exact h.counted_held x hx hxc
      · exact Nat.le_refl 1
    · exact hwc (by omega) hxc

theorem core_snapshot {fs : FileRefs.St F} {out out' : Nat → Nat} (h : Core fs out)
    (hb : out' (fs.versions.length - 1) = out (fs.versions.length - 1) + 1)
    (hout : ∀ j, j ≠ fs.versions.length - 1 → out' j = out j) :
    Core (FileRefs.step fs .snapshot) out' := by
  have hne := h.nonempty
  have hl : fs.versions.length - 1 < fs.versions.length := by omega
  obtain ⟨old, hold⟩ : ∃ v, fs.versions[fs.versions.length - 1]? = some v := ⟨_, List.getElem?_eq_getElem hl⟩
  refine core_set h (FileRefs.inv_snapshot h.inv (core_curOk h)) _ old _ hold (versions_snapshot fs old hold)
    ?_ hout ?_
  · simp only; omega
  · intro _; simp only; omega

theorem core_release {fs : FileRefs.St F} {out out' : Nat → Nat} (h : Core fs out) (i : Nat) (ho : out i ≥ 1)
    (hb : out' i = out i - 1) (hout : ∀ j, j ≠ i → out' j = out j) :
    Core (FileRefs.step fs (.release i)) out' := by
  have hi : i < fs.versions.length := by
    apply Nat.lt_of_not_le; intro hge; have := h.beyond i hge; omega
  obtain ⟨v, hv⟩ : ∃ v, fs.versions[i]? = some v := ⟨_, List.getElem?_eq_getElem hi⟩
  have he := h.exact i hi
  rw [FileRefs.holdersAt_of_get hv] at he
  obtain ⟨w, hvs, hwh, hwc⟩ := versions_release fs h.inv i v hv (by omega)
    (by intro hlast; rw [if_pos hlast] at he; omega)
  exact core_set h (FileRefs.inv_release h.inv i) i v w hv hvs (by omega) hout hwc

theorem core_trash {fs : FileRefs.St F} {out : Nat → Nat} (h : Core fs out) :
    Core { fs with trash := [] } out :=
  ⟨⟨h.inv.refs_eq, h.inv.held_counted, h.inv.safe⟩, h.nonempty, h.exact, h.beyond, h.counted_held⟩

theorem filesInv_init (files : List F) (data : List (F × List (Ver K))) : FilesInv (init files data : St F K) := by
  refine ⟨FileRefs.inv_init files, by simp [init], ?_, fun _ _ => rfl, ?_⟩
  · intro i hi
    simp [init] at hi
    subst hi
    simp [FileRefs.holdersAt, FileRefs.hs, init, outOf]
  · intro v hv _
    simp [init] at hv
    rw [hv]; exact Nat.le_refl 1

theorem filesInv_step {klt : K → K → Bool} {tomb : Ver K → Bool} {s s' : St F K} (h : FilesInv s) (e : Ev F K)
    (hs : step klt tomb s e = some s') : FilesInv s' := by
  have hc := (filesInv_iff s).1 h
  rw [filesInv_iff]
  cases e with
  | write k =>
    simp only [step] at hs
    obtain ⟨ts, _, rfl⟩ := Option.map_eq_some_iff.1 hs
    refine core_congr hc (fun j => ?_)
    exact cnt_map s.cursors (fun c => feed klt tomb c
      (if c.memT = s.tables.length - 1 then .write [(k, s.seq + 1)] else .other)) (fun c => ⟨rfl, rfl⟩) j
  | rollover =>
    simp only [step] at hs
    split at hs
    · cases hs
    · cases hs; exact hc
  | flush f =>
    simp only [step] at hs
    split at hs
    · cases hs
    · obtain ⟨ts, _, rfl⟩ := Option.map_eq_some_iff.1 hs
      exact core_install hc _
  | compactInstall files data =>
    simp only [step] at hs
    cases hs
    exact core_install hc _
  | verifierPass =>
    simp only [step] at hs
    cases hs
    exact core_trash hc
  | openCursor sb eb =>
    simp only [step] at hs
    obtain ⟨r, _, rfl⟩ := Option.map_eq_some_iff.1 hs
    refine core_snapshot hc ?_ ?_
    · show cnt (s.cursors ++ [_]) _ = cnt s.cursors _ + 1
      rw [cnt_append_one]; simp
    · intro j hj
      show cnt (s.cursors ++ [_]) _ = cnt s.cursors _
      rw [cnt_append_one, if_neg]
      · rfl
      · simp; exact fun h => hj h.symm
  | stepCursor i o =>
    simp only [step] at hs
    split at hs
    · cases hs
    · rename_i c hci
      split at hs
      · obtain ⟨ts, _, rfl⟩ := Option.map_eq_some_iff.1 hs
        have : outOf ({ s with tables := ts, cursors := s.cursors.set i (feed klt tomb c (.op o)) } : St F K) = outOf s := by
          funext j
          have := cnt_set s.cursors i c (feed klt tomb c (.op o)) hci j
          show cnt (s.cursors.set i (feed klt tomb c (.op o))) j = cnt s.cursors j
          have e1 : (feed klt tomb c (.op o)).live = c.live := rfl
          have e2 : (feed klt tomb c (.op o)).ver = c.ver := rfl
          rw [e1, e2] at this
          omega
        rw [this]
        exact hc
      · cases hs
  | dropCursor i =>
    simp only [step] at hs
    split at hs
    · cases hs
    · rename_i c hci
      split at hs
      · rename_i hlive
        obtain ⟨ts, _, rfl⟩ := Option.map_eq_some_iff.1 hs
        have hset := fun j => cnt_set_dead s.cursors i c hci hlive j
        have hpos : outOf s c.ver ≥ 1 := by
          have := hset c.ver
          rw [if_pos rfl] at this
          rw [outOf_eq]; omega
        refine core_release hc c.ver hpos ?_ ?_
        · have := hset c.ver
          rw [if_pos rfl] at this
          show cnt (s.cursors.set i { c with live := false }) c.ver = cnt s.cursors c.ver - 1
          omega
        · intro j hj
          have := hset j
          rw [if_neg (fun h => hj h.symm)] at this
          show cnt (s.cursors.set i { c with live := false }) j = cnt s.cursors j
          omega
      · cases hs

theorem filesInv_run {klt : K → K → Bool} {tomb : Ver K → Bool} :
    ∀ (evs : List (Ev F K)) {s s' : St F K}, FilesInv s → run klt tomb s evs = some s' → FilesInv s'
  | [], s, s', h, hr => by
    simp only [run] at hr
    cases hr; exact h
  | e :: es, s, s', h, hr => by
    simp only [run] at hr
    split at hr
    · rename_i s1 hs1
      exact filesInv_run es (filesInv_step h e hs1) hr
    · cases hr

/-- a live cursor's version is referenced and all its files are in `sst/` -/
theorem cursor_files_in_sst {s : St F K} (h : FilesInv s) (i : Nat) (c : Cur K) (hc : s.cursors[i]? = some c)
    (hl : c.live = true) :
    FileRefs.holdersAt s.files c.ver ≥ 1 ∧ ∀ f ∈ filesOf s.files c.ver, f ∈ s.files.sst := by
  have hpos : outOf s c.ver ≥ 1 := by
    have := cnt_set_dead s.cursors i c hc hl c.ver
    rw [if_pos rfl] at this
    rw [outOf_eq]; omega
  have hi : c.ver < s.files.versions.length := by
    apply Nat.lt_of_not_le; intro hge; have := h.beyond c.ver hge; omega
  obtain ⟨v, hv⟩ : ∃ v, s.files.versions[c.ver]? = some v := ⟨_, List.getElem?_eq_getElem hi⟩
  have he := h.exact c.ver hi
  have hh : FileRefs.holdersAt s.files c.ver ≥ 1 := by omega
  refine ⟨hh, ?_⟩
  intro f hf
  simp only [filesOf, hv] at hf
  rw [FileRefs.holdersAt_of_get hv] at hh
  exact FileRefs.held_files_present h.inv v (List.mem_of_getElem? hv) hh f hf

/-- a version that is not the current one and that no live cursor captured has been released:
    no holder, not counted -/
theorem version_released {s : St F K} (h : FilesInv s) (i : Nat) (v : FileRefs.Ver F)
    (hv : s.files.versions[i]? = some v) (hn : i + 1 < s.files.versions.length) (ho : outOf s i = 0) :
    v.holders = 0 ∧ v.counted = false := by
  have he := h.exact i (by omega)
  rw [FileRefs.holdersAt_of_get hv, ho, if_neg (by omega)] at he
  refine ⟨by omega, ?_⟩
  cases hcn : v.counted with
  | false => rfl
  | true =>
    have := h.counted_held v (List.mem_of_getElem? hv) hcn
    omega

end Blue.CursorWorld

#print axioms Blue.CursorWorld.filesInv_run
#print axioms Blue.CursorWorld.cursor_files_in_sst
#print axioms Blue.CursorWorld.version_released
