import Blue.Proofs.LogDamageMulti
import Blue.Proofs.LogTrunc
import Blue.Proofs.LogZeroed
/-! **C09 (log)**: damage of any shape COMBINED with a cut and / or with bytes that follow the log.

The image that is read is `e.take m`: `e` is any file at least as long as the builder-written log
(its first `L = (writeAll P bufs 0).length` bytes are the damaged image of the log, what follows is
arbitrary: garbage of a torn append, a pre-allocated tail), cut at any `m ≤ e.length`.

Hypotheses: those of `log_damage_anywhere` on `e` (`TouchedHyp`, `TouchedNotD29`, asked of the
frames whose bytes changed) and `TouchedNotD29` on the image that is read, `e.take m` — a cut can
complete an instance of finding D-29: a frame inside the padding window zeroed up to the cut, the
bytes behind the cut non-zero in `e` (`cut_makes_d29`).

`cut_core`: induction over the appends.  `StopsAt`: where and how the reader stops before the end of
the list.  `log_damage_then_cut` (1), `log_extended_with_garbage` / `garbage_is_error` /
`zero_tail_reads` (2), `log_never_silent_under_damage_and_cut` (3), `clean_end_only_at_boundary`:
which cuts read as a clean end.

sst/src/log.rs: `next_header` returns `Ok(None)` only when `read_exact` of the header-LENGTH byte
meets the end of the file (l. 737-746); a zero length byte runs `true_up` (l. 748-751, 773-792) which
refuses a boundary more than `HEADER_MAX_SIZE` away, reads the bytes up to the boundary — FEWER if
the file ends, which is not an error (`read_to_end` of a `take`, l. 782-786) — refuses non-zero
bytes, and loops.  A header cut short is `read_exact` failing (l. 759, an error); a payload cut
short is `got != header.size` (l. 715, an error); the end of the file where the `SECOND` frame is
due is `corruption_truncation_no_second_header` (l. 663).  So a CLEAN end is read exactly at an
offset where a header length byte is due and the file ends there, or ends at most `H + 1` bytes
later, not beyond the next block boundary, with only zero bytes in between. -/
namespace Blue.Log
open Blue.Damage
variable {P : Params}

/-! ### hypotheses about a file hold of every cut of it -/

theorem frameNoCollision_take (e : List Nat) (m s disc : Nat) (p : List Nat)
    (h : FrameNoCollision P e s disc p) : FrameNoCollision P (e.take m) s disc p := by
  intro h' o' hh hl hc
  have hh' := nextHeader_take e m 1 s _ hh
  have hle := take_length_le e m
  rw [slice_take e m o' h'.size hl] at hc ⊢
  exact h h' o' hh' (by omega) hc

theorem discKept_take (e : List Nat) (m s disc : Nat) (h : DiscKept P e s disc) :
    DiscKept P (e.take m) s disc := by
  intro hd h' o' hh
  exact h hd h' o' (nextHeader_take e m 1 s _ hh)

theorem noFrameAt_take (e : List Nat) (m pos : Nat) (h : NoFrameAt P e pos) : NoFrameAt P (e.take m) pos := by
  intro h' o' hh hl
  have hle := take_length_le e m
  rw [slice_take e m o' h'.size hl]
  exact h h' o' (nextHeader_take e m 1 pos _ hh) (by omega)

theorem appendHyp_take (e : List Nat) (m pos : Nat) (b : List Nat) (h : AppendHyp P e pos b) :
    AppendHyp P (e.take m) pos b :=
  ⟨fun s disc p hm => frameNoCollision_take e m s disc p (h.nc s disc p hm),
   fun s disc p hm => discKept_take e m s disc (h.dc s disc p hm),
   fun x hx hlt => noFrameAt_take e m pos (h.pad x hx hlt)⟩

/-! ### the reader's results: bounds and the clean end -/

/-- a batch is delivered only from inside the file -/
theorem nextBatch_ok_le (file : List Nat) (fuel off : Nat) (r : List Nat × Nat)
    (h : nextBatch P file fuel off = .ok r) : r.2 ≤ file.length := by
  unfold nextBatch at h
  cases hf : nextFrame P file fuel off with
  | eof => rw [hf] at h; cases h
  | err => rw [hf] at h; cases h
  | ok fr =>
    obtain ⟨hd, p, off'⟩ := fr
    rw [hf] at h
    simp only at h
    have hb := (nextFrame_ok_bounds file fuel off _ hf).2
    simp only at hb
    by_cases hw : hd.disc = WHOLE
    · rw [if_pos hw] at h; cases h; exact hb
    · rw [if_neg hw] at h
      by_cases h1 : hd.disc = FIRST
      · rw [if_pos h1] at h
        by_cases ht : trueUp P off' - off' > P.H
        · rw [if_pos ht] at h; cases h
        · rw [if_neg ht] at h
          by_cases hp : (!padZero file off' (trueUp P off')) = true
          · rw [if_pos hp] at h; cases h
          · rw [if_neg hp] at h
            cases hf2 : nextFrame P file fuel (trueUp P off') with
            | eof => rw [hf2] at h; cases h
            | err => rw [hf2] at h; cases h
            | ok fr2 =>
              obtain ⟨h2, p2, e2⟩ := fr2
              rw [hf2] at h
              simp only at h
              by_cases hs : h2.disc = SECOND
              · rw [if_pos hs] at h; cases h
                exact (nextFrame_ok_bounds file fuel _ _ hf2).2
              · rw [if_neg hs] at h; cases h
      · rw [if_neg h1] at h; cases h

/-- `LogIterator::next` returns `Ok(None)` only when `next_header` does -/
theorem nextHeader_eof_of_nextBatch_eof (file : List Nat) (fuel off : Nat)
    (h : nextBatch P file fuel off = .eof) : nextHeader P file fuel off = .eof := by
  unfold nextBatch at h
  cases hf : nextFrame P file fuel off with
  | eof =>
    unfold nextFrame at hf
    cases hh : nextHeader P file fuel off with
    | eof => rfl
    | err => rw [hh] at hf; cases hf
    | ok r =>
      obtain ⟨hd, o⟩ := r
      rw [hh] at hf
      simp only at hf
      by_cases h1 : o + hd.size > file.length
      · rw [if_pos h1] at hf; cases hf
      · rw [if_neg h1] at hf
        by_cases h2 : P.crc (slice file o hd.size) ≠ hd.crc
        · rw [if_pos h2] at hf; cases hf
        · rw [if_neg h2] at hf; cases hf
  | err => rw [hf] at h; cases h
  | ok fr =>
    obtain ⟨hd, p, off'⟩ := fr
    rw [hf] at h
    simp only at h
    by_cases hw : hd.disc = WHOLE
    · rw [if_pos hw] at h; cases h
    · rw [if_neg hw] at h
      by_cases h1 : hd.disc = FIRST
      · rw [if_pos h1] at h
        by_cases ht : trueUp P off' - off' > P.H
        · rw [if_pos ht] at h; cases h
        · rw [if_neg ht] at h
          by_cases hp : (!padZero file off' (trueUp P off')) = true
          · rw [if_pos hp] at h; cases h
          · rw [if_neg hp] at h
            cases hf2 : nextFrame P file fuel (trueUp P off') with
            | eof => rw [hf2] at h; cases h
            | err => rw [hf2] at h; cases h
            | ok fr2 =>
              obtain ⟨h2, p2, e2⟩ := fr2
              rw [hf2] at h
              simp only at h
              by_cases hs : h2.disc = SECOND
              · rw [if_pos hs] at h; cases h
              · rw [if_neg hs] at h; cases h
      · rw [if_neg h1] at h; cases h

theorem nextBatch_of_header_eof (file : List Nat) (fuel off : Nat)
    (h : nextHeader P file fuel off = .eof) : nextBatch P file fuel off = .eof := by
  unfold nextBatch; rw [nextFrame_of_header_eof file fuel off h]

/-- **which offsets read as a clean end**: a header length byte is due at `q` and the file ends
    there, or the byte is zero, the next block boundary is at most `H` bytes behind it, every byte
    the file still has before that boundary is zero and the file ends at or before the boundary -/
def CleanEndAt (P : Params) (c : List Nat) (q : Nat) : Prop :=
  c.length ≤ q
  ∨ (c[q]? = some 0 ∧ trueUp P (q + 1) - (q + 1) ≤ P.H
      ∧ padZero c (q + 1) (trueUp P (q + 1)) = true ∧ c.length ≤ trueUp P (q + 1))

instance (P : Params) (c : List Nat) (q : Nat) : Decidable (CleanEndAt P c q) := by
  unfold CleanEndAt; exact inferInstance

theorem nextHeader_eof_iff (c : List Nat) (q : Nat) : nextHeader P c 2 q = .eof ↔ CleanEndAt P c q := by
  unfold CleanEndAt
  constructor
  · intro h
    rw [show (2 : Nat) = 1 + 1 from rfl, nextHeader_succ] at h
    cases hx : c[q]? with
    | none => exact .inl (List.getElem?_eq_none_iff.mp hx)
    | some y =>
      right
      by_cases hy : y = 0
      · subst hy
        rw [hx] at h
        simp only at h
        rw [if_pos trivial] at h
        by_cases ht : trueUp P (q + 1) - (q + 1) > P.H
        · rw [if_pos ht] at h; cases h
        · rw [if_neg ht] at h
          cases hp : padZero c (q + 1) (trueUp P (q + 1)) with
          | false => rw [hp] at h; simp only [Bool.not_false, if_true] at h; cases h
          | true =>
            rw [hp] at h
            simp only [Bool.not_true, Bool.false_eq_true, if_false] at h
            refine ⟨rfl, by omega, rfl, ?_⟩
            apply Classical.byContradiction
            intro hlt
            have hz : c[trueUp P (q + 1)]? = some c[trueUp P (q + 1)] := List.getElem?_eq_getElem (by omega)
            by_cases h0 : c[trueUp P (q + 1)] = 0
            · rw [h0] at hz
              rw [nextHeader_one_zero c _ hz] at h
              cases h
            · exact nextHeader_ne_eof_of_nonzero c 0 _ _ hz h0 h
      · exact absurd (show nextHeader P c (1 + 1) q = .eof by rw [nextHeader_succ]; exact h)
          (nextHeader_ne_eof_of_nonzero c 1 q y hx hy)
  · intro h
    rw [show (2 : Nat) = 1 + 1 from rfl, nextHeader_succ]
    rcases h with h | ⟨hx, ht, hp, hl⟩
    · rw [List.getElem?_eq_none h]
    · rw [hx]
      simp only
      rw [if_pos trivial, if_neg (by omega), hp]
      simp only [Bool.not_true, Bool.false_eq_true, if_false]
      rw [show (1 : Nat) = 0 + 1 from rfl, nextHeader_succ, List.getElem?_eq_none hl]

/-! ### the induction over the appends -/

/-- how the reader of the image `e.take m` stops at the append of `b` that starts at `q`:
    `q` lies before the cut; the cut falls in the append (`m < q + length`; `m = q`: the append is
    cut off entirely) or the append's bytes changed; the reader reports an error (`flag = true`)
    or — only when the cut falls in the append — meets a clean end at `q` (`flag = false`) -/
def StopsAt (P : Params) (e : List Nat) (m q : Nat) (b : List Nat) (flag : Bool) : Prop :=
  q ≤ m
  ∧ (m < q + (appendAt P 2 q b).length ∨ slice e q (appendAt P 2 q b).length ≠ appendAt P 2 q b)
  ∧ ((flag = true ∧ nextBatch P (e.take m) 2 q = .err)
     ∨ (flag = false ∧ m < q + (appendAt P 2 q b).length ∧ CleanEndAt P (e.take m) q))

instance decEqErr {α : Type} (x : R α) : Decidable (x = .err) :=
  match x with
  | .err => isTrue rfl
  | .ok _ => isFalse (by intro h; cases h)
  | .eof => isFalse (by intro h; cases h)

instance (P : Params) (e : List Nat) (m q : Nat) (b : List Nat) (flag : Bool) : Decidable (StopsAt P e m q b flag) := by
  unfold StopsAt; exact inferInstance

theorem cut_core (g : Good P) (e : List Nat) (m : Nat) (hm : m ≤ e.length) :
    ∀ (bufs : List (List Nat)) (pos : Nat), (∀ b ∈ bufs, b.length ≤ P.tableFull) →
      pos + (writeAll P bufs pos).length ≤ e.length → pos ≤ m →
      (∀ bufs1 b bufs2, bufs = bufs1 ++ b :: bufs2 →
        TouchedHyp P e (pos + (writeAll P bufs1 pos).length) b
        ∧ TouchedNotD29 P e (pos + (writeAll P bufs1 pos).length) b
        ∧ TouchedNotD29 P (e.take m) (pos + (writeAll P bufs1 pos).length) b) →
      (pos + (writeAll P bufs pos).length ≤ m
        ∧ ∀ n, readSome P (e.take m) (bufs.length + n) pos
            = (bufs ++ (readSome P (e.take m) n (pos + (writeAll P bufs pos).length)).1,
               (readSome P (e.take m) n (pos + (writeAll P bufs pos).length)).2))
      ∨ ∃ bufs1 b bufs2 flag, bufs = bufs1 ++ b :: bufs2
          ∧ StopsAt P e m (pos + (writeAll P bufs1 pos).length) b flag
          ∧ ∀ k, readSome P (e.take m) (bufs.length + 1 + k) pos = (bufs1, flag) := by
  have hcl : (e.take m).length = m := by rw [List.length_take]; omega
  intro bufs
  induction bufs with
  | nil =>
    intro pos _ _ hpm _
    left
    simp only [writeAll, List.length_nil, Nat.add_zero, Nat.zero_add, List.nil_append]
    exact ⟨hpm, fun _ => trivial⟩
  | cons x xs ih =>
    intro pos hsz hlen hpm hyp
    simp only [writeAll, List.length_append] at hlen
    have hx := hsz x (List.mem_cons_self ..)
    have h0 := hyp [] x xs rfl
    simp only [writeAll, List.length_nil, Nat.add_zero] at h0
    obtain ⟨hT, hZe, hZc⟩ := h0
    have hAe : AppendHyp P e pos x := appendHyp_of_touched g e pos x hx (by omega) hT
    have hfuel : ∀ k, (x :: xs).length + 1 + k = (xs.length + 1 + k) + 1 := by
      intro k; simp only [List.length_cons]; omega
    by_cases hin : pos + (appendAt P 2 pos x).length ≤ m
    · rcases append_step g (e.take m) pos x hx (by rw [hcl]; exact hin) (appendHyp_take e m pos x hAe) hZc
        with herr | hok
      · right
        refine ⟨[], x, xs, true, rfl, ?_, ?_⟩
        · simp only [writeAll, List.length_nil, Nat.add_zero]
          refine ⟨hpm, .inr ?_, .inl ⟨rfl, herr⟩⟩
          intro hun
          have hc : slice (e.take m) pos (appendAt P 2 pos x).length = appendAt P 2 pos x := by
            rw [slice_take e m pos _ (by rw [hcl]; exact hin)]; exact hun
          rw [untouched_step g (e.take m) pos x hx (by rw [hcl]; exact hin) hc] at herr
          cases herr
        · intro k; rw [hfuel k, readSome_succ, herr]
      · have hyp' : ∀ bufs1 b bufs2, xs = bufs1 ++ b :: bufs2 →
            TouchedHyp P e (pos + (appendAt P 2 pos x).length
                + (writeAll P bufs1 (pos + (appendAt P 2 pos x).length)).length) b
            ∧ TouchedNotD29 P e (pos + (appendAt P 2 pos x).length
                + (writeAll P bufs1 (pos + (appendAt P 2 pos x).length)).length) b
            ∧ TouchedNotD29 P (e.take m) (pos + (appendAt P 2 pos x).length
                + (writeAll P bufs1 (pos + (appendAt P 2 pos x).length)).length) b := by
          intro bufs1 b bufs2 hsp
          have := hyp (x :: bufs1) b bufs2 (by rw [hsp]; rfl)
          simpa only [writeAll, List.length_append, Nat.add_assoc] using this
        rcases ih (pos + (appendAt P 2 pos x).length) (fun b hb => hsz b (List.mem_cons_of_mem _ hb))
            (by omega) hin hyp' with ⟨hle, h⟩ | ⟨b1, b, b2, flag, hsp, hst, hrs⟩
        · left
          refine ⟨?_, ?_⟩
          · simp only [writeAll, List.length_append]; omega
          · intro n
            rw [show (x :: xs).length + n = (xs.length + n) + 1 by simp only [List.length_cons]; omega,
              readSome_succ, hok]
            simp only
            rw [h n]
            simp only [writeAll, List.length_append, Nat.add_assoc, List.cons_append]
        · right
          refine ⟨x :: b1, b, b2, flag, by rw [hsp]; rfl, ?_, ?_⟩
          · simpa only [writeAll, List.length_append, Nat.add_assoc] using hst
          · intro k
            rw [hfuel k, readSome_succ, hok]
            simp only
            rw [hrs k]
    · have hnotok : ∀ r, nextBatch P (e.take m) 2 pos ≠ .ok r := by
        intro r hr
        have hle := nextBatch_ok_le (e.take m) 2 pos r hr
        have hr' := nextBatch_take e m 2 pos r hr
        rcases append_step g e pos x hx (by omega) hAe hZe with herr | hok
        · rw [herr] at hr'; cases hr'
        · rw [hok] at hr'
          cases hr'
          simp only at hle
          rw [hcl] at hle
          omega
      right
      cases hb : nextBatch P (e.take m) 2 pos with
      | ok r => exact absurd hb (hnotok r)
      | err =>
        refine ⟨[], x, xs, true, rfl, ?_, ?_⟩
        · simp only [writeAll, List.length_nil, Nat.add_zero]
          exact ⟨hpm, .inl (by omega), .inl ⟨rfl, hb⟩⟩
        · intro k; rw [hfuel k, readSome_succ, hb]
      | eof =>
        refine ⟨[], x, xs, false, rfl, ?_, ?_⟩
        · simp only [writeAll, List.length_nil, Nat.add_zero]
          exact ⟨hpm, .inl (by omega), .inr ⟨rfl, by omega,
            (nextHeader_eof_iff _ _).mp (nextHeader_eof_of_nextBatch_eof _ 2 pos hb)⟩⟩
        · intro k; rw [hfuel k, readSome_succ, hb]

/-! ### the theorems -/

/-- the hypotheses: those of `log_damage_anywhere` on `e`, and the exclusion of the class of D-29
    on the image that is read -/
def CutHyp (P : Params) (bufs : List (List Nat)) (e : List Nat) (m : Nat) : Prop :=
  ∀ bufs1 b bufs2, bufs = bufs1 ++ b :: bufs2 →
    TouchedHyp P e (startOf P bufs1) b ∧ TouchedNotD29 P e (startOf P bufs1) b
    ∧ TouchedNotD29 P (e.take m) (startOf P bufs1) b

theorem cut_core0 (g : Good P) (bufs : List (List Nat)) (hsz : ∀ x ∈ bufs, x.length ≤ P.tableFull)
    (e : List Nat) (hlen : (writeAll P bufs 0).length ≤ e.length) (m : Nat) (hm : m ≤ e.length)
    (hyp : CutHyp P bufs e m) :
    (startOf P bufs ≤ m
      ∧ ∀ n, readSome P (e.take m) (bufs.length + n) 0
          = (bufs ++ (readSome P (e.take m) n (startOf P bufs)).1, (readSome P (e.take m) n (startOf P bufs)).2))
    ∨ ∃ bufs1 b bufs2 flag, bufs = bufs1 ++ b :: bufs2
        ∧ StopsAt P e m (startOf P bufs1) b flag
        ∧ ∀ k, readSome P (e.take m) (bufs.length + 1 + k) 0 = (bufs1, flag) := by
  have h := cut_core g e m hm bufs 0 hsz (by rw [Nat.zero_add]; exact hlen) (Nat.zero_le _)
    (by intro b1 b b2 hsp; simpa only [Nat.zero_add] using hyp b1 b b2 hsp)
  simpa only [Nat.zero_add] using h

/-- **(1) damage, then a cut**: `d` a damaged image (same length) of a builder-written log, cut at
    any `m ≤ d.length`.  The reader of `d.take m` delivers the whole list and a clean end — only if
    nothing was cut —, or exactly the batches before an append `b` at which it stops (`StopsAt`):
    the cut falls in `b` or `b`'s bytes changed; it reports an error there, or — only when the cut
    falls in `b`, at its start or in zero bytes at most up to the next block boundary
    (`CleanEndAt`) — a clean end.  Never an invented batch, never a batch after a lost one. -/
theorem log_damage_then_cut (g : Good P) (bufs : List (List Nat)) (hsz : ∀ x ∈ bufs, x.length ≤ P.tableFull)
    (d : List Nat) (hlen : d.length = (writeAll P bufs 0).length) (m : Nat) (hm : m ≤ d.length)
    (hyp : CutHyp P bufs d m) :
    (m = d.length ∧ ∀ k, readSome P (d.take m) (bufs.length + 1 + k) 0 = (bufs, false))
    ∨ ∃ bufs1 b bufs2 flag, bufs = bufs1 ++ b :: bufs2
        ∧ StopsAt P d m (startOf P bufs1) b flag
        ∧ ∀ k, readSome P (d.take m) (bufs.length + 1 + k) 0 = (bufs1, flag) := by
  rcases cut_core0 g bufs hsz d (by omega) m hm hyp with ⟨hle, h⟩ | h
  · left
    unfold startOf at hle h
    refine ⟨by omega, ?_⟩
    intro k
    rw [Nat.add_assoc, h (1 + k), show 1 + k = k + 1 by omega, readSome_succ,
      nextBatch_at_end _ _ (by rw [List.length_take]; omega)]
    simp only [List.append_nil]
  · exact .inr h

/-- **which cuts read as a clean end**: the reader stopped at the append that starts at `q` without
    an error only if the cut is AT `q` (the append boundary), or every byte from `q` to the cut is
    zero, the cut is not beyond the next block boundary and that boundary is at most `H + 1` bytes
    behind `q` (for intact bytes: the cut falls in the leading padding of the append) -/
theorem clean_end_only_at_boundary (e : List Nat) (m q : Nat) (b : List Nat) (hm : m ≤ e.length)
    (h : StopsAt P e m q b false) :
    m = q ∨ (q < m ∧ e[q]? = some 0 ∧ m ≤ trueUp P (q + 1) ∧ trueUp P (q + 1) - (q + 1) ≤ P.H
      ∧ padZero (e.take m) (q + 1) (trueUp P (q + 1)) = true) := by
  have hcl : (e.take m).length = m := by rw [List.length_take]; omega
  obtain ⟨hq, _, h3⟩ := h
  rcases h3 with ⟨hf, _⟩ | ⟨_, _, hc⟩
  · cases hf
  · rcases hc with hc | ⟨hx, ht, hp, hl⟩
    · left; rw [hcl] at hc; omega
    · right
      rw [hcl] at hl
      have hlt : q < m := by
        apply Classical.byContradiction
        intro hge
        rw [List.getElem?_eq_none (by rw [hcl]; omega)] at hx
        cases hx
      exact ⟨hlt, take_get e m q 0 hx, hl, ht, hp⟩

/-- **(2) bytes behind the log** (garbage of a torn append, a pre-allocated tail): `e` is at least as
    long as the log, its first bytes a damaged image of it.  The reader delivers the batches before
    an append whose bytes changed and an error, or ALL batches and goes on reading at the end of
    the log, `startOf P bufs` -/
theorem log_extended_with_garbage (g : Good P) (bufs : List (List Nat)) (hsz : ∀ x ∈ bufs, x.length ≤ P.tableFull)
    (e : List Nat) (hlen : (writeAll P bufs 0).length ≤ e.length)
    (hyp : ∀ bufs1 b bufs2, bufs = bufs1 ++ b :: bufs2 →
      TouchedHyp P e (startOf P bufs1) b ∧ TouchedNotD29 P e (startOf P bufs1) b) :
    (∀ n, readSome P e (bufs.length + n) 0
        = (bufs ++ (readSome P e n (startOf P bufs)).1, (readSome P e n (startOf P bufs)).2))
    ∨ ∃ bufs1 b bufs2, bufs = bufs1 ++ b :: bufs2
        ∧ slice e (startOf P bufs1) (appendAt P 2 (startOf P bufs1) b).length ≠ appendAt P 2 (startOf P bufs1) b
        ∧ nextBatch P e 2 (startOf P bufs1) = .err
        ∧ ∀ k, readSome P e (bufs.length + 1 + k) 0 = (bufs1, true) := by
  have ht : e.take e.length = e := List.take_length
  have hyp' : CutHyp P bufs e e.length := by
    intro b1 b b2 hsp
    rw [ht]
    exact ⟨(hyp b1 b b2 hsp).1, (hyp b1 b b2 hsp).2, (hyp b1 b b2 hsp).2⟩
  rcases cut_core0 g bufs hsz e hlen e.length (Nat.le_refl _) hyp' with ⟨_, h⟩ | ⟨b1, b, b2, flag, hsp, hst, hrs⟩
  · left; rw [ht] at h; exact h
  · right
    rw [ht] at hrs
    obtain ⟨_, h2, h3⟩ := hst
    rw [ht] at h3
    have hin : startOf P b1 + (appendAt P 2 (startOf P b1) b).length ≤ e.length := by
      have hl : (writeAll P bufs 0).length
          = startOf P b1 + ((appendAt P 2 (startOf P b1) b).length
              + (writeAll P b2 (startOf P b1 + (appendAt P 2 (startOf P b1) b).length)).length) := by
        rw [hsp, writeAll_append]
        simp only [writeAll, List.length_append, Nat.zero_add, startOf]
      omega
    rcases h3 with ⟨hf, herr⟩ | ⟨_, hlt, _⟩
    · subst hf
      refine ⟨b1, b, b2, hsp, ?_, herr, hrs⟩
      rcases h2 with hlt | hne
      · omega
      · exact hne
    · omega

/-- (2) the bytes behind the log start with a non-zero byte and spell no frame that passes its CRC
    (`NoFrameAt`, as for injected padding): all batches, then an error -/
theorem garbage_is_error (e : List Nat) (L y : Nat) (hx : e[L]? = some y) (hy : y ≠ 0)
    (hno : NoFrameAt P e L) : nextBatch P e 2 L = .err := by
  apply nextBatch_of_frame_err
  rw [nextFrame_of_header e 2 1 L L (nextHeader_fuel_nonzero e 1 0 L _ hx hy)]
  exact noFrame_err e L y hx hy hno

/-- (2) **a zero-filled tail** of `z` bytes behind a file `d` (pre-allocation; the padding rule):
    read as a clean end iff it is empty, or the next block boundary behind its first byte is at most
    `H` bytes away and the tail does not reach beyond that boundary; an error otherwise
    (`corruption_true_up_exceeds_header_max`: a zero header-length byte further than `H + 1` from
    the boundary, and always at the boundary itself) -/
theorem zero_tail_reads (g : Good P) (d : List Nat) (z : Nat) :
    (CleanEndAt P (d ++ zeros z) d.length → nextBatch P (d ++ zeros z) 2 d.length = .eof)
    ∧ (¬ CleanEndAt P (d ++ zeros z) d.length → nextBatch P (d ++ zeros z) 2 d.length = .err)
    ∧ (CleanEndAt P (d ++ zeros z) d.length ↔
        z = 0 ∨ (trueUp P (d.length + 1) - (d.length + 1) ≤ P.H ∧ d.length + z ≤ trueUp P (d.length + 1))) := by
  have hB : 0 < P.B := by have := g.hB; omega
  have hzero : ∀ i x, d.length ≤ i → (d ++ zeros z)[i]? = some x → x = 0 := by
    intro i x hi hx
    rw [List.getElem?_append_right hi] at hx
    exact zeros_get z _ x hx
  have hpad : ∀ t, padZero (d ++ zeros z) (d.length + 1) t = true := by
    intro t
    rw [padZero_iff]
    intro i x h1 _ hx
    exact hzero i x (by omega) hx
  have hlen : (d ++ zeros z).length = d.length + z := by rw [List.length_append, zeros_length]
  refine ⟨fun h => nextBatch_of_header_eof _ 2 _ ((nextHeader_eof_iff _ _).mpr h), ?_, ?_⟩
  · intro hnc
    apply nextBatch_of_header_err
    cases hh : nextHeader P (d ++ zeros z) 2 d.length with
    | err => rfl
    | eof => exact absurd ((nextHeader_eof_iff _ _).mp hh) hnc
    | ok r =>
      exfalso
      have hlt := nextHeader_ok_lt _ 2 _ r hh
      have hx : (d ++ zeros z)[d.length]? = some (d ++ zeros z)[d.length] := List.getElem?_eq_getElem hlt
      have h0 := hzero _ _ (Nat.le_refl _) hx
      rw [h0] at hx
      rw [show (2 : Nat) = 1 + 1 from rfl, nextHeader_succ, hx] at hh
      simp only at hh
      rw [if_pos trivial] at hh
      by_cases ht : trueUp P (d.length + 1) - (d.length + 1) > P.H
      · rw [if_pos ht] at hh; cases hh
      · rw [if_neg ht, hpad] at hh
        simp only [Bool.not_true, Bool.false_eq_true, if_false] at hh
        have hlt2 := nextHeader_ok_lt _ 1 _ r hh
        have hx2 : (d ++ zeros z)[trueUp P (d.length + 1)]? = some (d ++ zeros z)[trueUp P (d.length + 1)] :=
          List.getElem?_eq_getElem hlt2
        have hge := trueUp_ge (P := P) hB (d.length + 1)
        have h02 := hzero _ _ (by omega) hx2
        rw [h02] at hx2
        rw [nextHeader_one_zero _ _ hx2] at hh
        cases hh
  · unfold CleanEndAt
    rw [hlen]
    constructor
    · rintro (h | ⟨_, ht, _, hl⟩)
      · left; omega
      · exact .inr ⟨ht, hl⟩
    · rintro (h | ⟨ht, hl⟩)
      · left; omega
      · by_cases hz : z = 0
        · left; omega
        · right
          have hx : (d ++ zeros z)[d.length]? = some (d ++ zeros z)[d.length] :=
            List.getElem?_eq_getElem (by omega)
          have h0 := hzero _ _ (Nat.le_refl _) hx
          rw [h0] at hx
          exact ⟨hx, ht, hpad _, hl⟩

/-- **(3) never silent under damage, a cut and bytes appended**: `e` is any file at least as long as
    a builder-written log (its first bytes: the log with any bytes changed; behind them: anything),
    read up to any `m ≤ e.length`.  If what follows the log is not readable as a batch (`htail`;
    `garbage_is_error`, `zero_tail_reads`), the reader's result is a PREFIX of the appended batches
    and an error-or-clean-end flag; it is the full list only if every append lies before the cut
    and still decodes, and then the flag says whether the end of the log reads as a clean end;
    short of the full list it stops at the first append the cut falls in or whose bytes changed,
    with a clean end only for a cut at that append's boundary (`clean_end_only_at_boundary`). -/
theorem log_never_silent_under_damage_and_cut (g : Good P) (bufs : List (List Nat))
    (hsz : ∀ x ∈ bufs, x.length ≤ P.tableFull)
    (e : List Nat) (hlen : (writeAll P bufs 0).length ≤ e.length) (m : Nat) (hm : m ≤ e.length)
    (hyp : CutHyp P bufs e m)
    (htail : ∀ r, nextBatch P (e.take m) 2 (startOf P bufs) ≠ .ok r) :
    (startOf P bufs ≤ m
      ∧ ((CleanEndAt P (e.take m) (startOf P bufs)
            ∧ ∀ k, readSome P (e.take m) (bufs.length + 1 + k) 0 = (bufs, false))
         ∨ (nextBatch P (e.take m) 2 (startOf P bufs) = .err
            ∧ ∀ k, readSome P (e.take m) (bufs.length + 1 + k) 0 = (bufs, true))))
    ∨ ∃ bufs1 b bufs2 flag, bufs = bufs1 ++ b :: bufs2
        ∧ StopsAt P e m (startOf P bufs1) b flag
        ∧ ∀ k, readSome P (e.take m) (bufs.length + 1 + k) 0 = (bufs1, flag) := by
  rcases cut_core0 g bufs hsz e hlen m hm hyp with ⟨hle, h⟩ | h
  · left
    refine ⟨hle, ?_⟩
    cases hb : nextBatch P (e.take m) 2 (startOf P bufs) with
    | ok r => exact absurd hb (htail r)
    | eof =>
      left
      refine ⟨(nextHeader_eof_iff _ _).mp (nextHeader_eof_of_nextBatch_eof _ 2 _ hb), ?_⟩
      intro k
      rw [Nat.add_assoc, h (1 + k), show 1 + k = k + 1 by omega, readSome_succ, hb]
      simp only [List.append_nil]
    | err =>
      right
      refine ⟨rfl, ?_⟩
      intro k
      rw [Nat.add_assoc, h (1 + k), show 1 + k = k + 1 by omega, readSome_succ, hb]
      simp only [List.append_nil]
  · exact .inr h

/-- (3), the converse: all bytes of the log intact, read in full, and a clean end behind it: the
    full list and a clean end -/
theorem intact_reads_full (g : Good P) (bufs : List (List Nat)) (hsz : ∀ x ∈ bufs, x.length ≤ P.tableFull)
    (e : List Nat) (hlen : (writeAll P bufs 0).length ≤ e.length)
    (hun : ∀ bufs1 b bufs2, bufs = bufs1 ++ b :: bufs2 →
      slice e (startOf P bufs1) (appendAt P 2 (startOf P bufs1) b).length = appendAt P 2 (startOf P bufs1) b)
    (hyp : ∀ bufs1 b bufs2, bufs = bufs1 ++ b :: bufs2 →
      TouchedHyp P e (startOf P bufs1) b ∧ TouchedNotD29 P e (startOf P bufs1) b) :
    ∀ n, readSome P e (bufs.length + n) 0
        = (bufs ++ (readSome P e n (startOf P bufs)).1, (readSome P e n (startOf P bufs)).2) := by
  rcases log_extended_with_garbage g bufs hsz e hlen hyp with h | ⟨b1, b, b2, hsp, hne, _⟩
  · exact h
  · exact absurd (hun b1 b b2 hsp) hne

/-! ### closed instances on the toy parameters (`B = 16`, `H = 4`; `toy3`: frames at 0..7, 7..13,
    padding 13..16, a frame at 16..21) -/

theorem cutHyp_of_logCheck {e : List Nat} {m : Nat} {bufs : List (List Nat)}
    (h1 : logCheck P true e bufs 0 = true) (h2 : logCheck P true (e.take m) bufs 0 = true) :
    CutHyp P bufs e m := by
  intro b1 b b2 hsp
  exact ⟨(hyps_of_logCheck h1 b1 b b2 hsp).1, (hyps_of_logCheck h1 b1 b b2 hsp).2 rfl,
    (hyps_of_logCheck h2 b1 b b2 hsp).2 rfl⟩

/-- every append's bytes are intact, decided -/
def intactCheck (P : Params) (e : List Nat) : List (List Nat) → Nat → Bool
  | [], _ => true
  | b :: bs, pos => decide (slice e pos (appendAt P 2 pos b).length = appendAt P 2 pos b)
      && intactCheck P e bs (pos + (appendAt P 2 pos b).length)

theorem intactCheck_spec (e : List Nat) : ∀ (bufs : List (List Nat)) (pos : Nat),
    intactCheck P e bufs pos = true → ∀ b1 b b2, bufs = b1 ++ b :: b2 →
      slice e (pos + (writeAll P b1 pos).length) (appendAt P 2 (pos + (writeAll P b1 pos).length) b).length
        = appendAt P 2 (pos + (writeAll P b1 pos).length) b := by
  intro bufs
  induction bufs with
  | nil =>
    intro pos _ b1 b b2 hsp
    cases b1 <;> cases hsp
  | cons x xs ih =>
    intro pos h b1 b b2 hsp
    simp only [intactCheck, Bool.and_eq_true, decide_eq_true_eq] at h
    cases b1 with
    | nil =>
      simp only [List.nil_append] at hsp
      injection hsp with e1 e2
      subst e1
      simpa only [writeAll, List.length_nil, Nat.add_zero] using h.1
    | cons y ys =>
      simp only [List.cons_append] at hsp
      injection hsp with e1 e2
      subst e1
      have := ih _ h.2 ys b b2 e2
      simpa only [writeAll, List.length_append, Nat.add_assoc] using this

theorem intact_of_intactCheck {e : List Nat} {bufs : List (List Nat)} (h : intactCheck P e bufs 0 = true) :
    ∀ b1 b b2, bufs = b1 ++ b :: b2 →
      slice e (startOf P b1) (appendAt P 2 (startOf P b1) b).length = appendAt P 2 (startOf P b1) b := by
  intro b1 b b2 hsp
  have := intactCheck_spec e bufs 0 h b1 b b2 hsp
  rw [Nat.zero_add] at this
  exact this

/-- the pristine toy log followed by three zero bytes (21..24: the boundary 32 is 10 bytes behind
    offset 22, further than `H`) -/
def toy3Tail : List Nat := toy3Log ++ zeros 3

theorem toy3Tail_unreadable : ∀ r, nextBatch toyFrameParams (toy3Tail.take 24) 2 (startOf toyFrameParams toy3) ≠ .ok r := by
  intro r h
  have h2 : nextBatch toyFrameParams (toy3Tail.take 24) 2 (startOf toyFrameParams toy3) = .err := by rfl
  rw [h2] at h
  cases h

/-- one append that ends at 12, four bytes before the block boundary 16 -/
def toy1 : List (List Nat) := [[1, 2, 3, 4, 5, 6, 7, 8]]
def toy1Log : List Nat := writeAll toyFrameParams toy1 0

/-- **a cut can complete an instance of D-29**: a frame at 0..11, an empty batch's frame at 11..15
    (inside the padding window of the boundary 16), one byte of padding, a frame at 16..21.  The
    image `e`: the second frame zeroed, the padding byte 15 overwritten with 7.  Read in full, `e`
    is an error at 11 (the bytes up to the boundary are not all zero: `e` is outside the class, all
    hypotheses of `log_damage_anywhere` hold); cut at 15 — the END of the second append — the
    zeroed frame is padding up to the end of the file: the first batch and a clean end, the second
    batch lost in silence although it lies before the cut.  The cut image is in the class. -/
def toyCut29 : List (List Nat) := [[1, 2, 3, 4, 5, 6, 7], [], [6]]
def toyCut29Image : List Nat :=
  (((((writeAll toyFrameParams toyCut29 0).set 11 0).set 12 0).set 13 0).set 14 0).set 15 7

theorem cut_makes_d29 :
    framesOf toyFrameParams 2 11 [] = [(11, WHOLE, [])]
    ∧ logCheck toyFrameParams true toyCut29Image toyCut29 0 = true
    ∧ readSome toyFrameParams toyCut29Image 4 0 = ([[1, 2, 3, 4, 5, 6, 7]], true)
    ∧ readSome toyFrameParams ((writeAll toyFrameParams toyCut29 0).take 15) 4 0 = ([[1, 2, 3, 4, 5, 6, 7], []], false)
    ∧ readSome toyFrameParams (toyCut29Image.take 15) 4 0 = ([[1, 2, 3, 4, 5, 6, 7]], false)
    ∧ ¬ ZeroedFrameInPadWindow toyFrameParams toyCut29Image 11
    ∧ ZeroedFrameInPadWindow toyFrameParams (toyCut29Image.take 15) 11 := by decide

end Blue.Log

#print axioms Blue.Log.cut_core
#print axioms Blue.Log.log_damage_then_cut
#print axioms Blue.Log.clean_end_only_at_boundary
#print axioms Blue.Log.log_extended_with_garbage
#print axioms Blue.Log.garbage_is_error
#print axioms Blue.Log.zero_tail_reads
#print axioms Blue.Log.log_never_silent_under_damage_and_cut
