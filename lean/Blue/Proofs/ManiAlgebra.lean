import Blue.Proofs.ManiCrash
import Blue.Model.Mani
/-! The manifest's states and edits (`Blue.Mani`) form a lawful algebra for `ManiCrash`: rolling a
    reachable state up into one edit and applying it to the empty state gives the state back. -/
namespace Blue.Mani
open Blue.ManiCrash

def addIfAbsent (acc : List (List Nat)) (x : List Nat) : List (List Nat) :=
  if acc.contains x then acc else acc ++ [x]

def Wf (s : State) : Prop := s.strs.Nodup ∧ (s.info.map (·.1)).Nodup

theorem foldl_add_nodup : ∀ (xs acc : List (List Nat)), acc.Nodup →
    (xs.foldl (fun acc x => if acc.contains x then acc else acc ++ [x]) acc).Nodup
  | [], _, h => h
  | x :: xs, acc, h => by
    simp only [List.foldl_cons]
    apply foldl_add_nodup xs
    split
    · exact h
    · rename_i hc
      rw [List.nodup_append]
      refine ⟨h, by simp, ?_⟩
      intro a ha b hb hab
      simp only [List.mem_singleton] at hb
      subst hb; subst hab
      exact hc (List.contains_iff_mem.mpr ha)

theorem foldl_add_fresh : ∀ (xs acc : List (List Nat)), (acc ++ xs).Nodup →
    xs.foldl (fun acc x => if acc.contains x then acc else acc ++ [x]) acc = acc ++ xs
  | [], acc, _ => by simp
  | x :: xs, acc, h => by
    simp only [List.foldl_cons]
    have hx : ¬ acc.contains x = true := by
      intro hc
      rw [List.nodup_append] at h
      exact h.2.2 x (List.contains_iff_mem.mp hc) x List.mem_cons_self rfl
    rw [if_neg hx, foldl_add_fresh xs (acc ++ [x]) (by simpa using h)]
    simp

theorem setInfo_keys (k : Nat) (v : List Nat) : ∀ (l : List (Nat × List Nat)),
    (setInfo k v l).map (·.1) = if k ∈ l.map (·.1) then l.map (·.1) else l.map (·.1) ++ [k]
  | [] => by simp [setInfo]
  | (k', v') :: t => by
    simp only [setInfo]
    by_cases h : k' = k
    · subst h; simp
    · rw [if_neg h]
      simp only [List.map_cons, setInfo_keys k v t, List.mem_cons]
      have : ¬ k = k' := fun e => h e.symm
      by_cases hm : k ∈ t.map (·.1)
      · simp [hm]
      · simp [hm, this]

theorem setInfo_nodup (k : Nat) (v : List Nat) (l : List (Nat × List Nat)) (h : (l.map (·.1)).Nodup) :
    ((setInfo k v l).map (·.1)).Nodup := by
  rw [setInfo_keys]
  split
  · exact h
  · rename_i hk
    rw [List.nodup_append]
    refine ⟨h, by simp, ?_⟩
    intro a ha b hb hab
    simp only [List.mem_singleton] at hb
    subst hb; subst hab
    exact hk ha

theorem setInfo_fresh (k : Nat) (v : List Nat) : ∀ (l : List (Nat × List Nat)), k ∉ l.map (·.1) →
    setInfo k v l = l ++ [(k, v)]
  | [], _ => rfl
  | (k', v') :: t, h => by
    simp only [List.map_cons, List.mem_cons, not_or] at h
    simp only [setInfo]
    rw [if_neg (fun e => h.1 e.symm), setInfo_fresh k v t h.2]
    rfl

theorem foldl_info_nodup : ∀ (kvs acc : List (Nat × List Nat)), (acc.map (·.1)).Nodup →
    ((kvs.foldl (fun acc kv => setInfo kv.1 kv.2 acc) acc).map (·.1)).Nodup
  | [], _, h => h
  | kv :: kvs, acc, h => by
    simp only [List.foldl_cons]
    exact foldl_info_nodup kvs _ (setInfo_nodup _ _ _ h)

theorem foldl_info_fresh : ∀ (kvs acc : List (Nat × List Nat)), ((acc ++ kvs).map (·.1)).Nodup →
    kvs.foldl (fun acc kv => setInfo kv.1 kv.2 acc) acc = acc ++ kvs
  | [], acc, _ => by simp
  | kv :: kvs, acc, h => by
    simp only [List.foldl_cons]
    have hk : kv.1 ∉ acc.map (·.1) := by
      intro hc
      rw [List.map_append, List.nodup_append] at h
      exact h.2.2 kv.1 hc kv.1 (by simp) rfl
    rw [setInfo_fresh _ _ _ hk, foldl_info_fresh kvs (acc ++ [(kv.1, kv.2)]) (by simpa using h)]
    simp

theorem applyEdit_wf (s : State) (e : Edit) (h : Wf s) : Wf (applyEdit s e) := by
  unfold applyEdit Wf
  exact ⟨foldl_add_nodup _ _ (h.1.filter _), foldl_info_nodup _ _ h.2⟩

def maniAlgebra : Algebra State Edit :=
  ⟨⟨[], []⟩, applyEdit, fun st => ⟨[], st.strs, st.info⟩⟩

theorem replay_wf : ∀ (es : List Edit) (s : State), Wf s → Wf (es.foldl applyEdit s)
  | [], _, h => h
  | e :: es, s, h => replay_wf es _ (applyEdit_wf s e h)

theorem rollup_apply_wf (st : State) (h : Wf st) :
    applyEdit ⟨[], []⟩ ⟨[], st.strs, st.info⟩ = st := by
  unfold applyEdit
  simp only [List.filter_nil]
  rw [foldl_add_fresh _ _ (by simpa using h.1), foldl_info_fresh _ _ (by simpa using h.2)]
  simp

/-- `Manifest::to_edit` / `apply_edit` satisfy the law the crash theorem needs -/
theorem maniAlgebra_lawful : Lawful maniAlgebra := by
  intro es
  exact rollup_apply_wf _ (replay_wf es ⟨[], []⟩ ⟨List.nodup_nil, List.nodup_nil⟩)

/-- **C13**, crash part, for the manifest's own states and edits -/
theorem mani_crash_recover (h : List (Client Edit)) (fs : Fs Edit) (sofar : List Edit)
    (hinv : Inv maniAlgebra fs sofar) (n : Nat) :
    Ok maniAlgebra (recoverB maniAlgebra (run fs ((opsOf maniAlgebra h sofar).take n))) (sofar ++ editsOf h)
      (sofar.length + acked ((opsOf maniAlgebra h sofar).take n))
      (sofar.length + appended ((opsOf maniAlgebra h sofar).take n))
    ∧ Ok maniAlgebra (recoverA maniAlgebra (run fs ((opsOf maniAlgebra h sofar).take n))) (sofar ++ editsOf h)
      (sofar.length + acked ((opsOf maniAlgebra h sofar).take n))
      (sofar.length + appended ((opsOf maniAlgebra h sofar).take n)) :=
  crash_recover maniAlgebra maniAlgebra_lawful h fs sofar hinv n

/-- `Manifest::verify`'s chaining check: every fragment after the first starts with the roll-up of
    the state the previous fragment replays to -/
def chainOk : List (List Edit) → Bool
  | a :: b :: rest => decide (b.head? = some (maniAlgebra.rollup (replay maniAlgebra a))) && chainOk (b :: rest)
  | _ => true

def fragments (fs : Fs Edit) : List (List Edit) := fs.backups ++ [fs.mani.durable ++ fs.mani.pending]

def e1 : Edit := ⟨[], [[97]], []⟩
def e2 : Edit := ⟨[], [[98]], []⟩
def start : Fs Edit := ⟨⟨[e1], []⟩, none, []⟩

/-- without a crash the fragments chain -/
example : chainOk (fragments (run start (opsOf maniAlgebra [.edit e2, .rollover] [e1]))) = true := by decide

/-- **D-25 at model level**: the process dies in `rollover` after the hard link and before the
    rename; the next `open` rolls over again, linking the *unchanged* MANIFEST to a second backup —
    a fragment that does not start with the complete state at its creation.  The state is intact,
    the chain check fails. -/
theorem crash_in_rollover_breaks_chain :
    let crashed := run start ((opsOf maniAlgebra [.edit e2, .rollover] [e1]).take 4)
    let reopened := run crashed (block maniAlgebra [e1, e2] .rollover)
    recoverB maniAlgebra reopened = replay maniAlgebra [e1, e2]
    ∧ chainOk (fragments reopened) = false := by decide

end Blue.Mani

#print axioms Blue.Mani.mani_crash_recover
