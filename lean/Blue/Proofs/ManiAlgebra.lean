import Blue.Proofs.ManiCrash
import Blue.Model.ManiDir
/-! The manifest's states and edits (`Blue.Mani`) form a lawful algebra for `ManiCrash`: rolling a
    reachable state up into one edit and applying it to the empty state gives the state back. -/
namespace Blue.Mani
open Blue.ManiCrash

/-! `ltBytes` is a strict total order -/
theorem ltBytes_irrefl : ∀ a, ltBytes a a = false
  | [] => rfl
  | a :: s => by simp [ltBytes, ltBytes_irrefl s]

theorem ltBytes_asymm : ∀ a b, ltBytes a b = true → ltBytes b a = false
  | [], [], h => by simp [ltBytes] at h
  | [], _ :: _, _ => rfl
  | _ :: _, [], h => by simp [ltBytes] at h
  | a :: s, b :: t, h => by
    simp only [ltBytes] at h ⊢
    by_cases h1 : a < b
    · have h2 : ¬ b < a := by omega
      simp [h1, h2]
    · by_cases h2 : b < a
      · simp [h1, h2] at h
      · simp only [h1, h2, if_false] at h ⊢
        exact ltBytes_asymm s t h

theorem ltBytes_trans : ∀ a b c, ltBytes a b = true → ltBytes b c = true → ltBytes a c = true
  | [], [], _, h, _ => by simp [ltBytes] at h
  | [], _ :: _, [], _, h => by simp [ltBytes] at h
  | [], _ :: _, _ :: _, _, _ => rfl
  | _ :: _, [], _, h, _ => by simp [ltBytes] at h
  | _ :: _, _ :: _, [], _, h => by simp [ltBytes] at h
  | a :: s, b :: t, c :: u, h1, h2 => by
    simp only [ltBytes] at h1 h2 ⊢
    by_cases ab : a < b
    · by_cases bc : b < c
      · have ac : a < c := by omega
        simp [ac]
      · by_cases cb : c < b
        · simp [bc, cb] at h2
        · have ac : a < c := by omega
          simp [ac]
    · by_cases ba : b < a
      · simp [ab, ba] at h1
      · simp only [ab, ba, if_false] at h1
        have hab : a = b := by omega
        subst hab
        by_cases bc : a < c
        · simp [bc]
        · by_cases cb : c < a
          · simp [bc, cb] at h2
          · simp only [bc, cb, if_false] at h2 ⊢
            exact ltBytes_trans s t u h1 h2

theorem ltBytes_tri : ∀ a b, ltBytes a b = true ∨ a = b ∨ ltBytes b a = true
  | [], [] => Or.inr (Or.inl rfl)
  | [], _ :: _ => Or.inl rfl
  | _ :: _, [] => Or.inr (Or.inr rfl)
  | a :: s, b :: t => by
    simp only [ltBytes]
    by_cases ab : a < b
    · left; simp [ab]
    · by_cases ba : b < a
      · right; right; simp [ba]
      · have hab : a = b := by omega
        subst hab
        simp only [ab, if_false]
        rcases ltBytes_tri s t with h | h | h
        · left; exact h
        · right; left; rw [h]
        · right; right; exact h

/-- the list stands for a `BTreeSet<String>`: strictly increasing -/
def SortedS (l : List (List Nat)) : Prop := l.Pairwise (fun a b => ltBytes a b = true)
/-- the list stands for a `BTreeMap<char, String>`: keys strictly increasing -/
def SortedI (l : List (Nat × List Nat)) : Prop := l.Pairwise (fun a b => a.1 < b.1)

def Wf (s : State) : Prop := SortedS s.strs ∧ SortedI s.info

theorem mem_insertStr {x z : List Nat} : ∀ {l : List (List Nat)}, z ∈ insertStr x l → z = x ∨ z ∈ l
  | [], h => by simp [insertStr] at h; exact Or.inl h
  | y :: t, h => by
    simp only [insertStr] at h
    split at h
    · exact Or.inr h
    · split at h
      · rcases List.mem_cons.mp h with h | h
        · exact Or.inl h
        · exact Or.inr h
      · rcases List.mem_cons.mp h with h | h
        · exact Or.inr (h ▸ List.mem_cons_self ..)
        · rcases mem_insertStr h with h | h
          · exact Or.inl h
          · exact Or.inr (List.mem_cons_of_mem _ h)

theorem insertStr_sorted (x : List Nat) : ∀ l, SortedS l → SortedS (insertStr x l)
  | [], _ => by simp [insertStr, SortedS]
  | y :: t, h => by
    have hy : ∀ z ∈ t, ltBytes y z = true := (List.pairwise_cons.mp h).1
    have ht : SortedS t := (List.pairwise_cons.mp h).2
    simp only [insertStr]
    split
    · exact h
    · rename_i hne
      split
      · rename_i hlt
        refine List.pairwise_cons.mpr ⟨fun z hz => ?_, h⟩
        rcases List.mem_cons.mp hz with rfl | hz
        · exact hlt
        · exact ltBytes_trans _ _ _ hlt (hy z hz)
      · rename_i hnlt
        have hyx : ltBytes y x = true := by
          rcases ltBytes_tri x y with h1 | h1 | h1
          · exact absurd h1 hnlt
          · exact absurd h1 hne
          · exact h1
        refine List.pairwise_cons.mpr ⟨fun z hz => ?_, insertStr_sorted x t ht⟩
        rcases mem_insertStr hz with rfl | hz
        · exact hyx
        · exact hy z hz

theorem insertStr_last (x : List Nat) : ∀ acc : List (List Nat), (∀ y ∈ acc, ltBytes y x = true) →
    insertStr x acc = acc ++ [x]
  | [], _ => rfl
  | y :: t, h => by
    have hyx := h y (List.mem_cons_self ..)
    have hne : x ≠ y := by
      intro e; subst e; rw [ltBytes_irrefl] at hyx; cases hyx
    have hn : ¬ ltBytes x y = true := by rw [ltBytes_asymm _ _ hyx]; simp
    simp only [insertStr, if_neg hne, if_neg hn, List.cons_append]
    rw [insertStr_last x t (fun z hz => h z (List.mem_cons_of_mem _ hz))]

theorem foldl_insert_sorted : ∀ (xs acc : List (List Nat)), SortedS acc →
    SortedS (xs.foldl (fun acc x => insertStr x acc) acc)
  | [], _, h => h
  | x :: xs, acc, h => by
    simp only [List.foldl_cons]
    exact foldl_insert_sorted xs _ (insertStr_sorted x acc h)

theorem foldl_insert_fresh : ∀ (xs acc : List (List Nat)), SortedS (acc ++ xs) →
    xs.foldl (fun acc x => insertStr x acc) acc = acc ++ xs
  | [], acc, _ => by simp
  | x :: xs, acc, h => by
    simp only [List.foldl_cons]
    have hx : ∀ y ∈ acc, ltBytes y x = true := by
      intro y hy
      exact (List.pairwise_append.mp h).2.2 y hy x (List.mem_cons_self ..)
    rw [insertStr_last x acc hx, foldl_insert_fresh xs (acc ++ [x]) (by simpa [SortedS] using h)]
    simp

theorem mem_setInfo {k : Nat} {v : List Nat} {z : Nat × List Nat} :
    ∀ {l : List (Nat × List Nat)}, z ∈ setInfo k v l → z = (k, v) ∨ z ∈ l
  | [], h => by simp [setInfo] at h; exact Or.inl h
  | (k', v') :: t, h => by
    simp only [setInfo] at h
    split at h
    · rcases List.mem_cons.mp h with h | h
      · exact Or.inl h
      · exact Or.inr (List.mem_cons_of_mem _ h)
    · split at h
      · rcases List.mem_cons.mp h with h | h
        · exact Or.inl h
        · exact Or.inr h
      · rcases List.mem_cons.mp h with h | h
        · exact Or.inr (h ▸ List.mem_cons_self ..)
        · rcases mem_setInfo h with h | h
          · exact Or.inl h
          · exact Or.inr (List.mem_cons_of_mem _ h)

theorem setInfo_sorted (k : Nat) (v : List Nat) : ∀ l, SortedI l → SortedI (setInfo k v l)
  | [], _ => by simp [setInfo, SortedI]
  | (k', v') :: t, h => by
    have hy : ∀ z ∈ t, k' < z.1 := (List.pairwise_cons.mp h).1
    have ht : SortedI t := (List.pairwise_cons.mp h).2
    simp only [setInfo]
    split
    · rename_i he
      subst he
      exact List.pairwise_cons.mpr ⟨hy, ht⟩
    · rename_i hne
      split
      · rename_i hlt
        refine List.pairwise_cons.mpr ⟨fun z hz => ?_, h⟩
        rcases List.mem_cons.mp hz with rfl | hz
        · exact hlt
        · exact Nat.lt_trans hlt (hy z hz)
      · rename_i hnlt
        refine List.pairwise_cons.mpr ⟨fun z hz => ?_, setInfo_sorted k v t ht⟩
        rcases mem_setInfo hz with rfl | hz
        · show k' < k
          omega
        · exact hy z hz

theorem setInfo_last (k : Nat) (v : List Nat) : ∀ acc : List (Nat × List Nat), (∀ y ∈ acc, y.1 < k) →
    setInfo k v acc = acc ++ [(k, v)]
  | [], _ => rfl
  | (k', v') :: t, h => by
    have hyx : k' < k := h (k', v') (List.mem_cons_self ..)
    have hne : ¬ k = k' := by omega
    have hn : ¬ k < k' := by omega
    simp only [setInfo, if_neg hne, if_neg hn, List.cons_append]
    rw [setInfo_last k v t (fun z hz => h z (List.mem_cons_of_mem _ hz))]

theorem foldl_info_sorted : ∀ (kvs acc : List (Nat × List Nat)), SortedI acc →
    SortedI (kvs.foldl (fun acc kv => setInfo kv.1 kv.2 acc) acc)
  | [], _, h => h
  | kv :: kvs, acc, h => by
    simp only [List.foldl_cons]
    exact foldl_info_sorted kvs _ (setInfo_sorted _ _ _ h)

theorem foldl_info_fresh : ∀ (kvs acc : List (Nat × List Nat)), SortedI (acc ++ kvs) →
    kvs.foldl (fun acc kv => setInfo kv.1 kv.2 acc) acc = acc ++ kvs
  | [], acc, _ => by simp
  | kv :: kvs, acc, h => by
    simp only [List.foldl_cons]
    have hk : ∀ y ∈ acc, y.1 < kv.1 := by
      intro y hy
      exact (List.pairwise_append.mp h).2.2 y hy kv (List.mem_cons_self ..)
    rw [setInfo_last _ _ _ hk, foldl_info_fresh kvs (acc ++ [(kv.1, kv.2)]) (by simpa [SortedI] using h)]
    simp

theorem applyEdit_wf (s : State) (e : Edit) (h : Wf s) : Wf (applyEdit s e) := by
  unfold applyEdit Wf
  exact ⟨foldl_insert_sorted _ _ (List.Pairwise.filter _ h.1), foldl_info_sorted _ _ h.2⟩

theorem replay_wf : ∀ (es : List Edit) (s : State), Wf s → Wf (es.foldl applyEdit s)
  | [], _, h => h
  | e :: es, s, h => replay_wf es _ (applyEdit_wf s e h)

theorem rollup_apply_wf (st : State) (h : Wf st) :
    applyEdit ⟨[], []⟩ ⟨[], st.strs, st.info⟩ = st := by
  unfold applyEdit
  simp only [List.filter_nil]
  rw [foldl_insert_fresh _ _ (by simpa using h.1), foldl_info_fresh _ _ (by simpa using h.2)]
  simp

/-- `Manifest::to_edit` / `apply_edit` satisfy the law the crash theorem needs -/
theorem maniAlgebra_lawful : Lawful maniAlgebra := by
  intro es
  exact rollup_apply_wf _ (replay_wf es ⟨[], []⟩ ⟨List.Pairwise.nil, List.Pairwise.nil⟩)

/-- **C13**, crash part, for the manifest's own states and edits -/
theorem mani_crash_recover (h : List (Client Edit)) (fs : Fs Edit) (sofar : List Edit)
    (hinv : Inv maniAlgebra fs sofar) (n : Nat) :
    Ok maniAlgebra (recoverB maniAlgebra (run fs ((opsOf maniAlgebra h sofar).take n))) (sofar ++ editsOf h)
      (sofar.length + acked ((opsOf maniAlgebra h sofar).take n))
      (sofar.length + appended ((opsOf maniAlgebra h sofar).take n))
    ∧ Ok maniAlgebra (recoverA maniAlgebra (run fs ((opsOf maniAlgebra h sofar).take n))) (sofar ++ editsOf h)
      (sofar.length + acked ((opsOf maniAlgebra h sofar).take n))
      (sofar.length + appended ((opsOf maniAlgebra h sofar).take n)) :=
  crash_recover maniAlgebra maniAlgebra_lawful h fs sofar hinv n

def e1 : Edit := ⟨[], [[97]], []⟩
def e2 : Edit := ⟨[], [[98]], []⟩
def start : Fs Edit := { mani := ⟨[e1], []⟩, tmp := none, backups := [] }

/-- without a crash the fragments chain -/
example : chainOk (fragments (run start (opsOf maniAlgebra [.edit e2, .rollover] [e1]))) = true := by decide

/-- **D-13 at model level**, `Manifest::open` as it was: the process dies in `rollover` after the
    hard link and before the rename; the next `open` rolls over again, linking the *unchanged*
    MANIFEST to a second backup — a fragment that does not start with the complete state at its
    creation.  The state is intact, the chain check fails. -/
theorem crash_in_rollover_breaks_chain :
    let crashed := crashB (run start ((opsOf maniAlgebra [.edit e2, .rollover] [e1]).take 4))
    let reopened := run crashed (reopenOpsAsIs maniAlgebra crashed)
    recoverB maniAlgebra reopened = replay maniAlgebra [e1, e2]
    ∧ chainOk (fragments reopened) = false := by decide

/-- … and as repaired: the interrupted rollover is finished (no second link), the fragments chain -/
theorem crash_in_rollover_resumed :
    let crashed := crashB (run start ((opsOf maniAlgebra [.edit e2, .rollover] [e1]).take 4))
    let reopened := run crashed (reopenOps maniAlgebra crashed)
    recoverB maniAlgebra reopened = replay maniAlgebra [e1, e2]
    ∧ chainOk (fragments reopened) = true ∧ reopened.backups.length = 1 := by decide

end Blue.Mani

#print axioms Blue.Mani.mani_crash_recover
