import Blue.Model.KvsConcTree
import Blue.Proofs.KvsConcFirstHit
import Blue.Proofs.KvsConcReads
/-! Proofs about `Blue.KvsConcTree`: the concurrent store with tree installs that change what the
    tables hold (conserving compaction, garbage-collecting compaction). -/
namespace Blue.KvsConcTree
open Blue.KvsWrite (Entry)
open Blue.KvsConc (St Ev Snap step run view newest Inv Hand Ord)

/-! ## `look`: newest version of a key in a list of versions -/

/-- (key, sequence number) identifies a version -/
def Uniq (V : List Entry) : Prop := ∀ a ∈ V, ∀ b ∈ V, a.key = b.key → a.seq = b.seq → a = b

theorem look_none_iff {V : List Entry} {k : Nat} : look V k = none ↔ ∀ x ∈ V, x.key ≠ k := by
  unfold look
  constructor
  · intro h x hx hk
    have hm : x ∈ V.filter (fun e => decide (e.key = k)) := List.mem_filter.mpr ⟨hx, by simpa using hk⟩
    obtain ⟨r, hr, _⟩ := (Blue.KvsConc.newestFold_spec _ none).1 x hm
    unfold newest at h
    have e := h.symm.trans hr; cases e
  · intro h
    have : V.filter (fun e => decide (e.key = k)) = [] := by
      rw [List.filter_eq_nil_iff]
      intro a ha; simpa using h a ha
    rw [this]; rfl

theorem look_some_iff {V : List Entry} (hu : Uniq V) {k : Nat} {n : Entry} :
    look V k = some n ↔ n ∈ V ∧ n.key = k ∧ ∀ x ∈ V, x.key = k → x.seq ≤ n.seq := by
  unfold look
  constructor
  · intro h
    unfold newest at h
    rcases (Blue.KvsConc.newestFold_spec _ none).2.2 n h with h1 | h1
    · rw [List.mem_filter] at h1
      refine ⟨h1.1, by simpa using h1.2, ?_⟩
      intro x hx hk
      have hm : x ∈ V.filter (fun e => decide (e.key = k)) := List.mem_filter.mpr ⟨hx, by simpa using hk⟩
      obtain ⟨r, hr, hle⟩ := (Blue.KvsConc.newestFold_spec _ none).1 x hm
      have e := h.symm.trans hr; cases e; exact hle
    · cases h1
  · rintro ⟨hn, hk, hall⟩
    have hm : n ∈ V.filter (fun e => decide (e.key = k)) := List.mem_filter.mpr ⟨hn, by simpa using hk⟩
    obtain ⟨r, hr, hle⟩ := (Blue.KvsConc.newestFold_spec _ none).1 n hm
    unfold newest
    rcases (Blue.KvsConc.newestFold_spec _ none).2.2 r hr with h1 | h1
    · rw [List.mem_filter] at h1
      have hrk : r.key = k := by simpa using h1.2
      have := hall r h1.1 hrk
      have : r = n := hu r h1.1 n hn (by rw [hrk, hk]) (by omega)
      subst this
      exact hr
    · cases h1

/-- the answer depends on the SET of visible versions only -/
theorem look_congr {V V' : List Entry} (hu : Uniq V) (hu' : Uniq V') (h : ∀ e, e ∈ V ↔ e ∈ V') (k : Nat) :
    look V k = look V' k := by
  cases hl : look V k with
  | none =>
    rw [look_none_iff] at hl
    exact (look_none_iff.mpr (fun x hx => hl x ((h x).mpr hx))).symm
  | some n =>
    rw [look_some_iff hu] at hl
    exact ((look_some_iff hu').mpr ⟨(h n).mp hl.1, hl.2.1, fun x hx hk => hl.2.2 x ((h x).mpr hx) hk⟩).symm

/-! ## files are written once -/

theorem fileOf_append_of_fresh (files new : List (Nat × List Entry)) (id : Nat)
    (h : ∀ p ∈ new, p.1 ≠ id) : fileOf (files ++ new) id = fileOf files id := by
  unfold fileOf
  rw [List.find?_append]
  have : new.find? (fun p => decide (p.1 = id)) = none := by
    rw [List.find?_eq_none]; intro p hp; simpa using h p hp
  rw [this]; simp

theorem entsOf_append_of_fresh (files new : List (Nat × List Entry)) (ids : List Nat)
    (h : ∀ p ∈ new, ∀ id ∈ ids, p.1 ≠ id) : entsOf (files ++ new) ids = entsOf files ids := by
  unfold entsOf
  congr 1
  apply List.map_congr_left
  intro id hid
  exact fileOf_append_of_fresh files new id (fun p hp => h p hp id hid)

theorem mkFiles_ids : ∀ (outs : List (List Entry)) (n : Nat), ∀ p ∈ mkFiles n outs, n ≤ p.1 ∧ p.1 < n + outs.length
  | [], _, p, hp => by cases hp
  | o :: os, n, p, hp => by
    simp only [mkFiles, List.mem_cons] at hp
    rcases hp with rfl | hp
    · simp
    · have := mkFiles_ids os (n + 1) p hp
      simp only [List.length_cons]; omega

/-- the base event a tree event is for `Blue.KvsConc` -/
def proj : TEv → Ev
  | .base e => e
  | .tCompact vid _ _ => .tInstall vid
  | .tGc vid _ _ => .tInstall vid

theorem tstep_base {t t' : TSt} {ev : TEv} (h : tstep t ev = some t') : step t.base (proj ev) = some t'.base := by
  cases ev with
  | base e =>
    simp only [tstep] at h
    split at h
    · cases h
    · rename_i b hb
      simp only [proj]
      cases e <;> simp only at h
      all_goals (repeat' split at h)
      all_goals first | (cases h; exact hb) | cases h
  | tCompact vid ins outs =>
    simp only [tstep] at h
    split at h
    · cases h
    · rename_i b hb
      split at h
      · cases h; exact hb
      · cases h
  | tGc vid ins outs =>
    simp only [tstep] at h
    split at h
    · cases h
    · rename_i b hb
      split at h
      · cases h; exact hb
      · cases h

/-! ## what the base steps keep -/

theorem ents_step {s s' : St} (te : Nat × Entry) (h : te ∈ s.ents) (ev : Ev) (hs : step s ev = some s') :
    te ∈ s'.ents := by
  cases ev <;> simp only [step] at hs
  all_goals (repeat' split at hs) <;> first | (cases hs; first | exact h | exact List.mem_cons_of_mem _ h) | cases hs

theorem flushed_step {s s' : St} (x : Nat) (h : x ∈ s.flushed) (ev : Ev) (hs : step s ev = some s') :
    x ∈ s'.flushed := by
  cases ev <;> simp only [step] at hs
  all_goals (repeat' split at hs) <;> first | (cases hs; first | exact h | exact List.mem_cons_of_mem _ h) | cases hs

theorem batch_step {s s' : St} (ev : Ev) (hs : step s ev = some s') (P : List (Nat × Option Nat) → Prop)
    (hP : ∀ w ∈ s.writers, P w.batch) (hnew : ∀ q tb b, ev = .wBegin q tb b → P b) :
    ∀ w ∈ s'.writers, P w.batch := by
  cases ev with
  | wBegin q tb b =>
    simp only [step] at hs; split at hs
    · cases hs
      intro w hw
      rcases List.mem_append.mp hw with hw | hw
      · exact hP w hw
      · simp only [List.mem_singleton] at hw; subst hw; exact hnew q tb b rfl
    · cases hs
  | wIns seq idx =>
    simp only [step] at hs
    repeat' split at hs
    all_goals first | cases hs | skip
    intro w hw
    obtain ⟨w0, hw0, rfl⟩ := Blue.KvsConc.mem_updWriter hw
    split
    · exact hP w0 hw0
    · exact hP w0 hw0
  | wFin seq =>
    simp only [step] at hs
    repeat' split at hs
    all_goals first | cases hs | skip
    intro w hw
    obtain ⟨w0, hw0, rfl⟩ := Blue.KvsConc.mem_updWriter hw
    split
    · exact hP w0 hw0
    · exact hP w0 hw0
  | wFail seq =>
    simp only [step] at hs
    repeat' split at hs
    all_goals first | cases hs | skip
    intro w hw
    exact hP w (List.mem_filter.mp hw).1
  | wLog _ | fRotate _ _ | fHead _ | fInstall _ _ | fClear _ | tInstall _ | rTree _ _ | rSnap _ _ _ _ =>
    simp only [step] at hs
    repeat' split at hs
    all_goals first | (cases hs; exact hP) | cases hs

/-! ## the invariant of the tree part -/

structure TInv (t : TSt) : Prop where
  fid : ∀ p ∈ t.files, p.1 < t.nextFile
  cur_lt : ∀ f ∈ t.cur, f < t.nextFile
  held_lt : ∀ p ∈ t.held, ∀ f ∈ p.2, f < t.nextFile
  snap_lt : ∀ p ∈ t.snaps, ∀ f ∈ p.2.files, f < t.nextFile
  /-- every tree snapshot stands next to a snapshot of the base model with the same timestamp -/
  snap_rd : ∀ p ∈ t.snaps, ∃ r ∈ t.base.readers, r.2.ts = p.2.ts
  batch_nodup : ∀ w ∈ t.base.writers, (w.batch.map (·.1)).Nodup
  /-- nothing in a file was invented: every version of every file was flushed from a table -/
  file_sub : ∀ p ∈ t.files, ∀ e ∈ p.2, ∃ tb ∈ t.base.flushed, (tb, e) ∈ t.base.ents

theorem tinv_init (c : Bool) (seq mem : Nat) : TInv (tinit c seq mem) := by
  refine ⟨?_, ?_, ?_, ?_, ?_, ?_, ?_⟩ <;> simp [tinit, Blue.KvsConc.init]

theorem mem_fileOf {files : List (Nat × List Entry)} {id : Nat} {e : Entry} (h : e ∈ fileOf files id) :
    ∃ p ∈ files, p.1 = id ∧ e ∈ p.2 := by
  unfold fileOf at h
  cases hf : files.find? (fun p => decide (p.1 = id)) with
  | none => rw [hf] at h; cases h
  | some p =>
    rw [hf] at h
    exact ⟨p, List.mem_of_find?_eq_some hf, by simpa using List.find?_some hf, h⟩

theorem mem_entsOf {files : List (Nat × List Entry)} {ids : List Nat} {e : Entry} :
    e ∈ entsOf files ids ↔ ∃ id ∈ ids, e ∈ fileOf files id := by
  unfold entsOf
  simp only [List.mem_flatten, List.mem_map]
  constructor
  · rintro ⟨l, ⟨id, hid, rfl⟩, he⟩; exact ⟨id, hid, he⟩
  · rintro ⟨id, hid, he⟩; exact ⟨_, ⟨id, hid, rfl⟩, he⟩


/-- which step it was, with the state it builds -/
inductive Shape (t : TSt) : TEv → TSt → Prop
  | plain (e : Ev) (b : St) (hb : step t.base e = some b)
      (hnd : ∀ q tb bt, e = .wBegin q tb bt → (bt.map (·.1)).Nodup)
      (hne : (∀ o v, e ≠ .fInstall o v) ∧ (∀ r v, e ≠ .rTree r v) ∧ ∀ r ts m i, e ≠ .rSnap r ts m i) :
      Shape t (.base e) { t with base := b }
  | flush (o v : Nat) (b : St) (hb : step t.base (.fInstall o v) = some b) :
      Shape t (.base (.fInstall o v))
        { t with base := b, files := t.files ++ [(t.nextFile, tableEnts t.base o)],
                 nextFile := t.nextFile + 1, cur := t.nextFile :: t.cur }
  | tree (rid v : Nat) (b : St) (hb : step t.base (.rTree rid v) = some b) :
      Shape t (.base (.rTree rid v))
        { t with base := b, held := (rid, t.cur) :: t.held.filter (fun p => p.1 ≠ rid) }
  | snap (rid ts m : Nat) (i : Bool) (b : St) (p : Nat × List Nat)
      (hb : step t.base (.rSnap rid ts m i) = some b) (hf : t.held.find? (fun p => p.1 = rid) = some p) :
      Shape t (.base (.rSnap rid ts m i))
        { t with base := b, snaps := (rid, ⟨ts, t.base.memId :: t.base.imm.toList, p.2⟩) :: t.snaps,
                 held := t.held.filter (fun p => p.1 ≠ rid) }
  | compact (vid : Nat) (ins : List Nat) (outs : List (List Entry)) (b : St)
      (hb : step t.base (.tInstall vid) = some b)
      (hc : ins.all (fun f => t.cur.contains f) ∧ ins ≠ [] ∧ conserving (entsOf t.files ins) outs.flatten = true) :
      Shape t (.tCompact vid ins outs) (install t b ins outs)
  | gc (vid : Nat) (ins : List Nat) (outs : List (List Entry)) (b : St)
      (hb : step t.base (.tInstall vid) = some b)
      (hc : ins.all (fun f => t.cur.contains f) ∧ ins ≠ [] ∧ gcOk (entsOf t.files ins) outs.flatten = true ∧
        nothingBelow (entsOf t.files (t.cur.filter (fun f => !(ins.contains f)))) (entsOf t.files ins) = true) :
      Shape t (.tGc vid ins outs) (install t b ins outs)

theorem tstep_shape {t t' : TSt} {ev : TEv} (h : tstep t ev = some t') : Shape t ev t' := by
  cases ev
  case base e =>
    simp only [tstep] at h
    split at h
    · cases h
    · rename_i b hb
      cases e <;> simp only at h
      all_goals (repeat' split at h)
      all_goals first | cases h | skip
      all_goals first
        | exact Shape.flush _ _ _ hb
        | exact Shape.tree _ _ _ hb
        | (rename_i hf; exact Shape.snap _ _ _ _ _ _ hb hf)
        | (rename_i hn; exact Shape.plain _ _ hb (by intro q tb bt he; cases he; exact hn)
            ⟨(by intro _ _ he; cases he), (by intro _ _ he; cases he), (by intro _ _ _ _ he; cases he)⟩)
        | exact Shape.plain _ _ hb (by intro q tb bt he; cases he)
            ⟨(by intro _ _ he; cases he), (by intro _ _ he; cases he), (by intro _ _ _ _ he; cases he)⟩
  case tCompact vid ins outs =>
    simp only [tstep] at h
    split at h
    · cases h
    · rename_i b hb
      split at h
      · rename_i hc; cases h; exact Shape.compact _ _ _ _ hb hc
      · cases h
  case tGc vid ins outs =>
    simp only [tstep] at h
    split at h
    · cases h
    · rename_i b hb
      split at h
      · rename_i hc; cases h; exact Shape.gc _ _ _ _ hb hc
      · cases h

theorem snaps_step {t t' : TSt} {ev : TEv} (h : tstep t ev = some t') (p : Nat × TSnap) (hp : p ∈ t.snaps) :
    p ∈ t'.snaps := by
  cases tstep_shape h <;> first | exact hp | exact List.mem_cons_of_mem _ hp

theorem conserving_iff {insE outsE : List Entry} (h : conserving insE outsE = true) :
    ∀ e, e ∈ outsE ↔ e ∈ insE := by
  unfold conserving at h
  simp only [Bool.and_eq_true, List.all_eq_true, List.contains_iff_mem] at h
  exact fun e => ⟨h.1 e, h.2 e⟩

theorem gcOk_sub {insE outsE : List Entry} (h : gcOk insE outsE = true) : ∀ e ∈ outsE, e ∈ insE := by
  unfold gcOk at h
  simp only [Bool.and_eq_true, List.all_eq_true, List.contains_iff_mem] at h
  exact h.1

theorem mkFiles_mem : ∀ (outs : List (List Entry)) (n : Nat), ∀ p ∈ mkFiles n outs, p.2 ∈ outs
  | [], _, p, hp => by cases hp
  | o :: os, n, p, hp => by
    simp only [mkFiles, List.mem_cons] at hp
    rcases hp with rfl | hp
    · exact List.mem_cons_self ..
    · exact List.mem_cons_of_mem _ (mkFiles_mem os (n + 1) p hp)

/-- the install part of `tinv_step`, for outputs that hold only versions of the inputs -/
theorem tinv_install {t : TSt} (hi : TInv t) (b : St) (ins : List Nat) (outs : List (List Entry))
    (hmE : ∀ te ∈ t.base.ents, te ∈ b.ents) (hmF : ∀ x ∈ t.base.flushed, x ∈ b.flushed)
    (hrd : ∀ r ∈ t.base.readers, r ∈ b.readers) (hw : ∀ w ∈ b.writers, (w.batch.map (·.1)).Nodup)
    (hsub : ∀ e ∈ outs.flatten, e ∈ entsOf t.files ins) : TInv (install t b ins outs) := by
  have hids := mkFiles_ids outs t.nextFile
  refine ⟨?_, ?_, ?_, ?_, ?_, hw, ?_⟩
  · intro p hp
    show p.1 < t.nextFile + outs.length
    rcases List.mem_append.mp hp with hp | hp
    · have := hi.fid p hp; omega
    · exact (hids p hp).2
  · intro f hf
    show f < t.nextFile + outs.length
    rcases List.mem_append.mp hf with hf | hf
    · obtain ⟨p, hp, rfl⟩ := List.mem_map.mp hf
      exact (hids p hp).2
    · have := hi.cur_lt f (List.mem_filter.mp hf).1; omega
  · intro p hp f hf
    show f < t.nextFile + outs.length
    have := hi.held_lt p hp f hf; omega
  · intro p hp f hf
    show f < t.nextFile + outs.length
    have := hi.snap_lt p hp f hf; omega
  · intro p hp
    obtain ⟨r, hr, hts⟩ := hi.snap_rd p hp
    exact ⟨r, hrd r hr, hts⟩
  · intro p hp e he
    show ∃ tb ∈ b.flushed, (tb, e) ∈ b.ents
    rcases List.mem_append.mp hp with hp | hp
    · obtain ⟨tb, h1, h2⟩ := hi.file_sub p hp e he
      exact ⟨tb, hmF tb h1, hmE _ h2⟩
    · have : e ∈ outs.flatten := List.mem_flatten.mpr ⟨p.2, mkFiles_mem outs _ p hp, he⟩
      obtain ⟨id, _, hid⟩ := mem_entsOf.mp (hsub e this)
      obtain ⟨q, hq, _, heq⟩ := mem_fileOf hid
      obtain ⟨tb, h1, h2⟩ := hi.file_sub q hq e heq
      exact ⟨tb, hmF tb h1, hmE _ h2⟩

theorem tinv_step {t t' : TSt} {ev : TEv} (hi : TInv t) (h : tstep t ev = some t') : TInv t' := by
  have hb' := tstep_base h
  have hmE : ∀ te ∈ t.base.ents, te ∈ t'.base.ents := fun te hte => ents_step te hte _ hb'
  have hmF : ∀ x ∈ t.base.flushed, x ∈ t'.base.flushed := fun x hx => flushed_step x hx _ hb'
  have hrd : ∀ r ∈ t.base.readers, r ∈ t'.base.readers := fun r hr => Blue.KvsConc.readers_step r hr _ hb'
  have hsubOld : ∀ p ∈ t.files, ∀ e ∈ p.2, ∃ tb ∈ t'.base.flushed, (tb, e) ∈ t'.base.ents := by
    intro p hp e he
    obtain ⟨tb, h1, h2⟩ := hi.file_sub p hp e he
    exact ⟨tb, hmF tb h1, hmE _ h2⟩
  have hsnapOld : ∀ p ∈ t.snaps, ∃ r ∈ t'.base.readers, r.2.ts = p.2.ts := by
    intro p hp
    obtain ⟨r, hr, hts⟩ := hi.snap_rd p hp
    exact ⟨r, hrd r hr, hts⟩
  cases tstep_shape h with
  | plain e b hb hnd hne =>
    refine ⟨hi.fid, hi.cur_lt, hi.held_lt, hi.snap_lt, hsnapOld, ?_, hsubOld⟩
    exact batch_step e hb (fun l => (l.map (·.1)).Nodup) hi.batch_nodup (fun q tb bt he => hnd q tb bt he)
  | flush o v b hb =>
    have hw := batch_step _ hb (fun l => (l.map (·.1)).Nodup) hi.batch_nodup (fun q tb bt he => by cases he)
    refine ⟨?_, ?_, ?_, ?_, hsnapOld, hw, ?_⟩
    · intro p hp
      show p.1 < t.nextFile + 1
      rcases List.mem_append.mp hp with hp | hp
      · have := hi.fid p hp; omega
      · simp only [List.mem_singleton] at hp; subst hp; simp
    · intro f hf
      show f < t.nextFile + 1
      rcases List.mem_cons.mp hf with rfl | hf
      · simp
      · have := hi.cur_lt f hf; omega
    · intro p hp f hf
      show f < t.nextFile + 1
      have := hi.held_lt p hp f hf; omega
    · intro p hp f hf
      show f < t.nextFile + 1
      have := hi.snap_lt p hp f hf; omega
    · intro p hp e he
      rcases List.mem_append.mp hp with hp | hp
      · exact hsubOld p hp e he
      · simp only [List.mem_singleton] at hp; subst hp
        have hmem : (o, e) ∈ t.base.ents := by
          simp only [tableEnts, List.mem_map, List.mem_filter, decide_eq_true_eq] at he
          obtain ⟨te, ⟨h1, h2⟩, rfl⟩ := he
          rw [← h2]; exact h1
        refine ⟨o, ?_, hmE _ hmem⟩
        show o ∈ b.flushed
        simp only [step] at hb
        split at hb
        · cases hb; exact List.mem_cons_self ..
        · cases hb
  | tree rid v b hb =>
    have hw := batch_step _ hb (fun l => (l.map (·.1)).Nodup) hi.batch_nodup (fun q tb bt he => by cases he)
    refine ⟨hi.fid, hi.cur_lt, ?_, hi.snap_lt, hsnapOld, hw, hsubOld⟩
    intro p hp f hf
    rcases List.mem_cons.mp hp with rfl | hp
    · exact hi.cur_lt f hf
    · exact hi.held_lt p (List.mem_filter.mp hp).1 f hf
  | snap rid ts m i b p hb hf =>
    have hw := batch_step _ hb (fun l => (l.map (·.1)).Nodup) hi.batch_nodup (fun q tb bt he => by cases he)
    refine ⟨hi.fid, hi.cur_lt, ?_, ?_, ?_, hw, hsubOld⟩
    · intro q hq f hf'
      exact hi.held_lt q (List.mem_filter.mp hq).1 f hf'
    · intro q hq f hf'
      rcases List.mem_cons.mp hq with rfl | hq
      · exact hi.held_lt p (List.mem_of_find?_eq_some hf) f hf'
      · exact hi.snap_lt q hq f hf'
    · intro q hq
      rcases List.mem_cons.mp hq with rfl | hq
      · show ∃ r ∈ b.readers, r.2.ts = ts
        simp only [step] at hb
        split at hb
        · split at hb
          · cases hb; exact ⟨_, List.mem_cons_self .., rfl⟩
          · cases hb
        · cases hb
      · exact hsnapOld q hq
  | compact vid ins outs b hb hc =>
    have hw := batch_step _ hb (fun l => (l.map (·.1)).Nodup) hi.batch_nodup (fun q tb bt he => by cases he)
    exact tinv_install hi b ins outs hmE hmF hrd hw (fun e he => (conserving_iff hc.2.2 e).mp he)
  | gc vid ins outs b hb hc =>
    have hw := batch_step _ hb (fun l => (l.map (·.1)).Nodup) hi.batch_nodup (fun q tb bt he => by cases he)
    exact tinv_install hi b ins outs hmE hmF hrd hw (gcOk_sub hc.2.2.1)

theorem trun_cons (t : TSt) (e : TEv) (es : List TEv) :
    trun t (e :: es) = match tstep t e with | some t' => trun t' es | none => none := rfl

/-- a run of the tree model is a run of `Blue.KvsConc` (compactions are its `tInstall`) -/
theorem trun_base : ∀ (evs : List TEv) {t t' : TSt}, trun t evs = some t' →
    run t.base (evs.map proj) = some t'.base
  | [], t, t', h => by simp only [trun] at h; cases h; rfl
  | e :: es, t, t', h => by
    rw [trun_cons] at h
    split at h
    · rename_i t1 h1
      simp only [List.map_cons, Blue.KvsConc.run_cons, tstep_base h1]
      exact trun_base es h
    · cases h

theorem tinv_run : ∀ (evs : List TEv) {t t' : TSt}, TInv t → trun t evs = some t' → TInv t'
  | [], t, t', hi, h => by simp only [trun] at h; cases h; exact hi
  | e :: es, t, t', hi, h => by
    rw [trun_cons] at h
    split at h
    · rename_i t1 h1
      exact tinv_run es (tinv_step hi h1) h
    · cases h

/-! ## (a) a snapshot is stable under every later event, content-changing installs included -/

/-- `Blue.KvsConc.view_step` for any snapshot record whose timestamp `visible` has reached -/
theorem view_step_le {s s' : St} (h : Inv s) (sn : Snap) (hts : sn.ts ≤ s.visible)
    (ev : Ev) (hs : step s ev = some s') : view s' sn = view s sn := by
  cases ev with
  | wIns seq idx =>
    simp only [step] at hs
    split at hs
    · rename_i w0 hfind
      obtain ⟨hw0, hseq0⟩ := Blue.KvsConc.findWriter_some hfind
      split at hs
      · split at hs
        · rename_i hcnd
          cases hs
          have hgt : ¬ seq ≤ s.visible := by
            intro hle
            have := (h.fin_vis w0 hw0).mpr (by rw [hseq0]; exact hle)
            rw [hcnd.1] at this; cases this
          unfold view
          show (List.filter _ (_ :: s.ents)).map _ = _
          rw [List.filter_cons_of_neg]
          simp only [decide_eq_true_eq, not_and]
          intro _
          omega
        · cases hs
      · cases hs
    · cases hs
  | wBegin _ _ _ | wLog _ | wFin _ | fRotate _ _ | fHead _ | fInstall _ _ | fClear _ | tInstall _ | rTree _ _
  | rSnap _ _ _ _ | wFail _ =>
    simp only [step] at hs
    repeat' split at hs
    all_goals first | (cases hs; rfl) | cases hs

theorem files_step {t t' : TSt} {ev : TEv} (h : tstep t ev = some t') :
    ∃ new, t'.files = t.files ++ new ∧ ∀ q ∈ new, t.nextFile ≤ q.1 := by
  cases tstep_shape h with
  | plain e b hb hnd hne => exact ⟨[], (List.append_nil _).symm, fun q hq => by cases hq⟩
  | flush o v b hb => exact ⟨_, rfl, fun q hq => by simp only [List.mem_singleton] at hq; subst hq; simp⟩
  | tree rid v b hb => exact ⟨[], (List.append_nil _).symm, fun q hq => by cases hq⟩
  | snap rid ts m i b p hb hf => exact ⟨[], (List.append_nil _).symm, fun q hq => by cases hq⟩
  | compact vid ins outs b hb hc => exact ⟨_, rfl, fun q hq => (mkFiles_ids outs _ q hq).1⟩
  | gc vid ins outs b hb hc => exact ⟨_, rfl, fun q hq => (mkFiles_ids outs _ q hq).1⟩

/-- a file a state knows keeps its version list whatever happens (written once; a file that left
    the current version is kept for the readers that hold it) -/
theorem entsOf_step {t t' : TSt} {ev : TEv} (h : tstep t ev = some t') (ids : List Nat)
    (hlt : ∀ f ∈ ids, f < t.nextFile) : entsOf t'.files ids = entsOf t.files ids := by
  obtain ⟨new, hnew, hfresh⟩ := files_step h
  rw [hnew]
  apply entsOf_append_of_fresh
  intro q hq id hid heq
  have := hfresh q hq; have := hlt id hid; omega

theorem tview_step {t t' : TSt} {ev : TEv} (hb : Inv t.base) (hc : t.base.completed = true) (hi : TInv t)
    (h : tstep t ev = some t') (p : Nat × TSnap) (hp : p ∈ t.snaps) : tview t' p.2 = tview t p.2 := by
  unfold tview
  obtain ⟨r, hr, hts⟩ := hi.snap_rd p hp
  have hle : p.2.ts ≤ t.base.visible := by rw [← hts]; exact (hb.rd r hr).2.1 hc
  rw [view_step_le hb ⟨p.2.ts, p.2.mems, true⟩ hle _ (tstep_base h), entsOf_step h p.2.files (hi.snap_lt p hp)]

/-- **snapshot_stable_tree**: what a reader's snapshot shows does not change under any later event
    — inserts of writers in flight, rotation, flush install, `imm := none`, conserving compactions
    and garbage-collecting compactions that replace the files of the current version -/
theorem tview_stable : ∀ (evs : List TEv) {t t' : TSt}, Inv t.base → t.base.completed = true → TInv t →
    ∀ p ∈ t.snaps, trun t evs = some t' → tview t' p.2 = tview t p.2
  | [], t, t', _, _, _, p, _, h => by simp only [trun] at h; cases h; rfl
  | e :: es, t, t', hb, hc, hi, p, hp, h => by
    rw [trun_cons] at h
    split at h
    · rename_i t1 h1
      have hb1 := Blue.KvsConc.inv_step hb _ (tstep_base h1)
      have hc1 : t1.base.completed = true := by rw [Blue.KvsConc.step_completed _ (tstep_base h1)]; exact hc
      rw [tview_stable es hb1 hc1 (tinv_step hi h1) p (snaps_step h1 p hp) h]
      exact tview_step hb hc hi h1 p hp
    · cases h

theorem snapshot_stable_tree {seq0 mem0 : Nat} {pre evs : List TEv} {t t' : TSt}
    (hpre : trun (tinit true seq0 mem0) pre = some t) (hrun : trun t evs = some t')
    (p : Nat × TSnap) (hp : p ∈ t.snaps) :
    tview t' p.2 = tview t p.2 ∧ (∀ k, tlookup t' p.2 k = tlookup t p.2 k) ∧ (∀ k, tvalue t' p.2 k = tvalue t p.2 k)
      ∧ ∀ keys, tscan t' p.2 keys = tscan t p.2 keys := by
  have hb : Inv t.base := Blue.KvsConc.inv_run _ (Blue.KvsConc.inv_init true seq0 mem0) (trun_base pre hpre)
  have hc : t.base.completed = true := by
    rw [Blue.KvsConc.run_completed _ (trun_base pre hpre)]; rfl
  have hv := tview_stable evs hb hc (tinv_run pre (tinv_init true seq0 mem0) hpre) p hp hrun
  have hl : ∀ k, tlookup t' p.2 k = tlookup t p.2 k := fun k => by unfold tlookup; rw [hv]
  have hvl : ∀ k, tvalue t' p.2 k = tvalue t p.2 k := fun k => by unfold tvalue; rw [hl k]
  refine ⟨hv, hl, hvl, fun keys => ?_⟩
  unfold tscan
  have : (fun k => (tvalue t' p.2 k).map (fun v => (k, v))) = (fun k => (tvalue t p.2 k).map (fun v => (k, v))) :=
    funext (fun k => by rw [hvl k])
  rw [this]

/-! ## (b) an install is invisible to the readers that come after it -/

theorem nodup_keys_unique : ∀ (l : List (Nat × Option Nat)), (l.map (·.1)).Nodup →
    ∀ k v v', (k, v) ∈ l → (k, v') ∈ l → v = v'
  | [], _, _, _, _, h, _ => by cases h
  | (k0, v0) :: l, hn, k, v, v', h, h' => by
    simp only [List.map_cons, List.nodup_cons] at hn
    rcases List.mem_cons.mp h with h | h <;> rcases List.mem_cons.mp h' with h' | h'
    · cases h; cases h'; rfl
    · exact absurd (List.mem_map.mpr ⟨(k, v'), h', (Prod.mk.inj h).1⟩) hn.1
    · exact absurd (List.mem_map.mpr ⟨(k, v), h, (Prod.mk.inj h').1⟩) hn.1
    · exact nodup_keys_unique l hn.2 k v v' h h'

/-- (key, sequence number) identifies an entry of the tables: one write, one entry per key -/
theorem uniq_ents {s : St} (h : Inv s) (hn : ∀ w ∈ s.writers, (w.batch.map (·.1)).Nodup) (a b : Entry)
    (ha : ∃ ta, (ta, a) ∈ s.ents) (hb : ∃ tb, (tb, b) ∈ s.ents) (hk : a.key = b.key) (hs : a.seq = b.seq) :
    a = b := by
  obtain ⟨ta, ha⟩ := ha
  obtain ⟨tb, hb⟩ := hb
  obtain ⟨wa, hwa, hsa, _, hba⟩ := h.from_batch _ ha
  obtain ⟨wb, hwb, hsb, _, hbb⟩ := h.from_batch _ hb
  have : wa = wb := Blue.KvsConc.uniq_seq s.writers h.wuniq wa hwa wb hwb (by rw [hsa, hsb]; exact hs)
  subst this
  simp only at hba hbb
  rw [← hk] at hbb
  have hv := nodup_keys_unique wa.batch (hn wa hwa) _ _ _ hba hbb
  cases a; cases b; simp_all

theorem tview_sub_ents {t : TSt} (hi : TInv t) (sn : TSnap) (e : Entry) (he : e ∈ tview t sn) :
    ∃ tb, (tb, e) ∈ t.base.ents := by
  unfold tview at he
  rcases List.mem_append.mp he with he | he
  · obtain ⟨tb, h1, _, _⟩ := Blue.KvsConc.mem_view.mp he
    exact ⟨tb, h1⟩
  · obtain ⟨id, _, hid⟩ := mem_entsOf.mp (List.mem_filter.mp he).1
    obtain ⟨q, hq, _, heq⟩ := mem_fileOf hid
    obtain ⟨tb, _, h2⟩ := hi.file_sub q hq e heq
    exact ⟨tb, h2⟩

theorem tview_uniq {t : TSt} (hb : Inv t.base) (hi : TInv t) (sn : TSnap) : Uniq (tview t sn) :=
  fun a ha b hb' hk hs => uniq_ents hb hi.batch_nodup a b (tview_sub_ents hi sn a ha) (tview_sub_ents hi sn b hb') hk hs

theorem fileOf_hit (files more : List (Nat × List Entry)) (id : Nat) (o : List Entry)
    (h : ∀ p ∈ files, p.1 ≠ id) : fileOf (files ++ (id, o) :: more) id = o := by
  unfold fileOf
  rw [List.find?_append]
  have : files.find? (fun p => decide (p.1 = id)) = none := by
    rw [List.find?_eq_none]; intro p hp; simpa using h p hp
  rw [this]; simp

theorem entsOf_mkFiles : ∀ (outs : List (List Entry)) (files : List (Nat × List Entry)) (n : Nat),
    (∀ p ∈ files, p.1 < n) → entsOf (files ++ mkFiles n outs) ((mkFiles n outs).map (·.1)) = outs.flatten
  | [], _, _, _ => rfl
  | o :: os, files, n, h => by
    have ih := entsOf_mkFiles os (files ++ [(n, o)]) (n + 1) (by
      intro p hp
      rcases List.mem_append.mp hp with hp | hp
      · have := h p hp; omega
      · simp only [List.mem_singleton] at hp; subst hp; simp)
    simp only [mkFiles, List.map_cons, List.flatten_cons]
    unfold entsOf at ih ⊢
    simp only [List.map_cons, List.flatten_cons]
    rw [fileOf_hit files _ n o (fun p hp => by have := h p hp; omega)]
    rw [List.append_assoc] at ih
    exact congrArg (o ++ ·) ih

theorem mem_entsOf_append {files : List (Nat × List Entry)} {a b : List Nat} {e : Entry} :
    e ∈ entsOf files (a ++ b) ↔ e ∈ entsOf files a ∨ e ∈ entsOf files b := by
  unfold entsOf
  rw [List.map_append, List.flatten_append, List.mem_append]

/-- what the version after an install holds: the outputs and the files that stayed -/
theorem mem_install {t : TSt} (hi : TInv t) (b : St) (ins : List Nat) (outs : List (List Entry)) (e : Entry) :
    e ∈ entsOf (install t b ins outs).files (install t b ins outs).cur ↔
      e ∈ outs.flatten ∨ e ∈ entsOf t.files (t.cur.filter (fun f => !(ins.contains f))) := by
  show e ∈ entsOf (t.files ++ mkFiles t.nextFile outs)
    ((mkFiles t.nextFile outs).map (·.1) ++ t.cur.filter (fun f => !(ins.contains f))) ↔ _
  rw [mem_entsOf_append, entsOf_mkFiles outs t.files t.nextFile hi.fid,
    entsOf_append_of_fresh t.files _ _ (by
      intro q hq id hid heq
      have := (mkFiles_ids outs _ q hq).1
      have := hi.cur_lt id (List.mem_filter.mp hid).1
      omega)]

/-- what the version before it holds: the inputs and the files that stay -/
theorem mem_cur_split {t : TSt} (ins : List Nat) (hins : ins.all (fun f => t.cur.contains f) = true) (e : Entry) :
    e ∈ entsOf t.files t.cur ↔
      e ∈ entsOf t.files ins ∨ e ∈ entsOf t.files (t.cur.filter (fun f => !(ins.contains f))) := by
  simp only [List.all_eq_true, List.contains_iff_mem] at hins
  simp only [mem_entsOf, List.mem_filter, Bool.not_eq_true', List.contains_eq_mem, decide_eq_false_iff_not]
  constructor
  · rintro ⟨id, hid, he⟩
    by_cases hin : id ∈ ins
    · exact Or.inl ⟨id, hin, he⟩
    · exact Or.inr ⟨id, ⟨hid, hin⟩, he⟩
  · rintro (⟨id, hid, he⟩ | ⟨id, ⟨hid, _⟩, he⟩)
    · exact ⟨id, hins id hid, he⟩
    · exact ⟨id, hid, he⟩

theorem tInstall_base {s b : St} {vid : Nat} (hb : step s (.tInstall vid) = some b) :
    b = { s with verId := vid } := by
  simp only [step] at hb
  split at hb
  · cases hb; rfl
  · cases hb

/-- **install_invisible_to_new_readers** (conserving compaction), step form: at EVERY timestamp and
    for every set of memtables, a snapshot over the version after the install answers every point
    read with the entry a snapshot over the version before it answers -/
theorem compact_step_reads {t t' : TSt} {vid : Nat} {ins : List Nat} {outs : List (List Entry)}
    (hb : Inv t.base) (hi : TInv t) (h : tstep t (.tCompact vid ins outs) = some t')
    (ts : Nat) (M : List Nat) (k : Nat) :
    tlookup t' ⟨ts, M, t'.cur⟩ k = tlookup t ⟨ts, M, t.cur⟩ k := by
  have hb' := Blue.KvsConc.inv_step hb _ (tstep_base h)
  have hi' := tinv_step hi h
  unfold tlookup
  apply look_congr (tview_uniq hb' hi' _) (tview_uniq hb hi _)
  cases tstep_shape h with
  | compact _ _ _ b hstep hc =>
    intro e
    have hbase := tInstall_base hstep
    unfold tview
    simp only [List.mem_append, List.mem_filter, decide_eq_true_eq]
    rw [mem_install hi b ins outs e, mem_cur_split ins hc.1 e, conserving_iff hc.2.2 e]
    have hv : view (install t b ins outs).base ⟨ts, M, true⟩ = view t.base ⟨ts, M, true⟩ := by
      show view b _ = _
      rw [hbase]; rfl
    rw [hv]

/-! ### garbage-collecting compaction -/

theorem newestIn_iff {E : List Entry} {N : Entry} :
    newestIn E N = true ↔ ∀ e ∈ E, e.key = N.key → e.seq ≤ N.seq := by
  unfold newestIn
  simp only [List.all_eq_true, Bool.or_eq_true, Bool.not_eq_true', beq_eq_false_iff_ne, decide_eq_true_eq]
  constructor
  · intro h e he hk
    rcases h e he with h1 | h1
    · exact absurd hk h1
    · exact h1
  · intro h e he
    by_cases hk : e.key = N.key
    · exact Or.inr (h e he hk)
    · exact Or.inl hk

/-- `NewestKept` of `Blue.StoreHistGc`, on entries -/
theorem gcOk_newest {insE outsE : List Entry} (h : gcOk insE outsE = true) (N : Entry) (hN : N ∈ insE)
    (hnew : ∀ e ∈ insE, e.key = N.key → e.seq ≤ N.seq) :
    N ∈ outsE ∨ (N.val = none ∧ ∀ o ∈ outsE, o.key = N.key → (∀ e ∈ outsE, e.key = o.key → e.seq ≤ o.seq) → o.val = none) := by
  unfold gcOk at h
  simp only [Bool.and_eq_true, List.all_eq_true] at h
  have h2 := h.2 N hN
  simp only [Bool.or_eq_true, Bool.not_eq_true', Bool.and_eq_true, List.contains_iff_mem, List.all_eq_true,
    beq_iff_eq, beq_eq_false_iff_ne] at h2
  rcases h2 with h2 | h2 | ⟨hv, h2⟩
  · rw [← Bool.not_eq_true, newestIn_iff] at h2
    exact absurd hnew h2
  · exact Or.inl h2
  · refine Or.inr ⟨hv, ?_⟩
    intro o ho hk hon
    rcases h2 o ho with h3 | h3 | h3
    · exact absurd hk h3
    · rw [← Bool.not_eq_true, newestIn_iff] at h3
      exact absurd hon h3
    · exact h3

theorem nothingBelow_iff {restE insE : List Entry} (h : nothingBelow restE insE = true) :
    ∀ x ∈ restE, ∀ d ∈ insE, x.key = d.key → d.seq < x.seq := by
  unfold nothingBelow at h
  simp only [List.all_eq_true, Bool.or_eq_true, Bool.not_eq_true', beq_eq_false_iff_ne, decide_eq_true_eq] at h
  intro x hx d hd hk
  rcases h x hx d hd with h1 | h1
  · exact absurd hk h1
  · exact h1

/-- the semantic core: visible versions before (`V`: memtables, inputs, files that stay) and after
    (`V'`: memtables, outputs, files that stay) a collecting compaction -/
theorem gc_core {V V' VM I O R : List Entry} (hu : Uniq V)
    (hV : ∀ e, e ∈ V ↔ e ∈ VM ∨ e ∈ I ∨ e ∈ R) (hV' : ∀ e, e ∈ V' ↔ e ∈ VM ∨ e ∈ O ∨ e ∈ R)
    (hok : gcOk I O = true) (hnb : nothingBelow R I = true)
    (hA2 : ∀ d ∈ I, d ∈ VM ∨ ∀ m ∈ VM, d.seq < m.seq) (k : Nat) :
    look V' k = look V k ∨
      ∃ n, look V k = some n ∧ n.val = none ∧ ∀ n', look V' k = some n' → n'.val = none := by
  have hsub : ∀ e ∈ V', e ∈ V := by
    intro e he
    rcases (hV' e).mp he with h | h | h
    · exact (hV e).mpr (Or.inl h)
    · exact (hV e).mpr (Or.inr (Or.inl (gcOk_sub hok e h)))
    · exact (hV e).mpr (Or.inr (Or.inr h))
  have hu' : Uniq V' := fun a ha b hb => hu a (hsub a ha) b (hsub b hb)
  cases hl : look V k with
  | none =>
    left
    rw [look_none_iff] at hl ⊢
    exact fun x hx => hl x (hsub x hx)
  | some n =>
    obtain ⟨hn, hnk, hmax⟩ := (look_some_iff hu).mp hl
    by_cases hn' : n ∈ V'
    · left
      exact (look_some_iff hu').mpr ⟨hn', hnk, fun x hx hk => hmax x (hsub x hx) hk⟩
    · right
      have hnVM : n ∉ VM := fun h => hn' ((hV' n).mpr (Or.inl h))
      have hnR : n ∉ R := fun h => hn' ((hV' n).mpr (Or.inr (Or.inr h)))
      have hnO : n ∉ O := fun h => hn' ((hV' n).mpr (Or.inr (Or.inl h)))
      have hnI : n ∈ I := by
        rcases (hV n).mp hn with h | h | h
        · exact absurd h hnVM
        · exact h
        · exact absurd h hnR
      have hnew : ∀ e ∈ I, e.key = n.key → e.seq ≤ n.seq :=
        fun e he hk => hmax e ((hV e).mpr (Or.inr (Or.inl he))) (by rw [hk, hnk])
      rcases gcOk_newest hok n hnI hnew with h | ⟨hval, hall⟩
      · exact absurd h hnO
      · refine ⟨n, rfl, hval, ?_⟩
        intro n' hl'
        obtain ⟨hm', hk', hmax'⟩ := (look_some_iff hu').mp hl'
        have hle := hmax n' (hsub n' hm') hk'
        rcases (hV' n').mp hm' with h | h | h
        · rcases hA2 n hnI with h2 | h2
          · exact absurd h2 hnVM
          · have := h2 n' h; omega
        · apply hall n' h (by rw [hk', hnk])
          intro e he hk
          exact hmax' e ((hV' e).mpr (Or.inr (Or.inl he))) (by rw [hk, hk'])
        · have := nothingBelow_iff hnb n' h n hnI (by rw [hk', hnk]); omega

/-- every version in a file has been published: the flush passes the wait list before it writes
    the file, so the writes into the table have returned (`Hand.flushed_done`) -/
theorem file_ents_visible {t : TSt} (hb : Inv t.base) (hh : Hand t.base) (hi : TInv t) (ids : List Nat)
    (e : Entry) (he : e ∈ entsOf t.files ids) :
    e.seq ≤ t.base.visible ∧ ∃ tb ∈ t.base.flushed, (tb, e) ∈ t.base.ents := by
  obtain ⟨id, _, hid⟩ := mem_entsOf.mp he
  obtain ⟨q, hq, _, heq⟩ := mem_fileOf hid
  obtain ⟨tb, h1, h2⟩ := hi.file_sub q hq e heq
  obtain ⟨w, hw, hs, htb, _⟩ := hb.from_batch _ h2
  have hf := hh.flushed_done tb h1 w hw htb
  have := (hb.fin_vis w hw).mp hf
  exact ⟨by rw [← hs]; exact this, tb, h1, h2⟩

/-- a version in a file is also in the memtables searched now (the file of `imm`, before `imm :=
    none`) or older than everything in them -/
theorem mem_above_files {t : TSt} (hb : Inv t.base) (hh : Hand t.base) (ho : Ord t.base) (hi : TInv t)
    (ids : List Nat) (ts : Nat) (hts : t.base.visible ≤ ts) (d : Entry) (hd : d ∈ entsOf t.files ids) :
    d ∈ view t.base ⟨ts, t.base.memId :: t.base.imm.toList, true⟩ ∨
      ∀ m ∈ view t.base ⟨ts, t.base.memId :: t.base.imm.toList, true⟩, d.seq < m.seq := by
  obtain ⟨hvis, tb, htb, hde⟩ := file_ents_visible hb hh hi ids d hd
  by_cases himm : t.base.imm = some tb
  · left
    exact Blue.KvsConc.mem_view.mpr ⟨tb, hde, by simp [himm], by show d.seq ≤ ts; omega⟩
  · right
    intro m hm
    obtain ⟨tm, hme, htm, _⟩ := Blue.KvsConc.mem_view.mp hm
    have hlt : tb < tm := by
      simp only [List.mem_cons, Option.mem_toList] at htm
      rcases htm with rfl | htm
      · exact hh.flushed_lt tb htb
      · rcases ho.fl_imm tm htm tb htb with h | ⟨_, h⟩
        · exact h
        · exact absurd (by rw [htm, h]) himm
    exact Blue.KvsConc.ents_ordered hb ho (tm, m) (tb, d) hme hde hlt

/-- **install_invisible_to_new_readers** (collecting compaction), step form: a snapshot that takes
    the memtables and the version after the install and reads at a timestamp that `visible_seq_no`
    had reached at the install answers as one over the version before it — the same entry, or
    "tombstone" before and "no version" (or an older tombstone) after; the value is the same -/
theorem gc_step_reads {t t' : TSt} {vid : Nat} {ins : List Nat} {outs : List (List Entry)}
    (hb : Inv t.base) (hh : Hand t.base) (ho : Ord t.base) (hi : TInv t)
    (h : tstep t (.tGc vid ins outs) = some t') (ts : Nat) (hts : t.base.visible ≤ ts) (k : Nat) :
    (tlookup t' ⟨ts, t.base.memId :: t.base.imm.toList, t'.cur⟩ k
        = tlookup t ⟨ts, t.base.memId :: t.base.imm.toList, t.cur⟩ k ∨
      ∃ n, tlookup t ⟨ts, t.base.memId :: t.base.imm.toList, t.cur⟩ k = some n ∧ n.val = none ∧
        ∀ n', tlookup t' ⟨ts, t.base.memId :: t.base.imm.toList, t'.cur⟩ k = some n' → n'.val = none) ∧
    tvalue t' ⟨ts, t.base.memId :: t.base.imm.toList, t'.cur⟩ k
      = tvalue t ⟨ts, t.base.memId :: t.base.imm.toList, t.cur⟩ k := by
  have hi' := tinv_step hi h
  have hb' := Blue.KvsConc.inv_step hb _ (tstep_base h)
  have hh' := Blue.KvsConc.hand_step hb hh _ (tstep_base h)
  have key : tlookup t' ⟨ts, t.base.memId :: t.base.imm.toList, t'.cur⟩ k
        = tlookup t ⟨ts, t.base.memId :: t.base.imm.toList, t.cur⟩ k ∨
      ∃ n, tlookup t ⟨ts, t.base.memId :: t.base.imm.toList, t.cur⟩ k = some n ∧ n.val = none ∧
        ∀ n', tlookup t' ⟨ts, t.base.memId :: t.base.imm.toList, t'.cur⟩ k = some n' → n'.val = none := by
    unfold tlookup
    cases tstep_shape h with
    | gc _ _ _ b hstep hc =>
      have hbase := tInstall_base hstep
      have hvis' : (install t b ins outs).base.visible = t.base.visible := by
        show b.visible = _; rw [hbase]
      apply gc_core (VM := view t.base ⟨ts, t.base.memId :: t.base.imm.toList, true⟩)
        (I := entsOf t.files ins) (O := outs.flatten)
        (R := entsOf t.files (t.cur.filter (fun f => !(ins.contains f))))
        (tview_uniq hb hi _) ?_ ?_ hc.2.2.1 hc.2.2.2
        (fun d hd => mem_above_files hb hh ho hi ins ts hts d hd)
      · intro e
        unfold tview
        simp only [List.mem_append, List.mem_filter, decide_eq_true_eq]
        rw [mem_cur_split ins hc.1 e]
        constructor
        · rintro (h1 | ⟨h1, _⟩)
          · exact Or.inl h1
          · exact Or.inr h1
        · rintro (h1 | h1)
          · exact Or.inl h1
          · refine Or.inr ⟨h1, ?_⟩
            have := (file_ents_visible hb hh hi t.cur e ((mem_cur_split ins hc.1 e).mpr h1)).1
            omega
      · intro e
        unfold tview
        simp only [List.mem_append, List.mem_filter, decide_eq_true_eq]
        rw [mem_install hi b ins outs e]
        have hv : view (install t b ins outs).base ⟨ts, t.base.memId :: t.base.imm.toList, true⟩
            = view t.base ⟨ts, t.base.memId :: t.base.imm.toList, true⟩ := by
          show view b _ = _
          rw [hbase]; rfl
        rw [hv]
        constructor
        · rintro (h1 | ⟨h1, _⟩)
          · exact Or.inl h1
          · exact Or.inr h1
        · rintro (h1 | h1)
          · exact Or.inl h1
          · refine Or.inr ⟨h1, ?_⟩
            have := (file_ents_visible hb' hh' hi' (install t b ins outs).cur e
              ((mem_install hi b ins outs e).mpr h1)).1
            rw [hvis'] at this
            omega
  refine ⟨key, ?_⟩
  unfold tvalue
  rcases key with h1 | ⟨n, h1, hv, hall⟩
  · rw [h1]
  · rw [h1]
    cases h2 : tlookup t' ⟨ts, t.base.memId :: t.base.imm.toList, t'.cur⟩ k with
    | none => simp [hv]
    | some n' => simp [hv, hall n' h2]

/-! ### … for every reachable state -/

theorem snapNow_install {t t' : TSt} {ev : TEv} {vid : Nat} (hp : proj ev = .tInstall vid)
    (h : tstep t ev = some t') :
    snapNow t' = ⟨Blue.KvsConc.readTs t.base, t.base.memId :: t.base.imm.toList, t'.cur⟩ := by
  have hb := tstep_base h
  rw [hp] at hb
  have := tInstall_base hb
  unfold snapNow Blue.KvsConc.readTs
  rw [this]

/-- **install_invisible_to_new_readers**, conserving compaction: in every reachable state, a reader
    that snapshots after a `tCompact` gets — at every timestamp and over any memtables, in
    particular at the timestamp and memtables `load` / `range_scan` take now — the entry it would
    have got before the install -/
theorem install_invisible_to_new_readers {c : Bool} {seq0 mem0 : Nat} {pre : List TEv} {t t' : TSt}
    {vid : Nat} {ins : List Nat} {outs : List (List Entry)}
    (hpre : trun (tinit c seq0 mem0) pre = some t) (h : tstep t (.tCompact vid ins outs) = some t') :
    (∀ ts M k, tlookup t' ⟨ts, M, t'.cur⟩ k = tlookup t ⟨ts, M, t.cur⟩ k) ∧
    (∀ k, tlookup t' (snapNow t') k = tlookup t (snapNow t) k) ∧
    (∀ k, tvalue t' (snapNow t') k = tvalue t (snapNow t) k) ∧
    ∀ keys, tscan t' (snapNow t') keys = tscan t (snapNow t) keys := by
  have hb : Inv t.base := Blue.KvsConc.inv_run _ (Blue.KvsConc.inv_init c seq0 mem0) (trun_base pre hpre)
  have hi := tinv_run pre (tinv_init c seq0 mem0) hpre
  have h1 := fun ts M k => compact_step_reads hb hi h ts M k
  have h2 : ∀ k, tlookup t' (snapNow t') k = tlookup t (snapNow t) k := by
    intro k
    rw [snapNow_install (vid := vid) rfl h]
    exact h1 _ _ k
  have h3 : ∀ k, tvalue t' (snapNow t') k = tvalue t (snapNow t) k := fun k => by unfold tvalue; rw [h2 k]
  refine ⟨h1, h2, h3, fun keys => ?_⟩
  unfold tscan
  have : (fun k => (tvalue t' (snapNow t') k).map (fun v => (k, v)))
      = (fun k => (tvalue t (snapNow t) k).map (fun v => (k, v))) := funext (fun k => by rw [h3 k])
  rw [this]

theorem visible_le_readTs {s : St} (h : Inv s) : s.visible ≤ Blue.KvsConc.readTs s := by
  unfold Blue.KvsConc.readTs
  split
  · exact Nat.le_refl _
  · exact h.vis_le

/-- **install_invisible_to_new_readers**, collecting compaction: in every reachable state, a reader
    that snapshots after a `tGc` — memtables, version and timestamp in one critical section, so
    the timestamp is at least the `visible_seq_no` of the install — gets the value it would have
    got before the install; the entry is the same, or a tombstone before and no version (or an
    older tombstone) after.  The same at every timestamp `visible_seq_no` had reached. -/
theorem gc_invisible_to_new_readers {c : Bool} {seq0 mem0 : Nat} (hm : mem0 < seq0) {pre : List TEv} {t t' : TSt}
    {vid : Nat} {ins : List Nat} {outs : List (List Entry)}
    (hpre : trun (tinit c seq0 mem0) pre = some t) (h : tstep t (.tGc vid ins outs) = some t') :
    (∀ k, tvalue t' (snapNow t') k = tvalue t (snapNow t) k) ∧
    (∀ keys, tscan t' (snapNow t') keys = tscan t (snapNow t) keys) ∧
    (∀ k, tlookup t' (snapNow t') k = tlookup t (snapNow t) k ∨
      ∃ n, tlookup t (snapNow t) k = some n ∧ n.val = none ∧
        ∀ n', tlookup t' (snapNow t') k = some n' → n'.val = none) ∧
    ∀ ts, t.base.visible ≤ ts → ∀ k,
      tvalue t' ⟨ts, t.base.memId :: t.base.imm.toList, t'.cur⟩ k
        = tvalue t ⟨ts, t.base.memId :: t.base.imm.toList, t.cur⟩ k := by
  have hrun := trun_base pre hpre
  have hb : Inv t.base := Blue.KvsConc.inv_run _ (Blue.KvsConc.inv_init c seq0 mem0) hrun
  have hh : Hand t.base := Blue.KvsConc.hand_run _ (Blue.KvsConc.inv_init c seq0 mem0)
    (Blue.KvsConc.hand_init c seq0 mem0 hm) hrun
  have ho : Ord t.base := Blue.KvsConc.ord_run _ (Blue.KvsConc.inv_init c seq0 mem0)
    (Blue.KvsConc.hand_init c seq0 mem0 hm) (Blue.KvsConc.ord_init c seq0 mem0) hrun
  have hi := tinv_run pre (tinv_init c seq0 mem0) hpre
  have hnow := snapNow_install (vid := vid) rfl h
  have h3 : ∀ k, tvalue t' (snapNow t') k = tvalue t (snapNow t) k := by
    intro k; rw [hnow]; exact (gc_step_reads hb hh ho hi h _ (visible_le_readTs hb) k).2
  refine ⟨h3, fun keys => ?_, fun k => ?_, fun ts hts k => (gc_step_reads hb hh ho hi h ts hts k).2⟩
  · unfold tscan
    have : (fun k => (tvalue t' (snapNow t') k).map (fun v => (k, v)))
        = (fun k => (tvalue t (snapNow t) k).map (fun v => (k, v))) := funext (fun k => by rw [h3 k])
    rw [this]
  · rw [hnow]; exact (gc_step_reads hb hh ho hi h _ (visible_le_readTs hb) k).1

end Blue.KvsConcTree
