import Blue.Model.ManiLock
import Blue.Proofs.ManiReopen
/-! **C13** with a second process: `Manifest::open` reads MANIFEST only once it HOLDS the lock, so
    the state it rolls over is the state after everything the previous holder applied
    (`open_reads_under_lock`).  With `read_mani` moved above the lock acquisition the waiting
    opener rolls over the state from before the holder's edits: every edit applied during the wait
    is gone after the rollover although its `apply` had returned (`stale_open_loses_edits`). -/
namespace Blue.ManiLock
open Blue.ManiCrash

variable {St E : Type}

/-- the MANIFEST a rollover of `st` leaves: the roll-up of `st`, synced -/
theorem openRollover_mani (A : Algebra St E) (fs : Fs E) (st : St) :
    (run fs (openRollover A fs st)).mani = ⟨[A.rollup st], []⟩ := by
  unfold openRollover
  by_cases h : fs.linked
  · rw [if_pos h]
    cases ht : fs.tmp <;> simp [run, step]
  · rw [if_neg h]
    cases ht : fs.tmp <;> simp [run, step]

/-- the open as the code has it is the rollover of the directory's own state: `reopenOps` -/
theorem waiterOpen_under_lock (A : Algebra St E) (fs : Fs E) (during : List (Op E)) :
    waiterOpen A false fs during =
      (if ((run fs during).mani.durable ++ (run fs during).mani.pending).isEmpty then run fs during
        else run (run fs during) (reopenOps A (run fs during)),
       readMani A (run fs during)) := by
  unfold waiterOpen
  simp only [Bool.false_eq_true, if_false]
  split <;> rfl

/-- **C13** `open_reads_under_lock`: whatever the lock holder did while the second process waited
    (`during`: any calls — edits that returned, rollovers), the handle the second process gets
    holds the state MANIFEST replays to when the lock is handed over, and so does the MANIFEST it
    leaves: reopening yields exactly the edits applied -/
theorem open_reads_under_lock (A : Algebra St E) (hlaw : Lawful A) (fs : Fs E) (during : List (Op E)) :
    (waiterOpen A false fs during).2 = readMani A (run fs during)
    ∧ recoverA A (waiterOpen A false fs during).1 = readMani A (run fs during) := by
  refine ⟨by unfold waiterOpen; simp only []; split <;> simp, ?_⟩
  unfold waiterOpen
  simp only [Bool.false_eq_true, if_false]
  split
  · rfl
  · unfold recoverA
    rw [openRollover_mani]
    show replay A ([A.rollup (readMani A (run fs during))] ++ []) = _
    rw [List.append_nil]
    exact hlaw _

/-- **the reordered open** (`read_mani` before the lock): the MANIFEST the waiting opener leaves
    replays to the state from BEFORE the holder's calls — whatever was applied during the wait is
    not in it -/
theorem stale_open_state (A : Algebra St E) (hlaw : Lawful A) (fs : Fs E) (during : List (Op E))
    (hne : ((run fs during).mani.durable ++ (run fs during).mani.pending).isEmpty = false) :
    (waiterOpen A true fs during).2 = readMani A fs
    ∧ recoverA A (waiterOpen A true fs during).1 = readMani A fs := by
  refine ⟨by unfold waiterOpen; simp only []; split <;> simp, ?_⟩
  unfold waiterOpen
  simp only [if_true]
  rw [hne]
  simp only [Bool.false_eq_true, if_false]
  unfold recoverA
  rw [openRollover_mani]
  show replay A ([A.rollup (readMani A fs)] ++ []) = _
  rw [List.append_nil]
  exact hlaw _

/-! ### the counterexample: strings appended to a list -/

/-- states: lists of numbers; an edit appends its numbers; the roll-up is the list -/
def listAlgebra : Algebra (List Nat) (List Nat) := ⟨[], fun st e => st ++ e, fun st => st⟩

theorem listAlgebra_lawful : Lawful listAlgebra := by
  intro es
  show [] ++ replay listAlgebra es = replay listAlgebra es
  rw [List.nil_append]

/-- the directory after the holder applied the edit `[1]` -/
def held : Fs (List Nat) := run { mani := ⟨[], []⟩, tmp := none, backups := [] } (block listAlgebra [] (.edit [1]))

/-- the holder's calls while the second process waits: the edits `[2]` and `[3]`, both returned -/
def meanwhile : List (Op (List Nat)) := opsOf listAlgebra [.edit [2], .edit [3]] [[1]]

/-- **C13** `stale_open_loses_edits`: the holder applied `[1]`; a second process starts to open;
    the holder applies `[2]` and `[3]` (two acknowledgements) and lets go.  As the code is, the
    second process holds `[1, 2, 3]` and so does the directory; with the reordered open both hold
    `[1]`: two acknowledged edits are gone, and the new MANIFEST does not start with the roll-up
    of the fragment it was linked from -/
theorem stale_open_loses_edits :
    acked meanwhile = 2
    ∧ (waiterOpen listAlgebra false held meanwhile).2 = [1, 2, 3]
    ∧ recoverA listAlgebra (waiterOpen listAlgebra false held meanwhile).1 = [1, 2, 3]
    ∧ (waiterOpen listAlgebra true held meanwhile).2 = [1]
    ∧ recoverA listAlgebra (waiterOpen listAlgebra true held meanwhile).1 = [1]
    ∧ (waiterOpen listAlgebra true held meanwhile).1.backups = [[[1], [2], [3]]]
    ∧ (waiterOpen listAlgebra true held meanwhile).1.mani.durable = [[1]] := by
  decide

end Blue.ManiLock
