import Blue.Proofs.VerifyOne
import Blue.Proofs.VerifyOrder
import Blue.Proofs.GcPolicy
/-! **C04** `verify_gc`: what the walk over merged inputs, merged outputs and the collector's keys
    guarantees when it goes through (`gcWalk_sound`, `gcWalk_retains`), and that it goes through on
    what the store's own garbage collection writes (`gcWalk_honest`). -/
namespace Blue.VerifyOne
open Blue.Books
open Blue.Compact (Entry)

variable {G : Type} (g : Grp G) (h : Entry → G)

/-! ### the store's side: `perform_garbage_collection` -/

/-- the loop of `perform_garbage_collection` over the merged inputs `m` and the keys the collector
    returns: what goes to the outputs, what goes to the discard (the `Ordering::Less` arm — "gc
    iterator out of sync" — is not reachable when the keys are a sub-list of the inputs') -/
def gcSplit : List KeyRef → List Entry → List Entry × List Entry
  | _, [] => ([], [])
  | [], e :: m => ((gcSplit [] m).1, e :: (gcSplit [] m).2)
  | r :: rs, e :: m =>
    if r = kr e then (e :: (gcSplit rs m).1, (gcSplit rs m).2)
    else ((gcSplit (r :: rs) m).1, e :: (gcSplit (r :: rs) m).2)

theorem gcSplit_nil : ∀ (m : List Entry), gcSplit [] m = ([], m)
  | [] => rfl
  | e :: m => by simp only [gcSplit, gcSplit_nil m]

theorem gcSplit_cons_eq (r : KeyRef) (rs : List KeyRef) (e : Entry) (m : List Entry) (hr : r = kr e) :
    gcSplit (r :: rs) (e :: m) = (e :: (gcSplit rs m).1, (gcSplit rs m).2) := by
  simp only [gcSplit, hr, if_true]

theorem gcSplit_cons_ne (r : KeyRef) (rs : List KeyRef) (e : Entry) (m : List Entry) (hr : r ≠ kr e) :
    gcSplit (r :: rs) (e :: m) = ((gcSplit (r :: rs) m).1, e :: (gcSplit (r :: rs) m).2) := by
  simp only [gcSplit, hr, if_false]

/-- kept and dropped are the inputs, each entry once -/
theorem gcSplit_perm : ∀ (m : List Entry) (R : List KeyRef), ((gcSplit R m).1 ++ (gcSplit R m).2).Perm m
  | [], R => by cases R <;> exact List.Perm.refl _
  | e :: m, [] => by rw [gcSplit_nil]; exact List.Perm.refl _
  | e :: m, r :: rs => by
    by_cases hr : r = kr e
    · rw [gcSplit_cons_eq r rs e m hr]
      exact (gcSplit_perm m rs).cons e
    · rw [gcSplit_cons_ne r rs e m hr]
      exact List.perm_middle.trans ((gcSplit_perm m (r :: rs)).cons e)

theorem gcSplit_sublist : ∀ (m : List Entry) (R : List KeyRef), (gcSplit R m).1.Sublist m
  | [], R => by cases R <;> exact List.Sublist.refl _
  | e :: m, [] => by rw [gcSplit_nil]; exact List.nil_sublist _
  | e :: m, r :: rs => by
    by_cases hr : r = kr e
    · rw [gcSplit_cons_eq r rs e m hr]; exact (gcSplit_sublist m rs).cons_cons e
    · rw [gcSplit_cons_ne r rs e m hr]; exact (gcSplit_sublist m (r :: rs)).cons e

theorem sublist_of_cons_ne {α : Type} {a b : α} {l l' : List α} (hs : (a :: l).Sublist (b :: l')) (hne : a ≠ b) :
    (a :: l).Sublist l' := by
  cases hs with
  | cons _ h => exact h
  | cons_cons _ h => exact absurd rfl hne

theorem sublist_tail_of_cons {α : Type} {a b : α} {l l' : List α} (hs : (a :: l).Sublist (b :: l')) :
    l.Sublist l' := by
  cases hs with
  | cons _ h => exact (List.sublist_cons_self a l).trans h
  | cons_cons _ h => exact h

/-- when the collector's keys are a sub-list of the inputs' keys, exactly they are kept -/
theorem gcSplit_keys : ∀ (m : List Entry) (R : List KeyRef), R.Sublist (m.map kr) → (gcSplit R m).1.map kr = R
  | [], R, hs => by
    have : R = [] := List.eq_nil_of_sublist_nil hs
    subst this; rfl
  | e :: m, [], _ => by rw [gcSplit_nil]; rfl
  | e :: m, r :: rs, hs => by
    by_cases hr : r = kr e
    · rw [gcSplit_cons_eq r rs e m hr]
      simp only [List.map_cons, hr]
      rw [gcSplit_keys m rs (sublist_tail_of_cons hs)]
    · rw [gcSplit_cons_ne r rs e m hr]
      exact gcSplit_keys m (r :: rs) (sublist_of_cons_ne hs hr)

/-! ### the trailing loop -/

theorem gcTail_nil_gc (tail : Bool) : ∀ (is : List Entry) (acc : G),
    gcTail (opsOf g) h tail is [] acc = .ok (g.add acc (total g h is))
  | [], acc => by simp only [gcTail, total]; rw [List.foldr_nil, g.add_zero]
  | i :: is, acc => by
    have ih := gcTail_nil_gc tail is (g.add acc (h i))
    cases tail <;> simp only [gcTail, Bool.false_eq_true, if_false, if_true] <;>
      (show gcTail (opsOf g) h _ is [] (g.add acc (h i)) = _) <;> rw [ih, total_cons, g.add_assoc]

theorem gcTail_ok (tail : Bool) : ∀ (is : List Entry) (gc : List KeyRef) (acc d : G),
    gcTail (opsOf g) h tail is gc acc = .ok d → d = g.add acc (total g h is)
  | [], gc, acc, d, hd => by
    simp only [gcTail, Except.ok.injEq] at hd
    rw [← hd]; exact (g.add_zero acc).symm
  | i :: is, gc, acc, d, hd => by
    have step : gcTail (opsOf g) h tail is gc (g.add acc (h i)) = .ok d := by
      cases tail with
      | false => simp only [gcTail, Bool.false_eq_true, if_false] at hd; exact hd
      | true =>
        simp only [gcTail, if_true] at hd
        cases gc with
        | nil => exact hd
        | cons x gs =>
          simp only at hd
          split at hd
          · cases hd
          · split at hd
            · cases hd
            · exact hd
    rw [gcTail_ok tail is gc _ d step, total_cons, g.add_assoc]

/-- with the repair, the trailing loop goes through only when the collector has nothing left -/
theorem gcTail_checked : ∀ (is : List Entry) (gc : List KeyRef) (acc d : G),
    gc.Sublist (is.map kr) → gcTail (opsOf g) h true is gc acc = .ok d → gc = []
  | [], gc, _, _, hs, _ => List.eq_nil_of_sublist_nil hs
  | i :: is, [], _, _, _, _ => rfl
  | i :: is, x :: gs, acc, d, hs, hd => by
    simp only [gcTail, if_true] at hd
    split at hd
    · cases hd
    · split at hd
      · cases hd
      · rename_i _ hne
        exact gcTail_checked is (x :: gs) _ d (sublist_of_cons_ne hs hne) hd

/-! ### the walk -/

theorem gcWalk_nil_nil (tail : Bool) (gc : List KeyRef) (acc : G) :
    gcWalk (opsOf g) h tail [] [] gc acc = .ok acc := by
  simp only [gcWalk]

theorem gcWalk_cons_nil (tail : Bool) (i : Entry) (is : List Entry) (gc : List KeyRef) (acc : G) :
    gcWalk (opsOf g) h tail (i :: is) [] gc acc = gcTail (opsOf g) h tail (i :: is) gc acc := by
  simp only [gcWalk]

/-- the head of the collector's keys compared with the next input -/
def gcLess (gc : List KeyRef) (i : Entry) : Bool :=
  match gc with
  | x :: _ => krLt x (kr i)
  | [] => false

def gcMust (gc : List KeyRef) (i : Entry) : Bool :=
  match gc with
  | x :: _ => decide (x = kr i)
  | [] => false

theorem gcWalk_cons_cons (tail : Bool) (i : Entry) (is : List Entry) (out : Entry) (os : List Entry)
    (gc : List KeyRef) (acc : G) :
    gcWalk (opsOf g) h tail (i :: is) (out :: os) gc acc =
      if gcLess gc i then .error .gcLogic
      else if krLt (kr i) (kr out) then
        (if gcMust gc i then .error .gcDataLoss else gcWalk (opsOf g) h tail is (out :: os) gc (g.add acc (h i)))
      else if krLt (kr out) (kr i) then .error .gcConstruction
      else gcWalk (opsOf g) h tail is os (if gcMust gc i then gc.drop 1 else gc) acc := by
  cases gc <;> simp only [gcWalk, gcLess, gcMust] <;> rfl

/-- **what an accepted walk says**: the outputs' keys are, in order, keys of the inputs (nothing was
    constructed), and the computed discard is the sum over the inputs that have no partner in the
    outputs: `d + Σ matched = acc + Σ inputs` with `matched` the inputs the outputs were matched to -/
theorem gcWalk_sound (tail : Bool) : ∀ (ins outs : List Entry) (gc : List KeyRef) (acc d : G),
    gcWalk (opsOf g) h tail ins outs gc acc = .ok d →
    ∃ matched : List Entry, matched.Sublist ins ∧ matched.map kr = outs.map kr
      ∧ g.add d (total g h matched) = g.add acc (total g h ins)
  | [], [], gc, acc, d, hd => by
    rw [gcWalk_nil_nil] at hd
    simp only [Except.ok.injEq] at hd
    exact ⟨[], List.Sublist.refl _, rfl, by rw [hd]⟩
  | [], _ :: _, gc, acc, d, hd => by simp only [gcWalk] at hd; cases hd
  | i :: is, [], gc, acc, d, hd => by
    rw [gcWalk_cons_nil] at hd
    have := gcTail_ok g h tail (i :: is) gc acc d hd
    exact ⟨[], List.nil_sublist _, rfl, by rw [this]; show g.add _ g.zero = _; rw [g.add_zero]⟩
  | i :: is, out :: os, gc, acc, d, hd => by
    rw [gcWalk_cons_cons] at hd
    split at hd
    · cases hd
    · split at hd
      · split at hd
        · cases hd
        · obtain ⟨m, hm1, hm2, hm3⟩ := gcWalk_sound tail is (out :: os) gc _ d hd
          refine ⟨m, hm1.cons i, hm2, ?_⟩
          rw [hm3, total_cons, g.add_assoc]
      · split at hd
        · cases hd
        · rename_i h1 h2
          have heq : kr i = kr out := krLt_total _ _ (by simpa using h1) (by simpa using h2)
          obtain ⟨m, hm1, hm2, hm3⟩ := gcWalk_sound tail is os _ acc d hd
          refine ⟨i :: m, hm1.cons_cons i, by simp only [List.map_cons, heq, hm2], ?_⟩
          rw [total_cons, total_cons, add_left_comm g d, hm3, add_left_comm g acc]

/-- membership in a sub-list of the keys of a strictly sorted run puts the key after the head -/
theorem after_head {i : Entry} {is : List Entry} (hs : Strict (i :: is)) {R : List KeyRef}
    (hR : R.Sublist (is.map kr)) {r : KeyRef} (hr : r ∈ R) : krLt (kr i) r = true := by
  have : r ∈ is.map kr := hR.subset hr
  obtain ⟨e, he, rfl⟩ := List.mem_map.mp this
  exact List.rel_of_pairwise_cons hs he

/-- **what an accepted walk says about retention**: every key the collector retains is among the
    outputs — or, as the code is (`tail = false`), sorts after every output: the inputs left when
    the outputs are exhausted go to the discard unexamined -/
theorem gcWalk_retains (tail : Bool) : ∀ (ins outs : List Entry) (R : List KeyRef) (acc d : G),
    Strict ins → R.Sublist (ins.map kr) → gcWalk (opsOf g) h tail ins outs R acc = .ok d →
    ∀ r ∈ R, r ∈ outs.map kr ∨ (tail = false ∧ ∀ o ∈ outs, krLt (kr o) r = true)
  | [], _, R, _, _, _, hR, _ => by
    have : R = [] := List.eq_nil_of_sublist_nil hR
    subst this; intro r hr; cases hr
  | i :: is, [], R, acc, d, _, hR, hd => by
    rw [gcWalk_cons_nil] at hd
    cases tail with
    | false => intro r _; exact Or.inr ⟨rfl, fun o ho => by cases ho⟩
    | true =>
      have := gcTail_checked g h (i :: is) R acc d hR hd
      subst this; intro r hr; cases hr
  | i :: is, out :: os, [], _, _, _, _, _ => by intro r hr; cases hr
  | i :: is, out :: os, x :: gs, acc, d, hs, hR, hd => by
    rw [gcWalk_cons_cons] at hd
    have hs' : Strict is := List.Pairwise.of_cons hs
    split at hd
    · cases hd
    · split at hd
      · split at hd
        · cases hd
        · rename_i _ _ hm
          have hne : x ≠ kr i := by simpa [gcMust] using hm
          exact gcWalk_retains tail is (out :: os) (x :: gs) _ d hs' (sublist_of_cons_ne hR hne) hd
      · split at hd
        · cases hd
        · rename_i h1 h2
          have heq : kr i = kr out := krLt_total _ _ (by simpa using h1) (by simpa using h2)
          by_cases hm : x = kr i
          · have hgm : gcMust (x :: gs) i = true := by simp [gcMust, hm]
            rw [hgm] at hd
            simp only [if_true, List.drop_succ_cons, List.drop_zero] at hd
            have hgs : gs.Sublist (is.map kr) := sublist_tail_of_cons hR
            have ih := gcWalk_retains tail is os gs acc d hs' hgs hd
            intro r hr
            rcases List.mem_cons.mp hr with rfl | hr
            · left; rw [hm, heq]; exact List.mem_cons_self
            · rcases ih r hr with h' | ⟨ht, h'⟩
              · left; exact List.mem_cons_of_mem _ h'
              · right
                refine ⟨ht, ?_⟩
                intro o ho
                rcases List.mem_cons.mp ho with rfl | ho
                · rw [← heq]; exact after_head hs hgs hr
                · exact h' o ho
          · have hgm : gcMust (x :: gs) i = false := by simp [gcMust, hm]
            rw [hgm] at hd
            simp only [Bool.false_eq_true, if_false] at hd
            have hR' : (x :: gs).Sublist (is.map kr) := sublist_of_cons_ne hR hm
            have ih := gcWalk_retains tail is os (x :: gs) acc d hs' hR' hd
            intro r hr
            rcases ih r hr with h' | ⟨ht, h'⟩
            · left; exact List.mem_cons_of_mem _ h'
            · right
              refine ⟨ht, ?_⟩
              intro o ho
              rcases List.mem_cons.mp ho with rfl | ho
              · rw [← heq]; exact after_head hs hR' hr
              · exact h' o ho

/-- **the walk goes through on what the store's own collection writes**, with either treatment of
    the tail, and computes the sum over what the store dropped -/
theorem gcWalk_honest (tail : Bool) : ∀ (m : List Entry) (R : List KeyRef) (acc : G),
    Strict m → R.Sublist (m.map kr) →
    gcWalk (opsOf g) h tail m (gcSplit R m).1 R acc = .ok (g.add acc (total g h (gcSplit R m).2))
  | [], R, acc, _, hR => by
    have : R = [] := List.eq_nil_of_sublist_nil hR
    subst this
    simp only [gcSplit, gcWalk_nil_nil]
    show _ = Except.ok (g.add acc g.zero)
    rw [g.add_zero]
  | i :: is, [], acc, _, _ => by
    rw [gcSplit_nil, gcWalk_cons_nil]
    exact gcTail_nil_gc g h tail (i :: is) acc
  | i :: is, x :: gs, acc, hs, hR => by
    have hs' : Strict is := List.Pairwise.of_cons hs
    by_cases hx : x = kr i
    · rw [gcSplit_cons_eq x gs i is hx, gcWalk_cons_cons]
      have hl : gcLess (x :: gs) i = false := by simp [gcLess, hx, krLt_irrefl]
      have hm : gcMust (x :: gs) i = true := by simp [gcMust, hx]
      rw [hl, hm, krLt_irrefl]
      simp only [Bool.false_eq_true, if_false, if_true, List.drop_succ_cons, List.drop_zero]
      exact gcWalk_honest tail is gs acc hs' (sublist_tail_of_cons hR)
    · have hR' : (x :: gs).Sublist (is.map kr) := sublist_of_cons_ne hR hx
      rw [gcSplit_cons_ne x gs i is hx]
      have hkeys := gcSplit_keys is (x :: gs) hR'
      cases hk : (gcSplit (x :: gs) is).1 with
      | nil => rw [hk] at hkeys; cases hkeys
      | cons out os =>
        have hout : out ∈ is := (gcSplit_sublist is (x :: gs)).subset (by rw [hk]; exact List.mem_cons_self)
        have hio : krLt (kr i) (kr out) = true := List.rel_of_pairwise_cons hs hout
        have hl : gcLess (x :: gs) i = false := by
          simp only [gcLess]
          exact krLt_asymm _ _ (after_head hs hR' List.mem_cons_self)
        have hm : gcMust (x :: gs) i = false := by simp [gcMust, hx]
        rw [gcWalk_cons_cons, hl, hio, hm]
        simp only [Bool.false_eq_true, if_false, if_true]
        have ih := gcWalk_honest tail is (x :: gs) (g.add acc (h i)) hs' hR'
        rw [hk] at ih
        rw [ih, total_cons, g.add_assoc]

end Blue.VerifyOne

#print axioms Blue.VerifyOne.gcWalk_sound
#print axioms Blue.VerifyOne.gcWalk_retains
#print axioms Blue.VerifyOne.gcWalk_honest
