import Blue.Proofs.BlockBytes
/-! `Block::load` and `Sst::load`: `seek(key)`, then step forward while the entry is before
    `(key, timestamp)` in the `KeyRef` order.  On a sorted table this finds the first entry at or
    after `(key, timestamp)`, which — when its key is the key asked for — is the newest version not
    newer than the timestamp. -/
namespace Blue.Sst
open Blue.Block Blue.BlockCursor Blue.Cursor

/-- "at or after `(k, ts)`" in the `KeyRef` order -/
def notBefore (k : List Nat) (ts : Nat) (e : KV) : Bool := !keyRefLt e.key e.ts k ts

/-- the scan of `load`, on the reference cursor -/
def refScan (k : List Nat) (ts : Nat) : Nat → Ref KV → Ref KV
  | 0, c => c
  | f+1, c =>
    match c.kv with
    | some e => if keyRefLt e.key e.ts k ts then refScan k ts f c.next else c
    | none => c

/-- `load` on the reference cursor -/
def refLoad (es : List KV) (k : List Nat) (ts : Nat) : Loaded :=
  loadedOf k (refScan k ts (es.length + 1) (Ref.seek (atOrAfter k) ⟨es, 0⟩)).kv

/-- what `load` is for: the first entry at or after `(k, ts)` -/
def loadSpec (es : List KV) (k : List Nat) (ts : Nat) : Loaded :=
  loadedOf k (es.find? (notBefore k ts))

/-! ### the specification says "newest version not newer than the timestamp" -/
theorem keyRefLt_same_key (k : List Nat) (t1 t2 : Nat) : keyRefLt k t1 k t2 = decide (t2 < t1) := by
  simp [keyRefLt, keyLt_irrefl]

/-- **C10** on a sorted table the first entry at or after `(k, ts)`, if it carries the key `k`,
    is the newest version of `k` not newer than `ts`; if it carries another key (or there is no
    such entry) then `k` has no version at or below `ts` -/
theorem first_notBefore_is_newest {es : List KV} (hs : Sorted es) (k : List Nat) (ts : Nat) :
    match es.find? (notBefore k ts) with
    | some e =>
      (e.key = k → e ∈ es ∧ e.ts ≤ ts ∧ ∀ e' ∈ es, e'.key = k → e'.ts ≤ ts → e'.ts ≤ e.ts)
      ∧ (e.key ≠ k → ∀ e' ∈ es, e'.key = k → ¬ e'.ts ≤ ts)
    | none => ∀ e' ∈ es, e'.key = k → ¬ e'.ts ≤ ts := by
  cases hf : es.find? (notBefore k ts) with
  | none =>
    simp only
    intro e' he' hk hle
    have := List.find?_eq_none.mp hf e' he'
    simp only [notBefore, Bool.not_eq_true, Bool.not_eq_false'] at this
    rw [hk, keyRefLt_same_key] at this
    simp only [decide_eq_true_eq] at this
    omega
  | some e =>
    simp only
    obtain ⟨hpe, as, bs, hsplit, hbefore⟩ := List.find?_eq_some_iff_append.mp hf
    have hmem : e ∈ es := by rw [hsplit]; simp
    simp only [notBefore, Bool.not_eq_true', Bool.not_eq_false'] at hpe
    have hsp : Sorted (as ++ e :: bs) := by rw [← hsplit]; exact hs
    have hpw := List.pairwise_append.mp hsp
    have hafter : ∀ x ∈ bs, KV.lt e x = true := (List.pairwise_cons.mp hpw.2.1).1
    have hbef : ∀ x ∈ as, keyRefLt x.key x.ts k ts = true := by
      intro x hx
      have := hbefore x hx
      simpa [notBefore] using this
    constructor
    · intro hk
      refine ⟨hmem, ?_, ?_⟩
      · rw [hk, keyRefLt_same_key] at hpe
        simp only [decide_eq_false_iff_not] at hpe
        omega
      · intro e' he' hk' hle
        rw [hsplit, List.mem_append, List.mem_cons] at he'
        rcases he' with h | h | h
        · have := hbef e' h
          rw [hk', keyRefLt_same_key] at this
          simp only [decide_eq_true_eq] at this
          omega
        · rw [h]; omega
        · have := hafter e' h
          unfold KV.lt at this
          rw [hk, hk', keyRefLt_same_key] at this
          simp only [decide_eq_true_eq] at this
          omega
    · intro hk e' he' hk' hle
      rw [hsplit, List.mem_append, List.mem_cons] at he'
      rcases he' with h | h | h
      · have := hbef e' h
        rw [hk', keyRefLt_same_key] at this
        simp only [decide_eq_true_eq] at this
        omega
      · rw [h] at hk'; exact hk hk'
      · -- (k, ts) ≤ e < e' = (k, ·): the keys are squeezed together
        have h1 := not_keyRefLt_key hpe            -- ¬ e.key < k
        have h2 := keyRefLt_key (hafter e' h)      -- ¬ e'.key < e.key
        rw [hk'] at h2
        apply hk
        false_or_by_contra
        rename_i hne
        rcases keyLt_total e.key k hne with h3 | h3
        · rw [h3] at h1; cases h1
        · rw [h3] at h2; cases h2

/-! ### the reference scan finds that entry -/
theorem ref_kv_at (es : List KV) (i : Nat) : (Ref.mk es (i + 1)).kv = es[i]? := by
  simp [Ref.kv]

/-- from position `i+1`, if the entries `i … j-1` are before the target and entry `j` (if any) is
    not, the scan stops at position `j+1` -/
theorem refScan_to (k : List Nat) (ts : Nat) (es : List KV) :
    ∀ (d i j f : Nat), j = i + d → j ≤ es.length → d < f →
      (∀ x, i ≤ x → x < j → ∀ e, es[x]? = some e → keyRefLt e.key e.ts k ts = true) →
      (∀ e, es[j]? = some e → keyRefLt e.key e.ts k ts = false) →
      refScan k ts f ⟨es, i + 1⟩ = ⟨es, j + 1⟩ := by
  intro d
  induction d with
  | zero =>
    intro i j f hj hjn hf _ hstop
    have : j = i := by omega
    subst this
    obtain ⟨f', rfl⟩ : ∃ f', f = f' + 1 := ⟨f - 1, by omega⟩
    simp only [refScan, ref_kv_at]
    cases he : es[j]? with
    | none => rfl
    | some e => simp [hstop e he]
  | succ d ih =>
    intro i j f hj hjn hf hlt hstop
    obtain ⟨f', rfl⟩ : ∃ f', f = f' + 1 := ⟨f - 1, by omega⟩
    simp only [refScan, ref_kv_at]
    have hi : i < es.length := by omega
    have he : es[i]? = some es[i] := List.getElem?_eq_getElem hi
    rw [he]
    simp only [hlt i (by omega) (by omega) _ he, if_true]
    have hn : (Ref.mk es (i + 1)).next = ⟨es, i + 1 + 1⟩ := by
      simp only [Ref.next]
      have : i + 1 ≤ es.length := by omega
      simp [this]
    rw [hn]
    exact ih (i + 1) j f' (by omega) hjn (by omega) (fun x hx1 hx2 => hlt x (by omega) hx2) hstop

theorem notBefore_mono {es : List KV} (hs : Sorted es) (k : List Nat) (ts : Nat) :
    ∀ (i j : Nat) (ei ej : KV), i ≤ j → es[i]? = some ei → es[j]? = some ej →
      notBefore k ts ei = true → notBefore k ts ej = true := by
  intro i j ei ej hij hi hj hp
  rcases Nat.lt_or_ge i j with h | h
  · obtain ⟨hi', e1⟩ := List.getElem?_eq_some_iff.mp hi
    obtain ⟨hj', e2⟩ := List.getElem?_eq_some_iff.mp hj
    have hlt := List.pairwise_iff_getElem.mp hs i j hi' hj' h
    rw [e1, e2] at hlt
    simp only [notBefore, Bool.not_eq_true', Bool.not_eq_false'] at hp ⊢
    cases hc : keyRefLt ej.key ej.ts k ts with
    | false => rfl
    | true =>
      have := keyRefLt_trans (show keyRefLt ei.key ei.ts ej.key ej.ts = true from hlt) hc
      rw [this] at hp; cases hp
  · have : i = j := by omega
    subst this; rw [hi] at hj; cases hj; exact hp

/-- an entry at or after `(k, ts)` has a key at or after `k` -/
theorem notBefore_atOrAfter (k : List Nat) (ts : Nat) (e : KV) (h : notBefore k ts e = true) :
    atOrAfter k e = true := by
  simp only [notBefore, Bool.not_eq_true', Bool.not_eq_false'] at h
  simp only [atOrAfter, Bool.not_eq_true']
  exact not_keyRefLt_key h

/-- an entry whose key is before `k` is before `(k, ts)` -/
theorem before_key_before (k : List Nat) (ts : Nat) (e : KV) (h : atOrAfter k e = false) :
    keyRefLt e.key e.ts k ts = true := by
  simp only [atOrAfter, Bool.not_eq_false'] at h
  simp [keyRefLt, h]

theorem findIdx_le_of_imp {α : Type} (p q : α → Bool) (himp : ∀ x, q x = true → p x = true) :
    ∀ (l : List α), l.findIdx p ≤ l.findIdx q
  | [] => by simp
  | x :: xs => by
    simp only [List.findIdx_cons]
    cases hq : q x with
    | true => simp [himp x hq]
    | false =>
      cases hp : p x with
      | true => simp
      | false => simp; exact findIdx_le_of_imp p q himp xs

/-- **C10** `load` on the reference cursor is the specification -/
theorem refLoad_eq_spec {es : List KV} (hs : Sorted es) (k : List Nat) (ts : Nat) :
    refLoad es k ts = loadSpec es k ts := by
  unfold refLoad loadSpec
  congr 1
  have hij : es.findIdx (atOrAfter k) ≤ es.findIdx (notBefore k ts) :=
    findIdx_le_of_imp _ _ (notBefore_atOrAfter k ts) es
  have hjn : es.findIdx (notBefore k ts) ≤ es.length := List.findIdx_le_length
  have hscan := refScan_to k ts es (es.findIdx (notBefore k ts) - es.findIdx (atOrAfter k))
    (es.findIdx (atOrAfter k)) (es.findIdx (notBefore k ts)) (es.length + 1) (by omega) hjn (by omega)
    (by
      intro x _ hx2 e he
      have := List.not_of_lt_findIdx hx2
      obtain ⟨hx', e1⟩ := List.getElem?_eq_some_iff.mp he
      simp only [e1] at this
      simpa [notBefore] using this)
    (by
      intro e he
      obtain ⟨hx', e1⟩ := List.getElem?_eq_some_iff.mp he
      have := List.findIdx_getElem (w := hx')
      rw [e1] at this
      simpa [notBefore] using this)
  show (refScan k ts (es.length + 1) ⟨es, es.findIdx (atOrAfter k) + 1⟩).kv = _
  rw [hscan, ref_kv_at]
  -- es[findIdx p]? = find? p
  induction es with
  | nil => rfl
  | cons x xs _ =>
    clear hscan hij hjn
    have : ∀ (l : List KV), l[l.findIdx (notBefore k ts)]? = l.find? (notBefore k ts) := by
      intro l
      induction l with
      | nil => rfl
      | cons y ys ih =>
        cases hy : notBefore k ts y with
        | true => simp [List.findIdx_cons, List.find?_cons, hy]
        | false => simp [List.findIdx_cons, List.find?_cons, hy, ih]
    exact this _

/-! ### the block cursor's `load` -/
theorem bscan_rel {b : DBlock KV} (wf : WfBlock b) (k : List Nat) (ts : Nat) :
    ∀ (f : Nat) (pos : Pos) (p : Nat), BRel b pos p →
      (bscan k ts f ⟨b, pos⟩).blk = b
      ∧ BRel b (bscan k ts f ⟨b, pos⟩).pos (refScan k ts f ⟨b.entries, p⟩).pos
      ∧ (refScan k ts f ⟨b.entries, p⟩).xs = b.entries := by
  intro f
  induction f with
  | zero => intro pos p h; exact ⟨rfl, h, rfl⟩
  | succ f ih =>
    intro pos p h
    simp only [bscan, refScan]
    rw [brel_kv h]
    cases hkv : (Ref.mk b.entries p).kv with
    | none => exact ⟨rfl, h, rfl⟩
    | some e =>
      simp only
      cases hc : keyRefLt e.key e.ts k ts with
      | false =>
        refine ⟨?_, ?_, ?_⟩ <;> simp only [Bool.false_eq_true, if_false] <;> first | rfl | exact h
      | true =>
        simp only [if_true]
        obtain ⟨h1, h2⟩ := next_rel wf h
        have e1 : BlockCursor.next ⟨b, pos⟩ = ⟨b, (BlockCursor.next ⟨b, pos⟩).pos⟩ := bcur_eta _ h1
        have e2 : (Ref.mk b.entries p).next = ⟨b.entries, (Ref.mk b.entries p).next.pos⟩ := by
          simp only [Ref.next]; split <;> rfl
        rw [e1, e2]
        exact ih _ _ h2

/-- **C10** `Block::load` over a well-formed sorted block is the specification: the newest
    version of the key not newer than the timestamp, or its tombstone, or absent -/
theorem bload_eq_spec {b : DBlock KV} (wf : WfBlock b) (hs : Sorted b.entries) (k : List Nat) (ts : Nat) :
    bload b k ts = loadSpec b.entries k ts := by
  rw [← refLoad_eq_spec hs]
  show loadedOf k (kv (bscan k ts (b.entries.length + 1) (BlockCursor.seek (atOrAfter k) ⟨b, .first⟩)))
    = loadedOf k (refScan k ts (b.entries.length + 1) (Ref.seek (atOrAfter k) ⟨b.entries, 0⟩)).kv
  congr 1
  obtain ⟨h1, h2⟩ := seek_rel wf (atOrAfter k) (sorted_monoAlong hs k) .first
  have e1 : BlockCursor.seek (atOrAfter k) ⟨b, .first⟩ = ⟨b, (BlockCursor.seek (atOrAfter k) ⟨b, .first⟩).pos⟩ :=
    bcur_eta _ h1
  rw [e1]
  obtain ⟨h3, h4, h5⟩ := bscan_rel wf k ts (b.entries.length + 1) _ _ h2
  have e2 : bscan k ts (b.entries.length + 1) ⟨b, (BlockCursor.seek (atOrAfter k) ⟨b, .first⟩).pos⟩
      = ⟨b, (bscan k ts (b.entries.length + 1) ⟨b, (BlockCursor.seek (atOrAfter k) ⟨b, .first⟩).pos⟩).pos⟩ :=
    bcur_eta _ h3
  rw [e2, brel_kv h4]
  have e3 : Ref.seek (atOrAfter k) ⟨b.entries, 0⟩ = ⟨b.entries, b.entries.findIdx (atOrAfter k) + 1⟩ := rfl
  rw [e3]
  congr 1
  cases hh : refScan k ts (b.entries.length + 1) ⟨b.entries, b.entries.findIdx (atOrAfter k) + 1⟩ with
  | mk xs pos => rw [hh] at h5; simp only at h5; subst h5; rfl

/-! ### the table cursor's `load` -/
theorem sscan_rel (L : List (List KV)) (D : List KV) (hne : ∀ blk ∈ L, blk ≠ []) (k : List Nat) (ts : Nat) :
    ∀ (f m : Nat) (bc : Option (Ref KV)) (p : Nat), SRel L m bc p →
      ∃ m' bc', sscan k ts f ⟨L, D, m, bc⟩ = ⟨L, D, m', bc'⟩
        ∧ SRel L m' bc' (refScan k ts f ⟨L.flatten, p⟩).pos
        ∧ (refScan k ts f ⟨L.flatten, p⟩).xs = L.flatten := by
  intro f
  induction f with
  | zero => intro m bc p h; exact ⟨m, bc, rfl, h, rfl⟩
  | succ f ih =>
    intro m bc p h
    simp only [sscan, refScan]
    rw [srel_kv h D]
    cases hkv : (Ref.mk L.flatten p).kv with
    | none => exact ⟨m, bc, rfl, h, rfl⟩
    | some e =>
      simp only
      cases hc : keyRefLt e.key e.ts k ts with
      | false =>
        refine ⟨m, bc, ?_, ?_, ?_⟩ <;> simp only [Bool.false_eq_true, if_false] <;> first | rfl | exact h
      | true =>
        simp only [if_true]
        obtain ⟨m', bc', h1, h2⟩ := Blue.Cursor.next_rel L D hne h
        have e1 : sstep ⟨L, D, m, bc⟩ .next = ⟨L, D, m', bc'⟩ := h1
        have e2 : (Ref.mk L.flatten p).next = ⟨L.flatten, (Ref.mk L.flatten p).next.pos⟩ := by
          simp only [Ref.next]; split <;> rfl
        rw [e1, e2]
        exact ih _ _ _ h2

/-- **C10** `Sst::load` over non-empty blocks of a sorted table with separating dividers is the
    specification (given a bloom filter without false negatives — a parameter of the model) -/
theorem table_load_eq_spec (t : Table) (hne : ∀ blk ∈ t.blocks, blk ≠ [])
    (hs : Sorted t.blocks.flatten) (k : List Nat) (ts : Nat)
    (hd : DivOk t.blocks t.dividers (atOrAfter k)) :
    t.load k ts = loadSpec t.blocks.flatten k ts := by
  rw [← refLoad_eq_spec hs]
  show loadedOf k (sscan k ts (t.blocks.flatten.length + 1) (sstep ⟨t.blocks, t.dividers, 0, none⟩ (.seek k))).kv
    = loadedOf k (refScan k ts (t.blocks.flatten.length + 1) (Ref.seek (atOrAfter k) ⟨t.blocks.flatten, 0⟩)).kv
  congr 1
  obtain ⟨m, bc, h1, h2⟩ := Blue.Cursor.seek_rel t.blocks t.dividers hne (atOrAfter k) hd 0 none 0
  have e1 : sstep ⟨t.blocks, t.dividers, 0, none⟩ (.seek k) = ⟨t.blocks, t.dividers, m, bc⟩ := h1
  rw [e1]
  obtain ⟨m', bc', h3, h4, h5⟩ := sscan_rel t.blocks t.dividers hne k ts (t.blocks.flatten.length + 1) m bc _ h2
  rw [h3, srel_kv h4 t.dividers]
  have e3 : Ref.seek (atOrAfter k) ⟨t.blocks.flatten, 0⟩
      = ⟨t.blocks.flatten, t.blocks.flatten.findIdx (atOrAfter k) + 1⟩ := rfl
  rw [e3]
  have e4 : (Ref.seek (atOrAfter k) ⟨t.blocks.flatten, 0⟩).pos = t.blocks.flatten.findIdx (atOrAfter k) + 1 := rfl
  rw [e4] at h4 h5
  congr 1
  cases hh : refScan k ts (t.blocks.flatten.length + 1) ⟨t.blocks.flatten, t.blocks.flatten.findIdx (atOrAfter k) + 1⟩ with
  | mk xs pos => rw [hh] at h5; simp only at h5; subst h5; rfl

end Blue.Sst
