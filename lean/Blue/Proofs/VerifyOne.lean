import Blue.Model.VerifyOne
import Blue.Proofs.Ledger
/-! **C04** what an accepted edit / fragment says (`verifyEdit`, `verifyFragment` of
    `Blue.VerifyOne`), over any commutative group. -/
namespace Blue.VerifyOne
open Blue.Books
open Blue.Mani (Edit)
open Blue.Verifier (Name getInfo)
open Blue.Compact (Entry)

variable {G : Type}

/-- the operations of a commutative group -/
def opsOf (g : Grp G) : Ops G := ⟨g.add, g.neg, g.zero⟩

/-! ### a little group algebra -/
section Algebra
variable (g : Grp G)

theorem neg_neg (x : G) : g.neg (g.neg x) = x := by
  have h1 := g.add_neg (g.neg x)
  have h2 := g.add_neg x
  calc g.neg (g.neg x) = g.add g.zero (g.neg (g.neg x)) := (zero_add g _).symm
    _ = g.add (g.add x (g.neg x)) (g.neg (g.neg x)) := by rw [h2]
    _ = g.add x (g.add (g.neg x) (g.neg (g.neg x))) := g.add_assoc _ _ _
    _ = g.add x g.zero := by rw [h1]
    _ = x := g.add_zero x

theorem neg_add (x y : G) : g.neg (g.add x y) = g.add (g.neg x) (g.neg y) := by
  have h : g.add (g.add x y) (g.add (g.neg x) (g.neg y)) = g.zero := by
    rw [g.add_assoc, ← g.add_assoc y, g.add_comm y (g.neg x), g.add_assoc (g.neg x), g.add_neg, g.add_zero,
      g.add_neg]
  calc g.neg (g.add x y) = g.add (g.neg (g.add x y)) g.zero := (g.add_zero _).symm
    _ = g.add (g.neg (g.add x y)) (g.add (g.add x y) (g.add (g.neg x) (g.neg y))) := by rw [h]
    _ = g.add (g.add (g.neg (g.add x y)) (g.add x y)) (g.add (g.neg x) (g.neg y)) := (g.add_assoc _ _ _).symm
    _ = g.add g.zero (g.add (g.neg x) (g.neg y)) := by rw [g.add_comm (g.neg (g.add x y)), g.add_neg]
    _ = g.add (g.neg x) (g.neg y) := zero_add g _

theorem neg_zero : g.neg g.zero = g.zero := by
  have := g.add_neg g.zero
  rwa [zero_add] at this

theorem sub_self (x : G) : g.sub x x = g.zero := g.add_neg x

theorem sub_zero (x : G) : g.sub x g.zero = x := by
  unfold Grp.sub; rw [neg_zero, g.add_zero]

/-- `a = b + d ↔ a − d = b` -/
theorem eq_add_iff_sub_eq (a b d : G) : a = g.add b d ↔ g.sub a d = b := by
  constructor
  · intro h; rw [h]; exact add_sub_cancel g b d
  · intro h; rw [← h]; exact (sub_add_cancel g a d).symm

theorem add_left_comm (a b c : G) : g.add a (g.add b c) = g.add b (g.add a c) := by
  rw [← g.add_assoc, g.add_comm a b, g.add_assoc]

/-- `(x + k) − k' = x + (k − k')`-style cancellations used below: `(k + d) − k = d` -/
theorem add_sub_cancel_left (k d : G) : g.sub (g.add k d) k = d := by
  rw [g.add_comm k d]; exact add_sub_cancel g d k

theorem foldl_add (l : List G) : ∀ z : G, l.foldl (fun c s => g.add c s) z = g.add z (total g id l) := by
  induction l with
  | nil => intro z; exact (g.add_zero z).symm
  | cons a t ih => intro z; simp only [List.foldl_cons, ih, total_cons, id, g.add_assoc]

theorem foldl_sub (l : List G) : ∀ z : G, l.foldl (fun c s => g.sub c s) z = g.sub z (total g id l) := by
  induction l with
  | nil => intro z; exact (sub_zero g z).symm
  | cons a t ih =>
    intro z
    simp only [List.foldl_cons, ih, total_cons, id]
    unfold Grp.sub
    rw [neg_add, g.add_assoc]

/-- the `computed_discard` of the code is Σ removed − Σ added -/
theorem computed_eq (adds rms : List G) :
    computed (opsOf g) adds rms = computedDiscard g id rms adds := by
  unfold computed computedDiscard
  show rms.foldl (fun c s => g.add c s) (adds.foldl (fun c s => g.sub c s) g.zero) = _
  rw [foldl_sub, foldl_add]
  unfold Grp.sub
  rw [zero_add, g.add_comm]

/-- the cursor walk of `verify_contents` computes the sum over the entries -/
theorem setsumOf_eq (h : Entry → G) (f : File) : setsumOf (opsOf g) h f = total g h f := by
  unfold setsumOf
  have : ∀ (l : List Entry) (z : G), l.foldl (fun a e => g.add a (h e)) z = g.add z (total g h l) := by
    intro l
    induction l with
    | nil => intro z; exact (g.add_zero z).symm
    | cons a t ih => intro z; simp only [List.foldl_cons, ih, total_cons, g.add_assoc]
  show f.foldl (fun a e => g.add a (h e)) g.zero = _
  rw [this, zero_add]

theorem total_map {A : Type} (s : A → G) (l : List A) : total g id (l.map s) = total g s l := by
  induction l with
  | nil => rfl
  | cons a t ih => simp only [List.map_cons, total_cons, ih, id]

theorem total_flatten (h : Entry → G) (fs : List File) :
    total g h fs.flatten = total g (fun f => total g h f) fs := by
  induction fs with
  | nil => rfl
  | cons f t ih => simp only [List.flatten_cons, total_append, total_cons, ih]

end Algebra

/-! ### the parts of `verify_one` -/
variable [DecidableEq G]

/-- the file named `s` is there and its entries sum to `s` -/
def ContentsOk (env : Env G) (s : G) : Prop :=
  ∃ f, env.fs s = some f ∧ setsumOf env.ops env.h f = s

theorem verifyContents_ok (env : Env G) (s : G) : verifyContents env s = .ok () ↔ ContentsOk env s := by
  unfold verifyContents ContentsOk
  cases hf : env.fs s with
  | none => simp
  | some f =>
    by_cases hs : setsumOf env.ops env.h f = s
    · simp [hs]
    · simp [hs]

theorem verifyContents_cases (env : Env G) (s : G) :
    verifyContents env s = .ok () ∨ verifyContents env s = .error .notFound
      ∨ verifyContents env s = .error .contents := by
  unfold verifyContents
  cases env.fs s with
  | none => right; left; rfl
  | some f => by_cases hs : setsumOf env.ops env.h f = s <;> simp [hs]

/-- `Setsum::from_hexdigest` on every string of a list -/
def parseAll (env : Env G) : List Name → Option (List G)
  | [] => some []
  | x :: t =>
    match env.parse x, parseAll env t with
    | some s, some ss => some (s :: ss)
    | _, _ => none

theorem scan_first (env : Env G) : ∀ (names : List Name) (ss : List G),
    scan env true names = .ok ss ↔ parseAll env names = some ss := by
  intro names
  induction names with
  | nil => intro ss; simp [scan, parseAll, eq_comm]
  | cons x t ih =>
    intro ss
    simp only [scan, parseAll]
    cases hp : env.parse x with
    | none => simp
    | some s =>
      simp only [if_true]
      cases hs : scan env true t with
      | error e =>
        cases hq : parseAll env t with
        | none => simp
        | some ss' => exact absurd ((ih ss').mpr hq) (by rw [hs]; simp)
      | ok ss' =>
        rw [(ih ss').mp hs]
        simp

/-- a loop of `verify_one` over the added / removed strings of an edit other than the first goes
    through iff every string is a digest and every file named holds what its name says -/
theorem scan_ok (env : Env G) : ∀ (names : List Name) (ss : List G),
    scan env false names = .ok ss ↔ parseAll env names = some ss ∧ ∀ s ∈ ss, ContentsOk env s := by
  intro names
  induction names with
  | nil =>
    intro ss
    simp only [scan, parseAll, Except.ok.injEq, Option.some.injEq]
    constructor
    · intro h; subst h; exact ⟨rfl, fun _ h => by cases h⟩
    · intro h; exact h.1
  | cons x t ih =>
    intro ss
    simp only [scan, parseAll]
    cases hp : env.parse x with
    | none => simp
    | some s =>
      simp only [Bool.false_eq_true, if_false]
      cases hv : verifyContents env s with
      | error e =>
        have hno : ¬ ContentsOk env s := by
          intro hc; rw [(verifyContents_ok env s).mpr hc] at hv; cases hv
        constructor
        · intro h; cases h
        intro ⟨h1, h2⟩
        exfalso
        cases hq : parseAll env t with
        | none => rw [hq] at h1; cases h1
        | some ss' =>
          rw [hq] at h1
          simp only [Option.some.injEq] at h1
          subst h1
          exact hno (h2 s List.mem_cons_self)
      | ok u =>
        have hc : ContentsOk env s := (verifyContents_ok env s).mp (by rw [hv])
        cases hs : scan env false t with
        | error e =>
          constructor
          · intro h; cases h
          intro ⟨h1, h2⟩
          exfalso
          cases hq : parseAll env t with
          | none => rw [hq] at h1; cases h1
          | some ss' =>
            rw [hq] at h1
            simp only [Option.some.injEq] at h1
            subst h1
            have := (ih ss').mpr ⟨hq, fun s' hs' => h2 s' (List.mem_cons_of_mem _ hs')⟩
            rw [hs] at this; cases this
        | ok ss' =>
          obtain ⟨hq, hall⟩ := (ih ss').mp hs
          rw [hq]
          simp only [Except.ok.injEq, Option.some.injEq]
          constructor
          · intro h; subst h
            refine ⟨rfl, ?_⟩
            intro s' hs'
            rcases List.mem_cons.mp hs' with rfl | hs'
            · exact hc
            · exact hall s' hs'
          · intro h; exact h.1

/-- what `finishEdit` asks for -/
theorem finishEdit_ok (env : Env G) (e : Edit) (acc D acc' : G) (adds rms : List G) :
    finishEdit env e acc D adds rms = .ok acc' ↔
      logOk e = true ∧ D = computed env.ops adds rms
        ∧ (D ≠ env.ops.zero ∧ rms ≠ [] → verifyGc env rms adds D = .ok ())
        ∧ acc' = env.ops.sub acc (computed env.ops adds rms) := by
  unfold finishEdit
  cases hl : logOk e with
  | false => simp
  | true =>
    simp only [Bool.not_true, Bool.false_eq_true, if_false, true_and]
    by_cases hd : D = computed env.ops adds rms
    · simp only [hd, ne_eq, not_true_eq_false, if_false, true_and]
      by_cases hg : computed env.ops adds rms ≠ env.ops.zero ∧ rms ≠ []
      · rw [if_pos hg]
        cases hv : verifyGc env rms adds (computed env.ops adds rms) with
        | error f => simp [hg]
        | ok u => simp [eq_comm]
      · rw [if_neg hg]
        simp only [Except.ok.injEq]
        constructor
        · intro h; exact ⟨fun h' => absurd h' hg, h.symm⟩
        · intro h; exact h.2.symm
    · simp [hd]

/-- an accepted edit other than the first, unpacked -/
theorem verifyEdit_ok (env : Env G) (acc : G) (e : Edit) (acc' o : G) :
    verifyEdit env false acc e = .ok (acc', o) ↔
      ∃ D adds rms, info env e 73 = .ok acc ∧ info env e 79 = .ok o ∧ info env e 68 = .ok D
        ∧ acc = env.ops.add o D
        ∧ scan env false e.add = .ok adds ∧ scan env false e.rm = .ok rms
        ∧ finishEdit env e acc D adds rms = .ok acc' := by
  constructor
  · intro h
    unfold verifyEdit at h
    cases hI : info env e 73 with
    | error f => rw [hI] at h; cases h
    | ok I =>
      cases hO : info env e 79 with
      | error f => rw [hI, hO] at h; cases h
      | ok O =>
        cases hD : info env e 68 with
        | error f => rw [hI, hO, hD] at h; cases h
        | ok D =>
          rw [hI, hO, hD] at h
          simp only [Bool.false_and, Bool.false_eq_true, if_false, Bool.not_false, Bool.true_and,
            decide_eq_true_eq] at h
          by_cases h1 : I = acc
          · by_cases h2 : I = env.ops.add O D
            · rw [if_neg (fun hh => hh h1), if_neg (fun hh => hh h2)] at h
              cases ha : scan env false e.add with
              | error f => rw [ha] at h; cases h
              | ok adds =>
                cases hr : scan env false e.rm with
                | error f => rw [ha, hr] at h; cases h
                | ok rms =>
                  rw [ha, hr] at h
                  simp only at h
                  cases hf : finishEdit env e acc D adds rms with
                  | error f => rw [hf] at h; cases h
                  | ok a =>
                    rw [hf] at h
                    simp only [Except.ok.injEq, Prod.mk.injEq] at h
                    obtain ⟨h3, h4⟩ := h
                    subst h1 h3 h4
                    exact ⟨D, adds, rms, rfl, rfl, rfl, h2, rfl, rfl, hf⟩
            · rw [if_neg (fun hh => hh h1), if_pos h2] at h; cases h
          · rw [if_pos h1] at h; cases h
  · intro ⟨D, adds, rms, hI, hO, hD, hb, ha, hr, hf⟩
    unfold verifyEdit
    rw [hI, hO, hD]
    simp only [Bool.false_and, Bool.false_eq_true, if_false, Bool.not_false, Bool.true_and,
      decide_eq_true_eq, ne_eq, not_true_eq_false]
    rw [if_neg (fun hh => hh hb), ha, hr]
    simp only [hf]

/-- the first edit of a fragment: its `O` is the accumulator, its digests parse; nothing is read -/
theorem verifyEdit_first_ok (env : Env G) (acc : G) (e : Edit) (acc' o : G) :
    verifyEdit env true acc e = .ok (acc', o) ↔
      (∃ I D adds rms, info env e 73 = .ok I ∧ info env e 79 = .ok acc ∧ info env e 68 = .ok D
        ∧ parseAll env e.add = some adds ∧ parseAll env e.rm = some rms) ∧ acc' = acc ∧ o = acc := by
  constructor
  · intro h
    unfold verifyEdit at h
    cases hI : info env e 73 with
    | error f => rw [hI] at h; cases h
    | ok I =>
      cases hO : info env e 79 with
      | error f => rw [hI, hO] at h; cases h
      | ok O =>
        cases hD : info env e 68 with
        | error f => rw [hI, hO, hD] at h; cases h
        | ok D =>
          rw [hI, hO, hD] at h
          simp only [Bool.true_and, decide_eq_true_eq, Bool.not_true, Bool.false_and, Bool.false_eq_true,
            if_false, if_true] at h
          by_cases h1 : O = acc
          · rw [if_neg (fun hh => hh h1)] at h
            cases ha : scan env true e.add with
            | error f => rw [ha] at h; cases h
            | ok adds =>
              cases hr : scan env true e.rm with
              | error f => rw [ha, hr] at h; cases h
              | ok rms =>
                rw [ha, hr] at h
                simp only [Except.ok.injEq, Prod.mk.injEq] at h
                obtain ⟨h3, h4⟩ := h
                subst h1 h3
                exact ⟨⟨I, D, adds, rms, rfl, rfl, rfl, (scan_first env _ _).mp ha, (scan_first env _ _).mp hr⟩, rfl, h4.symm⟩
          · rw [if_pos h1] at h; cases h
  · intro ⟨⟨I, D, adds, rms, hI, hO, hD, ha, hr⟩, h3, h4⟩
    subst h3 h4
    unfold verifyEdit
    rw [hI, hO, hD]
    simp only [Bool.true_and, decide_eq_true_eq, Bool.not_true, Bool.false_and, Bool.false_eq_true,
      if_false, if_true, ne_eq, not_true_eq_false]
    rw [(scan_first env _ _).mpr ha, (scan_first env _ _).mpr hr]

end Blue.VerifyOne
