import Blue.Model.Damage
import Blue.Proofs.SstOpen
/-! Theorems about damage steps and about the log / manifest readers on hostile bytes (C09). -/
namespace Blue.Damage
open Blue.Log Blue.Mani

/-! ### damage steps that keep the length: bit flips and byte overwrites -/

/-- the step is a flip or an overwrite at an offset below `a` -/
def Dmg.Below (a : Nat) : Dmg → Prop
  | .flip off _ => off < a
  | .over off _ => off < a
  | _ => False

theorem apply_flip (bs : List Nat) (off bit : Nat) :
    apply bs (.flip off bit) = match bs[off]? with
      | some b => bs.set off (flipBit b bit)
      | none => bs := rfl
theorem apply_over (bs : List Nat) (off v : Nat) :
    apply bs (.over off v) = if off < bs.length then bs.set off v else bs := rfl

theorem apply_below_length (bs : List Nat) (a : Nat) (d : Dmg) (h : d.Below a) : (apply bs d).length = bs.length := by
  cases d with
  | flip off bit => rw [apply_flip]; split <;> simp
  | over off v => rw [apply_over]; split <;> simp
  | trunc n => cases h
  | app s => cases h

theorem apply_below_get (bs : List Nat) (a : Nat) (d : Dmg) (h : d.Below a) (i : Nat) (hi : a ≤ i) :
    (apply bs d)[i]? = bs[i]? := by
  cases d with
  | flip off bit =>
    have : off ≠ i := by have : off < a := h; omega
    rw [apply_flip]; split
    · rw [List.getElem?_set_ne this]
    · rfl
  | over off v =>
    have : off ≠ i := by have : off < a := h; omega
    rw [apply_over]; split
    · rw [List.getElem?_set_ne this]
    · rfl
  | trunc n => cases h
  | app s => cases h

theorem applyAll_below (a : Nat) : ∀ (ds : List Dmg) (bs : List Nat), (∀ d ∈ ds, d.Below a) →
    (applyAll bs ds).length = bs.length ∧ ∀ i, a ≤ i → (applyAll bs ds)[i]? = bs[i]?
  | [], bs, _ => ⟨rfl, fun _ _ => rfl⟩
  | d :: ds, bs, h => by
    have hd := h d (List.mem_cons_self ..)
    obtain ⟨h1, h2⟩ := applyAll_below a ds (apply bs d) (fun x hx => h x (List.mem_cons_of_mem _ hx))
    unfold applyAll at h1 h2 ⊢
    rw [List.foldl_cons]
    exact ⟨by rw [h1, apply_below_length bs a d hd], fun i hi => by rw [h2 i hi, apply_below_get bs a d hd i hi]⟩

/-- **any number of bit flips and byte overwrites inside the data blocks**: the file still opens,
    to the same final block fields and the same index entries (the data blocks are read later,
    each behind its CRC: `Blue.SstOpen.sst_single_burst`) -/
theorem data_block_damage_opens (crc : List Nat → Nat) (f : List Nat) (t : Blue.SstOpen.Opened)
    (h : Blue.SstOpen.openSst crc f = .ok t) (a : Nat) (ha : a ≤ t.fin.index.start) (ha8 : a + 8 ≤ f.length)
    (ds : List Dmg) (hds : ∀ d ∈ ds, d.Below a) :
    Blue.SstOpen.openSst crc (applyAll f ds) = .ok { t with file := applyAll f ds } := by
  obtain ⟨hl, hg⟩ := applyAll_below a ds f hds
  exact Blue.SstOpen.openSst_tail crc f (applyAll f ds) t h hl a ha ha8 hg

/-! ### the log: D-11's mechanism -/

/-- **a zero where a header length is expected, within `HEADER_MAX_SIZE` of the end of a block, is
    padding**: the reader goes on at the block boundary whatever lies in between — in particular a
    frame whose length byte was overwritten with zero (D-11).  Farther from the boundary the same
    zero is an error. -/
theorem zero_length_is_padding (P : Params) (file : List Nat) (fuel off : Nat) (h0 : file[off]? = some 0) :
    nextHeader P file (fuel + 1) off =
      if trueUp P (off + 1) - (off + 1) > P.H then .err else nextHeader P file fuel (trueUp P (off + 1)) := by
  rw [nextHeader]
  simp only [h0, if_true]

/-! ### the manifest: which lines are guarded -/
variable (crc : List Nat → Nat)

/-- **an item line that is accepted matched its CRC**: the eight digits parse to the checksum of the
    rest of the line.  (The separator line carries no checksum.) -/
theorem item_line_guarded (line : List Nat) (h : parseLine crc line ≠ .corrupt) (hs : parseLine crc line ≠ .sep) :
    ∃ expected, parseHex8 (line.take 8) = some expected ∧ crc (line.drop 8) = expected := by
  unfold parseLine at h hs
  by_cases h1 : (line.any fun b => decide (b ≥ 128)) = true
  · simp only [if_pos h1] at h; exact absurd rfl h
  · simp only [if_neg h1] at h hs
    by_cases h2 : line = SEP
    · simp only [if_pos h2] at hs; exact absurd rfl hs
    · simp only [if_neg h2] at h
      by_cases h3 : line.length > 9
      · simp only [if_pos h3] at h
        cases hp : parseHex8 (line.take 8) with
        | none => rw [hp] at h; exact absurd rfl h
        | some expected =>
          rw [hp] at h
          simp only at h
          by_cases hc : crc (line.drop 8) ≠ expected
          · rw [if_pos hc] at h; exact absurd rfl h
          · exact ⟨expected, rfl, Decidable.not_not.mp hc⟩
      · simp only [if_neg h3] at h; exact absurd rfl h

end Blue.Damage
