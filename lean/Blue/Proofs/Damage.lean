import Blue.Model.Damage
import Blue.Proofs.SstOpen
import Blue.Proofs.LogZeroed
/-! Theorems about damage steps and about the log / manifest readers on hostile bytes (C09). -/
namespace Blue.Damage
open Blue.Log Blue.Mani

/-! ### damage steps that keep the length: bit flips and byte overwrites -/

/-- the step is a flip or an overwrite at an offset below `a` -/
def Dmg.Below (a : Nat) : Dmg → Prop
  | .flip off _ => off < a
  | .over off _ => off < a
  | _ => False

theorem apply_flip (bs : List Nat) (off bit : Nat) :
    apply bs (.flip off bit) = match bs[off]? with
      | some b => bs.set off (flipBit b bit)
      | none => bs := rfl
theorem apply_over (bs : List Nat) (off v : Nat) :
    apply bs (.over off v) = if off < bs.length then bs.set off v else bs := rfl

theorem apply_below_length (bs : List Nat) (a : Nat) (d : Dmg) (h : d.Below a) : (apply bs d).length = bs.length := by
  cases d with
  | flip off bit => rw [apply_flip]; split <;> simp
  | over off v => rw [apply_over]; split <;> simp
  | trunc n => cases h
  | app s => cases h

theorem apply_below_get (bs : List Nat) (a : Nat) (d : Dmg) (h : d.Below a) (i : Nat) (hi : a ≤ i) :
    (apply bs d)[i]? = bs[i]? := by
  cases d with
  | flip off bit =>
    have : off ≠ i := by have : off < a := h; omega
    rw [apply_flip]; split
    · rw [List.getElem?_set_ne this]
    · rfl
  | over off v =>
    have : off ≠ i := by have : off < a := h; omega
    rw [apply_over]; split
    · rw [List.getElem?_set_ne this]
    · rfl
  | trunc n => cases h
  | app s => cases h

theorem applyAll_below (a : Nat) : ∀ (ds : List Dmg) (bs : List Nat), (∀ d ∈ ds, d.Below a) →
    (applyAll bs ds).length = bs.length ∧ ∀ i, a ≤ i → (applyAll bs ds)[i]? = bs[i]?
  | [], bs, _ => ⟨rfl, fun _ _ => rfl⟩
  | d :: ds, bs, h => by
    have hd := h d (List.mem_cons_self ..)
    obtain ⟨h1, h2⟩ := applyAll_below a ds (apply bs d) (fun x hx => h x (List.mem_cons_of_mem _ hx))
    unfold applyAll at h1 h2 ⊢
    rw [List.foldl_cons]
    exact ⟨by rw [h1, apply_below_length bs a d hd], fun i hi => by rw [h2 i hi, apply_below_get bs a d hd i hi]⟩

/-- **any number of bit flips and byte overwrites inside the data blocks**: the file still opens,
    to the same final block fields and the same index entries (the data blocks are read later,
    each behind its CRC: `Blue.SstOpen.sst_single_burst`) -/
theorem data_block_damage_opens (crc : List Nat → Nat) (f : List Nat) (t : Blue.SstOpen.Opened)
    (h : Blue.SstOpen.openSst crc f = .ok t) (a : Nat) (ha : a ≤ t.fin.index.start) (ha8 : a + 8 ≤ f.length)
    (ds : List Dmg) (hds : ∀ d ∈ ds, d.Below a) :
    Blue.SstOpen.openSst crc (applyAll f ds) = .ok { t with file := applyAll f ds } := by
  obtain ⟨hl, hg⟩ := applyAll_below a ds f hds
  exact Blue.SstOpen.openSst_tail crc f (applyAll f ds) t h hl a ha ha8 hg

/-! ### the log: a zero where a header length is expected (D-11, repaired) -/

/-- **a zero where a header length is expected is padding only if everything up to the block
    boundary is zero**: within `HEADER_MAX_SIZE` of the boundary the reader reads the bytes it is
    about to skip and goes on at the boundary when those the file has are all zero (the writer's
    `true_up` writes nothing else; a file that ends inside the padding is a torn tail, not damage);
    farther from the boundary the zero is an error, as it always was. -/
theorem zero_length_is_checked_padding (P : Params) (file : List Nat) (fuel off : Nat) (h0 : file[off]? = some 0) :
    nextHeader P file (fuel + 1) off =
      if trueUp P (off + 1) - (off + 1) > P.H then .err
      else if !padZero file (off + 1) (trueUp P (off + 1)) then .err
      else nextHeader P file fuel (trueUp P (off + 1)) := by
  rw [nextHeader]
  simp only [h0, if_true]

/-- **a zero length byte followed by any non-zero byte before the block boundary is an error** —
    in particular a frame whose length byte was overwritten with zero (D-11: as found, the reader
    went on at the boundary and the frame was lost without a trace). -/
theorem zero_length_then_nonzero_is_error (P : Params) (file : List Nat) (fuel off i x : Nat)
    (h0 : file[off]? = some 0) (hi1 : off + 1 ≤ i) (hi2 : i < trueUp P (off + 1))
    (hx : file[i]? = some x) (hx0 : x ≠ 0) :
    nextHeader P file (fuel + 1) off = .err := by
  rw [zero_length_is_checked_padding P file fuel off h0]
  have hp : padZero file (off + 1) (trueUp P (off + 1)) = false :=
    (padZero_false_iff file _ _).2 ⟨i, x, hi1, hi2, hx, hx0⟩
  rw [hp]
  split <;> rfl

/-- `next_header` as found, before the repair: its `true_up` seeks to the boundary without looking
    at the bytes it skips (kept for the record of D-11) -/
def nextHeaderAsFound (P : Params) (file : List Nat) : Nat → Nat → R (Hdr × Nat)
  | 0, _ => .err
  | f+1, off =>
    match file[off]? with
    | none => .eof
    | some hsz =>
      if hsz = 0 then
        let t := trueUp P (off + 1)
        if t - (off + 1) > P.H then .err else nextHeaderAsFound P file f t
      else if hsz > P.H then .err
      else if off + 1 + hsz > file.length then .err
      else match P.decH (slice file (off + 1) hsz) with
        | none => .err
        | some h => if h.size > P.tableFull then .err else .ok (h, off + 1 + hsz)

/-- **D-11 as found**: a zero where a header length is expected, within `HEADER_MAX_SIZE` of the end
    of a block, was padding whatever lay between it and the boundary -/
theorem zero_length_is_padding_as_found (P : Params) (file : List Nat) (fuel off : Nat) (h0 : file[off]? = some 0) :
    nextHeaderAsFound P file (fuel + 1) off =
      if trueUp P (off + 1) - (off + 1) > P.H then .err else nextHeaderAsFound P file fuel (trueUp P (off + 1)) := by
  rw [nextHeaderAsFound]
  simp only [h0, if_true]

/-- toy parameters for the witness below: blocks of 64 bytes, `HEADER_MAX_SIZE = 19`, a header codec
    that accepts anything -/
def toyParams : Params := ⟨64, 19, 100, fun _ => [1], fun _ => some ⟨0, 1, 0⟩, fun _ => 0⟩

/-- a frame of 20 non-padding bytes that starts 20 bytes before the block boundary at 64, its
    header-length byte overwritten with zero, then a frame on the boundary -/
def toyZeroed : List Nat := List.replicate 44 7 ++ 0 :: List.replicate 19 9 ++ [1, 1]

/-- **D-11 witnessed on the two readers**: as found, the reader steps over the 19 non-zero bytes and
    hands out the header of the frame on the boundary as if nothing had been there; repaired, it
    reports an error -/
theorem d11_as_found_vs_repaired :
    nextHeaderAsFound toyParams toyZeroed 2 44 = .ok (⟨0, 1, 0⟩, 66)
    ∧ nextHeader toyParams toyZeroed 2 44 = .err := by
  constructor <;> rfl

theorem deliver_true : ∀ bs : List (List Nat), (deliver bs true).2 = true
  | [] => rfl
  | b :: bs => by
    unfold deliver
    simp only
    split
    · rfl
    · exact deliver_true bs

theorem appendAt_length_pos (P : Params) (hB : 0 < P.B) (pos : Nat) (buf : List Nat) :
    1 ≤ (appendAt P 2 pos buf).length := by
  have hf : ∀ d p, 1 ≤ (frame P d p).length := by intro d p; unfold frame; simp
  have hnb : pos < nextBoundary P pos := by
    obtain ⟨q, m, hpos, hm⟩ := block_decomp (P := P) hB pos
    rw [nextBoundary_block hB q pos (by omega) (by omega)]; omega
  rw [show (2 : Nat) = 1 + 1 from rfl, appendAt_succ]
  split
  · split
    · simp only [List.length_append, zeros_length]; omega
    · have := hf FIRST (buf.take (nextBoundary P pos - pos - P.H))
      simp only [List.length_append]; omega
  · exact hf WHOLE buf

theorem writeAll_length_ge (P : Params) (hB : 0 < P.B) : ∀ (bufs : List (List Nat)) (pos : Nat),
    bufs.length ≤ (writeAll P bufs pos).length
  | [], _ => Nat.zero_le _
  | b :: bs, pos => by
    have h1 := appendAt_length_pos P hB pos b
    have h2 := writeAll_length_ge P hB bs (pos + (appendAt P 2 pos b).length)
    simp only [writeAll, List.length_append, List.length_cons]
    omega

/-- **D-11 repaired, at the level of the replay**: zero the header-length byte of the (first) frame
    of any one append of a log: `LogIterator` delivers exactly the entries of the batches appended
    before it and ends with an error, so `log_to_builder` and `log_to_setsum` fail — the damaged
    frame is never stepped over. -/
theorem zeroed_header_length_replay_fails (P : Params) (g : Good P) (hbig : BigTag P)
    (bufs1 : List (List Nat)) (b : List Nat) (bufs2 : List (List Nat))
    (hsz : ∀ x ∈ bufs1, x.length ≤ P.tableFull) :
    drain P ((writeAll P (bufs1 ++ b :: bufs2) 0).set (headOff P (writeAll P bufs1 0).length b) 0)
        = deliver bufs1 true
    ∧ logToBuilder P ((writeAll P (bufs1 ++ b :: bufs2) 0).set (headOff P (writeAll P bufs1 0).length b) 0)
        = .readerError
    ∧ logToSetsumOk P ((writeAll P (bufs1 ++ b :: bufs2) 0).set (headOff P (writeAll P bufs1 0).length b) 0)
        = false := by
  have hB : 0 < P.B := by have := g.hB; omega
  have hdrain : drain P ((writeAll P (bufs1 ++ b :: bufs2) 0).set (headOff P (writeAll P bufs1 0).length b) 0)
      = deliver bufs1 true := by
    unfold drain
    have hlen := writeAll_length_ge P hB (bufs1 ++ b :: bufs2) 0
    simp only [List.length_append, List.length_cons] at hlen
    obtain ⟨k, hk⟩ : ∃ k, ((writeAll P (bufs1 ++ b :: bufs2) 0).set (headOff P (writeAll P bufs1 0).length b) 0).length + 2
        = bufs1.length + 1 + k :=
      ⟨(writeAll P (bufs1 ++ b :: bufs2) 0).length + 2 - (bufs1.length + 1), by rw [List.length_set]; omega⟩
    rw [hk, zeroed_header_length_detected g hbig bufs1 b bufs2 hsz k]
  refine ⟨hdrain, ?_, ?_⟩
  · unfold logToBuilder replayOf
    rw [hdrain, deliver_true, if_pos rfl]
  · unfold logToSetsumOk
    rw [hdrain, deliver_true]
    rfl

/-! ### the manifest: which lines are guarded -/
variable (crc : List Nat → Nat)

/-- **an item line that is accepted matched its CRC**: the eight digits parse to the checksum of the
    rest of the line.  (The separator line carries no checksum.) -/
theorem item_line_guarded (line : List Nat) (h : parseLine crc line ≠ .corrupt) (hs : parseLine crc line ≠ .sep) :
    ∃ expected, parseHex8 (line.take 8) = some expected ∧ crc (line.drop 8) = expected := by
  unfold parseLine at h hs
  by_cases h1 : (line.any fun b => decide (b ≥ 128)) = true
  · simp only [if_pos h1] at h; exact absurd rfl h
  · simp only [if_neg h1] at h hs
    by_cases h2 : line = SEP
    · simp only [if_pos h2] at hs; exact absurd rfl hs
    · simp only [if_neg h2] at h
      by_cases h3 : line.length > 9
      · simp only [if_pos h3] at h
        cases hp : parseHex8 (line.take 8) with
        | none => rw [hp] at h; exact absurd rfl h
        | some expected =>
          rw [hp] at h
          simp only at h
          by_cases hc : crc (line.drop 8) ≠ expected
          · rw [if_pos hc] at h; exact absurd rfl h
          · exact ⟨expected, rfl, Decidable.not_not.mp hc⟩
      · simp only [if_neg h3] at h; exact absurd rfl h

end Blue.Damage
