import Blue.Proofs.RrrLayout
/-! `access`, `rank`, `access_rank` (and the default `rank0`) of a built RRR vector against the plain
    bit array. -/
namespace Blue.Rrr
open Blue.BitArr

attribute [local irreducible] encode decode popcount wordsOf bitAt lowPop

theorem walk_lt (v : Vec) (fuel index cOff oOff rank : Nat) (h : index < 63) :
    walk v fuel index cOff oOff rank = some (index, cOff, oOff, rank) := by
  cases fuel with
  | zero => show (if index ≥ 63 then none else some (index, cOff, oOff, rank)) = _
            rw [if_neg (by omega)]
  | succ f => show (if index ≥ 63 then _ else some (index, cOff, oOff, rank)) = _
              rw [if_neg (by omega)]

theorem walk_ge (v : Vec) (f index cOff oOff rank : Nat) (h : index ≥ 63) :
    walk v (f + 1) index cOff oOff rank =
      match loadCO v cOff with
      | none => none
      | some co => walk v f (index - 63) (cOff + 6) (oOff + co.2) (rank + co.1) := by
  show (if index ≥ 63 then _ else some (index, cOff, oOff, rank)) = _
  rw [if_pos h]
  rfl

section
variable (ws : WordSpec) (bits : List Bool)
include ws

/-- the `while index >= 63` loop over `m` real words starting at word `s` -/
theorem walk_words : ∀ (m s fuel i rank : Nat), i < 63 → s + m ≤ nwords bits → m ≤ fuel →
    walk (construct bits) fuel (63 * m + i) (6 * s) (psum (wid bits) s) rank
      = some (i, 6 * (s + m), psum (wid bits) (s + m), rank + (psum (cnt bits) (s + m) - psum (cnt bits) s)) := by
  intro m
  induction m with
  | zero =>
    intro s fuel i rank hi _ _
    rw [walk_lt _ _ _ _ _ _ (by omega)]
    simp
  | succ m ih =>
    intro s fuel i rank hi hs hf
    obtain ⟨f, rfl⟩ : ∃ f, fuel = f + 1 := ⟨fuel - 1, by omega⟩
    rw [walk_ge _ _ _ _ _ _ (by omega), loadCO_word ws bits s (by omega)]
    simp only
    have e1 : 63 * (m + 1) + i - 63 = 63 * m + i := by omega
    have e2 : 6 * s + 6 = 6 * (s + 1) := by omega
    have e3 : psum (wid bits) s + wid bits s = psum (wid bits) (s + 1) := (psum_succ _ _).symm
    rw [e1, e2, e3, ih (s + 1) f i _ hi (by omega) (by omega)]
    have e4 : s + 1 + m = s + (m + 1) := by omega
    rw [e4]
    have h1 := psum_succ (cnt bits) s
    have h2 := psum_mono (cnt bits) (show s + 1 ≤ s + (m + 1) by omega)
    congr 4
    omega

/-- `locate` on an index inside the pattern: the word and the position in it, and (when `r` is read) the
    set bits before the word -/
theorem locate_spec (wr : Bool) (x : Nat) (hx : x < bits.length) :
    ∃ rk, locate (construct bits) wr x = some (x % 63, wordAt bits (x / 63), rk)
      ∧ (wr = true → rk = psum (cnt bits) (x / 63)) := by
  have hn := nwords_bounds ws bits
  have ht : x / 63 < nwords bits := by omega
  have hb : 8 * (x / 504) < nwords bits := by omega
  unfold locate
  rw [construct_bits, calcWidth_eq, construct_word]
  simp only
  have e504 : 8 * 63 = 504 := rfl
  rw [e504, load_p ws bits, if_pos hb]
  simp only
  have hm : x - x / 504 * 504 = 63 * (x / 63 - 8 * (x / 504)) + x % 63 := by omega
  have hc : x / 504 * 6 * 8 = 6 * (8 * (x / 504)) := by omega
  have hs : 8 * (x / 504) + (x / 63 - 8 * (x / 504)) = x / 63 := by omega
  cases wr with
  | true =>
    simp only [if_true]
    rw [load_r ws bits, if_pos hb]
    simp only
    rw [hm, hc, walk_words ws bits _ _ _ _ _ (by omega) (by omega) (by omega), hs]
    simp only
    rw [loadCO_word ws bits _ ht]
    simp only
    rw [loadO_word ws bits _ ht]
    refine ⟨_, rfl, ?_⟩
    intro _
    have := psum_mono (cnt bits) (show 8 * (x / 504) ≤ x / 63 by omega)
    omega
  | false =>
    simp only [Bool.false_eq_true, if_false]
    rw [hm, hc, walk_words ws bits _ _ _ _ _ (by omega) (by omega) (by omega), hs]
    simp only
    rw [loadCO_word ws bits _ ht]
    simp only
    rw [loadO_word ws bits _ ht]
    exact ⟨_, rfl, fun h => by cases h⟩

theorem bitAt_wordAt (x : Nat) : bitAt (wordAt bits (x / 63)) (x % 63) = bits.getD x false := by
  unfold wordAt
  rw [ws.bitAt_ofBits _ _ (chunk_length_le bits _), getD_chunk bits _ _ (Nat.mod_lt _ (by omega)), Nat.div_add_mod]

theorem lowPop_wordAt (x : Nat) :
    psum (cnt bits) (x / 63) + lowPop (wordAt bits (x / 63)) (x % 63) = (bits.take x).count true := by
  unfold wordAt
  have hi : x % 63 ≤ 63 := Nat.le_of_lt (Nat.mod_lt _ (by omega))
  rw [ws.lowPop_ofBits _ _ (chunk_length_le bits _) hi, ← count_true_take_pos bits _ _ hi, Nat.div_add_mod]

omit ws in
theorem len_construct : len (construct bits) = bits.length := construct_bits bits

/-- **C19 (rrr)** `access_rank` -/
theorem accessRank_construct (x : Nat) :
    accessRank (construct bits) x
      = if x < bits.length then some (bits.getD x false, (bits.take x).count true) else none := by
  unfold accessRank
  rw [len_construct]
  by_cases hx : x < bits.length
  · rw [if_neg (by omega), if_pos hx]
    obtain ⟨rk, h1, h2⟩ := locate_spec ws bits true x hx
    rw [h1, h2 rfl]
    simp only
    rw [bitAt_wordAt ws, lowPop_wordAt ws]
  · rw [if_pos (by omega), if_neg hx]

/-- **C19 (rrr)** `access` -/
theorem access_construct (x : Nat) : access (construct bits) x = Blue.BitVec.access bits x := by
  unfold access Blue.BitVec.access
  rw [len_construct]
  by_cases hx : x < bits.length
  · rw [if_neg (by omega)]
    obtain ⟨rk, h1, _⟩ := locate_spec ws bits false x hx
    rw [h1]
    simp only
    rw [bitAt_wordAt ws, List.getD_eq_getElem?_getD, List.getElem?_eq_getElem hx, Option.getD_some]
  · rw [if_pos (by omega), List.getElem?_eq_none (by omega)]

/-- **C19 (rrr)** `rank`, including `rank(len)` -/
theorem rank_construct (x : Nat) : rank (construct bits) x = Blue.BitVec.rank bits x := by
  unfold rank Blue.BitVec.rank
  rw [len_construct]
  by_cases hgt : x > bits.length
  · rw [if_pos hgt, if_neg (show ¬ x ≤ bits.length by omega)]
  · rw [if_neg hgt, if_pos (show x ≤ bits.length by omega)]
    by_cases h0 : x = bits.length ∧ x = 0
    · rw [if_pos h0, h0.2]; simp
    · rw [if_neg h0]
      simp only
      by_cases he : x = bits.length
      · -- the `add_one` path
        have hpos : 0 < bits.length := by omega
        have hb : (x == bits.length) = true := by simpa using he
        rw [hb]
        simp only [if_true, Bool.true_and]
        obtain ⟨rk, h1, h2⟩ := locate_spec ws bits true (x - 1) (by omega)
        rw [h1, h2 rfl]
        simp only
        rw [bitAt_wordAt ws, lowPop_wordAt ws]
        have hx1 : x = (x - 1) + 1 := by omega
        conv => rhs; rw [hx1, Blue.BitVec.count_take_succ]
        rw [List.getD_eq_getElem?_getD, List.getElem?_eq_getElem (show x - 1 < bits.length by omega)]
        simp
      · have hb : (x == bits.length) = false := by simpa using he
        rw [hb]
        simp only [Bool.false_eq_true, if_false, Bool.false_and]
        obtain ⟨rk, h1, h2⟩ := locate_spec ws bits true x (by omega)
        rw [h1, h2 rfl]
        simp only
        rw [Nat.add_zero, lowPop_wordAt ws]

/-- **C19 (rrr)** the default `rank0` -/
theorem rank0_construct (x : Nat) : rank0 (construct bits) x = Blue.BitVec.rank0 bits x := by
  unfold rank0 Blue.BitVec.rank0
  rw [rank_construct ws]
  cases Blue.BitVec.rank bits x <;> rfl

end

end Blue.Rrr
