import Blue.Proofs.StoreHistRefine
import Blue.Proofs.GcPolicy
/-! **C05 / C01** garbage-collecting compactions inside the history theorem of `Blue.StoreHist`.

`Blue.StoreHist.CompactionOk` demands (`hsame`) that the outputs of a compaction hold EXACTLY the
inputs' versions.  The store's compaction into the last level is not of that kind:
`perform_compaction` calls `perform_garbage_collection` when `compaction.top_level()`
(`upper_level == NUM_LEVELS - 1`, lsmtk/src/tree/mod.rs), which writes only the versions the
collector (`sst::gc::GarbageCollector::next`) returns.

What the collector does to one key's versions, newest first (sst/src/gc.rs `next` / `return_key`):
tombstones are pushed on a list until a value `V` is met; if the determiner retains `V`, the
OLDEST of those tombstones (`tombstones[len - 1]`) and `V` are returned — the tombstones above it
are dropped; if it does not, the tombstones AND `V` are dropped (`continue 'iterating` with a fresh
list); tombstones with no value below them are never returned.  So
  * the newest version of a key is kept when it is a value and the policy `selectsNewest`
    (`Blue.Gc.newest_value_kept_policy`);
  * when the newest version is a tombstone it may be DROPPED (always under lsmtk's default
    `versions = 1`: `Blue.Gc.default_policy_exact`), and then either nothing of the key is kept or
    what is kept starts with another tombstone of the key (`Blue.Gc.key_keeps_head_or_goes`,
    `Blue.Gc.retained_is_prefix`) — never with a value.
The step obligation `GcCompactionOk` below says exactly that (`hnewest`), next to "outputs ⊆
inputs" (`hsub`) and "nothing below the outputs holds a key of the inputs" (`hlast`: the output
level is the last one).  A dropped newest tombstone makes the key read "no version" instead of
"tombstone": `load` answers `None` both times.  The history theorem is therefore stated on the
payload (`read`), with that one exception spelled out, and on `(read ..).join` — the
`Option<value>` a caller of `load` sees — without exception. -/
namespace Blue.StoreHistGc
open Blue.Spec Blue.Kvs Blue.StoreHist

/-- `e` is the newest version of key `k` in `E` -/
def Newest (E : List (Ver Nat)) (k : Nat) (e : Ver Nat) : Prop :=
  e ∈ E ∧ e.1 = k ∧ ∀ e' ∈ E, e'.1 = k → e'.2 ≤ e.2

theorem exists_newest : ∀ (E : List (Ver Nat)) (k : Nat), (∃ e ∈ E, e.1 = k) → ∃ N, Newest E k N
  | [], _, ⟨_, h, _⟩ => by cases h
  | a :: E, k, hex => by
    by_cases hE : ∃ e ∈ E, e.1 = k
    · obtain ⟨N, hN1, hN2, hN3⟩ := exists_newest E k hE
      by_cases ha : a.1 = k ∧ N.2 < a.2
      · refine ⟨a, List.mem_cons_self .., ha.1, ?_⟩
        intro e' he' hk
        rcases List.mem_cons.mp he' with h | he'
        · rw [h]; exact Nat.le_refl _
        · have := hN3 e' he' hk; omega
      · refine ⟨N, List.mem_cons_of_mem _ hN1, hN2, ?_⟩
        intro e' he' hk
        rcases List.mem_cons.mp he' with h | he'
        · rw [h]
          rw [h] at hk
          by_cases hlt : N.2 < a.2
          · exact absurd ⟨hk, hlt⟩ ha
          · omega
        · exact hN3 e' he' hk
    · obtain ⟨e, he, hek⟩ := hex
      have hea : e = a := by
        rcases List.mem_cons.mp he with h | h
        · exact h
        · exact absurd ⟨e, h, hek⟩ hE
      subst hea
      refine ⟨e, List.mem_cons_self .., hek, ?_⟩
      intro e' he' hk
      rcases List.mem_cons.mp he' with h | h
      · rw [h]; exact Nat.le_refl _
      · exact absurd ⟨e', h, hk⟩ hE

theorem Newest.unique {E : List (Ver Nat)} {k : Nat} {a b : Ver Nat} (ha : Newest E k a) (hb : Newest E k b) :
    a = b := by
  obtain ⟨a1, a2, a3⟩ := ha
  obtain ⟨b1, b2, b3⟩ := hb
  have h1 := a3 b b1 b2
  have h2 := b3 a a1 a2
  apply Prod.ext
  · rw [a2, b2]
  · omega

theorem Newest.mono {E E' : List (Ver Nat)} {k : Nat} {N : Ver Nat} (hsub : ∀ e ∈ E', e ∈ E)
    (hN : Newest E k N) (hmem : N ∈ E') : Newest E' k N :=
  ⟨hmem, hN.2.1, fun e' he' hk => hN.2.2 e' (hsub e' he') hk⟩

theorem Newest.congr {E E' : List (Ver Nat)} {k : Nat} {N : Ver Nat} (h : ∀ e, e ∈ E' ↔ e ∈ E)
    (hN : Newest E k N) : Newest E' k N :=
  hN.mono (fun e he => (h e).mp he) ((h N).mpr hN.1)

/-- with every stored timestamp at or below the read timestamp, the early-exit lookup returns the
    newest version of the key in the whole store -/
theorem load_newest (cs : List (List (Ver Nat))) (k t : Nat) (h : NewerAbove cs)
    (hts : ∀ v ∈ cs.flatten, v.2 ≤ t) :
    (load cs k t = none ∧ ∀ e ∈ cs.flatten, e.1 ≠ k) ∨ ∃ b, load cs k t = some b ∧ Newest cs.flatten k b := by
  have hv := load_visible cs k t h
  cases hl : load cs k t with
  | none =>
    rw [hl] at hv
    exact Or.inl ⟨rfl, fun e he hk => hv e he hk (hts e he)⟩
  | some b =>
    rw [hl] at hv
    exact Or.inr ⟨b, rfl, hv.1, hv.2.1, fun e' he' hk => hv.2.2.2 e' he' hk (hts e' he')⟩

theorem pre_split (pre : Tagged Nat) (e : Ver Nat) :
    e ∈ (pre.map (·.2)).flatten ↔ (e ∈ (kept pre).flatten ∨ e ∈ (inputs pre).flatten) := by
  induction pre with
  | nil => simp [kept, inputs]
  | cons x pre ih =>
    obtain ⟨tag, comp⟩ := x
    cases tag <;> simp [kept, inputs] at ih ⊢ <;> rw [ih] <;> grind

/-! ## the step on component lists -/

/-- what a garbage-collecting compaction owes about its outputs: for every key of the inputs, the
    newest input version is among the outputs — or it is a tombstone and whatever the outputs hold
    of that key starts with a tombstone (possibly nothing) -/
def NewestKept (pay : Nat → Nat → Option Payload) (ins outs : List (Ver Nat)) : Prop :=
  ∀ N, Newest ins N.1 N →
    N ∈ outs ∨ (pay N.1 N.2 = some none ∧ ∀ o, Newest outs N.1 o → pay o.1 o.2 = some none)

/-- decidable form of `Newest` / `NewestKept` (for concrete instances) -/
def newestB (E : List (Ver Nat)) (N : Ver Nat) : Bool :=
  E.all fun e => !(e.1 == N.1) || decide (e.2 ≤ N.2)

def newestKeptB (pay : Nat → Nat → Option Payload) (ins outs : List (Ver Nat)) : Bool :=
  ins.all fun N => !(newestB ins N) || (outs.contains N ||
    (decide (pay N.1 N.2 = some none) &&
      outs.all fun o => !(o.1 == N.1) || (!(newestB outs o) || decide (pay o.1 o.2 = some none))))

theorem newestB_complete {E : List (Ver Nat)} {k : Nat} {N : Ver Nat} (h : Newest E k N) :
    newestB E N = true := by
  unfold newestB
  rw [List.all_eq_true]
  intro e he
  by_cases hk : e.1 = N.1
  · have := h.2.2 e he (by rw [hk, h.2.1])
    simp [this]
  · simp [hk]

theorem newestKeptB_sound (pay : Nat → Nat → Option Payload) (ins outs : List (Ver Nat))
    (h : newestKeptB pay ins outs = true) : NewestKept pay ins outs := by
  intro N hN
  have hb := newestB_complete hN
  unfold newestKeptB at h
  rw [List.all_eq_true] at h
  have h1 := h N hN.1
  rw [hb] at h1
  simp only [Bool.not_true, Bool.false_or, Bool.or_eq_true, Bool.and_eq_true, decide_eq_true_eq,
    List.all_eq_true] at h1
  rcases h1 with h1 | ⟨hp, hall⟩
  · exact Or.inl (by simpa using h1)
  · refine Or.inr ⟨hp, fun o ho => ?_⟩
    have h2 := hall o ho.1
    have hk : (o.1 == N.1) = true := by simp [ho.2.1]
    rw [hk, newestB_complete ho] at h2
    simpa using h2

/-- **the core**: components `pre ++ post` in search order, a closed selection, outputs that are
    input versions and meet `NewestKept`, nothing of the inputs' keys in `post`; `after` is any list
    holding the kept components, the outputs and `post`.  Then `after` holds only stored versions,
    and the newest stored version of every key is still there — or it was a tombstone, and the
    newest version `after` has of the key (if any) is a tombstone -/
theorem gc_core (pay : Nat → Nat → Option Payload) (pre : Tagged Nat) (post outs : List (List (Ver Nat)))
    (h2 : NewerAbove (pre.map (·.2) ++ post)) (hclosed : Closed pre)
    (hsub : ∀ e ∈ outs.flatten, e ∈ (inputs pre).flatten)
    (hnewest : NewestKept pay (inputs pre).flatten outs.flatten)
    (hlast : ∀ c ∈ post, ∀ d ∈ inputs pre, Disjoint c d)
    (after : List (Ver Nat))
    (hafter : ∀ e, e ∈ after ↔ ((e ∈ (kept pre).flatten ∨ e ∈ outs.flatten) ∨ e ∈ post.flatten)) :
    (∀ e ∈ after, e ∈ (pre.map (·.2) ++ post).flatten) ∧
    ∀ k N, Newest (pre.map (·.2) ++ post).flatten k N →
      N ∈ after ∨ (pay N.1 N.2 = some none ∧ ∀ e, Newest after k e → pay e.1 e.2 = some none) := by
  have hb : ∀ e, e ∈ (pre.map (·.2) ++ post).flatten ↔
      ((e ∈ (kept pre).flatten ∨ e ∈ (inputs pre).flatten) ∨ e ∈ post.flatten) := by
    intro e
    rw [List.flatten_append, List.mem_append, pre_split]
  have hsubset : ∀ e ∈ after, e ∈ (pre.map (·.2) ++ post).flatten := by
    intro e he
    rw [hb]
    rcases (hafter e).mp he with (h | h) | h
    · exact Or.inl (Or.inl h)
    · exact Or.inl (Or.inr (hsub e h))
    · exact Or.inr h
  refine ⟨hsubset, ?_⟩
  intro k N hN
  obtain ⟨hN1, hN2, hN3⟩ := hN
  subst hN2
  rcases (hb N).mp hN1 with (h | h) | h
  · exact Or.inl ((hafter N).mpr (Or.inl (Or.inl h)))
  · have hNin : Newest (inputs pre).flatten N.1 N :=
      ⟨h, rfl, fun e' he' hk => hN3 e' ((hb e').mpr (Or.inl (Or.inr he'))) hk⟩
    rcases hnewest N hNin with ho | ⟨hp, ho⟩
    · exact Or.inl ((hafter N).mpr (Or.inl (Or.inr ho)))
    · refine Or.inr ⟨hp, ?_⟩
      intro e he
      obtain ⟨he1, he2, he3⟩ := he
      obtain ⟨c, hc, hNc⟩ := List.mem_flatten.mp h
      have hpre : (pre.map (·.2)).Pairwise Newer := by
        have := (newerAbove_iff_pairwise _).mp h2
        rw [List.pairwise_append] at this
        exact this.1
      rcases (hafter e).mp he1 with (hk | hk) | hk
      · exfalso
        obtain ⟨d, hd, hed⟩ := List.mem_flatten.mp hk
        have h4 := kept_newer_inputs pre hpre hclosed d hd c hc e hed N hNc he2
        have h5 := hN3 e (hsubset e he1) he2
        omega
      · exact ho e ⟨hk, he2, fun e' he' hk' => he3 e' ((hafter e').mpr (Or.inl (Or.inr he'))) hk'⟩
      · exfalso
        obtain ⟨d, hd, hed⟩ := List.mem_flatten.mp hk
        exact hlast d hd c hc e hed N hNc he2
  · exact Or.inl ((hafter N).mpr (Or.inr h))

/-- memtables on top, a closed garbage-collecting compaction below them: "newer above" is kept
    (`Blue.Spec.compaction_preserves` takes `outs ⊆ inputs` only) -/
theorem gc_compaction_newer (mems : List (List (Ver Nat))) (pre : Tagged Nat)
    (post outs a x : List (List (Ver Nat)))
    (h : NewerAbove (mems ++ (pre.map (·.2) ++ post))) (hclosed : Closed pre)
    (hsub : ∀ e ∈ outs.flatten, e ∈ (inputs pre).flatten) (houts : NewerAbove outs)
    (hkept : kept pre = a ++ x) (hdis : ∀ c ∈ x, ∀ d ∈ outs, Disjoint c d) :
    NewerAbove (mems ++ (a ++ outs ++ x ++ post)) := by
  have h1 := compaction_preserves (mems.map (fun m => (false, m)) ++ pre) post outs
    (by rw [List.map_append, map_mems, List.append_assoc]; exact h)
    (Blue.NextCompaction.closed_under_memtables mems pre hclosed)
    (by intro e he; rw [inputs_append, inputs_mems, List.nil_append]; exact hsub e he) houts
  rw [kept_append, kept_mems, hkept] at h1
  have h2 := swap_disjoint_blocks (mems ++ a) x outs post (by simpa [List.append_assoc] using h1) hdis
  simpa [List.append_assoc] using h2

/-! ## the step obligation -/

/-- **what a garbage-collecting compaction step owes** (`s` before, `s'` after, `pay` the payload
    map).  As `Blue.StoreHist.CompactionOk`, with `hsame` replaced by
    * `hsub`: every output version is an input version (`Blue.Gc.gcP_sublist`);
    * `hnewest`: `NewestKept` — the newest input version of every key is an output, or it is a
      tombstone and the outputs' newest version of that key, if any, is a tombstone;
    * `hlast`: no component below the outputs holds a key of the inputs (the output level is the
      last level: `Compaction::top_level`). -/
inductive GcCompactionOk (pay : Nat → Nat → Option Payload) (s s' : KState) : Prop where
  | mk (pre : Tagged Nat) (post outs a x : List (List (Ver Nat)))
      (hmem : s'.mem = s.mem) (himm : s'.imm = s.imm)
      (hsplit : treeComps s = pre.map (·.2) ++ post)
      (hclosed : Closed pre)
      (hsub : ∀ e ∈ outs.flatten, e ∈ (inputs pre).flatten)
      (hnewest : NewestKept pay (inputs pre).flatten outs.flatten)
      (hlast : ∀ c ∈ post, ∀ d ∈ inputs pre, Disjoint c d)
      (houts : NewerAbove outs)
      (hkept : kept pre = a ++ x)
      (hdis : ∀ c ∈ x, ∀ d ∈ outs, Disjoint c d)
      (hplace : treeComps s' = a ++ outs ++ x ++ post)
      (hl0 : ∀ g ∈ s'.l0, g ∈ s.l0)
      (hI1 : I1 s')

/-- a compaction that drops nothing and goes into the last level is a garbage-collecting
    compaction that collected nothing -/
theorem GcCompactionOk.of_compactionOk_last (pay : Nat → Nat → Option Payload) {s s' : KState}
    (pre : Tagged Nat) (post outs a x : List (List (Ver Nat)))
    (hmem : s'.mem = s.mem) (himm : s'.imm = s.imm)
    (hsplit : treeComps s = pre.map (·.2) ++ post) (hclosed : Closed pre)
    (hsame : ∀ e, e ∈ outs.flatten ↔ e ∈ (inputs pre).flatten)
    (hlast : ∀ c ∈ post, ∀ d ∈ inputs pre, Disjoint c d)
    (houts : NewerAbove outs) (hkept : kept pre = a ++ x) (hdis : ∀ c ∈ x, ∀ d ∈ outs, Disjoint c d)
    (hplace : treeComps s' = a ++ outs ++ x ++ post) (hl0 : ∀ g ∈ s'.l0, g ∈ s.l0) (hI1 : I1 s') :
    GcCompactionOk pay s s' :=
  .mk pre post outs a x hmem himm hsplit hclosed (fun e he => (hsame e).mp he)
    (fun N hN => Or.inl ((hsame N).mpr hN.1)) hlast houts hkept hdis hplace hl0 hI1

/-- the core, on a store state -/
theorem gc_core_state {h : HState} {l0' : List KFile} {levels' : List (List KFile)}
    (ok : GcCompactionOk h.pay h.st { h.st with l0 := l0', levels := levels' }) (inv : Inv h) :
    (∀ e ∈ (allComps (apply h (.compact l0' levels')).st).flatten, e ∈ (allComps h.st).flatten) ∧
    ∀ k N, Newest (allComps h.st).flatten k N →
      N ∈ (allComps (apply h (.compact l0' levels')).st).flatten
      ∨ (h.pay N.1 N.2 = some none
          ∧ ∀ e, Newest (allComps (apply h (.compact l0' levels')).st).flatten k e → h.pay e.1 e.2 = some none) := by
  obtain ⟨pre, post, outs, a, x, _, _, hsplit, hclosed, hsub, hnewest, hlast, _, hkept, _, hplace, _, _⟩ := ok
  have e : allComps h.st = memComps h.st ++ (pre.map (·.2) ++ post) := by rw [allComps_eq, hsplit]
  have e' : allComps (apply h (.compact l0' levels')).st = memComps h.st ++ (a ++ outs ++ x ++ post) := by
    rw [← hplace]; rfl
  have hmap : ((memComps h.st).map (fun m => ((false, m) : Bool × List (Ver Nat))) ++ pre).map (·.2) ++ post
      = memComps h.st ++ (pre.map (·.2) ++ post) := by
    rw [List.map_append, map_mems, List.append_assoc]
  have hc := gc_core h.pay ((memComps h.st).map (fun m => (false, m)) ++ pre) post outs
    (by rw [hmap, ← e]; exact inv.i2)
    (Blue.NextCompaction.closed_under_memtables (memComps h.st) pre hclosed)
    (by rw [inputs_append, inputs_mems, List.nil_append]; exact hsub)
    (by rw [inputs_append, inputs_mems, List.nil_append]; exact hnewest)
    (by rw [inputs_append, inputs_mems, List.nil_append]; exact hlast)
    (memComps h.st ++ (a ++ outs ++ x ++ post)).flatten
    (by
      intro v
      rw [kept_append, kept_mems, hkept]
      simp only [List.flatten_append, List.mem_append]
      grind)
  rw [hmap, ← e, ← e'] at hc
  exact hc

/-- **gc_step_preserves_inv**: the invariant of the history model (I1, I2, counters, published
    timestamps, memtable order, level-0 metadata) is preserved by a garbage-collecting compaction -/
theorem gc_step_preserves_inv (h : HState) (l0' : List KFile) (levels' : List (List KFile))
    (ok : GcCompactionOk h.pay h.st { h.st with l0 := l0', levels := levels' }) (inv : Inv h) :
    Inv (apply h (.compact l0' levels')) := by
  have hcore := (gc_core_state ok inv).1
  obtain ⟨pre, post, outs, a, x, _, _, hsplit, hclosed, hsub, _, _, houts, hkept, hdis, hplace, hl0, hI1⟩ := ok
  have e : allComps h.st = memComps h.st ++ (pre.map (·.2) ++ post) := by rw [allComps_eq, hsplit]
  have e' : allComps (apply h (.compact l0' levels')).st = memComps h.st ++ (a ++ outs ++ x ++ post) := by
    rw [← hplace]; rfl
  constructor
  · exact hI1
  · rw [e']
    exact gc_compaction_newer (memComps h.st) pre post outs a x (by rw [← e]; exact inv.i2) hclosed hsub houts hkept hdis
  · exact inv.vis_le
  · intro v hv
    exact inv.ts_le v (hcore v hv)
  · exact inv.mem_imm
  · intro g hg; exact inv.bts_le g (hl0 g hg)
  · intro g hg; exact inv.bts_lt g (hl0 g hg)

/-! ## reads across the step -/

/-- `KeyValueStore::load` at read timestamp `t`, as payload (`Blue.StoreHist.read` is `readAt` at
    the published sequence number) -/
def readAt (h : HState) (k t : Nat) : Option Payload :=
  (kvsLoad h.st k t).bind fun v => h.pay v.1 v.2

theorem read_eq_readAt (h : HState) (k : Nat) : read h k = readAt h k h.vis := rfl

theorem kvsLoad_newest {h : HState} (inv : Inv h) (k t : Nat) (ht : h.vis ≤ t) :
    (kvsLoad h.st k t = none ∧ ∀ e ∈ (allComps h.st).flatten, e.1 ≠ k)
    ∨ ∃ b, kvsLoad h.st k t = some b ∧ Newest (allComps h.st).flatten k b := by
  rw [kvsLoad_eq h.st (fun l hl => (inv.i1 l hl).1) (fun l hl => (inv.i1 l hl).2)]
  exact load_newest (allComps h.st) k t inv.i2 (fun v hv => Nat.le_trans (inv.ts_le v hv) ht)

/-- **gc_step_reads**: across a garbage-collecting compaction every point read at a timestamp at
    or above the published one answers the same payload — except that a key whose newest version
    was a tombstone the collector dropped may read "no version" (`none`) instead of "tombstone"
    (`some none`) -/
theorem gc_step_reads (h : HState) (l0' : List KFile) (levels' : List (List KFile))
    (ok : GcCompactionOk h.pay h.st { h.st with l0 := l0', levels := levels' }) (inv : Inv h)
    (k t : Nat) (ht : h.vis ≤ t) :
    readAt (apply h (.compact l0' levels')) k t = readAt h k t
    ∨ (readAt h k t = some none ∧ readAt (apply h (.compact l0' levels')) k t = none) := by
  have inv' := gc_step_preserves_inv h l0' levels' ok inv
  obtain ⟨hsubset, hcore⟩ := gc_core_state ok inv
  have hpay : (apply h (.compact l0' levels')).pay = h.pay := rfl
  have ht' : (apply h (.compact l0' levels')).vis ≤ t := ht
  unfold readAt
  rw [hpay]
  rcases kvsLoad_newest inv k t ht with ⟨hl, hno⟩ | ⟨N, hl, hN⟩
  · rcases kvsLoad_newest inv' k t ht' with ⟨hl', _⟩ | ⟨b, _, hb⟩
    · rw [hl, hl']; exact Or.inl rfl
    · exact absurd hb.2.1 (hno b (hsubset b hb.1))
  · rcases hcore k N hN with hin | ⟨hp, hall⟩
    · have hN' : Newest (allComps (apply h (.compact l0' levels')).st).flatten k N := hN.mono hsubset hin
      rcases kvsLoad_newest inv' k t ht' with ⟨_, hno'⟩ | ⟨b, hl', hb⟩
      · exact absurd hN.2.1 (hno' N hin)
      · rw [hl, hl', hb.unique hN']; exact Or.inl rfl
    · rcases kvsLoad_newest inv' k t ht' with ⟨hl', _⟩ | ⟨b, hl', hb⟩
      · rw [hl, hl']; exact Or.inr ⟨hp, rfl⟩
      · rw [hl, hl']
        refine Or.inl ?_
        show h.pay b.1 b.2 = h.pay N.1 N.2
        rw [hp, hall b hb]

/-- the `Option<value>` a caller of `load` sees (`Ok(None)` for "no version" and for "tombstone")
    is unchanged by a garbage-collecting compaction -/
theorem gc_step_load_unchanged (h : HState) (l0' : List KFile) (levels' : List (List KFile))
    (ok : GcCompactionOk h.pay h.st { h.st with l0 := l0', levels := levels' }) (inv : Inv h) (k : Nat) :
    (read (apply h (.compact l0' levels')) k).join = (read h k).join := by
  rcases gc_step_reads h l0' levels' ok inv k h.vis (Nat.le_refl _) with h1 | ⟨h1, h2⟩
  · exact congrArg Option.join h1
  · show (readAt (apply h (.compact l0' levels')) k h.vis).join = (readAt h k h.vis).join
    rw [h1, h2]; rfl

/-! ## histories with garbage-collecting compactions -/

/-- a `compact` step meets the obligations of a conserving compaction or those of a
    garbage-collecting one -/
def GcOpOk (h : HState) : Op → Prop
  | .compact l0' levels' =>
      CompactionOk h.st { h.st with l0 := l0', levels := levels' }
      ∨ GcCompactionOk h.pay h.st { h.st with l0 := l0', levels := levels' }
  | _ => True

def GcValid : HState → List Op → Prop
  | _, [] => True
  | h, op :: ops => GcOpOk h op ∧ GcValid (apply h op) ops

theorem GcValid.of_valid : ∀ (ops : List Op) (h : HState), Valid h ops → GcValid h ops
  | [], _, _ => trivial
  | op :: ops, h, hv => by
    refine ⟨?_, GcValid.of_valid ops _ hv.2⟩
    cases op with
    | compact l0' levels' => exact Or.inl hv.1
    | write b => trivial
    | rollover => trivial
    | flush => trivial

theorem gc_inv_step (h : HState) (op : Op) (ok : GcOpOk h op) (inv : Inv h) : Inv (apply h op) := by
  cases op with
  | write b => exact inv_write h b inv
  | rollover => exact inv_rollover h inv
  | flush => exact inv_flush h inv
  | compact l0' levels' =>
    rcases ok with ok | ok
    · exact inv_compact h l0' levels' ok inv
    · exact gc_step_preserves_inv h l0' levels' ok inv

/-- the relation between a store state and the specification map once versions may have been
    collected: a key never written has no version; a key whose last write is a put has that version
    on top; a key whose last write is a delete has a tombstone on top — or no version at all -/
structure RelG (h : HState) (m : SpecMap) : Prop where
  absent : ∀ k, m k = none → ∀ e ∈ (allComps h.st).flatten, e.1 ≠ k
  put : ∀ k ts v, m k = some (ts, some v) →
    Newest (allComps h.st).flatten k (k, ts) ∧ h.pay k ts = some (some v)
  del : ∀ k ts, m k = some (ts, none) →
    ∀ e, Newest (allComps h.st).flatten k e → h.pay e.1 e.2 = some none

theorem relG_init : RelG init (fun _ => none) := by
  refine ⟨?_, ?_, ?_⟩
  · intro k _ e he; simp [init, allComps, memComps, l0Comps, l0Order, tLevels] at he
  · intro k ts v hk; cases hk
  · intro k ts hk; cases hk

theorem RelG.of_same {h h' : HState} {m : SpecMap}
    (hflat : ∀ e, e ∈ (allComps h'.st).flatten ↔ e ∈ (allComps h.st).flatten)
    (hpay : h'.pay = h.pay) (r : RelG h m) : RelG h' m := by
  have hflat' : ∀ e, e ∈ (allComps h.st).flatten ↔ e ∈ (allComps h'.st).flatten := fun e => (hflat e).symm
  refine ⟨?_, ?_, ?_⟩
  · intro k hk e he; exact r.absent k hk e ((hflat e).mp he)
  · intro k ts v hk
    obtain ⟨h1, h2⟩ := r.put k ts v hk
    exact ⟨h1.congr hflat, by rw [hpay]; exact h2⟩
  · intro k ts hk e he
    rw [hpay]
    exact r.del k ts hk e (he.congr hflat')

theorem relG_write (h : HState) (b : List (Nat × Payload)) (m : SpecMap) (inv : Inv h) (r : RelG h m) :
    RelG (apply h (.write b)) (specStep m (h.seq + 1) (.write b)) := by
  cases hb : batchOk b with
  | false => rw [apply_write_bad h b hb, specStep_write_bad m _ b hb]; exact r
  | true =>
  rw [apply_write_ok h b hb]
  have hs := specStep_write_ok m (h.seq + 1) b hb
  have hflat := flat_write h b
  have hpay : ∀ k t, (writeSt h b).pay k t = if t = h.seq + 1 then List.lookup k b else h.pay k t :=
    fun _ _ => rfl
  refine ⟨?_, ?_, ?_⟩
  · intro k hk e he
    rw [hs k] at hk
    cases hl : List.lookup k b with
    | some p => rw [hl] at hk; cases hk
    | none =>
      rw [hl] at hk
      rcases (hflat e).mp he with he | he
      · exact lookup_none_newVers hl e he
      · exact r.absent k hk e he
  · intro k ts v hk
    rw [hs k] at hk
    cases hl : List.lookup k b with
    | some p' =>
      rw [hl] at hk
      simp only [Option.some.injEq, Prod.mk.injEq] at hk
      obtain ⟨rfl, rfl⟩ := hk
      refine ⟨⟨(hflat _).mpr (Or.inl ?_), rfl, ?_⟩, ?_⟩
      · exact List.mem_map.mpr ⟨(k, some v), lookup_some_mem b k (some v) hl, rfl⟩
      · intro e he _
        rcases (hflat e).mp he with he | he
        · rw [newVers_ts e he]; exact Nat.le_refl _
        · have := old_lt inv e he; exact Nat.le_of_lt this
      · rw [hpay, if_pos rfl, hl]
    | none =>
      rw [hl] at hk
      obtain ⟨⟨h1, _, h2⟩, h3⟩ := r.put k ts v hk
      refine ⟨⟨(hflat _).mpr (Or.inr h1), rfl, ?_⟩, ?_⟩
      · intro e he hek
        rcases (hflat e).mp he with he | he
        · exact absurd hek (lookup_none_newVers hl e he)
        · exact h2 e he hek
      · have hlt : ts < h.seq + 1 := old_lt inv _ h1
        rw [hpay, if_neg (by omega)]
        exact h3
  · intro k ts hk e he
    rw [hs k] at hk
    obtain ⟨he1, he2, he3⟩ := he
    cases hl : List.lookup k b with
    | some p' =>
      rw [hl] at hk
      simp only [Option.some.injEq, Prod.mk.injEq] at hk
      obtain ⟨_, rfl⟩ := hk
      have hnew : (k, h.seq + 1) ∈ newVers h b :=
        List.mem_map.mpr ⟨(k, none), lookup_some_mem b k none hl, rfl⟩
      have hge := he3 (k, h.seq + 1) ((hflat _).mpr (Or.inl hnew)) rfl
      rcases (hflat e).mp he1 with he | he
      · rw [hpay, if_pos (newVers_ts e he), he2, hl]
      · have := old_lt inv e he
        have hge' : h.seq + 1 ≤ e.2 := hge
        omega
    | none =>
      rw [hl] at hk
      rcases (hflat e).mp he1 with he | he
      · exact absurd he2 (lookup_none_newVers hl e he)
      · have hlt := old_lt inv e he
        rw [hpay, if_neg (by omega)]
        exact r.del k ts hk e ⟨he, he2, fun e' he' hk' => he3 e' ((hflat e').mpr (Or.inr he')) hk'⟩

theorem relG_gc (h : HState) (l0' : List KFile) (levels' : List (List KFile)) (m : SpecMap)
    (ok : GcCompactionOk h.pay h.st { h.st with l0 := l0', levels := levels' }) (inv : Inv h) (r : RelG h m) :
    RelG (apply h (.compact l0' levels')) m := by
  obtain ⟨hsubset, hcore⟩ := gc_core_state ok inv
  have hpay : (apply h (.compact l0' levels')).pay = h.pay := rfl
  refine ⟨?_, ?_, ?_⟩
  · intro k hk e he; exact r.absent k hk e (hsubset e he)
  · intro k ts v hk
    obtain ⟨h1, h2⟩ := r.put k ts v hk
    rw [hpay]
    refine ⟨?_, h2⟩
    rcases hcore k (k, ts) h1 with hin | ⟨hp, _⟩
    · exact h1.mono hsubset hin
    · have hp' : h.pay k ts = some none := hp
      rw [h2] at hp'
      cases hp'
  · intro k ts hk e he
    rw [hpay]
    obtain ⟨N, hN⟩ := exists_newest (allComps h.st).flatten k ⟨e, hsubset e he.1, he.2.1⟩
    rcases hcore k N hN with hin | ⟨_, hall⟩
    · rw [he.unique (hN.mono hsubset hin)]
      exact r.del k ts hk N hN
    · exact hall e he

theorem relG_step (h : HState) (op : Op) (m : SpecMap) (ok : GcOpOk h op) (inv : Inv h) (r : RelG h m) :
    RelG (apply h op) (specStep m (h.seq + 1) op) := by
  cases op with
  | write b => exact relG_write h b m inv r
  | rollover =>
    show RelG (apply h .rollover) m
    cases hi : h.st.imm with
    | some i => rw [apply_rollover_some h hi]; exact r
    | none =>
      rw [apply_rollover_none h hi]
      refine RelG.of_same (h := h) ?_ rfl r
      intro e
      rw [allComps_roll, allComps_imm_none h.st hi, List.flatten_cons, List.nil_append]
  | flush =>
    show RelG (apply h .flush) m
    cases hi : h.st.imm with
    | none => rw [apply_flush_none h hi]; exact r
    | some i0 =>
      cases i0 with
      | nil =>
        rw [apply_flush_nil h hi]
        refine RelG.of_same (h := h) ?_ rfl r
        intro e
        have e' : allComps (flushNilSt h).st = h.st.mem :: treeComps h.st := rfl
        rw [e', allComps_imm_some h.st hi]
        simp
      | cons v i =>
        rw [apply_flush_cons h hi]
        refine RelG.of_same (h := h) ?_ rfl r
        intro e
        rw [allComps_flush inv hi]
  | compact l0' levels' =>
    show RelG (apply h (.compact l0' levels')) m
    rcases ok with ok | ok
    · obtain ⟨pre, post, outs, a, x, _, _, hsplit, _, hsame, _, hkept, _, hplace, _, _⟩ := ok
      refine RelG.of_same (h := h) ?_ rfl r
      intro e
      have e1 : allComps h.st = memComps h.st ++ (pre.map (·.2) ++ post) := by rw [allComps_eq, hsplit]
      have e2 : allComps (apply h (.compact l0' levels')).st = memComps h.st ++ (a ++ outs ++ x ++ post) := by
        rw [← hplace]; rfl
      rw [e1, e2]
      exact compaction_mem (memComps h.st) pre post outs a x hsame hkept e
    · exact relG_gc h l0' levels' m ok inv r

theorem run_inv_relG : ∀ (ops : List Op) (h : HState) (m : SpecMap), GcValid h ops → Inv h → RelG h m →
    Inv (run h ops) ∧ RelG (run h ops) (runSpec h m ops)
  | [], _, _, _, inv, r => ⟨inv, r⟩
  | op :: ops, h, m, hv, inv, r => by
    rw [run_cons, runSpec]
    exact run_inv_relG ops (apply h op) _ hv.2 (gc_inv_step h op hv.1 inv) (relG_step h op m hv.1 inv r)

/-- under the invariant and `RelG` the read answers the specification's payload — except that a
    deleted key may read "no version" -/
theorem read_of_relG {h : HState} {m : SpecMap} (inv : Inv h) (r : RelG h m) (k : Nat) :
    read h k = (m k).map (·.2) ∨ ((m k).map (·.2) = some none ∧ read h k = none) := by
  unfold StoreHist.read
  cases hm : m k with
  | none =>
    rcases kvsLoad_newest inv k h.vis (Nat.le_refl _) with ⟨hl, _⟩ | ⟨b, _, hb⟩
    · rw [hl]; exact Or.inl rfl
    · exact absurd hb.2.1 (r.absent k hm b hb.1)
  | some e =>
    obtain ⟨ts, p⟩ := e
    cases p with
    | some v =>
      obtain ⟨h1, h2⟩ := r.put k ts v hm
      rcases kvsLoad_newest inv k h.vis (Nat.le_refl _) with ⟨_, hno⟩ | ⟨b, hl, hb⟩
      · exact absurd rfl (hno (k, ts) h1.1)
      · rw [hl, hb.unique h1]
        exact Or.inl h2
    | none =>
      rcases kvsLoad_newest inv k h.vis (Nat.le_refl _) with ⟨hl, _⟩ | ⟨b, hl, hb⟩
      · rw [hl]; exact Or.inr ⟨rfl, rfl⟩
      · rw [hl]
        exact Or.inl (r.del k ts hm b hb)

/-! ## the history theorems -/

theorem history_invariant_gc (ops : List Op) (hv : GcValid init ops) : Inv (run init ops) :=
  (run_inv_relG ops init _ hv inv_init relG_init).1

theorem history_relG (ops : List Op) (hv : GcValid init ops) : RelG (run init ops) (spec ops) :=
  (run_inv_relG ops init _ hv inv_init relG_init).2

/-- **history_refines_gc**: after ANY history of writes, rollovers, flushes, conserving
    compactions and garbage-collecting compactions from the empty store, the read at the published
    sequence number answers the payload of the last accepted write naming the key — except that a
    key whose last write is a delete may read "no version" (`none`) instead of "tombstone"
    (`some none`) once its tombstone has been collected -/
theorem history_refines_gc (ops : List Op) (hv : GcValid init ops) (k : Nat) :
    read (run init ops) k = lastWrite ops k
    ∨ (lastWrite ops k = some none ∧ read (run init ops) k = none) := by
  have := read_of_relG (history_invariant_gc ops hv) (history_relG ops hv) k
  rw [spec_payload] at this
  exact this

/-- **history_load_gc**: the `Option<value>` `load` returns is the value of the last accepted write
    if that was a put, `None` otherwise — no exception -/
theorem history_load_gc (ops : List Op) (hv : GcValid init ops) (k : Nat) :
    (read (run init ops) k).join = (lastWrite ops k).join := by
  rcases history_refines_gc ops hv k with h | ⟨h1, h2⟩
  · rw [h]
  · rw [h1, h2]; rfl

/-- a put is never lost: a key whose last accepted write is a put of `v` reads `v` -/
theorem history_put_survives_gc (ops : List Op) (hv : GcValid init ops) (k v : Nat)
    (hw : lastWrite ops k = some (some v)) : read (run init ops) k = some (some v) := by
  rcases history_refines_gc ops hv k with h | ⟨h1, _⟩
  · rw [h, hw]
  · rw [hw] at h1; cases h1

/-- a key never written reads nothing, a deleted key never reads a value -/
theorem history_no_resurrection_gc (ops : List Op) (hv : GcValid init ops) (k : Nat)
    (hw : (lastWrite ops k).join = none) : (read (run init ops) k).join = none := by
  rw [history_load_gc ops hv k, hw]

/-! ## the obligation is met by the collector (`Blue.Gc.gcP`, the model the C05 driver compares
    with `GarbageCollector::next`) under every policy that selects newest versions -/

theorem NewestKept.congr {pay : Nat → Nat → Option Payload} {ins outs ins' outs' : List (Ver Nat)}
    (hin : ∀ e, e ∈ ins' ↔ e ∈ ins) (hout : ∀ e, e ∈ outs' ↔ e ∈ outs)
    (h : NewestKept pay ins outs) : NewestKept pay ins' outs' := by
  intro N hN
  rcases h N (hN.congr (fun e => (hin e).symm)) with h1 | ⟨h1, h2⟩
  · exact Or.inl ((hout N).mpr h1)
  · exact Or.inr ⟨h1, fun o ho => h2 o (ho.congr (fun e => (hout e).symm))⟩

theorem split_tombs : ∀ g : List (Blue.Gc.Ent Nat), (∀ e ∈ g, e.tomb = true) ∨
    ∃ lead v rest, g = lead ++ v :: rest ∧ (∀ e ∈ lead, e.tomb = true) ∧ v.tomb = false
  | [] => Or.inl (fun _ h => by cases h)
  | e :: g => by
    cases he : e.tomb with
    | false => exact Or.inr ⟨[], e, g, rfl, fun _ h => (by cases h), he⟩
    | true =>
      rcases split_tombs g with h | ⟨lead, v, rest, h1, h2, h3⟩
      · left
        intro x hx
        rcases List.mem_cons.mp hx with h' | h'
        · rw [h']; exact he
        · exact h x h'
      · right
        refine ⟨e :: lead, v, rest, by rw [h1]; rfl, ?_, h3⟩
        intro x hx
        rcases List.mem_cons.mp hx with h' | h'
        · rw [h']; exact he
        · exact h2 x h'

theorem mem_ents {m : List (Blue.Gc.Ent Nat)} {N : Nat × Nat} (h : N ∈ Blue.Gc.ents m) :
    ∃ e ∈ m, N = (e.key, e.ts) := by
  obtain ⟨e, he, rfl⟩ := List.mem_map.mp h
  exact ⟨e, he, rfl⟩

theorem ents_mem {m : List (Blue.Gc.Ent Nat)} {e : Blue.Gc.Ent Nat} (h : e ∈ m) :
    (e.key, e.ts) ∈ Blue.Gc.ents m := List.mem_map.mpr ⟨e, h, rfl⟩

/-- one key's versions, newest first, through a fresh collector: the newest version is kept, or it
    is a tombstone and what is kept of the key starts with a tombstone (or is nothing) -/
theorem run_meets (pay : Nat → Nat → Option Payload) (k : Nat) (g : List (Blue.Gc.Ent Nat))
    (hall : Blue.Gc.AllKey k g) (hts : g.Pairwise (fun a b => b.ts < a.ts))
    (p : Blue.Gc.Policy) (now : Nat) (hp : p.selectsNewest now = true)
    (hpay : ∀ e ∈ g, (pay e.key e.ts = some none ↔ e.tomb = true)) :
    ∀ N, Newest (Blue.Gc.ents g) k N →
      N ∈ Blue.Gc.gcLoopD g k [] (p.det now none)
      ∨ (pay N.1 N.2 = some none
          ∧ ∀ o, Newest (Blue.Gc.gcLoopD g k [] (p.det now none)) k o → pay o.1 o.2 = some none) := by
  intro N hN
  cases g with
  | nil => exact absurd hN.1 (by simp [Blue.Gc.ents])
  | cons e0 g' =>
  have hk0 : e0.key = k := hall e0 (List.mem_cons_self ..)
  have hts' := List.pairwise_cons.mp hts
  -- the newest version is the head of the run
  have hN0 : N = (e0.key, e0.ts) := by
    obtain ⟨e, he, hNe⟩ := mem_ents hN.1
    have h1 := hN.2.2 (e0.key, e0.ts) (ents_mem (List.mem_cons_self ..)) hk0
    rcases List.mem_cons.mp he with h | h
    · rw [hNe, h]
    · have h2 := hts'.1 e h
      rw [hNe] at h1
      have h1' : e0.ts ≤ e.ts := h1
      omega
  cases ht : e0.tomb with
  | false =>
    obtain ⟨out, hout⟩ := Blue.Gc.newest_value_kept_policy p now hp e0 g' ht
    left
    rw [← hk0, hout, hN0]
    exact List.mem_cons_self ..
  | true =>
    right
    refine ⟨by rw [hN0]; exact (hpay e0 (List.mem_cons_self ..)).mpr ht, ?_⟩
    intro o ho
    rcases split_tombs (e0 :: g') with hall' | ⟨lead, v, rest, hsplit, hlead, hv⟩
    · rw [Blue.Gc.only_tombstones_dropped (e0 :: g') hall' k [] _] at ho
      exact absurd ho.1 (by simp)
    · have hallg : Blue.Gc.AllKey k (lead ++ v :: rest) := by rw [← hsplit]; exact hall
      have hl : ∀ e ∈ lead, e.tomb = true ∧ e.key = k :=
        fun e he => ⟨hlead e he, hallg e (List.mem_append_left _ he)⟩
      have hvk : v.key = k := hallg v (List.mem_append_right _ (List.mem_cons_self ..))
      have hr : Blue.Gc.AllKey k rest :=
        fun e he => hallg e (List.mem_append_right _ (List.mem_cons_of_mem _ he))
      have hsub := Blue.Gc.gcLoopD_sublist (e0 :: g') k [] (p.det now none)
      simp only [List.map_nil, List.nil_append] at hsub
      have hdesc : (Blue.Gc.ents (e0 :: g')).Pairwise (fun a b => b.2 < a.2) := by
        unfold Blue.Gc.ents
        rw [List.pairwise_map]
        exact hts
      have hRdesc := hdesc.sublist hsub
      rw [hsplit] at ho hRdesc
      rcases Blue.Gc.key_keeps_head_or_goes k lead v rest hl hv hvk hr (by rw [← hsplit]; exact hts)
        (p.det now none) with hnil | ⟨out, hout⟩
      · rw [hnil] at ho
        exact absurd ho.1 (by simp)
      · rw [hout] at ho hRdesc
        -- `lead` is not empty: the head of the run is a tombstone
        cases hlast : (lead.map (·.ts)).getLast? with
        | none =>
          exfalso
          have hnil : lead = [] := by simpa using hlast
          rw [hnil, List.nil_append] at hsplit
          have : e0 = v := (List.cons.inj hsplit).1
          rw [this, hv] at ht
          cases ht
        | some t =>
          have hemit : Blue.Gc.emit k (lead.map (·.ts)) v.ts = [(k, t), (k, v.ts)] := by
            unfold Blue.Gc.emit
            rw [hlast]
          rw [hemit] at ho hRdesc
          have hto : t ≤ o.2 := ho.2.2 (k, t) (by simp) rfl
          have ho1 : o = (k, t) := by
            rcases List.mem_append.mp ho.1 with h | h
            · rcases List.mem_cons.mp h with h | h
              · exact h
              · have := (List.pairwise_cons.mp hRdesc).1 o (List.mem_append_left _ h)
                omega
            · have := (List.pairwise_cons.mp hRdesc).1 o (List.mem_append_right _ h)
              omega
          obtain ⟨ys, hys⟩ := List.getLast?_eq_some_iff.mp hlast
          have htm : t ∈ lead.map (·.ts) := by rw [hys]; simp
          obtain ⟨tl, htl, rfl⟩ := List.mem_map.mp htm
          have htlg : tl ∈ e0 :: g' := by rw [hsplit]; exact List.mem_append_left _ htl
          rw [ho1]
          have := (hpay tl htlg).mpr (hlead tl htl)
          rw [(hl tl htl).2] at this
          exact this

theorem eq_of_key_nodup : ∀ (gs : List (Nat × List (Blue.Gc.Ent Nat))), (gs.map (·.1)).Nodup →
    ∀ q ∈ gs, ∀ q' ∈ gs, q.1 = q'.1 → q = q'
  | [], _, _, h, _, _, _ => by cases h
  | a :: gs, hn, q, hq, q', hq', hk => by
    rw [List.map_cons, List.nodup_cons] at hn
    rcases List.mem_cons.mp hq with h | h
    · rcases List.mem_cons.mp hq' with h' | h'
      · rw [h, h']
      · exfalso
        apply hn.1
        rw [← h, hk]
        exact List.mem_map.mpr ⟨q', h', rfl⟩
    · rcases List.mem_cons.mp hq' with h' | h'
      · exfalso
        apply hn.1
        rw [← h', ← hk]
        exact List.mem_map.mpr ⟨q, h, rfl⟩
      · exact eq_of_key_nodup gs hn.2 q h q' h' hk

/-- **gcP_meets_obligation**: the merged input as runs of pairwise distinct keys, each strictly
    newest-first (what the merging cursor delivers), the payload map agreeing with the tombstone
    flags; then for every well-formed policy that selects newest versions (`versions = n`,
    `ttl_micros` at lsmtk's `now = 0`, `any` with such a member, `all` of such members) the
    collector's output meets `hsub` and `hnewest` of `GcCompactionOk` -/
theorem gcP_meets_obligation (pay : Nat → Nat → Option Payload) (p : Blue.Gc.Policy) (hwf : p.WF)
    (now : Nat) (k0 : Option Nat) (hp : p.selectsNewest now = true)
    (gs : List (Nat × List (Blue.Gc.Ent Nat))) (hr : Blue.Gc.Runs gs)
    (hts : ∀ q ∈ gs, q.2.Pairwise (fun a b => b.ts < a.ts))
    (hpay : ∀ e ∈ Blue.Gc.flat gs, (pay e.key e.ts = some none ↔ e.tomb = true)) :
    (∀ e ∈ Blue.Gc.gcP p now k0 (Blue.Gc.flat gs), e ∈ Blue.Gc.ents (Blue.Gc.flat gs))
    ∧ NewestKept pay (Blue.Gc.ents (Blue.Gc.flat gs)) (Blue.Gc.gcP p now k0 (Blue.Gc.flat gs)) := by
  refine ⟨fun e he => (Blue.Gc.gcP_sublist p now k0 _).subset he, ?_⟩
  intro N hN
  rw [Blue.Gc.gcP_runs p hwf now k0 gs hr]
  have hflat : ∀ q ∈ gs, ∀ e ∈ q.2, e ∈ Blue.Gc.flat gs :=
    fun q hq e he => List.mem_flatMap.mpr ⟨q, hq, he⟩
  obtain ⟨e, he, hNe⟩ := mem_ents hN.1
  obtain ⟨q, hq, heq⟩ := List.mem_flatMap.mp he
  have hkq : N.1 = q.1 := by rw [hNe]; exact hr.allKey q hq e heq
  have hNq : Newest (Blue.Gc.ents q.2) q.1 N :=
    ⟨by rw [hNe]; exact ents_mem heq, hkq, fun e' he' hk' => hN.2.2 e' (by
      obtain ⟨x, hx, rfl⟩ := mem_ents he'
      exact ents_mem (hflat q hq x hx)) (by rw [hk', hkq])⟩
  have hsubq : ∀ q' ∈ gs, ∀ o ∈ Blue.Gc.gcLoopD q'.2 q'.1 [] (p.det now none), o.1 = q'.1 := by
    intro q' hq' o ho
    have hs := Blue.Gc.gcLoopD_sublist q'.2 q'.1 [] (p.det now none)
    simp only [List.map_nil, List.nil_append] at hs
    obtain ⟨x, hx, rfl⟩ := mem_ents (hs.subset ho)
    exact hr.allKey q' hq' x hx
  rcases run_meets pay q.1 q.2 (hr.allKey q hq) (hts q hq) p now hp
    (fun x hx => hpay x (hflat q hq x hx)) N hNq with h1 | ⟨h1, h2⟩
  · exact Or.inl (List.mem_flatMap.mpr ⟨q, hq, h1⟩)
  · refine Or.inr ⟨h1, ?_⟩
    intro o ho
    obtain ⟨q', hq', hoq'⟩ := List.mem_flatMap.mp ho.1
    have hk' : q'.1 = q.1 := by rw [← hsubq q' hq' o hoq', ho.2.1, hkq]
    have hqq : q' = q := eq_of_key_nodup gs hr.distinct q' hq' q hq hk'
    rw [hqq] at hoq'
    exact h2 o ⟨hoq', by rw [ho.2.1, hkq], fun e' he' hk'' =>
      ho.2.2 e' (List.mem_flatMap.mpr ⟨q, hq, he'⟩) (by rw [hk'', hkq])⟩

/-- the obligations `hsub` and `hnewest` of a step whose inputs are the merged run and whose outputs
    hold what the collector returned -/
theorem obligations_of_collector (pay : Nat → Nat → Option Payload) (p : Blue.Gc.Policy) (hwf : p.WF)
    (now : Nat) (k0 : Option Nat) (hp : p.selectsNewest now = true)
    (gs : List (Nat × List (Blue.Gc.Ent Nat))) (hr : Blue.Gc.Runs gs)
    (hts : ∀ q ∈ gs, q.2.Pairwise (fun a b => b.ts < a.ts))
    (hpay : ∀ e ∈ Blue.Gc.flat gs, (pay e.key e.ts = some none ↔ e.tomb = true))
    (ins outs : List (Ver Nat)) (hin : ∀ e, e ∈ ins ↔ e ∈ Blue.Gc.ents (Blue.Gc.flat gs))
    (hout : ∀ e, e ∈ outs ↔ e ∈ Blue.Gc.gcP p now k0 (Blue.Gc.flat gs)) :
    (∀ e ∈ outs, e ∈ ins) ∧ NewestKept pay ins outs := by
  obtain ⟨h1, h2⟩ := gcP_meets_obligation pay p hwf now k0 hp gs hr hts hpay
  exact ⟨fun e he => (hin e).mpr (h1 e ((hout e).mp he)), h2.congr hin hout⟩

end Blue.StoreHistGc

#print axioms Blue.StoreHistGc.gc_step_preserves_inv
#print axioms Blue.StoreHistGc.gc_step_reads
#print axioms Blue.StoreHistGc.gc_step_load_unchanged
#print axioms Blue.StoreHistGc.history_invariant_gc
#print axioms Blue.StoreHistGc.history_refines_gc
#print axioms Blue.StoreHistGc.history_load_gc
#print axioms Blue.StoreHistGc.gcP_meets_obligation
#print axioms Blue.StoreHistGc.obligations_of_collector
