import Blue.Proofs.ManiCrash
/-! Closure of the manifest's crash theorem under reopening: `Manifest::open` on ANY crash image
    (nothing pending) is itself crash safe (`reopen_prefix_safe`: every prefix of its rollover
    reopens to the same state), its completion re-establishes the invariant `crash_recover` starts
    from (`inv_after_reopen`), hence one incarnation — open, any history, cut anywhere, inside the
    open too — extends the state by a prefix of its own edits that contains every acknowledged one
    (`incarnation_ok`), and so does any number of incarnations in a row (`incarnations_ok`). -/
namespace Blue.ManiCrash
variable {St E : Type}

theorem replay_rollup_law (A : Algebra St E) (hlaw : Lawful A) (es : List E) :
    replay A [A.rollup (replay A es)] = replay A es := by
  unfold replay; simp only [List.foldl_cons, List.foldl_nil]; exact hlaw _

/-- after a crash image `g` (nothing pending) the reopen's rollover re-establishes the crash
    theorem's invariant with `sofar := g.mani.durable`, so `crash_recover` applies again from there -/
theorem inv_after_reopen (A : Algebra St E) (hlaw : Lawful A) (g : Fs E) (hp : g.mani.pending = []) :
    Inv A (run g (reopenOps A g)) g.mani.durable := by
  obtain ⟨⟨d, p⟩, tmp, bs, linked⟩ := g
  simp only at hp; subst hp
  have hroll := replay_rollup_law A hlaw d
  cases linked <;>
    simp [reopenOps, run, step] <;> exact ⟨rfl, hroll⟩

/-- a crash DURING the reopen: every prefix of the rollover `Manifest::open` performs on a crash
    image leaves a directory that reopens — under both persistence models — to the state the image
    reopens to -/
theorem reopen_prefix_safe (A : Algebra St E) (hlaw : Lawful A) (g : Fs E) (hp : g.mani.pending = []) (m : Nat) :
    recoverB A (run g ((reopenOps A g).take m)) = replay A g.mani.durable
    ∧ recoverA A (run g ((reopenOps A g).take m)) = replay A g.mani.durable := by
  obtain ⟨⟨d, p⟩, tmp, bs, linked⟩ := g
  simp only at hp; subst hp
  have hroll := replay_rollup_law A hlaw d
  cases linked
  · rcases m with _ | _ | _ | _ | _ | m <;>
      simp [reopenOps, run, step, recoverA, recoverB, hroll]
  · rcases m with _ | _ | _ | _ | m <;>
      simp [reopenOps, run, step, recoverA, recoverB, hroll]

theorem reopenOps_quiet (A : Algebra St E) (g : Fs E) (m : Nat) :
    acked ((reopenOps A g).take m) = 0 ∧ appended ((reopenOps A g).take m) = 0 := by
  unfold reopenOps
  cases g.linked <;> rcases m with _ | _ | _ | _ | _ | _ | m <;> simp [acked, appended]

/-- the persistence model of a crash -/
def crash (b : Bool) (fs : Fs E) : Fs E := if b then crashB fs else crashA fs

theorem crash_pending (b : Bool) (fs : Fs E) : (crash b fs).mani.pending = [] := by
  cases b <;> rfl

theorem replay_crash (A : Algebra St E) (b : Bool) (fs : Fs E) :
    replay A (crash b fs).mani.durable = if b then recoverB A fs else recoverA A fs := by
  cases b <;> rfl

/-- one incarnation: `Manifest::open` on what is there, a history, and the point `n` of the
    incarnation's system-call sequence where it is cut by a crash under persistence model `b` -/
structure Inc (E : Type) where
  h : List (Client E)
  n : Nat
  b : Bool

def incOps (A : Algebra St E) (g : Fs E) (i : Inc E) : List (Op E) :=
  (reopenOps A g ++ opsOf A i.h g.mani.durable).take i.n

/-- the directory the incarnation leaves behind -/
def nextFs (A : Algebra St E) (g : Fs E) (i : Inc E) : Fs E := crash i.b (run g (incOps A g i))

/-- **one incarnation on any crash image**: whatever the cut — inside the rollover of the open or
    anywhere in the history after it — and whichever persistence model, a reopen yields the state
    the image reopened to, extended by a prefix of the incarnation's edits that contains every
    acknowledged one -/
theorem incarnation_ok (A : Algebra St E) (hlaw : Lawful A) (g : Fs E) (hp : g.mani.pending = [])
    (h : List (Client E)) (n : Nat) :
    Ok A (recoverB A (run g ((reopenOps A g ++ opsOf A h g.mani.durable).take n))) (g.mani.durable ++ editsOf h)
      (g.mani.durable.length + acked ((reopenOps A g ++ opsOf A h g.mani.durable).take n))
      (g.mani.durable.length + appended ((reopenOps A g ++ opsOf A h g.mani.durable).take n))
    ∧ Ok A (recoverA A (run g ((reopenOps A g ++ opsOf A h g.mani.durable).take n))) (g.mani.durable ++ editsOf h)
      (g.mani.durable.length + acked ((reopenOps A g ++ opsOf A h g.mani.durable).take n))
      (g.mani.durable.length + appended ((reopenOps A g ++ opsOf A h g.mani.durable).take n)) := by
  rw [List.take_append]
  rcases Nat.lt_or_ge n (reopenOps A g).length with hn | hn
  · have h0 : n - (reopenOps A g).length = 0 := by omega
    rw [h0, List.take_zero, List.append_nil]
    obtain ⟨q1, q2⟩ := reopenOps_quiet A g n
    obtain ⟨r1, r2⟩ := reopen_prefix_safe A hlaw g hp n
    rw [q1, q2, r1, r2]
    have hk : replay A ((g.mani.durable ++ editsOf h).take g.mani.durable.length) = replay A g.mani.durable := by
      rw [take_len_append]
    exact ⟨⟨g.mani.durable.length, Nat.le_refl _, Nat.le_refl _, hk.symm⟩,
           ⟨g.mani.durable.length, Nat.le_refl _, Nat.le_refl _, hk.symm⟩⟩
  · rw [List.take_of_length_le hn, run_append, acked_append, appended_append]
    obtain ⟨q1, q2⟩ := reopenOps_quiet A g (reopenOps A g).length
    rw [List.take_length] at q1 q2
    rw [q1, q2, Nat.zero_add, Nat.zero_add]
    exact crash_recover A hlaw h _ _ (inv_after_reopen A hlaw g hp) _

/-- the same, read off the directory the incarnation leaves behind (nothing pending: both models of
    the NEXT reopen see the same) -/
theorem incarnation_step (A : Algebra St E) (hlaw : Lawful A) (g : Fs E) (hp : g.mani.pending = []) (i : Inc E) :
    (nextFs A g i).mani.pending = []
    ∧ ∃ k, acked (incOps A g i) ≤ k ∧ k ≤ appended (incOps A g i)
      ∧ replay A (nextFs A g i).mani.durable
          = ((editsOf i.h).take k).foldl A.apply (replay A g.mani.durable) := by
  refine ⟨crash_pending _ _, ?_⟩
  obtain ⟨⟨kB, b1, b2, b3⟩, ⟨kA, a1, a2, a3⟩⟩ := incarnation_ok A hlaw g hp i.h i.n
  have key : ∀ k, g.mani.durable.length ≤ k →
      replay A ((g.mani.durable ++ editsOf i.h).take k)
        = ((editsOf i.h).take (k - g.mani.durable.length)).foldl A.apply (replay A g.mani.durable) := by
    intro k hk
    rw [List.take_append, List.take_of_length_le hk, replay_append]
  unfold nextFs
  rw [replay_crash]
  cases i.b
  · refine ⟨kA - g.mani.durable.length, ?_, ?_, ?_⟩
    · unfold incOps; omega
    · unfold incOps; omega
    · simp only [Bool.false_eq_true, if_false]
      unfold incOps; rw [a3, key kA (by omega)]
  · refine ⟨kB - g.mani.durable.length, ?_, ?_, ?_⟩
    · unfold incOps; omega
    · unfold incOps; omega
    · simp only [if_true]
      unfold incOps; rw [b3, key kB (by omega)]

def runIncs (A : Algebra St E) : Fs E → List (Inc E) → Fs E
  | g, [] => g
  | g, i :: is => runIncs A (nextFs A g i) is

/-- every incarnation of the run extends the state its predecessor left by a prefix of its own
    edits, no shorter than those acknowledged, no longer than those issued -/
def IncsOk (A : Algebra St E) : Fs E → List (Inc E) → Prop
  | _, [] => True
  | g, i :: is =>
    (∃ k, acked (incOps A g i) ≤ k ∧ k ≤ appended (incOps A g i)
      ∧ replay A (nextFs A g i).mani.durable = ((editsOf i.h).take k).foldl A.apply (replay A g.mani.durable))
    ∧ IncsOk A (nextFs A g i) is

/-- **any number of incarnations and crashes** (a crash during a reopen, edits after a reopen, a
    second crash, …): each opens whatever its predecessor left -/
theorem incarnations_ok (A : Algebra St E) (hlaw : Lawful A) :
    ∀ (is : List (Inc E)) (g : Fs E), g.mani.pending = [] →
      IncsOk A g is ∧ (runIncs A g is).mani.pending = []
  | [], _, hp => ⟨trivial, hp⟩
  | i :: is, g, hp => by
    obtain ⟨h1, h2⟩ := incarnation_step A hlaw g hp i
    obtain ⟨h3, h4⟩ := incarnations_ok A hlaw is (nextFs A g i) h1
    exact ⟨⟨h2, h3⟩, h4⟩

end Blue.ManiCrash

#print axioms Blue.ManiCrash.inv_after_reopen
#print axioms Blue.ManiCrash.reopen_prefix_safe
#print axioms Blue.ManiCrash.incarnation_ok
#print axioms Blue.ManiCrash.incarnations_ok
