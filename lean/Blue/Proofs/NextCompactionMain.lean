import Blue.Proofs.NextCompactionClosed
/-! **C01** `nextCompaction_closed`, `nextCompaction_respects_ongoing`, `nextCompaction_within`:
    where a compaction returned by the function model of `Version::next_compaction` comes from
    (`nextCompaction_origin`: a trivial move that passed its side conditions, or a candidate of
    `find_best_compaction` over the bounds `compute_bounds` computed, expanded, that passed
    `may_choose_compaction` and the file limits — whatever the scores, the level curve, the
    mandatory rule and the floating-point tables decided), and the properties every such
    compaction has. -/
namespace Blue.NextCompaction
open Blue.Spec

theorem firstSome_some {α β : Type} (f : α → Option β) : ∀ (l : List α) (b : β),
    firstSome f l = some b → ∃ a ∈ l, f a = some b
  | [], _, h => by cases h
  | a :: as, b, h => by
    unfold firstSome at h
    cases hf : f a with
    | some b' =>
      rw [hf] at h
      cases h
      exact ⟨a, List.mem_cons_self, hf⟩
    | none =>
      rw [hf] at h
      obtain ⟨a', ha', hfa'⟩ := firstSome_some f as b h
      exact ⟨a', List.mem_cons_of_mem _ ha', hfa'⟩

theorem foldl_inv {α β : Type} (P : β → Prop) (f : β → α → β) : ∀ (l : List α) (b : β),
    P b → (∀ b a, a ∈ l → P b → P (f b a)) → P (l.foldl f b)
  | [], _, hb, _ => hb
  | a :: as, b, hb, hstep => by
    simp only [List.foldl_cons]
    exact foldl_inv P f as (f b a) (hstep b a List.mem_cons_self hb)
      (fun b' a' ha' => hstep b' a' (List.mem_cons_of_mem _ ha'))

/-! ## `find_best_compaction` -/

def lvFiles (t : Tree) (bounds : List Slice) (upper : Nat) : List File :=
  sliceFiles (level t upper) (bounds.getD upper ⟨0, 0, 0, 0⟩)

/-- the compaction `find_best_compaction` builds at `upper` -/
def stepCore (o : Opts) (t : Tree) (lower : Nat) (bounds : List Slice) (upper : Nat) (prev : List Int) (inputs : List Nat) : Core :=
  expand o t ⟨lower, upper, (bounds.getD upper ⟨0, 0, 0, 0⟩).first, (bounds.getD upper ⟨0, 0, 0, 0⟩).last,
    inputs ++ (lvFiles t bounds upper).map (·.id), (sumOf (prev ++ [overlapOf (lvFiles t bounds upper)])).toNat⟩

def stepTake (o : Opts) (og : List Core) (t : Tree) (lower : Nat) (bounds : List Slice) (upper : Nat) (prev : List Int)
    (inputs : List Nat) (best : Int) : Bool :=
  decide (lower < upper) && decide (accOf prev - overlapOf (lvFiles t bounds upper) > best)
    && mayChoose o og (stepCore o t lower bounds upper prev inputs)

theorem bestLoop_succ (o : Opts) (og : List Core) (t : Tree) (lower : Nat) (bounds : List Slice)
    (fuel upper : Nat) (prev : List Int) (inputs : List Nat) (cand : Option Core) (best : Int) :
    bestLoop o og t lower bounds (fuel + 1) upper prev inputs cand best =
      if upper ≥ t.length then (cand, best)
      else if (decide (sumOf (prev ++ [overlapOf (lvFiles t bounds upper)]) > asI64 o.maxCompactionBytes) && lower != 0) = true then (cand, best)
      else if (decide ((inputs ++ (lvFiles t bounds upper).map (·.id)).length > o.maxCompactionFiles)
          || decide ((inputs ++ (lvFiles t bounds upper).map (·.id)).length > o.maxOpenFiles)) = true then (cand, best)
      else if ((bounds.getD upper ⟨0, 0, 0, 0⟩).lo == (bounds.getD upper ⟨0, 0, 0, 0⟩).hi) = true then
        (if stepTake o og t lower bounds upper prev inputs best = true then some (stepCore o t lower bounds upper prev inputs) else cand,
         if stepTake o og t lower bounds upper prev inputs best = true then accOf prev - overlapOf (lvFiles t bounds upper) else best)
      else bestLoop o og t lower bounds fuel (upper + 1) (prev ++ [overlapOf (lvFiles t bounds upper)])
        (inputs ++ (lvFiles t bounds upper).map (·.id))
        (if stepTake o og t lower bounds upper prev inputs best = true then some (stepCore o t lower bounds upper prev inputs) else cand)
        (if stepTake o og t lower bounds upper prev inputs best = true then accOf prev - overlapOf (lvFiles t bounds upper) else best) := rfl

/-- the candidate for the levels `lower ..= lower + d` over given bounds -/
def candOver (o : Opts) (t : Tree) (lower : Nat) (bounds : List Slice) (d sz : Nat) : Core :=
  expand o t ⟨lower, lower + d, (bounds.getD (lower + d) ⟨0, 0, 0, 0⟩).first, (bounds.getD (lower + d) ⟨0, 0, 0, 0⟩).last,
    baseIds t bounds lower (d + 1), sz⟩

/-- whatever `find_best_compaction` returns was built at some `upper = lower + d`, `d ≥ 1`, from the
    slices of levels `lower ..= upper`, within the file limits, expanded, and passed
    `may_choose_compaction` -/
theorem bestLoop_origin (o : Opts) (og : List Core) (t : Tree) (lower : Nat) (bounds : List Slice) (Q : Core → Prop)
    (hQ : ∀ d sz, 1 ≤ d → lower + d < t.length →
      (baseIds t bounds lower (d + 1)).length ≤ o.maxCompactionFiles →
      (baseIds t bounds lower (d + 1)).length ≤ o.maxOpenFiles →
      mayChoose o og (candOver o t lower bounds d sz) = true → Q (candOver o t lower bounds d sz)) :
    ∀ (fuel d : Nat) (prev : List Int) (cand : Option Core) (best : Int), (∀ c, cand = some c → Q c) →
      ∀ c, (bestLoop o og t lower bounds fuel (lower + d) prev (baseIds t bounds lower d) cand best).1 = some c → Q c
  | 0, _, _, cand, _, hc, c, h => hc c h
  | fuel + 1, d, prev, cand, best, hc, c, h => by
    rw [bestLoop_succ] at h
    split at h
    · exact hc c h
    · rename_i hlen
      split at h
      · exact hc c h
      · split at h
        · exact hc c h
        · rename_i hlim
          have hinp : baseIds t bounds lower d ++ (lvFiles t bounds (lower + d)).map (·.id) = baseIds t bounds lower (d + 1) := by
            rw [baseIds_succ]; rfl
          rw [hinp] at hlim h
          simp only [Bool.or_eq_true, decide_eq_true_eq, not_or, Nat.not_lt] at hlim
          have hc' : ∀ c, (if stepTake o og t lower bounds (lower + d) prev (baseIds t bounds lower d) best = true
              then some (stepCore o t lower bounds (lower + d) prev (baseIds t bounds lower d)) else cand) = some c → Q c := by
            intro c' hc''
            split at hc''
            · rename_i htake
              cases hc''
              unfold stepTake at htake
              simp only [Bool.and_eq_true, decide_eq_true_eq] at htake
              have hcore : stepCore o t lower bounds (lower + d) prev (baseIds t bounds lower d)
                  = candOver o t lower bounds d (sumOf (prev ++ [overlapOf (lvFiles t bounds (lower + d))])).toNat := by
                unfold stepCore candOver
                rw [hinp]
              rw [hcore] at htake ⊢
              exact hQ d _ (by omega) (by omega) hlim.1 hlim.2 htake.2
            · exact hc c' hc''
          split at h
          · exact hc' c h
          · rw [Nat.add_assoc] at h
            exact bestLoop_origin o og t lower bounds Q hQ fuel (d + 1) _ _ _ hc' c h

theorem findBest_origin (o : Opts) (og : List Core) (t : Tree) (lower : Nat) (bounds : List Slice) (Q : Core → Prop)
    (hQ : ∀ d sz, 1 ≤ d → lower + d < t.length →
      (baseIds t bounds lower (d + 1)).length ≤ o.maxCompactionFiles →
      (baseIds t bounds lower (d + 1)).length ≤ o.maxOpenFiles →
      mayChoose o og (candOver o t lower bounds d sz) = true → Q (candOver o t lower bounds d sz))
    {c : Core} {sc : Int} (h : findBest o og t lower bounds = (some c, sc)) : Q c := by
  apply bestLoop_origin o og t lower bounds Q hQ (t.length + 1) 0 [] none i64Min (by intro c h; cases h) c
  have : (findBest o og t lower bounds).1 = some c := by rw [h]
  exact this

/-! ## `next_compaction` -/

/-- where a returned compaction comes from -/
theorem nextCompaction_origin (n : Num) (o : Opts) (t : Tree) (og : List Core) (Q : Core → Prop)
    (hT : ∀ lower f c, (lower = 0 → oldest (level t 0) = some f) → (0 < lower → f ∈ level t lower) →
      trivialOne o og t lower f = some c → Q c)
    (hB : ∀ lower first last d sz,
      (lower = 0 → first = minKey ((level t 0).map (·.first)) ∧ last = maxKey ((level t 0).map (·.last))) →
      1 ≤ d → lower + d < t.length →
      (baseIds t (computeBounds t lower first last) lower (d + 1)).length ≤ o.maxCompactionFiles →
      (baseIds t (computeBounds t lower first last) lower (d + 1)).length ≤ o.maxOpenFiles →
      mayChoose o og (candOver o t lower (computeBounds t lower first last) d sz) = true →
      Q (candOver o t lower (computeBounds t lower first last) d sz))
    {c : Core} (h : nextCompaction n o t og = some c) : Q c := by
  have hF : ∀ lower first last c sc,
      (lower = 0 → first = minKey ((level t 0).map (·.first)) ∧ last = maxKey ((level t 0).map (·.last))) →
      findBest o og t lower (computeBounds t lower first last) = (some c, sc) → Q c := by
    intro lower first last c sc hh hfb
    exact findBest_origin o og t lower _ Q (fun d sz h1 h2 h3 h4 h5 => hB lower first last d sz hh h1 h2 h3 h4 h5) hfb
  have noneQ : ∀ c, (none : Option Core) = some c → Q c := fun _ h => nomatch h
  unfold nextCompaction at h
  split at h
  · -- a trivial move
    rename_i c' hfs
    cases h
    obtain ⟨lower, _, htm⟩ := firstSome_some _ _ _ hfs
    unfold trivialMove at htm
    split at htm
    · rename_i h0
      subst h0
      split at htm
      · cases htm
      · rename_i f hold
        exact hT 0 f c (fun _ => hold) (fun h => absurd h (Nat.lt_irrefl 0)) htm
    · rename_i h0
      obtain ⟨f, hf, hone⟩ := firstSome_some _ _ _ htm
      exact hT lower f c (fun h => absurd h h0) (fun _ => hf) hone
  · -- a candidate of `find_best_compaction`
    have hsel : (∀ c, ((deeperLevels t.length).foldl (levelStep n o og t) (l0Stage o og t)).cand = some c → Q c)
        ∧ (∀ c, ((deeperLevels t.length).foldl (levelStep n o og t) (l0Stage o og t)).mand = some c → Q c) := by
      apply foldl_inv (fun st : Sel => (∀ c, st.cand = some c → Q c) ∧ (∀ c, st.mand = some c → Q c))
      · -- level 0
        unfold l0Stage
        split
        · exact ⟨noneQ, noneQ⟩
        · dsimp only
          split
          · rename_i c0 sc hfb
            have hq := hF 0 _ _ c0 sc (fun _ => ⟨rfl, rfl⟩) hfb
            split
            · exact ⟨noneQ, fun c h => by cases h; exact hq⟩
            · exact ⟨fun c h => by cases h; exact hq, noneQ⟩
          · exact ⟨noneQ, noneQ⟩
      · intro st lower hlow hst
        have hpos : 0 < lower := by
          unfold deeperLevels at hlow
          obtain ⟨k, hk, rfl⟩ := List.mem_map.mp hlow
          rw [List.mem_range] at hk
          omega
        unfold levelStep
        split
        · exact hst
        · apply foldl_inv (fun st : Sel => (∀ c, st.cand = some c → Q c) ∧ (∀ c, st.mand = some c → Q c)) _ _ _ hst
          intro st' f _ hst'
          unfold fileStep
          split
          · rename_i c0 sc hfb
            have hq := hF lower f.first f.last c0 sc (fun h => by omega) hfb
            unfold fileUpdate
            by_cases hA : (mandatoryFlag o t && (level t lower).all (fun x => c0.inputs.contains x.id)
                && decide (c0.size < mandSize st')) = true
            · rw [if_pos hA]
              exact ⟨hst'.1, fun c h => by cases h; exact hq⟩
            · rw [if_neg hA]
              by_cases hB' : sc > st'.best
              · rw [if_pos hB']
                exact ⟨fun c h => by cases h; exact hq, hst'.2⟩
              · rw [if_neg hB']
                exact hst'
          · exact hst'
    dsimp only at h
    split at h
    · rename_i m hm
      cases h
      exact hsel.2 c hm
    · split at h
      · rename_i c' hc'
        split at h
        · cases h; exact hsel.1 c hc'
        · cases h
      · cases h

/-- the tree invariant as the caller of `next_compaction` holds it -/
theorem hull_covers (t : Tree) : ∀ g ∈ level t 0,
    minKey ((level t 0).map (·.first)) ≤ g.first ∧ g.last ≤ maxKey ((level t 0).map (·.last)) := by
  intro g hg
  exact ⟨minKey_le (List.mem_map.mpr ⟨g, hg, rfl⟩), le_maxKey (List.mem_map.mpr ⟨g, hg, rfl⟩)⟩

/-- **every compaction the selector returns is closed** on the tree it was chosen in: for all
    trees whose files are well-formed, whose levels below level 0 are sorted by key and whose file
    ids are distinct, all options, all compactions in flight and all floating-point tables -/
theorem nextCompaction_closed (n : Num) (o : Opts) (t : Tree) (og : List Core) (hinv : Inv t)
    {c : Core} (h : nextCompaction n o t og = some c) : Closed (tagTree t c) := by
  apply nextCompaction_origin n o t og (fun c => Closed (tagTree t c)) ?_ ?_ h
  · intro lower f c h0 hpos hone
    obtain ⟨h1, _, h3, rfl, _⟩ := trivialOne_some hone
    unfold tagTree
    dsimp only
    by_cases hl : lower = 0
    · subst hl
      exact trivialOne_closed0 hinv (h0 rfl) h3
    · rcases h1 with h1 | h1
      · exact absurd h1 hl
      · exact trivialOne_closed hinv (by omega) (hpos (by omega)) h1 h3
  · intro lower first last d sz hh _ hup _ _ _
    have hb := computeBounds_ok hinv lower first last (by
      intro h0 g hg
      obtain ⟨e1, e2⟩ := hh h0
      rw [e1, e2]; exact hull_covers t g hg)
    exact (expand_closed o hinv hb hup sz).1

/-- a returned compaction passed `may_choose_compaction`: it overlaps no compaction in flight (in
    levels and key range at once) and fits the open-file budget left by them -/
theorem nextCompaction_may_choose (n : Num) (o : Opts) (t : Tree) (og : List Core)
    {c : Core} (h : nextCompaction n o t og = some c) : mayChoose o og c = true := by
  apply nextCompaction_origin n o t og (fun c => mayChoose o og c = true) ?_ ?_ h
  · intro lower f c _ _ hone
    exact (trivialOne_some hone).2.2.2.2
  · intro lower first last d sz _ _ _ _ _ hm
    exact hm

/-- every input of a returned compaction is a file of the tree at one of its levels and inside
    its key range -/
theorem nextCompaction_inputs_within (n : Num) (o : Opts) (t : Tree) (og : List Core) (hinv : Inv t)
    {c : Core} (h : nextCompaction n o t og = some c) : InputsWithin t c := by
  apply nextCompaction_origin n o t og (fun c => InputsWithin t c) ?_ ?_ h
  · intro lower f c h0 hpos hone
    obtain ⟨_, _, _, rfl, _⟩ := trivialOne_some hone
    intro id hid
    simp only [List.mem_singleton] at hid
    subst hid
    have hf : f ∈ level t lower := by
      by_cases hl : lower = 0
      · subst hl
        obtain ⟨init, hinit⟩ := l0Search_oldest (h0 rfl)
        exact mem_l0Search.mp (by rw [hinit]; simp)
      · exact hpos (by omega)
    exact ⟨lower, f, hf, rfl, Nat.le_refl _, Nat.le_succ _, Nat.le_refl _, Nat.le_refl _⟩
  · intro lower first last d sz hh _ hup _ _ _
    have hb := computeBounds_ok hinv lower first last (by
      intro h0 g hg
      obtain ⟨e1, e2⟩ := hh h0
      rw [e1, e2]; exact hull_covers t g hg)
    exact (expand_closed o hinv hb hup sz).2

/-- a compaction in flight whose inputs, as far as they are still files of the tree, lie at its
    levels and inside its key range (true of every compaction the selector itself returned:
    `nextCompaction_inputs_within`) -/
def OngoingWf (t : Tree) (g : Core) : Prop :=
  ∀ id ∈ g.inputs, ∀ l f, f ∈ level t l → f.id = id → g.lower ≤ l ∧ l ≤ g.upper ∧ g.first ≤ f.first ∧ f.last ≤ g.last

/-- a compaction the selector returned is a well-formed compaction in flight -/
theorem nextCompaction_inputs_within_wf {n : Num} {o : Opts} {t : Tree} {og : List Core} (hinv : Inv t)
    {c : Core} (h : nextCompaction n o t og = some c) : OngoingWf t c := by
  intro id hid l f hf he
  obtain ⟨l', f', hf', he', h1, h2, h3, h4⟩ := nextCompaction_inputs_within n o t og hinv h id hid
  obtain ⟨e1, e2⟩ := hinv.ids_unique hf hf' (he.trans he'.symm)
  subst e1; subst e2
  exact ⟨h1, h2, h3, h4⟩

/-- **the chosen inputs are disjoint from the inputs of every compaction in flight** -/
theorem nextCompaction_respects_ongoing (n : Num) (o : Opts) (t : Tree) (og : List Core) (hinv : Inv t)
    (hog : ∀ g ∈ og, OngoingWf t g) {c : Core} (h : nextCompaction n o t og = some c) :
    ∀ g ∈ og, ∀ id ∈ c.inputs, id ∉ g.inputs := by
  intro g hg id hid hgid
  obtain ⟨l, f, hf, he, h1, h2, h3, h4⟩ := nextCompaction_inputs_within n o t og hinv h id hid
  obtain ⟨g1, g2, g3, g4⟩ := hog g hg id hgid l f hf he
  have hm := nextCompaction_may_choose n o t og h
  unfold mayChoose at hm
  split at hm
  · cases hm
  · split at hm
    · cases hm
    · simp only [Bool.not_eq_true', List.any_eq_false] at hm
      have := hm g hg
      apply this
      unfold overlapping
      have hw := hinv.wf_level l f hf
      simp only [Bool.and_eq_true, decide_eq_true_eq]
      exact ⟨⟨⟨by omega, by omega⟩, by omega⟩, by omega⟩

/-! ## what closedness buys: the chosen compaction keeps "newer above" -/

/-- components that stay on top (the memtables) do not disturb closedness -/
theorem closed_under_memtables (mems : List (List (Ver Nat))) (pre : Tagged Nat) (h : Closed pre) :
    Closed (mems.map (fun m => (false, m)) ++ pre) := by
  unfold Closed at h ⊢
  rw [List.pairwise_append]
  refine ⟨?_, h, ?_⟩
  · rw [List.pairwise_map]
    exact List.pairwise_of_forall (fun _ _ => by intro h; cases h)
  · intro x hx y _ hxt
    obtain ⟨m, _, rfl⟩ := List.mem_map.mp hx
    cases hxt

/-- **the compaction the selector returns keeps I2**: the store's components in search order are the
    memtables, then the tree down to the output level of the chosen compaction, then `post` (the
    deeper levels).  Whatever the compaction writes (any number of output files made of input
    versions, any cut points, GC drops allowed), placing the outputs below the files that stay
    keeps "newer above" -/
theorem nextCompaction_keeps_newer_above (n : Num) (o : Opts) (t : Tree) (og : List Core) (hinv : Inv t)
    {c : Core} (h : nextCompaction n o t og = some c)
    (mems post outs : List (List (Ver Nat)))
    (hna : NewerAbove ((mems.map (fun m => (false, m)) ++ tagTree t c).map (·.2) ++ post))
    (hsub : ∀ e ∈ outs.flatten, e ∈ (inputs (mems.map (fun m => (false, m)) ++ tagTree t c)).flatten)
    (houts : NewerAbove outs) :
    NewerAbove (kept (mems.map (fun m => (false, m)) ++ tagTree t c) ++ outs ++ post) :=
  compaction_preserves _ post outs hna
    (closed_under_memtables mems _ (nextCompaction_closed n o t og hinv h)) hsub houts

/-! ## limits -/

theorem expandLevel_length (o : Opts) (first last : Nat) (inputs : List Nat) : ∀ (files acc toAdd : List File),
    expandLevel o first last inputs files acc = some toAdd →
    inputs.length + toAdd.length ≤ max (inputs.length + acc.length) (o.maxCompactionFiles + 1)
  | [], acc, toAdd, h => by
    rw [expandLevel_nil] at h
    cases h
    exact Nat.le_max_left _ _
  | f :: rest, acc, toAdd, h => by
    rw [expandLevel_cons] at h
    split at h
    · cases h
    · rename_i hlim
      simp only [Bool.or_eq_true, decide_eq_true_eq, not_or, Nat.not_lt] at hlim
      split at h
      · exact expandLevel_length o first last inputs rest acc toAdd h
      · split at h
        · have := expandLevel_length o first last inputs rest (acc ++ [f]) toAdd h
          simp only [List.length_append, List.length_cons, List.length_nil] at this
          omega
        · split at h
          · cases h
          · exact expandLevel_length o first last inputs rest acc toAdd h

theorem expandLoop_length (o : Opts) (t : Tree) : ∀ (levels : List Nat) (first last : Nat) (inputs : List Nat),
    (expandLoop o t levels first last inputs).length ≤ max inputs.length (o.maxCompactionFiles + 1)
  | [], _, _, inputs => by rw [expandLoop_nil]; exact Nat.le_max_left _ _
  | lvl :: rest, first, last, inputs => by
    cases hl : expandLevel o first last inputs (level t lvl) [] with
    | none => rw [expandLoop_cons_none o t _ _ _ _ _ hl]; exact Nat.le_max_left _ _
    | some toAdd =>
      rw [expandLoop_cons_some o t _ _ _ _ _ toAdd hl]
      have h1 := expandLevel_length o first last inputs _ _ _ hl
      have h2 := expandLoop_length o t rest (newFirst toAdd first) (newLast toAdd last) (inputs ++ toAdd.map (·.id))
      simp only [List.length_append, List.length_map, List.length_nil, Nat.add_zero] at h1 h2
      omega

/-- **limits**: a returned compaction names at most `max_compaction_files + 1` inputs (the slices
    respect `max_compaction_files`; `expand_compaction` tests the limit *before* it adds a file, so
    the last file of a level can take the count one past it — the run reaches that bound), and
    together with the inputs of the compactions in flight it stays below `max_open_files` -/
theorem nextCompaction_within_limits (n : Num) (o : Opts) (t : Tree) (og : List Core)
    {c : Core} (h : nextCompaction n o t og = some c) :
    c.inputs.length ≤ o.maxCompactionFiles + 1
    ∧ c.inputs.length + (og.map (fun g => g.inputs.length)).sum < o.maxOpenFiles := by
  constructor
  · apply nextCompaction_origin n o t og (fun c => c.inputs.length ≤ o.maxCompactionFiles + 1) ?_ ?_ h
    · intro lower f c _ _ hone
      obtain ⟨_, _, _, rfl, _⟩ := trivialOne_some hone
      simp
    · intro lower first last d sz _ _ _ hlim _ _
      unfold candOver expand
      dsimp only
      have := expandLoop_length o t (levelsDown lower (lower + d + 1 - lower))
        (((computeBounds t lower first last).getD (lower + d) ⟨0, 0, 0, 0⟩).first)
        (((computeBounds t lower first last).getD (lower + d) ⟨0, 0, 0, 0⟩).last)
        (baseIds t (computeBounds t lower first last) lower (d + 1))
      omega
  · have hm := nextCompaction_may_choose n o t og h
    unfold mayChoose at hm
    split at hm
    · cases hm
    · split at hm
      · cases hm
      · rename_i hlt
        simpa using hlt

end Blue.NextCompaction
