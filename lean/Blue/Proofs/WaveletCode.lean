import Blue.Model.Wavelet
/-! Prefix codes read least significant bit first: the prefix relation, what a wavelet tree node
    does to the codes passing through it (property C19). -/
namespace Blue.Wavelet

/-- `c` is a prefix of `d` (low bits first) -/
def Pre (c d : Code) : Prop := c.2 ≤ d.2 ∧ d.1 % 2 ^ c.2 = c.1
/-- at least one bit, no bits beyond the length -/
def Norm (c : Code) : Prop := 1 ≤ c.2 ∧ c.1 < 2 ^ c.2
/-- equal, or neither is a prefix of the other -/
def Compat (c d : Code) : Prop := (Pre c d → c = d) ∧ (Pre d c → c = d)
/-- the codes passing through a node -/
def Valid (syms : List Code) : Prop := (∀ c ∈ syms, Norm c) ∧ ∀ c ∈ syms, ∀ d ∈ syms, Compat c d
/-- a code that may be asked for at a node: one of the codes there, or incomparable to all -/
def QOK (syms : List Code) (q : Code) : Prop := Norm q ∧ (∀ c ∈ syms, Norm c) ∧ ∀ c ∈ syms, Compat q c

theorem Compat.symm {c d : Code} (h : Compat c d) : Compat d c :=
  ⟨fun p => (h.2 p).symm, fun p => (h.1 p).symm⟩

theorem QOK.of_mem {syms : List Code} {q : Code} (hv : Valid syms) (hq : q ∈ syms) : QOK syms q :=
  ⟨hv.1 q hq, hv.1, fun c hc => hv.2 q hq c hc⟩

theorem isRight_eq (c : Code) : isRight c = decide (c.1 % 2 = 1) := by
  unfold isRight
  rw [Nat.and_one_is_mod]
  cases h : decide (c.1 % 2 = 1) <;> simp_all

theorem next_eq (c : Code) : next c = (c.1 / 2, c.2 - 1) := by
  unfold next
  rw [Nat.shiftRight_eq_div_pow, Nat.pow_one]

theorem isRight_eq_iff (c d : Code) : isRight c = isRight d ↔ c.1 % 2 = d.1 % 2 := by
  rw [isRight_eq, isRight_eq]
  have h1 : c.1 % 2 < 2 := Nat.mod_lt _ (by omega)
  have h2 : d.1 % 2 < 2 := Nat.mod_lt _ (by omega)
  constructor
  · intro h
    by_cases hc : c.1 % 2 = 1
    · have : decide (d.1 % 2 = 1) = true := by rw [← h]; exact decide_eq_true hc
      have := of_decide_eq_true this
      omega
    · have : decide (d.1 % 2 = 1) = false := by rw [← h]; exact decide_eq_false hc
      have := of_decide_eq_false this
      omega
  · intro h; rw [h]

theorem two_pow_pred {n : Nat} (h : 1 ≤ n) : 2 ^ n = 2 * 2 ^ (n - 1) := by
  have : n = (n - 1) + 1 := by omega
  rw [this, Nat.pow_succ', Nat.add_sub_cancel]

theorem norm_next {c : Code} (hn : Norm c) (hd : 1 < c.2) : Norm (next c) := by
  rw [next_eq]
  obtain ⟨_, h2⟩ := hn
  rw [two_pow_pred (by omega)] at h2
  exact ⟨by show 1 ≤ c.2 - 1; omega, Nat.div_lt_of_lt_mul h2⟩

theorem pre_of_next {c d : Code} (hc : 1 ≤ c.2) (hd : 1 ≤ d.2) (hb : isRight c = isRight d)
    (h : Pre (next c) (next d)) : Pre c d := by
  rw [next_eq, next_eq] at h
  obtain ⟨h1, h2⟩ := h
  simp only at h1 h2
  refine ⟨by omega, ?_⟩
  rw [two_pow_pred hc, Nat.mod_mul, h2]
  have := (isRight_eq_iff c d).mp hb
  omega

theorem next_inj {c d : Code} (hc : 1 ≤ c.2) (hd : 1 ≤ d.2) (hb : isRight c = isRight d)
    (h : next c = next d) : c = d := by
  rw [next_eq, next_eq] at h
  have h1 : c.1 / 2 = d.1 / 2 := congrArg Prod.fst h
  have h2 : c.2 - 1 = d.2 - 1 := congrArg Prod.snd h
  have := (isRight_eq_iff c d).mp hb
  apply Prod.ext <;> omega

/-- a one-bit code is the only code on its side -/
theorem single {c d : Code} (hc : Norm c) (h1 : c.2 = 1) (hd : Norm d) (hb : isRight d = isRight c)
    (hcd : Compat c d) : d = c := by
  have hp : Pre c d := by
    refine ⟨by rw [h1]; exact hd.1, ?_⟩
    have := (isRight_eq_iff d c).mp hb
    have h2 := hc.2
    rw [h1] at h2 ⊢
    simp only [Nat.pow_one] at h2 ⊢
    omega
  exact (hcd.1 hp).symm

theorem compat_next {c d : Code} (hc : 1 ≤ c.2) (hd : 1 ≤ d.2) (hb : isRight c = isRight d)
    (h : Compat c d) : Compat (next c) (next d) :=
  ⟨fun p => by rw [h.1 (pre_of_next hc hd hb p)],
   fun p => by rw [h.2 (pre_of_next hd hc hb.symm p)]⟩

/-! ### the two sides of a node -/

/-- the unfinished symbols on side `b`, shifted -/
def side (b : Bool) (syms : List Code) : List Code :=
  (syms.filter (fun c => decide (1 < c.2) && (isRight c == b))).map next

theorem rightSyms_eq (syms : List Code) : rightSyms syms = side true syms := by
  unfold rightSyms side
  congr 1
  apply List.filter_congr
  intro c _
  cases isRight c <;> rfl

theorem leftSyms_eq (syms : List Code) : leftSyms syms = side false syms := by
  unfold leftSyms side
  congr 1
  apply List.filter_congr
  intro c _
  cases isRight c <;> rfl

theorem mem_side {b : Bool} {syms : List Code} {d : Code} :
    d ∈ side b syms ↔ ∃ c, c ∈ syms ∧ 1 < c.2 ∧ isRight c = b ∧ next c = d := by
  unfold side
  rw [List.mem_map]
  constructor
  · rintro ⟨c, hc, rfl⟩
    rw [List.mem_filter] at hc
    obtain ⟨h1, h2⟩ := hc
    simp only [Bool.and_eq_true, decide_eq_true_eq, beq_iff_eq] at h2
    exact ⟨c, h1, h2.1, h2.2, rfl⟩
  · rintro ⟨c, h1, h2, h3, rfl⟩
    refine ⟨c, ?_, rfl⟩
    rw [List.mem_filter]
    refine ⟨h1, ?_⟩
    simp only [Bool.and_eq_true, decide_eq_true_eq, beq_iff_eq]
    exact ⟨h2, h3⟩

/-- a one-bit `q` at a node: every code on its side is `q` -/
theorem side_all_eq {syms : List Code} {q : Code} (hq : QOK syms q) (h1 : q.2 = 1) :
    ∀ d ∈ syms, isRight d = isRight q → d = q :=
  fun d hd hb => single hq.1 h1 (hq.2.1 d hd) hb (hq.2.2 d hd)

/-- a longer `q` at a node: every code on its side is unfinished -/
theorem side_all_deep {syms : List Code} {q : Code} (hq : QOK syms q) (h1 : 1 < q.2) :
    ∀ d ∈ syms, isRight d = isRight q → 1 < d.2 := by
  intro d hd hb
  have hnd := hq.2.1 d hd
  apply Nat.lt_of_not_le
  intro hle
  have hd1 : d.2 = 1 := by have := hnd.1; omega
  have := single hnd hd1 hq.1 hb.symm (hq.2.2 d hd).symm
  rw [this] at h1
  omega

/-- … so the side is all of them -/
theorem side_eq_of_deep {syms : List Code} {b : Bool} (h : ∀ d ∈ syms, isRight d = b → 1 < d.2) :
    side b syms = (syms.filter (fun c => isRight c == b)).map next := by
  unfold side
  congr 1
  apply List.filter_congr
  intro c hc
  cases hb : (isRight c == b) with
  | false => simp
  | true => simp [h c hc (by simpa using hb)]

theorem valid_side {syms : List Code} (hv : Valid syms) (b : Bool) : Valid (side b syms) := by
  constructor
  · intro d hd
    obtain ⟨c, hc, h1, _, rfl⟩ := mem_side.mp hd
    exact norm_next (hv.1 c hc) h1
  · intro d hd d' hd'
    obtain ⟨c, hc, h1, hb, rfl⟩ := mem_side.mp hd
    obtain ⟨c', hc', h1', hb', rfl⟩ := mem_side.mp hd'
    exact compat_next (by omega) (by omega) (by rw [hb, hb']) (hv.2 c hc c' hc')

theorem qok_side {syms : List Code} {q : Code} (hq : QOK syms q) (h1 : 1 < q.2) :
    QOK (side (isRight q) syms) (next q) := by
  refine ⟨norm_next hq.1 h1, ?_, ?_⟩
  · intro d hd
    obtain ⟨c, hc, h1, _, rfl⟩ := mem_side.mp hd
    exact norm_next (hq.2.1 c hc) h1
  · intro d hd
    obtain ⟨c, hc, h1', hb, rfl⟩ := mem_side.mp hd
    exact compat_next (by omega) (by omega) hb.symm (hq.2.2 c hc)

/-- no `LogicError` -/
theorem not_bad {syms : List Code} (hv : Valid syms) : bad syms = false := by
  have hside : ∀ (b : Bool), ¬ ((∃ c ∈ syms, isRight c = b ∧ c.2 = 1) ∧ side b syms ≠ []) := by
    rintro b ⟨⟨c, hc, hb, h1⟩, hne⟩
    obtain ⟨d, hd⟩ := List.exists_mem_of_ne_nil _ hne
    obtain ⟨c', hc', h1', hb', _⟩ := mem_side.mp hd
    have := side_all_eq (QOK.of_mem hv hc) h1 c' hc' (by rw [hb, hb'])
    rw [this] at h1'
    omega
  unfold bad
  rw [leftSyms_eq, rightSyms_eq]
  cases h0 : syms.any (fun c => c.2 == 0) with
  | true =>
    obtain ⟨c, hc, h⟩ := List.any_eq_true.mp h0
    have := (hv.1 c hc).1
    simp only [beq_iff_eq] at h
    omega
  | false =>
    cases hl : (syms.any (fun c => !isRight c && c.2 == 1) && !(side false syms).isEmpty) with
    | true =>
      exfalso
      simp only [Bool.and_eq_true, List.any_eq_true, Bool.not_eq_true', beq_iff_eq,
        List.isEmpty_eq_false_iff] at hl
      obtain ⟨⟨c, hc, hb, h1⟩, hne⟩ := hl
      exact hside false ⟨⟨c, hc, hb, h1⟩, hne⟩
    | false =>
      cases hr : (syms.any (fun c => isRight c && c.2 == 1) && !(side true syms).isEmpty) with
      | true =>
        exfalso
        simp only [Bool.and_eq_true, List.any_eq_true, Bool.not_eq_true', beq_iff_eq,
          List.isEmpty_eq_false_iff] at hr
        obtain ⟨⟨c, hc, hb, h1⟩, hne⟩ := hr
        exact hside true ⟨⟨c, hc, hb, h1⟩, hne⟩
      | false => rfl

/-! ### the node in which the last bit of `q` is looked up exists -/

/-- some code at the node shares the first `len - 1` bits with `q` (trivially for `len = 1`) -/
def Sib (syms : List Code) (q : Code) : Prop :=
  q.2 = 1 ∨ ∃ c, c ∈ syms ∧ q.2 ≤ c.2 ∧ c.1 % 2 ^ (q.2 - 1) = q.1 % 2 ^ (q.2 - 1)

theorem sib_of_mem {syms : List Code} {q : Code} (h : q ∈ syms) : Sib syms q :=
  Or.inr ⟨q, h, Nat.le_refl _, rfl⟩

theorem sib_side {syms : List Code} {q : Code} (h1 : 1 < q.2) :
    Sib syms q ↔ (side (isRight q) syms ≠ [] ∧ Sib (side (isRight q) syms) (next q)) := by
  have hq2 : (next q).2 = q.2 - 1 := by rw [next_eq]
  have hq1 : (next q).1 = q.1 / 2 := by rw [next_eq]
  have hpow : 2 ^ (q.2 - 1) = 2 * 2 ^ (q.2 - 1 - 1) := two_pow_pred (by omega)
  constructor
  · rintro (h | ⟨c, hc, hle, hm⟩)
    · omega
    · rw [hpow, Nat.mod_mul, Nat.mod_mul] at hm
      have hc2 : c.1 % 2 < 2 := Nat.mod_lt _ (by omega)
      have hq2' : q.1 % 2 < 2 := Nat.mod_lt _ (by omega)
      have hbit : c.1 % 2 = q.1 % 2 := by omega
      have hrest : c.1 / 2 % 2 ^ (q.2 - 1 - 1) = q.1 / 2 % 2 ^ (q.2 - 1 - 1) := by omega
      have hmem : next c ∈ side (isRight q) syms :=
        mem_side.mpr ⟨c, hc, by omega, (isRight_eq_iff c q).mpr hbit, rfl⟩
      refine ⟨List.ne_nil_of_mem hmem, Or.inr ⟨next c, hmem, ?_, ?_⟩⟩
      · rw [hq2, next_eq]; show q.2 - 1 ≤ c.2 - 1; omega
      · rw [hq2, hq1, next_eq]; exact hrest
  · rintro ⟨hne, hs⟩
    rcases hs with h | ⟨d, hd, hle, hm⟩
    · obtain ⟨d, hd⟩ := List.exists_mem_of_ne_nil _ hne
      obtain ⟨c, hc, hc1, hb, _⟩ := mem_side.mp hd
      rw [hq2] at h
      refine Or.inr ⟨c, hc, by omega, ?_⟩
      have := (isRight_eq_iff c q).mp hb
      rw [h, Nat.pow_one]
      exact this
    · obtain ⟨c, hc, hc1, hb, rfl⟩ := mem_side.mp hd
      rw [hq2, next_eq] at hle
      rw [hq2, hq1, next_eq] at hm
      simp only at hle hm
      refine Or.inr ⟨c, hc, by omega, ?_⟩
      have := (isRight_eq_iff c q).mp hb
      rw [hpow, Nat.mod_mul, Nat.mod_mul, hm, this]

/-! ### the code book -/

/-- the hypothesis on the code book: codes of at least one bit without excess bits, one entry per
    symbol, no entry's code a prefix of another's -/
def PrefixFree (cb : CodeBook) : Prop :=
  (∀ en ∈ cb, Norm en.2)
  ∧ (∀ e1 ∈ cb, ∀ e2 ∈ cb, e1.1 = e2.1 → e1 = e2)
  ∧ (∀ e1 ∈ cb, ∀ e2 ∈ cb, Pre e1.2 e2.2 → e1 = e2)

theorem preB_iff (c d : Code) : preB c d = true ↔ Pre c d := by
  unfold preB Pre
  simp only [Bool.and_eq_true, decide_eq_true_eq, beq_iff_eq]

theorem pairsOk_nil : pairsOk [] = true := rfl
theorem pairsOk_cons (en : Entry) (rest : CodeBook) :
    pairsOk (en :: rest)
      = (rest.all (fun d => en.1 != d.1 && !preB en.2 d.2 && !preB d.2 en.2) && pairsOk rest) := rfl

theorem pairsOk_spec : ∀ (cb : CodeBook), pairsOk cb = true →
    ∀ e1 ∈ cb, ∀ e2 ∈ cb, (e1.1 = e2.1 ∨ Pre e1.2 e2.2) → e1 = e2
  | [], _, e1, h1, _, _, _ => by cases h1
  | en :: rest, h, e1, h1, e2, h2, hor => by
    rw [pairsOk_cons, Bool.and_eq_true, List.all_eq_true] at h
    obtain ⟨hall, hrest⟩ := h
    have key : ∀ d ∈ rest, en.1 ≠ d.1 ∧ ¬ Pre en.2 d.2 ∧ ¬ Pre d.2 en.2 := by
      intro d hd
      have := hall d hd
      simp only [Bool.and_eq_true, bne_iff_ne, ne_eq, Bool.not_eq_true', ← Bool.not_eq_true, preB_iff] at this
      exact ⟨this.1.1, this.1.2, this.2⟩
    rcases List.mem_cons.mp h1 with rfl | h1'
    · rcases List.mem_cons.mp h2 with rfl | h2'
      · rfl
      · obtain ⟨k1, k2, _⟩ := key e2 h2'
        rcases hor with h | h
        · exact absurd h k1
        · exact absurd h k2
    · rcases List.mem_cons.mp h2 with rfl | h2'
      · obtain ⟨k1, _, k3⟩ := key e1 h1'
        rcases hor with h | h
        · exact absurd h.symm k1
        · exact absurd h k3
      · exact pairsOk_spec rest hrest e1 h1' e2 h2' hor

/-- the decidable check establishes the hypothesis -/
theorem prefixFree_of_B {cb : CodeBook} (h : prefixFreeB cb = true) : PrefixFree cb := by
  unfold prefixFreeB at h
  rw [Bool.and_eq_true, List.all_eq_true] at h
  obtain ⟨hn, hp⟩ := h
  refine ⟨?_, ?_, ?_⟩
  · intro en hen
    have := hn en hen
    simp only [Bool.and_eq_true, decide_eq_true_eq] at this
    exact this
  · intro e1 h1 e2 h2 he
    exact pairsOk_spec cb hp e1 h1 e2 h2 (Or.inl he)
  · intro e1 h1 e2 h2 he
    exact pairsOk_spec cb hp e1 h1 e2 h2 (Or.inr he)

end Blue.Wavelet
