import Blue.Model.Log
namespace Blue.Log

/-- what the theorems need of the parameters -/
structure Good (P : Params) : Prop where
  hH : 1 ≤ P.H
  hB : 2 * P.H < P.B
  crc_lt : ∀ l, P.crc l < 4294967296
  tf_lt : P.tableFull < 18446744073709551616
  /-- for the headers the writer produces: `u64` size, one-byte discriminant, `u32` checksum -/
  dec_enc : ∀ h : Hdr, h.size < 18446744073709551616 → h.disc < 128 → h.crc < 4294967296 →
    P.decH (P.encH h) = some h
  enc_len : ∀ h : Hdr, h.size < 18446744073709551616 → h.disc < 128 → h.crc < 4294967296 →
    1 ≤ (P.encH h).length ∧ (P.encH h).length + 1 ≤ P.H

variable {P : Params}

/-! ### block arithmetic: positions as `q * B + m` -/

theorem nextBoundary_block (hB : 0 < P.B) (q x : Nat) (h1 : q * P.B ≤ x) (h2 : x < q * P.B + P.B) :
    nextBoundary P x = q * P.B + P.B := by
  unfold nextBoundary
  have : x / P.B = q := Nat.div_eq_of_lt_le h1 (by rw [Nat.add_mul, Nat.one_mul]; exact h2)
  rw [this, Nat.add_mul, Nat.one_mul]

theorem trueUp_inside (hB : 0 < P.B) (q x : Nat) (h1 : q * P.B < x) (h2 : x < q * P.B + P.B) :
    trueUp P x = q * P.B + P.B := by
  unfold trueUp
  have hmod : x % P.B ≠ 0 := by
    intro h0
    have hd := Nat.div_add_mod' x P.B
    have hq : x / P.B = q := Nat.div_eq_of_lt_le (Nat.le_of_lt h1) (by rw [Nat.add_mul, Nat.one_mul]; exact h2)
    rw [hq, h0] at hd
    omega
  rw [if_neg hmod]
  exact nextBoundary_block hB q x (Nat.le_of_lt h1) h2

theorem trueUp_at (q : Nat) : trueUp P (q * P.B) = q * P.B := by
  unfold trueUp
  rw [if_pos (Nat.mul_mod_left q P.B)]

/-- a position decomposes into its block start and the offset within the block -/
theorem block_decomp (hB : 0 < P.B) (pos : Nat) :
    ∃ q m, pos = q * P.B + m ∧ m < P.B := ⟨pos / P.B, pos % P.B, (Nat.div_add_mod' pos P.B).symm, Nat.mod_lt _ hB⟩

/-! ### slices of a file -/

theorem slice_mid (a b c : List Nat) : slice (a ++ b ++ c) a.length b.length = b := by
  unfold slice
  rw [List.append_assoc, List.drop_left, List.take_left]

theorem get_mid (a : List Nat) (x : Nat) (c : List Nat) : (a ++ x :: c)[a.length]? = some x := by
  simp

theorem slice_get (file : List Nat) (off k i : Nat) :
    (slice file off k)[i]? = if i < k then file[off + i]? else none := by
  unfold slice
  rw [List.getElem?_take]
  split
  · rw [List.getElem?_drop]
  · rfl

/-- the reader's padding check, byte by byte: every byte of the file at an offset in `[off, t)` is
    zero (offsets past the end of the file do not count) -/
theorem padZero_iff (file : List Nat) (off t : Nat) :
    padZero file off t = true ↔ ∀ i x, off ≤ i → i < t → file[i]? = some x → x = 0 := by
  unfold padZero
  rw [List.all_eq_true]
  constructor
  · intro h i x h1 h2 hx
    have hmem : x ∈ slice file off (t - off) := by
      rw [List.mem_iff_getElem?]
      refine ⟨i - off, ?_⟩
      rw [slice_get, if_pos (by omega), show off + (i - off) = i by omega]
      exact hx
    simpa using h x hmem
  · intro h x hx
    rw [List.mem_iff_getElem?] at hx
    obtain ⟨j, hj⟩ := hx
    rw [slice_get] at hj
    split at hj
    · have := h (off + j) x (by omega) (by omega) hj
      simp [this]
    · cases hj

theorem padZero_false_iff (file : List Nat) (off t : Nat) :
    padZero file off t = false ↔ ∃ i x, off ≤ i ∧ i < t ∧ file[i]? = some x ∧ x ≠ 0 := by
  constructor
  · intro h
    apply Classical.byContradiction
    intro hne
    have : padZero file off t = true := by
      rw [padZero_iff]
      intro i x h1 h2 hx
      apply Classical.byContradiction
      intro hx0
      exact hne ⟨i, x, h1, h2, hx, hx0⟩
    rw [this] at h; cases h
  · intro ⟨i, x, h1, h2, hx, hx0⟩
    cases hp : padZero file off t with
    | false => rfl
    | true => exact absurd ((padZero_iff file off t).1 hp i x h1 h2 hx) hx0

theorem zeros_get (n i x : Nat) (h : (zeros n)[i]? = some x) : x = 0 := by
  unfold zeros at h
  rw [List.getElem?_replicate] at h
  split at h
  · cases h; rfl
  · cases h

/-- **the writer's padding passes the reader's check**: the bytes `true_up` wrote are zero -/
theorem padZero_zeros (file a c : List Nat) (n off t : Nat) (hfile : file = a ++ zeros n ++ c)
    (h1 : a.length ≤ off) (h2 : t ≤ a.length + n) : padZero file off t = true := by
  rw [padZero_iff]
  intro i x hi1 hi2 hx
  subst hfile
  rw [List.append_assoc, List.getElem?_append_right (by omega),
    List.getElem?_append_left (by simp [zeros]; omega)] at hx
  exact zeros_get n _ x hx

/-- reading one frame that sits at `pre.length` -/
theorem read_frame (g : Good P) (pre suf payload : List Nat) (disc fuel : Nat)
    (hsz : payload.length ≤ P.tableFull) (hdisc : disc < 128) :
    nextFrame P (pre ++ frame P disc payload ++ suf) (fuel + 1) pre.length
      = .ok (⟨payload.length, disc, P.crc payload⟩, payload, pre.length + (frame P disc payload).length) := by
  have hsz64 : payload.length < 18446744073709551616 := Nat.lt_of_le_of_lt hsz g.tf_lt
  obtain ⟨hl1, hl2⟩ := g.enc_len ⟨payload.length, disc, P.crc payload⟩ hsz64 hdisc (g.crc_lt _)
  generalize hh : P.encH ⟨payload.length, disc, P.crc payload⟩ = hb at hl1 hl2
  have hframe : frame P disc payload = hb.length :: (hb ++ payload) := by unfold frame; simp only; rw [hh]
  rw [hframe]
  have hfile : pre ++ hb.length :: (hb ++ payload) ++ suf = pre ++ hb.length :: (hb ++ payload ++ suf) := by simp
  unfold nextFrame nextHeader
  rw [hfile, get_mid]
  simp only
  have hne : hb.length ≠ 0 := by omega
  have hle : ¬ hb.length > P.H := by omega
  rw [if_neg hne, if_neg hle]
  have hlen : (pre ++ hb.length :: (hb ++ payload ++ suf)).length
      = pre.length + 1 + hb.length + payload.length + suf.length := by simp; omega
  rw [if_neg (by rw [hlen]; omega)]
  have hs1 : slice (pre ++ hb.length :: (hb ++ payload ++ suf)) (pre.length + 1) hb.length = hb := by
    have : pre ++ hb.length :: (hb ++ payload ++ suf) = (pre ++ [hb.length]) ++ hb ++ (payload ++ suf) := by simp
    rw [this]
    have hl : pre.length + 1 = (pre ++ [hb.length]).length := by simp
    rw [hl]; exact slice_mid _ _ _
  have hs2 : slice (pre ++ hb.length :: (hb ++ payload ++ suf)) (pre.length + 1 + hb.length) payload.length = payload := by
    have : pre ++ hb.length :: (hb ++ payload ++ suf) = (pre ++ [hb.length] ++ hb) ++ payload ++ suf := by simp
    rw [this]
    have hl : pre.length + 1 + hb.length = (pre ++ [hb.length] ++ hb).length := by simp; omega
    rw [hl]; exact slice_mid _ _ _
  have hgt : ¬ (pre.length + 1 + hb.length + payload.length > (pre ++ hb.length :: (hb ++ payload ++ suf)).length) := by
    rw [hlen]; omega
  have htf : ¬ (payload.length > P.tableFull) := by omega
  have hdec : P.decH hb = some ⟨payload.length, disc, P.crc payload⟩ := by
    rw [← hh]; exact g.dec_enc _ hsz64 hdisc (g.crc_lt _)
  rw [hs1, hdec]
  simp only [htf, hgt, hs2, if_false, ne_eq, not_true_eq_false]
  simp only [List.length_cons, List.length_append]
  congr 3
  omega

/-- the same with the file and offset given by equations (saves re-association at the call sites) -/
theorem read_frame_at (g : Good P) (file pre suf payload : List Nat) (disc fuel off : Nat)
    (hsz : payload.length ≤ P.tableFull) (hdisc : disc < 128) (hfile : file = pre ++ frame P disc payload ++ suf)
    (hoff : off = pre.length) :
    nextFrame P file (fuel + 1) off
      = .ok (⟨payload.length, disc, P.crc payload⟩, payload, off + (frame P disc payload).length) := by
  subst hfile hoff
  exact read_frame g pre suf payload disc fuel hsz hdisc

theorem frame_length (g : Good P) (disc : Nat) (payload : List Nat)
    (hsz : payload.length ≤ P.tableFull) (hdisc : disc < 128) :
    payload.length + 2 ≤ (frame P disc payload).length ∧ (frame P disc payload).length ≤ payload.length + P.H := by
  obtain ⟨h1, h2⟩ := g.enc_len ⟨payload.length, disc, P.crc payload⟩ (Nat.lt_of_le_of_lt hsz g.tf_lt) hdisc
    (g.crc_lt _)
  unfold frame
  simp only [List.length_cons, List.length_append]
  omega

theorem nextHeader_succ (file : List Nat) (f off : Nat) :
    nextHeader P file (f + 1) off =
      match file[off]? with
      | none => .eof
      | some hsz =>
        if hsz = 0 then
          if trueUp P (off + 1) - (off + 1) > P.H then .err
          else if !padZero file (off + 1) (trueUp P (off + 1)) then .err
          else nextHeader P file f (trueUp P (off + 1))
        else if hsz > P.H then .err
        else if off + 1 + hsz > file.length then .err
        else match P.decH (slice file (off + 1) hsz) with
          | none => .err
          | some h => if h.size > P.tableFull then .err else .ok (h, off + 1 + hsz) := rfl

theorem appendAt_succ (f pos : Nat) (buf : List Nat) :
    appendAt P (f + 1) pos buf =
      if pos + (frame P WHOLE buf).length > nextBoundary P pos then
        if nextBoundary P pos - pos ≤ P.H then
          zeros (nextBoundary P pos - pos) ++ appendAt P f (nextBoundary P pos) buf
        else
          frame P FIRST (buf.take (nextBoundary P pos - pos - P.H)) ++
            zeros (nextBoundary P pos - (pos + (frame P FIRST (buf.take (nextBoundary P pos - pos - P.H))).length)) ++
            frame P SECOND (buf.drop (nextBoundary P pos - pos - P.H))
      else frame P WHOLE buf := rfl

/-- a padding byte sends `next_header` to the block boundary, provided the rest of the padding is
    zero too -/
theorem nextHeader_padding (g : Good P) (file : List Nat) (f off q r : Nat)
    (hget : file[off]? = some 0) (hq : q * P.B < off + r) (hoff : off + r = q * P.B + P.B)
    (hr1 : 1 ≤ r) (hrH : r ≤ P.H) (hin : q * P.B ≤ off)
    (hpad : padZero file (off + 1) (q * P.B + P.B) = true) :
    nextHeader P file (f + 1) off = nextHeader P file f (q * P.B + P.B) := by
  have hB : 0 < P.B := by have := g.hB; omega
  rw [nextHeader_succ, hget]
  simp only [if_true]
  have ht : trueUp P (off + 1) = q * P.B + P.B := by
    by_cases hr : r = 1
    · subst hr
      have : off + 1 = (q + 1) * P.B := by rw [Nat.add_mul, Nat.one_mul]; exact hoff
      rw [this, trueUp_at, Nat.add_mul, Nat.one_mul]
    · exact trueUp_inside hB q (off + 1) (by omega) (by omega)
  rw [ht]
  rw [if_neg (by omega), hpad]
  simp only [Bool.not_true, Bool.false_eq_true, if_false]

theorem nextFrame_of_header (file : List Nat) (f1 f2 off1 off2 : Nat)
    (h : nextHeader P file f1 off1 = nextHeader P file f2 off2) :
    nextFrame P file f1 off1 = nextFrame P file f2 off2 := by
  unfold nextFrame; rw [h]

theorem zeros_length (n : Nat) : (zeros n).length = n := by simp [zeros]

/-- **C12** what one `append` wrote is read back as exactly that batch, wherever it falls relative
    to the block boundaries (whole, padded to the boundary, or split across it) -/
theorem append_read (g : Good P) (pre buf suf : List Nat) (hmax : buf.length + 2 * P.H ≤ P.B)
    (htf : buf.length ≤ P.tableFull) :
    nextBatch P (pre ++ appendAt P 2 pre.length buf ++ suf) 2 pre.length
      = .ok (buf, pre.length + (appendAt P 2 pre.length buf).length) := by
  have hB : 0 < P.B := by have := g.hB; omega
  obtain ⟨q, m, hpos, hm⟩ := block_decomp (P := P) hB pre.length
  have hnb : nextBoundary P pre.length = q * P.B + P.B :=
    nextBoundary_block hB q pre.length (by omega) (by omega)
  obtain ⟨hw1, hw2⟩ := frame_length g WHOLE buf htf (by decide)
  by_cases hfit : pre.length + (frame P WHOLE buf).length > nextBoundary P pre.length
  · -- `append_split`
    by_cases hround : nextBoundary P pre.length - pre.length ≤ P.H
    · -- pad to the boundary, then the whole frame in the next block
      have hinner : appendAt P 1 (q * P.B + P.B) buf = frame P WHOLE buf := by
        have hnb2 : nextBoundary P (q * P.B + P.B) = (q + 1) * P.B + P.B :=
          nextBoundary_block hB (q + 1) _ (by rw [Nat.add_mul, Nat.one_mul]; omega)
            (by rw [Nat.add_mul, Nat.one_mul]; omega)
        rw [show (1 : Nat) = 0 + 1 from rfl, appendAt_succ]
        rw [hnb2, if_neg (by rw [Nat.add_mul, Nat.one_mul]; omega)]
      have hout : appendAt P 2 pre.length buf
          = zeros (q * P.B + P.B - pre.length) ++ frame P WHOLE buf := by
        rw [show (2 : Nat) = 1 + 1 from rfl, appendAt_succ]
        rw [if_pos hfit, if_pos hround, hnb, hinner]
      rw [hout]
      generalize hr : q * P.B + P.B - pre.length = r at *
      have hr1 : 1 ≤ r := by omega
      have hrH : r ≤ P.H := by rw [hnb] at hround; omega
      -- the first byte at `pre.length` is a padding zero
      have hget : (pre ++ (zeros r ++ frame P WHOLE buf) ++ suf)[pre.length]? = some 0 := by
        obtain ⟨r', rfl⟩ : ∃ r', r = r' + 1 := ⟨r - 1, by omega⟩
        simp [zeros, List.replicate_succ]
      have hpad : padZero (pre ++ (zeros r ++ frame P WHOLE buf) ++ suf) (pre.length + 1) (q * P.B + P.B) = true :=
        padZero_zeros _ pre (frame P WHOLE buf ++ suf) r _ _ (by simp) (by omega) (by omega)
      have hskip := nextHeader_padding g (pre ++ (zeros r ++ frame P WHOLE buf) ++ suf) 1 pre.length q r
        hget (by omega) (by omega) hr1 hrH (by omega) hpad
      have hframe := read_frame_at g (pre ++ (zeros r ++ frame P WHOLE buf) ++ suf) (pre ++ zeros r) suf buf
        WHOLE 0 (q * P.B + P.B) htf (by decide) (by simp) (by simp [zeros_length]; omega)
      unfold nextBatch
      rw [nextFrame_of_header _ 2 1 pre.length (q * P.B + P.B) hskip, hframe]
      simp only [if_true]
      congr 2
      simp only [List.length_append, zeros_length]
      omega
    · -- two frames with the boundary between them
      generalize hfb : nextBoundary P pre.length - pre.length - P.H = fb at *
      have hout : appendAt P 2 pre.length buf
          = frame P FIRST (buf.take fb) ++
            zeros (nextBoundary P pre.length - (pre.length + (frame P FIRST (buf.take fb)).length)) ++
            frame P SECOND (buf.drop fb) := by
        rw [show (2 : Nat) = 1 + 1 from rfl, appendAt_succ]
        rw [if_pos hfit, if_neg hround, hfb]
      rw [hout, hnb]
      rw [hnb] at hfb hround hfit
      obtain ⟨hf1a, hf1b⟩ := frame_length g FIRST (buf.take fb) (by rw [List.length_take]; omega) (by decide)
      have hfble : fb ≤ buf.length := by omega
      have htake : (buf.take fb).length = fb := by rw [List.length_take]; omega
      generalize hz : q * P.B + P.B - (pre.length + (frame P FIRST (buf.take fb)).length) = z at *
      have hzH : z ≤ P.H := by omega
      have hend : pre.length + (frame P FIRST (buf.take fb)).length + z = q * P.B + P.B := by omega
      -- first frame
      have hfile1 : pre ++ (frame P FIRST (buf.take fb) ++ zeros z ++ frame P SECOND (buf.drop fb)) ++ suf
          = pre ++ frame P FIRST (buf.take fb) ++ (zeros z ++ frame P SECOND (buf.drop fb) ++ suf) := by simp
      have hframe1 := read_frame_at g _ pre (zeros z ++ frame P SECOND (buf.drop fb) ++ suf) (buf.take fb)
        FIRST 1 pre.length (by simp; omega) (by decide) hfile1 rfl
      -- second frame, at the boundary
      have hfile2 : pre ++ (frame P FIRST (buf.take fb) ++ zeros z ++ frame P SECOND (buf.drop fb)) ++ suf
          = (pre ++ frame P FIRST (buf.take fb) ++ zeros z) ++ frame P SECOND (buf.drop fb) ++ suf := by simp
      have hframe2 := read_frame_at g _ (pre ++ frame P FIRST (buf.take fb) ++ zeros z) suf (buf.drop fb)
        SECOND 1 (q * P.B + P.B) (by simp; omega) (by decide) hfile2 (by simp [zeros_length]; omega)
      have htrue : trueUp P (pre.length + (frame P FIRST (buf.take fb)).length) = q * P.B + P.B := by
        by_cases hz0 : z = 0
        · have : pre.length + (frame P FIRST (buf.take fb)).length = (q + 1) * P.B := by
            rw [Nat.add_mul, Nat.one_mul]; omega
          rw [this, trueUp_at, Nat.add_mul, Nat.one_mul]
        · exact trueUp_inside hB q _ (by omega) (by omega)
      unfold nextBatch
      rw [hframe1]
      simp only [FIRST, WHOLE, Nat.reduceEqDiff, if_false, if_true]
      have htrue' := htrue
      simp only [FIRST] at htrue'
      have hframe2' := hframe2
      simp only [FIRST, SECOND] at hframe2'
      have hnot : ¬ (q * P.B + P.B - (pre.length + (frame P 2 (List.take fb buf)).length) > P.H) := by
        have := hend; simp only [FIRST] at this; omega
      -- the padding between the two frames is the writer's zeros
      have hpad : padZero (pre ++ (frame P FIRST (buf.take fb) ++ zeros z ++ frame P SECOND (buf.drop fb)) ++ suf)
          (pre.length + (frame P FIRST (buf.take fb)).length) (q * P.B + P.B) = true :=
        padZero_zeros _ (pre ++ frame P FIRST (buf.take fb)) (frame P SECOND (buf.drop fb) ++ suf) z _ _
          (by simp) (by simp) (by simp only [List.length_append]; omega)
      have hpad' := hpad
      simp only [FIRST, SECOND] at hpad'
      simp only [htrue', hnot, if_false, hpad', Bool.not_true, Bool.false_eq_true, hframe2', SECOND, if_true]
      congr 2
      · exact List.take_append_drop fb buf
      · have hend' := hend
        simp only [FIRST] at hend'
        simp only [List.length_append, zeros_length, FIRST, SECOND]
        omega
  · -- fits in the current block
    have hout : appendAt P 2 pre.length buf = frame P WHOLE buf := by
      rw [show (2 : Nat) = 1 + 1 from rfl, appendAt_succ, if_neg hfit]
    rw [hout]
    have hframe := read_frame_at g (pre ++ frame P WHOLE buf ++ suf) pre suf buf WHOLE 1 pre.length htf (by decide) rfl rfl
    unfold nextBatch
    rw [hframe]
    simp only [if_true]

theorem readAll_succ (file : List Nat) (f off : Nat) :
    readAll P file (f + 1) off =
      match nextBatch P file 2 off with
      | .eof => some []
      | .err => none
      | .ok (b, off') => (readAll P file f off').map (b :: ·) := rfl

/-- **C12** `log_roundtrip`: reading a log yields exactly the appended batches, in order, whatever
    their sizes and however they straddle block boundaries -/
theorem log_roundtrip (g : Good P) :
    ∀ (bufs : List (List Nat)) (pre : List Nat),
      (∀ b ∈ bufs, b.length + 2 * P.H ≤ P.B ∧ b.length ≤ P.tableFull) →
      readAll P (pre ++ writeAll P bufs pre.length) (bufs.length + 1) pre.length = some bufs := by
  intro bufs
  induction bufs with
  | nil =>
    intro pre _
    simp only [writeAll, List.append_nil, List.length_nil, Nat.zero_add]
    rw [show (1 : Nat) = 0 + 1 from rfl, readAll_succ]
    have : nextBatch P pre 2 pre.length = .eof := by
      unfold nextBatch nextFrame
      rw [show (2 : Nat) = 1 + 1 from rfl, nextHeader_succ]
      simp
    rw [this]
  | cons b bs ih =>
    intro pre h
    obtain ⟨h1, h2⟩ := h b (List.mem_cons_self ..)
    simp only [writeAll, List.length_cons]
    have hfile : pre ++ (appendAt P 2 pre.length b ++ writeAll P bs (pre.length + (appendAt P 2 pre.length b).length))
        = pre ++ appendAt P 2 pre.length b ++ writeAll P bs (pre.length + (appendAt P 2 pre.length b).length) := by simp
    rw [hfile]
    have hread := append_read g pre b (writeAll P bs (pre.length + (appendAt P 2 pre.length b).length)) h1 h2
    rw [readAll_succ, hread]
    simp only
    have := ih (pre ++ appendAt P 2 pre.length b) (fun x hx => h x (List.mem_cons_of_mem _ hx))
    simp only [List.length_append] at this
    rw [this]
    rfl

end Blue.Log

#print axioms Blue.Log.append_read
#print axioms Blue.Log.log_roundtrip
