import Blue.Proofs.VerifySound
import Blue.Proofs.VerifyHonest
import Blue.Proofs.VerifyTamper
import Blue.Proofs.Verifier
/-! **C04 ∘ C08** the verifier's protocol (`Blue.Verifier.pass`, C08) run with the verifier's real
    checks (`Blue.VerifyOne.contentChecker`): whatever a pass unlinks in `trash/` belongs to a
    fragment all of whose edits balanced and all of whose files held what their names say.
    And small concrete instances over the integers: non-vacuity of the theorems of C04, and the
    one place where `verify_gc` does not look (inputs after the last output). -/
namespace Blue.VerifyOne
open Blue.Books Blue.Verifier
open Blue.Mani (Edit)
open Blue.Compact (Entry)

variable {G : Type} [DecidableEq G] (g : Grp G)

/-- **`verifier_pass_sound`**: in every directory the verifier can be in (any interleaving of pass
    prefixes — crashes — with arbitrary steps of the store that leave `verify/` alone), every unlink
    a pass makes in `trash/` is of a name logged under the number of a fragment whose plan names it
    and which `verify_one`'s real checks accepted from the accumulator of that moment: the fragment
    starts at that accumulator, every edit after its first continues from the one before
    (`I = previous O`), balances (`I = O + D`), records the discard its files say
    (`D = Σ removed − Σ added`), names only files that are there and whose entries sum to their
    names, and every garbage collection in it wrote only keys of its inputs, discarded exactly the
    inputs without a partner and kept what the policy retains up to its last output (`GcFacts`);
    the last conjunct spells it out edit by edit (`EditFacts`) -/
theorem verifier_pass_sound (env : Env G) (he : env.ops = opsOf g) (d : Dir G)
    (h : Reach (contentChecker env) d) (i : Nat) (x : Name)
    (hx : (pass (contentChecker env) d).1[i]? = some (Act.unlinkTrash x)) :
    ∃ n es a names later acc',
      (run d ((pass (contentChecker env) d).1.take i)).vM = some n
      ∧ (n, es, a) ∈ (run d ((pass (contentChecker env) d).1.take i)).done
      ∧ plan false later es = some names ∧ x ∈ names
      ∧ FragmentFacts g env a es acc'
      ∧ ∀ e ∈ es.drop 1, ∃ a1 o, EditFacts g env a1 e o := by
  obtain ⟨n, es, a, names, later, h1, h2, h3, h4, h5⟩ :=
    unlinks_justified (contentChecker env) _ d (reach_justified _ d h) (pass_legal _ d) i x hx
  have h5' : (verifyFragment env a es).toOption.isSome = true := h5
  cases hv : verifyFragment env a es with
  | error f => rw [hv] at h5'; cases h5'
  | ok acc' =>
    have hf := verifyFragment_sound g env he a es acc' hv
    refine ⟨n, es, a, names, later, acc', h1, h2, h3, h4, hf, ?_⟩
    obtain ⟨e0, rest, rfl, _, ht⟩ := hf
    intro e hein
    exact Threaded.facts g ht e (by simpa using hein)

/-! ### concrete instances over the integers -/

deriving instance DecidableEq for Except

/-- item hash of the examples: injective enough on what follows -/
def exH (e : Entry) : Int := (e.key.headD 0 : Int) * 1000 + (e.ts : Int) * 10 + (match e.val with | none => 1 | some v => (v.headD 0 : Int) + 2)

/-- digests of the examples: a sign and a magnitude -/
def exName (z : Int) : Name := [if z < 0 then 1 else 0, z.natAbs]

def exParse : Name → Option Int
  | [0, n] => some (n : Int)
  | [1, n] => some (-(n : Int))
  | _ => none

def a5 : Entry := ⟨[97], 5, some [1]⟩
def a2 : Entry := ⟨[97], 2, some [2]⟩
def b3 : Entry := ⟨[98], 3, some [3]⟩
def c1 : Entry := ⟨[99], 1, some [4]⟩
def b1 : Entry := ⟨[98], 1, some [5]⟩

def exEnv (files : List File) (tail : Bool) : Env Int :=
  { ops := opsOf intGrp, parse := exParse, h := exH,
    fs := fun s => files.find? (fun f => setsumOf (opsOf intGrp) exH f == s),
    policy := .versions 1, tailChecked := tail }

/-- the fragment of the examples: the empty state, the ingest of `X`, one transaction that removes
    `X` and adds `Y` -/
def exFrag (X Y : File) : List Edit :=
  let sx := setsumOf (opsOf intGrp) exH X
  let sy := setsumOf (opsOf intGrp) exH Y
  [ mkEdit exName 0 0 0 [] [],
    mkEdit exName 0 sx (-sx) [] [sx],
    mkEdit exName sx sy (sx - sy) [sx] [sy] ]

/-- non-vacuity of `verifier_accepts_honest` / `verifyFragment_sound`: the honest collection of
    `{a@5, a@2, b@3, c@1}` under `versions = 1` keeps `{a@5, b@3, c@1}` -/
theorem ex_honest_accepted :
    (verifyFragment (exEnv [[a5, a2, b3, c1], [a5, b3, c1]] false) 0 (exFrag [a5, a2, b3, c1] [a5, b3, c1])).toOption
      = some (setsumOf (opsOf intGrp) exH [a5, b3, c1]) := by decide

/-- a retained entry that is not the last one dropped (`b@3` gone, `c@1` kept): "data loss" -/
theorem ex_inner_loss_rejected :
    (verifyFragment (exEnv [[a5, a2, b3, c1], [a5, c1]] false) 0 (exFrag [a5, a2, b3, c1] [a5, c1]))
      = .error .gcDataLoss := by decide

/-- **as the code is**: the collection ALSO drops `c@1`, the newest version of the last key, which
    the policy retains; every digest is consistent (`D` = the sum over `{a@2, c@1}`); the walk
    matches `a@5`, `b@3`, the outputs are exhausted, and `c@1` goes to the computed discard
    unexamined: accepted, and `GcFacts`'s retention clause holds only in its second form.
    With the inputs left over compared with the collector too (`tailChecked`): "data loss". -/
theorem ex_tail_loss_accepted :
    (verifyFragment (exEnv [[a5, a2, b3, c1], [a5, b3]] false) 0 (exFrag [a5, a2, b3, c1] [a5, b3])).toOption
        = some (setsumOf (opsOf intGrp) exH [a5, b3])
      ∧ (c1.key, c1.ts) ∈ retained (.versions 1) (mergeTables [[a5, a2, b3, c1]])
      ∧ verifyFragment (exEnv [[a5, a2, b3, c1], [a5, b3]] true) 0 (exFrag [a5, a2, b3, c1] [a5, b3])
        = .error .gcDataLoss := by decide

/-- a retained VALUE altered in the output of a collection whose record is consistent with the
    altered file: `verify_gc` compares keys and timestamps only, but the computed discard no longer
    is the recorded one -/
theorem ex_value_altered_rejected :
    (verifyFragment (exEnv [[a5, a2, b3, c1], [a5, { b3 with val := some [9] }, c1]] false) 0
        (exFrag [a5, a2, b3, c1] [a5, { b3 with val := some [9] }, c1]))
      = .error .gcDiscard := by decide

/-- the same alteration under the file's old name: the contents check comes first -/
theorem ex_value_altered_same_name_rejected :
    (verifyFragment
        (withFs (exEnv [[a5, a2, b3, c1], [a5, b3, c1]] false)
          (fun s => if s = setsumOf (opsOf intGrp) exH [a5, b3, c1] then some [a5, { b3 with val := some [9] }, c1]
            else (exEnv [[a5, a2, b3, c1], [a5, b3, c1]] false).fs s))
        0 (exFrag [a5, a2, b3, c1] [a5, b3, c1]))
      = .error .contents := by decide

/-- an entry in the outputs that no input holds: "data construction" -/
theorem ex_construction_rejected :
    (verifyFragment (exEnv [[a5, a2, b3], [a5, b3, c1]] false) 0 (exFrag [a5, a2, b3] [a5, b3, c1]))
      = .error .gcConstruction := by decide

/-- more kept than the policy asks for (`a@2` stays, only `b@1` goes): accepted — `verify_gc` asks
    for retained ⊆ outputs ⊆ inputs, not for equality -/
theorem ex_over_retention_accepted :
    (verifyFragment (exEnv [[a5, a2, b3, b1], [a5, a2, b3]] false) 0 (exFrag [a5, a2, b3, b1] [a5, a2, b3])).toOption
      = some (setsumOf (opsOf intGrp) exH [a5, a2, b3]) := by decide

end Blue.VerifyOne

#print axioms Blue.VerifyOne.verifier_pass_sound
#print axioms Blue.VerifyOne.ex_tail_loss_accepted
