import Blue.Model.WaitList
namespace Blue.WaitList

/-- two indices less than `n` apart use different slots -/
theorem slot_ne {n j k : Nat} (hn : 0 < n) (h1 : j < k) (h2 : k < j + n) : j % n ≠ k % n := by
  intro h
  have := Nat.sub_mod_eq_zero_of_mod_eq h.symm
  have hlt : k - j < n := by omega
  rw [Nat.mod_eq_of_lt hlt] at this
  omega

structure Inv (s : St) : Prop where
  npos : 0 < s.n
  window : s.head ≤ s.tail ∧ s.tail ≤ s.head + s.n
  /-- inside the window a slot is linked exactly when a guard for that index exists -/
  flags : ∀ j, s.head ≤ j → j < s.tail → (s.linked (j % s.n) = true ↔ j ∈ s.live)
  inWindow : ∀ j ∈ s.live, s.head ≤ j ∧ j < s.tail
  /-- the code's `assert_invariants` -/
  headLinked : s.head = s.tail ∨ s.head ∈ s.live

theorem inv_init (n : Nat) (hn : 0 < n) : Inv (init n) :=
  ⟨hn, ⟨Nat.le_refl _, by simp [init]⟩, by intro j h1 h2; simp [init] at h2,
   by intro j hj; simp [init] at hj, Or.inl rfl⟩

/-- **C18** there is exactly one head among the linked waiters: it is the oldest one -/
theorem head_is_oldest {s : St} (h : Inv s) (hne : s.live ≠ []) :
    s.head ∈ s.live ∧ ∀ j ∈ s.live, s.head ≤ j := by
  constructor
  · rcases h.headLinked with he | hl
    · exfalso
      obtain ⟨j, hj⟩ := List.exists_mem_of_ne_nil _ hne
      have := h.inWindow j hj
      omega
    · exact hl
  · intro j hj; exact (h.inWindow j hj).1

theorem inv_link {s : St} (h : Inv s) : Inv (step s .link) := by
  simp only [step, link]
  by_cases hfull : s.head + s.n ≤ s.tail
  · rw [if_pos hfull]; exact h
  · rw [if_neg hfull]
    simp only
    refine ⟨h.npos, ⟨by have := h.window.1; dsimp only; omega, by dsimp only; omega⟩, ?_, ?_, ?_⟩
    · intro j h1 h2
      dsimp only at h1 h2 ⊢
      simp only [List.mem_cons]
      by_cases hj : j = s.tail
      · subst hj; simp
      · have hjt : j < s.tail := by omega
        have hne : j % s.n ≠ s.tail % s.n := slot_ne h.npos hjt (by omega)
        simp only [hne, if_false]
        rw [h.flags j h1 hjt]
        constructor
        · intro hm; exact Or.inr hm
        · intro hm; rcases hm with hm | hm
          · exact absurd hm hj
          · exact hm
    · intro j hj
      dsimp only at hj ⊢
      simp only [List.mem_cons] at hj
      rcases hj with rfl | hj
      · have := h.window.1; omega
      · have := h.inWindow j hj; omega
    · right
      dsimp only
      rcases h.headLinked with he | hl
      · simp only [List.mem_cons]; left; exact he
      · simp only [List.mem_cons]; right; exact hl

/-- the state while `_unlink` is advancing `head`: everything but `headLinked` -/
structure Pre (s : St) : Prop where
  npos : 0 < s.n
  window : s.head ≤ s.tail ∧ s.tail ≤ s.head + s.n
  flags : ∀ j, s.head ≤ j → j < s.tail → (s.linked (j % s.n) = true ↔ j ∈ s.live)
  inWindow : ∀ j ∈ s.live, s.head ≤ j ∧ j < s.tail

theorem advance_inv : ∀ (fuel : Nat) (s : St), Pre s → s.tail - s.head < fuel → Inv (advance fuel s) := by
  intro fuel
  induction fuel with
  | zero => intro s _ h; omega
  | succ f ih =>
    intro s hp hf
    simp only [advance]
    by_cases hc : s.head < s.tail ∧ s.linked (s.head % s.n) = false
    · rw [if_pos hc]
      apply ih
      · refine ⟨hp.npos, ⟨by dsimp only; omega, by have := hp.window.2; dsimp only; omega⟩, ?_, ?_⟩
        · intro j h1 h2; dsimp only at h1 h2 ⊢; exact hp.flags j (by omega) h2
        · intro j hj
          have := hp.inWindow j hj
          refine ⟨?_, this.2⟩
          dsimp only
          -- `j` cannot be the old head: its slot is not linked
          by_cases hjh : j = s.head
          · rw [hjh] at hj
            have := (hp.flags s.head (Nat.le_refl _) hc.1).mpr hj
            rw [hc.2] at this; cases this
          · omega
      · dsimp only; omega
    · rw [if_neg hc]
      refine ⟨hp.npos, hp.window, hp.flags, hp.inWindow, ?_⟩
      by_cases hlt : s.head < s.tail
      · right
        have : s.linked (s.head % s.n) = true := by
          cases hl : s.linked (s.head % s.n) with
          | true => rfl
          | false => exact absurd ⟨hlt, hl⟩ hc
        exact (hp.flags s.head (Nat.le_refl _) hlt).mp this
      · left; have := hp.window.1; omega

theorem inv_unlink {s : St} (h : Inv s) (i : Nat) : Inv (step s (.unlink i)) := by
  simp only [step]
  by_cases hi : i ∈ s.live
  · rw [if_pos hi]
    unfold unlink
    simp only
    have hiw := h.inWindow i hi
    apply advance_inv
    · refine ⟨h.npos, h.window, ?_, ?_⟩
      · intro j h1 h2
        dsimp only at h1 h2 ⊢
        simp only [List.mem_filter, ne_eq, decide_not, Bool.not_eq_true', decide_eq_false_iff_not]
        by_cases hj : j = i
        · subst hj; simp
        · have hne : j % s.n ≠ i % s.n := by
            rcases Nat.lt_or_gt_of_ne hj with hlt | hgt
            · exact slot_ne h.npos hlt (by have := h.window.2; omega)
            · exact fun e => slot_ne h.npos hgt (by have := h.window.2; omega) e.symm
          simp only [hne, if_false]
          rw [h.flags j h1 h2]
          exact ⟨fun hm => ⟨hm, hj⟩, fun hm => hm.1⟩
      · intro j hj
        dsimp only at hj ⊢
        simp only [List.mem_filter] at hj
        exact h.inWindow j hj.1
    · dsimp only; have := h.window.2; omega
  · rw [if_neg hi]; exact h

/-- **C18** the invariant holds after every sequence of `link` / `unlink` in any order -/
theorem inv_run (n : Nat) (hn : 0 < n) (ops : List Op) : Inv (ops.foldl step (init n)) := by
  have : ∀ (ops : List Op) (s : St), Inv s → Inv (ops.foldl step s) := by
    intro ops
    induction ops with
    | nil => intro s h; exact h
    | cons op t ih =>
      intro s h
      simp only [List.foldl_cons]
      apply ih
      cases op with
      | link => exact inv_link h
      | unlink i => exact inv_unlink h i
  exact this ops _ (inv_init n hn)

end Blue.WaitList

#print axioms Blue.WaitList.inv_run
#print axioms Blue.WaitList.head_is_oldest
