import Blue.Proofs.Orphans
/-! The orphan scan reads the live `MANIFEST` AS IT IS AT THE TIME OF THE SCAN.

    `KeyValueStore::open` writes log-recovery edits into the live `MANIFEST` between the rollover
    (`Manifest::open`) and the clean-up (`LsmTree::from_manifest`); the scan's input is
    `scanInput numbered rollup recovery`, whose last fragment is `rollup :: recovery`.

    * `cleanup_keeps_listed_after_recovery`: on a chained directory nothing the manifest state
      lists AFTER the recovery edits is renamed — in particular not a file that an older fragment
      removed and a recovery edit lists again.
    * `skip_live_same_without_recovery`: without recovery edits (`LsmTree::open`) a scan that
      leaves `MANIFEST` out collects the same set: this is why leaving it out looks harmless.
    * `skip_live_moves_relisted`: with a recovery edit it renames a listed file (the crash image
      of the directed case of `harness/src/c08.rs`, `relisted_case`). -/
namespace Blue.Orphans
open Blue.Mani Blue.ManiCrash

/-- the manifest state the store opens with: the replay of the live `MANIFEST`, recovery edits included -/
theorem listed_scanInput (numbered : List (List Edit)) (rollup : Edit) (recovery : List Edit) :
    listed (scanInput numbered rollup recovery) = (replay maniAlgebra (rollup :: recovery)).strs := by
  unfold listed scanInput
  rw [List.getLast?_concat]

/-- **`cleanup_orphans` keeps every file listed after log recovery**: the scan's input includes the
    live `MANIFEST` with the edits `recover_one` wrote during the same open; on a chained directory
    nothing that state lists is in the set, so nothing it lists is renamed to `trash/` -/
theorem cleanup_keeps_listed_after_recovery (sst trash : List Name) (numbered : List (List Edit)) (rollup : Edit)
    (recovery : List Edit) (hc : chainOk (scanInput numbered rollup recovery) = true) :
    ∀ x, x ∈ moved sst trash (scanInput numbered rollup recovery) →
      x ∉ (replay maniAlgebra (rollup :: recovery)).strs := by
  intro x hx
  rw [← listed_scanInput numbered rollup recovery]
  exact moved_not_listed sst trash _ hc x hx

theorem scanFrag_rollup_only (set : List Name) (rollup : Edit) : scanFrag set [rollup] = set := rfl

/-- without recovery edits (`LsmTree::open`: the manifest was just rolled over) the live `MANIFEST`
    contributes nothing: the scan with it and the scan without it collect the same set -/
theorem skip_live_same_without_recovery (numbered : List (List Edit)) (rollup : Edit) :
    scanSkipLive (scanInput numbered rollup []) = scan (scanInput numbered rollup []) := by
  unfold scanSkipLive scanInput scan
  rw [List.dropLast_concat, List.foldl_append]
  rfl

/-- the crash image: fragment 1 holds `+X1` (flush), `+X2` (flush, `L` = 4), `-X1 -X2 +Y` (the
    compaction whose version was not installed); the open rolls over (`MANIFEST` = roll-up `{Y}`)
    and log recovery lists `X2` again (`X1` = 97, `X2` = 98, `Y` = 121) -/
def exLnumbered : List (List Edit) :=
  [[⟨[], [], [(73, [48]), (79, [48]), (68, [48])]⟩,
    ⟨[], [[97]], [(73, [48]), (79, [49]), (68, [48]), (76, [49])]⟩,
    ⟨[], [[98]], [(73, [49]), (79, [50]), (68, [48]), (76, [52])]⟩,
    ⟨[[97], [98]], [[121]], [(73, [50]), (79, [51]), (68, [48])]⟩]]
def exLrollup : Edit := rollupOf (exLnumbered.getLast (by decide))
def exLrecovery : List Edit := [⟨[], [[98]], [(73, [51]), (79, [52]), (68, [48])]⟩]
def exL : List (List Edit) := scanInput exLnumbered exLrollup exLrecovery

/-- **a scan that leaves the live `MANIFEST` out renames a listed file**: on `exL` (chained) the
    state after recovery lists `Y` and `X2`; the scan as the code has it collects `X1` alone; the
    scan without `MANIFEST` collects `X1` and `X2`, and with both still in `sst/` (the crash came
    before the compaction's moves to `trash/`) the clean-up renames `X2` -/
theorem skip_live_moves_relisted :
    chainOk exL = true ∧ listed exL = [[98], [121]] ∧ scan exL = [[97]] ∧ scanSkipLive exL = [[97], [98]]
    ∧ moved [[97], [98], [121]] [] exL = [[97]]
    ∧ ([98] ∈ movedSkipLive [[97], [98], [121]] [] exL ∧ [98] ∈ listed exL) := by decide

end Blue.Orphans

#print axioms Blue.Orphans.cleanup_keeps_listed_after_recovery
#print axioms Blue.Orphans.skip_live_same_without_recovery
#print axioms Blue.Orphans.skip_live_moves_relisted
