import Blue.Model.Compact
import Blue.Proofs.Conserve
/-! **C05** tie between the executable pipeline model the driver runs (`Blue.Compact.merged`,
    `Blue.Compact.cut`) and the objects of the conservation proof (`M` of `merging_refines`,
    `Blue.Cursor.cut`). -/
namespace Blue.Compact
open Blue.Cursor
variable {E : Type}

theorem cut_eq : ∀ (ns : List Nat) (l : List E), Blue.Compact.cut ns l = Blue.Cursor.cut ns l
  | [], _ => rfl
  | n :: ns, l => by simp only [Blue.Compact.cut, Blue.Cursor.cut, cut_eq ns]

/-- the entries a drain shows: the observations of `next, next, …` up to the first `none` -/
def someTake : List (Option E) → List E
  | some e :: rest => e :: someTake rest
  | _ => []

theorem drainFrom_run (lt : E → E → Bool) : ∀ (fuel : Nat) (m : Merging E),
    drainFrom lt fuel m = someTake (Merging.run lt m (List.replicate fuel Op.next)) := by
  intro fuel
  induction fuel with
  | zero => intro m; rfl
  | succ f ih =>
    intro m
    simp only [drainFrom, List.replicate_succ, Merging.run, Merging.step]
    cases h : (m.next lt).kv with
    | none => rfl
    | some e => simp only [someTake, ih]

theorem ref_run_next (L : List E) : ∀ (n p : Nat), p + n ≤ L.length + 1 →
    Ref.run ⟨L, p⟩ (List.replicate n Op.next) = (List.range n).map (fun i => L[p + i]?) := by
  intro n
  induction n with
  | zero => intros; rfl
  | succ n ih =>
    intro p hp
    have hstep : (Ref.mk L p).step Op.next = ⟨L, p + 1⟩ := by
      simp only [Ref.step, Ref.next]
      rw [if_pos (show p ≤ L.length by omega)]
    simp only [List.replicate_succ, Ref.run, hstep]
    rw [ih (p + 1) (by omega), List.range_succ_eq_map, List.map_cons, List.map_map]
    have h0 : (Ref.mk L (p + 1)).kv = L[p + 0]? := by simp [Ref.kv]
    rw [h0]
    congr 1
    apply List.map_congr_left
    intro i _
    show L[p + 1 + i]? = L[p + (i + 1)]?
    congr 1
    omega

theorem someTake_range (L : List E) : ∀ (n : Nat), L.length < n →
    someTake ((List.range n).map (fun i => L[i]?)) = L := by
  induction L with
  | nil =>
    intro n hn
    cases n with
    | zero => simp at hn
    | succ n => simp [List.range_succ_eq_map, someTake]
  | cons a L ih =>
    intro n hn
    cases n with
    | zero => simp at hn
    | succ n =>
      rw [List.range_succ_eq_map, List.map_cons, List.map_map]
      have hmap : List.map ((fun i => (a :: L)[i]?) ∘ Nat.succ) (List.range n)
          = List.map (fun i => L[i]?) (List.range n) := by
        apply List.map_congr_left
        intro i _
        simp
      rw [hmap]
      simp only [List.getElem?_cons_zero, someTake]
      rw [ih n (by simpa using hn)]

/-- **C05** what the compaction loop reads (`seek_to_first`, then `next` until the cursor shows
    nothing) through the model of the merging cursor is exactly the merged list `M`, for every
    family of pairwise-distinct strictly sorted input tables -/
theorem merged_eq {lt : E → E → Bool} {M : List (E × Nat)} {k : Nat} (st : StrictTotal lt)
    (fam : Family lt M k) (tables : List (List E))
    (ht : tables.Perm ((List.range k).map (childList M))) :
    merged lt tables = M.map (·.1) := by
  unfold merged
  have hlen : (tables.map List.length).sum = M.length := by
    have h1 : (tables.map List.length).sum = tables.flatten.length := by
      rw [List.length_flatten]
    rw [h1, (ht.flatten).length_eq, (children_perm_merged k M fam.owner).length_eq, List.length_map]
  rw [hlen, drainFrom_run]
  have hcs : ((tables.map fun t => (⟨t, 0⟩ : Ref E)).map (·.xs)).Perm ((List.range k).map (childList M)) := by
    rw [List.map_map]
    have : ∀ l : List (List E), l.map ((fun c : Ref E => c.xs) ∘ fun t => (⟨t, 0⟩ : Ref E)) = l := by
      intro l
      induction l with
      | nil => rfl
      | cons a l ih => simp only [List.map_cons, ih]; rfl
    rw [this]; exact ht
  have hrun := (merging_refines st fam (tables.map fun t => ⟨t, 0⟩) hcs
    (Op.first :: List.replicate (M.length + 1) Op.next)
    (by intro pred hp; simp [List.mem_replicate] at hp)).2
  simp only [Merging.run, Ref.run] at hrun
  have htail := (List.cons.inj hrun).2
  simp only [Merging.step] at htail
  rw [htail]
  have hfirst : (Ref.mk (M.map (·.1)) 0).step Op.first = ⟨M.map (·.1), 0⟩ := rfl
  rw [hfirst, ref_run_next _ _ 0 (by simp)]
  have := someTake_range (M.map (·.1)) (M.length + 1) (by simp)
  simpa using this

/-- **C05** the whole pipeline the driver runs: whatever the cut vector, the pieces hold a
    permutation of the union of the input tables -/
theorem pipeline_conserves {lt : E → E → Bool} {M : List (E × Nat)} {k : Nat} (st : StrictTotal lt)
    (fam : Family lt M k) (tables : List (List E))
    (ht : tables.Perm ((List.range k).map (childList M))) (cuts : List Nat) :
    ((Blue.Compact.cut cuts (merged lt tables)).flatten).Perm tables.flatten := by
  rw [merged_eq st fam tables ht, cut_eq]
  exact (compaction_conserves k M fam.owner cuts).trans ht.flatten.symm

end Blue.Compact

#print axioms Blue.Compact.merged_eq
#print axioms Blue.Compact.pipeline_conserves
