import Blue.Proofs.PsiWtConstrain
import Blue.Proofs.Csa
/-! **C19** `scrunch::psi::wavelet_tree::WaveletTreePsi` answers like `ReferencePsi`: the headline
    theorems about the executable model `Blue.PsiWt` (`Blue/Model/PsiWt.lean`).

    For every input `Good syms psi` (ψ a permutation of the ranks, one non-decreasing first symbol
    per rank, ψ increasing inside every symbol's column — decidable: `goodB`):
    1. `construct_ok`: `construct` succeeds and `len` is the number of ranks;
    2. `lookup_spec`: `lookup(idx) = Ok(psi[idx])` for `idx < n` (`lookup(n)` is an index panic on
       `y_value`, `lookup(idx)` for `idx > n` is `Err`: `lookup_len`, `lookup_beyond`);
    3. `constrain_spec`: on the column `(r0, r1)` of a symbol with `1 ≤ r0` and any closed non-empty
       `into = (a, b)`, `constrain` returns `Ok` of exactly what `ReferencePsi::constrain` returns,
       `(r0 + #{i ∈ column | psi[i] < a}, r0 + #{i ∈ column | psi[i] < b + 1} - 1)`; the early exits
       are `constrain_empty_range`, `constrain_empty_into`, `constrain_rank0`.
    No `assert!`, index or underflow panic fires in 1–3 (the model has them as `Outcome.panic`). -/
namespace Blue.PsiWt
open Blue.BitVec Blue.Sampled Blue.WaveletRef Outcome

/-! ### the decidable form of the hypotheses -/

/-- lexicographic order on `(symbol, ψ)` pairs -/
def LexLt (a b : Nat × Nat) : Prop := a.1 < b.1 ∨ (a.1 = b.1 ∧ a.2 < b.2)

theorem LexLt.trans {a b c : Nat × Nat} (h1 : LexLt a b) (h2 : LexLt b c) : LexLt a c := by
  unfold LexLt at *
  omega

theorem adjOk_cons_cons (a b : Nat × Nat) (t : List (Nat × Nat)) :
    adjOk (a :: b :: t)
      = ((decide (a.1 < b.1) || (decide (a.1 = b.1) && decide (a.2 < b.2))) && adjOk (b :: t)) := rfl

theorem adjOk_pairwise : ∀ (l : List (Nat × Nat)), adjOk l = true → l.Pairwise LexLt
  | [], _ => List.Pairwise.nil
  | [a], _ => by simp
  | a :: b :: t, h => by
    rw [adjOk_cons_cons, Bool.and_eq_true] at h
    have ih := adjOk_pairwise (b :: t) h.2
    have hab : LexLt a b := by
      have := h.1
      simp only [Bool.or_eq_true, Bool.and_eq_true, decide_eq_true_eq] at this
      exact this
    rw [List.pairwise_cons]
    refine ⟨?_, ih⟩
    intro x hx
    rcases List.mem_cons.mp hx with rfl | hx
    · exact hab
    · exact hab.trans ((List.pairwise_cons.mp ih).1 x hx)

theorem goodB_sound (syms psi : List Nat) (h : goodB syms psi = true) : Good syms psi := by
  unfold goodB at h
  simp only [Bool.and_eq_true, decide_eq_true_eq] at h
  obtain ⟨⟨⟨hperm, hlen⟩, hpos⟩, hadj⟩ := h
  have hpw := adjOk_pairwise _ hadj
  rw [List.pairwise_iff_getElem] at hpw
  have hz : (syms.zip psi).length = psi.length := by rw [List.length_zip, hlen, Nat.min_self]
  refine ⟨List.isPerm_iff.mp hperm, hlen, hpos, ?_, ?_⟩
  · rw [List.pairwise_iff_getElem]
    intro i j hi hj hij
    have := hpw i j (by omega) (by omega) hij
    unfold LexLt at this
    simp only [List.getElem_zip] at this
    omega
  · intro i j hij hj hs
    have := hpw i j (by omega) (by omega) hij
    unfold LexLt at this
    simp only [List.getElem_zip] at this
    rw [List.getD_eq_getElem?_getD, List.getD_eq_getElem?_getD, List.getElem?_eq_getElem (by omega),
      List.getElem?_eq_getElem (by omega)] at hs
    rw [List.getD_eq_getElem?_getD, List.getD_eq_getElem?_getD, List.getElem?_eq_getElem (by omega),
      List.getElem?_eq_getElem (by omega)]
    simp only [Option.getD_some] at hs ⊢
    omega

/-! ### construction -/

/-- from `Good` to the description of what was built -/
theorem built_of_good {syms psi : List Nat} (h : Good syms psi) :
    ∃ ipsi table, construct syms psi = some (ofTable (kOf syms) table) ∧ table ≠ []
      ∧ Built syms psi ipsi table := by
  obtain ⟨ipsi, table, _, h2, h3, h4, h5, h6, h7⟩ := construct_eq h
  exact ⟨ipsi, table, h4, h6, ⟨h, h2, h3, h5, h7⟩⟩

/-- **C19** `construct` succeeds on every well-formed input and `len` is the number of ranks -/
theorem construct_ok {syms psi : List Nat} (h : Good syms psi) :
    ∃ w, construct syms psi = some w ∧ len w = psi.length := by
  obtain ⟨ipsi, table, h1, h2, b⟩ := built_of_good h
  exact ⟨_, h1, b.len_eq h2⟩

/-- the rows tile `0..n`, their trees spell the symbols in ψ-value order, and the `y_key` positions
    handed to `from_indices` are strictly increasing and below `n` (so the sparse encoding exists and
    answers like the plain bit array, `Blue.SparseUses.sparse_presentBits`) -/
theorem construct_ykeys {syms psi : List Nat} (h : Good syms psi) (w : WtPsi)
    (hw : construct syms psi = some w) :
    ∃ ykeys, w.ykey = presentBits psi.length ykeys ∧ ykeys.Pairwise (· < ·) ∧ (∀ o ∈ ykeys, o < psi.length)
      ∧ Rows w.table ∧ ∃ ipsi, inverse psi = some ipsi ∧ (w.table.map (·.tree)).flatten = bwt syms ipsi := by
  obtain ⟨ipsi, table, h1, h2, h3, h4, h5, h6, h7⟩ := construct_eq h
  have b : Built syms psi ipsi table := ⟨h, h2, h3, h5, h7⟩
  rw [h4] at hw
  have hw' := (Option.some.inj hw).symm
  subst hw'
  refine ⟨ykeysOf (cellsSpec (kOf syms) table).flatten, ?_, ykeysOf_pairwise _ (cellsSpec_pos _ _), ?_, h5,
    ipsi, h1, h7⟩
  · rw [b.ykey_eq]; unfold ykeyOf; rw [b.total]
  · have := ykeysOf_lt _ (cellsSpec_pos (kOf syms) table)
    rw [b.total] at this
    exact this

/-! ### `lookup` -/

/-- **C19** `lookup(idx)` returns `psi[idx]` -/
theorem lookup_spec {syms psi : List Nat} (h : Good syms psi) (w : WtPsi) (hw : construct syms psi = some w)
    (idx : Nat) (hi : idx < psi.length) :
    lookupO syms w idx = .ok (psi.getD idx 0) ∧ lookup syms w idx = psi[idx]? := by
  obtain ⟨ipsi, table, h1, _, b⟩ := built_of_good h
  rw [h1] at hw
  have hw' := (Option.some.inj hw).symm
  subst hw'
  have := b.lookup_eq idx hi
  refine ⟨this, ?_⟩
  unfold lookup
  rw [this, List.getD_eq_getElem?_getD, List.getElem?_eq_getElem hi]
  rfl

/-- `lookup(len)`: `y_key.rank(len)` is the number of cells, and `y_value[that]` is out of bounds -/
theorem lookup_len {syms psi : List Nat} (h : Good syms psi) (w : WtPsi) (hw : construct syms psi = some w) :
    lookupO syms w psi.length = .panic := by
  obtain ⟨ipsi, table, h1, _, b⟩ := built_of_good h
  rw [h1] at hw
  have hw' := (Option.some.inj hw).symm
  subst hw'
  exact b.lookup_len

/-- `lookup(idx)` beyond `len`: `Err(BadRank)` -/
theorem lookup_beyond {syms psi : List Nat} (h : Good syms psi) (w : WtPsi) (hw : construct syms psi = some w)
    (idx : Nat) (hi : psi.length < idx) : lookupO syms w idx = .err := by
  obtain ⟨ipsi, table, h1, _, b⟩ := built_of_good h
  rw [h1] at hw
  have hw' := (Option.some.inj hw).symm
  subst hw'
  exact b.lookup_beyond idx hi

/-- the row's tree is only asked about a symbol that occurs in it (`lookup`) -/
theorem lookup_symbol_occurs {syms psi : List Nat} (h : Good syms psi) (w : WtPsi)
    (hw : construct syms psi = some w) (idx : Nat) (hi : idx < psi.length) :
    ∃ k j c, rank w.ykey idx = some k ∧ w.yvalue[k]? = some j ∧ w.table[j]? = some c
      ∧ syms.getD idx 0 ∈ c.tree := by
  obtain ⟨ipsi, table, h1, _, b⟩ := built_of_good h
  rw [h1] at hw
  have hw' := (Option.some.inj hw).symm
  subst hw'
  obtain ⟨k, j, c, x, hk, hc, hv, hsym, hidx⟩ := b.cell_of_rank idx hi
  have hp := cellsSpec_pos (kOf syms) table
  have hkl : k < (cellsSpec (kOf syms) table).flatten.length := by
    rcases Nat.lt_or_ge k (cellsSpec (kOf syms) table).flatten.length with h | h
    · exact h
    · rw [List.getElem?_eq_none h] at hk; cases hk
  have hcnt : (c.tree.take x).count (syms.getD idx 0) < c.tree.count (syms.getD idx 0) := by
    have h1 := count_take_succ_of c.tree _ x hsym
    have h2 := count_take_le c.tree (syms.getD idx 0) (x + 1)
    omega
  have hsucc := sumTake_succ _ k hkl
  rw [List.getElem?_eq_getElem hkl] at hk
  rw [Option.some.inj hk] at hsucc
  simp only at hsucc
  refine ⟨k, j, c, ?_, ?_, hc, List.mem_of_getElem? hsym⟩
  · rw [b.ykey_eq]
    exact rank_ykey _ hp k idx hkl (by omega) (by omega)
  · rw [ofTable_yvalue, List.getElem?_map, List.getElem?_eq_getElem hkl, Option.some.inj hk]; rfl

/-! ### `constrain` -/

/-- **C19** on a symbol's column, `constrain` is `ReferencePsi::constrain` -/
theorem constrain_spec {syms psi : List Nat} (h : Good syms psi) (w : WtPsi) (hw : construct syms psi = some w)
    {σ r0 r1 : Nat} (hc : IsColumn syms σ r0 r1) (h0 : 1 ≤ r0) (a b : Nat) (hab : a ≤ b) :
    constrain syms w (r0, r1) (a, b) = .ok (refConstrain psi (r0, r1) (a, b)) := by
  obtain ⟨ipsi, table, h1, hne, bt⟩ := built_of_good h
  rw [h1] at hw
  have hw' := (Option.some.inj hw).symm
  subst hw'
  exact bt.constrain_eq hne hc h0 a b hab

/-- … and so are its two halves -/
theorem bounds_spec {syms psi : List Nat} (h : Good syms psi) (w : WtPsi) (hw : construct syms psi = some w)
    {σ r0 r1 : Nat} (hc : IsColumn syms σ r0 r1) (h0 : 1 ≤ r0) (x : Nat) :
    lowerBound syms w x (r0, r1) = .ok (r0 + countLt psi r0 r1 x)
    ∧ upperBound syms w x (r0, r1) = .ok (r0 + countLt psi r0 r1 (x + 1) - 1) := by
  obtain ⟨ipsi, table, h1, hne, bt⟩ := built_of_good h
  rw [h1] at hw
  have hw' := (Option.some.inj hw).symm
  subst hw'
  exact ⟨bt.lowerBound_eq hne hc h0 x, bt.upperBound_eq hne hc h0 x⟩

/-- the row's tree is only asked about a symbol that occurs in it (`lower_bound` / `upper_bound`) -/
theorem bound_symbol_occurs {syms psi : List Nat} (h : Good syms psi) (w : WtPsi)
    (hw : construct syms psi = some w) {σ r0 r1 : Nat} (hc : IsColumn syms σ r0 r1) (h0 : 1 ≤ r0)
    (point : Nat) :
    ∃ c s e, boundCell syms w point (r0, r1) = .ok (.inr (c, s, e, σ)) ∧ σ ∈ c.tree := by
  obtain ⟨ipsi, table, h1, hne, bt⟩ := built_of_good h
  rw [h1] at hw
  have hw' := (Option.some.inj hw).symm
  subst hw'
  obtain ⟨c, cs, hb, hpos, _⟩ := bt.boundCell_spec hne hc h0 point
  exact ⟨c, cs, _, hb, List.count_pos_iff.mp hpos⟩

/-- an empty `range` comes back unchanged -/
theorem constrain_empty_range (syms : List Nat) (w : WtPsi) (r0 r1 : Nat) (into : Nat × Nat) (h : r0 > r1) :
    constrain syms w (r0, r1) into = .ok (r0, r1) := by
  unfold constrain
  simp only
  rw [if_pos h]

/-- an empty `into` gives the empty range at the start of `range` -/
theorem constrain_empty_into (syms : List Nat) (w : WtPsi) (r0 r1 a b : Nat) (h : r0 ≤ r1) (h0 : 1 ≤ r0)
    (hab : a > b) : constrain syms w (r0, r1) (a, b) = .ok (r0, r0 - 1) := by
  unfold constrain
  simp only
  rw [if_neg (by omega), if_pos hab, if_neg (by omega)]

/-- a range that starts at rank 0 (the end marker's column): `Err(BadSearch)` -/
theorem constrain_rank0 {syms psi : List Nat} (h : Good syms psi) (w : WtPsi) (hw : construct syms psi = some w)
    (r1 a b : Nat) (hr : r1 ≤ psi.length) (hab : a ≤ b) :
    constrain syms w (0, r1) (a, b) = .err := by
  obtain ⟨ipsi, table, h1, hne, bt⟩ := built_of_good h
  rw [h1] at hw
  have hw' := (Option.some.inj hw).symm
  subst hw'
  have hlen := bt.len_eq hne
  unfold constrain lowerBound boundCell
  simp only
  rw [if_neg (by omega), if_neg (by omega), if_neg (by rw [ofTable_table, List.isEmpty_iff]; exact hne),
    if_neg (by omega)]
  simp only [Bind.bind, Outcome.bind]
  rw [if_neg (by rw [ofTable_table, List.isEmpty_iff]; exact hne), if_neg (by omega), if_neg (by omega),
    if_neg (by omega), if_pos trivial]

/-! ### what the reference computes -/

/-- `countLt` is where a binary search for `x` lands in the column's slice of ψ: exactly the offsets
    before it have ψ below `x` -/
theorem countLt_spec {syms psi : List Nat} (h : Good syms psi) {σ r0 r1 : Nat} (hc : IsColumn syms σ r0 r1)
    (x : Nat) :
    countLt psi r0 r1 x ≤ r1 + 1 - r0
    ∧ ∀ d, d < r1 + 1 - r0 → (d < countLt psi r0 r1 x ↔ psi.getD (r0 + d) 0 < x) := by
  have hlt := hc.lt
  have hsl := h.len
  have := Blue.Csa.cnt_spec (fun d => psi.getD (r0 + d) 0) x (r1 + 1 - r0) (by
    intro d d' hdd hd'
    apply h.inc (r0 + d) (r0 + d') (by omega) (by omega)
    rw [(hc.mem (r0 + d) (by omega)).mp ⟨by omega, by omega⟩,
      (hc.mem (r0 + d') (by omega)).mp ⟨by omega, by omega⟩])
  exact this

/-- the reference in the vocabulary of `Blue.Csa` (`into` half open there) -/
theorem refConstrain_csa (l : List (List Nat)) (psi : List Nat) (hpsi : ∀ i, psi.getD i 0 = Blue.Csa.psi l i)
    (r : Nat × Nat) (a b : Nat) :
    refConstrain psi r (a, b)
      = ((Blue.Csa.constrain l r (a, b + 1)).1, (Blue.Csa.constrain l r (a, b + 1)).2 - 1) := by
  have e : ∀ x, countLt psi r.1 r.2 x = Blue.Csa.countLt l r.1 r.2 x := by
    intro x
    unfold countLt Blue.Csa.countLt
    simp only [hpsi]
  unfold refConstrain Blue.Csa.constrain
  simp only [e]

/-! ### the hypotheses are satisfiable: `mississippi` -/

/-- first symbols and ψ of `mississippi$` (`i`=1, `m`=2, `p`=3, `s`=4) -/
def exSyms : List Nat := [0, 1, 1, 1, 1, 2, 3, 3, 4, 4, 4, 4]
def exPsi : List Nat := [5, 0, 7, 10, 11, 4, 1, 6, 2, 3, 8, 9]

example : goodB exSyms exPsi = true := by decide
example : Good exSyms exPsi := goodB_sound _ _ (by decide)
example : IsColumn exSyms 4 8 11 :=
  ⟨by decide, by decide, by intro i hi; have : i < 12 := hi; revert i; decide⟩

/-! ### outside the theorem: a proper sub-range of a column

    `Psi::constrain` documents `range` as any closed range inside one symbol's column.  On a range
    that does not begin and end on cell boundaries `WaveletTreePsi::constrain` answers for the whole
    cells: the result is not clamped to `range`, unlike `ReferencePsi::constrain`.  Text `aaaa`
    (`syms = [0,1,1,1,1]`, `psi = [4,0,1,2,3]`, one cell `1..=3` and one cell `4..=4` in the column
    `1..=4` of `a`), `range = (1, 3)`, `into = (0, 3)`: the reference returns `(1, 3)`, the wavelet
    tree `(1, 4)` — rank 4 lies outside `range`.  Every caller (`backwards_search`, `Exemplars`,
    `predecessor_sigma_ranges`) passes `sa_range_for_sigma`, a whole column, where `constrain_spec`
    applies. -/

theorem subrange_not_clamped :
    (construct [0, 1, 1, 1, 1] [4, 0, 1, 2, 3]).map (fun w => constrain [0, 1, 1, 1, 1] w (1, 3) (0, 3))
        = some (.ok (1, 4))
    ∧ refConstrain [4, 0, 1, 2, 3] (1, 3) (0, 3) = (1, 3)
    ∧ goodB [0, 1, 1, 1, 1] [4, 0, 1, 2, 3] = true := by decide

end Blue.PsiWt

#print axioms Blue.PsiWt.subrange_not_clamped
#print axioms Blue.PsiWt.goodB_sound
#print axioms Blue.PsiWt.construct_ok
#print axioms Blue.PsiWt.construct_ykeys
#print axioms Blue.PsiWt.lookup_spec
#print axioms Blue.PsiWt.lookup_len
#print axioms Blue.PsiWt.lookup_beyond
#print axioms Blue.PsiWt.lookup_symbol_occurs
#print axioms Blue.PsiWt.constrain_spec
#print axioms Blue.PsiWt.bounds_spec
#print axioms Blue.PsiWt.bound_symbol_occurs
#print axioms Blue.PsiWt.constrain_empty_range
#print axioms Blue.PsiWt.constrain_empty_into
#print axioms Blue.PsiWt.constrain_rank0
#print axioms Blue.PsiWt.countLt_spec
#print axioms Blue.PsiWt.refConstrain_csa
