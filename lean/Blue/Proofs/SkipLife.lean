import Blue.Model.SkipLife
/-! Node lifetime under the repaired ownership: nothing is released while a handle is held. -/
namespace Blue.SkipLife

/-- while an iterator is held, no node has been released -/
theorem held_live (s : St) (j : Nat) (h : held s j = true) : live s = s.nodes := by
  have : 0 < (s.iters.filter id).length := by
    have hm : true ∈ s.iters := by
      simp only [held, List.getD] at h
      cases hg : s.iters[j]? with
      | none => rw [hg] at h; simp at h
      | some b =>
        rw [hg] at h
        simp only [Option.getD_some] at h
        subst h
        exact List.mem_of_getElem? hg
    exact List.length_pos_of_mem (List.mem_filter.mpr ⟨hm, rfl⟩)
  unfold live holders
  rw [if_neg (by omega)]

/-- while the list is held, no node has been released -/
theorem list_live (s : St) (h : s.listHeld = true) : live s = s.nodes := by
  unfold live holders
  rw [h, if_neg (by simp)]

/-- nodes are released exactly when the last holder is gone -/
theorem released_iff (s : St) : live s = 0 ↔ (holders s = 0 ∨ s.nodes = 0) := by
  unfold live
  by_cases h : holders s = 0
  · simp [h]
  · simp [h]

end Blue.SkipLife
