import Blue.Proofs.MergingRefines
namespace Blue.Cursor
open Blue.Heap

variable {E : Type} {lt : E → E → Bool} {M : List (E × Nat)} {k : Nat}

theorem op_first_next (c : Ref E) (j : Nat) (hc : c.xs = childList M j) : c.first.next = fAt M j 0 := by
  unfold Ref.first Ref.next fAt
  simp [hc, before_zero]

theorem op_last_prev (c : Ref E) (j : Nat) (hc : c.xs = childList M j) : c.last.prev = gAt M j M.length := by
  unfold Ref.last Ref.prev gAt
  simp [hc, before_all M j M.length (Nat.le_refl _)]

theorem gAt_next (j p : Nat) : (gAt M j p).next = fAt M j p := by
  unfold Ref.next gAt fAt
  simp [before_le_length M j p]

theorem fAt_prev (j p : Nat) : (fAt M j p).prev = gAt M j p := by
  unfold Ref.prev gAt fAt
  simp

theorem ref_next_pos_le (xs : List E) (pos : Nat) (h : pos ≤ xs.length) :
    (Ref.next ⟨xs, pos⟩).pos = pos + 1 := by
  unfold Ref.next; simp [h]

theorem ref_next_pos_gt (xs : List E) (pos : Nat) (h : xs.length < pos) :
    (Ref.next ⟨xs, pos⟩).pos = pos := by
  unfold Ref.next
  have : ¬ pos ≤ xs.length := by omega
  simp [this]

theorem ref_prev_pos_pos (xs : List E) (pos : Nat) (h : 0 < pos) :
    (Ref.prev ⟨xs, pos⟩).pos = pos - 1 := by
  unfold Ref.prev; simp [h]

theorem ref_prev_pos_zero (xs : List E) : (Ref.prev ⟨xs, 0⟩).pos = 0 := by
  unfold Ref.prev; simp

theorem rel_first (st : StrictTotal lt) {m : Merging E} {pos : Nat} (h : Rel lt M k m pos) :
    Rel lt M k (m.seekToFirst lt) 0 := by
  have hk := rel_kids h
  unfold Merging.seekToFirst
  have hmap := map_of_kids hk (fun c => c.first.next) (fun j => fAt M j 0)
    (fun c j hc => op_first_next c j hc)
  obtain ⟨hperm, htail, _⟩ := heapify_state st true (m.cs.map (fun c => c.first.next))
  exact Rel.fwdB _ (hperm.trans hmap) htail

theorem rel_last (st : StrictTotal lt) {m : Merging E} {pos : Nat} (h : Rel lt M k m pos) :
    Rel lt M k (m.seekToLast lt) (M.length + 1) := by
  have hk := rel_kids h
  unfold Merging.seekToLast
  have hmap := map_of_kids hk (fun c => c.last.prev) (fun j => gAt M j M.length)
    (fun c j hc => op_last_prev c j hc)
  obtain ⟨hperm, htail, _⟩ := heapify_state st false (m.cs.map (fun c => c.last.prev))
  exact Rel.revB _ (hperm.trans hmap) htail

theorem rel_seek (st : StrictTotal lt) (fam : Family lt M k) {m : Merging E} {pos : Nat}
    (h : Rel lt M k m pos) (pred : E → Bool) (hmono : Mono lt pred) :
    Rel lt M k (m.seek lt pred) ((M.map (·.1)).findIdx pred + 1) := by
  have hk := rel_kids h
  unfold Merging.seek
  have hmap := map_of_kids hk (Ref.seek pred) (fun j => fAt M j ((M.map (·.1)).findIdx pred))
    (fun c j hc => seek_fAt fam pred hmono j c hc)
  obtain ⟨hperm, htail, hmin⟩ := heapify_state st true (m.cs.map (Ref.seek pred))
  have hle : (M.map (·.1)).findIdx pred ≤ M.length := by
    have := List.findIdx_le_length (p := pred) (xs := M.map (·.1)); simpa using this
  exact Rel.fwdA _ _ hle (hperm.trans hmap) htail hmin

theorem rel_next (st : StrictTotal lt) (fam : Family lt M k) {m : Merging E} {pos : Nat}
    (h : Rel lt M k m pos) :
    Rel lt M k (m.next lt) (Ref.next ⟨M.map (·.1), pos⟩).pos := by
  cases h with
  | fwdA cs p hp hall htail hmin =>
    by_cases hlt : p < M.length
    · have hMp : M[p]? = some (M[p].1, M[p].2) := by simp [hlt]
      obtain ⟨h1, h2, h3⟩ := next_fwdA st fam cs p hall htail hmin _ _ hMp
      rw [ref_next_pos_le _ _ (by simp; omega)]
      exact Rel.fwdA _ (p+1) (by omega) h1 h2 h3
    · have hge : M.length ≤ p := by omega
      obtain ⟨h1, h2, h3⟩ := next_fwdA_end st cs p hge hall htail
      rw [ref_next_pos_gt _ _ (by simp; omega)]
      exact Rel.fwdA _ p hp h1 h2 h3
  | fwdB cs0 hall htail =>
    have hcs : Merging.modifyHead Ref.next (Merging.modifyHead Ref.first cs0) = cs0 := by
      cases cs0 with
      | nil => rfl
      | cons c t =>
        have hc := head_mem_of_perm hall rfl
        rw [List.mem_map] at hc
        obtain ⟨j, _, rfl⟩ := hc
        simp [Merging.modifyHead, Ref.first, Ref.next, fAt, before_zero]
    rw [ref_next_pos_le _ _ (Nat.zero_le _)]
    unfold Merging.next
    simp only [if_true]
    rw [hcs]
    obtain ⟨hperm, htail', hmin'⟩ := percolate_state st true cs0 htail
    exact Rel.fwdA _ 0 (Nat.zero_le _) (hperm.trans hall) htail' hmin'
  | revA cs p hp hall htail hmin =>
    have hmap : (cs.map Ref.next).Perm ((List.range k).map (fun j => fAt M j pos)) := by
      have := hall.map Ref.next
      simpa [Function.comp_def, gAt_next] using this
    obtain ⟨hperm, htail', hmin'⟩ := heapify_state st true (cs.map Ref.next)
    rw [ref_next_pos_le _ _ (by simp; omega)]
    exact Rel.fwdA _ pos hp (hperm.trans hmap) htail' hmin'
  | revB cs0 hall htail =>
    have hcs : (Merging.modifyHead Ref.last cs0).map Ref.next = cs0.map Ref.next := by
      cases cs0 with
      | nil => rfl
      | cons c t =>
        have hc := head_mem_of_perm hall rfl
        rw [List.mem_map] at hc
        obtain ⟨j, _, rfl⟩ := hc
        simp only [Merging.modifyHead, List.map_cons]
        congr 1
        unfold Ref.last Ref.next gAt
        simp [before_all M j M.length (Nat.le_refl _)]
    have hmap : (cs0.map Ref.next).Perm ((List.range k).map (fun j => fAt M j M.length)) := by
      have := hall.map Ref.next
      simpa [Function.comp_def, gAt_next] using this
    obtain ⟨hperm, htail', hmin'⟩ := heapify_state st true (cs0.map Ref.next)
    rw [ref_next_pos_gt _ _ (by simp)]
    unfold Merging.next
    simp only [Bool.false_eq_true, if_false]
    rw [hcs]
    exact Rel.fwdA _ M.length (Nat.le_refl _) (hperm.trans hmap) htail' hmin'

theorem rel_prev (st : StrictTotal lt) (fam : Family lt M k) {m : Merging E} {pos : Nat}
    (h : Rel lt M k m pos) :
    Rel lt M k (m.prev lt) (Ref.prev ⟨M.map (·.1), pos⟩).pos := by
  cases h with
  | fwdA cs p hp hall htail hmin =>
    have hmap : (cs.map Ref.prev).Perm ((List.range k).map (fun j => gAt M j p)) := by
      have := hall.map Ref.prev
      simpa [Function.comp_def, fAt_prev] using this
    obtain ⟨hperm, htail', hmin'⟩ := heapify_state st false (cs.map Ref.prev)
    rw [ref_prev_pos_pos _ _ (by omega)]
    exact Rel.revA _ p hp (hperm.trans hmap) htail' hmin'
  | fwdB cs0 hall htail =>
    have hcs : (Merging.modifyHead Ref.first cs0).map Ref.prev = cs0.map Ref.prev := by
      cases cs0 with
      | nil => rfl
      | cons c t =>
        have hc := head_mem_of_perm hall rfl
        rw [List.mem_map] at hc
        obtain ⟨j, _, rfl⟩ := hc
        simp only [Merging.modifyHead, List.map_cons]
        have : Ref.prev (Ref.first (fAt M j 0)) = Ref.prev (fAt M j 0) := by
          unfold Ref.first Ref.prev fAt
          simp [before_zero]
        rw [this]
    have hmap : (cs0.map Ref.prev).Perm ((List.range k).map (fun j => gAt M j 0)) := by
      have := hall.map Ref.prev
      simpa [Function.comp_def, fAt_prev] using this
    obtain ⟨hperm, htail', hmin'⟩ := heapify_state st false (cs0.map Ref.prev)
    rw [ref_prev_pos_zero]
    unfold Merging.prev
    simp only [if_true]
    rw [hcs]
    exact Rel.revA _ 0 (Nat.zero_le _) (hperm.trans hmap) htail' hmin'
  | revA cs p hp hall htail hmin =>
    cases pos with
    | zero =>
      -- every child is before its first entry; stepping the head back changes nothing
      have hcs : Merging.modifyHead Ref.prev cs = cs := by
        apply modifyHead_id_of_head
        intro c t hct
        have hc := head_mem_of_perm hall hct
        rw [List.mem_map] at hc
        obtain ⟨j, _, rfl⟩ := hc
        unfold Ref.prev gAt
        simp [before_zero]
      rw [ref_prev_pos_zero]
      unfold Merging.prev
      simp only [Bool.false_eq_true, if_false]
      rw [hcs]
      obtain ⟨hperm, htail', hmin'⟩ := percolate_state st false cs htail
      exact Rel.revA _ 0 (Nat.zero_le _) (hperm.trans hall) htail' hmin'
    | succ q =>
      have hq : q < M.length := by omega
      have hMq : M[q]? = some (M[q].1, M[q].2) := by simp [hq]
      obtain ⟨h1, h2, h3⟩ := prev_revA st fam cs q hall htail hmin _ _ hMq
      rw [ref_prev_pos_pos _ _ (by omega)]
      exact Rel.revA _ q (by omega) h1 h2 h3
  | revB cs0 hall htail =>
    have hcs : Merging.modifyHead Ref.prev (Merging.modifyHead Ref.last cs0) = cs0 := by
      cases cs0 with
      | nil => rfl
      | cons c t =>
        have hc := head_mem_of_perm hall rfl
        rw [List.mem_map] at hc
        obtain ⟨j, _, rfl⟩ := hc
        simp [Merging.modifyHead, Ref.last, Ref.prev, gAt, before_all M j M.length (Nat.le_refl _)]
    rw [ref_prev_pos_pos _ _ (by omega)]
    unfold Merging.prev
    simp only [Bool.false_eq_true, if_false]
    rw [hcs]
    obtain ⟨hperm, htail', hmin'⟩ := percolate_state st false cs0 htail
    exact Rel.revA _ M.length (Nat.le_refl _) (hperm.trans hall) htail' hmin'

/-- One step of any cursor program preserves the simulation. -/
theorem rel_step (st : StrictTotal lt) (fam : Family lt M k) {m : Merging E} {pos : Nat}
    (h : Rel lt M k m pos) (op : Op E) (hop : ∀ pred, op = .seek pred → Mono lt pred) :
    Rel lt M k (m.step lt op) ((Ref.mk (M.map (·.1)) pos).step op).pos
    ∧ ((Ref.mk (M.map (·.1)) pos).step op).xs = M.map (·.1) := by
  cases op with
  | first => exact ⟨rel_first st h, rfl⟩
  | last =>
    refine ⟨?_, rfl⟩
    have := rel_last st h
    simpa [Ref.step, Ref.last, Merging.step] using this
  | next =>
    refine ⟨rel_next st fam h, ?_⟩
    simp only [Ref.step, Ref.next]; split <;> rfl
  | prev =>
    refine ⟨rel_prev st fam h, ?_⟩
    simp only [Ref.step, Ref.prev]; split <;> rfl
  | seek pred =>
    refine ⟨?_, rfl⟩
    have := rel_seek st fam h pred (hop pred rfl)
    simpa [Ref.step, Ref.seek, Merging.step] using this

theorem run_eq (st : StrictTotal lt) (fam : Family lt M k) :
    ∀ (ops : List (Op E)) (m : Merging E) (pos : Nat), Rel lt M k m pos →
      (∀ pred, Op.seek pred ∈ ops → Mono lt pred) →
      Merging.run lt m ops = Ref.run ⟨M.map (·.1), pos⟩ ops := by
  intro ops
  induction ops with
  | nil => intros; rfl
  | cons op ops ih =>
    intro m pos h hops
    obtain ⟨h1, h2⟩ := rel_step st fam h op (fun pred hp => hops pred (by rw [hp]; simp))
    have hc : (Ref.mk (M.map (·.1)) pos).step op = ⟨M.map (·.1), ((Ref.mk (M.map (·.1)) pos).step op).pos⟩ := by
      cases hstep : (Ref.mk (M.map (·.1)) pos).step op with
      | mk xs p => rw [hstep] at h2; simp at h2; simp [h2]
    simp only [Merging.run, Ref.run]
    rw [rel_kv st fam h1, ← hc]
    congr 1
    rw [hc]
    exact ih _ _ h1 (fun pred hp => hops pred (List.mem_cons_of_mem _ hp))

theorem rel_new (st : StrictTotal lt) (cs : List (Ref E))
    (hcs : (cs.map (·.xs)).Perm ((List.range k).map (childList M))) :
    Rel lt M k (Merging.new lt cs) 0 := by
  unfold Merging.new Merging.seekToFirst
  have hmap := map_of_kids (M := M) (k := k) hcs (fun c => c.first.next) (fun j => fAt M j 0)
    (fun c j hc => op_first_next c j hc)
  obtain ⟨hperm, htail, _⟩ := heapify_state st true (cs.map (fun c => c.first.next))
  exact Rel.fwdB _ (hperm.trans hmap) htail

/-- **C11, merging cursor.**  For every family of pairwise-distinct strictly sorted child tables
    (presented as one merged list of owner-tagged entries), every initial position of the
    children, and every finite program of `seek_to_first / seek_to_last / seek / next / prev`,
    the merging cursor built over the children shows exactly what one reference cursor over the
    sorted union shows. -/
theorem merging_refines (st : StrictTotal lt) (fam : Family lt M k) (cs : List (Ref E))
    (hcs : (cs.map (·.xs)).Perm ((List.range k).map (childList M)))
    (ops : List (Op E)) (hops : ∀ pred, Op.seek pred ∈ ops → Mono lt pred) :
    (Merging.new lt cs).kv = (Ref.mk (M.map (·.1)) 0).kv ∧
    Merging.run lt (Merging.new lt cs) ops = Ref.run ⟨M.map (·.1), 0⟩ ops := by
  have hrel : Rel lt M k (Merging.new lt cs) 0 := by
    unfold Merging.new Merging.seekToFirst
    have hmap := map_of_kids (M := M) (k := k) hcs (fun c => c.first.next) (fun j => fAt M j 0)
      (fun c j hc => op_first_next c j hc)
    obtain ⟨hperm, htail, _⟩ := heapify_state st true (cs.map (fun c => c.first.next))
    exact Rel.fwdB _ (hperm.trans hmap) htail
  exact ⟨rel_kv st fam hrel, run_eq st fam ops _ _ hrel hops⟩

end Blue.Cursor

#print axioms Blue.Cursor.merging_refines
