import Blue.Model.Sbbf
/-! The split-block bloom filter (`Blue/Model/Sbbf.lean`, sst/src/sbbf.rs): the assertion of
    `do_hashing` never fires, `Filter::new` never makes an empty filter, no false negatives (and
    inserts are monotone), `to_bytes` / `try_from` round trip, `try_from` is total.

    All statements are unbounded: any number of blocks ≥ 1, any list of hash words. -/
namespace Blue.Sbbf

/-! ## word algebra -/
theorem word_or_and_self (a m : Word) : (a ||| m) &&& m = m := by
  ext i hi
  simp only [BitVec.getElem_and, BitVec.getElem_or]
  cases a[i] <;> cases m[i] <;> rfl

theorem word_and_mono (a k m : Word) (h : a &&& m = m) : (a ||| k) &&& m = m := by
  ext i hi
  have h' : (a &&& m)[i] = m[i] := by rw [h]
  simp only [BitVec.getElem_and, BitVec.getElem_or] at h' ⊢
  revert h'
  cases a[i] <;> cases m[i] <;> cases k[i] <;> simp

theorem word_or_mono (a k : Word) (i : Nat) (hi : i < 32) (h : a[i] = true) : (a ||| k)[i] = true := by
  simp [BitVec.getElem_or, h]

/-! ## Block -/
theorem Block.check_iff (b : Block) (x : Nat) :
    b.check x = true ↔ ∀ (i : Nat) (h : i < 8), b[i] &&& (mask x)[i] = (mask x)[i] := by
  unfold Block.check
  simp [Vector.all_eq_true, Vector.getElem_zipWith]

theorem Block.getElem_insert (b : Block) (x i : Nat) (h : i < 8) :
    (b.insert x)[i] = b[i] ||| (mask x)[i] := by
  unfold Block.insert
  simp [Vector.getElem_zipWith]

/-- what was inserted into a block checks true -/
theorem Block.check_insert_self (b : Block) (x : Nat) : (b.insert x).check x = true := by
  rw [Block.check_iff]
  intro i h
  rw [Block.getElem_insert]
  exact word_or_and_self _ _

/-- whatever checked true keeps checking true after an insert -/
theorem Block.check_insert_mono (b : Block) (x y : Nat) (h : b.check y = true) :
    (b.insert x).check y = true := by
  rw [Block.check_iff] at h ⊢
  intro i hi
  rw [Block.getElem_insert]
  exact word_and_mono _ _ _ (h i hi)

/-- a set bit stays set -/
theorem Block.bit_insert_mono (b : Block) (x i j : Nat) (hi : i < 8) (hj : j < 32)
    (h : b[i][j] = true) : (b.insert x)[i][j] = true := by
  rw [Block.getElem_insert]
  exact word_or_mono _ _ _ hj h

/-! ## `block_idx` -/
/-- the `assert!` of `do_hashing` cannot fire: for every 64-bit `x` and `n ≥ 1` blocks,
    `((x >> 32) * n) >> 32 < n` -/
theorem block_idx_in_range (n x : Nat) (hn : 1 ≤ n) : blockIdx n x < n := by
  unfold blockIdx
  have h1 : x % U64 / U32 < U32 := by unfold U64 U32; omega
  have h2 : x % U64 / U32 * n < U32 * n := Nat.mul_lt_mul_of_pos_right h1 (by omega)
  have h3 : x % U64 / U32 * n < n * U32 := by rw [Nat.mul_comm n]; exact h2
  exact (Nat.div_lt_iff_lt_mul (by unfold U32; omega)).2 h3

/-- the `u64` product of `do_hashing` does not overflow when there are at most 2^32 blocks
    (`Filter::new` makes at most 2^24) -/
theorem block_idx_no_overflow (n x : Nat) (hn : n ≤ U32) : x % U64 / U32 * n < U64 := by
  have h1 : x % U64 / U32 < U32 := by unfold U64 U32; omega
  by_cases h0 : n = 0
  · subst h0; simp [U64]
  · have : x % U64 / U32 * n < U32 * n := Nat.mul_lt_mul_of_pos_right h1 (by omega)
    have h4 : U32 * n ≤ U32 * U32 := Nat.mul_le_mul_left _ hn
    have : U32 * U32 = U64 := by decide
    omega

/-- with an 64-bit `x` the model's index is literally the code's expression -/
theorem blockIdx_u64 (n x : Nat) (hx : x < U64) : blockIdx n x = (x >>> 32 * n) >>> 32 := by
  unfold blockIdx
  rw [Nat.mod_eq_of_lt hx, Nat.shiftRight_eq_div_pow, Nat.shiftRight_eq_div_pow]
  rfl

/-! ## `Filter::new` -/
theorem newBlocks_eq (size : Nat) : newBlocks size = min (size + 7) 4294967295 / 256 + 1 := by
  unfold newBlocks NEW_ROUND_UP NEW_SHIFT_BYTES NEW_SHIFT_BLOCKS NEW_EXTRA_BLOCKS U32
  omega

/-- `Filter::new(size)` has `min(size + 7, u32::MAX) / 256 + 1` blocks: at least one (the
    `assert!(size > 0)` never fires), at most 2^24, and the `+ 1` cannot overflow a `u32` -/
theorem new_nonempty (size : Nat) :
    (Filter.new size).blocks.length = min (size + 7) 4294967295 / 256 + 1
    ∧ 1 ≤ (Filter.new size).blocks.length
    ∧ (Filter.new size).blocks.length ≤ 16777216 := by
  unfold Filter.new
  rw [List.length_replicate, newBlocks_eq]
  omega

theorem new_approximateSize (size : Nat) :
    (Filter.new size).approximateSize = (min (size + 7) 4294967295 / 256 + 1) * 32 := by
  unfold Filter.approximateSize BLOCK_BYTES
  rw [(new_nonempty size).1]

/-! ## insert and check never panic, and the total forms are the code's -/
theorem insertAt_length (f : Filter) (i w : Nat) : (f.insertAt i w).blocks.length = f.blocks.length := by
  simp [Filter.insertAt]

theorem deferredInsert_length (f : Filter) (x : Nat) : (f.deferredInsert x).blocks.length = f.blocks.length :=
  insertAt_length _ _ _

theorem foldl_length (xs : List Nat) (f : Filter) :
    (xs.foldl Filter.deferredInsert f).blocks.length = f.blocks.length := by
  induction xs generalizing f with
  | nil => rfl
  | cons x xs ih => rw [List.foldl_cons, ih, deferredInsert_length]

theorem doHashing_eq (f : Filter) (x : Nat) (hf : 1 ≤ f.blocks.length) :
    f.doHashing x = some (blockIdx f.blocks.length x, x % U32) := by
  unfold Filter.doHashing
  simp [block_idx_in_range _ x hf]

/-- `deferred_insert` does not panic on a filter with a block, and is the total form -/
theorem deferredInsert?_eq (f : Filter) (x : Nat) (hf : 1 ≤ f.blocks.length) :
    f.deferredInsert? x = some (f.deferredInsert x) := by
  unfold Filter.deferredInsert? Filter.deferredInsert
  rw [doHashing_eq f x hf]

/-- `check` does not panic on a filter with a block, and is the total form -/
theorem check?_eq (f : Filter) (x : Nat) (hf : 1 ≤ f.blocks.length) :
    f.check? x = some (f.check x) := by
  unfold Filter.check? Filter.check
  rw [doHashing_eq f x hf]
  have h := block_idx_in_range _ x hf
  simp [List.getElem?_eq_getElem h]

/-- on the empty filter (which neither `Filter::new` nor `try_from` produces) both panic -/
theorem empty_filter_panics (x : Nat) :
    (Filter.mk []).deferredInsert? x = none ∧ (Filter.mk []).check? x = none := by
  simp [Filter.deferredInsert?, Filter.check?, Filter.doHashing]

/-! ## no false negatives -/
theorem check_deferredInsert_self (f : Filter) (x : Nat) (hf : 1 ≤ f.blocks.length) :
    (f.deferredInsert x).check x = true := by
  have h := block_idx_in_range _ x hf
  unfold Filter.check
  rw [deferredInsert_length]
  unfold Filter.deferredInsert Filter.insertAt
  simp only [List.getElem?_modify_eq, List.getElem?_eq_getElem h]
  exact Block.check_insert_self _ _

/-- an insert keeps every positive answer -/
theorem check_deferredInsert_mono (f : Filter) (x y : Nat) (h : f.check y = true) :
    (f.deferredInsert x).check y = true := by
  unfold Filter.check at h ⊢
  rw [deferredInsert_length]
  unfold Filter.deferredInsert Filter.insertAt
  simp only [List.getElem?_modify]
  cases hb : f.blocks[blockIdx f.blocks.length y]? with
  | none => rw [hb] at h; cases h
  | some b =>
    rw [hb] at h
    simp only at h
    by_cases hi : blockIdx f.blocks.length x = blockIdx f.blocks.length y
    · simp only [hi, if_true]
      exact Block.check_insert_mono _ _ _ h
    · simp only [hi, if_false]
      exact h

theorem check_foldl_mono (xs : List Nat) (f : Filter) (y : Nat) (h : f.check y = true) :
    (xs.foldl Filter.deferredInsert f).check y = true := by
  induction xs generalizing f with
  | nil => exact h
  | cons x xs ih => rw [List.foldl_cons]; exact ih _ (check_deferredInsert_mono f x y h)

/-- a set bit stays set: bit `j` of word `i` of block `k`, through any inserts -/
theorem bit_deferredInsert_mono (f : Filter) (x k i j : Nat) (b : Block) (hi : i < 8) (hj : j < 32)
    (hb : f.blocks[k]? = some b) (h : b[i][j] = true) :
    ∃ b', (f.deferredInsert x).blocks[k]? = some b' ∧ b'[i][j] = true := by
  unfold Filter.deferredInsert Filter.insertAt
  simp only [List.getElem?_modify, hb]
  by_cases hk : blockIdx f.blocks.length x = k
  · simp only [hk, if_true]
    exact ⟨_, rfl, Block.bit_insert_mono _ _ _ _ hi hj h⟩
  · simp only [hk, if_false]
    exact ⟨_, rfl, h⟩

theorem bit_foldl_mono (xs : List Nat) (f : Filter) (k i j : Nat) (b : Block) (hi : i < 8) (hj : j < 32)
    (hb : f.blocks[k]? = some b) (h : b[i][j] = true) :
    ∃ b', (xs.foldl Filter.deferredInsert f).blocks[k]? = some b' ∧ b'[i][j] = true := by
  induction xs generalizing f b with
  | nil => exact ⟨b, hb, h⟩
  | cons x xs ih =>
    rw [List.foldl_cons]
    obtain ⟨b', hb', h'⟩ := bit_deferredInsert_mono f x k i j b hi hj hb h
    exact ih _ b' hb' h'

/-- NO FALSE NEGATIVES: every inserted word checks true, whatever else was inserted before or
    after it, for any filter with at least one block -/
theorem no_false_negatives (f : Filter) (hf : 1 ≤ f.blocks.length) (xs : List Nat) (x : Nat) (hx : x ∈ xs) :
    (xs.foldl Filter.deferredInsert f).check x = true := by
  induction xs generalizing f with
  | nil => cases hx
  | cons y ys ih =>
    rw [List.foldl_cons]
    rcases List.mem_cons.1 hx with rfl | hm
    · exact check_foldl_mono ys _ _ (check_deferredInsert_self f _ hf)
    · exact ih _ (by rw [deferredInsert_length]; exact hf) hm

/-- the contrapositive used by `Sst::load`: a word that checks false was not inserted -/
theorem check_false_not_inserted (f : Filter) (hf : 1 ≤ f.blocks.length) (xs : List Nat) (x : Nat)
    (h : (xs.foldl Filter.deferredInsert f).check x = false) : x ∉ xs := by
  intro hx
  rw [no_false_negatives f hf xs x hx] at h
  cases h

/-! ## bytes -/
theorem leWord_le4 (w : Word) : leWord (le4 w) = w := by
  unfold le4 leWord
  apply BitVec.eq_of_toNat_eq
  have := w.isLt
  simp only [BitVec.toNat_ofNat]
  omega

theorem le4_length (w : Word) : (le4 w).length = 4 := rfl

theorem le4_bytes (w : Word) : ∀ b ∈ le4 w, b < 256 := by
  intro b hb
  unfold le4 at hb
  simp only [List.mem_cons, List.not_mem_nil, or_false] at hb
  omega

/-- cutting a concatenation of equal-length pieces at a multiple of the piece length -/
theorem take_drop_flatMap {α β : Type} (f : α → List β) (k : Nat) (hk : ∀ a, (f a).length = k) :
    ∀ (l : List α) (i : Nat) (h : i < l.length), ((l.flatMap f).drop (i * k)).take k = f l[i]
  | [], i, h => by cases h
  | a :: t, 0, _ => by
    simp only [List.flatMap_cons, Nat.zero_mul, List.drop_zero, List.getElem_cons_zero]
    exact List.take_left' (hk a)
  | a :: t, i + 1, h => by
    have e : (i + 1) * k = (f a).length + i * k := by rw [hk a, Nat.succ_mul]; omega
    simp only [List.flatMap_cons, List.getElem_cons_succ]
    rw [e, ← List.drop_drop, List.drop_left]
    exact take_drop_flatMap f k hk t i (by simpa using h)

theorem length_flatMap_const {α β : Type} (f : α → List β) (k : Nat) (hk : ∀ a, (f a).length = k) :
    ∀ l : List α, (l.flatMap f).length = l.length * k
  | [] => by simp
  | a :: t => by
    rw [List.flatMap_cons, List.length_append, hk a, length_flatMap_const f k hk t, List.length_cons, Nat.succ_mul]
    omega

theorem Block.bytes_length (b : Block) : b.bytes.length = 32 := by
  unfold Block.bytes
  rw [length_flatMap_const le4 4 le4_length, Vector.length_toList]

theorem Block.bytes_are_bytes (b : Block) : ∀ x ∈ b.bytes, x < 256 := by
  intro x hx
  unfold Block.bytes at hx
  obtain ⟨w, _, hw⟩ := List.mem_flatMap.1 hx
  exact le4_bytes w x hw

/-- a block read back from its 32 bytes -/
theorem Block.tryFrom_bytes (b : Block) : Block.tryFrom b.bytes = .ok b := by
  unfold Block.tryFrom
  rw [if_neg (by rw [Block.bytes_length]; decide)]
  congr 1
  apply Vector.ext
  intro i hi
  rw [Vector.getElem_ofFn]
  unfold Block.bytes
  rw [take_drop_flatMap le4 4 le4_length b.toList i (by simpa using hi), leWord_le4]
  simp

/-- `Block::try_from` answers by the length alone -/
theorem Block.tryFrom_ok_iff (bytes : List Nat) :
    (∃ b, Block.tryFrom bytes = .ok b) ↔ bytes.length = 32 := by
  unfold Block.tryFrom BLOCK_BYTES
  by_cases h : bytes.length = 32
  · simp [h]
  · simp [h]

theorem toBytes_length (f : Filter) : f.toBytes.length = 32 * f.blocks.length := by
  unfold Filter.toBytes
  rw [length_flatMap_const Block.bytes 32 Block.bytes_length, Nat.mul_comm]

theorem toBytes_are_bytes (f : Filter) : ∀ x ∈ f.toBytes, x < 256 := by
  intro x hx
  unfold Filter.toBytes at hx
  obtain ⟨b, _, hb⟩ := List.mem_flatMap.1 hx
  exact Block.bytes_are_bytes b x hb

theorem slicesFrom_flatMap : ∀ (bs : List Block) (rest : List Nat),
    slicesFrom bs.length (bs.flatMap Block.bytes ++ rest) = bs.map Block.bytes
  | [], _ => rfl
  | b :: bs, rest => by
    rw [List.length_cons, slicesFrom, List.flatMap_cons, List.append_assoc, List.map_cons]
    unfold BLOCK_BYTES
    rw [List.take_left' (Block.bytes_length b), List.drop_left' (Block.bytes_length b), slicesFrom_flatMap bs rest]

theorem slices_toBytes (f : Filter) : slices f.toBytes = f.blocks.map Block.bytes := by
  unfold slices BLOCK_BYTES
  rw [toBytes_length, Nat.mul_div_cancel_left _ (by decide : 0 < 32)]
  have := slicesFrom_flatMap f.blocks []
  rw [List.append_nil] at this
  exact this

theorem parseAll_bytes : ∀ bs : List Block, parseAll (bs.map Block.bytes) = .ok bs
  | [] => rfl
  | b :: bs => by
    rw [List.map_cons, parseAll, Block.tryFrom_bytes]
    simp only [parseAll_bytes bs]

/-- `Filter::try_from(&f.to_bytes()) == Ok(f)` for every filter with at least one block: the filter
    an SST stores and the reader re-parses is the filter the builder made -/
theorem bytes_roundtrip (f : Filter) (hf : 1 ≤ f.blocks.length) : Filter.tryFrom f.toBytes = .ok f := by
  have hl := toBytes_length f
  unfold Filter.tryFrom BLOCK_BYTES
  rw [if_neg (by
    intro h
    have := List.isEmpty_iff.1 h
    rw [this] at hl
    simp at hl
    omega)]
  rw [if_neg (by rw [hl]; omega), slices_toBytes, parseAll_bytes]

theorem parseAll_ok_of_lengths : ∀ cs : List (List Nat), (∀ c ∈ cs, c.length = 32) → ∃ bs, parseAll cs = .ok bs ∧ bs.length = cs.length
  | [], _ => ⟨[], rfl, rfl⟩
  | c :: cs, h => by
    obtain ⟨b, hb⟩ := (Block.tryFrom_ok_iff c).2 (h c List.mem_cons_self)
    obtain ⟨bs, hbs, hl⟩ := parseAll_ok_of_lengths cs (fun c' hc' => h c' (List.mem_cons_of_mem _ hc'))
    refine ⟨b :: bs, ?_, by simp [hl]⟩
    rw [parseAll, hb]
    simp only [hbs]

theorem slicesFrom_length : ∀ (n : Nat) (bytes : List Nat), (slicesFrom n bytes).length = n
  | 0, _ => rfl
  | n + 1, bytes => by rw [slicesFrom, List.length_cons, slicesFrom_length n]

theorem slicesFrom_lengths : ∀ (n : Nat) (bytes : List Nat), n * 32 ≤ bytes.length →
    ∀ c ∈ slicesFrom n bytes, c.length = 32
  | 0, _, _, c, hc => by cases hc
  | n + 1, bytes, h, c, hc => by
    rw [slicesFrom] at hc
    unfold BLOCK_BYTES at hc
    rcases List.mem_cons.1 hc with rfl | hm
    · rw [List.length_take]; omega
    · exact slicesFrom_lengths n (bytes.drop 32) (by rw [List.length_drop]; omega) c hm

theorem slices_lengths (bytes : List Nat) : ∀ c ∈ slices bytes, c.length = 32 := by
  unfold slices BLOCK_BYTES
  exact slicesFrom_lengths _ bytes (by omega)

theorem slices_length (bytes : List Nat) : (slices bytes).length = bytes.length / 32 := by
  unfold slices BLOCK_BYTES
  exact slicesFrom_length _ _

/-- `Filter::try_from` is total and answers by the length alone: the empty slice and lengths that
    are not a multiple of 32 are errors (these two and no other), every other slice parses to a
    filter of `len / 32 ≥ 1` blocks; `Block::try_from`'s own error is never reached -/
theorem tryFrom_total (bytes : List Nat) :
    (bytes = [] → Filter.tryFrom bytes = .error .empty)
    ∧ (bytes ≠ [] → bytes.length % 32 ≠ 0 → Filter.tryFrom bytes = .error .notMultiple)
    ∧ (bytes ≠ [] → bytes.length % 32 = 0 →
        ∃ f, Filter.tryFrom bytes = .ok f ∧ f.blocks.length = bytes.length / 32 ∧ 1 ≤ f.blocks.length) := by
  refine ⟨?_, ?_, ?_⟩
  · intro h; subst h; rfl
  · intro h0 hm
    unfold Filter.tryFrom BLOCK_BYTES
    rw [if_neg (by simpa using h0), if_pos hm]
  · intro h0 hm
    obtain ⟨bs, hbs, hl⟩ := parseAll_ok_of_lengths (slices bytes) (slices_lengths bytes)
    refine ⟨⟨bs⟩, ?_, ?_, ?_⟩
    · unfold Filter.tryFrom BLOCK_BYTES
      rw [if_neg (by simpa using h0), if_neg (by omega)]
      simp only [hbs]
    · rw [hl, slices_length]
    · have hpos : 0 < bytes.length := List.length_pos_iff.2 h0
      have : bytes.length / 32 = (slices bytes).length := (slices_length bytes).symm
      show 1 ≤ bs.length
      omega

/-- error iff empty or not a multiple of 32 -/
theorem tryFrom_error_iff (bytes : List Nat) :
    (∃ e, Filter.tryFrom bytes = .error e) ↔ (bytes = [] ∨ bytes.length % 32 ≠ 0) := by
  obtain ⟨h1, h2, h3⟩ := tryFrom_total bytes
  constructor
  · rintro ⟨e, he⟩
    by_cases h0 : bytes = []
    · exact Or.inl h0
    · by_cases hm : bytes.length % 32 = 0
      · obtain ⟨f, hf, _⟩ := h3 h0 hm
        rw [hf] at he; cases he
      · exact Or.inr hm
  · rintro (h0 | hm)
    · exact ⟨_, h1 h0⟩
    · by_cases h0 : bytes = []
      · exact ⟨_, h1 h0⟩
      · exact ⟨_, h2 h0 hm⟩

/-! ## the stored filter -/
theorem build_length (size : Nat) (words : List Nat) :
    (build size words).blocks.length = min (size + 7) 4294967295 / 256 + 1 := by
  unfold build
  rw [foldl_length, (new_nonempty size).1]

/-- building never panics: running the code's (`Option`-valued) insert over the words is the total fold -/
theorem build_never_panics (size : Nat) (words : List Nat) :
    words.foldlM Filter.deferredInsert? (Filter.new size) = some (build size words) := by
  unfold build
  have hf := (new_nonempty size).2.1
  generalize Filter.new size = f at hf
  induction words generalizing f with
  | nil => rfl
  | cons x xs ih =>
    rw [List.foldlM_cons, deferredInsert?_eq f x hf]
    exact ih _ (by rw [deferredInsert_length]; exact hf)

/-- COMPOSITION: build from the keys' words (`Filter::new(size)`, one `deferred_insert` each),
    serialise, parse: the parse succeeds, gives back the very filter, and every inserted word
    checks true on it (without a panic) -/
theorem stored_filter_no_false_negatives (size : Nat) (words : List Nat) :
    ∃ g, Filter.tryFrom (build size words).toBytes = .ok g
      ∧ g = build size words
      ∧ ∀ x ∈ words, g.check? x = some true := by
  have hlen : 1 ≤ (build size words).blocks.length := by rw [build_length]; omega
  refine ⟨build size words, bytes_roundtrip _ hlen, rfl, ?_⟩
  intro x hx
  rw [check?_eq _ x hlen]
  exact congrArg some (no_false_negatives (Filter.new size) (new_nonempty size).2.1 words x hx)

end Blue.Sbbf
