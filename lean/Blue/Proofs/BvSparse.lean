import Blue.Proofs.BvSparseBuild
import Blue.Proofs.BitVecLaws
/-! # The sparse bit vector answers like a plain bit array (property C19)

Headline theorems about the executable model `Blue/Model/BvSparse.lean` of
`scrunch/src/bit_vector/sparse.rs`.

* On indices (`from_indices` as `sigma.rs`, `sampled.rs`, `lib.rs`, `psi/wavelet_tree.rs` call it):
  for `4 ≤ branch < 256`, strictly increasing `indices`, all `≤ len`, `len ≤ u64::MAX`:
  `build` succeeds (`build_isSome`), `accessRank t x = (x ∈ indices, #{i ∈ indices | i < x})` for
  `x ≤ len` and `none` beyond (`accessRank_indices`), `select t x` is one past the `x`-th index
  (`select_indices`).  An index equal to `len` is accepted by the code; the results above still hold
  for it, but such a vector is not a bit array of length `len` (`select` of the number of indices
  is `len + 1`): the bit-array theorems exclude it (`indices` all `< len`).
* On bits: for `build branch bits.length (indicesOf bits) = some t` (`construct` uses branch 16):
  `accessRank_bits`, `access_bits`, `rank_bits`, `select_bits`, `rank0_bits`, `select0_bits`: equal to
  `Blue.BitVec.{access,rank,select,rank0,select0} bits` for every argument.
* On indices as a bit array (`*_charList`): the same for `build branch len indices` with
  `bits = charList len indices`.

The hypothesis `len ≤ u64Max` is `usize`: the code cannot be given a longer vector; the model is on
`Nat` and needs it where an empty divider slice is written with base `u64::MAX`. -/
namespace Blue.BvSparse

/-! ### admissible inputs -/

/-- what `from_indices` accepts, plus `len: usize` -/
structure Admissible (branch len : Nat) (I : List Nat) : Prop where
  hb1 : 4 ≤ branch
  hb2 : branch < 256
  sorted : Sorted I
  le : ∀ i ∈ I, i ≤ len
  usize : len ≤ u64Max

theorem Admissible.last_le {branch len : Nat} {I : List Nat} (h : Admissible branch len I) :
    I.getLastD 0 ≤ len := by
  cases hI : I with
  | nil => simp
  | cons a t => exact hI ▸ h.le _ (getLastD_mem (by rw [hI]; simp) 0)

/-- what `from_indices` + `new` produce on an admissible input -/
theorem build_eq {branch len : Nat} {I : List Nat} (h : Admissible branch len I) :
    (I = [] ∧ build branch len I = some ⟨len, branch, none, 0, []⟩)
    ∨ (I ≠ [] ∧ ∃ ht root, build branch len I = some ⟨len, branch, some root, ht + 1, skips branch ht⟩
        ∧ Tree branch ht root I) := by
  by_cases hne : I = []
  · left
    subst hne
    refine ⟨rfl, ?_⟩
    unfold build
    rw [fromIndices_nil branch len h.hb1 h.hb2]
    rfl
  · right
    obtain ⟨ht, root, heq, htree⟩ := fromIndices_spec branch len I h.hb1 h.hb2 hne h.sorted h.last_le
    refine ⟨hne, ht, root, ?_, htree⟩
    unfold build
    rw [heq]
    simp only
    rw [skipFactors_succ branch (by have := h.hb1; omega)]

/-- **`from_indices` succeeds on every admissible input** -/
theorem build_isSome {branch len : Nat} {I : List Nat} (h : Admissible branch len I) :
    (build branch len I).isSome = true := by
  rcases build_eq h with ⟨_, h1⟩ | ⟨_, _, _, h1, _⟩ <;> rw [h1] <;> rfl

/-- `build` is `none` exactly where `from_indices` returns `None` -/
theorem build_isSome_iff (branch len : Nat) (I : List Nat) :
    (build branch len I).isSome = true
      ↔ (4 ≤ branch ∧ branch < 256) ∧ (I = [] ∨ (I.getLastD 0 ≤ len ∧ Sorted I)) := by
  rw [← fromIndices_isSome_iff]
  unfold build
  cases fromIndices branch len I with
  | none => simp
  | some r => simp

theorem build_len {branch len : Nat} {I : List Nat} {t : T} (hb : build branch len I = some t) :
    BvSparse.len t = len := by
  unfold build at hb
  cases hf : fromIndices branch len I with
  | none => rw [hf] at hb; cases hb
  | some r =>
    rw [hf] at hb
    simp only [Option.some.injEq] at hb
    subst hb
    rfl

/-! ### the operations, in terms of the indices -/

/-- **`access_rank`** on a built vector: for `x ≤ len`, whether `x` is an index and how many
    indices are below `x`; `None` beyond `len` -/
theorem accessRank_indices {branch len : Nat} {I : List Nat} {t : T} (h : Admissible branch len I)
    (hb : build branch len I = some t) (x : Nat) :
    accessRank t x
      = if x ≤ len then some (decide (x ∈ I), I.countP (fun c => decide (c < x))) else none := by
  unfold accessRank
  rcases build_eq h with ⟨hI, h1⟩ | ⟨_, ht, root, h1, htree⟩
  · rw [h1] at hb
    cases hb
    subst hI
    simp only
    by_cases hx : x ≤ len
    · rw [if_neg (by omega), if_pos hx]; simp
    · rw [if_pos (by omega), if_neg hx]
  · rw [h1] at hb
    cases hb
    simp only
    by_cases hx : x ≤ len
    · rw [if_neg (by omega), if_pos hx, if_neg (by omega)]
      rw [accessRankFrom_spec branch h.hb1 x (by have := h.usize; omega) ht root I 0 htree h.sorted,
        Nat.zero_add]
    · rw [if_pos (by omega), if_neg hx]

/-- **`select`** on a built vector: `0` for 0, else one past the `x`-th index (counting from 1),
    `None` when there are fewer than `x` indices -/
theorem select_indices {branch len : Nat} {I : List Nat} {t : T} (h : Admissible branch len I)
    (hb : build branch len I = some t) (x : Nat) :
    select t x = if x = 0 then some 0 else (I[x - 1]?).map (· + 1) := by
  unfold select
  rcases build_eq h with ⟨hI, h1⟩ | ⟨_, ht, root, h1, htree⟩
  · rw [h1] at hb
    cases hb
    subst hI
    simp only
    by_cases hx : x = 0
    · rw [if_pos hx, if_pos hx]
    · rw [if_neg hx, if_neg hx]; simp
  · rw [h1] at hb
    cases hb
    simp only
    by_cases hx : x = 0
    · rw [if_pos hx, if_pos hx]
    · rw [if_neg hx, if_neg hx, if_neg (by omega)]
      exact selectFrom_spec branch h.hb1 ht root I (x - 1) htree h.sorted

/-! ### the set bits of a bit array -/

theorem indicesFrom_nil (s : Nat) : indicesFrom s [] = [] := rfl

theorem indicesFrom_cons (s : Nat) (b : Bool) (rest : List Bool) :
    indicesFrom s (b :: rest) = if b then s :: indicesFrom (s + 1) rest else indicesFrom (s + 1) rest := rfl

theorem mem_indicesFrom : ∀ (bits : List Bool) (s x : Nat),
    x ∈ indicesFrom s bits ↔ (s ≤ x ∧ bits[x - s]? = some true)
  | [], s, x => by simp [indicesFrom_nil]
  | b :: rest, s, x => by
    have ih := mem_indicesFrom rest (s + 1) x
    rw [indicesFrom_cons]
    by_cases hxs : x = s
    · subst hxs
      cases b with
      | true =>
        simp
      | false =>
        simp only [Bool.false_eq_true, if_false, ih]
        simp
        omega
    · by_cases hlt : s < x
      · have hsub : x - s = (x - (s + 1)) + 1 := by omega
        rw [hsub, List.getElem?_cons_succ]
        cases b with
        | true =>
          simp only [if_true, List.mem_cons, ih]
          constructor
          · intro h
            rcases h with h | h
            · exact absurd h hxs
            · exact ⟨by omega, h.2⟩
          · intro h; exact Or.inr ⟨by omega, h.2⟩
        | false =>
          simp only [Bool.false_eq_true, if_false, ih]
          constructor
          · intro h; exact ⟨by omega, h.2⟩
          · intro h; exact ⟨by omega, h.2⟩
      · have : ¬ s ≤ x := by omega
        cases b with
        | true =>
          simp only [if_true, List.mem_cons, ih]
          constructor
          · intro h
            rcases h with h | h
            · exact absurd h hxs
            · omega
          · intro h; omega
        | false =>
          simp only [Bool.false_eq_true, if_false, ih]
          constructor
          · intro h; omega
          · intro h; omega

theorem sorted_indicesFrom : ∀ (bits : List Bool) (s : Nat), Sorted (indicesFrom s bits)
  | [], _ => List.Pairwise.nil
  | b :: rest, s => by
    have ih := sorted_indicesFrom rest (s + 1)
    rw [indicesFrom_cons]
    cases b with
    | false => exact ih
    | true =>
      simp only [if_true]
      apply List.pairwise_cons.mpr
      refine ⟨?_, ih⟩
      intro a ha
      have := ((mem_indicesFrom rest (s + 1) a).mp ha).1
      omega

theorem countP_indicesFrom : ∀ (bits : List Bool) (s x : Nat),
    (indicesFrom s bits).countP (fun c => decide (c < x)) = (bits.take (x - s)).count true
  | [], s, x => by simp [indicesFrom_nil]
  | b :: rest, s, x => by
    have ih := countP_indicesFrom rest (s + 1) x
    rw [indicesFrom_cons]
    by_cases hlt : s < x
    · have hsub : x - s = (x - (s + 1)) + 1 := by omega
      rw [hsub, List.take_succ_cons]
      cases b with
      | true =>
        simp only [if_true]
        rw [List.countP_cons_of_pos (by simpa using hlt), ih]
        simp
      | false =>
        simp only [Bool.false_eq_true, if_false]
        rw [ih]
        simp
    · have h0 : x - s = 0 := by omega
      rw [h0, List.take_zero]
      have hall : ∀ c ∈ (if b = true then s :: indicesFrom (s + 1) rest else indicesFrom (s + 1) rest), x ≤ c := by
        intro c hc
        have : c ∈ indicesFrom s (b :: rest) := by rw [indicesFrom_cons]; exact hc
        have := ((mem_indicesFrom (b :: rest) s c).mp this).1
        omega
      rw [countP_lt_of_all_ge _ x hall]
      rfl

theorem length_indicesFrom : ∀ (bits : List Bool) (s : Nat), (indicesFrom s bits).length = bits.count true
  | [], _ => rfl
  | b :: rest, s => by
    have ih := length_indicesFrom rest (s + 1)
    rw [indicesFrom_cons]
    cases b with
    | true => simp [ih]
    | false => simp [ih]

theorem mem_indicesOf (bits : List Bool) (x : Nat) : x ∈ indicesOf bits ↔ bits[x]? = some true := by
  unfold indicesOf
  rw [mem_indicesFrom]
  simp

theorem sorted_indicesOf (bits : List Bool) : Sorted (indicesOf bits) := sorted_indicesFrom bits 0

theorem countP_indicesOf (bits : List Bool) (x : Nat) :
    (indicesOf bits).countP (fun c => decide (c < x)) = (bits.take x).count true := by
  unfold indicesOf
  rw [countP_indicesFrom, Nat.sub_zero]

theorem length_indicesOf (bits : List Bool) : (indicesOf bits).length = bits.count true :=
  length_indicesFrom bits 0

theorem lt_of_mem_indicesOf (bits : List Bool) (x : Nat) (h : x ∈ indicesOf bits) : x < bits.length :=
  (List.getElem?_eq_some_iff.mp ((mem_indicesOf bits x).mp h)).1

theorem decide_mem_indicesOf (bits : List Bool) (x : Nat) :
    decide (x ∈ indicesOf bits) = bits.getD x false := by
  rw [List.getD_eq_getElem?_getD]
  have := mem_indicesOf bits x
  cases hb : bits[x]? with
  | none =>
    rw [hb] at this
    simp only [Option.getD_none, decide_eq_false_iff_not]
    intro hm
    have := this.mp hm
    cases this
  | some b =>
    rw [hb] at this
    cases b with
    | true => simp [this]
    | false =>
      simp only [Option.getD_some, decide_eq_false_iff_not]
      intro hm
      have := this.mp hm
      cases this

/-- `construct`'s call of `from_indices` is admissible -/
theorem admissible_bits (branch : Nat) (bits : List Bool) (hb1 : 4 ≤ branch) (hb2 : branch < 256)
    (hlen : bits.length ≤ u64Max) : Admissible branch bits.length (indicesOf bits) :=
  ⟨hb1, hb2, sorted_indicesOf bits, fun i hi => Nat.le_of_lt (lt_of_mem_indicesOf bits i hi), hlen⟩

/-! ### against the plain bit array -/

section bits
variable {branch : Nat} {bits : List Bool} {t : T}

/-- **`build` succeeds for every bit pattern** -/
theorem build_bits_isSome (hb1 : 4 ≤ branch) (hb2 : branch < 256) (hlen : bits.length ≤ u64Max) :
    (build branch bits.length (indicesOf bits)).isSome = true :=
  build_isSome (admissible_bits branch bits hb1 hb2 hlen)

/-- **`access_rank`**: the bit at `x` (`false` at `x = len`) and the number of set bits before `x` -/
theorem accessRank_bits (hb1 : 4 ≤ branch) (hb2 : branch < 256) (hlen : bits.length ≤ u64Max)
    (hb : build branch bits.length (indicesOf bits) = some t) (x : Nat) :
    accessRank t x
      = if x ≤ bits.length then some (bits.getD x false, (bits.take x).count true) else none := by
  rw [accessRank_indices (admissible_bits branch bits hb1 hb2 hlen) hb x, decide_mem_indicesOf,
    countP_indicesOf]

/-- **`access`** equals the bit array's, for every argument -/
theorem access_bits (hb1 : 4 ≤ branch) (hb2 : branch < 256) (hlen : bits.length ≤ u64Max)
    (hb : build branch bits.length (indicesOf bits) = some t) (x : Nat) :
    access t x = Blue.BitVec.access bits x := by
  unfold access Blue.BitVec.access
  have hl : t.length = bits.length := build_len hb
  rw [hl, accessRank_bits hb1 hb2 hlen hb x]
  by_cases hx : x ≥ bits.length
  · rw [if_pos hx, List.getElem?_eq_none hx]
  · rw [if_neg hx, if_pos (by omega)]
    have hx' : x < bits.length := by omega
    simp only [Option.map_some]
    rw [List.getD_eq_getElem?_getD, List.getElem?_eq_getElem hx']
    rfl

/-- **`rank`** equals the bit array's, for every argument -/
theorem rank_bits (hb1 : 4 ≤ branch) (hb2 : branch < 256) (hlen : bits.length ≤ u64Max)
    (hb : build branch bits.length (indicesOf bits) = some t) (x : Nat) :
    rank t x = Blue.BitVec.rank bits x := by
  unfold rank Blue.BitVec.rank
  have hl : t.length = bits.length := build_len hb
  rw [hl, accessRank_bits hb1 hb2 hlen hb x]
  by_cases hx : x ≤ bits.length
  · rw [if_neg (by omega), if_pos hx, if_pos hx]
    rfl
  · rw [if_pos (by omega), if_neg hx]

/-- in a strictly increasing list, exactly `k + 1` elements are below `I[k] + 1` … -/
theorem countP_lt_succ_getElem (I : List Nat) (hs : Sorted I) (k : Nat) (hk : k < I.length) :
    I.countP (fun c => decide (c < I[k] + 1)) = k + 1 := by
  have hpw := List.pairwise_iff_getElem.mp hs
  apply countP_lt_split I _ (k + 1) hs (by omega)
  · intro i c hi hc
    obtain ⟨hil, hc'⟩ := List.getElem?_eq_some_iff.mp hc
    subst hc'
    by_cases hik : i = k
    · subst hik; omega
    · have := hpw i k hil hk (by omega)
      omega
  · intro c hc
    obtain ⟨hil, hc'⟩ := List.getElem?_eq_some_iff.mp hc
    subst hc'
    have := hpw k (k + 1) hk hil (by omega)
    omega

/-- … and at most `k` below anything up to `I[k]` -/
theorem countP_lt_le_getElem (I : List Nat) (hs : Sorted I) (k : Nat) (hk : k < I.length) (q : Nat)
    (hq : q ≤ I[k]) : I.countP (fun c => decide (c < q)) ≤ k := by
  have hpw := List.pairwise_iff_getElem.mp hs
  have h1 : I.countP (fun c => decide (c < I[k])) = k := by
    apply countP_lt_split I _ k hs (by omega)
    · intro i c hi hc
      obtain ⟨hil, hc'⟩ := List.getElem?_eq_some_iff.mp hc
      subst hc'
      exact hpw i k hil hk hi
    · intro c hc
      obtain ⟨hil, hc'⟩ := List.getElem?_eq_some_iff.mp hc
      subst hc'
      omega
  have h2 : I.countP (fun c => decide (c < q)) ≤ I.countP (fun c => decide (c < I[k])) := by
    apply List.countP_mono_left
    intro c _ hc
    simp only [decide_eq_true_eq] at hc ⊢
    omega
  omega

/-- **`select`** equals the bit array's (the trait's binary search over `rank`), for every argument -/
theorem select_bits (hb1 : 4 ≤ branch) (hb2 : branch < 256) (hlen : bits.length ≤ u64Max)
    (hb : build branch bits.length (indicesOf bits) = some t) (x : Nat) :
    select t x = Blue.BitVec.select bits x := by
  rw [select_indices (admissible_bits branch bits hb1 hb2 hlen) hb x]
  by_cases hx : x = 0
  · subst hx
    rw [if_pos rfl]
    exact (Blue.BitVec.select_complete bits 0 0 (Nat.zero_le _) (by simp) (fun q hq => absurd hq (Nat.not_lt_zero q))).symm
  · rw [if_neg hx]
    by_cases hk : x - 1 < (indicesOf bits).length
    · rw [List.getElem?_eq_getElem hk]
      simp only [Option.map_some]
      have hmem : (indicesOf bits)[x - 1] ∈ indicesOf bits := List.getElem_mem hk
      have hlt := lt_of_mem_indicesOf bits _ hmem
      symm
      apply Blue.BitVec.select_complete bits x _ (by omega)
      · rw [← countP_indicesOf, countP_lt_succ_getElem _ (sorted_indicesOf bits) (x - 1) hk]
        omega
      · intro q hq
        rw [← countP_indicesOf]
        have := countP_lt_le_getElem _ (sorted_indicesOf bits) (x - 1) hk q (by omega)
        omega
    · rw [List.getElem?_eq_none (by omega)]
      simp only [Option.map_none]
      rw [length_indicesOf] at hk
      cases hsel : Blue.BitVec.select bits x with
      | none => rfl
      | some p =>
        have := (Blue.BitVec.select_defined_iff bits x).mp (by rw [hsel]; rfl)
        omega

/-- the trait's default `rank0` over this `rank` equals the bit array's -/
theorem rank0_bits (hb1 : 4 ≤ branch) (hb2 : branch < 256) (hlen : bits.length ≤ u64Max)
    (hb : build branch bits.length (indicesOf bits) = some t) (x : Nat) :
    rank0 t x = Blue.BitVec.rank0 bits x := by
  unfold rank0 Blue.BitVec.rank0
  rw [rank_bits hb1 hb2 hlen hb x]

/-- the trait's default `select0` over this `rank` equals the bit array's -/
theorem select0_bits (hb1 : 4 ≤ branch) (hb2 : branch < 256) (hlen : bits.length ≤ u64Max)
    (hb : build branch bits.length (indicesOf bits) = some t) (x : Nat) :
    select0 t x = Blue.BitVec.select0 bits x := by
  unfold select0 Blue.BitVec.select0
  have hl : t.length = bits.length := build_len hb
  have hfun : (fun mid => decide ((rank0 t mid).getD 0 < x))
      = (fun mid => decide ((Blue.BitVec.rank0 bits mid).getD 0 < x)) := by
    funext mid
    rw [rank0_bits hb1 hb2 hlen hb mid]
  rw [hl, hfun]
  simp only
  rw [rank0_bits hb1 hb2 hlen hb]

/-- **C19, sparse bit vector, all in one**: for every bit pattern and every branch factor the code
    admits, `construct`'s `from_indices(branch, bits.len(), set positions)` succeeds and the built
    vector answers `access_rank`, `access`, `rank`, `select`, `rank0`, `select0` exactly as the plain
    bit array, for every argument (out of range: `None`) -/
theorem bits_theorems (hb1 : 4 ≤ branch) (hb2 : branch < 256) (hlen : bits.length ≤ u64Max) :
    (build branch bits.length (indicesOf bits)).isSome = true
    ∧ ∀ t, build branch bits.length (indicesOf bits) = some t →
      len t = bits.length
      ∧ ∀ x, accessRank t x = (if x ≤ bits.length then
              some (bits.getD x false, (bits.take x).count true) else none)
        ∧ access t x = Blue.BitVec.access bits x
        ∧ rank t x = Blue.BitVec.rank bits x
        ∧ select t x = Blue.BitVec.select bits x
        ∧ rank0 t x = Blue.BitVec.rank0 bits x
        ∧ select0 t x = Blue.BitVec.select0 bits x :=
  ⟨build_bits_isSome hb1 hb2 hlen, fun _ hb => ⟨build_len hb, fun x =>
    ⟨accessRank_bits hb1 hb2 hlen hb x, access_bits hb1 hb2 hlen hb x, rank_bits hb1 hb2 hlen hb x,
      select_bits hb1 hb2 hlen hb x, rank0_bits hb1 hb2 hlen hb x, select0_bits hb1 hb2 hlen hb x⟩⟩⟩

end bits

/-! ### `from_indices` called directly: the bit array of the indices -/

/-- the bit array of length `len` whose set bits are `indices` -/
def charList (len : Nat) (indices : List Nat) : List Bool :=
  (List.range len).map (fun i => decide (i ∈ indices))

theorem charList_length (len : Nat) (I : List Nat) : (charList len I).length = len := by
  unfold charList; simp

theorem charList_getElem? (len : Nat) (I : List Nat) (x : Nat) :
    (charList len I)[x]? = if x < len then some (decide (x ∈ I)) else none := by
  unfold charList
  rw [List.getElem?_map]
  by_cases hx : x < len
  · rw [if_pos hx, List.getElem?_range hx]; rfl
  · rw [if_neg hx, List.getElem?_eq_none (by simpa using hx)]; rfl

/-- two strictly increasing lists with the same elements are equal -/
theorem sorted_ext : ∀ (l1 l2 : List Nat), Sorted l1 → Sorted l2 → (∀ x, x ∈ l1 ↔ x ∈ l2) → l1 = l2
  | [], [], _, _, _ => rfl
  | [], b :: _, _, _, h => by
    have := (h b).mpr List.mem_cons_self
    cases this
  | a :: _, [], _, _, h => by
    have := (h a).mp List.mem_cons_self
    cases this
  | a :: t1, b :: t2, h1, h2, h => by
    have h1' := List.pairwise_cons.mp h1
    have h2' := List.pairwise_cons.mp h2
    have hab : a = b := by
      have ha := (h a).mp List.mem_cons_self
      have hb := (h b).mpr List.mem_cons_self
      rcases List.mem_cons.mp ha with ha | ha
      · exact ha
      · rcases List.mem_cons.mp hb with hb | hb
        · exact hb.symm
        · have := h1'.1 b hb
          have := h2'.1 a ha
          omega
    subst hab
    congr 1
    apply sorted_ext t1 t2 h1'.2 h2'.2
    intro x
    constructor
    · intro hx
      have hgt := h1'.1 x hx
      rcases List.mem_cons.mp ((h x).mp (List.mem_cons_of_mem _ hx)) with hx' | hx'
      · omega
      · exact hx'
    · intro hx
      have hgt := h2'.1 x hx
      rcases List.mem_cons.mp ((h x).mpr (List.mem_cons_of_mem _ hx)) with hx' | hx'
      · omega
      · exact hx'

/-- strictly increasing indices below `len` are exactly the set bits of their bit array -/
theorem indicesOf_charList (len : Nat) (I : List Nat) (hs : Sorted I) (hlt : ∀ i ∈ I, i < len) :
    indicesOf (charList len I) = I := by
  apply sorted_ext _ _ (sorted_indicesOf _) hs
  intro x
  rw [mem_indicesOf, charList_getElem?]
  constructor
  · intro h
    by_cases hx : x < len
    · rw [if_pos hx] at h
      simpa using h
    · rw [if_neg hx] at h; cases h
  · intro h
    rw [if_pos (hlt x h)]
    simp [h]

section indices
variable {branch len : Nat} {I : List Nat} {t : T}

/-- **`from_indices` called directly** (branch 16 / 128 in `sigma.rs`, `sampled.rs`, `lib.rs`,
    `psi/wavelet_tree.rs`): for strictly increasing indices all below `len`, the built vector is
    the bit array `charList len I`: `build` succeeds, and `access_rank`, `access`, `rank`, `select`
    (and the default `rank0`, `select0`) equal the reference for every argument.  Excluded: an index
    equal to `len`, which the code accepts (see `accessRank_indices` / `select_indices` for what it
    then answers). -/
theorem charList_theorems (hb1 : 4 ≤ branch) (hb2 : branch < 256) (hs : Sorted I) (hlt : ∀ i ∈ I, i < len)
    (hlen : len ≤ u64Max) :
    (build branch len I).isSome = true
    ∧ ∀ t, build branch len I = some t →
      ∀ x, accessRank t x = (if x ≤ len then
              some ((charList len I).getD x false, ((charList len I).take x).count true) else none)
        ∧ access t x = Blue.BitVec.access (charList len I) x
        ∧ rank t x = Blue.BitVec.rank (charList len I) x
        ∧ select t x = Blue.BitVec.select (charList len I) x
        ∧ rank0 t x = Blue.BitVec.rank0 (charList len I) x
        ∧ select0 t x = Blue.BitVec.select0 (charList len I) x := by
  have hI := indicesOf_charList len I hs hlt
  have hL := charList_length len I
  have hlen' : (charList len I).length ≤ u64Max := by rw [hL]; exact hlen
  constructor
  · have := build_bits_isSome (bits := charList len I) hb1 hb2 hlen'
    rw [hI, hL] at this
    exact this
  · intro t hb x
    have hb' : build branch (charList len I).length (indicesOf (charList len I)) = some t := by
      rw [hI, hL]; exact hb
    refine ⟨?_, access_bits hb1 hb2 hlen' hb' x, rank_bits hb1 hb2 hlen' hb' x,
      select_bits hb1 hb2 hlen' hb' x, rank0_bits hb1 hb2 hlen' hb' x, select0_bits hb1 hb2 hlen' hb' x⟩
    have := accessRank_bits hb1 hb2 hlen' hb' x
    rw [hL] at this
    exact this

end indices

end Blue.BvSparse
