import Blue.Proofs.SstDamage
import Blue.Proofs.SstRoundtrip
/-! **C09 on the file image the builder writes** (`SstFile.bytes`, the image of C10's
    `sst_file_roundtrip`): the image is tiled by the frames of the data blocks, the frame of the
    index block, the frame of the filter block and the final block (which ends in the trailer).
    Damage of any shape inside one tile is detected or harmless (`sst_damage_detected_or_harmless`):

    * a data block's frame, the index block's frame, the filter block's frame — relative to
      `NoCollisionAt` for that frame: the open fails, or every cursor program / `load` / `metadata`
      / walk on the damaged table returns an error or exactly the reference answer over the entries
      the builder accepted, the calls before the first touch of the damaged block returning the
      reference answer;
    * the final block and trailer (no checksum covers them) — relative to `NoRedirect`: the open
      fails, or every cursor program / `load` / walk is the reference answer and `metadata` has the
      reference first and last key and file size; its `setsum`, `smallest_timestamp` and
      `biggest_timestamp` are whatever the damaged final block says (finding D-10). -/
namespace Blue.SstOpen
open Blue.Wire Blue.Block Blue.Sst Blue.Cursor Blue.ProtoMsg

/-! ### where the data block frames lie -/

/-- offset of the `i`-th data block's frame -/
def dataLo (blocks : List (List Nat)) (i : Nat) : Nat := ((blocks.take i).flatMap (frame SE_PLAIN)).length

theorem dataLo_zero (bs : List (List Nat)) : dataLo bs 0 = 0 := rfl

theorem dataLo_cons_succ (b : List Nat) (bs : List (List Nat)) (i : Nat) :
    dataLo (b :: bs) (i + 1) = (frame SE_PLAIN b).length + dataLo bs i := by
  simp only [dataLo, List.take_succ_cons, List.flatMap_cons, List.length_append]

theorem dataLo_mono : ∀ (bs : List (List Nat)) (i j : Nat), i ≤ j → dataLo bs i ≤ dataLo bs j
  | [], i, j, _ => by simp [dataLo]
  | _ :: _, 0, _, _ => by rw [dataLo_zero]; exact Nat.zero_le _
  | _ :: _, _ + 1, 0, h => by omega
  | b :: bs, i + 1, j + 1, h => by
    have := dataLo_mono bs i j (by omega)
    rw [dataLo_cons_succ, dataLo_cons_succ]
    omega

theorem dataLo_succ : ∀ (bs : List (List Nat)) (i : Nat) (b : List Nat), bs[i]? = some b →
    dataLo bs (i + 1) = dataLo bs i + (frame SE_PLAIN b).length
  | [], i, b, h => by simp at h
  | b0 :: bs, 0, b, h => by
    simp only [List.getElem?_cons_zero, Option.some.injEq] at h
    subst h
    rw [dataLo_cons_succ, dataLo_zero, dataLo_zero]
    omega
  | b0 :: bs, i + 1, b, h => by
    simp only [List.getElem?_cons_succ] at h
    have := dataLo_succ bs i b h
    rw [dataLo_cons_succ, dataLo_cons_succ, this]
    omega

theorem dataLo_le_total (bs : List (List Nat)) (i : Nat) : dataLo bs i ≤ (bs.flatMap (frame SE_PLAIN)).length := by
  have h := dataLo_mono bs i (max i bs.length) (Nat.le_max_left _ _)
  have : dataLo bs (max i bs.length) = (bs.flatMap (frame SE_PLAIN)).length := by
    unfold dataLo
    rw [List.take_of_length_le (Nat.le_max_right _ _)]
  omega

theorem metasOf_get : ∀ (st : Nat) (bs : List (List Nat)) (i : Nat) (b : List Nat), bs[i]? = some b →
    (metasOf st bs)[i]? = some ⟨st + dataLo bs i, st + dataLo bs i + (frame SE_PLAIN b).length, crc32c b⟩
  | _, [], i, b, h => by simp at h
  | st, b0 :: bs, 0, b, h => by
    simp only [List.getElem?_cons_zero, Option.some.injEq] at h
    subst h
    simp only [metasOf, List.getElem?_cons_zero, dataLo_zero, Nat.add_zero]
  | st, b0 :: bs, i + 1, b, h => by
    simp only [List.getElem?_cons_succ] at h
    have := metasOf_get (st + (frame SE_PLAIN b0).length) bs i b h
    simp only [metasOf, List.getElem?_cons_succ, this, dataLo_cons_succ, Nat.add_assoc]

/-! ### the opened image -/
section image
variable (crc : List Nat → Nat) (blocks : List (List Nat)) (index filter : List Nat) (fin : Final) (D : List KV)
  (L : List (List KV))

/-- the table `Sst::new` makes of the image (`open_image`) -/
def imgT : Opened :=
  ⟨imageOf blocks index filter fin, ⟨fin.index, fin.filter, fin.setsum, fin.smallest, fin.biggest⟩,
    List.zipWith (fun d m => (d.key, m)) D (metasOf 0 blocks), (imageOf blocks index filter fin).length⟩

variable
  (hfi : fin.index = ⟨(blocks.flatMap (frame SE_PLAIN)).length,
      (blocks.flatMap (frame SE_PLAIN)).length + (frame SE_PLAIN index).length, crc32c index⟩)
  (hff : fin.filter = ⟨fin.index.limit, fin.index.limit + (frame SE_FILTER filter).length, crc32c filter⟩)
  (hfo : fin.offset = fin.filter.limit)
  (hsetsum : fin.setsum.length = 32) (hsm : fin.smallest < U64) (hbg : fin.biggest < U64)
  (hsize : (imageOf blocks index filter fin).length < U64)
  (hcrc : ∀ b, b ∈ index :: filter :: blocks → crc b = crc32c b ∧ crc32c b < 4294967296)
  (hidx : decodePlain index = .ok D)
  (hD : D.map (·.val) = (metasOf 0 blocks).map (fun m => some (encBlockMeta m)))
  (hfl : filter.length ≠ 0 ∧ filter.length % 32 = 0)
  (hlen : D.length = blocks.length)
  (hL : ∀ (i : Nat) (b : List Nat), blocks[i]? = some b → decodePlain b = .ok (L.getD i []))
include hfi hff hfo hsetsum hsm hbg hsize hcrc hidx hD hfl hlen hL

omit hlen hL in
theorem imgT_open : openSst crc (imageOf blocks index filter fin) = .ok (imgT blocks index filter fin D) :=
  open_image crc blocks index filter fin D hfi hff hfo hsetsum hsm hbg hsize hcrc hidx hD hfl

omit hidx hD hfl hL hcrc hsetsum hsm hbg hsize hff hfo hfi in
theorem imgT_entry (i : Nat) (b : List Nat) (hb : blocks[i]? = some b) :
    ∃ k, (imgT blocks index filter fin D).entries[i]?
      = some (k, ⟨dataLo blocks i, dataLo blocks i + (frame SE_PLAIN b).length, crc32c b⟩) := by
  have hi : i < blocks.length := (List.getElem?_eq_some_iff.mp hb).1
  have hd : D[i]? = some D[i] := List.getElem?_eq_getElem (by omega)
  have hm := metasOf_get 0 blocks i b hb
  simp only [Nat.zero_add] at hm
  exact ⟨D[i].key, by simp only [imgT]; rw [List.getElem?_zipWith, hd, hm]⟩

omit hidx hD hfl hL hcrc hsetsum hsm hbg hsize hff hfo hfi hlen in
theorem imgT_entry_inv (j : Nat) (k : List Nat) (m : BlockMeta)
    (h : (imgT blocks index filter fin D).entries[j]? = some (k, m)) :
    ∃ b, blocks[j]? = some b ∧ m = ⟨dataLo blocks j, dataLo blocks j + (frame SE_PLAIN b).length, crc32c b⟩ := by
  simp only [imgT] at h
  rw [List.getElem?_zipWith] at h
  cases hd : D[j]? with
  | none => rw [hd] at h; simp at h
  | some dj =>
    cases hm : (metasOf 0 blocks)[j]? with
    | none => rw [hd, hm] at h; simp at h
    | some mj =>
      have hj : j < blocks.length := by
        have := (List.getElem?_eq_some_iff.mp hm).1
        rw [metasOf_length] at this; exact this
      have hb : blocks[j]? = some blocks[j] := List.getElem?_eq_getElem hj
      have := metasOf_get 0 blocks j _ hb
      simp only [Nat.zero_add] at this
      rw [hd, hm] at h
      rw [this] at hm
      simp only [Option.some.injEq, Prod.mk.injEq] at h hm
      exact ⟨blocks[j], hb, by rw [← h.2, ← hm]⟩

omit hidx hD hfl hL hlen in
theorem img_length_ge : fin.filter.limit + 8 ≤ (imageOf blocks index filter fin).length := by
  have := image_length crc blocks index filter fin hfi hff hfo hsetsum hsm hbg hsize hcrc
  have := encFinal_length_ge fin
  omega

/-- **damage inside the frame of data block `i` of the image** -/
theorem image_data_damage (d : List Nat) (i : Nat) (b : List Nat) (hb : blocks[i]? = some b)
    (hagree : AgreeOutside (imageOf blocks index filter fin) d (dataLo blocks i)
      (dataLo blocks i + (frame SE_PLAIN b).length))
    (hnc : NoCollisionAt crc (imageOf blocks index filter fin) d
      ⟨dataLo blocks i, dataLo blocks i + (frame SE_PLAIN b).length, crc32c b⟩) :
    openSst crc d = .ok { imgT blocks index filter fin D with file := d }
    ∧ (∀ j, j ≠ i → Opened.loadIdx crc { imgT blocks index filter fin D with file := d } j
          = (imgT blocks index filter fin D).loadIdx crc j)
    ∧ ((∃ e, Opened.loadIdx crc { imgT blocks index filter fin D with file := d } i = .error e)
        ∨ Opened.loadIdx crc { imgT blocks index filter fin D with file := d } i
          = (imgT blocks index filter fin D).loadIdx crc i)
    ∧ ReadsErrOrSame crc (imgT blocks index filter fin D) { imgT blocks index filter fin D with file := d } := by
  have hopen := imgT_open crc blocks index filter fin D hfi hff hfo hsetsum hsm hbg hsize hcrc hidx hD hfl
  obtain ⟨k, hk⟩ := imgT_entry blocks index filter fin D hlen i b hb
  have hi : i < blocks.length := (List.getElem?_eq_some_iff.mp hb).1
  have hge := img_length_ge crc blocks index filter fin hfi hff hfo hsetsum hsm hbg hsize hcrc
  have hs := dataLo_succ blocks i b hb
  have htot := dataLo_le_total blocks (i + 1)
  have h1 := frame_gt SE_PLAIN index
  have h2 := frame_gt SE_FILTER filter
  have hidxs : (imgT blocks index filter fin D).fin.index.start = (blocks.flatMap (frame SE_PLAIN)).length := by
    simp only [imgT]; rw [hfi]
  have hflim : fin.filter.limit = (blocks.flatMap (frame SE_PLAIN)).length + (frame SE_PLAIN index).length
      + (frame SE_FILTER filter).length := by rw [hff, hfi]
  apply sst_data_frame_damage crc _ d _ hopen i k _ hk
  · rw [hidxs]; simp only; omega
  · simp only; omega
  · intro j k' m' hj hjm
    obtain ⟨b', hb', rfl⟩ := imgT_entry_inv blocks index filter fin D j k' m' hjm
    simp only
    rcases Nat.lt_or_gt_of_ne hj with hlt | hgt
    · left
      have := dataLo_succ blocks j b' hb'
      have := dataLo_mono blocks (j + 1) i (by omega)
      omega
    · right
      have := dataLo_mono blocks (i + 1) j (by omega)
      omega
  · exact hagree
  · have hl := loadIdx_image crc blocks index filter fin D hfi hff hfo hsetsum hsm hbg hsize hcrc L hlen hL i hi
    have : Opened.loadIdx crc (imgT blocks index filter fin D) i = .ok (L.getD i []) := hl
    unfold Opened.loadIdx at this
    rw [hk] at this
    exact ⟨_, this⟩
  · exact hnc

omit hff hfo hsetsum hsm hbg hsize hcrc hidx hD hfl hlen hL in
/-- the data blocks of the image lie below its index block -/
theorem imgT_data_below :
    ∀ km ∈ (imgT blocks index filter fin D).entries, km.2.limit ≤ (imgT blocks index filter fin D).fin.index.start := by
  intro km hkm
  obtain ⟨j, hj, hjm⟩ := List.getElem_of_mem hkm
  have hjm' : (imgT blocks index filter fin D).entries[j]? = some (km.1, km.2) := by
    rw [List.getElem?_eq_getElem hj, hjm]
  obtain ⟨b', hb', hm⟩ := imgT_entry_inv blocks index filter fin D j km.1 km.2 hjm'
  rw [hm]
  have := dataLo_succ blocks j b' hb'
  have := dataLo_le_total blocks (j + 1)
  simp only [imgT]
  rw [hfi]
  simp only
  omega

omit hff hfo hsetsum hsm hbg hsize hcrc hidx hD hfl hlen hL in
/-- **the buffers `load_block` allocates for the image's data blocks** (`limit − start` of an index
    entry, allocated before the read) are non-empty extents below the index block, hence no longer
    than the file — and so they are for every damaged image the region theorems accept, whose index
    entries are these -/
theorem image_block_extents :
    ∀ km ∈ (imgT blocks index filter fin D).entries,
      km.2.start < km.2.limit ∧ km.2.limit ≤ (blocks.flatMap (frame SE_PLAIN)).length
      ∧ km.2.limit - km.2.start ≤ (imageOf blocks index filter fin).length := by
  intro km hkm
  have hb := imgT_data_below blocks index filter fin D hfi km hkm
  obtain ⟨j, hj, hjm⟩ := List.getElem_of_mem hkm
  have hjm' : (imgT blocks index filter fin D).entries[j]? = some (km.1, km.2) := by
    rw [List.getElem?_eq_getElem hj, hjm]
  obtain ⟨b', hb', hm⟩ := imgT_entry_inv blocks index filter fin D j km.1 km.2 hjm'
  have hpos := frame_gt SE_PLAIN b'
  have e : (imgT blocks index filter fin D).fin.index.start = (blocks.flatMap (frame SE_PLAIN)).length := by
    simp only [imgT]; rw [hfi]
  rw [e] at hb
  have hlen' : (blocks.flatMap (frame SE_PLAIN)).length ≤ (imageOf blocks index filter fin).length := by
    simp only [imageOf, List.length_append]; omega
  rw [hm] at hb ⊢
  simp only at hb ⊢
  omega

omit hlen hL in
/-- **damage inside the frame of the index block of the image** -/
theorem image_index_damage (d : List Nat)
    (hagree : AgreeOutside (imageOf blocks index filter fin) d fin.index.start fin.index.limit)
    (hnc : NoCollisionAt crc (imageOf blocks index filter fin) d fin.index) :
    (∃ e, openSst crc d = .error e)
    ∨ (openSst crc d = .ok { imgT blocks index filter fin D with file := d }
        ∧ (∀ j, Opened.loadIdx crc { imgT blocks index filter fin D with file := d } j
            = (imgT blocks index filter fin D).loadIdx crc j)
        ∧ ReadsErrOrSame crc (imgT blocks index filter fin D) { imgT blocks index filter fin D with file := d }) := by
  have hopen := imgT_open crc blocks index filter fin D hfi hff hfo hsetsum hsm hbg hsize hcrc hidx hD hfl
  have hge := img_length_ge crc blocks index filter fin hfi hff hfo hsetsum hsm hbg hsize hcrc
  have hbelow := imgT_data_below blocks index filter fin D hfi
  have h2 := frame_gt SE_FILTER filter
  have hfl' : fin.filter.limit = fin.index.limit + (frame SE_FILTER filter).length := by rw [hff]
  apply sst_index_frame_damage crc _ d _ hopen
  · show fin.index.limit + 8 ≤ _; omega
  · intro km hkm; exact Or.inl (hbelow km hkm)
  · exact hagree
  · exact hnc

omit hlen hL in
/-- **damage inside the frame of the filter block of the image** -/
theorem image_filter_damage (d : List Nat)
    (hagree : AgreeOutside (imageOf blocks index filter fin) d fin.filter.start fin.filter.limit)
    (hnc : NoCollisionAt crc (imageOf blocks index filter fin) d fin.filter) :
    (∃ e, openSst crc d = .error e)
    ∨ (openSst crc d = .ok { imgT blocks index filter fin D with file := d }
        ∧ (∃ b, frameAt (imageOf blocks index filter fin) fin.filter = .ok (1, b) ∧ frameAt d fin.filter = .ok (1, b))
        ∧ (∀ j, Opened.loadIdx crc { imgT blocks index filter fin D with file := d } j
            = (imgT blocks index filter fin D).loadIdx crc j)
        ∧ ReadsErrOrSame crc (imgT blocks index filter fin D) { imgT blocks index filter fin D with file := d }) := by
  have hopen := imgT_open crc blocks index filter fin D hfi hff hfo hsetsum hsm hbg hsize hcrc hidx hD hfl
  have hge := img_length_ge crc blocks index filter fin hfi hff hfo hsetsum hsm hbg hsize hcrc
  have hbelow := imgT_data_below blocks index filter fin D hfi
  have h1 := frame_gt SE_PLAIN index
  have hfs : fin.filter.start = fin.index.limit := by rw [hff]
  have his : fin.index.start < fin.index.limit := by rw [hfi]; simp only; omega
  apply sst_filter_frame_damage crc _ d _ hopen
  · exact hge
  · intro km hkm
    left
    have := hbelow km hkm
    show km.2.limit ≤ fin.filter.start
    have e : (imgT blocks index filter fin D).fin.index.start = fin.index.start := rfl
    rw [e] at this
    omega
  · exact hagree
  · exact hnc

omit hlen hL in
/-- **any replacement of the image's final block and trailer** (any length: damage, truncation
    inside the final block, appended bytes): the classification of `sst_tail_cases` -/
theorem image_tail_cases (d : List Nat) (hd : fin.filter.limit ≤ d.length)
    (hhead : ∀ i, i < fin.filter.limit → d[i]? = (imageOf blocks index filter fin)[i]?) :
    match classifyTail crc (imgT blocks index filter fin D) d with
    | .detected e => openSst crc d = .error e
    | .metaOnly => ∃ t', openSst crc d = .ok t' ∧ t'.fin.index = fin.index ∧ t'.fin.filter = fin.filter
        ∧ t'.entries = (imgT blocks index filter fin D).entries
        ∧ ∀ i, t'.loadIdx crc i = (imgT blocks index filter fin D).loadIdx crc i
    | .filterRedirected => ∃ t', openSst crc d = .ok t' ∧ t'.fin.index = fin.index
        ∧ t'.entries = (imgT blocks index filter fin D).entries
        ∧ (∀ i, t'.loadIdx crc i = (imgT blocks index filter fin D).loadIdx crc i)
        ∧ t'.fin.filter ≠ fin.filter
        ∧ ∃ body, frameAt d t'.fin.filter = .ok (1, body) ∧ crc body = t'.fin.filter.crc
    | .indexRedirected => ∃ t', openSst crc d = .ok t' ∧ t'.fin.index ≠ fin.index
        ∧ ∃ body, frameAt d t'.fin.index = .ok (0, body) ∧ crc body = t'.fin.index.crc := by
  have hopen := imgT_open crc blocks index filter fin D hfi hff hfo hsetsum hsm hbg hsize hcrc hidx hD hfl
  have hge := img_length_ge crc blocks index filter fin hfi hff hfo hsetsum hsm hbg hsize hcrc
  have hbelow := imgT_data_below blocks index filter fin D hfi
  have h1 := frame_gt SE_PLAIN index
  have h2 := frame_gt SE_FILTER filter
  have hfl' : fin.filter.limit = fin.index.limit + (frame SE_FILTER filter).length := by rw [hff]
  have his : fin.index.start < fin.index.limit := by rw [hfi]; simp only; omega
  exact sst_tail_cases crc _ d _ hopen fin.filter.limit (by omega) hd hhead
    (by show fin.index.limit ≤ _; omega)
    (fun km hkm => by
      have := hbelow km hkm
      have e : (imgT blocks index filter fin D).fin.index.start = fin.index.start := rfl
      rw [e] at this
      omega)

end image


/-! ### the builder's image: every tile -/

/-- the facts about a sealed file that `open_image` / `loadIdx_image` need (they are derived inside
    the proof of `sst_file_roundtrip`; here they are exported) -/
theorem builder_image_facts (o : SstOpts) (atts : List KV) (filter setsum : List Nat)
    (f : SstFile) (s1 : SB)
    (hs1 : sealedState o (SB.putAll o SB.init atts).2 = .ok s1)
    (hseal : (SB.putAll o SB.init atts).2.seal o filter setsum = .ok f)
    (hts : ∀ e ∈ atts, e.ts ≤ U64MAX)
    (hwfE : ∀ e ∈ (SB.putAll o SB.init atts).2.accepted, e.Wf) (hwfD : ∀ d ∈ s1.divE, d.Wf)
    (hfitE : ∀ es ∈ s1.cutE, Fits (build o.blk es)) (hfitD : Fits (build o.blk s1.divE))
    (hsetsum : setsum.length = 32)
    (hfilter : filter.length = filterLen (SB.putAll o SB.init atts).2.count o.bloomBits) :
    f.fin.index = ⟨(f.blocks.flatMap (frame SE_PLAIN)).length,
        (f.blocks.flatMap (frame SE_PLAIN)).length + (frame SE_PLAIN f.index).length, crc32c f.index⟩
    ∧ f.fin.filter = ⟨f.fin.index.limit, f.fin.index.limit + (frame SE_FILTER f.filter).length, crc32c f.filter⟩
    ∧ f.fin.offset = f.fin.filter.limit
    ∧ f.fin.setsum.length = 32 ∧ f.fin.smallest < U64 ∧ f.fin.biggest < U64
    ∧ decodePlain f.index = .ok s1.divE
    ∧ s1.divE.map (·.val) = (metasOf 0 f.blocks).map (fun m => some (encBlockMeta m))
    ∧ (f.filter.length ≠ 0 ∧ f.filter.length % 32 = 0)
    ∧ s1.divE.length = f.blocks.length
    ∧ (∀ (i : Nat) (b : List Nat), f.blocks[i]? = some b → decodePlain b = .ok (s1.cutE.getD i []))
    ∧ s1.cutE.flatten = (SB.putAll o SB.init atts).2.accepted ∧ (∀ b ∈ s1.cutE, b ≠ [])
    ∧ Separates s1.cutE s1.divE ∧ Sorted s1.cutE.flatten
    ∧ s1.cutE.flatten.length ≤ (f.blocks.flatMap (frame SE_PLAIN)).length
    ∧ f.fin.setsum = setsum := by
  have hi := sinv_putAll o atts SB.init (sinv_init o)
  have hfi := finv_putAll o atts SB.init finv_init
  have hmi := minv_putAll o atts SB.init hts minv_init
  generalize (SB.putAll o SB.init atts).2 = s at *
  obtain ⟨c1, c2, c3, c4, c5⟩ := sealed_cut hi hs1
  have hf1 := sealed_finv hfi hs1
  obtain ⟨hm1, hacc1⟩ := sealed_minv hmi hs1
  obtain ⟨s1', hs1', fb, fi, ff, ffin⟩ := seal_eq hseal
  rw [hs1] at hs1'
  cases hs1'
  have hsorted : Sorted s1.cutE.flatten := by rw [c1]; exact hi.sorted
  have hsep : Separates s1.cutE s1.divE := separates_congr (dividersOf_separates s1.cutE c2 hsorted) c3
  have hA : s1.bytesWritten = (f.blocks.flatMap (frame SE_PLAIN)).length := by rw [fb]; exact hf1.written
  have hfin_i : f.fin.index = ⟨(f.blocks.flatMap (frame SE_PLAIN)).length,
      (f.blocks.flatMap (frame SE_PLAIN)).length + (frame SE_PLAIN f.index).length, crc32c f.index⟩ := by
    rw [ffin, fi, ← hA]; rfl
  have hfin_f : f.fin.filter = ⟨f.fin.index.limit, f.fin.index.limit + (frame SE_FILTER f.filter).length, crc32c f.filter⟩ := by
    rw [ffin, ff]; rfl
  have hfin_o : f.fin.offset = f.fin.filter.limit := by rw [ffin]; rfl
  have hss : f.fin.setsum.length = 32 := by rw [ffin]; exact hsetsum
  have hsmbg : f.fin.smallest < U64 ∧ f.fin.biggest < U64 := by
    rw [ffin]
    simp only [finOf]
    by_cases hc : s1.smallest > s1.biggest
    · simp only [if_pos hc]; unfold U64; omega
    · simp only [if_neg hc]
      by_cases hne : s1.accepted = []
      · obtain ⟨h1, h2⟩ := hm1.none_ hne
        rw [h1, h2] at hc; unfold U64MAX at hc; omega
      · obtain ⟨⟨a, ha1, ha2⟩, ⟨b, hb1, hb2⟩⟩ := hm1.attained hne
        rw [hacc1] at ha1 hb1
        have := (hwfE a ha1).1
        have := (hwfE b hb1).1
        omega
  have hwfcut : ∀ es ∈ s1.cutE, ∀ e ∈ es, e.Wf := by
    intro es hes e he
    apply hwfE e
    rw [← c1]
    exact List.mem_flatten.mpr ⟨es, hes, he⟩
  have hidx : decodePlain f.index = .ok s1.divE := by
    rw [fi, c5]; exact decodePlain_seal o.blk s1.divE hwfD hfitD
  have hlen : s1.divE.length = f.blocks.length := by
    rw [fb, c4, List.length_map]; exact hsep.len
  have hL : ∀ (i : Nat) (b : List Nat), f.blocks[i]? = some b → decodePlain b = .ok (s1.cutE.getD i []) := by
    intro i b hb
    rw [fb, c4, List.getElem?_map] at hb
    cases hes : s1.cutE[i]? with
    | none => rw [hes] at hb; cases hb
    | some es =>
      rw [hes] at hb
      simp only [Option.map_some, Option.some.injEq] at hb
      subst hb
      have hmem := List.mem_of_getElem? hes
      rw [List.getD_eq_getElem?_getD, hes]
      exact decodePlain_seal o.blk es (hwfcut es hmem) (hfitE es hmem)
  have hD : s1.divE.map (·.val) = (metasOf 0 f.blocks).map (fun m => some (encBlockMeta m)) := by
    rw [fb]; exact hf1.vals
  have hfl : f.filter.length ≠ 0 ∧ f.filter.length % 32 = 0 := by
    rw [ff, hfilter]
    unfold filterLen
    simp only
    constructor
    · exact Nat.ne_of_gt (Nat.mul_pos (Nat.succ_pos _) (by omega))
    · exact Nat.mul_mod_left _ _
  have hcount : s1.cutE.flatten.length ≤ (f.blocks.flatMap (frame SE_PLAIN)).length := by
    have := frames_count o.blk s1.cutE
    rw [← c4, ← fb] at this
    exact this
  have hset : f.fin.setsum = setsum := by rw [ffin]; rfl
  exact ⟨hfin_i, hfin_f, hfin_o, hss, hsmbg.1, hsmbg.2, hidx, hD, hfl, hlen, hL, c1, c2, hsep, hsorted, hcount, hset⟩

/-- the tiles of the image -/
inductive SstRegion where
  /-- the frame (tag, length, payload) of the `i`-th data block -/
  | data (i : Nat)
  /-- the frame of the index block -/
  | index
  /-- the frame of the filter block -/
  | filter
  /-- the final block, which ends in the eight-byte trailer: no checksum covers it -/
  | tail
deriving DecidableEq, Repr

/-- the bytes `[lo, hi)` of the image a region covers -/
def SstRegion.extent (f : SstFile) : SstRegion → Nat × Nat
  | .data i => (dataLo f.blocks i, dataLo f.blocks i + (frame SE_PLAIN (f.blocks.getD i [])).length)
  | .index => (f.fin.index.start, f.fin.index.limit)
  | .filter => (f.fin.filter.start, f.fin.filter.limit)
  | .tail => (f.fin.filter.limit, f.bytes.length)

def SstRegion.Valid (f : SstFile) : SstRegion → Prop
  | .data i => i < f.blocks.length
  | _ => True

/-- **the hypothesis about the checksum, per region**: `NoCollisionAt` for the one frame the region
    holds; for the unchecksummed tail, `NoRedirect` -/
def SstRegion.Hyp (crc : List Nat → Nat) (f : SstFile) (d : List Nat) : SstRegion → Prop
  | .data i => NoCollisionAt crc f.bytes d
      ⟨dataLo f.blocks i, dataLo f.blocks i + (frame SE_PLAIN (f.blocks.getD i [])).length, crc32c (f.blocks.getD i [])⟩
  | .index => NoCollisionAt crc f.bytes d f.fin.index
  | .filter => NoCollisionAt crc f.bytes d f.fin.filter
  | .tail => match openSst crc f.bytes with
    | .ok t => NoRedirect crc t d
    | .error _ => True

instance (crc : List Nat → Nat) (f : SstFile) (d : List Nat) (r : SstRegion) : Decidable (r.Hyp crc f d) :=
  match r with
  | .data i => inferInstanceAs (Decidable (NoCollisionAt crc f.bytes d
      ⟨dataLo f.blocks i, dataLo f.blocks i + (frame SE_PLAIN (f.blocks.getD i [])).length, crc32c (f.blocks.getD i [])⟩))
  | .index => inferInstanceAs (Decidable (NoCollisionAt crc f.bytes d f.fin.index))
  | .filter => inferInstanceAs (Decidable (NoCollisionAt crc f.bytes d f.fin.filter))
  | .tail => by
    unfold SstRegion.Hyp
    cases openSst crc f.bytes with
    | ok t => exact inferInstanceAs (Decidable (NoRedirect crc t d))
    | error e => exact isTrue trivial

/-- **every read of the damaged table is an error or the reference answer** over the entries `acc`
    the builder accepted.  `tail = true` (damage to the unchecksummed final block) weakens only the
    `metadata` clause: first key, last key and file size are the reference's, the other three fields
    are the damaged final block's (D-10). -/
structure ErrOrReference (crc : List Nat → Nat) (acc : List KV) (refMeta : Metadata) (tail : Bool) (t' : Opened) : Prop where
  run : ∀ ops : List KOp, RunErrOrSame (t'.run crc t'.toFirst ops) ((Ref.run ⟨acc, 0⟩ (ops.map KOp.toOp)).map .ok)
  load : ∀ (k : List Nat) (ts : Nat), (∃ e, t'.load crc k ts = .error e) ∨ t'.load crc k ts = .ok (loadSpec acc k ts)
  forward : t'.forward crc = (acc, none) ∨ ∃ e more, (t'.forward crc).2 = some e ∧ acc = (t'.forward crc).1 ++ more
  backward : t'.backward crc = (acc.reverse, none)
    ∨ ∃ e more, (t'.backward crc).2 = some e ∧ acc.reverse = (t'.backward crc).1 ++ more
  metadata : (∃ e, t'.metadata crc = .error e) ∨ t'.metadata crc = .ok refMeta
    ∨ (tail = true ∧ ∃ m', t'.metadata crc = .ok m' ∧ m'.firstKey = refMeta.firstKey ∧ m'.lastKey = refMeta.lastKey
        ∧ m'.fileSize = refMeta.fileSize)

theorem errOrReference_of_reads (crc : List Nat → Nat) (acc : List KV) (refMeta : Metadata) (tail : Bool) (t t' : Opened)
    (h : ReadsErrOrSame crc t t')
    (r1 : ∀ ops : List KOp, t.run crc t.toFirst ops = (Ref.run ⟨acc, 0⟩ (ops.map KOp.toOp)).map .ok)
    (r2 : ∀ (k : List Nat) (ts : Nat), t.load crc k ts = .ok (loadSpec acc k ts))
    (r3 : t.metadata crc = .ok refMeta)
    (r4 : t.forward crc = (acc, none)) (r5 : t.backward crc = (acc.reverse, none)) :
    ErrOrReference crc acc refMeta tail t' := by
  refine ⟨?_, ?_, ?_, ?_, ?_⟩
  · intro ops
    have := h.run t.toFirst ops
    rw [r1] at this
    exact this
  · intro k ts
    have := h.load k ts
    rw [r2] at this
    exact this
  · have := h.forward
    rw [r4] at this
    exact this
  · have := h.backward
    rw [r5] at this
    exact this
  · have := h.metadata
    rw [r3] at this
    rcases this with h1 | h1
    · exact Or.inl h1
    · exact Or.inr (Or.inl h1)

/-- **sst_damage_detected_or_harmless**: the file image `f.bytes` the builder wrote (as in
    `sst_file_roundtrip`) and ANY damaged image `d` of the same length that differs from it only
    inside one tile `r` — a data block's frame, the index block's frame, the filter block's frame,
    or the final block with the trailer — under that tile's hypothesis about the checksum
    (`SstRegion.Hyp`).  `Sst::new` on `d` fails, or every cursor program, `load`, `metadata` and
    whole walk on the table it returns is an error or exactly the reference answer over the
    accepted entries (for the tail: `metadata`'s setsum and two timestamps excepted, D-10), and the
    filter block that table consults is the one the builder wrote, byte for byte (so the bloom
    filter, which the model does not interpret, answers as it does on the pristine file). -/
theorem sst_damage_detected_or_harmless (crc : List Nat → Nat) (o : SstOpts) (atts : List KV) (filter setsum : List Nat)
    (f : SstFile) (s1 : SB)
    (hs1 : sealedState o (SB.putAll o SB.init atts).2 = .ok s1)
    (hseal : (SB.putAll o SB.init atts).2.seal o filter setsum = .ok f)
    (hts : ∀ e ∈ atts, e.ts ≤ U64MAX)
    (hwfE : ∀ e ∈ (SB.putAll o SB.init atts).2.accepted, e.Wf) (hwfD : ∀ d ∈ s1.divE, d.Wf)
    (hfitE : ∀ es ∈ s1.cutE, Fits (build o.blk es)) (hfitD : Fits (build o.blk s1.divE))
    (hsetsum : setsum.length = 32)
    (hfilter : filter.length = filterLen (SB.putAll o SB.init atts).2.count o.bloomBits)
    (hsize : f.bytes.length < U64)
    (hcrc : ∀ b, b ∈ f.index :: f.filter :: f.blocks → crc b = crc32c b ∧ crc32c b < 4294967296)
    (d : List Nat) (r : SstRegion) (hv : r.Valid f)
    (hagree : AgreeOutside f.bytes d (r.extent f).1 (r.extent f).2)
    (hyp : r.Hyp crc f d) :
    (∃ e, openSst crc d = .error e)
    ∨ ∃ t', openSst crc d = .ok t'
        ∧ frameAt d t'.fin.filter = frameAt f.bytes f.fin.filter
        ∧ ErrOrReference crc (SB.putAll o SB.init atts).2.accepted
            ⟨setsum,
             (match (SB.putAll o SB.init atts).2.accepted.head? with | some e => e.key | none => []),
             (match (SB.putAll o SB.init atts).2.accepted.getLast? with | some e => e.key | none => MAX_KEY),
             f.fin.smallest, f.fin.biggest, f.bytes.length⟩
            (decide (r = .tail)) t' := by
  obtain ⟨t, hopen, r1, r2, r3, r4, r5⟩ := sst_file_roundtrip crc o atts filter setsum f s1 hs1 hseal hts hwfE hwfD
    hfitE hfitD hsetsum hfilter hsize hcrc
  obtain ⟨hfi, hff, hfo, hss, hsm, hbg, hidx, hD, hfl, hlen, hL, _⟩ := builder_image_facts o atts filter setsum f s1
    hs1 hseal hts hwfE hwfD hfitE hfitD hsetsum hfilter
  have hbytes : f.bytes = imageOf f.blocks f.index f.filter f.fin := rfl
  have hsize' : (imageOf f.blocks f.index f.filter f.fin).length < U64 := hsize
  have hT := imgT_open crc f.blocks f.index f.filter f.fin s1.divE hfi hff hfo hss hsm hbg hsize' hcrc hidx hD hfl
  have ht : t = imgT f.blocks f.index f.filter f.fin s1.divE := by
    rw [hbytes, hT] at hopen
    exact (Except.ok.inj hopen).symm
  subst ht
  cases r with
  | data i =>
    have hi : i < f.blocks.length := hv
    have hb : f.blocks[i]? = some (f.blocks.getD i []) := by
      rw [List.getD_eq_getElem?_getD, List.getElem?_eq_getElem hi]; rfl
    obtain ⟨ho, _, _, hreads⟩ := image_data_damage crc f.blocks f.index f.filter f.fin s1.divE s1.cutE hfi hff hfo hss hsm hbg
      hsize' hcrc hidx hD hfl hlen hL d i _ hb hagree hyp
    right
    refine ⟨_, ho, ?_, ?_⟩
    · show frameAt d f.fin.filter = frameAt f.bytes f.fin.filter
      have hs := dataLo_succ f.blocks i _ hb
      have htot := dataLo_le_total f.blocks (i + 1)
      have h1 := frame_gt SE_PLAIN f.index
      have hfs : f.fin.filter.start = (f.blocks.flatMap (frame SE_PLAIN)).length + (frame SE_PLAIN f.index).length := by
        rw [hff, hfi]
      apply frameAt_agree f.bytes d f.fin.filter (by rw [hagree.1])
      intro x hx1 _
      apply hagree.2
      right
      show dataLo f.blocks i + (frame SE_PLAIN (f.blocks.getD i [])).length ≤ x
      omega
    · exact errOrReference_of_reads crc _ _ _ _ _ hreads r1 r2 r3 r4 r5
  | index =>
    rcases image_index_damage crc f.blocks f.index f.filter f.fin s1.divE hfi hff hfo hss hsm hbg
      hsize' hcrc hidx hD hfl d hagree hyp with he | ⟨ho, _, hreads⟩
    · exact Or.inl he
    · right
      refine ⟨_, ho, ?_, ?_⟩
      · show frameAt d f.fin.filter = frameAt f.bytes f.fin.filter
        have hfs : f.fin.filter.start = f.fin.index.limit := by rw [hff]
        apply frameAt_agree f.bytes d f.fin.filter (by rw [hagree.1])
        intro x hx1 _
        apply hagree.2
        right
        show f.fin.index.limit ≤ x
        omega
      · exact errOrReference_of_reads crc _ _ _ _ _ hreads r1 r2 r3 r4 r5
  | filter =>
    rcases image_filter_damage crc f.blocks f.index f.filter f.fin s1.divE hfi hff hfo hss hsm hbg
      hsize' hcrc hidx hD hfl d hagree hyp with he | ⟨ho, ⟨bf, hb1, hb2⟩, _, hreads⟩
    · exact Or.inl he
    · right
      refine ⟨_, ho, ?_, ?_⟩
      · show frameAt d f.fin.filter = frameAt f.bytes f.fin.filter
        rw [hb2]; exact hb1.symm
      · exact errOrReference_of_reads crc _ _ _ _ _ hreads r1 r2 r3 r4 r5
  | tail =>
    have hnr : NoRedirect crc (imgT f.blocks f.index f.filter f.fin s1.divE) d := by
      have : SstRegion.Hyp crc f d .tail := hyp
      unfold SstRegion.Hyp at this
      rw [hopen] at this
      exact this
    have hge := img_length_ge crc f.blocks f.index f.filter f.fin hfi hff hfo hss hsm hbg hsize' hcrc
    have hbelow := imgT_data_below f.blocks f.index f.filter f.fin s1.divE hfi
    have h1 := frame_gt SE_PLAIN f.index
    have h2 := frame_gt SE_FILTER f.filter
    have hfl' : f.fin.filter.limit = f.fin.index.limit + (frame SE_FILTER f.filter).length := by rw [hff]
    have his : f.fin.index.start < f.fin.index.limit := by rw [hfi]; simp only; omega
    have hti : (imgT f.blocks f.index f.filter f.fin s1.divE).fin.index = f.fin.index := rfl
    rcases sst_tail_damage crc f.bytes d _ hopen f.fin.filter.limit (by rw [hbytes]; omega)
      (by rw [hti]; omega)
      (fun km hkm => by
        have := hbelow km hkm
        have e : (imgT f.blocks f.index f.filter f.fin s1.divE).fin.index.start = f.fin.index.start := rfl
        rw [e] at this
        omega)
      (Nat.le_refl _)
      hagree hnr with he | ⟨t', ho, _, _, _, qf, q1, q2, q3, q4, q5, q6⟩
    · exact Or.inl he
    · right
      refine ⟨t', ho, qf, ?_, ?_, ?_, ?_, ?_⟩
      · intro ops
        left
        have e : t'.toFirst = (imgT f.blocks f.index f.filter f.fin s1.divE).toFirst := rfl
        rw [e, q1, r1]
      · intro k ts; right; rw [q2, r2]
      · left; rw [q3, r4]
      · left; rw [q4, r5]
      · right; right
        refine ⟨rfl, ?_⟩
        rw [q5, r3]
        simp only
        obtain ⟨_, hsz', _⟩ := open_guarded crc d t' ho
        exact ⟨_, rfl, rfl, rfl, by simp only; rw [hsz', hagree.1]⟩

/-! ### the tail replaced by bytes of any length: truncation inside it, appended bytes -/

/-- a table whose loader delivers the blocks `L`, with dividers `D` that separate them: every read
    is the reference answer over `L.flatten` (the read side of `sst_file_roundtrip`, for any opened
    table — it is used for tables opened from an image whose tail was replaced) -/
theorem reference_of_loader (crc : List Nat → Nat) (t' : Opened) (L : List (List KV)) (D : List KV)
    (c2 : ∀ b ∈ L, b ≠ []) (hsep : Separates L D) (hsorted : Sorted L.flatten)
    (hn : t'.entries.length = L.length) (hkeys : t'.entries.map (·.1) = D.map (·.key))
    (hld : ∀ i, i < L.length → t'.loadIdx crc i = .ok (L.getD i []))
    (hfuel : L.flatten.length + 1 ≤ t'.fuel) :
    (∀ ops : List KOp, t'.run crc t'.toFirst ops = (Ref.run ⟨L.flatten, 0⟩ (ops.map KOp.toOp)).map .ok)
    ∧ (∀ (k : List Nat) (ts : Nat), t'.load crc k ts = .ok (loadSpec L.flatten k ts))
    ∧ t'.metadata crc = .ok
        ⟨t'.fin.setsum, (match L.flatten.head? with | some e => e.key | none => []),
         (match L.flatten.getLast? with | some e => e.key | none => MAX_KEY),
         t'.fin.smallest, t'.fin.biggest, t'.fileSize⟩
    ∧ t'.forward crc = (L.flatten, none) ∧ t'.backward crc = (L.flatten.reverse, none) := by
  refine ⟨?_, ?_, ?_, ?_⟩
  · intro ops
    have h1 := run_sim crc t' L D hn hkeys hld ops 0 none (wb_none (Nat.zero_le _))
    have h2 := separates_cursor_refines L D c2 hsep ops
    show Opened.run crc t' ⟨0, none⟩ ops = _
    rw [h1, h2]
  · intro k ts
    rw [load_sim crc t' L D hn hkeys hld k ts]
    congr 1
    exact table_scan_fuel L D c2 hsorted k ts (separates_divOk hsep k) _ hfuel
  · rw [metadata_sim crc t' L D hn hld]
    congr 1
    obtain ⟨k1, k2⟩ := metadata_keys ⟨L, D, t'.fileSize, t'.fin.setsum, t'.fin.smallest, t'.fin.biggest⟩ c2
    have e : Table.metadata ⟨L, D, t'.fileSize, t'.fin.setsum, t'.fin.smallest, t'.fin.biggest⟩
        = ⟨t'.fin.setsum, (Table.metadata ⟨L, D, t'.fileSize, t'.fin.setsum, t'.fin.smallest, t'.fin.biggest⟩).firstKey,
           (Table.metadata ⟨L, D, t'.fileSize, t'.fin.setsum, t'.fin.smallest, t'.fin.biggest⟩).lastKey,
           t'.fin.smallest, t'.fin.biggest, t'.fileSize⟩ := rfl
    rw [e, k1, k2]
    rfl
  · exact walks_sim crc t' L hn hld c2 hfuel

/-- **the same table, resized**: every cursor program, `load` and walk is the reference answer over
    the accepted entries, `metadata` has the reference first and last key; `setsum`, the two
    timestamps and the file size are those of the replaced (unchecksummed) tail -/
structure SameTableResized (crc : List Nat → Nat) (acc : List KV) (t' : Opened) : Prop where
  run : ∀ ops : List KOp, t'.run crc t'.toFirst ops = (Ref.run ⟨acc, 0⟩ (ops.map KOp.toOp)).map .ok
  load : ∀ (k : List Nat) (ts : Nat), t'.load crc k ts = .ok (loadSpec acc k ts)
  forward : t'.forward crc = (acc, none)
  backward : t'.backward crc = (acc.reverse, none)
  metadata : t'.metadata crc = .ok
    ⟨t'.fin.setsum, (match acc.head? with | some e => e.key | none => []),
     (match acc.getLast? with | some e => e.key | none => MAX_KEY), t'.fin.smallest, t'.fin.biggest, t'.fileSize⟩

/-- **sst_tail_replaced**: the image with everything after the filter block replaced by bytes of
    ANY length (damage to the final block and trailer, a cut inside them, bytes appended after the
    trailer — the trailer is read from the end of the file, so appended bytes *are* the new
    trailer).  Under `NoRedirect` the open fails or the result is the same table resized: appended
    bytes that parse as a final block with the original index and filter triples are accepted, with
    whatever setsum and timestamps they carry (D-10) and the new length as file size. -/
theorem sst_tail_replaced (crc : List Nat → Nat) (o : SstOpts) (atts : List KV) (filter setsum : List Nat)
    (f : SstFile) (s1 : SB)
    (hs1 : sealedState o (SB.putAll o SB.init atts).2 = .ok s1)
    (hseal : (SB.putAll o SB.init atts).2.seal o filter setsum = .ok f)
    (hts : ∀ e ∈ atts, e.ts ≤ U64MAX)
    (hwfE : ∀ e ∈ (SB.putAll o SB.init atts).2.accepted, e.Wf) (hwfD : ∀ d ∈ s1.divE, d.Wf)
    (hfitE : ∀ es ∈ s1.cutE, Fits (build o.blk es)) (hfitD : Fits (build o.blk s1.divE))
    (hsetsum : setsum.length = 32)
    (hfilter : filter.length = filterLen (SB.putAll o SB.init atts).2.count o.bloomBits)
    (hsize : f.bytes.length < U64)
    (hcrc : ∀ b, b ∈ f.index :: f.filter :: f.blocks → crc b = crc32c b ∧ crc32c b < 4294967296)
    (d : List Nat) (hd : f.fin.filter.limit ≤ d.length)
    (hhead : ∀ i, i < f.fin.filter.limit → d[i]? = f.bytes[i]?)
    (hnr : SstRegion.Hyp crc f d .tail) :
    (∃ e, openSst crc d = .error e)
    ∨ ∃ t', openSst crc d = .ok t' ∧ t'.fileSize = d.length ∧ t'.fin.index = f.fin.index ∧ t'.fin.filter = f.fin.filter
        ∧ frameAt d t'.fin.filter = frameAt f.bytes f.fin.filter
        ∧ SameTableResized crc (SB.putAll o SB.init atts).2.accepted t' := by
  obtain ⟨hfi, hff, hfo, hss, hsm, hbg, hidx, hD, hfl, hlen, hL, c1, c2, hsep, hsorted, hcount, _⟩ :=
    builder_image_facts o atts filter setsum f s1 hs1 hseal hts hwfE hwfD hfitE hfitD hsetsum hfilter
  have hbytes : f.bytes = imageOf f.blocks f.index f.filter f.fin := rfl
  have hsize' : (imageOf f.blocks f.index f.filter f.fin).length < U64 := hsize
  have hT := imgT_open crc f.blocks f.index f.filter f.fin s1.divE hfi hff hfo hss hsm hbg hsize' hcrc hidx hD hfl
  have hnr' : NoRedirect crc (imgT f.blocks f.index f.filter f.fin s1.divE) d := by
    unfold SstRegion.Hyp at hnr
    rw [hbytes, hT] at hnr
    exact hnr
  have hc := image_tail_cases crc f.blocks f.index f.filter f.fin s1.divE hfi hff hfo hss hsm hbg hsize' hcrc hidx hD hfl
    d hd hhead
  cases hcl : classifyTail crc (imgT f.blocks f.index f.filter f.fin s1.divE) d with
  | detected e => rw [hcl] at hc; exact Or.inl ⟨e, hc⟩
  | filterRedirected => exact absurd hcl hnr'.1
  | indexRedirected => exact absurd hcl hnr'.2
  | metaOnly =>
    rw [hcl] at hc
    obtain ⟨t', ho, hi, hf, hent, hload⟩ := hc
    right
    obtain ⟨hfile', hsz', _⟩ := open_guarded crc d t' ho
    have hn : t'.entries.length = s1.cutE.length := by
      rw [hent]
      simp only [imgT]
      rw [List.length_zipWith, metasOf_length, hlen, Nat.min_self]
      have := hsep.len
      omega
    have hkeys : t'.entries.map (·.1) = s1.divE.map (·.key) := by
      rw [hent]
      exact zipWith_keys s1.divE (metasOf 0 f.blocks) (by rw [metasOf_length]; exact hlen)
    have hld : ∀ i, i < s1.cutE.length → t'.loadIdx crc i = .ok (s1.cutE.getD i []) := by
      intro i hi'
      rw [hload i]
      exact loadIdx_image crc f.blocks f.index f.filter f.fin s1.divE hfi hff hfo hss hsm hbg hsize' hcrc
        s1.cutE hlen hL i (by have := hsep.len; omega)
    have hfuel : s1.cutE.flatten.length + 1 ≤ t'.fuel := by
      unfold Opened.fuel
      rw [hfile']
      have h1 := frame_gt SE_PLAIN f.index
      have : f.fin.filter.limit = (f.blocks.flatMap (frame SE_PLAIN)).length + (frame SE_PLAIN f.index).length
          + (frame SE_FILTER f.filter).length := by rw [hff, hfi]
      omega
    obtain ⟨q1, q2, q3, q4, q5⟩ := reference_of_loader crc t' s1.cutE s1.divE c2 hsep hsorted hn hkeys hld hfuel
    rw [c1] at q1 q2 q3 q4 q5
    have hge := img_length_ge crc f.blocks f.index f.filter f.fin hfi hff hfo hss hsm hbg hsize' hcrc
    have hfr : frameAt d t'.fin.filter = frameAt f.bytes f.fin.filter := by
      rw [hf]
      exact frameAt_agree f.bytes d f.fin.filter ⟨fun _ => by rw [hbytes]; omega, fun _ => hd⟩
        (fun i _ hi2 => hhead i hi2)
    exact ⟨t', ho, hsz', hi, hf, hfr, q1, q2, q4, q5, q3⟩

/-- **sst_truncated_rejected_or_same**: the image cut at ANY length `n`, under `NoRedirect` for the
    cut file: `Sst::new` fails — always when the cut is below the end of the filter block — or the
    result is the same table resized (only possible when the last eight bytes left happen to name an
    offset from which a final block with the original two triples parses). -/
theorem sst_truncated_rejected_or_same (crc : List Nat → Nat) (o : SstOpts) (atts : List KV) (filter setsum : List Nat)
    (f : SstFile) (s1 : SB)
    (hs1 : sealedState o (SB.putAll o SB.init atts).2 = .ok s1)
    (hseal : (SB.putAll o SB.init atts).2.seal o filter setsum = .ok f)
    (hts : ∀ e ∈ atts, e.ts ≤ U64MAX)
    (hwfE : ∀ e ∈ (SB.putAll o SB.init atts).2.accepted, e.Wf) (hwfD : ∀ d ∈ s1.divE, d.Wf)
    (hfitE : ∀ es ∈ s1.cutE, Fits (build o.blk es)) (hfitD : Fits (build o.blk s1.divE))
    (hsetsum : setsum.length = 32)
    (hfilter : filter.length = filterLen (SB.putAll o SB.init atts).2.count o.bloomBits)
    (hsize : f.bytes.length < U64)
    (hcrc : ∀ b, b ∈ f.index :: f.filter :: f.blocks → crc b = crc32c b ∧ crc32c b < 4294967296)
    (n : Nat) (hnr : SstRegion.Hyp crc f (f.bytes.take n) .tail) :
    (∃ e, openSst crc (f.bytes.take n) = .error e)
    ∨ (f.fin.filter.limit ≤ n ∧ ∃ t', openSst crc (f.bytes.take n) = .ok t' ∧ t'.fileSize = (f.bytes.take n).length
        ∧ SameTableResized crc (SB.putAll o SB.init atts).2.accepted t') := by
  by_cases hn : f.fin.filter.limit ≤ n
  · have hge : f.fin.filter.limit ≤ f.bytes.length := by
      obtain ⟨hfi, hff, hfo, hss, hsm, hbg, _⟩ :=
        builder_image_facts o atts filter setsum f s1 hs1 hseal hts hwfE hwfD hfitE hfitD hsetsum hfilter
      have := img_length_ge crc f.blocks f.index f.filter f.fin hfi hff hfo hss hsm hbg hsize hcrc
      have hbytes : f.bytes = imageOf f.blocks f.index f.filter f.fin := rfl
      rw [hbytes]; omega
    rcases sst_tail_replaced crc o atts filter setsum f s1 hs1 hseal hts hwfE hwfD hfitE hfitD hsetsum hfilter hsize hcrc
      (f.bytes.take n) (by rw [List.length_take]; omega)
      (fun i hi => by rw [List.getElem?_take]; rw [if_pos (by omega)]) hnr with he | ⟨t', ho, hsz, _, _, _, hs⟩
    · exact Or.inl he
    · exact Or.inr ⟨hn, t', ho, hsz, hs⟩
  · left
    obtain ⟨hfi, hff, hfo, hss, hsm, hbg, hidx, hD, hfl, hlen, hL, _⟩ :=
      builder_image_facts o atts filter setsum f s1 hs1 hseal hts hwfE hwfD hfitE hfitD hsetsum hfilter
    have hbytes : f.bytes = imageOf f.blocks f.index f.filter f.fin := rfl
    have hsize' : (imageOf f.blocks f.index f.filter f.fin).length < U64 := hsize
    have hT := imgT_open crc f.blocks f.index f.filter f.fin s1.divE hfi hff hfo hss hsm hbg hsize' hcrc hidx hD hfl
    have hnr' : NoRedirect crc (imgT f.blocks f.index f.filter f.fin s1.divE) (f.bytes.take n) := by
      unfold SstRegion.Hyp at hnr
      rw [hbytes, hT] at hnr
      exact hnr
    cases ho : openSst crc (f.bytes.take n) with
    | error e => exact ⟨e, rfl⟩
    | ok t' =>
      exfalso
      rcases sst_truncated_below_filter crc f.bytes (imgT f.blocks f.index f.filter f.fin s1.divE) (by rw [hbytes]; exact hT) n
        (by show n < f.fin.filter.limit; omega) with ⟨e, he⟩ | ⟨t'', ho'', hne, _⟩
      · rw [ho] at he; cases he
      · rw [ho] at ho''
        cases ho''
        have hcl : classifyTail crc (imgT f.blocks f.index f.filter f.fin s1.divE) (f.bytes.take n) = .indexRedirected
            ∨ classifyTail crc (imgT f.blocks f.index f.filter f.fin s1.divE) (f.bytes.take n) = .filterRedirected := by
          unfold classifyTail
          rw [ho]
          simp only
          by_cases hix : t'.fin.index = (imgT f.blocks f.index f.filter f.fin s1.divE).fin.index
          · right
            rw [if_neg (by intro hc; exact hc hix), if_pos hne]
          · left
            rw [if_pos hix]
        rcases hcl with h | h
        · exact hnr'.2 h
        · exact hnr'.1 h

/-- **sst_extended_rejected_or_same**: bytes appended after the trailer.  The code reads the trailer
    from the END of the file, so the appended bytes are the new trailer and (part of) the new final
    block.  Under `NoRedirect`: rejected, or accepted as the same table resized — appended bytes that
    parse as a final block naming the original index and filter triples change `metadata`'s setsum,
    timestamps and file size and nothing else (D-10). -/
theorem sst_extended_rejected_or_same (crc : List Nat → Nat) (o : SstOpts) (atts : List KV) (filter setsum : List Nat)
    (f : SstFile) (s1 : SB)
    (hs1 : sealedState o (SB.putAll o SB.init atts).2 = .ok s1)
    (hseal : (SB.putAll o SB.init atts).2.seal o filter setsum = .ok f)
    (hts : ∀ e ∈ atts, e.ts ≤ U64MAX)
    (hwfE : ∀ e ∈ (SB.putAll o SB.init atts).2.accepted, e.Wf) (hwfD : ∀ d ∈ s1.divE, d.Wf)
    (hfitE : ∀ es ∈ s1.cutE, Fits (build o.blk es)) (hfitD : Fits (build o.blk s1.divE))
    (hsetsum : setsum.length = 32)
    (hfilter : filter.length = filterLen (SB.putAll o SB.init atts).2.count o.bloomBits)
    (hsize : f.bytes.length < U64)
    (hcrc : ∀ b, b ∈ f.index :: f.filter :: f.blocks → crc b = crc32c b ∧ crc32c b < 4294967296)
    (sfx : List Nat) (hnr : SstRegion.Hyp crc f (f.bytes ++ sfx) .tail) :
    (∃ e, openSst crc (f.bytes ++ sfx) = .error e)
    ∨ ∃ t', openSst crc (f.bytes ++ sfx) = .ok t' ∧ t'.fileSize = f.bytes.length + sfx.length
        ∧ SameTableResized crc (SB.putAll o SB.init atts).2.accepted t' := by
  have hge : f.fin.filter.limit ≤ f.bytes.length := by
    obtain ⟨hfi, hff, hfo, hss, hsm, hbg, _⟩ :=
      builder_image_facts o atts filter setsum f s1 hs1 hseal hts hwfE hwfD hfitE hfitD hsetsum hfilter
    have := img_length_ge crc f.blocks f.index f.filter f.fin hfi hff hfo hss hsm hbg hsize hcrc
    have hbytes : f.bytes = imageOf f.blocks f.index f.filter f.fin := rfl
    rw [hbytes]; omega
  rcases sst_tail_replaced crc o atts filter setsum f s1 hs1 hseal hts hwfE hwfD hfitE hfitD hsetsum hfilter hsize hcrc
    (f.bytes ++ sfx) (by rw [List.length_append]; omega)
    (fun i hi => by rw [List.getElem?_append_left (by omega)]) hnr with he | ⟨t', ho, hsz, _, _, _, hs⟩
  · exact Or.inl he
  · exact Or.inr ⟨t', ho, by rw [hsz, List.length_append], hs⟩

end Blue.SstOpen

#print axioms Blue.SstOpen.sst_damage_detected_or_harmless
#print axioms Blue.SstOpen.sst_tail_replaced
#print axioms Blue.SstOpen.sst_truncated_rejected_or_same
#print axioms Blue.SstOpen.sst_extended_rejected_or_same
