import Blue.Proofs.SelectorClosed
/-! **C01** the trivial move (`find_trivial_move_for_one_sst`, repaired): a file may move down alone
    when nothing else in its own level and nothing in the next level meets its key range.  Such a
    one-file selection is *closed*, so by `compaction_preserves` the move keeps "newer above" and by
    `compaction_reads_unchanged` no read changes.  Before the repair only the next level was
    looked at; the first of two same-level files sharing a boundary key could then move below the
    second (D-25) — `trivial_move_unrepaired_open`. -/
namespace Blue.Spec

/-- the selection of a trivial move of `f` from `lvl` to `lvl + 1` -/
def moveSel (lvl : Nat) (f : TFile) : Selection := ⟨lvl, lvl + 1, fun _ => ⟨f.first, f.last⟩⟩

/-- **the repaired condition makes the move closed**: if, among the files of levels `lvl` and
    `lvl + 1`, only `f` itself meets `f`'s key range, moving `f` alone is a closed selection -/
theorem trivial_move_closed (lvl : Nat) (f : TFile) (levels : List (Nat × List TFile))
    (hlv : levels.Pairwise (fun a b => a.1 < b.1)) (hup : ∀ l ∈ levels, l.1 ≤ lvl + 1)
    (hwf : ∀ l ∈ levels, ∀ g ∈ l.2, g.Wf)
    (halone : ∀ l ∈ levels, ∀ g ∈ l.2, lvl ≤ l.1 → (⟨f.first, f.last⟩ : Rng).meets g = true → g = f) :
    Closed (tagLevels (moveSel lvl f) levels) := by
  apply selection_closed (moveSel lvl f) levels hlv hup hwf
  constructor
  · intro a b _ _ _
    exact ⟨Nat.le_refl _, Nat.le_refl _⟩
  · intro l hl g hg htakes
    unfold Selection.takes moveSel at htakes
    simp only [Bool.and_eq_true, decide_eq_true_eq] at htakes
    have := halone l hl g hg htakes.1.1 htakes.2
    subst this
    exact ⟨Nat.le_refl _, Nat.le_refl _⟩

/-- D-25 as a theorem about the condition as it was (next level only): level 1 holds two files
    with the single key 7, newest first; level 2 is empty, so the old test lets the first file
    move — the selection is not closed, and after the move a read returns the older version -/
theorem trivial_move_unrepaired_open :
    let a : TFile := ⟨7, 7, [(7, 5)]⟩
    let b : TFile := ⟨7, 7, [(7, 3)]⟩
    let levels : List (Nat × List TFile) := [(1, [a, b]), (2, [])]
    -- the old condition holds: nothing in level 2 meets a's range
    (∀ g ∈ ([] : List TFile), (⟨a.first, a.last⟩ : Rng).meets g = false)
    ∧ load [a.vers, b.vers] 7 9 = some (7, 5)
    -- after moving `a` below `b` the read is stale
    ∧ load [b.vers, a.vers] 7 9 = some (7, 3) := by
  intro a b levels
  exact ⟨fun g hg => (nomatch hg), by decide, by decide⟩

end Blue.Spec

#print axioms Blue.Spec.trivial_move_closed
#print axioms Blue.Spec.trivial_move_unrepaired_open
