import Blue.Proofs.KvsConcTree
/-! The answers of `Blue.KvsConcTree` readers are the answers of `Blue.KvsConc` readers: the tree
    model (files rewritten by conserving and collecting compactions) refines, value for value, the
    model whose tables never shrink — so the linearizability obligations proved there hold for the
    values read here. -/
namespace Blue.KvsConcTree
open Blue.KvsWrite (Entry)
open Blue.KvsConc (St Ev Snap step run view newest Inv Hand Ord)

/-- the value of an answer -/
def valOf (o : Option Entry) : Option Nat := o.bind (·.val)

/-- what the tables `vt` hold -/
def tblEnts (s : St) (vt : List Nat) : List Entry := (s.ents.filter (fun te => decide (te.1 ∈ vt))).map (·.2)

theorem mem_tblEnts {s : St} {vt : List Nat} {e : Entry} : e ∈ tblEnts s vt ↔ ∃ tb ∈ vt, (tb, e) ∈ s.ents := by
  unfold tblEnts
  simp only [List.mem_map, List.mem_filter, decide_eq_true_eq]
  constructor
  · rintro ⟨⟨tb, e'⟩, ⟨h1, h2⟩, rfl⟩; exact ⟨tb, h2, h1⟩
  · rintro ⟨tb, h2, h1⟩; exact ⟨(tb, e), ⟨h1, h2⟩, rfl⟩

/-- every version of `F` is among the memtable versions `VM` or older than all of them -/
def MemAbove (VM F : List Entry) : Prop := ∀ d ∈ F, d ∈ VM ∨ ∀ m ∈ VM, d.seq < m.seq

/-- the files `C` of a version stand for the tables `F` it was built from: they hold only versions
    of `F`, and under any memtables that lie above `F` every key reads the same value -/
def J (C F : List Entry) : Prop :=
  (∀ e ∈ C, e ∈ F) ∧
  ∀ VM, MemAbove VM F → Uniq (VM ++ F) → ∀ k, valOf (look (VM ++ C) k) = valOf (look (VM ++ F) k)

theorem uniq_mono {V W : List Entry} (h : ∀ e ∈ W, e ∈ V) (hu : Uniq V) : Uniq W :=
  fun a ha b hb => hu a (h a ha) b (h b hb)

theorem J_congr {C C' F F' : List Entry} (hC : ∀ e, e ∈ C' ↔ e ∈ C) (hF : ∀ e, e ∈ F' ↔ e ∈ F) (h : J C F) :
    J C' F' := by
  refine ⟨fun e he => (hF e).mpr (h.1 e ((hC e).mp he)), ?_⟩
  intro VM hma hu k
  have hu0 : Uniq (VM ++ F) := uniq_mono (fun e he => by
    rcases List.mem_append.mp he with h1 | h1
    · exact List.mem_append_left _ h1
    · exact List.mem_append_right _ ((hF e).mpr h1)) hu
  have hma0 : MemAbove VM F := fun d hd => hma d ((hF d).mpr hd)
  have hCF : ∀ e ∈ VM ++ C, e ∈ VM ++ F := fun e he => by
    rcases List.mem_append.mp he with h1 | h1
    · exact List.mem_append_left _ h1
    · exact List.mem_append_right _ (h.1 e h1)
  have e1 : look (VM ++ C') k = look (VM ++ C) k :=
    look_congr (uniq_mono (fun e he => by
        rcases List.mem_append.mp he with h1 | h1
        · exact List.mem_append_left _ h1
        · exact List.mem_append_right _ (h.1 e ((hC e).mp h1))) hu0) (uniq_mono hCF hu0)
      (fun e => by simp only [List.mem_append, hC e]) k
  have e2 : look (VM ++ F') k = look (VM ++ F) k :=
    look_congr hu hu0 (fun e => by simp only [List.mem_append, hF e]) k
  rw [e1, e2]
  exact h.2 VM hma0 hu0 k

/-- a collecting compaction of some files of the version -/
theorem J_gc {C C' F I O R : List Entry} (h : J C F)
    (hC : ∀ e, e ∈ C ↔ e ∈ I ∨ e ∈ R) (hC' : ∀ e, e ∈ C' ↔ e ∈ O ∨ e ∈ R)
    (hok : gcOk I O = true) (hnb : nothingBelow R I = true) : J C' F := by
  have hsub : ∀ e ∈ C', e ∈ C := fun e he => by
    rcases (hC' e).mp he with h1 | h1
    · exact (hC e).mpr (Or.inl (gcOk_sub hok e h1))
    · exact (hC e).mpr (Or.inr h1)
  refine ⟨fun e he => h.1 e (hsub e he), ?_⟩
  intro VM hma hu k
  have huC : Uniq (VM ++ C) := uniq_mono (fun e he => by
    rcases List.mem_append.mp he with h1 | h1
    · exact List.mem_append_left _ h1
    · exact List.mem_append_right _ (h.1 e h1)) hu
  have hcore := gc_core (V := VM ++ C) (V' := VM ++ C') (VM := VM) (I := I) (O := O) (R := R) huC
    (fun e => by simp only [List.mem_append, hC e])
    (fun e => by simp only [List.mem_append, hC' e]) hok hnb
    (fun d hd => hma d (h.1 d ((hC d).mpr (Or.inl hd)))) k
  rw [← h.2 VM hma hu k]
  rcases hcore with h1 | ⟨n, h1, hv, hall⟩
  · rw [h1]
  · rw [h1]
    unfold valOf
    cases h2 : look (VM ++ C') k with
    | none => simp [hv]
    | some n' => simp [hv, hall n' h2]

/-- the flush ingests a table all of whose versions are newer than the tree's -/
theorem J_flush {C F X F' : List Entry} (h : J C F) (hF' : ∀ e, e ∈ F' ↔ e ∈ X ∨ e ∈ F)
    (habove : ∀ x ∈ X, ∀ d ∈ F, d.seq < x.seq) : J (X ++ C) F' := by
  refine ⟨fun e he => ?_, ?_⟩
  · rcases List.mem_append.mp he with h1 | h1
    · exact (hF' e).mpr (Or.inl h1)
    · exact (hF' e).mpr (Or.inr (h.1 e h1))
  · intro VM hma hu k
    have hma0 : MemAbove (VM ++ X) F := by
      intro d hd
      rcases hma d ((hF' d).mpr (Or.inr hd)) with h1 | h1
      · exact Or.inl (List.mem_append_left _ h1)
      · right
        intro m hm
        rcases List.mem_append.mp hm with h2 | h2
        · exact h1 m h2
        · exact habove m h2 d hd
    have hmem : ∀ e, e ∈ VM ++ F' ↔ e ∈ (VM ++ X) ++ F := fun e => by
      simp only [List.mem_append, hF' e, or_assoc]
    have hu0 : Uniq ((VM ++ X) ++ F) := uniq_mono (fun e he => (hmem e).mpr he) hu
    rw [← List.append_assoc, h.2 (VM ++ X) hma0 hu0 k, look_congr hu hu0 hmem k]

/-! ## the tables a version was built from do not change -/

theorem tblEnts_step {s s' : St} (hi : Inv s) (hh : Hand s) (vt : List Nat) (hvt : ∀ f ∈ vt, f ∈ s.flushed)
    (ev : Ev) (hs : step s ev = some s') : tblEnts s' vt = tblEnts s vt := by
  cases ev with
  | wIns seq idx =>
    simp only [step] at hs
    split at hs
    · rename_i w0 hfind
      obtain ⟨hw0, _⟩ := Blue.KvsConc.findWriter_some hfind
      split at hs
      · split at hs
        · rename_i hcnd
          cases hs
          unfold tblEnts
          show (List.filter _ (_ :: s.ents)).map _ = _
          rw [List.filter_cons_of_neg]
          simp only [decide_eq_true_eq]
          intro hmem
          have := hh.flushed_done w0.tbl (hvt _ hmem) w0 hw0 rfl
          rw [hcnd.1] at this; cases this
        · cases hs
      · cases hs
    · cases hs
  | wBegin _ _ _ | wLog _ | wFin _ | fRotate _ _ | fHead _ | fInstall _ _ | fClear _ | tInstall _ | rTree _ _
  | rSnap _ _ _ _ | wFail _ =>
    simp only [step] at hs
    repeat' split at hs
    all_goals first | (cases hs; rfl) | cases hs

theorem flushed_plain {s s' : St} (ev : Ev) (hne : ∀ o v, ev ≠ .fInstall o v) (hs : step s ev = some s') :
    s'.flushed = s.flushed := by
  cases ev with
  | fInstall o v => exact absurd rfl (hne o v)
  | wBegin _ _ _ | wLog _ | wFin _ | fRotate _ _ | fHead _ | wIns _ _ | fClear _ | tInstall _ | rTree _ _
  | rSnap _ _ _ _ | wFail _ =>
    simp only [step] at hs
    repeat' split at hs
    all_goals first | (cases hs; rfl) | cases hs

theorem trees_plain {s s' : St} (ev : Ev) (hne : (∀ r v, ev ≠ .rTree r v) ∧ ∀ r ts m i, ev ≠ .rSnap r ts m i)
    (hs : step s ev = some s') : ∀ q' ∈ s'.trees, ∃ q ∈ s.trees, q.1 = q'.1 ∧ q.2.1 = q'.2.1 := by
  cases ev with
  | rTree r v => exact absurd rfl (hne.1 r v)
  | rSnap r ts m i => exact absurd rfl (hne.2 r ts m i)
  | fClear o =>
    simp only [step] at hs
    split at hs
    · cases hs
      intro q' hq'
      obtain ⟨q, hq, rfl⟩ := List.mem_map.mp hq'
      exact ⟨q, hq, rfl, rfl⟩
    · cases hs
  | wBegin _ _ _ | wLog _ | wFin _ | fRotate _ _ | fHead _ | wIns _ _ | fInstall _ _ | tInstall _ | wFail _ =>
    simp only [step] at hs
    repeat' split at hs
    all_goals first | (cases hs; exact fun q' hq' => ⟨q', hq', rfl, rfl⟩) | cases hs

/-! ## the refinement invariant -/

structure SnapOk (t : TSt) (p : Nat × TSnap) (r : Nat × Snap) (vt : List Nat) : Prop where
  rid : r.1 = p.1
  ts : r.2.ts = p.2.ts
  tbls : r.2.tbls = p.2.mems ++ vt
  sub : ∀ f ∈ vt, f ∈ t.base.flushed
  j : J (entsOf t.files p.2.files) (tblEnts t.base vt)
  ord : ∀ tb ∈ vt, tb ∈ p.2.mems ∨ ∀ tm ∈ p.2.mems, tb < tm
  vis : ∀ d ∈ tblEnts t.base vt, d.seq ≤ p.2.ts

structure TJ (t : TSt) : Prop where
  cur_j : J (entsOf t.files t.cur) (tblEnts t.base t.base.flushed)
  held_j : ∀ p ∈ t.held, ∀ q ∈ t.base.trees, p.1 = q.1 → J (entsOf t.files p.2) (tblEnts t.base q.2.1)
  snap_j : ∀ p ∈ t.snaps, ∃ r ∈ t.base.readers, ∃ vt, SnapOk t p r vt

theorem tj_init (c : Bool) (seq mem : Nat) : TJ (tinit c seq mem) := by
  refine ⟨?_, ?_, ?_⟩
  · exact ⟨fun e he => (by cases he), fun VM _ _ k => rfl⟩
  · intro p hp; cases hp
  · intro p hp; cases hp

theorem entsOf_cons_new (files : List (Nat × List Entry)) (n : Nat) (X : List Entry) (ids : List Nat)
    (hf : ∀ p ∈ files, p.1 < n) (hids : ∀ f ∈ ids, f < n) :
    entsOf (files ++ [(n, X)]) (n :: ids) = X ++ entsOf files ids := by
  have h1 : fileOf (files ++ [(n, X)]) n = X := fileOf_hit files [] n X (fun p hp => by have := hf p hp; omega)
  have h2 := entsOf_append_of_fresh files [(n, X)] ids (by
    intro q hq id hid heq
    simp only [List.mem_singleton] at hq; subst hq
    have := hids id hid; simp only at heq; omega)
  unfold entsOf at h2 ⊢
  simp only [List.map_cons, List.flatten_cons, h1, h2]

theorem tj_step {t t' : TSt} {ev : TEv} (hb : Inv t.base) (hh : Hand t.base) (ho : Ord t.base) (hi : TInv t)
    (hj : TJ t) (h : tstep t ev = some t') : TJ t' := by
  have hbs := tstep_base h
  have hfr : ∀ ids vt, (∀ f ∈ ids, f < t.nextFile) → (∀ f ∈ vt, f ∈ t.base.flushed) →
      J (entsOf t.files ids) (tblEnts t.base vt) → J (entsOf t'.files ids) (tblEnts t'.base vt) := by
    intro ids vt h1 h2 hJ
    rw [entsOf_step h ids h1, tblEnts_step hb hh vt h2 _ hbs]; exact hJ
  have hsnapOld : ∀ p ∈ t.snaps, ∃ r ∈ t'.base.readers, ∃ vt, SnapOk t' p r vt := by
    intro p hp
    obtain ⟨r, hr, vt, ok⟩ := hj.snap_j p hp
    refine ⟨r, Blue.KvsConc.readers_step r hr _ hbs, vt, ok.rid, ok.ts, ok.tbls,
      fun f hf => flushed_step f (ok.sub f hf) _ hbs, hfr _ _ (hi.snap_lt p hp) ok.sub ok.j, ok.ord, ?_⟩
    rw [tblEnts_step hb hh vt ok.sub _ hbs]; exact ok.vis
  cases tstep_shape h with
  | plain e b hstep hnd hne =>
    have hfl : b.flushed = t.base.flushed := flushed_plain e hne.1 hstep
    refine ⟨?_, ?_, hsnapOld⟩
    · show J (entsOf t.files t.cur) (tblEnts b b.flushed)
      rw [hfl]
      exact hfr t.cur t.base.flushed hi.cur_lt (fun f hf => hf) hj.cur_j
    · intro p hp q' hq' heq
      obtain ⟨q, hq, h1, h2⟩ := trees_plain e hne.2 hstep q' hq'
      show J (entsOf t.files p.2) (tblEnts b q'.2.1)
      rw [← h2]
      exact hfr p.2 q.2.1 (hi.held_lt p hp) (ho.trees_ok q hq).2 (hj.held_j p hp q hq (by rw [heq, h1]))
  | flush o v b hstep =>
    have hstep' := hstep
    simp only [step] at hstep'
    split at hstep'
    · rename_i hcnd
      cases hstep'
      refine ⟨?_, ?_, hsnapOld⟩
      · show J (entsOf (t.files ++ [(t.nextFile, tableEnts t.base o)]) (t.nextFile :: t.cur))
          (tblEnts _ (o :: t.base.flushed))
        rw [entsOf_cons_new t.files t.nextFile _ t.cur hi.fid hi.cur_lt]
        apply J_flush hj.cur_j
        · intro e
          simp only [mem_tblEnts, tableEnts, List.mem_map, List.mem_filter, decide_eq_true_eq, List.mem_cons]
          constructor
          · rintro ⟨tb, h1 | h1, h2⟩
            · subst h1; exact Or.inl ⟨(tb, e), ⟨h2, rfl⟩, rfl⟩
            · exact Or.inr ⟨tb, h1, h2⟩
          · rintro (⟨te, ⟨h1, h2⟩, rfl⟩ | ⟨tb, h1, h2⟩)
            · exact ⟨o, Or.inl rfl, by rw [← h2]; exact h1⟩
            · exact ⟨tb, Or.inr h1, h2⟩
        · intro x hx d hd
          simp only [tableEnts, List.mem_map, List.mem_filter, decide_eq_true_eq] at hx
          obtain ⟨te, ⟨h1, h2⟩, rfl⟩ := hx
          obtain ⟨tb, h3, h4⟩ := mem_tblEnts.mp hd
          have hlt : tb < o := by
            rcases ho.fl_imm o hcnd.1 tb h3 with h5 | ⟨h5, _⟩
            · exact h5
            · rw [hcnd.2.2.1] at h5; cases h5
          exact Blue.KvsConc.ents_ordered hb ho te (tb, d) h1 h4 (by rw [h2]; exact hlt)
      · intro p hp q hq heq
        exact hfr p.2 q.2.1 (hi.held_lt p hp) (ho.trees_ok q hq).2 (hj.held_j p hp q hq heq)
    · cases hstep'
  | tree rid v b hstep =>
    have hstep' := hstep
    simp only [step] at hstep'
    split at hstep'
    · cases hstep'
      have hcur := hfr t.cur t.base.flushed hi.cur_lt (fun f hf => hf) hj.cur_j
      refine ⟨hcur, ?_, hsnapOld⟩
      intro p hp q hq heq
      rcases List.mem_cons.mp hp with rfl | hp <;> rcases List.mem_cons.mp hq with rfl | hq
      · exact hcur
      · have := (List.mem_filter.mp hq).2; simp at this; exact absurd heq.symm this
      · have := (List.mem_filter.mp hp).2; simp at this; exact absurd heq this
      · have hp0 := (List.mem_filter.mp hp).1
        have hq0 := (List.mem_filter.mp hq).1
        exact hfr p.2 q.2.1 (hi.held_lt p hp0) (ho.trees_ok q hq0).2 (hj.held_j p hp0 q hq0 heq)
    · cases hstep'
  | snap rid ts m i b p hstep hf =>
    have hstep' := hstep
    simp only [step] at hstep'
    split at hstep'
    · rename_i q hq
      split at hstep'
      · rename_i hcnd
        cases hstep'
        have hpm := List.mem_of_find?_eq_some hf
        have hqm := List.mem_of_find?_eq_some hq
        have hp1 : p.1 = rid := by simpa using List.find?_some hf
        have hq1 : q.1 = rid := by simpa using List.find?_some hq
        refine ⟨hfr t.cur t.base.flushed hi.cur_lt (fun f hf => hf) hj.cur_j, ?_, ?_⟩
        · intro p' hp' q' hq' heq
          have hp0 := (List.mem_filter.mp hp').1
          have hq0 := (List.mem_filter.mp hq').1
          exact hfr p'.2 q'.2.1 (hi.held_lt p' hp0) (ho.trees_ok q' hq0).2 (hj.held_j p' hp0 q' hq0 heq)
        · intro p' hp'
          rcases List.mem_cons.mp hp' with rfl | hp'
          · refine ⟨_, List.mem_cons_self .., q.2.1, rfl, rfl, rfl, (ho.trees_ok q hqm).2,
              hfr p.2 q.2.1 (hi.held_lt p hpm) (ho.trees_ok q hqm).2 (hj.held_j p hpm q hqm (by rw [hp1, hq1])), ?_, ?_⟩
            · intro tb htb
              have hfl := (ho.trees_ok q hqm).2 tb htb
              by_cases himm : t.base.imm = some tb
              · left; simp [himm]
              · right
                intro tm htm
                simp only [List.mem_cons, Option.mem_toList] at htm
                rcases htm with rfl | htm
                · exact hh.flushed_lt tb hfl
                · rcases ho.fl_imm tm htm tb hfl with h5 | ⟨_, h5⟩
                  · exact h5
                  · exact absurd (by rw [htm, h5]) himm
            · intro d hd
              obtain ⟨tb, h3, h4⟩ := mem_tblEnts.mp hd
              obtain ⟨w, hw, hs, htb, _⟩ := hb.from_batch _ h4
              have hfin := hh.flushed_done tb ((ho.trees_ok q hqm).2 tb h3) w hw htb
              have := (hb.fin_vis w hw).mp hfin
              have h6 := visible_le_readTs hb
              show d.seq ≤ ts
              rw [hcnd.1, ← hs]
              exact Nat.le_trans this h6
          · exact hsnapOld p' hp'
      · cases hstep'
    · cases hstep'
  | compact vid ins outs b hstep hc =>
    have hbase := tInstall_base hstep
    refine ⟨?_, ?_, hsnapOld⟩
    · show J (entsOf (install t b ins outs).files (install t b ins outs).cur) (tblEnts b b.flushed)
      have : tblEnts b b.flushed = tblEnts t.base t.base.flushed := by rw [hbase]; rfl
      rw [this]
      exact J_congr (fun e => by
        rw [mem_install hi b ins outs e, mem_cur_split ins hc.1 e, conserving_iff hc.2.2 e]) (fun e => Iff.rfl) hj.cur_j
    · intro p hp q hq heq
      have hq' : q ∈ t.base.trees := by
        have : b.trees = t.base.trees := by rw [hbase]
        rw [← this]; exact hq
      exact hfr p.2 q.2.1 (hi.held_lt p hp) (ho.trees_ok q hq').2 (hj.held_j p hp q hq' heq)
  | gc vid ins outs b hstep hc =>
    have hbase := tInstall_base hstep
    refine ⟨?_, ?_, hsnapOld⟩
    · show J (entsOf (install t b ins outs).files (install t b ins outs).cur) (tblEnts b b.flushed)
      have : tblEnts b b.flushed = tblEnts t.base t.base.flushed := by rw [hbase]; rfl
      rw [this]
      exact J_gc hj.cur_j (mem_cur_split ins hc.1) (mem_install hi b ins outs) hc.2.2.1 hc.2.2.2
    · intro p hp q hq heq
      have hq' : q ∈ t.base.trees := by
        have : b.trees = t.base.trees := by rw [hbase]
        rw [← this]; exact hq
      exact hfr p.2 q.2.1 (hi.held_lt p hp) (ho.trees_ok q hq').2 (hj.held_j p hp q hq' heq)

/-! ## what a tree reader gets is what the `Blue.KvsConc` reader next to it gets -/

theorem uniq_of_ents {s : St} (h : Inv s) (hn : ∀ w ∈ s.writers, (w.batch.map (·.1)).Nodup) (V : List Entry)
    (hV : ∀ e ∈ V, ∃ tb, (tb, e) ∈ s.ents) : Uniq V :=
  fun a ha b hb hk hs => uniq_ents h hn a b (hV a ha) (hV b hb) hk hs

theorem snapOk_value {t : TSt} (hb : Inv t.base) (ho : Ord t.base) (hi : TInv t) {p : Nat × TSnap}
    {r : Nat × Snap} {vt : List Nat} (ok : SnapOk t p r vt) (k : Nat) :
    tvalue t p.2 k = Blue.KvsConc.value t.base r.2 k := by
  have hfil : (entsOf t.files p.2.files).filter (fun e => decide (e.seq ≤ p.2.ts)) = entsOf t.files p.2.files := by
    rw [List.filter_eq_self]
    intro e he
    simpa using ok.vis e (ok.j.1 e he)
  have hmemF : ∀ e, e ∈ view t.base r.2 ↔ e ∈ view t.base ⟨p.2.ts, p.2.mems, true⟩ ++ tblEnts t.base vt := by
    intro e
    simp only [List.mem_append, Blue.KvsConc.mem_view, mem_tblEnts, ok.tbls, ok.ts]
    constructor
    · rintro ⟨tb, h1, h2, h3⟩
      rcases h2 with h2 | h2
      · exact Or.inl ⟨tb, h1, h2, h3⟩
      · exact Or.inr ⟨tb, h2, h1⟩
    · rintro (⟨tb, h1, h2, h3⟩ | ⟨tb, h2, h1⟩)
      · exact ⟨tb, h1, Or.inl h2, h3⟩
      · exact ⟨tb, h1, Or.inr h2, ok.vis e (mem_tblEnts.mpr ⟨tb, h2, h1⟩)⟩
  have hu1 : Uniq (view t.base r.2) := uniq_of_ents hb hi.batch_nodup _ (fun e he => by
    obtain ⟨tb, h1, _, _⟩ := Blue.KvsConc.mem_view.mp he; exact ⟨tb, h1⟩)
  have hu2 : Uniq (view t.base ⟨p.2.ts, p.2.mems, true⟩ ++ tblEnts t.base vt) :=
    uniq_mono (fun e he => (hmemF e).mpr he) hu1
  have hma : MemAbove (view t.base ⟨p.2.ts, p.2.mems, true⟩) (tblEnts t.base vt) := by
    intro d hd
    obtain ⟨tb, h2, h1⟩ := mem_tblEnts.mp hd
    rcases ok.ord tb h2 with h3 | h3
    · exact Or.inl (Blue.KvsConc.mem_view.mpr ⟨tb, h1, h3, ok.vis d hd⟩)
    · right
      intro m hm
      obtain ⟨tm, h4, h5, _⟩ := Blue.KvsConc.mem_view.mp hm
      exact Blue.KvsConc.ents_ordered hb ho (tm, m) (tb, d) h4 h1 (h3 tm h5)
  have hJ := ok.j.2 _ hma hu2 k
  show valOf (look (tview t p.2) k) = valOf (look (view t.base r.2) k)
  unfold tview
  rw [hfil, hJ, look_congr hu1 hu2 hmemF k]

theorem all_run : ∀ (evs : List TEv) {t t' : TSt},
    Inv t.base → Hand t.base → Ord t.base → TInv t → TJ t → trun t evs = some t' →
    Inv t'.base ∧ Hand t'.base ∧ Ord t'.base ∧ TInv t' ∧ TJ t'
  | [], t, t', hb, hh, ho, hi, hj, h => by simp only [trun] at h; cases h; exact ⟨hb, hh, ho, hi, hj⟩
  | e :: es, t, t', hb, hh, ho, hi, hj, h => by
    rw [trun_cons] at h
    split at h
    · rename_i t1 h1
      have hbs := tstep_base h1
      exact all_run es (Blue.KvsConc.inv_step hb _ hbs) (Blue.KvsConc.hand_step hb hh _ hbs)
        (Blue.KvsConc.ord_step hb hh ho _ hbs) (tinv_step hi h1) (tj_step hb hh ho hi hj h1) h
    · cases h

/-- **the tree model refines the model whose tables never shrink**: in every reachable state, every
    snapshot a reader of the tree model holds stands next to a snapshot of the `Blue.KvsConc`
    reader made by the same `rSnap` (same reader, same timestamp), and every key reads the same
    value through both — whatever flushes, conserving compactions and collecting compactions
    rewrote the files in between -/
theorem tree_reads_refine {c : Bool} {seq0 mem0 : Nat} (hm : mem0 < seq0) {evs : List TEv} {t : TSt}
    (hrun : trun (tinit c seq0 mem0) evs = some t) (p : Nat × TSnap) (hp : p ∈ t.snaps) :
    ∃ r ∈ t.base.readers, r.1 = p.1 ∧ r.2.ts = p.2.ts ∧ ∀ k, tvalue t p.2 k = Blue.KvsConc.value t.base r.2 k := by
  obtain ⟨hb, _, ho, hi, hj⟩ := all_run evs (Blue.KvsConc.inv_init c seq0 mem0)
    (Blue.KvsConc.hand_init c seq0 mem0 hm) (Blue.KvsConc.ord_init c seq0 mem0) (tinv_init c seq0 mem0)
    (tj_init c seq0 mem0) hrun
  obtain ⟨r, hr, vt, ok⟩ := hj.snap_j p hp
  exact ⟨r, hr, ok.rid, ok.ts, fun k => snapOk_value hb ho hi ok k⟩

/-- **linearizable_with_installs**: the obligations of the linearization "writes in sequence order
    at `wFin`, reads at their snapshot", for the VALUES read in runs with content-changing installs:
    the run projects onto a `Blue.KvsConc` run (compactions ↦ `tInstall`), and for every snapshot
    there is the base reader `r` of the same `rSnap` such that
    (refinement) every key reads the same value through both;
    (`no_stale_read`) clean: for every returned write the timestamp covers and each of its keys,
      the value read is that of an entry at least as new, written by some write, within the timestamp;
    (`no_phantom`) a value read was put for that key by a write numbered within the timestamp;
    (`batch_atomic`, repaired timestamp, clean) of every begun write the reader's answers reflect
      the whole batch (each key answered by an entry at least as new) or nothing (no answer
      carries its number). -/
theorem linearizable_with_installs {c : Bool} {seq0 mem0 : Nat} (hm : mem0 < seq0) {evs : List TEv} {t : TSt}
    (hrun : trun (tinit c seq0 mem0) evs = some t) (p : Nat × TSnap) (hp : p ∈ t.snaps) :
    run (Blue.KvsConc.init c seq0 mem0) (evs.map proj) = some t.base ∧
    ∃ r ∈ t.base.readers, r.1 = p.1 ∧ r.2.ts = p.2.ts ∧
      (∀ k, tvalue t p.2 k = Blue.KvsConc.value t.base r.2 k) ∧
      (r.2.clean = true → ∀ w ∈ t.base.writers, w.finished = true → w.seq ≤ p.2.ts →
        ∀ k v, (k, v) ∈ w.batch → ∃ e : Entry, w.seq ≤ e.seq ∧ e.seq ≤ p.2.ts ∧ tvalue t p.2 k = e.val ∧
          ∃ w' ∈ t.base.writers, w'.seq = e.seq ∧ (k, e.val) ∈ w'.batch) ∧
      (∀ k v, tvalue t p.2 k = some v → ∃ w ∈ t.base.writers, w.seq ≤ p.2.ts ∧ (k, some v) ∈ w.batch) ∧
      (c = true → r.2.clean = true → ∀ w ∈ t.base.writers,
        (∀ kv ∈ w.batch, ∃ e : Entry, w.seq ≤ e.seq ∧ tvalue t p.2 kv.1 = e.val) ∨
        (∀ k e, Blue.KvsConc.lookup t.base r.2 k = some e → e.seq ≠ w.seq)) := by
  have hbase := trun_base evs hrun
  have hbase' : run (Blue.KvsConc.init c seq0 mem0) (evs.map proj) = some t.base := hbase
  obtain ⟨r, hr, h1, h2, h3⟩ := tree_reads_refine hm hrun p hp
  refine ⟨hbase', r, hr, h1, h2, h3, ?_, ?_, ?_⟩
  · intro hclean w hw hf hcov k v hkv
    obtain ⟨e, he, hle⟩ := Blue.KvsConc.no_stale_read hbase' r hr hclean w hw hf (by rw [h2]; exact hcov) k v hkv
    obtain ⟨hts, w', hw', hs', hb'⟩ := Blue.KvsConc.no_phantom hbase' r.2 k e he
    refine ⟨e, hle, by rw [← h2]; exact hts, ?_, w', hw', hs', hb'⟩
    rw [h3 k]; unfold Blue.KvsConc.value; rw [he]; rfl
  · intro k v hv
    rw [h3 k] at hv
    unfold Blue.KvsConc.value at hv
    cases he : Blue.KvsConc.lookup t.base r.2 k with
    | none => rw [he] at hv; cases hv
    | some e =>
      rw [he] at hv
      obtain ⟨hts, w', hw', hs', hb'⟩ := Blue.KvsConc.no_phantom hbase' r.2 k e he
      have hev : e.val = some v := hv
      exact ⟨w', hw', by rw [hs', ← h2]; exact hts, by rw [← hev]; exact hb'⟩
  · intro hc hclean w hw
    subst hc
    rcases Blue.KvsConc.batch_atomic hbase' r hr hclean w hw with hall | hnone
    · left
      intro kv hkv
      obtain ⟨e, he, hle⟩ := Blue.KvsConc.lookup_ge (hall kv hkv)
      refine ⟨e, hle, ?_⟩
      rw [h3 kv.1]; unfold Blue.KvsConc.value
      have : Blue.KvsConc.lookup t.base r.2 kv.1 = some e := he
      rw [this]; rfl
    · right
      intro k e he
      exact hnone e (Blue.KvsConc.lookup_mem he).1

/-- … and a snapshot taken after a write returned has a timestamp that covers it; a write that
    begins is numbered beyond every write that exists (the two run-order obligations, lifted) -/
theorem order_with_installs {c : Bool} {seq0 mem0 : Nat} {evs : List TEv} {t t' : TSt}
    (hrun : trun (tinit c seq0 mem0) evs = some t) :
    (∀ rid ts mem imm, tstep t (.base (.rSnap rid ts mem imm)) = some t' →
      ∀ w ∈ t.base.writers, w.finished = true → w.seq ≤ ts) ∧
    (∀ q tb b, tstep t (.base (.wBegin q tb b)) = some t' → ∀ w ∈ t.base.writers, w.seq < q) := by
  have hbase : run (Blue.KvsConc.init c seq0 mem0) (evs.map proj) = some t.base := trun_base evs hrun
  refine ⟨?_, ?_⟩
  · intro rid ts mem imm hs w hw hf
    exact Blue.KvsConc.snapshot_after_return_covers hbase w hw hf rid ts mem imm (tstep_base hs)
  · intro q tb b hs
    exact Blue.KvsConc.write_order hbase q tb b (tstep_base hs)

/-! ## the wrapper loses no run of `Blue.KvsConc` -/

theorem trees_fst_plain {s s' : St} (ev : Ev) (hne : (∀ r v, ev ≠ .rTree r v) ∧ ∀ r ts m i, ev ≠ .rSnap r ts m i)
    (hs : step s ev = some s') : s'.trees.map (·.1) = s.trees.map (·.1) := by
  cases ev with
  | rTree r v => exact absurd rfl (hne.1 r v)
  | rSnap r ts m i => exact absurd rfl (hne.2 r ts m i)
  | fClear o =>
    simp only [step] at hs
    split at hs
    · cases hs
      show (s.trees.map _).map _ = _
      rw [List.map_map]; rfl
    · cases hs
  | wBegin _ _ _ | wLog _ | wFin _ | fRotate _ _ | fHead _ | wIns _ _ | fInstall _ _ | tInstall _ | wFail _ =>
    simp only [step] at hs
    repeat' split at hs
    all_goals first | (cases hs; rfl) | cases hs

theorem map_fst_filter_ne {α : Type} (l : List (Nat × α)) (rid : Nat) :
    (l.filter (fun p => decide (p.1 ≠ rid))).map (·.1) = (l.map (·.1)).filter (fun x => decide (x ≠ rid)) := by
  rw [List.filter_map]; rfl

/-- the versions readers hold in the tree part are those of the readers that hold one in the base -/
def Sync (t : TSt) : Prop := t.held.map (·.1) = t.base.trees.map (·.1)

theorem sync_step {t t' : TSt} {ev : TEv} (hsy : Sync t) (h : tstep t ev = some t') : Sync t' := by
  unfold Sync at hsy ⊢
  cases tstep_shape h with
  | plain e b hstep hnd hne =>
    show t.held.map _ = b.trees.map _
    rw [trees_fst_plain e hne.2 hstep]; exact hsy
  | flush o v b hstep =>
    show t.held.map _ = b.trees.map _
    rw [trees_fst_plain _ ⟨fun _ _ he => (by cases he), fun _ _ _ _ he => (by cases he)⟩ hstep]; exact hsy
  | tree rid v b hstep =>
    simp only [step] at hstep
    split at hstep
    · cases hstep
      show ((rid, t.cur) :: t.held.filter _).map _ = ((rid, (t.base.flushed, true)) :: t.base.trees.filter _).map _
      simp only [List.map_cons, map_fst_filter_ne, hsy]
    · cases hstep
  | snap rid ts m i b p hstep hf =>
    simp only [step] at hstep
    split at hstep
    · split at hstep
      · cases hstep
        show (t.held.filter _).map _ = (t.base.trees.filter _).map _
        simp only [map_fst_filter_ne, hsy]
      · cases hstep
    · cases hstep
  | compact vid ins outs b hstep hc =>
    show t.held.map _ = b.trees.map _
    rw [tInstall_base hstep]; exact hsy
  | gc vid ins outs b hstep hc =>
    show t.held.map _ = b.trees.map _
    rw [tInstall_base hstep]; exact hsy

theorem sync_run : ∀ (evs : List TEv) {t t' : TSt}, Sync t → trun t evs = some t' → Sync t'
  | [], t, t', hs, h => by simp only [trun] at h; cases h; exact hs
  | e :: es, t, t', hs, h => by
    rw [trun_cons] at h
    split at h
    · rename_i t1 h1
      exact sync_run es (sync_step hs h1) h
    · cases h

theorem find_fst_isSome {α : Type} (l : List (Nat × α)) (rid : Nat) :
    (l.find? (fun p => decide (p.1 = rid))).isSome = (l.map (·.1)).contains rid := by
  induction l with
  | nil => rfl
  | cons a l ih =>
    by_cases h : a.1 = rid
    · simp [List.find?_cons, h]
    · have h' : ¬ rid = a.1 := fun e => h e.symm
      simp [List.find?_cons, h, ih, List.contains_cons, h']

/-- **the wrapper disables nothing**: in every reachable state of the tree model, every event of
    `Blue.KvsConc` that the base state enables is enabled in the tree model too — except `wBegin`
    of a batch naming a key twice (D-16) -/
theorem base_event_enabled {c : Bool} {seq0 mem0 : Nat} {evs : List TEv} {t : TSt}
    (hrun : trun (tinit c seq0 mem0) evs = some t) (e : Ev) (b : St) (hb : step t.base e = some b)
    (hnd : ∀ q tb bt, e = .wBegin q tb bt → (bt.map (·.1)).Nodup) : ∃ t', tstep t (.base e) = some t' := by
  have hsy : Sync t := sync_run evs (by unfold Sync; rfl) hrun
  cases e with
  | wBegin q tb bt => simp only [tstep, hb, if_pos (hnd q tb bt rfl)]; exact ⟨_, rfl⟩
  | rSnap rid ts m i =>
    simp only [tstep, hb]
    have hfind : (t.base.trees.find? (fun p => decide (p.1 = rid))).isSome = true := by
      simp only [step] at hb
      split at hb
      · rename_i q hq; rw [hq]; rfl
      · cases hb
    rw [find_fst_isSome, ← hsy, ← find_fst_isSome] at hfind
    cases hf : t.held.find? (fun p => decide (p.1 = rid)) with
    | none => rw [hf] at hfind; cases hfind
    | some p => exact ⟨_, rfl⟩
  | wLog _ | wFin _ | fRotate _ _ | fHead _ | wIns _ _ | fInstall _ _ | fClear _ | tInstall _ | wFail _ | rTree _ _ =>
    simp only [tstep, hb]; exact ⟨_, rfl⟩

end Blue.KvsConcTree
