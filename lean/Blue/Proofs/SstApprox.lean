import Blue.Proofs.SstSize
/-! `SstBuilder::approximate_size` against the bytes the builder writes (C10, the table bound).

    What the Rust does (sst/src/lib.rs:1976-1992, block.rs:293): `approximate_size` is
    `bytes_written + block_builder.approximate_size() (or 0) + 1 + index_block.approximate_size()
    + FINAL_BLOCK_MAX_SZ`, a block builder's being `buffer.len() + 16 + 4 * restarts.len()`.
    `put` / `del` call `check_table_size(self.approximate_size())` — the size *before* the entry,
    nothing is added for the entry — and refuse at `>= TABLE_FULL_SIZE`.  The filter is **not** part
    of `approximate_size`: it is a vector of deferred inserts, sized at `seal` as
    `Filter::new(count.saturating_mul(bits))` (`u32`).

    So: the size is below `TABLE_FULL_SIZE` before each accepted entry, one accepted entry moves
    it by at most `APPROX_STEP` (the entry itself, one flushed block's frame over its estimate, one
    index entry, a fresh block builder), and `seal` adds one more flush, the index block's frame,
    the filter block and the final block.  The constants are the coarse ones of `SstSize.lean`
    (every varint 10 bytes, an entry at most 49300 bytes). -/
namespace Blue.Sst
open Blue.Wire Blue.EntryCodec Blue.Block Blue.Cursor Blue.SstOpen

/-- one more entry: at most 49300 bytes of buffer and one restart -/
theorem add_approx_le (o : Opts) (b : Builder) (e : KV) (hts : e.ts < U64)
    (hk : e.key.length ≤ MAX_KEY_LEN) (hv : ∀ v, e.val = some v → v.length ≤ MAX_VALUE_LEN) :
    (b.add o e).approxSize ≤ b.approxSize + 49304 := by
  unfold Builder.approxSize Builder.add
  simp only
  by_cases hr : (decide (o.bytesRestartInterval ≤ b.bytesSinceRestart)
      || decide (o.pairsRestartInterval ≤ b.pairsSinceRestart)) = true
  · simp only [hr, if_true]
    have := encEntry_length_le 0 e (Nat.zero_le _) hts hk hv
    simp only [List.length_append, List.length_cons, List.length_nil]
    omega
  · simp only [hr]
    have := encEntry_length_le (sharedLen b.lastKey e.key) e (sharedLen_le_right _ _) hts hk hv
    simp only [List.length_append, Bool.false_eq_true, if_false]
    omega

theorem cput_approx_le {o : Opts} {c c' : CBuilder} {e : KV} (h : c.put o e = .ok c') (hts : e.ts < U64) :
    c'.b.approxSize ≤ c.b.approxSize + 49304 := by
  obtain ⟨rfl, hc⟩ := cput_ok h
  obtain ⟨h1, h2, _, _⟩ := (putCheck_none_iff _ _ _ _).mp hc
  exact add_approx_le o c.b e hts h1 h2

/-- a block's frame in the file against the block builder's estimate: tag and length prefix of the
    frame (≤ 20), the footer's two tags and length (≤ 30) and count (4) against the estimate's 16 -/
theorem frame_seal_le (b : Builder) (h : Fits b) : (frame SE_PLAIN b.seal).length ≤ b.approxSize + 38 := by
  have h0 : b.buffer.length < 4294967296 := h.1
  have h9 : b.restarts.length < 4294967296 := h.2
  have h1 := seal_length_le b h9
  have h2 := frame_length_le SE_PLAIN b.seal (by decide) (by omega)
  unfold Builder.approxSize
  omega

/-- the estimate never exceeds the frame by more than the 16 it reserves for the footer -/
theorem approx_le_frame_seal (b : Builder) : b.approxSize ≤ (frame SE_PLAIN b.seal).length + 16 := by
  have h4 := flatMap_le32_length b.restarts
  simp only [Builder.approxSize, frame, encBytes, Builder.seal, footer, List.length_append]
  omega

theorem flushed_approx_le {o : SstOpts} {s : SB} {c idx : CBuilder} {k : List Nat} {t : Nat}
    (hs : SInv o s) (hi : FitInv o s) (hcur : s.cur = some c)
    (hput : s.index.put o.blk (indexEntry s c k t) = .ok idx) :
    (flushed s c idx k t).approxSize ≤ s.approxSize + 49342 := by
  have hdts : (indexEntry s c k t).ts < U64 := by
    have := divideKeys_ts s.lastKey s.lastTs k t
    have hl := hi.lts
    unfold U64MAX at hl
    unfold U64
    show (divideKeys s.lastKey s.lastTs k t).2 < _
    rcases this with h | h <;> omega
  have hidx := cput_approx_le hput hdts
  have hc : Fits c.b := by rw [(hs.opn c hcur).2]; exact hi.cur
  have hf := frame_seal_le c.b hc
  simp only [SB.approxSize, flushed, hcur, FINAL_BLOCK_MAX_SZ]
  omega

/-- what one accepted entry can add to `approximate_size` -/
def APPROX_STEP : Nat := 98666

theorem put_approx_le {o : SstOpts} {s s' : SB} {e : KV} (hs : SInv o s) (hi : FitInv o s) (hts : e.ts ≤ U64MAX)
    (h : s.put o e = .ok s') : s'.approxSize ≤ s.approxSize + APPROX_STEP := by
  have hts' : e.ts < U64 := by unfold U64MAX at hts; unfold U64; omega
  have h20 : CBuilder.init.b.approxSize = 20 := rfl
  unfold APPROX_STEP
  obtain ⟨_, hcase⟩ := put_ok h
  rcases hcase with ⟨hcur, c', hp, rfl⟩ | ⟨c, hcur, _, c', hp, rfl⟩ | ⟨c, hcur, _, sf, hf, c', hp, rfl⟩
  · have := cput_approx_le hp hts'
    simp only [SB.approxSize, afterPut, hcur, FINAL_BLOCK_MAX_SZ]
    omega
  · have := cput_approx_le hp hts'
    simp only [SB.approxSize, afterPut, hcur, FINAL_BLOCK_MAX_SZ]
    omega
  · obtain ⟨c2, idx, hc2, hput, rfl⟩ := flush_ok hf
    have h1 := flushed_approx_le hs hi hc2 hput
    have := cput_approx_le hp hts'
    simp only [SB.approxSize, afterPut, flushed, hc2, FINAL_BLOCK_MAX_SZ] at h1 ⊢
    omega

/-- the estimate of a builder state stays below `TABLE_FULL_SIZE` plus one step -/
def Apx (s : SB) : Prop := s.approxSize < TABLE_FULL_SIZE + APPROX_STEP

theorem apx_init : Apx SB.init := by
  unfold Apx; decide

theorem apx_put {o : SstOpts} {s s' : SB} {e : KV} (hs : SInv o s) (hi : FitInv o s) (hts : e.ts ≤ U64MAX)
    (h : s.put o e = .ok s') : Apx s' := by
  have h1 := put_approx_le hs hi hts h
  have h2 := ((putCheck_none_iff _ _ _ _).mp (put_ok h).1).2.2.1
  unfold Apx
  omega

theorem apx_putAll (o : SstOpts) : ∀ (atts : List KV) (s : SB), (∀ e ∈ atts, e.ts ≤ U64MAX) → SInv o s →
    FitInv o s → Apx s → Apx (SB.putAll o s atts).2
  | [], _, _, _, _, h => h
  | e :: es, s, hts, hs, hi, h => by
    simp only [SB.putAll]
    cases hp : s.put o e with
    | error err => exact apx_putAll o es s (fun x hx => hts x (List.mem_cons_of_mem _ hx)) hs hi h
    | ok s' =>
      exact apx_putAll o es s' (fun x hx => hts x (List.mem_cons_of_mem _ hx)) (sinv_put hs hp)
        (fitinv_put hs hi (hts e (List.mem_cons_self ..)) hp) (apx_put hs hi (hts e (List.mem_cons_self ..)) hp)

/-- `seal`'s closing flush: one block frame over its estimate and one index entry -/
theorem sealed_approx_le {o : SstOpts} {s s1 : SB} (hs : SInv o s) (hi : FitInv o s)
    (h : sealedState o s = .ok s1) : s1.approxSize ≤ s.approxSize + 49342 ∧ s1.cur = none := by
  unfold sealedState at h
  cases hcur : s.cur with
  | some c =>
    rw [hcur] at h
    obtain ⟨c2, idx, hc2, hput, rfl⟩ := flush_ok h
    exact ⟨flushed_approx_le hs hi hc2 hput, rfl⟩
  | none => rw [hcur] at h; cases h; exact ⟨by omega, hcur⟩

/-- **(1)** `approximate_size` against the bytes, at every state the builder reaches (any attempt
    sequence with `u64` timestamps, any options):
    * `bytes_written` *is* the length of the data block frames in the file (exact);
    * the open block's frame, when it is flushed, is at most its estimate + 38 and at least its
      estimate − 16;
    * the index block's frame is at most its estimate + 38 (and at least − 16);
    * the state `seal` flushes into has no open block and an estimate at most 49342 above
      (the open block's 38, one index entry of at most 49300 + 4);
    * the estimate is below `TABLE_FULL_SIZE + APPROX_STEP`. -/
theorem approx_size_tracks_bytes (o : SstOpts) (atts : List KV) (hts : ∀ e ∈ atts, e.ts ≤ U64MAX) :
    let s := (SB.putAll o SB.init atts).2
    s.bytesWritten = (s.blocks.flatMap (frame SE_PLAIN)).length
    ∧ (∀ c, s.cur = some c → (frame SE_PLAIN c.b.seal).length ≤ c.b.approxSize + 38
        ∧ c.b.approxSize ≤ (frame SE_PLAIN c.b.seal).length + 16)
    ∧ ((frame SE_PLAIN s.index.b.seal).length ≤ s.index.b.approxSize + 38
        ∧ s.index.b.approxSize ≤ (frame SE_PLAIN s.index.b.seal).length + 16)
    ∧ (∀ s1, sealedState o s = .ok s1 → s1.cur = none ∧ s1.approxSize ≤ s.approxSize + 49342
        ∧ (s1.blocks.flatMap (frame SE_PLAIN)).length + (frame SE_PLAIN s1.index.b.seal).length + 110
            ≤ s1.approxSize)
    ∧ s.approxSize < TABLE_FULL_SIZE + APPROX_STEP := by
  intro s
  have hs : SInv o s := sinv_putAll o atts SB.init (sinv_init o)
  have hfit : FitInv o s := fitinv_putAll o atts SB.init hts (sinv_init o) (fitinv_init o)
  have hm : MInv s := minv_putAll o atts SB.init hts minv_init
  refine ⟨hm.written, ?_, ?_, ?_, apx_putAll o atts SB.init hts (sinv_init o) (fitinv_init o) apx_init⟩
  · intro c hc
    exact ⟨frame_seal_le c.b (by rw [(hs.opn c hc).2]; exact hfit.cur), approx_le_frame_seal c.b⟩
  · exact ⟨frame_seal_le _ (by rw [hs.indexB]; exact hfit.idx), approx_le_frame_seal _⟩
  · intro s1 hs1
    obtain ⟨hle, hnone⟩ := sealed_approx_le hs hfit hs1
    have hfit1 := sealed_fitinv hs hfit hs1
    obtain ⟨_, _, _, _, hindex⟩ := sealed_cut hs hs1
    obtain ⟨hm1, _⟩ := sealed_minv hm hs1
    have hI := frame_seal_le s1.index.b (by rw [hindex]; exact hfit1.idx)
    have hw := hm1.written
    refine ⟨hnone, hle, ?_⟩
    simp only [SB.approxSize, hnone, FINAL_BLOCK_MAX_SZ]
    omega

/-- the part of the slack that does not depend on the filter: one step (98666), the closing flush
    (49342), the index frame over its estimate (38), the filter frame's tag and length (20), the
    final block over `FINAL_BLOCK_MAX_SZ + 1` (268 − 148) -/
def SLACK_FIXED : Nat := 148186

/-- the slack of a table with `count` accepted entries: the filter block is not in
    `approximate_size` at all -/
def SLACK (o : SstOpts) (count : Nat) : Nat := SLACK_FIXED + filterLen count o.bloomBits

/-- the slack for every option value and entry count: `Filter::new` takes a `u32` bit count -/
def SLACK_MAX : Nat := SLACK_FIXED + 536870912

/-- the filter block from the entry count: `bits` per entry, rounded up to whole 32-byte blocks,
    one block more — never above 2^29 bytes, which is reached exactly when
    `count · bits ≥ 4294967033` (43 bits per entry: from 99882955 entries on) -/
theorem filterLen_le_count (count bits : Nat) :
    filterLen count bits ≤ (count * bits + 7) / 8 + 32 ∧ filterLen count bits ≤ 536870912 := by
  refine ⟨?_, filterLen_le count bits⟩
  have h : count % 4294967296 * bits ≤ count * bits := Nat.mul_le_mul_right _ (Nat.mod_le _ _)
  unfold filterLen
  simp only
  generalize count % 4294967296 * bits = x at h
  generalize count * bits = y at h
  omega

/-- **(2)** every sealed file is at most `TABLE_FULL_SIZE + SLACK` bytes, `SLACK` being 148186 bytes
    plus the filter block (which `approximate_size` does not count); hence below
    `TABLE_FULL_SIZE + SLACK_MAX` = 1543652058 < 2^31.  Derived from `SstBuilder::put`'s own
    `check_table_size(self.approximate_size())`. -/
theorem sealed_file_size_le_table_full_plus (o : SstOpts) (atts : List KV) (filter setsum : List Nat) (f : SstFile)
    (hseal : (SB.putAll o SB.init atts).2.seal o filter setsum = .ok f)
    (hts : ∀ e ∈ atts, e.ts ≤ U64MAX)
    (hsetsum : setsum.length = 32)
    (hfilter : filter.length = filterLen (SB.putAll o SB.init atts).2.count o.bloomBits) :
    f.bytes.length < TABLE_FULL_SIZE + SLACK o (SB.putAll o SB.init atts).2.count
    ∧ f.bytes.length < TABLE_FULL_SIZE + SLACK_MAX
    ∧ TABLE_FULL_SIZE + SLACK_MAX < 2147483648 := by
  obtain ⟨s1, hs1, hfb, hfi, hff, hfin⟩ := seal_eq hseal
  obtain ⟨_, _, _, hsl, hapx⟩ := approx_size_tracks_bytes o atts hts
  obtain ⟨hnone, hle, hbytes1⟩ := hsl s1 hs1
  have hmi := minv_putAll o atts SB.init hts minv_init
  obtain ⟨hm1, hacc1⟩ := sealed_minv hmi hs1
  have hfl := filterLen_le (SB.putAll o SB.init atts).2.count o.bloomBits
  have hF := frame_length_le SE_FILTER filter (by decide) (by omega)
  have hw := hm1.written
  have hT : TABLE_FULL_SIZE = 1006632960 := rfl
  have hA : APPROX_STEP = 98666 := rfl
  -- timestamps of the final block
  have hbig : s1.smallest ≤ s1.biggest → s1.biggest ≤ U64MAX ∧ s1.smallest ≤ U64MAX := by
    intro hle
    by_cases hA : s1.accepted = []
    · obtain ⟨a, b⟩ := hm1.none_ hA; unfold U64MAX at *; omega
    · obtain ⟨_, ⟨e, he, hE⟩⟩ := hm1.attained hA
      have : e ∈ atts := by
        rw [hacc1, (sst_builder_rejects o atts).2.1] at he
        exact acceptedOfB_mem _ _ _ he
      have := hts e this
      omega
  have hU : U64MAX = 18446744073709551615 := rfl
  have hI : (frame SE_PLAIN s1.index.b.seal).length < 18446744073709551616 := by omega
  have hfinl : (encFinal f.fin).length ≤ 268 := by
    apply encFinal_length_le
    · rw [hfin]; exact hsetsum
    all_goals (rw [hfin]; simp only [finOf]; try split) <;> omega
  have hbytes : f.bytes.length = (s1.blocks.flatMap (frame SE_PLAIN)).length + (frame SE_PLAIN s1.index.b.seal).length
      + (frame SE_FILTER filter).length + (encFinal f.fin).length := by
    simp only [SstFile.bytes, SstFile.final, List.length_append, hfb, hfi, hff]
  unfold SLACK SLACK_MAX SLACK_FIXED
  refine ⟨by omega, by omega, by omega⟩

end Blue.Sst
