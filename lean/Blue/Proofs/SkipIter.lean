import Blue.Proofs.SkipList
/-! What the iterator's loads see: `seek`, `next`, `prev` (via `find_less_than` / `find_last`) as
    reads of the level-0 chain.  Each search keeps the invariant "the node I stand on is the head
    or a published node before the key"; published nodes stay published and keep their keys
    whatever other threads do (`inv_step_mono`), so the invariant survives every interleaving;
    and the *last* load of the search then determines the answer: the nearest linked key in the
    direction of the move, with respect to the set of keys linked at the time of that load. -/
namespace Blue.SkipList

/-! ### more about sorted chains -/

theorem schain_unique {heap : List Node} {lo lo' p ids ids'} (h : SChain heap lo p ids) (h' : SChain heap lo' p ids') :
    ids = ids' := by
  induction h generalizing lo' ids' with
  | nil => cases h'; rfl
  | cons hp _ _ ih =>
    cases h' with
    | cons hp' _ hrest' =>
      rw [hp] at hp'
      cases hp'
      rw [ih hrest']

/-- a chain that has a member starts at a node, and that node carries the smallest key -/
theorem schain_first {heap : List Node} {lo p ids} (h : SChain heap lo p ids) (m : Nat) (hm : m ∈ ids) :
    ∃ n, p = some n ∧ n ∈ ids ∧ keyOf heap n ≤ keyOf heap m := by
  cases h with
  | nil => cases hm
  | @cons _ x nd rest hp _ hrest =>
    refine ⟨x, rfl, List.mem_cons_self .., ?_⟩
    simp only [List.mem_cons] at hm
    rcases hm with rfl | hm
    · exact Nat.le_refl _
    · have := schain_keys_gt hrest m hm
      rw [keyOf_of_get hp]
      omega

/-- neighbours on a chain are neighbours in key order: every chain node is at most `x` or at
    least the successor of `x` -/
theorem schain_succ {heap : List Node} {lo p ids} (h : SChain heap lo p ids) :
    ∀ x ∈ ids, ∀ m ∈ ids, keyOf heap m ≤ keyOf heap x ∨
      ∃ n, nextOf heap x = some n ∧ n ∈ ids ∧ keyOf heap n ≤ keyOf heap m := by
  induction h with
  | nil => intro x hx; cases hx
  | @cons _ y nd rest hp _ hrest ih =>
    intro x hx m hm
    simp only [List.mem_cons] at hx hm
    rcases hx with rfl | hx
    · rcases hm with rfl | hm
      · exact Or.inl (Nat.le_refl _)
      · obtain ⟨n, hn, hnm, hle⟩ := schain_first hrest m hm
        exact Or.inr ⟨n, by rw [nextOf_of_get hp]; exact hn, List.mem_cons_of_mem _ hnm, hle⟩
    · rcases hm with rfl | hm
      · have := schain_keys_gt hrest x hx
        rw [keyOf_of_get hp]
        exact Or.inl (by omega)
      · rcases ih x hx m hm with h1 | ⟨n, h1, h2, h3⟩
        · exact Or.inl h1
        · exact Or.inr ⟨n, h1, List.mem_cons_of_mem _ h2, h3⟩

/-- the successor on a chain carries a larger key -/
theorem schain_next_lt {heap : List Node} {lo p ids} (h : SChain heap lo p ids) :
    ∀ x ∈ ids, ∀ n, nextOf heap x = some n → keyOf heap x < keyOf heap n := by
  induction h with
  | nil => intro x hx; cases hx
  | @cons _ y nd rest hp _ hrest ih =>
    intro x hx n hn
    simp only [List.mem_cons] at hx
    rcases hx with rfl | hx
    · rw [nextOf_of_get hp] at hn
      rw [hn] at hrest
      have := schain_keys_gt hrest n (schain_head_mem hrest)
      rw [keyOf_of_get hp]
      exact this
    · exact ih x hx n hn

/-! ### published nodes stay published -/

theorem step_keys (s : St) (i : Nat) : ∀ x, x < s.heap.length → keyOf (step s i).heap x = keyOf s.heap x := by
  intro x hx
  unfold step
  split
  · rfl
  · split
    · split
      · rfl
      · split <;> rfl
    · split <;> rfl
  · exact keyOf_append _ _ _ hx
  · exact keyOf_setNextAt ..
  · split
    · exact keyOf_setNextAt ..
    · rfl

theorem step_length (s : St) (i : Nat) : s.heap.length ≤ (step s i).heap.length := by
  unfold step
  split
  · exact Nat.le_refl _
  · split
    · split
      · exact Nat.le_refl _
      · split <;> exact Nat.le_refl _
    · split <;> exact Nat.le_refl _
  · simp
  · rw [length_setNextAt]; exact Nat.le_refl _
  · split
    · rw [length_setNextAt]; exact Nat.le_refl _
    · exact Nat.le_refl _

/-- the chain after a step contains the chain before it -/
theorem inv_step_mono {s : St} {ids : List Nat} (h : Inv s ids) (i : Nat) :
    ∃ ids', Inv (step s i) ids' ∧ ∀ x ∈ ids, x ∈ ids' := by
  cases hpc : s.pcs i with
  | idle => exact ⟨ids, by simp only [step, hpc]; exact h, fun _ hx => hx⟩
  | find k prev node => exact ⟨ids, inv_step_find h i k prev node hpc, fun _ hx => hx⟩
  | alloc k prev obs => exact ⟨ids, inv_step_alloc h i k prev obs hpc, fun _ hx => hx⟩
  | setNext nd prev obs => exact ⟨ids, inv_step_setNext h i nd prev obs hpc, fun _ hx => hx⟩
  | cas nd prev obs =>
    obtain ⟨ids', hinv'⟩ := inv_step_cas h i nd prev obs hpc
    refine ⟨ids', hinv', ?_⟩
    -- the new chain is the old one with `nd` inserted: derive it again and use uniqueness
    have hT := h.threads i
    rw [hpc] at hT
    obtain ⟨⟨hprev, _⟩, hobs, hnode, hnext⟩ := hT
    obtain ⟨hnd0, hndlt, hndids, _⟩ := hnode
    by_cases hcas : nextOf s.heap prev = obs
    · have hstep : (step s i).heap = setNextAt s.heap prev (some nd) := by
        simp only [step, hpc, if_pos hcas]
      have hpp : prev = 0 ∨ prev ∈ ids := by
        rcases hprev with h1 | h1
        · exact Or.inl h1
        · exact Or.inr h1.1
      have hndget : s.heap[nd]? = some ⟨keyOf s.heap nd, nextOf s.heap prev⟩ := by
        have hg : s.heap[nd]? = some s.heap[nd] := by simp [hndlt]
        rw [hg]
        congr 1
        have e1 : keyOf s.heap nd = s.heap[nd].key := keyOf_of_get hg
        have e2 : nextOf s.heap nd = s.heap[nd].next := nextOf_of_get hg
        cases hx : s.heap[nd] with
        | mk kx nx => rw [hx] at e1 e2; simp only at e1 e2; rw [e1, hcas, ← hnext, e2]
      have hobs' : ∀ o, nextOf s.heap prev = some o → keyOf s.heap nd < keyOf s.heap o := by
        intro o ho; rw [hcas] at ho; exact (hobs o ho).2
      obtain ⟨h0, hh0, hc⟩ := h.head
      obtain ⟨h0', hh0', hc'⟩ := hinv'.head
      rw [hstep] at hh0' hc'
      by_cases hp0 : prev = 0
      · subst hp0
        have e : h0' = { h0 with next := some nd } := by
          have := get_setNextAt_self s.heap 0 h0 (some nd) hh0
          rw [this] at hh0'
          exact (Option.some.inj hh0').symm
        have hn0 : nextOf s.heap 0 = h0.next := nextOf_of_get hh0
        have hndget' : (setNextAt s.heap 0 (some nd))[nd]? = some ⟨keyOf s.heap nd, h0.next⟩ := by
          rw [get_setNextAt_ne s.heap 0 nd _ (by omega), hndget, hn0]
        have hnew : SChain (setNextAt s.heap 0 (some nd)) none (some nd) (nd :: ids) := by
          refine SChain.cons hndget' (fun l hl => by cases hl) ?_
          simp only
          apply schain_frame _ (fun x hx => get_setNextAt_ne s.heap 0 x _ (fun e => h.noHead (e ▸ hx)))
          apply schain_rebound hc
          intro l' n hl' hn
          cases hl'
          exact hobs' n (by rw [hn0]; exact hn)
        rw [e] at hc'
        have := schain_unique hc' hnew
        intro x hx
        rw [this]
        exact List.mem_cons_of_mem _ hx
      · have hpids : prev ∈ ids := by
          rcases hpp with h1 | h1
          · exact absurd h1 hp0
          · exact h1
        have hklt : keyOf s.heap prev < keyOf s.heap nd := by
          rcases hprev with h1 | h1
          · exact absurd h1 hp0
          · exact h1.2
        have e : h0' = h0 := by
          rw [get_setNextAt_ne s.heap prev 0 _ (fun e => hp0 e.symm), hh0] at hh0'
          exact (Option.some.inj hh0').symm
        have hnew := schain_insert hc prev nd (keyOf s.heap nd) hpids hklt hndids hndget hobs'
        rw [e] at hc'
        have := schain_unique hc' hnew
        intro x hx
        rw [this]
        exact mem_insertAfter hx
    · have hstep : step s i = { s with pcs := setPc s.pcs i (.find (keyOf s.heap nd) prev (some nd)) } := by
        simp only [step, hpc, if_neg hcas]
      obtain ⟨h0, hh0, hc⟩ := h.head
      obtain ⟨h0', hh0', hc'⟩ := hinv'.head
      rw [hstep] at hh0' hc'
      simp only at hh0' hc'
      rw [hh0] at hh0'
      cases hh0'
      have := schain_unique hc' hc
      intro x hx
      rw [this]
      exact hx

/-- a node is published: it is on the level-0 chain of the state -/
def Published (s : St) (x : Nat) : Prop := ∃ ids, Inv s ids ∧ x ∈ ids

/-- **published nodes stay published and keep their keys**, whatever step whichever thread takes:
    this is why a search's "I stand on a published node before the key" survives interleaving -/
theorem published_stable {s : St} {x : Nat} (h : Published s x) (i : Nat) :
    Published (step s i) x ∧ keyOf (step s i).heap x = keyOf s.heap x := by
  obtain ⟨ids, hinv, hx⟩ := h
  obtain ⟨ids', hinv', hsub⟩ := inv_step_mono hinv i
  exact ⟨⟨ids', hinv', hsub x hx⟩, step_keys s i x (inv_ids_lt hinv x hx)⟩

theorem published_call {s : St} {x : Nat} (h : Published s x) (ids : List Nat) (i k prev : Nat)
    (hinv : Inv s ids) (hok : CallOk s ids i k prev) :
    Published (call s i k prev) x ∧ keyOf (call s i k prev).heap x = keyOf s.heap x := by
  obtain ⟨ids0, hinv0, hx⟩ := h
  obtain ⟨h0, hh0, hc⟩ := hinv.head
  obtain ⟨h0', hh0', hc'⟩ := hinv0.head
  rw [hh0] at hh0'
  cases hh0'
  have := schain_unique hc hc'
  exact ⟨⟨ids, inv_call hinv i k prev hok, this ▸ hx⟩, rfl⟩

/-! ### the loads of the iterator -/

/-- where a search stands: on the head, or on a published node -/
def Stands (ids : List Nat) (x : Nat) : Prop := x = 0 ∨ x ∈ ids

/-- the node loaded from where the search stands is published (so the search can move there) -/
theorem load_published {s : St} {ids : List Nat} (h : Inv s ids) (x n : Nat) (hx : Stands ids x)
    (hn : nextOf s.heap x = some n) : n ∈ ids :=
  next_published h x n hx hn

/-- every linked key is at most the key stood on, or at least the key loaded (and a load of the
    null pointer means there is nothing beyond) -/
theorem load_splits {s : St} {ids : List Nat} (h : Inv s ids) (x : Nat) (hx : Stands ids x) :
    ∀ k' ∈ s.inserted, (x ≠ 0 ∧ k' ≤ keyOf s.heap x) ∨
      ∃ n, nextOf s.heap x = some n ∧ keyOf s.heap n ≤ k' := by
  intro k' hk'
  obtain ⟨m, hm, rfl⟩ := (h.keys k').mp hk'
  obtain ⟨h0, hh0, hc⟩ := h.head
  rcases hx with rfl | hx
  · obtain ⟨n, hn, _, hle⟩ := schain_first hc m hm
    exact Or.inr ⟨n, by rw [nextOf_of_get hh0]; exact hn, hle⟩
  · rcases schain_succ hc x hx m hm with h1 | ⟨n, h1, _, h3⟩
    · exact Or.inl ⟨fun e => h.noHead (e ▸ hx), h1⟩
    · exact Or.inr ⟨n, h1, h3⟩

/-- **`seek(k)` / `contains(k)`, last load** (`find_greater_or_equal` at level 0): standing on the
    head or on a published node before `k`, the search loads a pointer that is null or a node
    not before `k` and returns it.  That node carries the smallest linked key `≥ k`; null means
    every linked key is `< k`. -/
theorem seek_last_load {s : St} {ids : List Nat} (h : Inv s ids) (k x : Nat)
    (hx : x = 0 ∨ (x ∈ ids ∧ keyOf s.heap x < k))
    (hstop : ∀ n, nextOf s.heap x = some n → ¬ keyOf s.heap n < k) :
    (nextOf s.heap x = none → ∀ k' ∈ s.inserted, k' < k) ∧
    (∀ n, nextOf s.heap x = some n →
      keyOf s.heap n ∈ s.inserted ∧ k ≤ keyOf s.heap n ∧ ∀ k' ∈ s.inserted, k ≤ k' → keyOf s.heap n ≤ k') := by
  have hst : Stands ids x := by
    rcases hx with h1 | h1
    · exact Or.inl h1
    · exact Or.inr h1.1
  have hbelow : ∀ k', x ≠ 0 ∧ k' ≤ keyOf s.heap x → k' < k := by
    intro k' ⟨hne, hle⟩
    rcases hx with h1 | h1
    · exact absurd h1 hne
    · omega
  constructor
  · intro hnone k' hk'
    rcases load_splits h x hst k' hk' with h1 | ⟨n, h1, _⟩
    · exact hbelow k' h1
    · rw [hnone] at h1; cases h1
  · intro n hn
    have hnk := hstop n hn
    refine ⟨(h.keys _).mpr ⟨n, load_published h x n hst hn, rfl⟩, by omega, ?_⟩
    intro k' hk' hge
    rcases load_splits h x hst k' hk' with h1 | ⟨n', h1, h2⟩
    · have := hbelow k' h1; omega
    · rw [hn] at h1; cases h1; exact h2

/-- **`seek`, an advancing load**: a loaded node before `k` is published, so the search stands
    well on it -/
theorem seek_advance {s : St} {ids : List Nat} (h : Inv s ids) (k x n : Nat)
    (hx : x = 0 ∨ (x ∈ ids ∧ keyOf s.heap x < k)) (hn : nextOf s.heap x = some n)
    (hlt : keyOf s.heap n < k) : n ∈ ids ∧ keyOf s.heap n < k := by
  refine ⟨load_published h x n ?_ hn, hlt⟩
  rcases hx with h1 | h1
  · exact Or.inl h1
  · exact Or.inr h1.1

/-- **`next()`** (and `seek_to_first()` with `x = 0`): the one load from the node the iterator is
    on yields the node with the smallest linked key above it, or null if there is none -/
theorem next_load {s : St} {ids : List Nat} (h : Inv s ids) (x : Nat) (hx : x = 0 ∨ x ∈ ids) :
    (nextOf s.heap x = none → ∀ k' ∈ s.inserted, x ≠ 0 ∧ k' ≤ keyOf s.heap x) ∧
    (∀ n, nextOf s.heap x = some n →
      keyOf s.heap n ∈ s.inserted ∧ (x ≠ 0 → keyOf s.heap x < keyOf s.heap n) ∧
      ∀ k' ∈ s.inserted, (x ≠ 0 ∧ k' ≤ keyOf s.heap x) ∨ keyOf s.heap n ≤ k') := by
  constructor
  · intro hnone k' hk'
    rcases load_splits h x hx k' hk' with h1 | ⟨n, h1, _⟩
    · exact h1
    · rw [hnone] at h1; cases h1
  · intro n hn
    have hnids := load_published h x n hx hn
    refine ⟨(h.keys _).mpr ⟨n, hnids, rfl⟩, ?_, ?_⟩
    · intro hne
      obtain ⟨h0, hh0, hc⟩ := h.head
      rcases hx with h1 | h1
      · exact absurd h1 hne
      · exact schain_next_lt hc x h1 n hn
    · intro k' hk'
      rcases load_splits h x hx k' hk' with h1 | ⟨n', h1, h2⟩
      · exact Or.inl h1
      · rw [hn] at h1; cases h1; exact Or.inr h2

/-- **`prev()` from a key, last load** (`find_less_than(k)` at level 0): standing on the head or on
    a published node before `k`, the search loads null or a node not before `k` and returns where
    it stands: the node with the largest linked key `< k`, or the head if there is none -/
theorem lt_last_load {s : St} {ids : List Nat} (h : Inv s ids) (k x : Nat)
    (hx : x = 0 ∨ (x ∈ ids ∧ keyOf s.heap x < k))
    (hstop : ∀ n, nextOf s.heap x = some n → ¬ keyOf s.heap n < k) :
    (x = 0 → ∀ k' ∈ s.inserted, ¬ k' < k) ∧
    (x ≠ 0 → keyOf s.heap x ∈ s.inserted ∧ keyOf s.heap x < k ∧
      ∀ k' ∈ s.inserted, k' < k → k' ≤ keyOf s.heap x) := by
  have hst : Stands ids x := by
    rcases hx with h1 | h1
    · exact Or.inl h1
    · exact Or.inr h1.1
  have key : ∀ k' ∈ s.inserted, k' < k → x ≠ 0 ∧ k' ≤ keyOf s.heap x := by
    intro k' hk' hlt
    rcases load_splits h x hst k' hk' with h1 | ⟨n, h1, h2⟩
    · exact h1
    · exact absurd (by omega) (hstop n h1)
  constructor
  · intro h0 k' hk' hlt
    exact (key k' hk' hlt).1 h0
  · intro hne
    rcases hx with h1 | ⟨h1, h2⟩
    · exact absurd h1 hne
    · exact ⟨(h.keys _).mpr ⟨x, h1, rfl⟩, h2, fun k' hk' hlt => (key k' hk' hlt).2⟩

/-- **`prev()` from the end, last load** (`find_last` at level 0): the search loads null and
    returns where it stands: the node with the largest linked key, or the head if the list is
    empty -/
theorem last_last_load {s : St} {ids : List Nat} (h : Inv s ids) (x : Nat) (hx : x = 0 ∨ x ∈ ids)
    (hstop : nextOf s.heap x = none) :
    (x = 0 → ∀ k' ∈ s.inserted, False) ∧
    (x ≠ 0 → keyOf s.heap x ∈ s.inserted ∧ ∀ k' ∈ s.inserted, k' ≤ keyOf s.heap x) := by
  have key : ∀ k' ∈ s.inserted, x ≠ 0 ∧ k' ≤ keyOf s.heap x := by
    intro k' hk'
    rcases load_splits h x hx k' hk' with h1 | ⟨n, h1, _⟩
    · exact h1
    · rw [hstop] at h1; cases h1
  constructor
  · intro h0 k' hk'
    exact (key k' hk').1 h0
  · intro hne
    rcases hx with h1 | h1
    · exact absurd h1 hne
    · exact ⟨(h.keys _).mpr ⟨x, h1, rfl⟩, fun k' hk' => (key k' hk').2⟩

end Blue.SkipList
