import Blue.Generated.Consts
import Blue.Model.SstBuild
import Blue.Model.Sbbf
import Blue.Proofs.Wire
/-! Constants of the sst crate regenerated from the Rust source, tied to the block / table model
    (C10).  Kept apart from the other properties' ties so that an edit to these constants breaks
    only C10's proof obligations. -/
namespace Blue.ConstsTie
open Blue.Wire

/-! ### sst (C10): limits, message field numbers and wire types, defaults -/
open Blue.Wire Blue.EntryCodec in
/-- the entry messages of `Blue.EntryCodec` carry the field numbers and wire types of
    `KeyValuePut`, `KeyValueDel`, `KeyValueEntry` (read off the model's own encoders) -/
theorem sst_entry_messages :
    encPut ⟨0, [], 0, []⟩ = (Blue.Generated.keyValuePutFields.zip Blue.Generated.keyValuePutWire).flatMap (fun fw => [fw.1 * 8 + fw.2, 0])
    ∧ encDel ⟨0, [], 0⟩ = (Blue.Generated.keyValueDelFields.zip Blue.Generated.keyValueDelWire).flatMap (fun fw => [fw.1 * 8 + fw.2, 0])
    ∧ [(encEntry (.put ⟨0, [], 0, []⟩)).head?, (encEntry (.del ⟨0, [], 0⟩)).head?]
        = (Blue.Generated.keyValueEntryFields.zip Blue.Generated.keyValueEntryWire).map (fun fw => some (fw.1 * 8 + fw.2)) := by
  refine ⟨?_, ?_, ?_⟩
  · simp [encPut, encTag, encBytes, WT.bits, encVarint_lt, Blue.Generated.keyValuePutFields, Blue.Generated.keyValuePutWire]
  · simp [encDel, encTag, encBytes, WT.bits, encVarint_lt, Blue.Generated.keyValueDelFields, Blue.Generated.keyValueDelWire]
  · simp [encEntry, encTag, WT.bits, encVarint_lt, Blue.Generated.keyValueEntryFields, Blue.Generated.keyValueEntryWire]

theorem sst_limits :
    Blue.Block.MAX_KEY_LEN = Blue.Generated.sstMaxKeyLen
    ∧ Blue.Block.MAX_VALUE_LEN = Blue.Generated.sstMaxValueLen
    ∧ Blue.Block.TABLE_FULL_SIZE = Blue.Generated.sstTableFullSize
    ∧ Blue.Sst.BLOCK_METADATA_MAX_SZ = Blue.Generated.sstBlockMetadataMaxSz
    ∧ Blue.Sst.FINAL_BLOCK_MAX_SZ = Blue.Generated.sstFinalBlockMaxSz
    ∧ Blue.Sst.MAX_KEY = Blue.Generated.sstMaxKey := by decide

theorem sst_block_footer :
    [Blue.Block.FOOTER_RESTARTS, WT.lengthDelimited.bits, Blue.Block.FOOTER_COUNT, WT.thirtyTwo.bits]
      = Blue.Generated.blockFooterTags := by decide

open Blue.Sst in
theorem sst_file_messages :
    [SE_PLAIN, SE_FILTER, SE_FINAL] = Blue.Generated.sstEntryFields
    ∧ [BM_START, BM_LIMIT, BM_CRC] = Blue.Generated.blockMetadataFields
    ∧ [WT.varint.bits, WT.varint.bits, WT.thirtyTwo.bits] = Blue.Generated.blockMetadataWire
    ∧ [FB_INDEX, FB_FILTER, FB_SETSUM, FB_SMALLEST, FB_BIGGEST, FB_OFFSET] = Blue.Generated.finalBlockFields
    ∧ [WT.lengthDelimited.bits, WT.lengthDelimited.bits, WT.lengthDelimited.bits, WT.varint.bits, WT.varint.bits,
        WT.sixtyFour.bits] = Blue.Generated.finalBlockWire
    ∧ [MD_SETSUM, MD_FIRST, MD_LAST, MD_SMALLEST, MD_BIGGEST, MD_FILE_SIZE] = Blue.Generated.sstMetadataFields
    ∧ [WT.lengthDelimited.bits, WT.lengthDelimited.bits, WT.lengthDelimited.bits, WT.varint.bits, WT.varint.bits,
        WT.varint.bits] = Blue.Generated.sstMetadataWire := by decide

/-- the default configuration lies inside the property's quantifier (restart intervals ≥ 1) and
    inside the block-size clamp the typed setters apply -/
theorem sst_defaults_in_domain :
    1 ≤ Blue.Generated.blockDefaultBytesRestartInterval ∧ 1 ≤ Blue.Generated.blockDefaultPairsRestartInterval
    ∧ Blue.Generated.sstClampMinTargetBlockSize ≤ Blue.Generated.sstDefaultTargetBlockSize
    ∧ Blue.Generated.sstDefaultTargetBlockSize ≤ Blue.Generated.sstClampMaxTargetBlockSize := by decide

/-! ### the split-block bloom filter (sst/src/sbbf.rs) -/
/-- the salts of `Block::mask`, in order -/
theorem sbbf_salt : Blue.Sbbf.SALT.toList = Blue.Generated.sbbfSalt := by decide

/-- `struct Block { block: [u32; 8] }` and the loops `for i in 0..8` of `mask`, `insert`, `check`,
    `Block::try_from` -/
theorem sbbf_block_words :
    List.replicate 5 Blue.Sbbf.BLOCK_WORDS = Blue.Generated.sbbfBlockWords
    ∧ Blue.Sbbf.SALT.toList.length = Blue.Sbbf.BLOCK_WORDS := by decide

/-- `result.block[i] |= 1 << (y >> 27)` with `y = (x as u64 * SALT[i] as u64) as u32` (the shape of
    the statement is the extractor's pattern), and the model's `maskWord` is that expression -/
theorem sbbf_mask :
    [1, Blue.Sbbf.MASK_SHIFT] = Blue.Generated.sbbfMask
    ∧ ∀ x salt, Blue.Sbbf.maskWord x salt = (1#32) <<< ((x * salt) % 2 ^ 32 / 2 ^ Blue.Sbbf.MASK_SHIFT) := by
  exact ⟨by decide, fun _ _ => rfl⟩

/-- `Block::insert` ORs the words of `Block::mask(x)` in; `Block::check` tests
    `self.block[i] & mask.block[i] != mask.block[i]` against the same `Block::mask(x)` (the shapes
    are the extractor's patterns: present = 1, anything else leaves the constant undefined) -/
theorem sbbf_insert_check_shape : Blue.Generated.sbbfInsertOrCheckAnd = 1 := by decide

/-- `((size.saturating_add(7) >> 3) >> 5) + 1` -/
theorem sbbf_new_size :
    [Blue.Sbbf.NEW_ROUND_UP, Blue.Sbbf.NEW_SHIFT_BYTES, Blue.Sbbf.NEW_SHIFT_BLOCKS, Blue.Sbbf.NEW_EXTRA_BLOCKS]
      = Blue.Generated.sbbfNewSize := by decide

/-- `(((x >> 32) * len) >> 32) as usize`, `x as u32` -/
theorem sbbf_hash_shifts :
    [Blue.Sbbf.HASH_SHIFT, Blue.Sbbf.HASH_SHIFT] = Blue.Generated.sbbfHashShifts
    ∧ Blue.Sbbf.U32 = 2 ^ Blue.Sbbf.HASH_SHIFT ∧ Blue.Sbbf.U64 = Blue.Sbbf.U32 * Blue.Sbbf.U32 := by decide

/-- the byte layout: `Block::try_from` (`len != 32`, `idx = i * 4`, `idx + 4`), `Filter::try_from`
    (`is_multiple_of(32)`, `len / 32`, `idx * 32`, `idx + 32`), words written by `to_le_bytes` -/
theorem sbbf_byte_layout :
    [Blue.Sbbf.BLOCK_BYTES, Blue.Sbbf.WORD_BYTES, Blue.Sbbf.WORD_BYTES, Blue.Sbbf.BLOCK_BYTES, Blue.Sbbf.BLOCK_BYTES,
      Blue.Sbbf.BLOCK_BYTES, Blue.Sbbf.BLOCK_BYTES] = Blue.Generated.sbbfByteLayout
    ∧ Blue.Sbbf.BLOCK_BYTES = Blue.Sbbf.BLOCK_WORDS * Blue.Sbbf.WORD_BYTES
    ∧ (∀ w : Blue.Sbbf.Word, (Blue.Sbbf.le4 w).length = Blue.Sbbf.WORD_BYTES) := by
  exact ⟨by decide, by decide, fun _ => rfl⟩

end Blue.ConstsTie
