import Blue.Generated.Consts
import Blue.Model.SstBuild
import Blue.Proofs.Wire
/-! Constants of the sst crate regenerated from the Rust source, tied to the block / table model
    (C10).  Kept apart from the other properties' ties so that an edit to these constants breaks
    only C10's proof obligations. -/
namespace Blue.ConstsTie
open Blue.Wire

/-! ### sst (C10): limits, message field numbers and wire types, defaults -/
open Blue.Wire Blue.EntryCodec in
/-- the entry messages of `Blue.EntryCodec` carry the field numbers and wire types of
    `KeyValuePut`, `KeyValueDel`, `KeyValueEntry` (read off the model's own encoders) -/
theorem sst_entry_messages :
    encPut ⟨0, [], 0, []⟩ = (Blue.Generated.keyValuePutFields.zip Blue.Generated.keyValuePutWire).flatMap (fun fw => [fw.1 * 8 + fw.2, 0])
    ∧ encDel ⟨0, [], 0⟩ = (Blue.Generated.keyValueDelFields.zip Blue.Generated.keyValueDelWire).flatMap (fun fw => [fw.1 * 8 + fw.2, 0])
    ∧ [(encEntry (.put ⟨0, [], 0, []⟩)).head?, (encEntry (.del ⟨0, [], 0⟩)).head?]
        = (Blue.Generated.keyValueEntryFields.zip Blue.Generated.keyValueEntryWire).map (fun fw => some (fw.1 * 8 + fw.2)) := by
  refine ⟨?_, ?_, ?_⟩
  · simp [encPut, encTag, encBytes, WT.bits, encVarint_lt, Blue.Generated.keyValuePutFields, Blue.Generated.keyValuePutWire]
  · simp [encDel, encTag, encBytes, WT.bits, encVarint_lt, Blue.Generated.keyValueDelFields, Blue.Generated.keyValueDelWire]
  · simp [encEntry, encTag, WT.bits, encVarint_lt, Blue.Generated.keyValueEntryFields, Blue.Generated.keyValueEntryWire]

theorem sst_limits :
    Blue.Block.MAX_KEY_LEN = Blue.Generated.sstMaxKeyLen
    ∧ Blue.Block.MAX_VALUE_LEN = Blue.Generated.sstMaxValueLen
    ∧ Blue.Block.TABLE_FULL_SIZE = Blue.Generated.sstTableFullSize
    ∧ Blue.Sst.BLOCK_METADATA_MAX_SZ = Blue.Generated.sstBlockMetadataMaxSz
    ∧ Blue.Sst.FINAL_BLOCK_MAX_SZ = Blue.Generated.sstFinalBlockMaxSz
    ∧ Blue.Sst.MAX_KEY = Blue.Generated.sstMaxKey := by decide

theorem sst_block_footer :
    [Blue.Block.FOOTER_RESTARTS, WT.lengthDelimited.bits, Blue.Block.FOOTER_COUNT, WT.thirtyTwo.bits]
      = Blue.Generated.blockFooterTags := by decide

open Blue.Sst in
theorem sst_file_messages :
    [SE_PLAIN, SE_FILTER, SE_FINAL] = Blue.Generated.sstEntryFields
    ∧ [BM_START, BM_LIMIT, BM_CRC] = Blue.Generated.blockMetadataFields
    ∧ [WT.varint.bits, WT.varint.bits, WT.thirtyTwo.bits] = Blue.Generated.blockMetadataWire
    ∧ [FB_INDEX, FB_FILTER, FB_SETSUM, FB_SMALLEST, FB_BIGGEST, FB_OFFSET] = Blue.Generated.finalBlockFields
    ∧ [WT.lengthDelimited.bits, WT.lengthDelimited.bits, WT.lengthDelimited.bits, WT.varint.bits, WT.varint.bits,
        WT.sixtyFour.bits] = Blue.Generated.finalBlockWire
    ∧ [MD_SETSUM, MD_FIRST, MD_LAST, MD_SMALLEST, MD_BIGGEST, MD_FILE_SIZE] = Blue.Generated.sstMetadataFields
    ∧ [WT.lengthDelimited.bits, WT.lengthDelimited.bits, WT.lengthDelimited.bits, WT.varint.bits, WT.varint.bits,
        WT.varint.bits] = Blue.Generated.sstMetadataWire := by decide

/-- the default configuration lies inside the property's quantifier (restart intervals ≥ 1) and
    inside the block-size clamp the typed setters apply -/
theorem sst_defaults_in_domain :
    1 ≤ Blue.Generated.blockDefaultBytesRestartInterval ∧ 1 ≤ Blue.Generated.blockDefaultPairsRestartInterval
    ∧ Blue.Generated.sstClampMinTargetBlockSize ≤ Blue.Generated.sstDefaultTargetBlockSize
    ∧ Blue.Generated.sstDefaultTargetBlockSize ≤ Blue.Generated.sstClampMaxTargetBlockSize := by decide

end Blue.ConstsTie
