import Blue.Model.SstMetaMsg
import Blue.Proofs.ProtoMsg
import Blue.Proofs.SstSetsum
import Blue.Proofs.SstMeta
import Blue.Proofs.ConstsTieC10
/-! The packed `SstMetadata` bytes (C10, item (a)): `stack_pack(SstMetadata)` through the C15
    derive-macro interpreter, its round trip, and its value on a builder-written file. -/
namespace Blue.SstMetaMsg
open Blue.Wire Blue.ProtoMsg Blue.Sst Blue.Block Blue.SstOpen Blue.SstSetsum

/-- the C15 interpreter on the `SstMetadata` schema writes exactly the bytes of the model's
    `encMetadata` (the function the correspondence check compares byte for byte with the real
    `stack_pack(sst.metadata()?)`) -/
theorem packMeta_eq_encMetadata (m : Metadata) : packMeta m = encMetadata m := by
  simp [packMeta, metaSchema, metaVal, packMsg, packFields, packSlot, packOne, encTyWith, encScalar,
    encMetadata, Field.num, Field.card, Field.ty, Ty.wt, Scalar.wt]

/-- a metadata value of the Rust type: `[u8; 32]`, two `Vec<u8>`, three `u64` -/
structure MetaOk (m : Metadata) : Prop where
  setsum : m.setsum.length = 32
  first : m.firstKey.length < U64
  last : m.lastKey.length < U64
  smallest : m.smallest < U64
  biggest : m.biggest < U64
  size : m.fileSize < U64

theorem metaVal_wf (m : Metadata) (h : MetaOk m) : WfMsg 1 metaSchema (metaVal m) := by
  obtain ⟨h1, h2, h3, h4, h5, h6⟩ := h
  have e4 : ((m.smallest : Nat) : Int) < (U64 : Int) := by exact_mod_cast h4
  have e5 : ((m.biggest : Nat) : Int) < (U64 : Int) := by exact_mod_cast h5
  have e6 : ((m.fileSize : Nat) : Int) < (U64 : Int) := by exact_mod_cast h6
  simp only [WfMsg, metaSchema, metaVal, WfFieldsWith, WfSlotWith, WfTyWith, WfScalar, Field.num, Field.card,
    Field.ty, List.map]
  refine ⟨⟨by decide, ⟨h1, by decide⟩, by decide, h2, by decide, h3, by decide, ⟨Int.natCast_nonneg _, e4⟩,
    by decide, ⟨Int.natCast_nonneg _, e5⟩, by decide, ⟨Int.natCast_nonneg _, e6⟩, trivial⟩, by decide⟩

/-- **C10 (a)** `SstMetadata::unpack(stack_pack(m)) = Ok(m)` for every value of the Rust type -/
theorem metadata_bytes_roundtrip (m : Metadata) (h : MetaOk m) : unpackMeta (packMeta m) = .ok (some m) := by
  unfold unpackMeta packMeta
  rw [unpack_pack 1 metaSchema (metaVal m) (metaVal_wf m h)]
  cases m
  simp [ofVal, metaVal]
/-- the schema's field numbers and wire types are the ones regenerated from the source on every run
    (`#[prototk(n, type)]` of `SstMetadata`) -/
theorem metaSchema_from_source :
    (match metaSchema with
      | .struct fs => fs.map (fun f => (f.num, f.ty.wt.bits))
      | _ => []) = Blue.Generated.sstMetadataFields.zip Blue.Generated.sstMetadataWire := by decide
end Blue.SstMetaMsg
