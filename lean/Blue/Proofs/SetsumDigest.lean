import Blue.Proofs.Setsum
namespace Blue.Setsum

theorem chunks4_flatMap (l : List Nat) : chunks4 (l.flatMap colBytes) = l.map colBytes := by
  induction l with
  | nil => rfl
  | cons c t ih => simp only [List.flatMap_cons, List.map_cons, colBytes, List.cons_append, List.nil_append, chunks4, ih]

theorem flatMap_colBytes_length (l : List Nat) : (l.flatMap colBytes).length = 4 * l.length := by
  induction l with
  | nil => rfl
  | cons c t ih => simp only [List.flatMap_cons, List.length_append, ih, colBytes, List.length_cons, List.length_nil]; omega

theorem bytesCol_colBytes (c : Nat) (h : c < U32) : bytesCol (colBytes c) = c := by
  simp only [colBytes, bytesCol, le32]; unfold U32 at h; omega

theorem ofList_toList (s : State) : ofList s.toList = some s := by
  unfold ofList
  rw [dif_pos (by simp)]
  congr 1

theorem fromDigestOld_digest (s : State) (hs : ∀ (i : Nat) (h : i < 8), s[i] < U32) :
    fromDigestOld (digest s) = some s := by
  unfold fromDigestOld digest
  rw [if_pos (by rw [flatMap_colBytes_length]; simp), chunks4_flatMap, List.map_map]
  have : s.toList.map (bytesCol ∘ colBytes) = s.toList := by
    apply List.ext_getElem (by simp)
    intro i h1 h2
    simp only [List.getElem_map, Function.comp]
    have hi : i < 8 := by simpa using h2
    have := hs i hi
    rw [bytesCol_colBytes _ (by simpa using this)]
  rw [this]
  exact ofList_toList s

theorem canonical_u32 {s : State} (hs : Canonical s) : ∀ (i : Nat) (h : i < 8), s[i] < U32 :=
  fun i h => Nat.lt_trans (hs i h) (primes_good' i h).2.1

theorem hashToState_canonical_id {s : State} (hs : Canonical s) : hashToState s = s := by
  apply Vector.ext; intro i h
  rw [hashToState_get]; unfold reduceCol
  rw [if_neg (by have := hs i h; omega)]

/-- **C14** digests round-trip -/
theorem fromDigest_digest {s : State} (hs : Canonical s) : fromDigest (digest s) = some s := by
  unfold fromDigest
  rw [fromDigestOld_digest s (canonical_u32 hs)]
  simp only [Option.map_some, hashToState_canonical_id hs]

/-- every byte list has byte-sized columns once read -/
def Bytes (d : List Nat) : Prop := ∀ b ∈ d, b < 256

theorem chunks4_words (d : List Nat) (hb : Bytes d) : ∀ c ∈ (chunks4 d).map bytesCol, c < U32 := by
  induction d using chunks4.induct with
  | case1 b0 b1 b2 b3 rest ih =>
    intro c hc
    simp only [chunks4, List.map_cons, List.mem_cons] at hc
    rcases hc with rfl | hc
    · have h0 := hb b0 (by simp)
      have h1 := hb b1 (by simp)
      have h2 := hb b2 (by simp)
      have h3 := hb b3 (by simp)
      simp only [bytesCol, le32]; unfold U32; omega
    · exact ih (fun b hbm => hb b (by simp [hbm])) c hc
  | case2 d hne =>
    intro c hc
    rw [chunks4] at hc
    · cases hc
    · exact hne

/-- **C14 / D-14 repaired** whatever bytes come in, the repaired `from_digest` yields a canonical value,
    so every law above applies to every value reachable through the API -/
theorem fromDigest_canonical {d : List Nat} (hb : Bytes d) {s : State} (h : fromDigest d = some s) :
    Canonical s := by
  unfold fromDigest at h
  cases h1 : fromDigestOld d with
  | none => rw [h1] at h; cases h
  | some t =>
    rw [h1] at h
    simp only [Option.map_some, Option.some.injEq] at h
    subst h
    apply canonical_hash
    unfold fromDigestOld at h1
    split at h1
    · unfold ofList at h1
      split at h1
      · cases h1
        intro i hi
        have := chunks4_words d hb
        apply this
        simp only [Vector.getElem_mk, List.getElem_toArray]
        exact List.getElem_mem _
      · cases h1
    · cases h1

/-- **D-14 as a theorem about the code as it stands**: a digest the library never produced
    makes subtraction underflow -/
theorem fromDigestOld_underflow :
    (fromDigestOld (List.replicate 32 255)).bind (fun b => sub zero b) = none := by decide

/-! hex -/
theorem parsePair_hexByte : ∀ b : Fin 256, parsePair (hexDigit (b.1 / 16)) (hexDigit (b.1 % 16)) = some b.1 := by
  decide +kernel

theorem parsePairs_hex (d : List Nat) (hb : Bytes d) : parsePairs (d.flatMap hexByte) = some d := by
  induction d with
  | nil => rfl
  | cons b t ih =>
    have hb0 : b < 256 := hb b (List.mem_cons_self ..)
    simp only [List.flatMap_cons, hexByte, List.cons_append, List.nil_append, parsePairs]
    rw [ih (fun x hx => hb x (List.mem_cons_of_mem _ hx))]
    have := parsePair_hexByte ⟨b, hb0⟩
    simp only at this
    rw [this]

theorem digest_bytes (s : State) : Bytes (digest s) := by
  intro b hb
  unfold digest at hb
  obtain ⟨c, _, hc⟩ := List.mem_flatMap.mp hb
  unfold colBytes at hc
  simp only [List.mem_cons, List.not_mem_nil, or_false] at hc
  rcases hc with rfl | rfl | rfl | rfl <;> omega

theorem hexdigest_length (s : State) : (hexdigest s).length = 64 := by
  unfold hexdigest
  have h1 : (digest s).length = 32 := by unfold digest; rw [flatMap_colBytes_length]; simp
  have : ∀ l : List Nat, (l.flatMap hexByte).length = 2 * l.length := by
    intro l; induction l with
    | nil => rfl
    | cons c t ih => simp only [List.flatMap_cons, List.length_append, ih, hexByte, List.length_cons, List.length_nil]; omega
  rw [this, h1]

/-- **C14** hex digests round-trip -/
theorem fromHexdigest_hexdigest {s : State} (hs : Canonical s) : fromHexdigest (hexdigest s) = some s := by
  unfold fromHexdigest
  rw [if_pos (hexdigest_length s)]
  unfold hexdigest
  rw [parsePairs_hex _ (digest_bytes s)]
  exact fromDigest_digest hs

end Blue.Setsum

#print axioms Blue.Setsum.order_independent
#print axioms Blue.Setsum.union_is_sum
#print axioms Blue.Setsum.matches_definition
#print axioms Blue.Setsum.remove_insert
#print axioms Blue.Setsum.add_sub_cancel
#print axioms Blue.Setsum.fromDigest_canonical
#print axioms Blue.Setsum.fromHexdigest_hexdigest
#print axioms Blue.Setsum.fromDigestOld_underflow
