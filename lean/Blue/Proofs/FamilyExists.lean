import Blue.Proofs.MergingDupMain
import Blue.Proofs.MergingOver
import Blue.Proofs.ScanCongr
/-! **C11 / C05** every family of strictly sorted tables HAS an owner-tagged merged list.

The refinement theorems of the merging cursor (`merging_refines`, `merging_refines_dups`, `*_over`) and
the conservation theorems of C05 quantify over an owner-tagged list `M` with `Family` / `FamilyW`.
Here such an `M` is constructed for arbitrary strictly sorted tables: tag every entry with the index
of its table and sort by the entries (`List.mergeSort` with `a ≤ b := ¬ b < a`).

* `mergedOf_familyW` — for ANY strictly sorted tables (the same entry may be in several):
  `FamilyW lt (mergedOf lt tables) tables.length` and the children of `mergedOf` are exactly the
  tables;
* `mergedOf_family` — if moreover no entry is in two tables (`tables.flatten.Nodup`): `Family`;
* `merging_refines_tables`, `merging_over_tables` — the refinement theorems without `M`:
  the merging cursor over any strictly sorted children shows the cursor over
  `mergedList lt tables`, a weakly sorted permutation of the children's entries. -/
namespace Blue.Cursor
variable {E : Type}

/-- tag the entries of each table with the table's index, starting at `i` -/
def tagFrom : Nat → List (List E) → List (E × Nat)
  | _, [] => []
  | i, t :: ts => t.map (fun e => (e, i)) ++ tagFrom (i + 1) ts

/-- `a ≤ b` on tagged entries: `¬ b < a` on the entries -/
def leOf (lt : E → E → Bool) (a b : E × Nat) : Bool := !lt b.1 a.1

/-- the owner-tagged merged list of a family of tables -/
def mergedOf (lt : E → E → Bool) (tables : List (List E)) : List (E × Nat) :=
  (tagFrom 0 tables).mergeSort (leOf lt)

/-- the merged list, entries only -/
def mergedList (lt : E → E → Bool) (tables : List (List E)) : List E := (mergedOf lt tables).map (·.1)

theorem childList_append (A B : List (E × Nat)) (j : Nat) :
    childList (A ++ B) j = childList A j ++ childList B j := by
  unfold childList
  rw [List.filter_append, List.map_append]

theorem childList_map_tag (t : List E) (i j : Nat) :
    childList (t.map (fun e => (e, i))) j = if i = j then t else [] := by
  unfold childList
  induction t with
  | nil => by_cases h : i = j <;> simp [h]
  | cons a t ih =>
    by_cases h : i = j
    · subst h
      simp only [if_true] at ih ⊢
      simp only [List.map_cons, List.filter_cons, beq_self_eq_true, if_true, List.map_cons, ih]
    · simp only [if_neg h] at ih ⊢
      have hb : (i == j) = false := by simpa using h
      simp only [List.map_cons, List.filter_cons, hb, Bool.false_eq_true, if_false, ih]

theorem childList_tagFrom : ∀ (ts : List (List E)) (i j : Nat),
    childList (tagFrom i ts) j = if i ≤ j then (ts[j - i]?).getD [] else []
  | [], i, j => by by_cases h : i ≤ j <;> simp [tagFrom, childList, h]
  | t :: ts, i, j => by
    simp only [tagFrom]
    rw [childList_append, childList_map_tag, childList_tagFrom ts (i + 1) j]
    by_cases h1 : i = j
    · subst h1
      have h3 : ¬ i + 1 ≤ i := by omega
      simp [h3]
    · by_cases h2 : i ≤ j
      · have h3 : i + 1 ≤ j := by omega
        rw [if_neg h1, if_pos h3, if_pos h2, List.nil_append]
        have : j - i = (j - (i + 1)) + 1 := by omega
        rw [this, List.getElem?_cons_succ]
      · have h3 : ¬ i + 1 ≤ j := by omega
        rw [if_neg h1, if_neg h3, if_neg h2]
        rfl

theorem mem_tagFrom : ∀ (ts : List (List E)) (i : Nat) (x : E × Nat),
    x ∈ tagFrom i ts → i ≤ x.2 ∧ x.2 < i + ts.length
  | [], _, _, h => by simp [tagFrom] at h
  | t :: ts, i, x, h => by
    simp only [tagFrom, List.mem_append, List.mem_map] at h
    rcases h with ⟨e, _, rfl⟩ | h
    · simp
    · have := mem_tagFrom ts (i + 1) x h
      simp only [List.length_cons]
      omega

theorem tagFrom_map_fst : ∀ (ts : List (List E)) (i : Nat), (tagFrom i ts).map (·.1) = ts.flatten
  | [], _ => rfl
  | t :: ts, i => by
    simp only [tagFrom, List.map_append, List.map_map, List.flatten_cons, tagFrom_map_fst ts (i + 1)]
    congr 1
    induction t with
    | nil => rfl
    | cons a t ih => rw [List.map_cons, ih]; rfl

theorem mergedOf_perm (lt : E → E → Bool) (tables : List (List E)) :
    (mergedOf lt tables).Perm (tagFrom 0 tables) := List.mergeSort_perm _ _

/-- the merged list holds the tables' entries, with multiplicity -/
theorem mergedList_perm (lt : E → E → Bool) (tables : List (List E)) :
    (mergedList lt tables).Perm tables.flatten := by
  unfold mergedList
  have := (mergedOf_perm lt tables).map (·.1)
  rw [tagFrom_map_fst] at this
  exact this

theorem childList_perm {M M' : List (E × Nat)} (h : M.Perm M') (j : Nat) :
    (childList M j).Perm (childList M' j) := by
  unfold childList
  exact (h.filter _).map _

section
variable {lt : E → E → Bool} (st : StrictTotal lt)
include st

theorem leOf_trans (a b c : E × Nat) (h1 : leOf lt a b = true) (h2 : leOf lt b c = true) :
    leOf lt a c = true := by
  simp only [leOf, Bool.not_eq_true'] at *
  -- ¬ b < a, ¬ c < b ⊢ ¬ c < a
  cases h : lt c.1 a.1 with
  | false => rfl
  | true =>
    by_cases hab : a.1 = b.1
    · rw [hab] at h; rw [h] at h2; cases h2
    · rcases st.total _ _ hab with h3 | h3
      · have := st.trans _ _ _ h h3; rw [this] at h2; cases h2
      · rw [h3] at h1; cases h1

theorem leOf_total (a b : E × Nat) : (leOf lt a b || leOf lt b a) = true := by
  simp only [leOf, Bool.or_eq_true, Bool.not_eq_true']
  cases h : lt b.1 a.1 with
  | false => exact Or.inl rfl
  | true => exact Or.inr (st.asymm _ _ h)

/-- the merged list is weakly sorted -/
theorem mergedList_sortedW (tables : List (List E)) :
    (mergedList lt tables).Pairwise (fun a b => lt b a = false) := by
  unfold mergedList mergedOf
  rw [List.pairwise_map]
  have := List.pairwise_mergeSort (le := leOf lt) (leOf_trans st) (leOf_total st) (tagFrom 0 tables)
  exact this.imp (fun h => by simpa [leOf] using h)

/-- weakly sorted and without repetition is strictly sorted -/
theorem strict_of_weak_nodup {l : List E} (hw : l.Pairwise (fun a b => lt b a = false)) (hn : l.Nodup) :
    l.Pairwise (fun a b => lt a b = true) := by
  rw [List.nodup_iff_pairwise_ne] at hn
  refine (hw.and hn).imp ?_
  rintro a b ⟨h1, h2⟩
  rcases st.total a b h2 with h | h
  · exact h
  · rw [h] at h1; cases h1

theorem nodup_of_strict {l : List E} (hs : l.Pairwise (fun a b => lt a b = true)) : l.Nodup := by
  rw [List.nodup_iff_pairwise_ne]
  refine hs.imp ?_
  intro a b h e
  subst e
  rw [st.irrefl] at h; cases h

/-- child `j` of the merged list is table `j` -/
theorem childList_mergedOf (tables : List (List E))
    (hs : ∀ t ∈ tables, t.Pairwise (fun a b => lt a b = true)) (j : Nat) (hj : j < tables.length) :
    childList (mergedOf lt tables) j = tables[j] := by
  have hp : (childList (mergedOf lt tables) j).Perm tables[j] := by
    have := childList_perm (mergedOf_perm lt tables) j
    rw [childList_tagFrom, if_pos (Nat.zero_le _), Nat.sub_zero, List.getElem?_eq_getElem hj] at this
    exact this
  have hsj := hs tables[j] (List.getElem_mem hj)
  have hw : (childList (mergedOf lt tables) j).Pairwise (fun a b => lt b a = false) := by
    have hsub : (childList (mergedOf lt tables) j).Sublist (mergedList lt tables) := by
      unfold childList mergedList
      exact List.Sublist.map _ List.filter_sublist
    exact (mergedList_sortedW st tables).sublist hsub
  have hn : (childList (mergedOf lt tables) j).Nodup := (hp.nodup_iff).mpr (nodup_of_strict st hsj)
  exact Blue.Spec.sorted_ext st _ _ (strict_of_weak_nodup st hw hn) hsj (fun e => hp.mem_iff)

/-- **every family of strictly sorted tables has its owner-tagged merged list** (`FamilyW`: the
    same entry may be in several tables), and the children of that list are exactly the tables -/
theorem mergedOf_familyW (tables : List (List E))
    (hs : ∀ t ∈ tables, t.Pairwise (fun a b => lt a b = true)) :
    FamilyW lt (mergedOf lt tables) tables.length
      ∧ (List.range tables.length).map (childList (mergedOf lt tables)) = tables := by
  refine ⟨⟨mergedList_sortedW st tables, ?_, ?_⟩, ?_⟩
  · intro x hx
    have := mem_tagFrom tables 0 x ((mergedOf_perm lt tables).mem_iff.mp hx)
    omega
  · intro j hj
    rw [childList_mergedOf st tables hs j hj]
    exact hs _ (List.getElem_mem hj)
  · apply List.ext_getElem
    · simp
    · intro i h1 h2
      rw [List.getElem_map, List.getElem_range]
      exact childList_mergedOf st tables hs i h2

/-- … and when no entry is in two tables the list is strictly sorted (`Family`) -/
theorem mergedOf_family (tables : List (List E))
    (hs : ∀ t ∈ tables, t.Pairwise (fun a b => lt a b = true)) (hnd : tables.flatten.Nodup) :
    Family lt (mergedOf lt tables) tables.length
      ∧ (List.range tables.length).map (childList (mergedOf lt tables)) = tables := by
  have hw := mergedOf_familyW st tables hs
  refine ⟨⟨?_, hw.1.owner⟩, hw.2⟩
  exact strict_of_weak_nodup st (mergedList_sortedW st tables)
    (((mergedList_perm lt tables).nodup_iff).mpr hnd)

theorem exists_familyW (tables : List (List E))
    (hs : ∀ t ∈ tables, t.Pairwise (fun a b => lt a b = true)) :
    ∃ M, FamilyW lt M tables.length ∧ (List.range tables.length).map (childList M) = tables :=
  ⟨_, mergedOf_familyW st tables hs⟩

theorem exists_family (tables : List (List E))
    (hs : ∀ t ∈ tables, t.Pairwise (fun a b => lt a b = true)) (hnd : tables.flatten.Nodup) :
    ∃ M, Family lt M tables.length ∧ (List.range tables.length).map (childList M) = tables :=
  ⟨_, mergedOf_family st tables hs hnd⟩

/-- **merging cursor = one cursor over the sorted union, no `M` in the statement**: for ANY strictly
    sorted children and every finite program, the merging cursor shows what one reference cursor
    over `mergedList` shows — a weakly sorted permutation of the children's entries
    (`mergedList_perm`, `mergedList_sortedW`), strictly sorted when no entry is repeated -/
theorem merging_refines_tables (cs : List (Ref E))
    (hs : ∀ c ∈ cs, c.xs.Pairwise (fun a b => lt a b = true))
    (ops : List (Op E)) (hops : ∀ pred, Op.seek pred ∈ ops → Mono lt pred) :
    (Merging.new lt cs).kv = (Ref.mk (mergedList lt (cs.map (·.xs))) 0).kv ∧
    Merging.run lt (Merging.new lt cs) ops = Ref.run ⟨mergedList lt (cs.map (·.xs)), 0⟩ ops := by
  have hs' : ∀ t ∈ cs.map (·.xs), t.Pairwise (fun a b => lt a b = true) := by
    intro t ht
    rw [List.mem_map] at ht
    obtain ⟨c, hc, rfl⟩ := ht
    exact hs c hc
  have h := mergedOf_familyW st (cs.map (·.xs)) hs'
  exact merging_refines_dups st h.1 cs (by rw [h.2]) ops hops

/-- the same over any children that behave as strictly sorted tables -/
theorem merging_over_tables {A : (E → Bool) → Prop} (hA : ∀ p, A p → Mono lt p)
    {C : Cur E} (cs : List C.σ) (rs : List (Ref E))
    (hs : ∀ r ∈ rs, r.xs.Pairwise (fun a b => lt a b = true))
    (hbeh : cs.map (behA A C) = rs.map (behA A (RefCur E))) :
    BehEq A (MergingC.cur C lt) (MergingC.new C lt cs) (RefCur E) ⟨mergedList lt (rs.map (·.xs)), 0⟩ := by
  have hs' : ∀ t ∈ rs.map (·.xs), t.Pairwise (fun a b => lt a b = true) := by
    intro t ht
    rw [List.mem_map] at ht
    obtain ⟨c, hc, rfl⟩ := ht
    exact hs c hc
  have h := mergedOf_familyW st (rs.map (·.xs)) hs'
  exact merging_over_dups lt st h.1 hA cs rs (by rw [h.2]) hbeh

end

end Blue.Cursor

#print axioms Blue.Cursor.mergedOf_familyW
#print axioms Blue.Cursor.mergedOf_family
#print axioms Blue.Cursor.merging_refines_tables
#print axioms Blue.Cursor.merging_over_tables
