import Blue.Proofs.ListFree
import Blue.Model.ListFreeIter
/-! What an iteration of the prepend-only list sees. -/
namespace Blue.ListFree
variable {D : Type}

/-- after any schedule the chain from the head is exactly the pushed data (newest first, each
    once), and a walk from the head yields it -/
theorem run_contents (evs : List (Ev D)) :
    ∃ ids, Chain (evs.foldl apply (init : St D)).heap (evs.foldl apply (init : St D)).head ids
        (evs.foldl apply (init : St D)).pushed ∧
      walk (evs.foldl apply (init : St D)).heap (ids.length + 1) (evs.foldl apply (init : St D)).head
        = (evs.foldl apply (init : St D)).pushed := by
  obtain ⟨ids, hc, _⟩ := (inv_run evs).chain
  exact ⟨ids, hc, walk_chain hc _ (by omega)⟩

/-- one `next()` of the iterator moves along the chain: data of the node, then the rest -/
theorem iterNext_chain {heap : List (Node D)} {p : Nat} {ids : List Nat} {ds : List D}
    (h : Chain heap (some p) ids ds) :
    ∃ d nx ids' ds', iterNext heap (some p) = some (d, nx) ∧ ds = d :: ds' ∧ Chain heap nx ids' ds' := by
  cases h with
  | cons hp hrest => exact ⟨_, _, _, _, by simp [iterNext, hp], rfl, hrest⟩

end Blue.ListFree
