import Blue.Proofs.Log
/-! **C12, truncation**: whatever the reader delivers from a cut file, it delivers from the whole
    file at the same offsets — so a torn tail loses only the tail. -/
namespace Blue.Log
variable {P : Params}

theorem take_get (file : List Nat) (n i : Nat) (x : Nat) (h : (file.take n)[i]? = some x) : file[i]? = some x := by
  rw [List.getElem?_take] at h
  split at h
  · exact h
  · cases h

theorem slice_take (file : List Nat) (n off k : Nat) (h : off + k ≤ (file.take n).length) :
    slice (file.take n) off k = slice file off k := by
  unfold slice
  rw [List.length_take] at h
  rw [List.drop_take, List.take_take]
  congr 1
  omega

theorem take_length_le (file : List Nat) (n : Nat) : (file.take n).length ≤ file.length := by
  rw [List.length_take]; omega

/-- the padding check looks at the same bytes when all of them lie before the cut -/
theorem padZero_take (file : List Nat) (n off t : Nat) (h : off + (t - off) ≤ n) :
    padZero (file.take n) off t = padZero file off t := by
  unfold padZero slice
  rw [List.drop_take, List.take_take]
  congr 2
  omega

/-- a header is delivered only from inside the file -/
theorem nextHeader_ok_lt (file : List Nat) (fuel off : Nat) (r : Hdr × Nat)
    (h : nextHeader P file fuel off = .ok r) : off < file.length := by
  cases fuel with
  | zero => simp [nextHeader] at h
  | succ f =>
    rw [nextHeader_succ] at h
    cases hx : file[off]? with
    | none => rw [hx] at h; cases h
    | some hsz =>
      apply Classical.byContradiction
      intro hge
      rw [List.getElem?_eq_none (by omega)] at hx
      cases hx

theorem nextFrame_ok_bounds (file : List Nat) (fuel off : Nat) (r : Hdr × List Nat × Nat)
    (h : nextFrame P file fuel off = .ok r) : off < file.length ∧ r.2.2 ≤ file.length := by
  unfold nextFrame at h
  cases hh : nextHeader P file fuel off with
  | eof => rw [hh] at h; cases h
  | err => rw [hh] at h; cases h
  | ok hr =>
    obtain ⟨hd, off'⟩ := hr
    rw [hh] at h
    simp only at h
    by_cases h1 : off' + hd.size > file.length
    · rw [if_pos h1] at h; cases h
    · rw [if_neg h1] at h
      by_cases h2 : P.crc (slice file off' hd.size) ≠ hd.crc
      · rw [if_pos h2] at h; cases h
      · rw [if_neg h2] at h
        cases h
        exact ⟨nextHeader_ok_lt file fuel off _ hh, by simp only; omega⟩

/-- a header read from the cut file is the header read from the whole file -/
theorem nextHeader_take (file : List Nat) (n : Nat) :
    ∀ (fuel off : Nat) (r : Hdr × Nat), nextHeader P (file.take n) fuel off = .ok r →
      nextHeader P file fuel off = .ok r := by
  intro fuel
  induction fuel with
  | zero => intro off r h; simp [nextHeader] at h
  | succ f ih =>
    intro off r h
    rw [nextHeader_succ] at h ⊢
    cases hx : (file.take n)[off]? with
    | none => rw [hx] at h; cases h
    | some hsz =>
      rw [hx] at h
      rw [take_get file n off hsz hx]
      simp only at h ⊢
      by_cases h0 : hsz = 0
      · rw [if_pos h0] at h ⊢
        by_cases ht : trueUp P (off + 1) - (off + 1) > P.H
        · rw [if_pos ht] at h; cases h
        · rw [if_neg ht] at h ⊢
          cases hp : padZero (file.take n) (off + 1) (trueUp P (off + 1)) with
          | false => rw [hp] at h; simp only [Bool.not_false, if_true] at h; cases h
          | true =>
            rw [hp] at h
            simp only [Bool.not_true, Bool.false_eq_true, if_false] at h
            -- the read that follows the padding succeeded, so the whole padding lies before the cut
            have hlt := nextHeader_ok_lt (file.take n) f _ r h
            have hoff : off < (file.take n).length := by
              apply Classical.byContradiction
              intro hge
              rw [List.getElem?_eq_none (by omega)] at hx
              cases hx
            rw [List.length_take] at hlt hoff
            rw [padZero_take file n (off + 1) _ (by omega)] at hp
            rw [hp]
            simp only [Bool.not_true, Bool.false_eq_true, if_false]
            exact ih _ r h
      · rw [if_neg h0] at h ⊢
        by_cases h1 : hsz > P.H
        · rw [if_pos h1] at h; cases h
        · rw [if_neg h1] at h ⊢
          by_cases h2 : off + 1 + hsz > (file.take n).length
          · rw [if_pos h2] at h; cases h
          · rw [if_neg h2] at h
            have hlen := take_length_le file n
            rw [if_neg (by omega)]
            rw [slice_take file n (off + 1) hsz (by omega)] at h
            exact h

theorem nextFrame_take (file : List Nat) (n fuel off : Nat) (r : Hdr × List Nat × Nat)
    (h : nextFrame P (file.take n) fuel off = .ok r) : nextFrame P file fuel off = .ok r := by
  unfold nextFrame at h ⊢
  cases hh : nextHeader P (file.take n) fuel off with
  | eof => rw [hh] at h; cases h
  | err => rw [hh] at h; cases h
  | ok hr =>
    obtain ⟨hd, off'⟩ := hr
    rw [hh] at h
    rw [nextHeader_take file n fuel off _ hh]
    simp only at h ⊢
    by_cases h1 : off' + hd.size > (file.take n).length
    · rw [if_pos h1] at h; cases h
    · rw [if_neg h1] at h
      have hlen := take_length_le file n
      rw [if_neg (by omega)]
      rw [slice_take file n off' hd.size (by omega)] at h
      exact h

theorem nextBatch_take (file : List Nat) (n fuel off : Nat) (r : List Nat × Nat)
    (h : nextBatch P (file.take n) fuel off = .ok r) : nextBatch P file fuel off = .ok r := by
  unfold nextBatch at h ⊢
  cases hf : nextFrame P (file.take n) fuel off with
  | eof => rw [hf] at h; cases h
  | err => rw [hf] at h; cases h
  | ok fr =>
    obtain ⟨hd, p, off'⟩ := fr
    rw [hf] at h
    rw [nextFrame_take file n fuel off _ hf]
    simp only at h ⊢
    by_cases hw : hd.disc = WHOLE
    · rw [if_pos hw] at h ⊢; exact h
    · rw [if_neg hw] at h ⊢
      by_cases h1 : hd.disc = FIRST
      · rw [if_pos h1] at h ⊢
        by_cases ht : trueUp P off' - off' > P.H
        · rw [if_pos ht] at h; cases h
        · rw [if_neg ht] at h ⊢
          cases hp : padZero (file.take n) off' (trueUp P off') with
          | false => rw [hp] at h; simp only [Bool.not_false, if_true] at h; cases h
          | true =>
            rw [hp] at h
            simp only [Bool.not_true, Bool.false_eq_true, if_false] at h
            cases hf2 : nextFrame P (file.take n) fuel (trueUp P off') with
            | eof => rw [hf2] at h; cases h
            | err => rw [hf2] at h; cases h
            | ok fr2 =>
              rw [hf2] at h
              -- both frames were read, so the padding between them lies before the cut
              have hb1 := (nextFrame_ok_bounds (file.take n) fuel off _ hf).2
              have hb2 := (nextFrame_ok_bounds (file.take n) fuel _ _ hf2).1
              simp only at hb1
              rw [List.length_take] at hb1 hb2
              rw [padZero_take file n off' _ (by omega)] at hp
              rw [hp]
              simp only [Bool.not_true, Bool.false_eq_true, if_false]
              rw [nextFrame_take file n fuel _ _ hf2]
              exact h
      · rw [if_neg h1] at h; cases h

theorem readSome_succ (file : List Nat) (f off : Nat) :
    readSome P file (f + 1) off =
      match nextBatch P file 2 off with
      | .eof => ([], false)
      | .err => ([], true)
      | .ok (b, off') => (b :: (readSome P file f off').1, (readSome P file f off').2) := rfl

/-- **C12** cut the file at any byte: the batches delivered (before the reader ends or reports an
    error) are delivered, in the same order, from the whole file -/
theorem readSome_take_prefix (file : List Nat) (n : Nat) :
    ∀ (fuel off : Nat), ∃ rest, (readSome P file fuel off).1 = (readSome P (file.take n) fuel off).1 ++ rest := by
  intro fuel
  induction fuel with
  | zero => intro off; exact ⟨[], rfl⟩
  | succ f ih =>
    intro off
    cases hb : nextBatch P (file.take n) 2 off with
    | eof => exact ⟨(readSome P file (f + 1) off).1, by rw [readSome_succ (file.take n), hb]; rfl⟩
    | err => exact ⟨(readSome P file (f + 1) off).1, by rw [readSome_succ (file.take n), hb]; rfl⟩
    | ok r =>
      obtain ⟨b, off'⟩ := r
      obtain ⟨rest, h⟩ := ih off'
      refine ⟨rest, ?_⟩
      rw [readSome_succ file, readSome_succ (file.take n), hb, nextBatch_take file n 2 off _ hb]
      simp only
      rw [h]
      rfl

/-- the two ways of draining the iterator agree when there is no error -/
theorem readSome_of_readAll (file : List Nat) :
    ∀ (fuel off : Nat) (bs : List (List Nat)), readAll P file fuel off = some bs →
      readSome P file fuel off = (bs, false) := by
  intro fuel
  induction fuel with
  | zero => intro off bs h; simp [readAll] at h
  | succ f ih =>
    intro off bs h
    rw [readAll_succ] at h
    rw [readSome_succ]
    cases hb : nextBatch P file 2 off with
    | eof => rw [hb] at h; simp only [Option.some.injEq] at h; subst h; rfl
    | err => rw [hb] at h; cases h
    | ok r =>
      obtain ⟨b, off'⟩ := r
      rw [hb] at h
      simp only at h ⊢
      cases hr : readAll P file f off' with
      | none => rw [hr] at h; cases h
      | some rest =>
        rw [hr] at h
        simp only [Option.map_some, Option.some.injEq] at h
        subst h
        rw [ih off' rest hr]

/-- **C12** together with `log_roundtrip`: from a log cut at any byte the reader delivers a prefix
    of the appended batches and nothing else (then it ends or reports an error) -/
theorem truncated_log_prefix (g : Good P) (bufs : List (List Nat)) (n : Nat)
    (hsz : ∀ b ∈ bufs, b.length + 2 * P.H ≤ P.B ∧ b.length ≤ P.tableFull) :
    ∃ rest, bufs = (readSome P ((writeAll P bufs 0).take n) (bufs.length + 1) 0).1 ++ rest := by
  have hfull := log_roundtrip g bufs [] hsz
  simp only [List.nil_append, List.length_nil] at hfull
  have hsome := readSome_of_readAll (P := P) _ _ _ _ hfull
  obtain ⟨rest, h⟩ := readSome_take_prefix (P := P) (writeAll P bufs 0) n (bufs.length + 1) 0
  refine ⟨rest, ?_⟩
  rw [hsome] at h
  exact h

end Blue.Log

#print axioms Blue.Log.readSome_take_prefix
#print axioms Blue.Log.truncated_log_prefix
