import Blue.Model.Bounds
/-! The bounds cursor is a reference cursor over the window `[lo, hi)` of its child list. -/
namespace Blue.Cursor

variable {E : Type} (cfg : BoundsCfg E) (xs : List E)

/-- how the key tests relate to the (key-sorted) child list: `lo` entries are below the start
    bound, entries from `hi` on are above the end bound -/
structure BoundsOk (lo hi : Nat) : Prop where
  lo_le : lo ≤ xs.length
  hi_le : hi ≤ xs.length
  below : ∀ (i : Nat) (e : E), xs[i]? = some e → (cfg.belowStart e = true ↔ i < lo)
  above : ∀ (i : Nat) (e : E), xs[i]? = some e → (cfg.aboveEnd e = true ↔ hi ≤ i)
  start_unb : cfg.startUnbounded = true → lo = 0
  start_seek : cfg.startUnbounded = false → xs.findIdx cfg.geStart ≤ lo
  end_unb : cfg.endUnbounded = true → hi = xs.length
  end_excl : cfg.endUnbounded = false → cfg.endIncluded = false → xs.findIdx cfg.geEnd = hi
  end_incl_le : cfg.endUnbounded = false → cfg.endIncluded = true → xs.findIdx cfg.geEnd ≤ hi
  end_incl_eq : cfg.endUnbounded = false → cfg.endIncluded = true →
    ∀ (i : Nat) (e : E), xs.findIdx cfg.geEnd ≤ i → xs[i]? = some e → (cfg.eqEnd e = true ↔ i < hi)

/-- the window the bounds cursor shows -/
def window (lo hi : Nat) : List E := (xs.drop lo).take (hi - lo)

theorem window_length (lo hi : Nat) (hlo : lo ≤ xs.length) (hhi : hi ≤ xs.length) :
    (window xs lo hi).length = hi - lo := by
  unfold window; simp; omega

theorem window_get (lo hi r : Nat) (h : r < hi - lo) : (window xs lo hi)[r]? = xs[lo + r]? := by
  unfold window
  rw [List.getElem?_take, if_pos h, List.getElem?_drop]

/-- simulation relation (child position `q`, reference position `pos`) -/
inductive BRel (lo hi : Nat) : Bounds E → Nat → Prop
  | before (q : Nat) : min q xs.length ≤ lo → q ≤ xs.length + 1 → BRel lo hi ⟨⟨xs, q⟩, .beforeStart⟩ 0
  | at (q : Nat) : lo < q → q ≤ hi → BRel lo hi ⟨⟨xs, q⟩, .positioned⟩ (q - lo)
  | posStart : BRel lo hi ⟨⟨xs, 0⟩, .positioned⟩ 0
  | posEnd : BRel lo hi ⟨⟨xs, xs.length + 1⟩, .positioned⟩ (hi - lo + 1)
  | after (q : Nat) : hi + 1 ≤ q → q ≤ xs.length + 1 → BRel lo hi ⟨⟨xs, q⟩, .afterEnd⟩ (hi - lo + 1)

end Blue.Cursor

namespace Blue.Cursor
variable {E : Type} (cfg : BoundsCfg E) (xs : List E)

theorem rkv_at (i : Nat) : (Ref.mk xs (i+1)).kv = xs[i]? := by simp [Ref.kv]
theorem rkv_zero : (Ref.mk xs 0).kv = none := by simp [Ref.kv]
theorem rnext_lt (q : Nat) (h : q ≤ xs.length) : (Ref.mk xs q).next = ⟨xs, q+1⟩ := by
  unfold Ref.next; simp [h]
theorem rnext_end : (Ref.mk xs (xs.length+1)).next = ⟨xs, xs.length+1⟩ := by
  unfold Ref.next; simp
theorem rprev_succ (q : Nat) : (Ref.mk xs (q+1)).prev = ⟨xs, q⟩ := by unfold Ref.prev; simp
theorem rprev_zero : (Ref.mk xs 0).prev = ⟨xs, 0⟩ := by unfold Ref.prev; simp

/-- one `check_start; check_end` on a positioned cursor resting on index `i` -/
theorem checks_fwd {lo hi : Nat} (ok : BoundsOk cfg xs lo hi) (i : Nat) (hi' : i < xs.length) :
    Bounds.checkEnd cfg (Bounds.checkStart cfg ⟨⟨xs, i+1⟩, .positioned⟩)
      = if i < lo then ⟨⟨xs, i+1⟩, .beforeStart⟩
        else if hi ≤ i then ⟨⟨xs, i+1⟩, .afterEnd⟩ else ⟨⟨xs, i+1⟩, .positioned⟩ := by
  have he : xs[i]? = some xs[i] := by simp [hi']
  have hb := ok.below i xs[i] he
  have ha := ok.above i xs[i] he
  unfold Bounds.checkStart
  simp only [Bounds.key, rkv_at, he, if_true]
  by_cases h1 : i < lo
  · have : cfg.belowStart xs[i] = true := hb.mpr h1
    simp [this, h1, Bounds.checkEnd, Bounds.key]
  · have hb' : cfg.belowStart xs[i] = false := by
      cases h : cfg.belowStart xs[i] with
      | false => rfl
      | true => exact absurd (hb.mp h) h1
    simp only [hb', Bool.false_eq_true, if_false, h1]
    unfold Bounds.checkEnd
    simp only [Bounds.key, rkv_at, he, if_true]
    by_cases h2 : hi ≤ i
    · have : cfg.aboveEnd xs[i] = true := ha.mpr h2
      simp [this, h2]
    · have ha' : cfg.aboveEnd xs[i] = false := by
        cases h : cfg.aboveEnd xs[i] with
        | false => rfl
        | true => exact absurd (ha.mp h) h2
      simp [ha', h2]

/-- one `check_end; check_start` on a positioned cursor resting on index `i` -/
theorem checks_bwd {lo hi : Nat} (ok : BoundsOk cfg xs lo hi) (i : Nat) (hi' : i < xs.length) :
    Bounds.checkStart cfg (Bounds.checkEnd cfg ⟨⟨xs, i+1⟩, .positioned⟩)
      = if hi ≤ i then ⟨⟨xs, i+1⟩, .afterEnd⟩
        else if i < lo then ⟨⟨xs, i+1⟩, .beforeStart⟩ else ⟨⟨xs, i+1⟩, .positioned⟩ := by
  have he : xs[i]? = some xs[i] := by simp [hi']
  have hb := ok.below i xs[i] he
  have ha := ok.above i xs[i] he
  unfold Bounds.checkEnd
  simp only [Bounds.key, rkv_at, he, if_true]
  by_cases h2 : hi ≤ i
  · have : cfg.aboveEnd xs[i] = true := ha.mpr h2
    simp [this, h2, Bounds.checkStart, Bounds.key]
  · have ha' : cfg.aboveEnd xs[i] = false := by
      cases h : cfg.aboveEnd xs[i] with
      | false => rfl
      | true => exact absurd (ha.mp h) h2
    simp only [ha', Bool.false_eq_true, if_false, h2]
    unfold Bounds.checkStart
    simp only [Bounds.key, rkv_at, he, if_true]
    by_cases h1 : i < lo
    · have : cfg.belowStart xs[i] = true := hb.mpr h1
      simp [this, h1]
    · have hb' : cfg.belowStart xs[i] = false := by
        cases h : cfg.belowStart xs[i] with
        | false => rfl
        | true => exact absurd (hb.mp h) h1
      simp [hb', h1]

theorem checks_none_fwd (q : Nat) (h : (Ref.mk xs q).kv = none) :
    Bounds.checkEnd cfg (Bounds.checkStart cfg ⟨⟨xs, q⟩, .positioned⟩) = ⟨⟨xs, q⟩, .positioned⟩ := by
  simp [Bounds.checkStart, Bounds.checkEnd, Bounds.key, h]

theorem checks_none_bwd (q : Nat) (h : (Ref.mk xs q).kv = none) :
    Bounds.checkStart cfg (Bounds.checkEnd cfg ⟨⟨xs, q⟩, .positioned⟩) = ⟨⟨xs, q⟩, .positioned⟩ := by
  simp [Bounds.checkStart, Bounds.checkEnd, Bounds.key, h]

/-- closed form of the `next` loop -/
def nextResult (lo hi q : Nat) : Bounds E :=
  let t := max q lo
  if xs.length ≤ t then ⟨⟨xs, xs.length + 1⟩, .positioned⟩
  else if hi ≤ t then ⟨⟨xs, t+1⟩, .afterEnd⟩ else ⟨⟨xs, t+1⟩, .positioned⟩

theorem bounds_nextLoop_spec {lo hi : Nat} (ok : BoundsOk cfg xs lo hi) :
    ∀ (fuel q : Nat) (st : BState), st ≠ .afterEnd → q ≤ xs.length + 1 → xs.length + 2 ≤ q + fuel →
      Bounds.nextLoop cfg fuel ⟨⟨xs, q⟩, st⟩ = nextResult xs lo hi q := by
  intro fuel
  induction fuel with
  | zero => intro q st _ h1 h2; omega
  | succ f ih =>
    intro q st hst hq hf
    unfold Bounds.nextLoop
    simp only [hst, if_false]
    by_cases hqn : q ≤ xs.length
    · rw [rnext_lt xs q hqn]
      by_cases hqlt : q < xs.length
      · rw [checks_fwd cfg xs ok q hqlt]
        by_cases h1 : q < lo
        · simp only [h1, if_true, ne_eq, not_true_eq_false, if_false]
          rw [ih (q+1) .beforeStart (by decide) (by omega) (by omega)]
          unfold nextResult
          have : max (q+1) lo = max q lo := by omega
          simp only [this]
        · simp only [h1, if_false]
          have hmax : max q lo = q := by omega
          by_cases h2 : hi ≤ q
          · simp only [h2, if_true]
            unfold nextResult
            simp [hmax, h2]; omega
          · simp only [h2, if_false]
            unfold nextResult
            simp [hmax, h2]; omega
      · have hq' : q = xs.length := by omega
        subst hq'
        have hkv : (Ref.mk xs (xs.length+1)).kv = none := by simp [Ref.kv]
        rw [checks_none_fwd cfg xs _ hkv]
        unfold nextResult
        have : xs.length ≤ max xs.length lo := by omega
        simp [this]
    · have hq' : q = xs.length + 1 := by omega
      subst hq'
      rw [rnext_end]
      have hkv : (Ref.mk xs (xs.length+1)).kv = none := by simp [Ref.kv]
      rw [checks_none_fwd cfg xs _ hkv]
      unfold nextResult
      have : xs.length ≤ max (xs.length+1) lo := by omega
      simp [this]

/-- closed form of the (repaired) `prev` loop -/
def prevResult (lo hi q : Nat) : Bounds E :=
  let t := min (q - 1) hi
  if t = 0 then ⟨⟨xs, 0⟩, .positioned⟩
  else if t ≤ lo then ⟨⟨xs, t⟩, .beforeStart⟩ else ⟨⟨xs, t⟩, .positioned⟩

theorem bounds_prevLoop_spec {lo hi : Nat} (ok : BoundsOk cfg xs lo hi) :
    ∀ (fuel q : Nat) (st : BState), st ≠ .beforeStart → q ≤ xs.length + 1 → q < fuel →
      Bounds.prevLoop cfg fuel ⟨⟨xs, q⟩, st⟩ = prevResult xs lo hi q := by
  intro fuel
  induction fuel with
  | zero => intro q st _ h1 h2; omega
  | succ f ih =>
    intro q st hst hq hf
    unfold Bounds.prevLoop
    simp only [hst, if_false]
    cases q with
    | zero =>
      rw [rprev_zero, checks_none_bwd cfg xs 0 (rkv_zero xs)]
      unfold prevResult; simp
    | succ q0 =>
      rw [rprev_succ]
      cases q0 with
      | zero =>
        rw [checks_none_bwd cfg xs 0 (rkv_zero xs)]
        unfold prevResult; simp
      | succ i =>
        have hilt : i < xs.length := by omega
        rw [checks_bwd cfg xs ok i hilt]
        by_cases h2 : hi ≤ i
        · simp only [h2, if_true, ne_eq, not_true_eq_false, if_false]
          rw [ih (i+1) .afterEnd (by decide) (by omega) (by omega)]
          unfold prevResult
          have : min (i + 1 - 1) hi = min (i + 1 + 1 - 1) hi := by omega
          simp only [this]
        · simp only [h2, if_false]
          have hmin : min (i + 1 + 1 - 1) hi = i + 1 := by omega
          by_cases h1 : i < lo
          · simp only [h1, if_true]
            unfold prevResult
            simp only [hmin]
            have : i + 1 ≤ lo := by omega
            simp [this]
          · simp only [h1, if_false]
            unfold prevResult
            simp only [hmin]
            have : ¬ i + 1 ≤ lo := by omega
            simp [this]

end Blue.Cursor
