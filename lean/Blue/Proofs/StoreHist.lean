import Blue.Proofs.StoreCrash
import Blue.Proofs.StoreFault
/-! Additions to the store crash model after the independent audit:
    * `ack_mem`: WHICH batches an acknowledgement guarantees — the `i`-th acknowledgement of a
      history is `ack i`, so "acknowledged ≤ k" in `Ok` means that every acknowledged batch is
      among the recovered ones;
    * `inv_hist`: the block-boundary invariant after any history (to instantiate theorems that
      take `Inv fs kv`, e.g. `gc_compaction_atomic`);
    * the open-time manifest rollover: `image false` (what a process crash leaves) treats the
      manifest bytes written but not synced as durable from then on; the code justifies that by
      the rollover `Manifest::open` always performs (write the whole state to a new file, sync,
      rename: ONE `maniSync` before anything else).  `rollover_settles_manifest` says exactly that;
      the log half of `settle false` has no such justification (see the examples in Props/C02). -/
namespace Blue.StoreCrash

/-- the client state after a history -/
def kvOf : List Client → Kv → Kv
  | [], kv => kv
  | c :: cs, kv => kvOf cs (after kv c)

/-- the block-boundary invariant holds after every history -/
theorem inv_hist : ∀ (h : List Client) (fs : Fs) (kv : Kv), Inv fs kv → Inv (run fs (opsOf h kv)) (kvOf h kv)
  | [], _, _, hi => hi
  | c :: cs, fs, kv, hi => by
    simp only [opsOf, kvOf]; rw [run_append]; exact inv_hist cs _ _ (Blue.StoreFault.inv_block hi c)

theorem block_quiet_of_not_put (kv : Kv) (c : Client) (hc : ∀ (_ : c = .put), False) : ∀ op ∈ block kv c, Quiet op := by
  cases c with
  | put => exact absurd rfl (fun h => hc h)
  | flush => exact quiet_flush kv
  | compact p outs => exact quiet_compact kv p outs
  | reopen => exact quiet_reopen kv

theorem quiet_not_ack {l : List Op} (h : ∀ op ∈ l, Quiet op) (b : Nat) : Op.ack b ∉ l :=
  fun hm => h _ hm

theorem after_next_quiet (kv : Kv) (c : Client) (hc : ∀ (_ : c = .put), False) : (after kv c).next = kv.next := by
  cases c with
  | put => exact absurd rfl (fun h => hc h)
  | flush => simp only [after]; split <;> rfl
  | compact p outs => simp only [after]; split <;> rfl
  | reopen => simp only [after]; split <;> rfl

/-- acknowledgements are issued in sequence-number order: an `ack b` among the first `n` calls of
    a history started at sequence number `kv.next` has `kv.next ≤ b < kv.next + (number of
    acknowledgements among those calls)` -/
theorem ack_lt : ∀ (h : List Client) (kv : Kv) (n b : Nat), Op.ack b ∈ (opsOf h kv).take n →
    kv.next ≤ b ∧ b < kv.next + acked ((opsOf h kv).take n)
  | [], _, _, _, hm => by simp [opsOf] at hm
  | c :: cs, kv, n, b, hm => by
    simp only [opsOf] at hm ⊢
    rw [List.take_append] at hm ⊢
    rw [acked_append]
    rw [List.mem_append] at hm
    by_cases hput : c = .put
    · subst hput
      have hblock : block kv .put = [.logAppend kv.cur kv.next, .logSync kv.cur, .ack kv.next] := rfl
      have hnext : (after kv .put).next = kv.next + 1 := rfl
      rcases hm with hm | hm
      · rw [hblock] at hm ⊢
        rcases n with _ | _ | _ | n
        · simp at hm
        · simp at hm
        · simp at hm
        · simp only [List.take_succ_cons, List.take_nil, List.mem_cons, reduceCtorEq, Op.ack.injEq,
            false_or, List.not_mem_nil, or_false] at hm
          subst hm
          have : acked [Op.logAppend kv.cur kv.next, Op.logSync kv.cur, Op.ack kv.next] = 1 := by simp [acked]
          simp only [List.take_succ_cons, List.take_nil, this]
          omega
      · have hn : (block kv .put).length < n := by
          rcases Nat.lt_or_ge (block kv .put).length n with h | h
          · exact h
          · have : n - (block kv .put).length = 0 := by omega
            rw [this] at hm; simp at hm
        obtain ⟨h1, h2⟩ := ack_lt cs (after kv .put) _ b hm
        rw [List.take_of_length_le (Nat.le_of_lt hn)]
        have : acked (block kv .put) = 1 := by simp [hblock, acked]
        rw [this]
        rw [hnext] at h1 h2
        omega
    · have hq := block_quiet_of_not_put kv c (fun h => hput h)
      rcases hm with hm | hm
      · exact absurd (List.mem_of_mem_take hm) (quiet_not_ack hq b)
      · obtain ⟨h1, h2⟩ := ack_lt cs (after kv c) _ b hm
        rw [after_next_quiet kv c (fun h => hput h)] at h1 h2
        have : acked ((block kv c).take n) = 0 :=
          (counts_quiet (fun op hop => hq op (List.mem_of_mem_take hop))).1
        rw [this]
        omega

/-- **every acknowledged batch is recovered**: if `ack b` is among the calls before the crash
    point, batch `b` is in what the reopen yields — under both persistence models -/
theorem ack_mem (h : List Client) (n b : Nat) (hack : Op.ack b ∈ (opsOf h kv0).take n) :
    (∃ l, recoverB (run fs0 ((opsOf h kv0).take n)) = some l ∧ b ∈ l)
    ∧ (∃ l, recoverA (run fs0 ((opsOf h kv0).take n)) = some l ∧ b ∈ l) := by
  obtain ⟨_, hlt⟩ := ack_lt h kv0 n b hack
  have hlt' : b < acked ((opsOf h kv0).take n) := by simpa [kv0] using hlt
  obtain ⟨⟨lB, kB, hB, pB, loB, _⟩, ⟨lA, kA, hA, pA, loA, _⟩⟩ := crash_recover_init h n
  exact ⟨⟨lB, hB, pB.mem_iff.mpr (List.mem_range.mpr (by omega))⟩,
         ⟨lA, hA, pA.mem_iff.mpr (List.mem_range.mpr (by omega))⟩⟩

end Blue.StoreCrash

namespace Blue.StoreFault
open Blue.StoreCrash

/-- what a process crash leaves when only the FILE half of `image` is taken for granted: files as
    `settle b` has them, the manifest's pending transactions still pending (in the page cache) -/
def settleFiles (b : Bool) (fs : Fs) : Fs :=
  { fs with tmp := fs.tmp.map (fun e => (e.1, settle b e.2))
            sst := fs.sst.map (fun e => (e.1, settle b e.2))
            logs := fs.logs.map (fun l => (l.1, settle b l.2)) }

/-- **the manifest half of `image false` is the open-time rollover**: `Manifest::open` always rolls
    the manifest over (C13 `reopenOps`: the whole state goes to a new file, synced, renamed over
    MANIFEST — at this level one `maniSync` before anything else); after it the directory is the
    one `image false` postulates -/
theorem rollover_settles_manifest (fs : Fs) : step (settleFiles false fs) .maniSync = image false fs := by
  simp [step, settleFiles, image]

/-- … and under model (b) the rollover finds nothing pending: it changes nothing -/
theorem rollover_noop_after_power_loss (fs : Fs) : step (image true fs) .maniSync = image true fs := by
  simp [step, image]

end Blue.StoreFault

#print axioms Blue.StoreCrash.inv_hist
#print axioms Blue.StoreCrash.ack_lt
#print axioms Blue.StoreCrash.ack_mem
#print axioms Blue.StoreFault.rollover_settles_manifest
