import Blue.Model.KvsConc
/-! Invariants of the joined write / rollover / read system `Blue.KvsConc` and what they give the
    readers: batch atomicity and snapshot stability for the repaired read timestamp, no stale and
    no phantom reads for both, and the counterexample for the timestamp as found (D-6). -/
namespace Blue.KvsConc
open Blue.KvsWrite (Entry)

/-! ## small facts about the writer list -/

theorem mem_updWriter {ws : List Writer} {seq : Nat} {f : Writer → Writer} {x : Writer}
    (h : x ∈ updWriter ws seq f) : ∃ w ∈ ws, x = if w.seq = seq then f w else w := by
  unfold updWriter at h
  obtain ⟨w, hw, rfl⟩ := List.mem_map.mp h
  exact ⟨w, hw, rfl⟩

theorem updWriter_mem {ws : List Writer} {seq : Nat} {f : Writer → Writer} {w : Writer}
    (h : w ∈ ws) : (if w.seq = seq then f w else w) ∈ updWriter ws seq f := by
  unfold updWriter
  exact List.mem_map.mpr ⟨w, h, rfl⟩

theorem updWriter_seqs (ws : List Writer) (seq : Nat) (f : Writer → Writer) (hf : ∀ w, (f w).seq = w.seq) :
    (updWriter ws seq f).map (·.seq) = ws.map (·.seq) := by
  unfold updWriter
  rw [List.map_map]
  apply List.map_congr_left
  intro w _
  simp only [Function.comp]
  split
  · exact hf w
  · rfl

theorem uniq_seq : ∀ (ws : List Writer), (ws.map (·.seq)).Nodup → ∀ w ∈ ws, ∀ w' ∈ ws, w.seq = w'.seq → w = w' := by
  intro ws
  induction ws with
  | nil => intro _ w hw; cases hw
  | cons a t ih =>
    intro hn w hw w' hw' hs
    simp only [List.map_cons, List.nodup_cons] at hn
    simp only [List.mem_cons] at hw hw'
    rcases hw with rfl | hw
    · rcases hw' with rfl | hw'
      · rfl
      · exfalso; exact hn.1 (List.mem_map.mpr ⟨w', hw', hs.symm⟩)
    · rcases hw' with rfl | hw'
      · exfalso; exact hn.1 (List.mem_map.mpr ⟨w, hw, hs⟩)
      · exact ih hn.2 w hw w' hw' hs

theorem findWriter_some {s : St} {seq : Nat} {w : Writer} (h : findWriter s seq = some w) :
    w ∈ s.writers ∧ w.seq = seq := by
  unfold findWriter at h
  exact ⟨List.mem_of_find?_eq_some h, by simpa using List.find?_some h⟩

/-! ## the invariant -/

structure Inv (s : St) : Prop where
  vis_le : s.visible ≤ s.seqNo
  wbound : ∀ w ∈ s.writers, w.seq ≤ s.seqNo
  wuniq : (s.writers.map (·.seq)).Nodup
  /-- every entry of a batch is still to be inserted or is in the table the writer picked -/
  placed : ∀ w ∈ s.writers, ∀ kv ∈ w.batch, kv ∈ w.todo ∨ (w.tbl, (⟨kv.1, w.seq, kv.2⟩ : Entry)) ∈ s.ents
  todo_sub : ∀ w ∈ s.writers, ∀ kv ∈ w.todo, kv ∈ w.batch
  done : ∀ w ∈ s.writers, w.finished = true → w.todo = []
  /-- the writers that have left the wait list are exactly those up to `visible` -/
  fin_vis : ∀ w ∈ s.writers, (w.finished = true ↔ w.seq ≤ s.visible)
  /-- the wait list holds the writers in sequence order … -/
  qsorted : (s.queue.filterMap Ticket.wseq?).Pairwise (· < ·)
  qbound : ∀ q, Ticket.w q ∈ s.queue → q ≤ s.seqNo
  /-- … and every writer that has not returned is in it -/
  qall : ∀ w ∈ s.writers, w.finished = false → Ticket.w w.seq ∈ s.queue
  /-- the table a writer picked is mem, imm or already in the version -/
  tbl_live : ∀ w ∈ s.writers, w.tbl ∈ liveTables s
  inst : s.installed = true → ∃ t, s.imm = some t ∧ t ∈ s.flushed
  /-- a reader that took its tree version and mem / imm with no `fClear` in between searches the
      table of every write its timestamp covers -/
  rd : ∀ r ∈ s.readers, r.2.ts ≤ s.seqNo ∧ (s.completed = true → r.2.ts ≤ s.visible) ∧
        (r.2.clean = true → ∀ w ∈ s.writers, w.seq ≤ r.2.ts → w.tbl ∈ r.2.tbls)
  /-- nothing in a table was invented -/
  from_batch : ∀ te ∈ s.ents, ∃ w ∈ s.writers, w.seq = te.2.seq ∧ w.tbl = te.1 ∧ (te.2.key, te.2.val) ∈ w.batch
  /-- a tree version a reader holds, with no `fClear` since it was taken, lacks of the flushed
      tables at most the one that is still `imm` -/
  tr : ∀ p ∈ s.trees, p.2.2 = true → ∀ t ∈ s.flushed, t ∈ p.2.1 ∨ s.imm = some t
  /-- a write of which an entry stands in a table has begun to insert (so a write that has
      inserted nothing — one that fails — has no entry anywhere) -/
  started : ∀ te ∈ s.ents, ∀ w ∈ s.writers, w.seq = te.2.seq → w.todo.length < w.batch.length

theorem inv_init (c : Bool) (seq mem : Nat) : Inv (init c seq mem) := by
  refine ⟨Nat.le_refl _, ?_, ?_, ?_, ?_, ?_, ?_, ?_, ?_, ?_, ?_, ?_, ?_, ?_, ?_, ?_⟩ <;> simp [init]

theorem fm_cons_f (m : Nat) (tl : List Ticket) :
    (Ticket.f m :: tl).filterMap Ticket.wseq? = tl.filterMap Ticket.wseq? := by
  rw [List.filterMap_cons]; rfl

theorem fm_cons_w (q : Nat) (tl : List Ticket) :
    (Ticket.w q :: tl).filterMap Ticket.wseq? = q :: tl.filterMap Ticket.wseq? := by
  rw [List.filterMap_cons]; rfl

theorem fm_append_f (m : Nat) (l : List Ticket) :
    (l ++ [Ticket.f m]).filterMap Ticket.wseq? = l.filterMap Ticket.wseq? := by
  rw [List.filterMap_append, fm_cons_f]; simp

theorem fm_append_w (q : Nat) (l : List Ticket) :
    (l ++ [Ticket.w q]).filterMap Ticket.wseq? = l.filterMap Ticket.wseq? ++ [q] := by
  rw [List.filterMap_append, fm_cons_w]; simp

theorem mem_of_mem_tail' {α : Type} {a : α} {l : List α} (h : a ∈ l.tail) : a ∈ l := by
  cases l with
  | nil => cases h
  | cons b t => exact List.mem_cons_of_mem _ h

theorem inv_wLog {s s' : St} (h : Inv s) (seq : Nat) (hs : step s (.wLog seq) = some s') : Inv s' := by
  simp only [step] at hs
  split at hs
  · split at hs
    · cases hs
      exact ⟨h.vis_le, h.wbound, h.wuniq, h.placed, h.todo_sub, h.done, h.fin_vis, h.qsorted, h.qbound, h.qall,
        h.tbl_live, h.inst, h.rd, h.from_batch, h.tr, h.started⟩
    · cases hs
  · cases hs

theorem inv_fHead {s s' : St} (h : Inv s) (m : Nat) (hs : step s (.fHead m) = some s') : Inv s' := by
  simp only [step] at hs
  split at hs
  · rename_i hc
    cases hs
    obtain ⟨hq, _, _, _⟩ := hc
    obtain ⟨tl, htl⟩ : ∃ tl, s.queue = Ticket.f m :: tl := by
      cases hql : s.queue with
      | nil => rw [hql] at hq; cases hq
      | cons a tl => rw [hql] at hq; simp at hq; exact ⟨tl, by rw [hq]⟩
    refine ⟨h.vis_le, h.wbound, h.wuniq, h.placed, h.todo_sub, h.done, h.fin_vis, ?_, ?_, ?_,
      h.tbl_live, h.inst, h.rd, h.from_batch, h.tr, h.started⟩
    · have := h.qsorted
      rw [htl, fm_cons_f] at this
      simpa [htl] using this
    · intro q hq'
      exact h.qbound q (mem_of_mem_tail' hq')
    · intro w hw hf
      have := h.qall w hw hf
      rw [htl] at this
      simp only [List.mem_cons] at this
      rcases this with h1 | h1
      · cases h1
      · simpa [htl] using h1
  · cases hs

theorem inv_fInstall {s s' : St} (h : Inv s) (o vid : Nat) (hs : step s (.fInstall o vid) = some s') : Inv s' := by
  simp only [step] at hs
  split at hs
  · rename_i hc
    cases hs
    refine ⟨h.vis_le, h.wbound, h.wuniq, h.placed, h.todo_sub, h.done, h.fin_vis, h.qsorted, h.qbound, h.qall,
      ?_, ?_, h.rd, h.from_batch, ?_, h.started⟩
    · intro w hw
      have := h.tbl_live w hw
      simp only [liveTables, List.mem_cons, List.mem_append] at this ⊢
      rcases this with h1 | h1 | h1
      · exact Or.inl h1
      · exact Or.inr (Or.inl h1)
      · exact Or.inr (Or.inr (Or.inr h1))
    · intro _
      exact ⟨o, hc.1, List.mem_cons_self ..⟩
    · intro p hp hcl t ht
      have ht' : t ∈ o :: s.flushed := ht
      simp only [List.mem_cons] at ht'
      rcases ht' with rfl | h1
      · exact Or.inr hc.1
      · exact h.tr p hp hcl t h1
  · cases hs

theorem inv_fClear {s s' : St} (h : Inv s) (o : Nat) (hs : step s (.fClear o) = some s') : Inv s' := by
  simp only [step] at hs
  split at hs
  · rename_i hc
    cases hs
    refine ⟨h.vis_le, h.wbound, h.wuniq, h.placed, h.todo_sub, h.done, h.fin_vis, h.qsorted, h.qbound, h.qall,
      ?_, ?_, h.rd, h.from_batch, ?_, h.started⟩
    · intro w hw
      have := h.tbl_live w hw
      obtain ⟨t, ht, htf⟩ := h.inst hc.2
      simp only [liveTables, List.mem_cons, List.mem_append, ht, Option.toList] at this ⊢
      rcases this with h1 | h1 | h1
      · exact Or.inl h1
      · simp at h1; right; simp; rw [h1]; exact htf
      · right; simp; exact h1
    · intro hi; cases hi
    · intro p hp hcl
      have hp' : p ∈ s.trees.map (fun p => (p.1, (p.2.1, false))) := hp
      obtain ⟨q, _, rfl⟩ := List.mem_map.mp hp'
      cases hcl
  · cases hs

theorem inv_tInstall {s s' : St} (h : Inv s) (vid : Nat) (hs : step s (.tInstall vid) = some s') : Inv s' := by
  simp only [step] at hs
  split at hs
  · cases hs
    exact ⟨h.vis_le, h.wbound, h.wuniq, h.placed, h.todo_sub, h.done, h.fin_vis, h.qsorted, h.qbound, h.qall,
      h.tbl_live, h.inst, h.rd, h.from_batch, h.tr, h.started⟩
  · cases hs

theorem inv_rTree {s s' : St} (h : Inv s) (rid vid : Nat) (hs : step s (.rTree rid vid) = some s') : Inv s' := by
  simp only [step] at hs
  split at hs
  · cases hs
    refine ⟨h.vis_le, h.wbound, h.wuniq, h.placed, h.todo_sub, h.done, h.fin_vis, h.qsorted, h.qbound, h.qall,
      h.tbl_live, h.inst, h.rd, h.from_batch, ?_, h.started⟩
    intro p hp hcl t ht
    have hp' : p ∈ (rid, (s.flushed, true)) :: s.trees.filter (fun p => p.1 ≠ rid) := hp
    simp only [List.mem_cons] at hp'
    rcases hp' with rfl | h1
    · exact Or.inl ht
    · exact h.tr p (List.mem_filter.mp h1).1 hcl t ht
  · cases hs

theorem inv_rSnap {s s' : St} (h : Inv s) (rid ts mem : Nat) (imm : Bool)
    (hs : step s (.rSnap rid ts mem imm) = some s') : Inv s' := by
  simp only [step] at hs
  split at hs
  · rename_i p hfind
    have hp : p ∈ s.trees := List.mem_of_find?_eq_some hfind
    split at hs
    · rename_i hc
      cases hs
      refine ⟨h.vis_le, h.wbound, h.wuniq, h.placed, h.todo_sub, h.done, h.fin_vis, h.qsorted, h.qbound, h.qall,
        h.tbl_live, h.inst, ?_, h.from_batch, ?_, h.started⟩
      · intro r hr
        simp only [List.mem_cons] at hr
        rcases hr with rfl | hr
        · have hts : ts = readTs s := hc.1
          refine ⟨?_, ?_, ?_⟩
          · show ts ≤ s.seqNo
            rw [hts]; unfold readTs
            split
            · exact h.vis_le
            · exact Nat.le_refl _
          · intro hcomp
            show ts ≤ s.visible
            rw [hts]; unfold readTs; rw [if_pos hcomp]; exact Nat.le_refl _
          · intro hcl w hw _
            have hcl' : p.2.2 = true := hcl
            have hl := h.tbl_live w hw
            show w.tbl ∈ s.memId :: (s.imm.toList ++ p.2.1)
            simp only [liveTables, List.mem_cons, List.mem_append] at hl ⊢
            rcases hl with h1 | h1 | h1
            · exact Or.inl h1
            · exact Or.inr (Or.inl h1)
            · rcases h.tr p hp hcl' w.tbl h1 with h2 | h2
              · exact Or.inr (Or.inr h2)
              · right; left; rw [h2]; simp
        · exact h.rd r hr
      · intro q hq hcl t ht
        exact h.tr q (List.mem_filter.mp hq).1 hcl t ht
    · cases hs
  · cases hs

theorem inv_fRotate {s s' : St} (h : Inv s) (n o : Nat) (hs : step s (.fRotate n o) = some s') : Inv s' := by
  simp only [step] at hs
  split at hs
  · rename_i hc
    cases hs
    obtain ⟨himm, _, _⟩ := hc
    refine ⟨?_, ?_, h.wuniq, h.placed, h.todo_sub, h.done, h.fin_vis, ?_, ?_, ?_, ?_, ?_, ?_, h.from_batch, ?_, h.started⟩
    · show s.visible ≤ s.seqNo + 1
      have := h.vis_le; omega
    · intro w hw
      show w.seq ≤ s.seqNo + 1
      have := h.wbound w hw; omega
    · show ((s.queue ++ [Ticket.f n]).filterMap Ticket.wseq?).Pairwise (· < ·)
      rw [fm_append_f]; exact h.qsorted
    · intro q hq
      show q ≤ s.seqNo + 1
      have hq' : Ticket.w q ∈ s.queue ++ [Ticket.f n] := hq
      simp only [List.mem_append, List.mem_singleton] at hq'
      rcases hq' with h1 | h1
      · have := h.qbound q h1; omega
      · cases h1
    · intro w hw hf
      show Ticket.w w.seq ∈ s.queue ++ [Ticket.f n]
      exact List.mem_append_left _ (h.qall w hw hf)
    · intro w hw
      have := h.tbl_live w hw
      simp only [liveTables, himm, Option.toList, List.nil_append, List.mem_cons] at this
      show w.tbl ∈ n :: ((some s.memId).toList ++ s.flushed)
      simp only [Option.toList, List.mem_cons, List.mem_append]
      rcases this with h1 | h1
      · right; left; left; exact h1
      · right; right; exact h1
    · intro hi; cases hi
    · intro r hr
      obtain ⟨h1, h2, h3⟩ := h.rd r hr
      exact ⟨by show r.2.ts ≤ s.seqNo + 1; omega, h2, h3⟩
    · intro p hp hcl t ht
      rcases h.tr p hp hcl t ht with h1 | h1
      · exact Or.inl h1
      · rw [himm] at h1; cases h1
  · cases hs

theorem inv_wBegin {s s' : St} (h : Inv s) (seq tbl : Nat) (batch : List (Nat × Option Nat))
    (hs : step s (.wBegin seq tbl batch) = some s') : Inv s' := by
  simp only [step] at hs
  split at hs
  · rename_i hc
    cases hs
    obtain ⟨hseq, htbl⟩ := hc
    have hvis := h.vis_le
    refine ⟨?_, ?_, ?_, ?_, ?_, ?_, ?_, ?_, ?_, ?_, ?_, h.inst, ?_, ?_, h.tr, ?_⟩
    · show s.visible ≤ seq
      omega
    · intro w hw
      show w.seq ≤ seq
      have hw' : w ∈ s.writers ++ [(⟨seq, tbl, batch, false, batch⟩ : Writer)] := hw
      rw [List.mem_append] at hw'
      rcases hw' with h1 | h1
      · have := h.wbound w h1; omega
      · simp at h1; subst h1; exact Nat.le_refl _
    · show ((s.writers ++ [(⟨seq, tbl, batch, false, batch⟩ : Writer)]).map (·.seq)).Nodup
      rw [List.map_append, List.nodup_append]
      refine ⟨h.wuniq, by simp, ?_⟩
      intro a ha b hb
      simp at hb; subst hb
      obtain ⟨w, hw, rfl⟩ := List.mem_map.mp ha
      have := h.wbound w hw
      omega
    · intro w hw kv hkv
      have hw' : w ∈ s.writers ++ [(⟨seq, tbl, batch, false, batch⟩ : Writer)] := hw
      rw [List.mem_append] at hw'
      rcases hw' with h1 | h1
      · exact h.placed w h1 kv hkv
      · simp at h1; subst h1; exact Or.inl hkv
    · intro w hw kv hkv
      have hw' : w ∈ s.writers ++ [(⟨seq, tbl, batch, false, batch⟩ : Writer)] := hw
      rw [List.mem_append] at hw'
      rcases hw' with h1 | h1
      · exact h.todo_sub w h1 kv hkv
      · simp at h1; subst h1; exact hkv
    · intro w hw hf
      have hw' : w ∈ s.writers ++ [(⟨seq, tbl, batch, false, batch⟩ : Writer)] := hw
      rw [List.mem_append] at hw'
      rcases hw' with h1 | h1
      · exact h.done w h1 hf
      · simp at h1; subst h1; simp at hf
    · intro w hw
      show w.finished = true ↔ w.seq ≤ s.visible
      have hw' : w ∈ s.writers ++ [(⟨seq, tbl, batch, false, batch⟩ : Writer)] := hw
      rw [List.mem_append] at hw'
      rcases hw' with h1 | h1
      · exact h.fin_vis w h1
      · simp at h1; subst h1
        constructor
        · intro hf; simp at hf
        · intro hle; simp at hle; omega
    · show ((s.queue ++ [Ticket.w seq]).filterMap Ticket.wseq?).Pairwise (· < ·)
      rw [fm_append_w, List.pairwise_append]
      refine ⟨h.qsorted, by simp, ?_⟩
      intro a ha b hb
      simp at hb; subst hb
      obtain ⟨t, ht, hta⟩ := List.mem_filterMap.mp ha
      cases t with
      | w q =>
        simp [Ticket.wseq?] at hta; subst hta
        have := h.qbound q ht; omega
      | f m => simp [Ticket.wseq?] at hta
    · intro q hq
      show q ≤ seq
      have hq' : Ticket.w q ∈ s.queue ++ [Ticket.w seq] := hq
      simp only [List.mem_append, List.mem_singleton] at hq'
      rcases hq' with h1 | h1
      · have := h.qbound q h1; omega
      · cases h1; exact Nat.le_refl _
    · intro w hw hf
      show Ticket.w w.seq ∈ s.queue ++ [Ticket.w seq]
      have hw' : w ∈ s.writers ++ [(⟨seq, tbl, batch, false, batch⟩ : Writer)] := hw
      rw [List.mem_append] at hw'
      rcases hw' with h1 | h1
      · exact List.mem_append_left _ (h.qall w h1 hf)
      · simp at h1; subst h1; simp
    · intro w hw
      show w.tbl ∈ liveTables s
      have hw' : w ∈ s.writers ++ [(⟨seq, tbl, batch, false, batch⟩ : Writer)] := hw
      rw [List.mem_append] at hw'
      rcases hw' with h1 | h1
      · exact h.tbl_live w h1
      · simp at h1; subst h1; simp [liveTables, htbl]
    · intro r hr
      obtain ⟨h1, h2, h3⟩ := h.rd r hr
      refine ⟨by show r.2.ts ≤ seq; omega, h2, ?_⟩
      intro hcl w hw hle
      have hw' : w ∈ s.writers ++ [(⟨seq, tbl, batch, false, batch⟩ : Writer)] := hw
      rw [List.mem_append] at hw'
      rcases hw' with h4 | h4
      · exact h3 hcl w h4 hle
      · simp at h4; subst h4; simp at hle; omega
    · intro te hte
      obtain ⟨w, hw, h1⟩ := h.from_batch te hte
      exact ⟨w, List.mem_append_left _ hw, h1⟩
    · intro te hte w hw hsq
      have hw' : w ∈ s.writers ++ [(⟨seq, tbl, batch, false, batch⟩ : Writer)] := hw
      rw [List.mem_append] at hw'
      rcases hw' with h1 | h1
      · exact h.started te hte w h1 hsq
      · simp at h1; subst h1
        obtain ⟨w', hw', h2, _⟩ := h.from_batch te hte
        have := h.wbound w' hw'
        simp only at hsq
        omega
  · cases hs

theorem inv_wIns {s s' : St} (h : Inv s) (seq idx : Nat) (hs : step s (.wIns seq idx) = some s') : Inv s' := by
  simp only [step] at hs
  split at hs
  · rename_i w0 hfind
    obtain ⟨hw0, hseq0⟩ := findWriter_some hfind
    split at hs
    · rename_i k v rest htodo
      split at hs
      · rename_i hc
        cases hs
        obtain ⟨hunf, _, hidx⟩ := hc
        have honly : ∀ w ∈ s.writers, w.seq = seq → w = w0 :=
          fun w hw hsq => uniq_seq s.writers h.wuniq w hw w0 hw0 (by rw [hsq, hseq0])
        have hsq : ∀ w : Writer, ({ w with todo := rest } : Writer).seq = w.seq := fun _ => rfl
        refine ⟨h.vis_le, ?_, ?_, ?_, ?_, ?_, ?_, h.qsorted, h.qbound, ?_, ?_, h.inst, ?_, ?_, h.tr, ?_⟩
        · intro x hx
          obtain ⟨w, hw, rfl⟩ := mem_updWriter hx
          split <;> exact h.wbound w hw
        · show ((updWriter s.writers seq fun w => { w with todo := rest }).map (·.seq)).Nodup
          rw [updWriter_seqs _ _ _ hsq]; exact h.wuniq
        · intro x hx kv hkv
          obtain ⟨w, hw, rfl⟩ := mem_updWriter hx
          show kv ∈ _ ∨ _ ∈ (w0.tbl, (⟨k, seq, v⟩ : Entry)) :: s.ents
          by_cases hws : w.seq = seq
          · have hwe := honly w hw hws
            subst hwe
            simp only [hws, if_true] at hkv ⊢
            rcases h.placed w hw kv hkv with hin | hin
            · rw [htodo] at hin
              simp only [List.mem_cons] at hin
              rcases hin with rfl | hin
              · right; rw [← hws]; exact List.mem_cons_self ..
              · left; exact hin
            · right; rw [hws] at hin; exact List.mem_cons_of_mem _ hin
          · simp only [hws, if_false] at hkv ⊢
            rcases h.placed w hw kv hkv with hin | hin
            · exact Or.inl hin
            · exact Or.inr (List.mem_cons_of_mem _ hin)
        · intro x hx kv hkv
          obtain ⟨w, hw, rfl⟩ := mem_updWriter hx
          by_cases hws : w.seq = seq
          · simp only [hws, if_true] at hkv ⊢
            have hwe := honly w hw hws
            subst hwe
            apply h.todo_sub w hw kv
            rw [htodo]; exact List.mem_cons_of_mem _ hkv
          · simp only [hws, if_false] at hkv ⊢
            exact h.todo_sub w hw kv hkv
        · intro x hx hfin
          obtain ⟨w, hw, rfl⟩ := mem_updWriter hx
          by_cases hws : w.seq = seq
          · have hwe := honly w hw hws
            subst hwe
            simp only [hws, if_true] at hfin
            rw [hunf] at hfin; cases hfin
          · simp only [hws, if_false] at hfin ⊢
            exact h.done w hw hfin
        · intro x hx
          obtain ⟨w, hw, rfl⟩ := mem_updWriter hx
          split <;> exact h.fin_vis w hw
        · intro x hx hf
          obtain ⟨w, hw, rfl⟩ := mem_updWriter hx
          by_cases hws : w.seq = seq
          · simp only [hws, if_true] at hf ⊢
            have := h.qall w hw hf
            rw [hws] at this; exact this
          · simp only [hws, if_false] at hf ⊢
            exact h.qall w hw hf
        · intro x hx
          obtain ⟨w, hw, rfl⟩ := mem_updWriter hx
          split <;> exact h.tbl_live w hw
        · intro r hr
          obtain ⟨h1, h2, h3⟩ := h.rd r hr
          refine ⟨h1, h2, ?_⟩
          intro hcl x hx hle
          obtain ⟨w, hw, rfl⟩ := mem_updWriter hx
          by_cases hws : w.seq = seq
          · simp only [hws, if_true] at hle ⊢
            exact h3 hcl w hw (by rw [hws]; exact hle)
          · simp only [hws, if_false] at hle ⊢
            exact h3 hcl w hw hle
        · intro te hte
          have hte' : te ∈ (w0.tbl, (⟨k, seq, v⟩ : Entry)) :: s.ents := hte
          simp only [List.mem_cons] at hte'
          rcases hte' with rfl | hte'
          · refine ⟨_, updWriter_mem hw0, ?_⟩
            simp only [hseq0, if_true]
            refine ⟨trivial, trivial, ?_⟩
            apply h.todo_sub w0 hw0
            rw [htodo]; exact List.mem_cons_self ..
          · obtain ⟨w, hw, h1, h2, h3⟩ := h.from_batch te hte'
            refine ⟨_, updWriter_mem hw, ?_⟩
            split
            · exact ⟨h1, h2, h3⟩
            · exact ⟨h1, h2, h3⟩
        · intro te hte x hx hsq
          obtain ⟨w, hw, rfl⟩ := mem_updWriter hx
          have hte' : te ∈ (w0.tbl, (⟨k, seq, v⟩ : Entry)) :: s.ents := hte
          by_cases hws : w.seq = seq
          · have hwe := honly w hw hws
            subst hwe
            simp only [hws, if_true] at hsq ⊢
            show rest.length < w.batch.length
            have : w.todo.length = rest.length + 1 := by rw [htodo]; rfl
            omega
          · simp only [hws, if_false] at hsq ⊢
            simp only [List.mem_cons] at hte'
            rcases hte' with rfl | hte'
            · exact absurd hsq hws
            · exact h.started te hte' w hw hsq
      · cases hs
    · cases hs
  · cases hs

theorem inv_wFin {s s' : St} (h : Inv s) (seq : Nat) (hs : step s (.wFin seq) = some s') : Inv s' := by
  simp only [step] at hs
  split at hs
  · rename_i w0 hfind
    obtain ⟨hw0, hseq0⟩ := findWriter_some hfind
    split at hs
    · rename_i hc
      cases hs
      obtain ⟨hunf, htodo, _, hhead⟩ := hc
      obtain ⟨tl, htl⟩ : ∃ tl, s.queue = Ticket.w seq :: tl := by
        cases hql : s.queue with
        | nil => rw [hql] at hhead; cases hhead
        | cons a tl => rw [hql] at hhead; simp at hhead; exact ⟨tl, by rw [hhead]⟩
      have honly : ∀ w ∈ s.writers, w.seq = seq → w = w0 :=
        fun w hw hsq => uniq_seq s.writers h.wuniq w hw w0 hw0 (by rw [hsq, hseq0])
      have hsq : ∀ w : Writer, ({ w with finished := true } : Writer).seq = w.seq := fun _ => rfl
      -- the writer leaving is not yet covered by `visible`
      have hgt : ¬ seq ≤ s.visible := by
        intro hle
        have := (h.fin_vis w0 hw0).mpr (by rw [hseq0]; exact hle)
        rw [hunf] at this; cases this
      -- every writer still in the list behind the head has a larger number
      have hbehind : ∀ w ∈ s.writers, w.finished = false → w.seq ≠ seq → seq < w.seq ∧ Ticket.w w.seq ∈ tl := by
        intro w hw hf hne
        have hq := h.qall w hw hf
        rw [htl] at hq
        simp only [List.mem_cons] at hq
        rcases hq with h1 | h1
        · cases h1; exact absurd rfl hne
        · have hs := h.qsorted
          rw [htl, fm_cons_w, List.pairwise_cons] at hs
          exact ⟨hs.1 _ (List.mem_filterMap.mpr ⟨_, h1, rfl⟩), h1⟩
      refine ⟨?_, ?_, ?_, ?_, ?_, ?_, ?_, ?_, ?_, ?_, ?_, h.inst, ?_, ?_, h.tr, ?_⟩
      · show seq ≤ s.seqNo
        have := h.wbound w0 hw0; omega
      · intro x hx
        obtain ⟨w, hw, rfl⟩ := mem_updWriter hx
        split <;> exact h.wbound w hw
      · show ((updWriter s.writers seq fun w => { w with finished := true }).map (·.seq)).Nodup
        rw [updWriter_seqs _ _ _ hsq]; exact h.wuniq
      · intro x hx kv hkv
        obtain ⟨w, hw, rfl⟩ := mem_updWriter hx
        by_cases hws : w.seq = seq
        · simp only [hws, if_true] at hkv ⊢
          have := h.placed w hw kv hkv
          rw [hws] at this; exact this
        · simp only [hws, if_false] at hkv ⊢
          exact h.placed w hw kv hkv
      · intro x hx kv hkv
        obtain ⟨w, hw, rfl⟩ := mem_updWriter hx
        by_cases hws : w.seq = seq
        · simp only [hws, if_true] at hkv ⊢
          exact h.todo_sub w hw kv hkv
        · simp only [hws, if_false] at hkv ⊢
          exact h.todo_sub w hw kv hkv
      · intro x hx hfin
        obtain ⟨w, hw, rfl⟩ := mem_updWriter hx
        by_cases hws : w.seq = seq
        · simp only [hws, if_true]
          have := honly w hw hws
          subst this
          exact htodo
        · simp only [hws, if_false] at hfin ⊢
          exact h.done w hw hfin
      · intro x hx
        obtain ⟨w, hw, rfl⟩ := mem_updWriter hx
        show _ ↔ _ ≤ seq
        by_cases hws : w.seq = seq
        · simp only [hws, if_true]
          constructor
          · intro _; exact Nat.le_refl _
          · intro _; trivial
        · simp only [hws, if_false]
          constructor
          · intro hf
            have := (h.fin_vis w hw).mp hf
            omega
          · intro hle
            cases hf : w.finished with
            | true => rfl
            | false =>
              have := (hbehind w hw hf hws).1
              omega
      · show (s.queue.tail.filterMap Ticket.wseq?).Pairwise (· < ·)
        have hs := h.qsorted
        rw [htl, fm_cons_w, List.pairwise_cons] at hs
        rw [htl]; exact hs.2
      · intro q hq
        exact h.qbound q (mem_of_mem_tail' hq)
      · intro x hx hf
        obtain ⟨w, hw, rfl⟩ := mem_updWriter hx
        show _ ∈ s.queue.tail
        by_cases hws : w.seq = seq
        · simp only [hws, if_true] at hf
          cases hf
        · simp only [hws, if_false] at hf ⊢
          rw [htl]
          exact (hbehind w hw hf hws).2
      · intro x hx
        obtain ⟨w, hw, rfl⟩ := mem_updWriter hx
        split <;> exact h.tbl_live w hw
      · intro r hr
        obtain ⟨h1, h2, h3⟩ := h.rd r hr
        refine ⟨h1, ?_, ?_⟩
        · intro hcmp
          show r.2.ts ≤ seq
          have := h2 hcmp
          omega
        · intro hcl x hx hle
          obtain ⟨w, hw, rfl⟩ := mem_updWriter hx
          by_cases hws : w.seq = seq
          · simp only [hws, if_true] at hle ⊢
            exact h3 hcl w hw (by rw [hws]; exact hle)
          · simp only [hws, if_false] at hle ⊢
            exact h3 hcl w hw hle
      · intro te hte
        obtain ⟨w, hw, h1, h2, h3⟩ := h.from_batch te hte
        refine ⟨_, updWriter_mem hw, ?_⟩
        split
        · exact ⟨h1, h2, h3⟩
        · exact ⟨h1, h2, h3⟩
      · intro te hte x hx hsq
        obtain ⟨w, hw, rfl⟩ := mem_updWriter hx
        by_cases hws : w.seq = seq
        · simp only [hws, if_true] at hsq ⊢
          exact h.started te hte w hw (by rw [hws]; exact hsq)
        · simp only [hws, if_false] at hsq ⊢
          exact h.started te hte w hw hsq
    · cases hs
  · cases hs

/-- a write that fails: the writer is forgotten and its ticket leaves the list, wherever it stood;
    nothing else moves (in particular not `visible`) -/
theorem inv_wFail {s s' : St} (h : Inv s) (seq : Nat) (hs : step s (.wFail seq) = some s') : Inv s' := by
  simp only [step] at hs
  split at hs
  · rename_i w0 hfind
    obtain ⟨hw0, hseq0⟩ := findWriter_some hfind
    split at hs
    · rename_i hc
      cases hs
      obtain ⟨_, htodo, _⟩ := hc
      have sub : ∀ w, w ∈ s.writers.filter (fun w => decide (w.seq ≠ seq)) → w ∈ s.writers ∧ w.seq ≠ seq := by
        intro w hw
        have := List.mem_filter.mp hw
        exact ⟨this.1, by simpa using this.2⟩
      have qsub : ∀ t, t ∈ s.queue.filter (fun t => decide (t ≠ Ticket.w seq)) → t ∈ s.queue ∧ t ≠ Ticket.w seq := by
        intro t ht
        have := List.mem_filter.mp ht
        exact ⟨this.1, by simpa using this.2⟩
      refine ⟨h.vis_le, ?_, ?_, ?_, ?_, ?_, ?_, ?_, ?_, ?_, ?_, h.inst, ?_, ?_, h.tr, ?_⟩
      · intro w hw; exact h.wbound w (sub w hw).1
      · exact List.Nodup.sublist (List.Sublist.map _ (List.filter_sublist)) h.wuniq
      · intro w hw; exact h.placed w (sub w hw).1
      · intro w hw; exact h.todo_sub w (sub w hw).1
      · intro w hw; exact h.done w (sub w hw).1
      · intro w hw; exact h.fin_vis w (sub w hw).1
      · exact List.Pairwise.sublist (List.Sublist.filterMap _ (List.filter_sublist)) h.qsorted
      · intro q hq; exact h.qbound q (qsub _ hq).1
      · intro w hw hf
        obtain ⟨hw1, hne⟩ := sub w hw
        refine List.mem_filter.mpr ⟨h.qall w hw1 hf, ?_⟩
        simp only [decide_eq_true_eq]
        intro heq; cases heq; exact hne rfl
      · intro w hw; exact h.tbl_live w (sub w hw).1
      · intro r hr
        obtain ⟨h1, h2, h3⟩ := h.rd r hr
        exact ⟨h1, h2, fun hcl w hw hle => h3 hcl w (sub w hw).1 hle⟩
      · intro te hte
        obtain ⟨w, hw, h1, h2, h3⟩ := h.from_batch te hte
        refine ⟨w, List.mem_filter.mpr ⟨hw, ?_⟩, h1, h2, h3⟩
        simp only [decide_eq_true_eq]
        intro hws
        -- the failing write has inserted nothing
        have hwe : w = w0 := uniq_seq s.writers h.wuniq w hw w0 hw0 (by rw [hws, hseq0])
        subst hwe
        have := h.started te hte w hw h1
        rw [htodo] at this
        exact Nat.lt_irrefl _ this
      · intro te hte w hw hsq; exact h.started te hte w (sub w hw).1 hsq
    · cases hs
  · cases hs

theorem inv_step {s s' : St} (h : Inv s) (ev : Ev) (hs : step s ev = some s') : Inv s' := by
  cases ev with
  | wBegin seq tbl batch => exact inv_wBegin h seq tbl batch hs
  | wLog seq => exact inv_wLog h seq hs
  | wIns seq idx => exact inv_wIns h seq idx hs
  | wFin seq => exact inv_wFin h seq hs
  | fRotate n o => exact inv_fRotate h n o hs
  | fHead m => exact inv_fHead h m hs
  | fInstall o vid => exact inv_fInstall h o vid hs
  | fClear o => exact inv_fClear h o hs
  | tInstall vid => exact inv_tInstall h vid hs
  | rTree rid vid => exact inv_rTree h rid vid hs
  | rSnap rid ts mem imm => exact inv_rSnap h rid ts mem imm hs
  | wFail seq => exact inv_wFail h seq hs

theorem run_cons (s : St) (e : Ev) (es : List Ev) :
    run s (e :: es) = match step s e with | some s' => run s' es | none => none := rfl

theorem inv_run : ∀ (evs : List Ev) {s s' : St}, Inv s → run s evs = some s' → Inv s'
  | [], s, s', h, hr => by
    simp only [run] at hr; cases hr; exact h
  | e :: es, s, s', h, hr => by
    rw [run_cons] at hr
    split at hr
    · rename_i s1 hs1
      exact inv_run es (inv_step h e hs1) hr
    · cases hr

/-! ## what the readers get -/

theorem step_completed {s s' : St} (ev : Ev) (hs : step s ev = some s') : s'.completed = s.completed := by
  cases ev <;> simp only [step] at hs
  all_goals (repeat' split at hs) <;> first | (cases hs; rfl) | cases hs

theorem run_completed : ∀ (evs : List Ev) {s s' : St}, run s evs = some s' → s'.completed = s.completed
  | [], s, s', hr => by simp only [run] at hr; cases hr; rfl
  | e :: es, s, s', hr => by
    rw [run_cons] at hr
    split at hr
    · rename_i s1 hs1
      rw [run_completed es hr, step_completed e hs1]
    · cases hr

theorem mem_view {s : St} {sn : Snap} {e : Entry} :
    e ∈ view s sn ↔ ∃ t, (t, e) ∈ s.ents ∧ t ∈ sn.tbls ∧ e.seq ≤ sn.ts := by
  unfold view
  simp only [List.mem_map, List.mem_filter, decide_eq_true_eq]
  constructor
  · rintro ⟨⟨t, e'⟩, ⟨h1, h2, h3⟩, rfl⟩
    exact ⟨t, h1, h2, h3⟩
  · rintro ⟨t, h1, h2, h3⟩
    exact ⟨(t, e), ⟨h1, h2, h3⟩, rfl⟩

/-- **C06, batches (repaired read timestamp)**: in every reachable state, for every snapshot a
    reader holds and every write that has begun, the reader sees the whole batch or nothing of
    it — whatever the interleaving of inserts, rollover, flush and other writers -/
theorem batch_atomic {seq0 mem0 : Nat} {evs : List Ev} {s : St}
    (hrun : run (init true seq0 mem0) evs = some s)
    (r : Nat × Snap) (hr : r ∈ s.readers) (hclean : r.2.clean = true) (w : Writer) (hw : w ∈ s.writers) :
    (∀ kv ∈ w.batch, (⟨kv.1, w.seq, kv.2⟩ : Entry) ∈ view s r.2) ∨ (∀ e ∈ view s r.2, e.seq ≠ w.seq) := by
  have h := inv_run evs (inv_init true seq0 mem0) hrun
  have hc : s.completed = true := by rw [run_completed evs hrun]; rfl
  obtain ⟨_, h2, h3⟩ := h.rd r hr
  by_cases hle : w.seq ≤ r.2.ts
  · left
    intro kv hkv
    have hfin : w.finished = true := (h.fin_vis w hw).mpr (Nat.le_trans hle (h2 hc))
    have htodo := h.done w hw hfin
    rw [mem_view]
    refine ⟨w.tbl, ?_, h3 hclean w hw hle, hle⟩
    rcases h.placed w hw kv hkv with h1 | h1
    · rw [htodo] at h1; cases h1
    · exact h1
  · right
    intro e he
    obtain ⟨_, _, _, h4⟩ := mem_view.mp he
    omega

/-- one step never changes what an existing snapshot of the repaired store sees: whatever is
    inserted later carries a sequence number beyond the snapshot's timestamp -/
theorem view_step {s s' : St} (h : Inv s) (hc : s.completed = true) (r : Nat × Snap) (hr : r ∈ s.readers)
    (ev : Ev) (hs : step s ev = some s') : view s' r.2 = view s r.2 := by
  cases ev with
  | wIns seq idx =>
    simp only [step] at hs
    split at hs
    · rename_i w0 hfind
      obtain ⟨hw0, hseq0⟩ := findWriter_some hfind
      split at hs
      · split at hs
        · rename_i hcnd
          cases hs
          have hgt : ¬ seq ≤ s.visible := by
            intro hle
            have := (h.fin_vis w0 hw0).mpr (by rw [hseq0]; exact hle)
            rw [hcnd.1] at this; cases this
          have hts := (h.rd r hr).2.1 hc
          unfold view
          show (List.filter _ (_ :: s.ents)).map _ = _
          rw [List.filter_cons_of_neg]
          simp only [decide_eq_true_eq, not_and]
          intro _
          omega
        · cases hs
      · cases hs
    · cases hs
  | wBegin seq tbl batch =>
    simp only [step] at hs; split at hs
    · cases hs; rfl
    · cases hs
  | wLog seq =>
    simp only [step] at hs; split at hs
    · split at hs
      · cases hs; rfl
      · cases hs
    · cases hs
  | wFin seq =>
    simp only [step] at hs; split at hs
    · split at hs
      · cases hs; rfl
      · cases hs
    · cases hs
  | fRotate n o =>
    simp only [step] at hs; split at hs
    · cases hs; rfl
    · cases hs
  | fHead m =>
    simp only [step] at hs; split at hs
    · cases hs; rfl
    · cases hs
  | fInstall o vid =>
    simp only [step] at hs; split at hs
    · cases hs; rfl
    · cases hs
  | fClear o =>
    simp only [step] at hs; split at hs
    · cases hs; rfl
    · cases hs
  | tInstall vid =>
    simp only [step] at hs; split at hs
    · cases hs; rfl
    · cases hs
  | rTree rid vid =>
    simp only [step] at hs; split at hs
    · cases hs; rfl
    · cases hs
  | rSnap rid ts mem imm =>
    simp only [step] at hs; split at hs
    · split at hs
      · cases hs; rfl
      · cases hs
    · cases hs
  | wFail seq =>
    simp only [step] at hs; split at hs
    · split at hs
      · cases hs; rfl
      · cases hs
    · cases hs

theorem readers_step {s s' : St} (r : Nat × Snap) (hr : r ∈ s.readers) (ev : Ev) (hs : step s ev = some s') :
    r ∈ s'.readers := by
  cases ev <;> simp only [step] at hs
  all_goals (repeat' split at hs) <;> first | (cases hs; first | exact hr | exact List.mem_cons_of_mem _ hr) | cases hs

/-- **C06, open cursors (repaired read timestamp)**: a snapshot is stable — no later event, in
    particular no writer that was in flight when the snapshot was taken, changes what it sees -/
theorem snapshot_stable : ∀ (evs : List Ev) {s s' : St}, Inv s → s.completed = true →
    ∀ r ∈ s.readers, run s evs = some s' → view s' r.2 = view s r.2
  | [], s, s', _, _, r, _, hr => by simp only [run] at hr; cases hr; rfl
  | e :: es, s, s', h, hc, r, hrd, hr => by
    rw [run_cons] at hr
    split at hr
    · rename_i s1 hs1
      rw [snapshot_stable es (inv_step h e hs1) (by rw [step_completed e hs1]; exact hc) r
        (readers_step r hrd e hs1) hr]
      exact view_step h hc r hrd e hs1
    · cases hr

/-! ## lookups -/

/-- the fold in `newest` returns a member at least as new as every candidate -/
theorem newestFold_spec (l : List Entry) :
    ∀ (best : Option Entry),
      (∀ e ∈ l, ∃ r, l.foldl (fun best e => match best with
          | none => some e
          | some b => if b.seq < e.seq then some e else some b) best = some r ∧ e.seq ≤ r.seq)
      ∧ (∀ b, best = some b → ∃ r, l.foldl (fun best e => match best with
          | none => some e
          | some b => if b.seq < e.seq then some e else some b) best = some r ∧ b.seq ≤ r.seq)
      ∧ (∀ r, l.foldl (fun best e => match best with
          | none => some e
          | some b => if b.seq < e.seq then some e else some b) best = some r → r ∈ l ∨ best = some r) := by
  induction l with
  | nil =>
    intro best
    refine ⟨?_, ?_, ?_⟩
    · intro e he; cases he
    · intro b hb; exact ⟨b, hb, Nat.le_refl _⟩
    · intro r hr; exact Or.inr hr
  | cons a t ih =>
    intro best
    simp only [List.foldl_cons]
    refine ⟨?_, ?_, ?_⟩
    · intro e he
      simp only [List.mem_cons] at he
      rcases he with rfl | he
      · cases best with
        | none => exact (ih (some e)).2.1 e rfl
        | some b =>
          simp only
          by_cases hlt : b.seq < e.seq
          · rw [if_pos hlt]; exact (ih (some e)).2.1 e rfl
          · rw [if_neg hlt]
            obtain ⟨r, h1, h2⟩ := (ih (some b)).2.1 b rfl
            exact ⟨r, h1, by omega⟩
      · exact (ih _).1 e he
    · intro b hb
      subst hb
      simp only
      by_cases hlt : b.seq < a.seq
      · rw [if_pos hlt]
        obtain ⟨r, h1, h2⟩ := (ih (some a)).2.1 a rfl
        exact ⟨r, h1, by omega⟩
      · rw [if_neg hlt]; exact (ih (some b)).2.1 b rfl
    · intro r hr
      cases best with
      | none =>
        rcases (ih (some a)).2.2 r hr with h1 | h1
        · exact Or.inl (List.mem_cons_of_mem _ h1)
        · cases h1; exact Or.inl (List.mem_cons_self ..)
      | some b =>
        simp only at hr
        by_cases hlt : b.seq < a.seq
        · rw [if_pos hlt] at hr
          rcases (ih (some a)).2.2 r hr with h1 | h1
          · exact Or.inl (List.mem_cons_of_mem _ h1)
          · cases h1; exact Or.inl (List.mem_cons_self ..)
        · rw [if_neg hlt] at hr
          rcases (ih (some b)).2.2 r hr with h1 | h1
          · exact Or.inl (List.mem_cons_of_mem _ h1)
          · exact Or.inr h1

theorem lookup_ge {s : St} {sn : Snap} {e : Entry} (he : e ∈ view s sn) :
    ∃ r, lookup s sn e.key = some r ∧ e.seq ≤ r.seq := by
  unfold lookup newest
  apply (newestFold_spec _ none).1 e
  rw [List.mem_filter]
  exact ⟨he, by simp⟩

theorem lookup_mem {s : St} {sn : Snap} {k : Nat} {r : Entry} (h : lookup s sn k = some r) :
    r ∈ view s sn ∧ r.key = k := by
  unfold lookup newest at h
  rcases (newestFold_spec _ none).2.2 r h with h1 | h1
  · rw [List.mem_filter] at h1
    exact ⟨h1.1, by simpa using h1.2⟩
  · cases h1

/-- a write that has left the wait list is covered by every timestamp taken from then on, under
    both policies -/
theorem finished_le_readTs {s : St} (h : Inv s) (w : Writer) (hw : w ∈ s.writers) (hf : w.finished = true) :
    w.seq ≤ readTs s := by
  have := (h.fin_vis w hw).mp hf
  unfold readTs
  split
  · exact this
  · exact Nat.le_trans this h.vis_le

/-- **C06, no stale read** (both policies, every interleaving incl. rollover and flush): a reader
    whose timestamp covers a write that has returned finds, for each key of that write, that write
    or a newer one — at every later moment at which it looks -/
theorem no_stale_read {c : Bool} {seq0 mem0 : Nat} {evs : List Ev} {s : St}
    (hrun : run (init c seq0 mem0) evs = some s)
    (r : Nat × Snap) (hr : r ∈ s.readers) (hclean : r.2.clean = true)
    (w : Writer) (hw : w ∈ s.writers) (hf : w.finished = true)
    (hcov : w.seq ≤ r.2.ts) (k : Nat) (v : Option Nat) (hkv : (k, v) ∈ w.batch) :
    ∃ e, lookup s r.2 k = some e ∧ w.seq ≤ e.seq := by
  have h := inv_run evs (inv_init c seq0 mem0) hrun
  have htodo := h.done w hw hf
  have hin : (⟨k, w.seq, v⟩ : Entry) ∈ view s r.2 := by
    rw [mem_view]
    refine ⟨w.tbl, ?_, (h.rd r hr).2.2 hclean w hw hcov, hcov⟩
    rcases h.placed w hw (k, v) hkv with h1 | h1
    · rw [htodo] at h1; cases h1
    · exact h1
  exact lookup_ge hin

/-- … and the timestamp of a snapshot taken after the write returned does cover it -/
theorem snapshot_after_return_covers {c : Bool} {seq0 mem0 : Nat} {evs : List Ev} {s s' : St}
    (hrun : run (init c seq0 mem0) evs = some s)
    (w : Writer) (hw : w ∈ s.writers) (hf : w.finished = true)
    (rid ts mem : Nat) (imm : Bool) (hs : step s (.rSnap rid ts mem imm) = some s') :
    w.seq ≤ ts := by
  have h := inv_run evs (inv_init c seq0 mem0) hrun
  simp only [step] at hs
  split at hs
  · split at hs
    · rename_i hc
      rw [hc.1]; exact finished_le_readTs h w hw hf
    · cases hs
  · cases hs

/-- **C06, no phantom, nothing from the future**: what a lookup returns was written — it is an
    entry of the batch of the write with that sequence number, for that key — and that write
    began before the snapshot was taken (its number is not beyond the snapshot's timestamp) -/
theorem no_phantom {c : Bool} {seq0 mem0 : Nat} {evs : List Ev} {s : St}
    (hrun : run (init c seq0 mem0) evs = some s) (sn : Snap) (k : Nat) (e : Entry)
    (hl : lookup s sn k = some e) :
    e.seq ≤ sn.ts ∧ ∃ w ∈ s.writers, w.seq = e.seq ∧ (k, e.val) ∈ w.batch := by
  have h := inv_run evs (inv_init c seq0 mem0) hrun
  obtain ⟨hv, hk⟩ := lookup_mem hl
  obtain ⟨t, h1, _, h3⟩ := mem_view.mp hv
  obtain ⟨w, hw, h4, _, h6⟩ := h.from_batch (t, e) h1
  exact ⟨h3, w, hw, h4, by rw [← hk]; exact h6⟩

/-- the order of the sequence numbers respects real time: a write that begins gets a number
    beyond that of every write that exists (in particular of every write that has returned) -/
theorem write_order {c : Bool} {seq0 mem0 : Nat} {evs : List Ev} {s s' : St}
    (hrun : run (init c seq0 mem0) evs = some s) (q t : Nat) (b : List (Nat × Option Nat))
    (hs : step s (.wBegin q t b) = some s') : ∀ w ∈ s.writers, w.seq < q := by
  have h := inv_run evs (inv_init c seq0 mem0) hrun
  intro w hw
  simp only [step] at hs
  split at hs
  · rename_i hc
    have := h.wbound w hw
    omega
  · cases hs

/-- **rollover, joined with the writers**: at every instant — between rotation, the flush thread's
    passing the wait list, version installation and the clearing of the immutable memtable — the
    tables a snapshot searches hold every entry inserted so far -/
theorem snapshot_covers_all {c : Bool} {seq0 mem0 : Nat} {evs : List Ev} {s : St}
    (hrun : run (init c seq0 mem0) evs = some s) : ∀ te ∈ s.ents, te.1 ∈ liveTables s := by
  have h := inv_run evs (inv_init c seq0 mem0) hrun
  intro te hte
  obtain ⟨w, hw, _, h2, _⟩ := h.from_batch te hte
  rw [← h2]; exact h.tbl_live w hw

/-! ## the tree version is taken in a step of its own -/

/-- **the three-part snapshot is complete when it is clean**: a reader whose tree version and
    mem / imm were taken with no `imm := none` step in between sees every entry of every write
    that has returned and that its timestamp covers -/
theorem snapshot_complete_of_clean {c : Bool} {seq0 mem0 : Nat} {evs : List Ev} {s : St}
    (hrun : run (init c seq0 mem0) evs = some s) (r : Nat × Snap) (hr : r ∈ s.readers)
    (hclean : r.2.clean = true) :
    ∀ w ∈ s.writers, w.finished = true → w.seq ≤ r.2.ts →
      ∀ kv ∈ w.batch, (⟨kv.1, w.seq, kv.2⟩ : Entry) ∈ view s r.2 := by
  have h := inv_run evs (inv_init c seq0 mem0) hrun
  intro w hw hf hcov kv hkv
  have htodo := h.done w hw hf
  rw [mem_view]
  refine ⟨w.tbl, ?_, (h.rd r hr).2.2 hclean w hw hcov, hcov⟩
  rcases h.placed w hw kv hkv with h1 | h1
  · rw [htodo] at h1; cases h1
  · exact h1

theorem find_filter_ne {α : Type} (l : List (Nat × α)) (rid rid' : Nat) (hne : rid ≠ rid') :
    (l.filter (fun p => decide (p.1 ≠ rid'))).find? (fun p => decide (p.1 = rid)) =
      l.find? (fun p => decide (p.1 = rid)) := by
  induction l with
  | nil => rfl
  | cons a t ih =>
    by_cases h1 : a.1 = rid'
    · have h2 : ¬ a.1 = rid := by intro h3; exact hne (h3.symm.trans h1)
      rw [List.filter_cons_of_neg (by simp [h1]), List.find?_cons_of_neg (by simp [h2])]
      exact ih
    · rw [List.filter_cons_of_pos (by simp [h1])]
      by_cases h2 : a.1 = rid
      · rw [List.find?_cons_of_pos (by simp [h2]), List.find?_cons_of_pos (by simp [h2])]
      · rw [List.find?_cons_of_neg (by simp [h2]), List.find?_cons_of_neg (by simp [h2])]
        exact ih

/-- the steps that leave the tree version reader `rid` holds, and its ghost flag, alone: all but
    `fClear`, and the reader's own `rTree` / `rSnap` -/
def keepsTree (rid : Nat) : Ev → Bool
  | .fClear _ => false
  | .rTree r _ => r ≠ rid
  | .rSnap r _ _ _ => r ≠ rid
  | _ => true

theorem tree_step_keep {s s' : St} {rid : Nat} {p : Nat × (List Nat × Bool)} (ev : Ev)
    (hk : keepsTree rid ev = true) (hs : step s ev = some s')
    (hp : s.trees.find? (fun p => decide (p.1 = rid)) = some p) :
    s'.trees.find? (fun p => decide (p.1 = rid)) = some p := by
  cases ev with
  | fClear o => simp [keepsTree] at hk
  | rTree r v =>
    simp only [keepsTree, decide_eq_true_eq] at hk
    simp only [step] at hs
    split at hs
    · cases hs
      show ((r, (s.flushed, true)) :: s.trees.filter (fun p => decide (p.1 ≠ r))).find? _ = _
      rw [List.find?_cons_of_neg (by simp [hk]), find_filter_ne _ _ _ (fun h => hk h.symm)]
      exact hp
    · cases hs
  | rSnap r t m i =>
    simp only [keepsTree, decide_eq_true_eq] at hk
    simp only [step] at hs
    split at hs
    · split at hs
      · cases hs
        show (s.trees.filter (fun p => decide (p.1 ≠ r))).find? _ = _
        rw [find_filter_ne _ _ _ (fun h => hk h.symm)]
        exact hp
      · cases hs
    · cases hs
  | wBegin seq tbl batch =>
    simp only [step] at hs; split at hs
    · cases hs; exact hp
    · cases hs
  | wLog seq =>
    simp only [step] at hs; split at hs
    · split at hs
      · cases hs; exact hp
      · cases hs
    · cases hs
  | wIns seq idx =>
    simp only [step] at hs; split at hs
    · split at hs
      · split at hs
        · cases hs; exact hp
        · cases hs
      · cases hs
    · cases hs
  | wFin seq =>
    simp only [step] at hs; split at hs
    · split at hs
      · cases hs; exact hp
      · cases hs
    · cases hs
  | fRotate n o =>
    simp only [step] at hs; split at hs
    · cases hs; exact hp
    · cases hs
  | fHead m =>
    simp only [step] at hs; split at hs
    · cases hs; exact hp
    · cases hs
  | fInstall o vid =>
    simp only [step] at hs; split at hs
    · cases hs; exact hp
    · cases hs
  | tInstall vid =>
    simp only [step] at hs; split at hs
    · cases hs; exact hp
    · cases hs
  | wFail seq =>
    simp only [step] at hs; split at hs
    · split at hs
      · cases hs; exact hp
      · cases hs
    · cases hs

theorem tree_run_keep : ∀ (evs : List Ev) {s s' : St} {rid : Nat} {p : Nat × (List Nat × Bool)},
    (∀ e ∈ evs, keepsTree rid e = true) → run s evs = some s' →
    s.trees.find? (fun p => decide (p.1 = rid)) = some p →
    s'.trees.find? (fun p => decide (p.1 = rid)) = some p
  | [], s, s', _, _, _, hr, hp => by simp only [run] at hr; cases hr; exact hp
  | e :: es, s, s', rid, p, hk, hr, hp => by
    rw [run_cons] at hr
    split at hr
    · rename_i s1 hs1
      exact tree_run_keep es (fun e' he' => hk e' (List.mem_cons_of_mem _ he')) hr
        (tree_step_keep e (hk e (List.mem_cons_self ..)) hs1 hp)
    · cases hr

theorem run_append : ∀ (a b : List Ev) (s : St),
    run s (a ++ b) = match run s a with | some s' => run s' b | none => none
  | [], b, s => by simp [run]
  | e :: a, b, s => by
    rw [List.cons_append, run_cons, run_cons]
    cases step s e with
    | none => rfl
    | some s1 => exact run_append a b s1

/-- **`snapshot_tree_consistent`**: a reader takes its tree version (`rTree`) and, in a later step,
    mem / imm and its timestamp (`rSnap`).  If no `imm := none` step of the flush thread falls
    between the two (nor another snapshot of the same reader) — as is the case whenever the
    version is cloned while the store mutex is held — the three-part snapshot is clean and
    therefore complete: every entry of every write that has returned and that the timestamp covers
    is in mem ∪ imm ∪ tree.  Any number of writer steps, rotations, wait-list hand-offs, version
    installs and other readers may fall in between. -/
theorem snapshot_tree_consistent {c : Bool} {seq0 mem0 : Nat} {pre mid : List Ev} {rid vid ts mem : Nat}
    {imm : Bool} {s : St}
    (hrun : run (init c seq0 mem0) (pre ++ (Ev.rTree rid vid :: mid) ++ [Ev.rSnap rid ts mem imm]) = some s)
    (hmid : ∀ e ∈ mid, keepsTree rid e = true) :
    ∃ sn, s.readers.head? = some (rid, sn) ∧ sn.clean = true ∧ sn.ts = ts ∧
      ∀ w ∈ s.writers, w.finished = true → w.seq ≤ ts →
        ∀ kv ∈ w.batch, (⟨kv.1, w.seq, kv.2⟩ : Entry) ∈ view s sn := by
  have hrun0 := hrun
  rw [run_append] at hrun
  split at hrun
  · rename_i s3 h3
    rw [run_append] at h3
    split at h3
    · rename_i s1 _
      rw [run_cons] at h3
      split at h3
      · rename_i s2 h2
        -- after `rTree` the reader holds (flushed, true)
        have hp2 : s2.trees.find? (fun p => decide (p.1 = rid)) = some (rid, (s1.flushed, true)) := by
          simp only [step] at h2
          split at h2
          · cases h2
            show ((rid, (s1.flushed, true)) :: _).find? _ = _
            rw [List.find?_cons_of_pos (by simp)]
          · cases h2
        have hp3 := tree_run_keep mid hmid h3 hp2
        simp only [run] at hrun
        split at hrun
        · rename_i s4 h4
          cases hrun
          simp only [step, hp3] at h4
          split at h4
          · rename_i hc
            cases h4
            refine ⟨_, rfl, rfl, rfl, ?_⟩
            intro w hw hf hcov
            exact snapshot_complete_of_clean hrun0 _ (List.mem_cons_self ..) rfl w hw hf hcov
          · cases h4
        · cases hrun
      · cases h3
    · cases h3
  · cases hrun

/-- **`stale_read_as_mutated`**: the interleaving a store that clones its tree version BEFORE it
    takes the store mutex admits — `rTree` (old version), the flush installs the new version and
    clears `imm`, `rSnap`: the put of key 1 returned long before, the reader's timestamp covers it,
    and the reader finds nothing (its snapshot is not clean) -/
theorem stale_read_as_mutated :
    (run (init true 2 1) [.wBegin 3 1 [(1, some 7)], .wLog 3, .wIns 3 0, .wFin 3, .fRotate 3 1, .fHead 3,
        .rTree 0 0, .fInstall 1 1, .fClear 1, .rSnap 0 3 3 false]).map
      (fun s => s.readers.map (fun r => (r.2.ts, r.2.tbls, r.2.clean, value s r.2 1)))
      = some [(3, [3], false, none)] := by
  decide

/-- … and the same events with the clone inside the critical section (`rTree` directly before
    `rSnap`, at either side of the flush's steps) find the value -/
theorem same_schedule_clone_under_mutex :
    (run (init true 2 1) [.wBegin 3 1 [(1, some 7)], .wLog 3, .wIns 3 0, .wFin 3, .fRotate 3 1, .fHead 3,
        .rTree 0 0, .rSnap 0 3 3 true, .fInstall 1 1, .rTree 1 1, .rSnap 1 3 3 true, .fClear 1,
        .rTree 2 1, .rSnap 2 3 3 false]).map
      (fun s => s.readers.map (fun r => (r.1, r.2.tbls, r.2.clean, value s r.2 1)))
      = some [(2, [3, 1], true, some 7), (1, [3, 1, 1], true, some 7), (0, [3, 1], true, some 7)] := by
  decide

/-! ## the read timestamp as found (D-6) -/

/-- as found, a snapshot taken between the two inserts of one batch sees the first entry and not
    the second -/
theorem batch_atomic_fails_as_found :
    (run (init false 2 1) [.wBegin 3 1 [(1, some 7), (2, some 7)], .wLog 3, .wIns 3 0, .rTree 0 0,
        .rSnap 0 3 1 false]).map
      (fun s => (value s ⟨3, [1], true⟩ 1, value s ⟨3, [1], true⟩ 2)) = some (some 7, none) := by
  decide

/-- as found, a writer in flight when the snapshot is taken changes what the snapshot sees when it
    completes (an open cursor is not a stable snapshot) -/
theorem snapshot_unstable_as_found :
    (run (init false 2 1) [.wBegin 3 1 [(1, some 7)], .wLog 3, .rTree 0 0, .rSnap 0 3 1 false]).map
      (fun s => value s ⟨3, [1], true⟩ 1) = some none ∧
    (run (init false 2 1) [.wBegin 3 1 [(1, some 7)], .wLog 3, .rTree 0 0, .rSnap 0 3 1 false, .wIns 3 0,
        .wFin 3]).map
      (fun s => value s ⟨3, [1], true⟩ 1) = some (some 7) := by
  decide

/-- the same schedule on the repaired store: the event `rSnap … ts = 3` is not enabled (the
    timestamp is 2), and with `ts = 2` the snapshot sees nothing of the batch, before and after -/
theorem repaired_same_schedule :
    run (init true 2 1) [.wBegin 3 1 [(1, some 7), (2, some 7)], .wLog 3, .wIns 3 0, .rTree 0 0,
        .rSnap 0 3 1 false] = none ∧
    (run (init true 2 1) [.wBegin 3 1 [(1, some 7), (2, some 7)], .wLog 3, .wIns 3 0, .rTree 0 0,
        .rSnap 0 2 1 false, .wIns 3 1, .wFin 3]).map
      (fun s => (value s ⟨2, [1], true⟩ 1, value s ⟨2, [1], true⟩ 2, readTs s)) = some (none, none, 3) := by
  decide

end Blue.KvsConc
