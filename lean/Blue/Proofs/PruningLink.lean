import Blue.Proofs.PruningMain
import Blue.Proofs.PruningNat
/-! The generic pruning cursor over the reference child is the cursor the refinement proof is about. -/
namespace Blue.Cursor
variable {E K : Type} [DecidableEq K] (cfg : PruneCfg E K) (n : Nat)

theorem scanFwd_ref : ∀ (f : Nat) (c : Ref E) (s : Option K),
    PruningC.scanFwd (RefCur E) cfg f c s = Pruning.scanFwd cfg f c s := by
  intro f; induction f with
  | zero => intros; rfl
  | succ f ih => intro c s; simp only [PruningC.scanFwd, Pruning.scanFwd, RefCur_kv, RefCur_next, RefCur_prev, ih]; rfl

theorem skipBack_ref : ∀ (f : Nat) (c : Ref E) (s : Option K),
    PruningC.skipBack (RefCur E) cfg f c s = Pruning.skipBack cfg f c s := by
  intro f; induction f with
  | zero => intros; rfl
  | succ f ih => intro c s; simp only [PruningC.skipBack, Pruning.skipBack, RefCur_kv, RefCur_next, RefCur_prev, ih]; rfl

theorem backToRunStart_ref : ∀ (f : Nat) (c : Ref E) (t : K),
    PruningC.backToRunStart (RefCur E) cfg f c t = Pruning.backToRunStart cfg f c t := by
  intro f; induction f with
  | zero => intros; rfl
  | succ f ih => intro c t; simp only [PruningC.backToRunStart, Pruning.backToRunStart, RefCur_kv, RefCur_next, RefCur_prev, ih]; rfl

theorem fwdToCand_ref : ∀ (f : Nat) (c : Ref E) (t : K),
    PruningC.fwdToCand (RefCur E) cfg f c t = Pruning.fwdToCand cfg f c t := by
  intro f; induction f with
  | zero => intros; rfl
  | succ f ih => intro c t; simp only [PruningC.fwdToCand, Pruning.fwdToCand, RefCur_kv, RefCur_next, RefCur_prev, ih]; rfl

theorem prevLoop_ref : ∀ (f : Nat) (c : Ref E) (s : Option K),
    PruningC.prevLoop (RefCur E) cfg n f c s = (Pruning.prevLoop cfg n f c s).map (fun p => (p.c, p.skip)) := by
  intro f; induction f with
  | zero => intros; rfl
  | succ f ih =>
    intro c s
    simp only [PruningC.prevLoop, Pruning.prevLoop, skipBack_ref, backToRunStart_ref, fwdToCand_ref,
      RefCur_kv, RefCur_next, RefCur_prev, ih]
    cases Pruning.skipBack cfg n c.prev s with
    | mk c2 flag =>
      cases flag with
      | true => rfl
      | false =>
        simp only [RefCur_kv]
        cases c2.kv with
        | none => rfl
        | some e =>
          simp only [ih, backToRunStart_ref, fwdToCand_ref, RefCur_kv, RefCur_next]
          cases htsv : cfg.tsOk e with
          | false => simp only [Bool.not_false, ↓reduceIte]; try rfl
          | true =>
            simp only [Bool.not_true, Bool.false_eq_true, ↓reduceIte]
            try simp only [fwdToCand_ref, RefCur_kv]
            cases (Pruning.fwdToCand cfg n
                (if (Pruning.backToRunStart cfg n c2 (cfg.key e)).kv.isNone = true then
                  (Pruning.backToRunStart cfg n c2 (cfg.key e)).next
                else Pruning.backToRunStart cfg n c2 (cfg.key e))
                (cfg.key e)).kv with
            | none => rfl
            | some e5 =>
              simp only
              cases htb : cfg.tomb e5 with
              | false => simp only [Bool.not_false, ↓reduceIte]; rfl
              | true => simp only [Bool.not_true, Bool.false_eq_true, ↓reduceIte, ih]

theorem prev_of_loop (C : Cur E) (p : PruningC C K) (c : C.σ) (s : Option K)
    (h : PruningC.prevLoop C cfg n n p.c (if (C.kv p.c).isNone then none else p.skip) = some (c, s)) :
    PruningC.prev C cfg n p = ⟨c, s, p.err⟩ := by
  unfold PruningC.prev
  simp only [h]

/-- generic state ↔ specific state -/
def ofSpec (p : Pruning E K) : PruningC (RefCur E) K := ⟨p.c, p.skip, false⟩

theorem step_ref (p p' : Pruning E K) (op : Op E) (h : Pruning.step cfg n p op = some p') :
    (PruningC.cur (RefCur E) cfg n).step (ofSpec p) op = ofSpec p' := by
  cases op with
  | first => simp only [Pruning.step, Option.some.injEq] at h; subst h; rfl
  | last => simp only [Pruning.step, Option.some.injEq] at h; subst h; rfl
  | next =>
    simp only [Pruning.step, Option.some.injEq] at h; subst h
    show PruningC.next (RefCur E) cfg n (ofSpec p) = _
    simp only [PruningC.next, ofSpec, scanFwd_ref, RefCur_next, Pruning.next]
  | seek pred =>
    simp only [Pruning.step, Option.some.injEq] at h; subst h
    show PruningC.seek (RefCur E) cfg n pred (ofSpec p) = _
    simp only [PruningC.seek, ofSpec, scanFwd_ref, RefCur_seek, Pruning.seek]
  | prev =>
    simp only [Pruning.step] at h
    unfold Pruning.prev at h
    simp only at h
    have hgen : PruningC.prevLoop (RefCur E) cfg n n (ofSpec p).c
        (if ((RefCur E).kv (ofSpec p).c).isNone then none else (ofSpec p).skip) = some (p'.c, p'.skip) := by
      rw [prevLoop_ref]
      show Option.map _ (Pruning.prevLoop cfg n n p.c (if p.c.kv.isNone = true then none else p.skip)) = _
      rw [h]; rfl
    exact prev_of_loop cfg n (RefCur E) (ofSpec p) p'.c p'.skip hgen

open Blue.Cursor.Filtered in
/-- **C11, pruning cursor, in behavioural form**: the generic pruning cursor over a reference child
    cannot be told from the reference cursor over the pruned list. -/
theorem pruningC_ref_behEq (xs : List E) (g : Grouped cfg xs) (hn : xs.length + 2 ≤ n)
    (A : (E → Bool) → Prop) (hA : ∀ pred, A pred → SeekPred cfg xs pred) :
    ∀ (p : Pruning E K) (pos : Nat), PRel cfg xs p pos →
      BehEq A (PruningC.cur (RefCur E) cfg n) (ofSpec p) (RefCur E) ⟨pruned cfg xs, pos⟩ := by
  intro p pos h ops
  induction ops generalizing p pos with
  | nil =>
    intro _
    simp only [Cur.beh, Cur.runTo, List.foldl_nil]
    have := prel_kv cfg xs h
    exact Prod.ext this rfl
  | cons op ops ih =>
    intro ha
    obtain ⟨ha1, ha2⟩ := adm_cons.mp ha
    obtain ⟨p', h1, h2, h3⟩ := prel_step cfg xs g n hn h op (fun pred hp => hA pred (by subst hp; exact ha1))
    have hstep := step_ref cfg n p p' op h1
    have hc : (Ref.mk (pruned cfg xs) pos).step op = ⟨pruned cfg xs, ((Ref.mk (pruned cfg xs) pos).step op).pos⟩ := by
      cases hs : (Ref.mk (pruned cfg xs) pos).step op with
      | mk a b => rw [hs] at h3; simp at h3; simp [h3]
    show (PruningC.cur (RefCur E) cfg n).beh ((PruningC.cur (RefCur E) cfg n).step (ofSpec p) op) ops
      = (RefCur E).beh ((RefCur E).step ⟨pruned cfg xs, pos⟩ op) ops
    rw [hstep]
    have hr : (RefCur E).step ⟨pruned cfg xs, pos⟩ op = ⟨pruned cfg xs, ((Ref.mk (pruned cfg xs) pos).step op).pos⟩ := by
      rw [← hc]; cases op <;> rfl
    rw [hr]
    exact ih p' _ h2 ha2

end Blue.Cursor
