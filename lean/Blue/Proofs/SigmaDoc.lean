import Blue.Proofs.SigmaRange
import Blue.Proofs.SampledDoc
/-! The document queries on code points, through `Sigma` and the sampled containers, are the plain
    scan of the original text: `count`, `search`, `retrieve`. -/
namespace Blue.Sigma
open Blue.BitVec Blue.Sampled Blue.Csa Blue.CsaDoc

/-! ### backward search sees the needle only through `sa_range_for` -/

theorem backwardSearch_map (l : List (List Nat)) (rf : Nat → Nat × Nat) (f : Nat → Nat) :
    ∀ (needle : List Nat), backwardSearch l rf (needle.map f) = backwardSearch l (fun t => rf (f t)) needle
  | [] => rfl
  | [t] => rfl
  | c :: c' :: w => by
    have ih := backwardSearch_map l rf f (c' :: w)
    simp only [List.map_cons] at ih ⊢
    simp only [backwardSearch]
    rw [ih]

/-! ### occurrences in the translated text are occurrences in the text -/

/-- distinct code points get distinct needle symbols, as long as one of them occurs -/
theorem needleSym_inj (text : List Nat) (x a : Nat) (ha : a ∈ text)
    (h : needleSym (sigOf text) x = needleSym (sigOf text) a) : x = a := by
  have h1 := needleSym_of_mem text a ha
  by_cases hx : x ∈ text
  · have h2 := needleSym_of_mem text x hx
    rw [h] at h2
    have a1 := (charToSigma_iff _ (sigOf_sorted text) a _).mp h1
    have a2 := (charToSigma_iff _ (sigOf_sorted text) x _).mp h2
    rw [a1.2] at a2
    exact (Option.some.inj a2.2).symm
  · exfalso
    have := needleSym_absent text x hx
    have := needleSym_lt_of_mem text a ha
    omega

theorem isPrefixOf_translated (text : List Nat) : ∀ (p A : List Nat), (∀ a ∈ A, a ∈ text) →
    (p.map (needleSym (sigOf text))).isPrefixOf (A.map (needleSym (sigOf text)) ++ [0]) = p.isPrefixOf A
  | [], _, _ => by simp
  | x :: p, [], _ => by
    have := needleSym_pos text x
    simp [List.isPrefixOf]; omega
  | x :: p, a :: A, hA => by
    simp only [List.map_cons, List.cons_append, List.isPrefixOf_cons_cons]
    rw [isPrefixOf_translated text p A (fun b hb => hA b (List.mem_cons_of_mem _ hb))]
    have ha := hA a List.mem_cons_self
    have hb : (needleSym (sigOf text) x == needleSym (sigOf text) a) = (x == a) := by
      by_cases h : x = a
      · subst h; simp
      · have : needleSym (sigOf text) x ≠ needleSym (sigOf text) a := fun e => h (needleSym_inj text x a ha e)
        have e1 : (x == a) = false := by rw [beq_eq_false_iff_ne]; exact h
        have e2 : (needleSym (sigOf text) x == needleSym (sigOf text) a) = false := by
          rw [beq_eq_false_iff_ne]; exact this
        rw [e1, e2]
    rw [hb]

theorem drop_translated (text : List Nat) (k : Nat) (hk : k ≤ text.length) :
    (translated text).drop k = (text.drop k).map (needleSym (sigOf text)) ++ [0] := by
  unfold translated
  rw [List.drop_append_of_le_length (by simpa using hk), List.map_drop]

theorem translated_length (text : List Nat) : (translated text).length = text.length + 1 := by
  simp [translated]

/-- the occurrences of the translated needle in the translated text are those of the needle in
    the text -/
theorem occurs_translated (text needle : List Nat) (hne : needle ≠ []) (k : Nat) :
    (k < (translated text).length ∧ needle.map (needleSym (sigOf text)) <+: (translated text).drop k)
      ↔ (k < text.length ∧ needle <+: text.drop k) := by
  rw [translated_length, ← List.isPrefixOf_iff_prefix, ← List.isPrefixOf_iff_prefix]
  by_cases hk : k < text.length
  · rw [drop_translated text k (by omega), isPrefixOf_translated text needle _
      (fun a ha => List.mem_of_mem_drop ha)]
    constructor
    · rintro ⟨_, h⟩; exact ⟨hk, h⟩
    · rintro ⟨_, h⟩; exact ⟨by omega, h⟩
  · constructor
    · rintro ⟨h1, h2⟩
      exfalso
      have : k = text.length := by omega
      subst this
      rw [drop_translated text _ (Nat.le_refl _)] at h2
      cases needle with
      | nil => exact hne rfl
      | cons x p =>
        have := needleSym_pos text x
        simp [List.isPrefixOf] at h2
        omega
    · rintro ⟨h1, _⟩; exact absurd h1 hk

/-! ### count and search -/

section
variable (text : List Nat) {l : List (List Nat)} (hperm : l.Perm (suffixes (translated text)))
  (hsorted : l.Pairwise (fun a b => lexLt a b = true))
include hperm

theorem rangeForT_fun : rangeForT (sigOf text) = fun t => sigmaRange l (needleSym (sigOf text) t) :=
  funext (fun t => rangeForT_eq text hperm t)

theorem backwardSearch_codepoints (needle : List Nat) :
    backwardSearch l (rangeForT (sigOf text)) needle
      = backwardSearch l (sigmaRange l) (needle.map (needleSym (sigOf text))) := by
  rw [backwardSearch_map, rangeForT_fun text hperm]

include hsorted

/-- **C19** `count` on code points — `Sigma::sa_range_for` of every needle symbol (the empty range
    for a code point that does not occur), then backward search — is the number of positions of the
    original text at which the needle occurs -/
theorem count_codepoints (needle : List Nat) (hne : needle ≠ []) :
    Blue.Csa.count l (rangeForT (sigOf text)) needle
      = ((List.range text.length).filter (fun k => needle.isPrefixOf (text.drop k))).length := by
  have hc : Blue.Csa.count l (rangeForT (sigOf text)) needle
      = Blue.CsaDoc.count l (needle.map (needleSym (sigOf text))) := by
    unfold Blue.CsaDoc.count Blue.Csa.count
    rw [backwardSearch_codepoints text hperm]
  rw [hc, count_is_scan (translated text) (translated_marked text) hperm hsorted _ (by simpa using hne)
    (by intro c hc; simp only [List.mem_map] at hc; obtain ⟨x, _, rfl⟩ := hc; exact needleSym_pos text x)]
  rw [translated_length, List.range_succ, List.filter_append, List.length_append]
  have hlast : (List.filter (fun k => (needle.map (needleSym (sigOf text))).isPrefixOf ((translated text).drop k))
      [text.length]) = [] := by
    rw [List.filter_cons, drop_translated text _ (Nat.le_refl _)]
    cases needle with
    | nil => exact absurd rfl hne
    | cons x p =>
      have := needleSym_pos text x
      simp [List.isPrefixOf]; omega
  rw [hlast, List.length_nil, Nat.add_zero]
  congr 1
  apply List.filter_congr
  intro k hk
  rw [List.mem_range] at hk
  rw [drop_translated text k (by omega), isPrefixOf_translated text needle _ (fun a ha => List.mem_of_mem_drop ha)]

/-- **C19** `search` on code points through the sampled suffix array (any stride): exactly the
    positions of the original text at which the needle occurs, in ascending order -/
theorem search_codepoints (st : Nat) (needle : List Nat) (hne : needle ≠ []) :
    ∃ ssa ps, ssaConstruct st (saList l) = some ssa
      ∧ searchRT (rangeForT (sigOf text)) (psiTable l) l ssa needle = some ps
      ∧ ps.Pairwise (· ≤ ·) ∧ ∀ k, k ∈ ps ↔ (k < text.length ∧ needle <+: text.drop k) := by
  have hT : translated text ≠ [] := by simp [translated]
  have h0 : (str l 0).length = 1 := by
    -- rank 0 is the end marker's suffix: every other suffix starts with a symbol above it
    have hs := sorted_of_suffixes _ l hperm hsorted
    have hlen := length_eq _ hperm
    have hl0 : 0 < l.length := by rw [hlen, translated_length]; omega
    obtain ⟨hd, hlt⟩ := str_is_drop _ hperm 0 hl0
    have hTl := translated_length text
    rcases Nat.lt_or_ge (saOf l (translated text).length 0) text.length with hk | hk
    · exfalso
      have hm : [0] ∈ l := by
        rw [hperm.mem_iff]
        simp only [suffixes, List.mem_map, List.mem_range]
        refine ⟨text.length, by omega, ?_⟩
        rw [drop_translated text _ (Nat.le_refl _)]; simp
      have hi := List.idxOf_lt_length_iff.mpr hm
      have hstr := str_idxOf hm
      have hlt0 : lexLt [0] (str l 0) = true := by
        rw [hd, drop_translated text _ (by omega)]
        cases hh : text.drop (saOf l (translated text).length 0) with
        | nil =>
          have := congrArg List.length hh
          simp at this; omega
        | cons a t =>
          have := needleSym_pos text a
          simp [lexLt]; omega
      rcases Nat.eq_zero_or_pos (l.idxOf [0]) with hz | hp
      · rw [← hstr, hz, lexLt_irrefl] at hlt0; cases hlt0
      · have := str_lt hs hp hi
        rw [hstr] at this
        rw [lexLt_asymm _ _ this] at hlt0; cases hlt0
    · rw [hd, List.length_drop]; omega
  obtain ⟨ssa, hc, hl⟩ := ssaLookup_exact _ hperm hsorted hT h0 st
  have hnm : needle.map (needleSym (sigOf text)) ≠ [] := by simpa using hne
  have hpos : ∀ c ∈ needle.map (needleSym (sigOf text)), c ≠ 0 := by
    intro c hc; simp only [List.mem_map] at hc; obtain ⟨x, _, rfl⟩ := hc; exact needleSym_pos text x
  have hr : ∀ c ∈ needle.map (needleSym (sigOf text)), RangeOk l c (sigmaRange l c) :=
    fun c hc => sigmaRange_ok _ (translated_marked text) hperm hsorted c (hpos c hc)
  have hle := backwardSearch_snd_le (sigmaRange l) _ hnm hr
  refine ⟨ssa, search l (needle.map (needleSym (sigOf text))), hc, ?_, search_sorted _ _, ?_⟩
  · have e : searchRT (rangeForT (sigOf text)) (psiTable l) l ssa needle
        = searchT (psiTable l) l ssa (needle.map (needleSym (sigOf text))) := by
      unfold searchT searchRT
      rw [backwardSearch_codepoints text hperm]
    rw [e, searchT_eq, searchS_eq l ssa _ hl hle]
  · intro k
    rw [mem_search _ (translated_marked text) hperm hsorted _ hnm hpos k]
    exact occurs_translated text needle hne k

end

end Blue.Sigma
